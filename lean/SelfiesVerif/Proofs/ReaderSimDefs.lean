/-
  C01r, stages (c)/(d): the ghost description of the parser's graph while it reads the decoder's
  output.

  `cnt j` = how many of the bonds of atom `j` (in adjacency order) have been read so far.
  `procd g cnt j` = those bonds.  A ring bond whose partner half has not been read yet is a
  placeholder (`none`) in the parser's graph; once the partner has been read both halves are there.
-/
import SelfiesVerif.Proofs.ReaderLexTop

namespace SV

/-- the bonds of atom `j` read so far -/
def procd (g : Mol) (cnt : Nat → Nat) (j : Nat) : List DirBond := (g.row j).take (cnt j)

/-- the partner half of (ring) bond `b` has been read -/
def closedB (g : Mol) (cnt : Nat → Nat) (b : DirBond) : Bool :=
  (procd g cnt b.dst).any fun x => x.dst == b.src

/-- what the parser's graph holds for the bond `b` once it has been read -/
def simEntry (g : Mol) (cnt : Nat → Nat) (b : DirBond) : Option PBond :=
  if b.ring && !closedB g cnt b then none else some (readBond b)

/-- the parser's adjacency row of atom `j` -/
def simRow (g : Mol) (cnt : Nat → Nat) (j : Nat) : List (Option PBond) :=
  (procd g cnt j).map (simEntry g cnt)

/-- one more bond of atom `p` has been read -/
def cntBump (cnt : Nat → Nat) (p : Nat) : Nat → Nat := fun j => if j = p then cnt j + 1 else cnt j

@[simp] theorem cntBump_self (cnt : Nat → Nat) (p : Nat) : cntBump cnt p p = cnt p + 1 := by simp [cntBump]
theorem cntBump_ne (cnt : Nat → Nat) {p j : Nat} (h : j ≠ p) : cntBump cnt p j = cnt j := by simp [cntBump, h]

/-! ### positions in a row -/

theorem getElem?_mem_row {l : List DirBond} {c : Nat} {b : DirBond} (h : l[c]? = some b) : b ∈ l :=
  List.mem_of_getElem? h

theorem pw_pos_unique : ∀ {row : List DirBond}, row.Pairwise (fun b b' => b.dst ≠ b'.dst) →
    ∀ {c c' : Nat} {x y : DirBond}, row[c]? = some x → row[c']? = some y → x.dst = y.dst → c = c'
  | [], _, _, _, _, _, h, _, _ => by simp at h
  | z :: row, hp, c, c', x, y, hx, hy, e => by
    rw [List.pairwise_cons] at hp
    cases c with
    | zero =>
      cases c' with
      | zero => rfl
      | succ c' =>
        simp only [List.getElem?_cons_zero, Option.some.injEq] at hx
        simp only [List.getElem?_cons_succ] at hy
        subst hx
        exact absurd e (hp.1 y (List.mem_of_getElem? hy))
    | succ c =>
      cases c' with
      | zero =>
        simp only [List.getElem?_cons_zero, Option.some.injEq] at hy
        simp only [List.getElem?_cons_succ] at hx
        subst hy
        exact absurd e.symm (hp.1 x (List.mem_of_getElem? hx))
      | succ c' =>
        simp only [List.getElem?_cons_succ] at hx hy
        rw [pw_pos_unique hp.2 hx hy e]

theorem pw_mem_unique {row : List DirBond} (hp : row.Pairwise (fun b b' => b.dst ≠ b'.dst))
    {x y : DirBond} (hx : x ∈ row) (hy : y ∈ row) (e : x.dst = y.dst) : x = y := by
  obtain ⟨c, hc⟩ := List.mem_iff_getElem?.mp hx
  obtain ⟨c', hc'⟩ := List.mem_iff_getElem?.mp hy
  have := pw_pos_unique hp hc hc' e
  subst this
  rw [hc] at hc'; cases hc'; rfl

theorem take_succ_of_getElem? {α} {l : List α} {c : Nat} {x : α} (h : l[c]? = some x) :
    l.take (c + 1) = l.take c ++ [x] := by
  rw [List.take_add_one, h]; rfl

theorem mem_take_iff_getElem? {α} {l : List α} {c : Nat} {x : α} :
    x ∈ l.take c ↔ ∃ q, q < c ∧ l[q]? = some x := by
  constructor
  · intro h
    obtain ⟨q, hq⟩ := List.mem_iff_getElem?.mp h
    rw [List.getElem?_take] at hq
    split at hq
    · exact ⟨q, by assumption, hq⟩
    · cases hq
  · rintro ⟨q, hq, hx⟩
    apply List.mem_iff_getElem?.mpr
    exact ⟨q, by rw [List.getElem?_take, if_pos hq]; exact hx⟩

/-! ### facts about the read part of a row -/

section
variable {g : Mol} {cnt : Nat → Nat}

theorem mem_procd {j : Nat} {x : DirBond} :
    x ∈ procd g cnt j ↔ ∃ q, q < cnt j ∧ (g.row j)[q]? = some x := mem_take_iff_getElem?

theorem procd_sub {j : Nat} {x : DirBond} (h : x ∈ procd g cnt j) : x ∈ g.row j :=
  List.mem_of_mem_take h

theorem WGraph.row_mem_lt (hg : WGraph g) {j : Nat} {x : DirBond} (h : x ∈ g.row j) :
    j < g.atoms.length := by
  rcases Nat.lt_or_ge j g.atoms.length with h' | h'
  · exact h'
  · rw [hg.row_nil h'] at h; cases h

theorem WGraph.row_src (hg : WGraph g) {j : Nat} {x : DirBond} (h : x ∈ g.row j) : x.src = j :=
  (hg.row_bonds (hg.row_mem_lt h) x h).1

theorem WGraph.row_pw (hg : WGraph g) (j : Nat) : (g.row j).Pairwise (fun b b' => b.dst ≠ b'.dst) := by
  rcases Nat.lt_or_ge j g.atoms.length with h' | h'
  · exact hg.nodup j _ (hg.row_get h')
  · rw [hg.row_nil h']; exact List.Pairwise.nil

theorem closedB_iff {b : DirBond} :
    closedB g cnt b = true ↔ ∃ x ∈ procd g cnt b.dst, x.dst = b.src := by
  simp [closedB]

theorem closedB_false_iff {b : DirBond} :
    closedB g cnt b = false ↔ ∀ x ∈ procd g cnt b.dst, x.dst ≠ b.src := by
  rw [← Bool.not_eq_true, closedB_iff]
  simp

/-! ### reading one more bond of atom `p` -/

theorem procd_bump_self {p : Nat} {b : DirBond} (hb : (g.row p)[cnt p]? = some b) :
    procd g (cntBump cnt p) p = procd g cnt p ++ [b] := by
  unfold procd
  rw [cntBump_self, take_succ_of_getElem? hb]

theorem procd_bump_ne {p j : Nat} (h : j ≠ p) : procd g (cntBump cnt p) j = procd g cnt j := by
  unfold procd; rw [cntBump_ne cnt h]

theorem closedB_bump {p : Nat} {b : DirBond} (hb : (g.row p)[cnt p]? = some b) (x : DirBond) :
    closedB g (cntBump cnt p) x = (closedB g cnt x || (x.dst == p && b.dst == x.src)) := by
  unfold closedB
  by_cases hx : x.dst = p
  · rw [hx, procd_bump_self hb]
    simp [List.any_append]
  · rw [procd_bump_ne hx]
    simp [hx]

/-- the new bond has no read partner: nothing that was read before changes its status -/
theorem closedB_bump_open (hg : WGraph g) {p : Nat} {b : DirBond} (hb : (g.row p)[cnt p]? = some b)
    (hopen : closedB g cnt b = false) {j : Nat} {x : DirBond} (hx : x ∈ procd g cnt j) :
    closedB g (cntBump cnt p) x = closedB g cnt x := by
  rw [closedB_bump hb]
  have hbs : b.src = p := hg.row_src (getElem?_mem_row hb)
  have hxs : x.src = j := hg.row_src (procd_sub hx)
  cases h1 : (x.dst == p && b.dst == x.src) with
  | false => simp
  | true =>
    exfalso
    simp only [Bool.and_eq_true, beq_iff_eq] at h1
    rw [closedB_false_iff] at hopen
    have : x ∈ procd g cnt b.dst := by rw [h1.2, hxs]; exact hx
    exact hopen x this (by rw [h1.1, hbs])

theorem simEntry_bump_open (hg : WGraph g) {p : Nat} {b : DirBond} (hb : (g.row p)[cnt p]? = some b)
    (hopen : closedB g cnt b = false) {j : Nat} {x : DirBond} (hx : x ∈ procd g cnt j) :
    simEntry g (cntBump cnt p) x = simEntry g cnt x := by
  unfold simEntry; rw [closedB_bump_open hg hb hopen hx]

theorem closedB_bump_new (hg : WGraph g) {p : Nat} {b : DirBond} (hb : (g.row p)[cnt p]? = some b) :
    closedB g (cntBump cnt p) b = closedB g cnt b := by
  rw [closedB_bump hb]
  have hbs : b.src = p := hg.row_src (getElem?_mem_row hb)
  have hne : b.src ≠ b.dst := (hg.row_bonds (hg.row_mem_lt (getElem?_mem_row hb)) b (getElem?_mem_row hb)).2.2.1
  have : (b.dst == p) = false := by
    rw [beq_eq_false_iff_ne]; rw [← hbs]; exact fun h => hne h.symm
  simp [this]

/-- rows of other atoms when the new bond has no read partner -/
theorem simRow_bump_open_ne (hg : WGraph g) {p : Nat} {b : DirBond} (hb : (g.row p)[cnt p]? = some b)
    (hopen : closedB g cnt b = false) {j : Nat} (hj : j ≠ p) :
    simRow g (cntBump cnt p) j = simRow g cnt j := by
  unfold simRow
  rw [procd_bump_ne hj]
  apply List.map_congr_left
  intro x hx
  exact simEntry_bump_open hg hb hopen hx

/-- the row of `p` itself: the old entries keep their status, the new one is appended -/
theorem simRow_bump_self (hg : WGraph g) {p : Nat} {b : DirBond} (hb : (g.row p)[cnt p]? = some b) :
    simRow g (cntBump cnt p) p = simRow g cnt p ++ [simEntry g cnt b] := by
  unfold simRow
  rw [procd_bump_self hb, List.map_append]
  have hbs : b.src = p := hg.row_src (getElem?_mem_row hb)
  congr 1
  · apply List.map_congr_left
    intro x hx
    unfold simEntry
    rw [closedB_bump hb]
    have hxm := procd_sub hx
    have hxs : x.src = p := hg.row_src hxm
    have hne : x.src ≠ x.dst := (hg.row_bonds (hg.row_mem_lt hxm) x hxm).2.2.1
    have : (x.dst == p) = false := by
      rw [beq_eq_false_iff_ne]; rw [← hxs]; exact fun h => hne h.symm
    simp [this]
  · simp only [List.map_cons, List.map_nil]
    unfold simEntry
    rw [closedB_bump_new hg hb]

theorem simRow_length (j : Nat) : (simRow g cnt j).length = min (cnt j) (g.row j).length := by
  simp [simRow, procd]

end

end SV
