/-
  The decoder's graph invariant, end to end:
  `decodeGraph T s compat attrib = .ok g` implies `RInv T g` (simple graph, mirrored ring bonds,
  counts = true bond sums ≤ capacities) and the chain bonds form a forest rooted at `g.roots`.

  Structure of the proof
  * Proofs/GraphSum.lean    weighted sums over the adjacency lists
  * Proofs/DeriveInv.lean   `DInv` (derive-phase invariant), preserved by `addAtom`/`addBond`
  * Proofs/DeriveLoop.lean  induction over `deriveLoop` / `deriveFragments`
  * Proofs/RingInv.lean     `RInv` (ring-phase invariant), preserved by `addRingBond`
  * Proofs/RingUpdate.lean  ... and by `updateBondOrder`
  * this file               induction over `formRings`, and `decodeGraph`
-/
import SelfiesVerif.Proofs.RingUpdate
namespace SV

theorem getIdx_okD {α} {l : List α} {i : Nat} {x : α} (h : getIdx l i = .ok x) : l[i]? = some x := by
  unfold getIdx at h
  split at h
  · cases h; assumption
  · cases h

theorem formRings_inv (T : Table) : ∀ (rings : List RingReq) (m : Mol) (ringsMade : List Nat) (r : Mol),
    formRings T rings m ringsMade = .ok r → RInv T m → RingsOK rings → RInv T r ∧ SameChain m r := by
  intro rings
  induction rings with
  | nil =>
    intro m rm r h hI _
    simp only [formRings] at h
    cases h
    exact ⟨hI, SameChain.refl _⟩
  | cons req rest ih =>
    intro m ringsMade r h hI hR
    obtain ⟨lidx, ridx, order, lst, rst⟩ := req
    have hRrest : RingsOK rest := fun x hx => hR x (List.mem_cons_of_mem _ hx)
    have hreq := hR _ (List.mem_cons_self)
    simp only at hreq
    unfold formRings at h
    split at h
    · exact ih _ _ _ h hI hRrest
    · rename_i hne
      have hlr : lidx < ridx := by
        have : lidx ≠ ridx := by simpa using hne
        omega
      bind_at h with ⟨latom, h1, h⟩
      bind_at h with ⟨ratom, h2, h⟩
      bind_at h with ⟨lcount, h3, h⟩
      bind_at h with ⟨rcount, h4, h⟩
      dsimp only at h
      have hal := getIdx_okD h1
      have har := getIdx_okD h2
      have hcl := getIdx_okD h3
      have hcr := getIdx_okD h4
      split at h
      · exact ih _ _ _ h hI hRrest
      · rename_i hfree
        have hfree' : 0 < Atom.bondingCapacity T latom - ↑lcount ∧ 0 < Atom.bondingCapacity T ratom - ↑rcount := by
          simp only [Bool.or_eq_true, decide_eq_true_eq, not_or, Int.not_le] at hfree
          exact hfree
        generalize ho : (min (min (↑order) (Atom.bondingCapacity T latom - ↑lcount))
          (Atom.bondingCapacity T ratom - ↑rcount)).toNat = o at h
        have ho' : 1 ≤ o ∧ o ≤ 3 ∧ (lcount : Int) + o ≤ Atom.bondingCapacity T latom ∧
            (rcount : Int) + o ≤ Atom.bondingCapacity T ratom := by
          subst ho; omega
        obtain ⟨o1, o3, ocl, ocr⟩ := ho'
        have hll : lidx < m.adj.length := by
          rw [hI.lenA]; exact (List.getElem?_eq_some_iff.mp hal).1
        have hrl : ridx < m.adj.length := by
          rw [hI.lenA]; exact (List.getElem?_eq_some_iff.mp har).1
        split at h
        · bind_at h with ⟨bond, h5, h⟩
          bind_at h with ⟨m1, h6, h⟩
          obtain ⟨row, hrow, hbm, hbd⟩ := getDirBond_okM h5
          have hbo := hI.bonds _ _ hrow _ hbm
          rcases updateBondOrder_eq hI hlr h6 with rfl | ⟨ab, rowl, rowr, cl, cr, e1, e2, e3, e4, e5, e6,
            hn1, hn3, hring, hchain, eadj, ecnt, eat, ert⟩
          · exact ih _ _ _ h hI hRrest
          · rw [hrow] at e1; cases e1
            have : ab = bond := pw_unique (hI.nodup _ _ hrow) e2 hbm (by omega)
            subst this
            rw [hcl] at e5; cases e5
            rw [hcr] at e6; cases e6
            obtain ⟨hI1, hS1⟩ := hI.update (Nat.ne_of_lt hlr) hrow e2 e3 e4 hcl hcr hn1 hn3 (by omega)
              hring hchain hal har (by omega) (by omega) eadj ecnt eat ert
            obtain ⟨hI2, hS2⟩ := ih _ _ _ h hI1 hRrest
            exact ⟨hI2, hS1.trans hS2⟩
        · rename_i hnb
          bind_at h with ⟨lp, h5, h⟩
          bind_at h with ⟨rp, h6, h⟩
          bind_at h with ⟨m1, h7, h⟩
          bind_at h with ⟨rp', h8, h⟩
          obtain ⟨rowa, rowb, rowa', rowb', ca, cb, e1, e2, p1, p2, e3, e4, eadj, ecnt, eat, ert⟩ :=
            addRingBond_eq (Nat.ne_of_lt hlr) h7
          rw [hcl] at e3; cases e3
          rw [hcr] at e4; cases e4
          have hnoa : ∀ x ∈ rowa, x.dst ≠ ridx := by
            intro x hx hxd
            apply hnb
            unfold Mol.hasBond
            rw [Nat.min_eq_left (Nat.le_of_lt hlr), Nat.max_eq_right (Nat.le_of_lt hlr)]
            simp only [e1, List.any_eq_true, beq_iff_eq]
            exact ⟨x, hx, hxd⟩
          have hnob : ∀ x ∈ rowb, x.dst ≠ lidx := by
            intro x hx hxl
            have hbx := hI.bonds _ _ e2 x hx
            cases hxr : x.ring with
            | false => have := hbx.2.2.2.2.2 hxr; omega
            | true =>
              obtain ⟨row', hk', y, hy, hy1, hy2, hy3⟩ := hI.mirror _ _ e2 x hx hxr
              rw [hxl, e1] at hk'; cases hk'
              exact hnoa y hy hy1
          obtain ⟨hI1, hS1⟩ := hI.addRing (Nat.ne_of_lt hlr) e1 e2 p1 p2 ⟨rfl, rfl, rfl, rfl⟩ ⟨rfl, rfl, rfl, rfl⟩
            hcl hcr hal har ocl ocr o1 o3 hnoa hnob eadj ecnt eat ert
          obtain ⟨hI2, hS2⟩ := ih _ _ _ h hI1 hRrest
          exact ⟨hI2, hS1.trans hS2⟩

/-- the chain bonds form a forest rooted at `roots` -/
structure Forest (m : Mol) : Prop where
  rootsLt : ∀ r ∈ m.roots, r < m.atoms.length
  rootsSorted : m.roots.Pairwise (· < ·)
  chainIn : ∀ i, i < m.atoms.length → chainIn m.adj i = if i ∈ m.roots then 0 else 1

theorem decodeGraph_inv {T : Table} {s : Str} {compat attrib : Bool} {g : Mol}
    (h : decodeGraph T s compat attrib = .ok g) : RInv T g ∧ Forest g := by
  unfold decodeGraph at h
  bind_at h with ⟨⟨m, rings⟩, h1, h⟩
  obtain ⟨hD, hR⟩ := deriveFragments_inv T compat attrib _ _ _ _ _ h1 (DInv_empty T)
    (fun r hr => by cases hr)
  obtain ⟨hI, hS⟩ := formRings_inv T _ _ _ _ h hD.toRInv hR
  refine ⟨hI, ?_, ?_, ?_⟩
  · rw [hS.roots, hS.atoms]; exact hD.rootsLt
  · rw [hS.roots]; exact hD.rootsSorted
  · intro i hi
    rw [hS.atoms] at hi
    rw [hS.chain i, hS.roots]; exact hD.forest i hi

end SV
