/-
  C01r: the lexical shape of an atom text as the SMILES writer produces it.
-/
import SelfiesVerif.Model.SmilesParser

namespace SV

/-- what `atom_to_smiles` writes: a one-letter organic symbol, `Br`, `Cl`, or a bracket atom whose
    body contains no `]` -/
inductive AtomLex : Str → Prop
  | one (c : Char) : isAsciiUpper c = true → AtomLex [c]
  | br : AtomLex ['B', 'r']
  | cl : AtomLex ['C', 'l']
  | bracket (body : Str) : (∀ c ∈ body, c ≠ ']') → AtomLex ('[' :: (body ++ [']']))

end SV
