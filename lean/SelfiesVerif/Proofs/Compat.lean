/-
  Helper lemmas for property C18 (`compatible=True` is a conservative extension):
  * `modernizeSymbol` is total; `modernSym` is its pure version;
  * the lazily modernising stream (`compat = true`) is simulated by the eagerly modernised
    stream read with `compat = false` (`Stream.next`, `readIndex`, `consumeRest`, `deriveLoop`,
    fragments, `decoderFull`);
  * the symbol dispatch of `deriveLoop` rejects every key of the update table and every
    `…expl]` symbol (the SELFIES atom pattern cannot match a symbol with two lower-case letters);
  * what `modernizeSymbol` returns (unchanged / a table value / a freshly spelled atom symbol
    made of "good" characters), hence idempotence and well-formedness;
  * `split_selfies` on a re-rendered list of well-formed symbols gives the list back, hence the
    string-level commutation theorem for `modernizeString`.
  Everything except `modernSym`, `Stream.mapSym`, `DState.mapSym` lives in `SV.C18`.
-/
import SelfiesVerif.Model.Decoder

namespace SV

/-! ### `modernizeSymbol` is total -/

def modernSym (x : Str) : Str :=
  match modernizeSymbol x with
  | .ok y => y
  | .error _ => x

theorem atomToSmiles_ok_of_nonarom (a : Atom) (b : Bool) (h : a.isAromatic = false) :
    ∃ s, atomToSmiles a b = .ok s := by
  unfold atomToSmiles
  simp only [h, Bool.false_eq_true, if_false]
  split
  · exact ⟨_, rfl⟩
  · exact ⟨_, rfl⟩

theorem modernizeSymbol_isOk (x : Str) : ∃ y, modernizeSymbol x = .ok y := by
  unfold modernizeSymbol
  split
  · exact ⟨_, rfl⟩
  · split
    · rename_i hl
      split
      · generalize (if isBondChar _ = true then _ else _ : Str × Str) = p
        obtain ⟨bc, asym⟩ := p
        simp only []
        cases hsa : smilesToAtom (['['] ++ asym ++ [']']) with
        | none => exact ⟨_, rfl⟩
        | some atom =>
          simp only []
          cases har : atom.isAromatic with
          | true => exact ⟨_, rfl⟩
          | false =>
            obtain ⟨s, hs⟩ := atomToSmiles_ok_of_nonarom atom false har
            simp only [hs, bind, Except.bind, pure, Except.pure]
            exact ⟨_, rfl⟩
      · rename_i hne
        exfalso
        match x, hne with
        | [], _ => simp [lastN] at hl
        | [a], _ => simp [lastN] at hl
        | a :: b :: r, hne => exact hne a b r rfl
    · exact ⟨_, rfl⟩

theorem modernizeSymbol_total (x : Str) : modernizeSymbol x = .ok (modernSym x) := by
  obtain ⟨y, hy⟩ := modernizeSymbol_isOk x
  simp [modernSym, hy]


/-! ### stream simulation -/

def Stream.mapSym (m : Str → Str) (s : Stream) : Stream :=
  { toks := s.toks.map (fun p => (p.1, m p.2)), hanging := s.hanging }

def DState.mapSym (m : Str → Str) (st : DState) : DState :=
  { st with stream := st.stream.mapSym m }

namespace C18

@[simp] theorem Except.map_ok' {ε α β} (f : α → β) (a : α) : (Except.ok a : Except ε α).map f = .ok (f a) := rfl
@[simp] theorem Except.map_error' {ε α β} (f : α → β) (e : ε) : (Except.error e : Except ε α).map f = .error e := rfl

theorem bind_map_sim {α β α' β' : Type} (x : Py α) (g : α → α') (f : α → Py β) (f' : α' → Py β')
    (h : β → β') (H : ∀ a, f' (g a) = (f a).map h) :
    (x.map g >>= f') = (x >>= f).map h := by
  cases x with
  | error e => rfl
  | ok a => exact H a

theorem next_true_eq (s : Stream) : s.next true =
    match s.toks with
    | [] => if s.hanging then .error .DecoderError else .ok none
    | (i, sym) :: rest => .ok (some ((i, modernSym sym), { s with toks := rest })) := by
  obtain ⟨toks, hanging⟩ := s
  cases toks with
  | nil => rfl
  | cons p rest =>
    obtain ⟨i, sym⟩ := p
    simp [Stream.next, modernizeSymbol_total]

abbrev nextMap : Option ((Nat × Str) × Stream) → Option ((Nat × Str) × Stream) :=
  Option.map fun p => (p.1, p.2.mapSym modernSym)

theorem next_false_mapSym (s : Stream) :
    (s.mapSym modernSym).next false = (s.next true).map nextMap := by
  rw [next_true_eq]
  unfold Stream.next Stream.mapSym
  cases s with
  | mk toks hanging =>
    cases toks with
    | nil => cases hanging <;> rfl
    | cons p rest => rfl

theorem readIndex_sim (n : Nat) : ∀ (s : Stream) (acc : List (Option Str)) (k : Nat),
    readIndex false n (s.mapSym modernSym) acc k
      = (readIndex true n s acc k).map (fun r => (r.1, r.2.1, r.2.2.mapSym modernSym)) := by
  induction n with
  | zero => intro s acc k; rfl
  | succ n ih =>
    intro s acc k
    simp only [readIndex]
    rw [next_false_mapSym]
    apply bind_map_sim
    intro a
    cases a with
    | none => exact ih s _ _
    | some p => exact ih p.2 _ _

theorem consumeRest_sim (fuel : Nat) : ∀ (s : Stream) (md : Option Nat) (nd : Nat),
    consumeRest false fuel (s.mapSym modernSym) md nd
      = (consumeRest true fuel s md nd).map (fun r => (r.1.mapSym modernSym, r.2)) := by
  induction fuel with
  | zero => intro s md nd; rfl
  | succ n ih =>
    intro s md nd
    simp only [consumeRest]
    split
    · rw [next_false_mapSym]
      apply bind_map_sim
      intro a
      cases a with
      | none => rfl
      | some p => exact ih p.2 _ _
    · rfl


abbrev resMap : DState × Nat → DState × Nat := fun r => (r.1.mapSym modernSym, r.2)

theorem finish_sim (md : Option Nat) (s : Stream) (mol : Mol) (rings : List RingReq) (n : Nat) :
    (do
      let __x ← consumeRest false ((s.mapSym modernSym).toks.length + 2) (s.mapSym modernSym) md n
      match __x with
        | (s', n) => (pure (({ stream := s', mol := mol, rings := rings } : DState), n) : Py (DState × Nat)))
    = Except.map resMap (do
      let __x ← consumeRest true (s.toks.length + 2) s md n
      match __x with
        | (s', n) => pure ({ stream := s', mol := mol, rings := rings }, n)) := by
  have hl : (s.mapSym modernSym).toks.length = s.toks.length := by simp [Stream.mapSym]
  rw [hl, consumeRest_sim]
  apply bind_map_sim
  intro a
  rfl

theorem deriveLoop_sim (T : Table) (fuel : Nat) : ∀ (depth : Nat) (st : DState) (md : Option Nat)
    (nd state : Nat) (prev : Option Nat) (as : Option (List Attribution)) (ai : Nat),
    deriveLoop T false fuel depth (st.mapSym modernSym) md nd state prev as ai
      = (deriveLoop T true fuel depth st md nd state prev as ai).map resMap := by
  induction fuel with
  | zero => intros; rfl
  | succ fuel ih =>
    intro depth st md nd state prev as ai
    have ih' : ∀ (depth : Nat) (s : Stream) (mol : Mol) (rings : List RingReq) (md : Option Nat)
        (nd state : Nat) (prev : Option Nat) (as : Option (List Attribution)) (ai : Nat),
        deriveLoop T false fuel depth { stream := s.mapSym modernSym, mol := mol, rings := rings } md nd state prev as ai
          = (deriveLoop T true fuel depth { stream := s, mol := mol, rings := rings } md nd state prev as ai).map resMap :=
      fun depth s mol rings => ih depth { stream := s, mol := mol, rings := rings }
    obtain ⟨strm, mol, rings⟩ := st
    rw [deriveLoop, deriveLoop]
    simp only [DState.mapSym]
    cases hub : underBudget md nd with
    | false =>
      simp only [Bool.not_false, if_true]
      exact finish_sim md strm mol rings nd
    | true =>
      simp only [Bool.not_true, Bool.false_eq_true, if_false]
      rw [next_false_mapSym]
      apply bind_map_sim
      intro a
      cases a with
      | none => exact finish_sim md strm mol rings nd
      | some p =>
        obtain ⟨⟨index, symbol⟩, stream'⟩ := p
        simp only [nextMap, Option.map]
        by_cases hch : (sliceFromEnd symbol 4 2 == ['c', 'h']) = true
        · simp only [hch, if_true]
          cases hb : processBranchSymbol symbol with
          | none => rfl
          | some bn =>
            obtain ⟨btype, n⟩ := bn
            simp only []
            by_cases hs1 : state ≤ 1
            · simp only [hs1, if_true]
              exact ih' _ _ _ _ _ _ _ _ _ _
            · simp only [hs1, if_false]
              cases hnb : nextBranchState btype state with
              | error e => rfl
              | ok bs =>
                simp only [bind, Except.bind]
                rw [readIndex_sim]
                cases hr : readIndex true n stream' [] 0 with
                | error e => rfl
                | ok v =>
                  simp only [Except.map_ok']
                  by_cases hd : depth + 1 ≥ recursionBudget
                  · simp only [hd, if_true]; rfl
                  · simp only [hd, if_false]
                    rw [ih']
                    cases hrec : deriveLoop T true fuel (depth + 1) { stream := v.2.snd, mol := mol, rings := rings }
                        (some (v.fst + 1)) 0 bs.fst prev (attrPush as (index + ai) symbol) ai with
                    | error e => rfl
                    | ok v1 =>
                      simp only [Except.map_ok']
                      exact ih _ _ _ _ _ _ _ _
        · simp only [hch, if_false, Bool.false_eq_true]
          by_cases hng : (sliceFromEnd symbol 4 2 == ['n', 'g']) = true
          · simp only [hng, if_true]
            cases hb : processRingSymbol symbol with
            | none => rfl
            | some rn =>
              obtain ⟨rtype, n, stereo⟩ := rn
              simp only []
              by_cases hs0 : (state == 0) = true
              · simp only [hs0, if_true]
                exact ih' _ _ _ _ _ _ _ _ _ _
              · simp only [hs0, if_false, Bool.false_eq_true]
                cases hnr : nextRingState rtype state with
                | error e => rfl
                | ok bs =>
                  simp only [bind, Except.bind]
                  rw [readIndex_sim]
                  cases hr : readIndex true n stream' [] 0 with
                  | error e => rfl
                  | ok v =>
                    simp only [Except.map_ok']
                    cases prev with
                    | none => rfl
                    | some p =>
                      simp only []
                      cases hg : getIdx mol.atoms (p - (v.fst + 1)) with
                      | error e => rfl
                      | ok _ =>
                        simp only []
                        cases hns : bs.snd with
                        | none => exact finish_sim md _ _ _ _
                        | some s2 => exact ih' _ _ _ _ _ _ _ _ _ _
          · simp only [hng, if_false, Bool.false_eq_true]
            by_cases heps : containsSub symbol ['e', 'p', 's'] = true
            · simp only [heps, if_true]
              by_cases hs0 : (state == 0) = true
              · simp only [hs0, if_true]
                exact ih' _ _ _ _ _ _ _ _ _ _
              · simp only [hs0, if_false, Bool.false_eq_true]
                exact finish_sim md _ _ _ _
            · simp only [heps, if_false, Bool.false_eq_true]
              cases hpa : processAtomSymbol T symbol with
              | none => rfl
              | some ba =>
                obtain ⟨⟨bondOrder, stereo⟩, atom⟩ := ba
                simp only []
                generalize nextAtomState bondOrder (Atom.bondingCapacity T atom).toNat state = nas
                obtain ⟨bo, nextState⟩ := nas
                simp only []
                by_cases hbo : (bo == 0) = true
                · simp only [hbo, if_true]
                  by_cases hs0 : (state == 0) = true
                  · simp only [hs0, if_true]
                    cases nextState with
                    | none => exact finish_sim md _ _ _ _
                    | some s2 => exact ih' _ _ _ _ _ _ _ _ _ _
                  · simp only [hs0, if_false, Bool.false_eq_true]
                    cases nextState with
                    | none => exact finish_sim md _ _ _ _
                    | some s2 => exact ih' _ _ _ _ _ _ _ _ _ _
                · simp only [hbo, if_false, Bool.false_eq_true]
                  cases prev with
                  | none => rfl
                  | some p =>
                    simp only []
                    generalize (mol.addAtom atom false (attrPush as (index + ai) symbol)) = ma
                    cases hab : ma.fst.addBond p ma.snd bo stereo (attrPush as (index + ai) symbol) with
                    | error e => rfl
                    | ok mol1 =>
                      simp only [bind, Except.bind]
                      cases nextState with
                      | none => exact finish_sim md _ _ _ _
                      | some s2 => exact ih' _ _ _ _ _ _ _ _ _ _



/-! ### fragments and the whole decoder -/

/-- `deriveFragments` over already tokenised fragments -/
def deriveStreams (T : Table) (compat : Bool) (attrib : Bool) :
    List Stream → Mol → List RingReq → Nat → Py (Mol × List RingReq)
  | [], m, rings, _ => .ok (m, rings)
  | stream :: rest, m, rings, attrIndex => do
    let (st, n) ← deriveLoop T compat (stream.toks.length + 1) 0
      { stream := stream, mol := m, rings := rings } none 0 0 none
      (if attrib then some [] else none) attrIndex
    deriveStreams T compat attrib rest st.mol st.rings (attrIndex + n)

theorem deriveFragments_eq_streams (T : Table) (compat attrib : Bool) (frags : List Str) :
    ∀ (m : Mol) (rings : List RingReq) (ai : Nat),
    deriveFragments T compat attrib frags m rings ai
      = deriveStreams T compat attrib (frags.map tokenizeFragment) m rings ai := by
  induction frags with
  | nil => intros; rfl
  | cons f rest ih =>
    intro m rings ai
    simp only [deriveFragments, List.map_cons, deriveStreams, ih]

theorem deriveStreams_sim (T : Table) (attrib : Bool) (ss : List Stream) :
    ∀ (m : Mol) (rings : List RingReq) (ai : Nat),
    deriveStreams T false attrib (ss.map (Stream.mapSym modernSym)) m rings ai
      = deriveStreams T true attrib ss m rings ai := by
  induction ss with
  | nil => intros; rfl
  | cons s rest ih =>
    intro m rings ai
    simp only [List.map_cons, deriveStreams]
    have hl : (s.mapSym modernSym).toks.length = s.toks.length := by simp [Stream.mapSym]
    rw [hl]
    have := deriveLoop_sim T (s.toks.length + 1) 0 { stream := s, mol := m, rings := rings } none 0 0 none
      (if attrib then some [] else none) ai
    simp only [DState.mapSym] at this
    rw [this]
    cases deriveLoop T true (s.toks.length + 1) 0 { stream := s, mol := m, rings := rings } none 0 0 none
      (if attrib then some [] else none) ai with
    | error e => rfl
    | ok r => exact ih _ _ _

/-- stream-level commutation: the compatible decoder on `s` is the plain decoder on any `s'`
    whose fragments tokenise to the modernised token streams of the fragments of `s` -/
theorem decoderFull_commutes_streams (T : Table) (s s' : Str) (attrib : Bool)
    (h : (splitOnChar '.' s').map tokenizeFragment
          = (splitOnChar '.' s).map (fun f => (tokenizeFragment f).mapSym modernSym)) :
    decoderFull T s true attrib = decoderFull T s' false attrib := by
  unfold decoderFull decodeGraph
  have e : (splitOnChar '.' s).map (fun f => (tokenizeFragment f).mapSym modernSym)
      = ((splitOnChar '.' s).map tokenizeFragment).map (Stream.mapSym modernSym) := by
    rw [List.map_map]; rfl
  rw [deriveFragments_eq_streams, deriveFragments_eq_streams, h, e, deriveStreams_sim]



theorem lookup_some_mem {α β} [BEq α] [LawfulBEq α] (k : α) (l : List (α × β)) (v : β) :
    lookup k l = some v → (k, v) ∈ l := by
  induction l with
  | nil => intro h; cases h
  | cons p rest ih =>
    obtain ⟨k', v'⟩ := p
    simp only [lookup]
    split
    · rename_i hk
      intro h
      have : k' = k := by simpa using hk
      cases h; subst this; exact List.mem_cons_self
    · intro h; exact List.mem_cons_of_mem _ (ih h)

theorem modernizeSymbol_of_not_legacy (x : Str) (h1 : lookup x Gen.updateTable = none)
    (h2 : (lastN x 5 == ['e', 'x', 'p', 'l', ']']) = false) : modernizeSymbol x = .ok x := by
  unfold modernizeSymbol
  simp [h1, h2]

/-! ### rejection without the flag -/

/-- the symbol dispatch of `deriveLoop` ends in `DecoderError`, whatever the table -/
def dispatchRejects (symbol : Str) : Bool :=
  let tag := sliceFromEnd symbol 4 2
  if tag == ['c', 'h'] then (processBranchSymbol symbol).isNone
  else if tag == ['n', 'g'] then (processRingSymbol symbol).isNone
  else if containsSub symbol ['e', 'p', 's'] then false
  else (processAtomSelfiesNoCache symbol).isNone

theorem deriveLoop_rejects (T : Table) (compat : Bool) (fuel depth : Nat) (st : DState)
    (md : Option Nat) (nd state : Nat) (prev : Option Nat) (as : Option (List Attribution)) (ai : Nat)
    (i : Nat) (sym : Str) (s' : Stream)
    (hub : underBudget md nd = true)
    (hn : st.stream.next compat = .ok (some ((i, sym), s')))
    (hr : dispatchRejects sym = true) :
    deriveLoop T compat (fuel + 1) depth st md nd state prev as ai = .error .DecoderError := by
  rw [deriveLoop]
  simp only [hub, Bool.not_true, Bool.false_eq_true, if_false, hn, bind, Except.bind]
  unfold dispatchRejects at hr
  simp only [] at hr
  by_cases hch : (sliceFromEnd sym 4 2 == ['c', 'h']) = true
  · simp only [hch, if_true] at hr ⊢
    cases hb : processBranchSymbol sym with
    | none => rfl
    | some v => simp [hb] at hr
  · simp only [hch, if_false, Bool.false_eq_true] at hr ⊢
    by_cases hng : (sliceFromEnd sym 4 2 == ['n', 'g']) = true
    · simp only [hng, if_true] at hr ⊢
      cases hb : processRingSymbol sym with
      | none => rfl
      | some v => simp [hb] at hr
    · simp only [hng, if_false, Bool.false_eq_true] at hr ⊢
      by_cases heps : containsSub sym ['e', 'p', 's'] = true
      · simp [heps] at hr
      · simp only [heps, if_false, Bool.false_eq_true] at hr ⊢
        have : processAtomSymbol T sym = none := by
          unfold processAtomSymbol
          cases hb : processAtomSelfiesNoCache sym with
          | none => rfl
          | some v => simp [hb] at hr
        simp only [this]

/-- a one-symbol string whose symbol is rejected by the dispatch is rejected by the decoder -/
theorem decoderFull_single_rejected (T : Table) (k : Str) (compat attrib : Bool)
    (hsplit : splitOnChar '.' k = [k])
    (htok : (tokenizeFragment k).toks = [(0, k)])
    (hmod : compat = true → modernizeSymbol k = .ok k)
    (hr : dispatchRejects k = true) :
    decoderFull T k compat attrib = .error .DecoderError := by
  unfold decoderFull decodeGraph
  rw [hsplit]
  simp only [deriveFragments, htok, List.length_cons, List.length_nil]
  have hn : (tokenizeFragment k).next compat
      = .ok (some ((0, k), { tokenizeFragment k with toks := [] })) := by
    unfold Stream.next
    rw [htok]
    cases compat with
    | false => rfl
    | true => simp [hmod rfl]
  rw [deriveLoop_rejects T compat 1 0 _ none 0 0 none _ 0 0 k _ rfl hn hr]
  rfl


theorem span_loop_eq {α} (p : α → Bool) (l acc : List α) :
    List.span.loop p l acc = (acc.reverse ++ l.takeWhile p, l.dropWhile p) := by
  induction l generalizing acc with
  | nil => simp [List.span.loop]
  | cons a l ih =>
    simp only [List.span.loop]
    cases h : p a with
    | true => simp [ih, h]
    | false => simp [h]

theorem span_eq {α} (p : α → Bool) (l : List α) : l.span p = (l.takeWhile p, l.dropWhile p) := by
  simp [List.span, span_loop_eq]

/-- number of ASCII lower-case letters -/
abbrev lc (s : Str) : Nat := s.countP isAsciiLower

theorem lc_dropWhile (p : Char → Bool) (hp : ∀ c, p c = true → isAsciiLower c = false) (l : Str) :
    lc (l.dropWhile p) = lc l := by
  induction l with
  | nil => rfl
  | cons a l ih =>
    simp only [List.dropWhile_cons]
    cases h : p a with
    | true => simp [lc, hp a h] at ih ⊢; exact ih
    | false => rfl

theorem isDecimal_not_lower (c : Char) (h : isDecimal c = true) : isAsciiLower c = false := by
  cases hl : isAsciiLower c with
  | false => rfl
  | true =>
    exfalso
    simp only [isAsciiLower, Bool.and_eq_true, decide_eq_true_eq] at hl
    have h1 : 97 ≤ c.toNat := hl.1
    have h2 : c.toNat ≤ 122 := hl.2
    have key : ∀ n, n ≤ 122 → 97 ≤ n →
        Gen.decimalStarts.find? (fun s => decide (s ≤ n) && decide (n < s + 10)) = none := by decide
    simp [isDecimal, decimalVal?, key c.toNat h2 h1] at h

theorem isAsciiDigit_not_lower (c : Char) (h : isAsciiDigit c = true) : isAsciiLower c = false := by
  simp only [isAsciiDigit, isAsciiLower, Bool.and_eq_true, decide_eq_true_eq] at h ⊢
  have h2 : c.toNat ≤ 57 := h.2
  cases hl : (decide ('a' ≤ c) && decide (c ≤ 'z')) with
  | false => rfl
  | true =>
    simp only [Bool.and_eq_true, decide_eq_true_eq] at hl
    have : 97 ≤ c.toNat := hl.1
    omega


theorem lc_cons (c : Char) (r : Str) : lc (c :: r) = lc r + (if isAsciiLower c then 1 else 0) := by
  simp [lc, List.countP_cons]

theorem lc_takeOpt_le (p : Char → Bool) (r : Str) : lc r ≤ lc (takeOpt p r).2 + 1 := by
  cases r with
  | nil => simp [takeOpt]
  | cons c r =>
    simp only [takeOpt]
    split
    · show lc (c :: r) ≤ lc r + 1
      rw [lc_cons]; split <;> omega
    · show lc (c :: r) ≤ lc (c :: r) + 1
      omega

theorem lc_takeOpt_eq (p : Char → Bool) (hp : ∀ c, p c = true → isAsciiLower c = false) (r : Str) :
    lc (takeOpt p r).2 = lc r := by
  cases r with
  | nil => simp [takeOpt]
  | cons c r =>
    simp only [takeOpt]
    split
    · rename_i h; rw [lc_cons, hp c h]; simp
    · rfl

theorem isBondChar_not_lower (c : Char) (h : isBondChar c = true) : isAsciiLower c = false := by
  simp only [isBondChar, Bool.or_eq_true, beq_iff_eq] at h
  rcases h with ((h | h) | h) | h <;> subst h <;> decide

theorem lc_takeChirality (r : Str) : lc (takeChirality r).2 = lc r := by
  have hat : isAsciiLower '@' = false := by decide
  unfold takeChirality
  split
  · simp [hat]
  · simp [hat]
  · rfl

theorem lc_takeSelfiesH (r : Str) : lc (takeSelfiesH r).2 = lc r := by
  unfold takeSelfiesH
  split
  · split
    · rename_i c s h
      have hH : isAsciiLower 'H' = false := by decide
      simp [isDecimal_not_lower c h, hH]
    · rfl
  · rfl

theorem lc_takeSelfiesCharge (r : Str) : lc (takeSelfiesCharge r).2 = lc r := by
  unfold takeSelfiesCharge
  split
  · split
    · rename_i c d s h
      simp only [Bool.and_eq_true, Bool.or_eq_true, beq_iff_eq] at h
      have hc : isAsciiLower c = false := by rcases h.1 with h | h <;> subst h <;> decide
      have hd : isAsciiLower d = false := by
        apply isAsciiDigit_not_lower
        have := h.2
        simp only [isDigit19, isAsciiDigit, Bool.and_eq_true, decide_eq_true_eq] at this ⊢
        refine ⟨?_, this.2⟩
        exact Nat.le_trans (by decide) this.1
      simp only [span_eq, lc_cons, hc, hd]
      rw [lc_dropWhile _ isAsciiDigit_not_lower]
      simp
    · rfl
  · rfl

theorem processAtomSelfiesNoCache_none_of_two_lower (sym : Str) (h : 2 ≤ lc sym) :
    processAtomSelfiesNoCache sym = none := by
  unfold processAtomSelfiesNoCache
  split
  · rename_i body
    have hb : 2 ≤ lc body := by
      have hbr : isAsciiLower '[' = false := by decide
      rw [lc_cons, hbr] at h; simpa using h
    have h0 := lc_takeOpt_eq isBondChar isBondChar_not_lower body
    generalize takeOpt isBondChar body = p0 at h0 ⊢
    obtain ⟨bc, r0⟩ := p0
    simp only [span_eq]
    have h1 := lc_dropWhile isDecimal isDecimal_not_lower r0
    generalize List.dropWhile isDecimal r0 = r1 at h1 ⊢
    cases r1 with
    | nil => rfl
    | cons e1 r2 =>
      simp only []
      cases hu : isAsciiUpper e1 with
      | false => rfl
      | true =>
        simp only [Bool.not_true, Bool.false_eq_true, if_false]
        have he1 : isAsciiLower e1 = false := by
          simp only [isAsciiUpper, isAsciiLower, Bool.and_eq_true, decide_eq_true_eq] at hu ⊢
          have h2 : e1.toNat ≤ 90 := hu.2
          cases hl : (decide ('a' ≤ e1) && decide (e1 ≤ 'z')) with
          | false => rfl
          | true =>
            simp only [Bool.and_eq_true, decide_eq_true_eq] at hl
            have : 97 ≤ e1.toNat := hl.1
            omega
        have h2 := lc_takeOpt_le isAsciiLower r2
        generalize takeOpt isAsciiLower r2 = p3 at h2 ⊢
        obtain ⟨e2, r3⟩ := p3
        have h3 := lc_takeChirality r3
        generalize takeChirality r3 = p4 at h3 ⊢
        obtain ⟨chir, r4⟩ := p4
        have h4 := lc_takeSelfiesH r4
        generalize takeSelfiesH r4 = p5 at h4 ⊢
        obtain ⟨hh, r5⟩ := p5
        have h5 := lc_takeSelfiesCharge r5
        generalize takeSelfiesCharge r5 = p6 at h5 ⊢
        obtain ⟨chg, r6⟩ := p6
        simp only [] at h0 h1 h2 h3 h4 h5 ⊢
        rw [lc_cons, he1] at h1
        simp only [Bool.false_eq_true, if_false, Nat.add_zero] at h1
        have : r6 ≠ [']'] := by
          intro hr; subst hr
          have hz : lc [']'] = 0 := by decide
          rw [hz] at h5
          omega
        simp [this]
  · rfl


/-! ### the `…expl]` family -/

def explSuffix : Str := ['e', 'x', 'p', 'l', ']']

theorem eq_append_of_lastN (x : Str) (h : lastN x 5 = explSuffix) :
    x = x.take (x.length - 5) ++ explSuffix := by
  unfold lastN at h
  rw [← h, List.take_append_drop]

theorem lastN_append_expl (pre : Str) : lastN (pre ++ explSuffix) 5 = explSuffix := by
  simp [lastN, explSuffix]

theorem sliceFromEnd_expl (pre : Str) : sliceFromEnd (pre ++ explSuffix) 4 2 = ['x', 'p'] := by
  simp only [sliceFromEnd, explSuffix, List.length_append, List.length_cons, List.length_nil]
  have h1 : pre.length + (0 + 1 + 1 + 1 + 1 + 1) - 2 = pre.length + 3 := by omega
  have h2 : pre.length + (0 + 1 + 1 + 1 + 1 + 1) - 4 = pre.length + 1 := by omega
  rw [h1, h2, List.take_append, List.drop_append]
  simp

theorem lc_expl (pre : Str) : 2 ≤ lc (pre ++ explSuffix) := by
  have : lc explSuffix = 4 := by decide
  simp only [lc, List.countP_append] at this ⊢
  omega

theorem processAtomSelfiesNoCache_expl (x : Str) (h : lastN x 5 = explSuffix) :
    processAtomSelfiesNoCache x = none := by
  rw [eq_append_of_lastN x h]
  exact processAtomSelfiesNoCache_none_of_two_lower _ (lc_expl _)

theorem dispatchRejects_expl (x : Str) (h : lastN x 5 = explSuffix)
    (heps : containsSub x ['e', 'p', 's'] = false) : dispatchRejects x = true := by
  have hs : sliceFromEnd x 4 2 = ['x', 'p'] := by
    rw [eq_append_of_lastN x h]; exact sliceFromEnd_expl _
  unfold dispatchRejects
  simp only [hs, heps, processAtomSelfiesNoCache_expl x h]
  have h1 : ((['x', 'p'] : Str) == ['c', 'h']) = false := by decide
  have h2 : ((['x', 'p'] : Str) == ['n', 'g']) = false := by decide
  simp only [h1, h2, Bool.false_eq_true, if_false, Option.isNone_none]



/-! ### legacy atom spellings -/

theorem updateTable_keys_not_expl : ∀ p ∈ Gen.updateTable, lastN p.1 5 ≠ explSuffix := by decide

theorem lookup_updateTable_none_of_expl (x : Str) (h : lastN x 5 = explSuffix) :
    lookup x Gen.updateTable = none := by
  cases hl : lookup x Gen.updateTable with
  | none => rfl
  | some v => exact absurd h (updateTable_keys_not_expl _ (lookup_some_mem _ _ _ hl))

theorem isBondChar_cases (c : Char) (h : isBondChar c = true) :
    c = '=' ∨ c = '#' ∨ c = '/' ∨ c = '\\' := by
  simp only [isBondChar, Bool.or_eq_true, beq_iff_eq] at h
  rcases h with ((h | h) | h) | h <;> simp [h]

theorem smilesBracketToAtom_head (b : Char) (rest : Str)
    (hd : isDecimal b = false) (hu : isAsciiUpper b = false) (hl : isAsciiLower b = false) :
    smilesBracketToAtom ('[' :: b :: rest) = none := by
  unfold smilesBracketToAtom
  simp only [span_eq, List.dropWhile_cons, hd, Bool.false_eq_true, if_false, hu, hl, Bool.or_false,
    Bool.not_false, if_true]

theorem smilesToAtom_bracket_body (body : Str) (a : Atom)
    (ha : smilesToAtom ('[' :: body ++ [']']) = some a) :
    ∃ b body', body = b :: body' ∧ isBondChar b = false := by
  have hh : (('[' :: body ++ [']']).head? == some '[' && ('[' :: body ++ [']']).getLast? == some ']') = true := by
    have h1 : ('[' :: body ++ [']']).getLast? = some ']' := by rw [List.getLast?_append]; rfl
    have h2 : ('[' :: body ++ [']']).head? = some '[' := rfl
    rw [h1, h2]; rfl
  unfold smilesToAtom at ha
  rw [if_pos hh] at ha
  cases body with
  | nil =>
    have : smilesBracketToAtom ['[', ']'] = none := by decide
    simp [this] at ha
  | cons b body' =>
    refine ⟨b, body', rfl, ?_⟩
    cases hb : isBondChar b with
    | false => rfl
    | true =>
      exfalso
      have : smilesBracketToAtom ('[' :: b :: (body' ++ [']'])) = none := by
        rcases isBondChar_cases b hb with h | h | h | h <;> subst h <;>
          exact smilesBracketToAtom_head _ _ (by decide) (by decide) (by decide)
      simp [this] at ha


/-- the bond-character/atom-body split `modernize_symbol` makes on `c0 bc body expl]` -/
theorem modernizeSymbol_expl_unfold (c0 : Char) (bc body : Str)
    (hbc : (bc = [] ∧ ∃ b body', body = b :: body' ∧ isBondChar b = false)
            ∨ ∃ c, isBondChar c = true ∧ bc = [c]) :
    modernizeSymbol (c0 :: bc ++ body ++ explSuffix) =
      match smilesToAtom (['['] ++ body ++ [']']) with
      | some atom =>
        if !atom.isAromatic then do
          let a ← atomToSmiles atom false
          pure (['['] ++ bc ++ a ++ [']'])
        else .ok (c0 :: bc ++ body ++ explSuffix)
      | none => .ok (c0 :: bc ++ body ++ explSuffix) := by
  have hl : lastN (c0 :: bc ++ body ++ explSuffix) 5 = explSuffix := lastN_append_expl _
  unfold modernizeSymbol
  rw [lookup_updateTable_none_of_expl _ hl]
  have hl' : (lastN (c0 :: bc ++ body ++ explSuffix) 5 == ['e', 'x', 'p', 'l', ']']) = true := by
    rw [hl]; rfl
  simp only [hl', if_true]
  rcases hbc with ⟨rfl, b, body', rfl, hb⟩ | ⟨c, hc, rfl⟩
  · simp only [List.cons_append, List.nil_append, hb, Bool.false_eq_true, if_false,
      List.length_cons, List.length_append, List.drop_succ_cons, List.drop_zero]
    have : (body'.length + explSuffix.length + 1 + 1 - 5 - 1) = (b :: body').length := by
      simp [explSuffix]
    have e : List.take (b :: body').length (b :: (body' ++ explSuffix)) = b :: body' := by
      rw [← List.cons_append, List.take_left']; rfl
    rw [this, e]
    rfl
  · simp only [List.cons_append, List.nil_append, hc, if_true,
      List.length_cons, List.length_append, List.drop_succ_cons, List.drop_zero]
    have : (body.length + explSuffix.length + 1 + 1 - 5 - 2) = body.length := by
      simp [explSuffix]
    rw [this, List.take_left' rfl]
    rfl



/-! ### the characters of a modernised atom symbol -/

theorem takeChirality_fst (r : Str) :
    (takeChirality r).1 = [] ∨ (takeChirality r).1 = ['@'] ∨ (takeChirality r).1 = ['@', '@'] := by
  unfold takeChirality
  split <;> simp

theorem smilesBracketToAtom_props (sym : Str) (a : Atom) (h : smilesBracketToAtom sym = some a) :
    memStr a.element Gen.elements = true
    ∧ (a.chirality = none ∨ a.chirality = some ['@'] ∨ a.chirality = some ['@', '@'])
    ∧ a.hCount.isSome = true := by
  unfold smilesBracketToAtom at h
  split at h
  · simp only [span_eq] at h
    split at h
    · split at h
      · cases h
      · split at h
        · cases h
        · split at h
          · cases h
          · split at h
            · cases h
            · split at h
              · cases h
              · rename_i hmem _ _ _
                cases h
                refine ⟨by simpa using hmem, ?_, rfl⟩
                simp only [optStr]
                rcases takeChirality_fst (takeOpt isAsciiLower ‹List Char›).snd with h | h | h <;>
                  simp [h]
    · cases h
  · cases h


/-- characters that `atom_to_smiles` can emit for an atom read by `smiles_to_atom` -/
def goodChar (c : Char) : Bool :=
  isAsciiDigit c || isAsciiUpper c || (isAsciiLower c && c != 'x') || c == '@' || c == '+' || c == '-'

theorem elements_good : ∀ e ∈ Gen.elements, (e.all goodChar && e.any isAsciiUpper) = true := by
  decide +kernel

theorem natToStr_good (n : Nat) : ∀ c ∈ natToStr n, goodChar c = true := by
  intro c hc
  have := Nat.isDigit_of_mem_toDigits (by decide) (by decide) hc
  have hd : isAsciiDigit c = true := by
    simp only [Char.isDigit, Bool.and_eq_true, decide_eq_true_eq] at this
    simp only [isAsciiDigit, Bool.and_eq_true, decide_eq_true_eq]
    exact ⟨this.1, this.2⟩
  simp [goodChar, hd]

theorem fmtPlus_good (z : Int) : ∀ c ∈ fmtPlus z, goodChar c = true := by
  intro c hc
  unfold fmtPlus at hc
  split at hc
  · rcases List.mem_cons.1 hc with h | h
    · subst h; decide
    · exact natToStr_good _ c h
  · rcases List.mem_cons.1 hc with h | h
    · subst h; decide
    · exact natToStr_good _ c h

theorem atomToSmiles_chars (a : Atom) (sp : Str)
    (hel : memStr a.element Gen.elements = true)
    (hch : a.chirality = none ∨ a.chirality = some ['@'] ∨ a.chirality = some ['@', '@'])
    (hh : a.hCount.isSome = true)
    (hs : atomToSmiles a false = .ok sp) :
    (∀ c ∈ sp, goodChar c = true) ∧ ∃ c ∈ sp, isAsciiUpper c = true := by
  have hE := elements_good a.element (by simpa [memStr] using hel)
  simp only [Bool.and_eq_true, List.all_eq_true, List.any_eq_true] at hE
  obtain ⟨hEg, cu, hcu, hcuU⟩ := hE
  unfold atomToSmiles at hs
  split at hs
  · cases hs
  · split at hs
    · cases hs; exact ⟨hEg, cu, hcu, hcuU⟩
    · cases hs
      simp only [Bool.false_eq_true, if_false, List.nil_append, List.append_nil]
      constructor
      · intro c hc
        simp only [List.mem_append] at hc
        rcases hc with (((hc | hc) | hc) | hc) | hc
        · cases hi : a.isotope with
          | none => simp [hi] at hc
          | some n => rw [hi] at hc; exact natToStr_good n c hc
        · exact hEg c hc
        · rcases hch with h | h | h <;> simp [h] at hc <;> subst hc <;> decide
        · cases hn : a.hCount with
          | none => simp [hn] at hh
          | some n =>
            rw [hn] at hc
            cases n with
            | zero =>
              simp only at hc
              split at hc
              · simp at hc; rcases hc with h | h <;> subst h <;> decide
              · cases hc
            | succ m =>
              simp only at hc
              rcases List.mem_cons.1 hc with h | h
              · subst h; decide
              · exact natToStr_good _ c h
        · split at hc
          · exact fmtPlus_good _ c hc
          · cases hc
      · exact ⟨cu, by simp [hcu], hcuU⟩



/-! ### what `modernizeSymbol` returns; idempotence -/

theorem smilesToAtom_bracketed (s : Str) :
    smilesToAtom (['['] ++ s ++ [']']) = smilesBracketToAtom (['['] ++ s ++ [']']) := by
  have h1 : (['['] ++ s ++ [']']).getLast? = some ']' := by rw [List.getLast?_append]; rfl
  have h2 : (['['] ++ s ++ [']']).head? = some '[' := rfl
  unfold smilesToAtom
  rw [h1, h2]; rfl

/-- what `modernizeSymbol` can return -/
theorem modernSym_cases (x : Str) :
    modernSym x = x
    ∨ (lookup x Gen.updateTable = some (modernSym x))
    ∨ (∃ bc sp, modernSym x = ['['] ++ bc ++ sp ++ [']']
        ∧ (bc = [] ∨ ∃ c, isBondChar c = true ∧ bc = [c])
        ∧ (∀ c ∈ sp, goodChar c = true) ∧ ∃ c ∈ sp, isAsciiUpper c = true) := by
  have ht := modernizeSymbol_total x
  generalize modernSym x = y at ht ⊢
  unfold modernizeSymbol at ht
  cases hl : lookup x Gen.updateTable with
  | some v =>
    rw [hl] at ht
    right; left
    cases ht; rfl
  | none =>
    rw [hl] at ht
    simp only [] at ht
    by_cases he : (lastN x 5 == ['e', 'x', 'p', 'l', ']']) = true
    · rw [if_pos he] at ht
      match x, ht with
      | [], ht => cases ht
      | [_], ht => cases ht
      | c0 :: c1 :: rest, ht =>
        simp only [] at ht
        generalize hbc : (if isBondChar c1 = true then
          ([c1], List.take ((c0 :: c1 :: rest).length - 5 - 2) (List.drop 2 (c0 :: c1 :: rest)))
          else ([], List.take ((c0 :: c1 :: rest).length - 5 - 1) (List.drop 1 (c0 :: c1 :: rest))) : Str × Str) = p at ht
        have hbc' : p.1 = [] ∨ ∃ c, isBondChar c = true ∧ p.1 = [c] := by
          by_cases hb : isBondChar c1 = true
          · rw [if_pos hb] at hbc; subst hbc; exact Or.inr ⟨c1, hb, rfl⟩
          · rw [if_neg hb] at hbc; subst hbc; exact Or.inl rfl
        obtain ⟨bc, asym⟩ := p
        simp only [] at ht hbc'
        rw [smilesToAtom_bracketed] at ht
        cases hsa : smilesBracketToAtom (['['] ++ asym ++ [']']) with
        | none => rw [hsa] at ht; left; cases ht; rfl
        | some atom =>
          rw [hsa] at ht
          simp only [] at ht
          cases har : atom.isAromatic with
          | true => simp only [har, Bool.not_true, Bool.false_eq_true, if_false] at ht; left; cases ht; rfl
          | false =>
            simp only [har, Bool.not_false, if_true] at ht
            cases hs : atomToSmiles atom false with
            | error e => simp [hs, bind, Except.bind] at ht
            | ok sp =>
              simp only [hs, bind, Except.bind, pure, Except.pure] at ht
              obtain ⟨h1, h2, h3⟩ := smilesBracketToAtom_props _ _ hsa
              obtain ⟨hg, hu⟩ := atomToSmiles_chars atom sp h1 h2 h3 hs
              right; right
              cases ht
              exact ⟨bc, sp, rfl, hbc', hg, hu⟩
    · rw [if_neg he] at ht
      left; cases ht; rfl


theorem goodChar_ne (c : Char) (h : goodChar c = true) :
    c ≠ ']' ∧ c ≠ '.' ∧ c ≠ '[' ∧ c ≠ 'x' ∧ c ≠ '_' := by
  refine ⟨?_, ?_, ?_, ?_, ?_⟩ <;> (rintro rfl; revert h; decide)

theorem isBondChar_ne (c : Char) (h : isBondChar c = true) :
    c ≠ ']' ∧ c ≠ '.' ∧ c ≠ '[' ∧ c ≠ 'x' ∧ c ≠ '_' ∧ isAsciiUpper c = false := by
  rcases isBondChar_cases c h with h | h | h | h <;> subst h <;> decide

/-- a character that occurs in every key of the update table and in `expl]`,
    but in no freshly spelled atom symbol -/
def legacyMark (c : Char) : Bool := c == 'x' || c == '_'

theorem updateTable_keys_marked : ∀ p ∈ Gen.updateTable, p.1.any legacyMark = true := by decide

theorem not_legacy_of_unmarked (y : Str) (h : y.any legacyMark = false) :
    lookup y Gen.updateTable = none ∧ (lastN y 5 == ['e', 'x', 'p', 'l', ']']) = false := by
  constructor
  · cases hl : lookup y Gen.updateTable with
    | none => rfl
    | some v =>
      have := updateTable_keys_marked _ (lookup_some_mem _ _ _ hl)
      simp [h] at this
  · cases hb : (lastN y 5 == ['e', 'x', 'p', 'l', ']']) with
    | false => rfl
    | true =>
      exfalso
      have he : lastN y 5 = explSuffix := by simpa [explSuffix] using hb
      have hy := eq_append_of_lastN y he
      rw [hy] at h
      simp [explSuffix, legacyMark] at h

/-- shape of the freshly spelled symbols -/
theorem fresh_unmarked (bc sp : Str) (hbc : bc = [] ∨ ∃ c, isBondChar c = true ∧ bc = [c])
    (hg : ∀ c ∈ sp, goodChar c = true) : (['['] ++ bc ++ sp ++ [']']).any legacyMark = false := by
  rw [Bool.eq_false_iff]
  intro h
  simp only [List.any_eq_true, List.mem_append, List.mem_singleton] at h
  obtain ⟨c, hc, hm⟩ := h
  simp only [legacyMark, Bool.or_eq_true, beq_iff_eq] at hm
  rcases hc with ((hc | hc) | hc) | hc
  · subst hc; revert hm; decide
  · rcases hbc with rfl | ⟨d, hd, rfl⟩
    · cases hc
    · have := isBondChar_ne d hd
      simp only [List.mem_singleton] at hc; subst hc
      rcases hm with rfl | rfl
      · exact this.2.2.2.1 rfl
      · exact this.2.2.2.2.1 rfl
  · have := goodChar_ne c (hg c hc)
    rcases hm with rfl | rfl
    · exact this.2.2.2.1 rfl
    · exact this.2.2.2.2 rfl
  · subst hc; revert hm; decide

theorem updateTable_values_fixed : ∀ p ∈ Gen.updateTable, modernizeSymbol p.2 = .ok p.2 := by decide

theorem modernizeSymbol_idem (x y : Str) (h : modernizeSymbol x = .ok y) : modernizeSymbol y = .ok y := by
  have hy : y = modernSym x := by
    have := modernizeSymbol_total x
    rw [h] at this; cases this; rfl
  subst hy
  rcases modernSym_cases x with h1 | h1 | ⟨bc, sp, h1, hbc, hg, _⟩
  · rw [h1] at h ⊢; exact h
  · exact updateTable_values_fixed _ (lookup_some_mem _ _ _ h1)
  · rw [h1]
    obtain ⟨a, b⟩ := not_legacy_of_unmarked _ (fresh_unmarked bc sp hbc hg)
    exact modernizeSymbol_of_not_legacy _ a b



/-! ### rendering and re-tokenising -/

/-- shape of an item that `split_selfies` yields inside a dot-free fragment -/
def SymWF (y : Str) : Prop := ∃ c body, y = c :: body ++ [']'] ∧ ']' ∉ body ∧ '.' ∉ y

theorem splitGo_some_body (body : Str) (hb : ']' ∉ body) (rest : Str) :
    ∀ (acc : Str) (d : Bool),
    splitGo (some acc) d (body ++ ']' :: rest)
      = ((acc ++ body ++ [']']) :: (splitGo none true rest).1, (splitGo none true rest).2) := by
  induction body with
  | nil => intro acc d; simp [splitGo]
  | cons b body ih =>
    intro acc d
    have hb1 : b ≠ ']' := fun h => hb (by simp [h])
    have hb2 : ']' ∉ body := fun h => hb (by simp [h])
    simp only [List.cons_append, splitGo, beq_iff_eq, hb1, if_false]
    rw [ih hb2]
    simp

theorem splitGo_render (ys : List Str) (hys : ∀ y ∈ ys, SymWF y) (tail : Str) (bad : Bool)
    (htail : ∀ d, splitGo none d tail = ([], bad)) :
    ∀ d, splitGo none d (ys.flatten ++ tail) = (ys, bad) := by
  induction ys with
  | nil => intro d; simpa using htail d
  | cons y ys ih =>
    intro d
    obtain ⟨c, body, rfl, hb, hdot⟩ := hys y List.mem_cons_self
    have hc : c ≠ '.' := fun h => hdot (by simp [h])
    have e : (List.flatten ((c :: body ++ [']']) :: ys) ++ tail)
        = c :: (body ++ ']' :: (ys.flatten ++ tail)) := by simp
    rw [e]
    have hcb : (d && c == '.') = false := by simp [hc]
    simp only [splitGo, hcb, Bool.false_eq_true, if_false]
    rw [splitGo_some_body body hb, ih (fun y hy => hys y (List.mem_cons_of_mem _ hy)) true]
    simp


theorem splitGo_items_wf (l : Str) (hl : '.' ∉ l) :
    (∀ d, ∀ y ∈ (splitGo none d l).1, SymWF y) ∧
    (∀ c b0 d, ']' ∉ b0 → '.' ∉ (c :: b0) → ∀ y ∈ (splitGo (some (c :: b0)) d l).1, SymWF y) := by
  induction l with
  | nil => simp [splitGo]
  | cons a l ih =>
    have ha : a ≠ '.' := fun h => hl (by simp [h])
    have hl' : '.' ∉ l := fun h => hl (by simp [h])
    obtain ⟨ih1, ih2⟩ := ih hl'
    constructor
    · intro d
      have hcb : (d && a == '.') = false := by simp [ha]
      simp only [splitGo, hcb, Bool.false_eq_true, if_false]
      exact ih2 a [] false (by simp) (by simp [Ne.symm ha])
    · intro c b0 d hb hdot
      simp only [splitGo]
      by_cases ha2 : a = ']'
      · subst ha2
        simp only [beq_self_eq_true, if_true]
        intro y hy
        rcases List.mem_cons.1 hy with rfl | hy
        · exact ⟨c, b0, rfl, hb, by
            intro h
            rcases List.mem_append.1 h with h | h
            · exact hdot h
            · simp at h⟩
        · exact ih1 true y hy
      · have : (a == ']') = false := by simp [ha2]
        simp only [this, Bool.false_eq_true, if_false]
        have e : c :: b0 ++ [a] = c :: (b0 ++ [a]) := rfl
        rw [e]
        refine ih2 c (b0 ++ [a]) false ?_ ?_
        · intro h; rcases List.mem_append.1 h with h | h
          · exact hb h
          · simp at h; exact ha2 h.symm
        · intro h
          rw [← e] at h
          rcases List.mem_append.1 h with h | h
          · exact hdot h
          · simp at h; exact ha h.symm

theorem splitGo_some_head (l : Str) : ∀ (c : Char) (b0 : Str) (d : Bool) (y : Str) (ys : List Str),
    (splitGo (some (c :: b0)) d l).1 = y :: ys → y.head? = some c := by
  induction l with
  | nil => intro c b0 d y ys h; simp [splitGo] at h
  | cons a l ih =>
    intro c b0 d y ys h
    simp only [splitGo] at h
    by_cases ha2 : (a == ']') = true
    · simp only [ha2, if_true] at h
      cases h; rfl
    · simp only [ha2] at h
      exact ih c (b0 ++ [a]) false y ys h

theorem dropWhile_head {α} (p : α → Bool) (l : List α) (a : α) (r : List α)
    (h : l.dropWhile p = a :: r) : p a = false := by
  induction l with
  | nil => cases h
  | cons b l ih =>
    simp only [List.dropWhile_cons] at h
    split at h
    · exact ih h
    · rename_i hb; cases h; simpa using hb

theorem mem_dropWhile {α} (p : α → Bool) (l : List α) (a : α) (h : a ∈ l.dropWhile p) : a ∈ l := by
  induction l with
  | nil => cases h
  | cons b l ih =>
    simp only [List.dropWhile_cons] at h
    split at h
    · exact List.mem_cons_of_mem _ (ih h)
    · exact h

/-- the items of a dot-free fragment: well-formed, and the first one starts with '[' -/
theorem splitSelfies_items_wf (f : Str) (hf : '.' ∉ f) :
    (∀ y ∈ (splitSelfies f).1, SymWF y) ∧
    (∀ y ys, (splitSelfies f).1 = y :: ys → y.head? = some '[') := by
  unfold splitSelfies
  have hd : '.' ∉ f.dropWhile (· != '[') := fun h => hf (mem_dropWhile _ _ _ h)
  refine ⟨(splitGo_items_wf _ hd).1 false, ?_⟩
  intro y ys h
  cases hl : f.dropWhile (· != '[') with
  | nil => rw [hl] at h; simp [splitGo] at h
  | cons a l =>
    have := dropWhile_head _ _ _ _ hl
    have ha : a = '[' := by simpa using this
    subst ha
    rw [hl] at h
    simp only [splitGo, Bool.false_and, Bool.false_eq_true, if_false] at h
    exact splitGo_some_head l '[' [] false y ys h


def nopSym : Str := ['[', 'n', 'o', 'p', ']']

/-- Boolean version of `SymWF` (for `decide` on the generated table) -/
def symWFb (y : Str) : Bool :=
  match y with
  | [] => false
  | _ :: r => r.getLast? == some ']' && !(r.dropLast.contains ']') && !(y.contains '.')

theorem dropLast_append_of_getLast? {α} : ∀ (r : List α) (a : α),
    r.getLast? = some a → r.dropLast ++ [a] = r
  | [], _, h => by cases h
  | [b], a, h => by simp at h; simp [h]
  | b :: c :: r, a, h => by
    rw [List.getLast?_cons_cons] at h
    simp [dropLast_append_of_getLast? (c :: r) a h]

theorem SymWF_of_b (y : Str) (h : symWFb y = true) : SymWF y := by
  cases y with
  | nil => cases h
  | cons c r =>
    simp only [symWFb, Bool.and_eq_true, beq_iff_eq, Bool.not_eq_true', List.contains_eq_mem,
      decide_eq_false_iff_not] at h
    obtain ⟨⟨h1, h2⟩, h3⟩ := h
    refine ⟨c, r.dropLast, ?_, h2, h3⟩
    rw [List.cons_append, dropLast_append_of_getLast? _ _ h1]

theorem updateTable_values_wf :
    ∀ p ∈ Gen.updateTable, (symWFb p.2 && p.2.head? == some '[' && p.2 != nopSym) = true := by decide

theorem fresh_wf (bc sp : Str) (hbc : bc = [] ∨ ∃ c, isBondChar c = true ∧ bc = [c])
    (hg : ∀ c ∈ sp, goodChar c = true) : SymWF (['['] ++ bc ++ sp ++ [']']) := by
  have hbody : ∀ c ∈ bc ++ sp, c ≠ ']' ∧ c ≠ '.' := by
    intro c hc
    rcases List.mem_append.1 hc with hc | hc
    · rcases hbc with rfl | ⟨d, hd, rfl⟩
      · cases hc
      · simp only [List.mem_singleton] at hc; subst hc
        exact ⟨(isBondChar_ne c hd).1, (isBondChar_ne c hd).2.1⟩
    · exact ⟨(goodChar_ne c (hg c hc)).1, (goodChar_ne c (hg c hc)).2.1⟩
  refine ⟨'[', bc ++ sp, by simp, fun h => (hbody _ h).1 rfl, ?_⟩
  intro h
  simp only [List.mem_append, List.mem_singleton] at h
  rcases h with ((h | h) | h) | h
  · revert h; decide
  · exact (hbody _ (List.mem_append_left _ h)).2 rfl
  · exact (hbody _ (List.mem_append_right _ h)).2 rfl
  · revert h; decide

theorem fresh_ne_nop (bc sp : Str) (_hbc : bc = [] ∨ ∃ c, isBondChar c = true ∧ bc = [c])
    (hu : ∃ c ∈ sp, isAsciiUpper c = true) : ['['] ++ bc ++ sp ++ [']'] ≠ nopSym := by
  intro h
  obtain ⟨c, hc, hcu⟩ := hu
  have : c ∈ nopSym := by rw [← h]; simp [hc]
  simp only [nopSym, List.mem_cons, List.not_mem_nil, or_false] at this
  rcases this with rfl | rfl | rfl | rfl | rfl <;> revert hcu <;> decide

theorem modernSym_wf (x : Str) (hx : SymWF x) : SymWF (modernSym x) := by
  rcases modernSym_cases x with h1 | h1 | ⟨bc, sp, h1, hbc, hg, _⟩
  · rw [h1]; exact hx
  · have := updateTable_values_wf _ (lookup_some_mem _ _ _ h1)
    simp only [Bool.and_eq_true] at this
    exact SymWF_of_b _ this.1.1
  · rw [h1]; exact fresh_wf bc sp hbc hg

theorem modernSym_head (x : Str) (hx : x.head? = some '[') : (modernSym x).head? = some '[' := by
  rcases modernSym_cases x with h1 | h1 | ⟨bc, sp, h1, _, _, _⟩
  · rw [h1]; exact hx
  · have := updateTable_values_wf _ (lookup_some_mem _ _ _ h1)
    simp only [Bool.and_eq_true, beq_iff_eq] at this
    exact this.1.2
  · rw [h1]; rfl

theorem modernSym_nop : modernSym nopSym = nopSym := by decide

theorem modernSym_eq_nop (x : Str) : modernSym x = nopSym ↔ x = nopSym := by
  constructor
  · intro h
    rcases modernSym_cases x with h1 | h1 | ⟨bc, sp, h1, hbc, _, hu⟩
    · rw [← h1]; exact h
    · have := updateTable_values_wf _ (lookup_some_mem _ _ _ h1)
      simp only [Bool.and_eq_true, bne_iff_ne, ne_eq] at this
      exact absurd h this.2
    · rw [h1] at h; exact absurd h (fresh_ne_nop bc sp hbc hu)
  · rintro rfl; exact modernSym_nop


theorem nop_toList : "[nop]".toList = nopSym := by decide

/-! ### `split('.')` and `'.'.join` -/

theorem splitOnChar_ne_nil (sep : Char) (s : Str) : splitOnChar sep s ≠ [] := by
  induction s with
  | nil => simp [splitOnChar]
  | cons c s ih =>
    simp only [splitOnChar]
    split
    · simp
    · split <;> simp

theorem splitOnChar_cons_sep (sep : Char) (rest : Str) :
    splitOnChar sep (sep :: rest) = [] :: splitOnChar sep rest := by
  simp only [splitOnChar]
  cases h : splitOnChar sep rest with
  | nil => exact absurd h (splitOnChar_ne_nil sep rest)
  | cons hd tl => simp

theorem splitOnChar_append_sep (sep : Char) (p rest : Str) (h : sep ∉ p) :
    splitOnChar sep (p ++ sep :: rest) = p :: splitOnChar sep rest := by
  induction p with
  | nil => exact splitOnChar_cons_sep sep rest
  | cons c p ih =>
    have hc : (c == sep) = false := by
      have : c ≠ sep := fun e => h (by simp [e])
      simp [this]
    have hp : sep ∉ p := fun e => h (by simp [e])
    simp only [List.cons_append, splitOnChar, ih hp, hc, Bool.false_eq_true, if_false]

theorem splitOnChar_nosep (sep : Char) (p : Str) (h : sep ∉ p) : splitOnChar sep p = [p] := by
  induction p with
  | nil => rfl
  | cons c p ih =>
    have hc : (c == sep) = false := by
      have : c ≠ sep := fun e => h (by simp [e])
      simp [this]
    have hp : sep ∉ p := fun e => h (by simp [e])
    simp only [splitOnChar, ih hp, hc, Bool.false_eq_true, if_false]

theorem splitOnChar_joinWith (sep : Char) (parts : List Str) (hne : parts ≠ [])
    (h : ∀ p ∈ parts, sep ∉ p) : splitOnChar sep (joinWith [sep] parts) = parts := by
  induction parts with
  | nil => exact absurd rfl hne
  | cons p rest ih =>
    cases rest with
    | nil => simp only [joinWith]; exact splitOnChar_nosep sep p (h p List.mem_cons_self)
    | cons q rest =>
      simp only [joinWith, List.append_assoc, List.singleton_append]
      rw [splitOnChar_append_sep sep p _ (h p List.mem_cons_self),
        ih (by simp) (fun x hx => h x (List.mem_cons_of_mem _ hx))]

theorem splitOnChar_parts_nosep (sep : Char) (s : Str) : ∀ f ∈ splitOnChar sep s, sep ∉ f := by
  induction s with
  | nil => simp [splitOnChar]
  | cons c s ih =>
    simp only [splitOnChar]
    cases h : splitOnChar sep s with
    | nil => simp
    | cons hd tl =>
      rw [h] at ih
      simp only []
      by_cases hc : (c == sep) = true
      · simp only [hc, if_true]
        intro f hf
        rcases List.mem_cons.1 hf with rfl | hf
        · simp
        · exact ih f hf
      · simp only [hc, Bool.false_eq_true, if_false]
        intro f hf
        rcases List.mem_cons.1 hf with rfl | hf
        · intro hm
          rcases List.mem_cons.1 hm with e | hm
          · exact hc (by simp [e])
          · exact ih hd List.mem_cons_self hm
        · exact ih f (List.mem_cons_of_mem _ hf)



/-! ### the modernised string -/

/-- a fragment re-rendered with every symbol modernised (text before the first '[' is not part of
    any symbol and is dropped; a hanging '[' stays hanging) -/
def modernizeFragment (f : Str) : Str :=
  ((splitSelfies f).1.map modernSym).flatten ++ (if (splitSelfies f).2 then ['['] else [])

/-- the SELFIES string with every symbol replaced by its modernised form -/
def modernizeString (s : Str) : Str :=
  joinWith ['.'] ((splitOnChar '.' s).map modernizeFragment)

theorem splitGo_tail (bad d : Bool) : splitGo none d (if bad then ['['] else []) = ([], bad) := by
  cases bad <;> cases d <;> rfl

theorem splitSelfies_render (ys : List Str) (hys : ∀ y ∈ ys, SymWF y)
    (hhead : ∀ y ys', ys = y :: ys' → y.head? = some '[') (bad : Bool) :
    splitSelfies (ys.flatten ++ (if bad then ['['] else [])) = (ys, bad) := by
  unfold splitSelfies
  have hdw : (ys.flatten ++ (if bad then ['['] else [])).dropWhile (· != '[')
      = ys.flatten ++ (if bad then ['['] else []) := by
    cases ys with
    | nil => cases bad <;> rfl
    | cons y ys' =>
      have := hhead y ys' rfl
      cases y with
      | nil => cases this
      | cons c r =>
        simp only [List.head?_cons, Option.some.injEq] at this
        subst this
        simp
  rw [hdw]
  exact splitGo_render ys hys _ bad (splitGo_tail bad) false

theorem tokenize_of_split (g : Str) (items : List Str) (bad : Bool) (h : splitSelfies g = (items, bad)) :
    tokenizeFragment g =
      { toks := (List.range (items.filter (· != nopSym)).length).zip (items.filter (· != nopSym)),
        hanging := bad } := by
  unfold tokenizeFragment
  rw [h]
  simp only [nop_toList]

theorem filter_nop_map (items : List Str) :
    (items.map modernSym).filter (· != nopSym) = (items.filter (· != nopSym)).map modernSym := by
  rw [List.filter_map]
  congr 1
  apply List.filter_congr
  intro x _
  simp only [Function.comp, bne]
  by_cases hx : x = nopSym
  · subst hx; simp [modernSym_nop]
  · have : modernSym x ≠ nopSym := fun h => hx ((modernSym_eq_nop x).1 h)
    have h1 : (modernSym x == nopSym) = false := by simpa using this
    have h2 : (x == nopSym) = false := by simpa using hx
    simp only [h1, h2]

theorem tokenizeFragment_modernize (f : Str) (hf : '.' ∉ f) :
    tokenizeFragment (modernizeFragment f) = (tokenizeFragment f).mapSym modernSym := by
  obtain ⟨hwf, hhd⟩ := splitSelfies_items_wf f hf
  have hys : ∀ y ∈ (splitSelfies f).1.map modernSym, SymWF y := by
    intro y hy
    obtain ⟨x, hx, rfl⟩ := List.mem_map.1 hy
    exact modernSym_wf x (hwf x hx)
  have hhead : ∀ y ys', (splitSelfies f).1.map modernSym = y :: ys' → y.head? = some '[' := by
    intro y ys' h
    cases hi : (splitSelfies f).1 with
    | nil => rw [hi] at h; cases h
    | cons x xs =>
      rw [hi] at h
      simp only [List.map_cons, List.cons.injEq] at h
      rw [← h.1]
      exact modernSym_head x (hhd x xs hi)
  have hsp : splitSelfies (modernizeFragment f) = _ :=
    splitSelfies_render _ hys hhead (splitSelfies f).2
  rw [tokenize_of_split _ _ _ hsp, tokenize_of_split f _ _ rfl]
  simp only [Stream.mapSym, filter_nop_map, List.length_map, List.zip_map_right]
  congr 1

theorem modernizeFragment_nodot (f : Str) (hf : '.' ∉ f) : '.' ∉ modernizeFragment f := by
  obtain ⟨hwf, _⟩ := splitSelfies_items_wf f hf
  intro h
  unfold modernizeFragment at h
  rcases List.mem_append.1 h with h | h
  · obtain ⟨y, hy, hdot⟩ := List.mem_flatten.1 h
    obtain ⟨x, hx, rfl⟩ := List.mem_map.1 hy
    obtain ⟨_, _, _, _, hnd⟩ := modernSym_wf x (hwf x hx)
    exact hnd hdot
  · split at h
    · simp at h
    · cases h

theorem decoderFull_commutes_string (T : Table) (s : Str) (attrib : Bool) :
    decoderFull T s true attrib = decoderFull T (modernizeString s) false attrib := by
  apply decoderFull_commutes_streams
  have hparts := splitOnChar_parts_nosep '.' s
  unfold modernizeString
  rw [splitOnChar_joinWith '.' _ (by simpa using splitOnChar_ne_nil '.' s)
    (by
      intro p hp
      obtain ⟨f, hf, rfl⟩ := List.mem_map.1 hp
      exact modernizeFragment_nodot f (hparts f hf))]
  rw [List.map_map]
  apply List.map_congr_left
  intro f hf
  exact tokenizeFragment_modernize f (hparts f hf)


end C18

end SV
