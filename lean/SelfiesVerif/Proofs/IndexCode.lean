/-
  Helper lemmas for property C16: the index symbols form a base-16 positional code.

  Everything here depends on the generated tables `Gen.indexAlphabet` / `Gen.indexCode` only
  through the side-condition predicate `IndexTablesOK`, which is discharged on the current
  tables by `decide` at the end of the first section.
-/
import SelfiesVerif.Model.Symbols
import SelfiesVerif.Generated.DocTables

namespace SV

/-! ### side conditions on the generated tables -/

/-- What the general theorems need to know about `INDEX_ALPHABET` and `INDEX_CODE`:
    sixteen distinct symbols, and `INDEX_CODE = {c: i for i, c in enumerate(INDEX_ALPHABET)}`. -/
structure IndexTablesOK : Prop where
  len : Gen.indexAlphabet.length = 16
  nodup : Gen.indexAlphabet.Nodup
  code : Gen.indexCode = Gen.indexAlphabet.zipIdx

theorem indexTablesOK : IndexTablesOK where
  len := by decide
  nodup := by decide
  code := by decide

theorem IndexTablesOK.codeLen (h : IndexTablesOK) : Gen.indexCode.length = 16 := by
  rw [h.code, List.length_zipIdx, h.len]

/-! ### pure positional notation over `Nat` -/

/-- big-endian Horner value of a digit list -/
def hornerBE (b : Nat) (ds : List Nat) : Nat := ds.foldl (fun acc d => acc * b + d) 0

/-- little-endian value of a digit list -/
def evalLE (b : Nat) : List Nat → Nat
  | [] => 0
  | d :: ds => d + b * evalLE b ds

theorem foldl_horner_acc (b : Nat) (ds : List Nat) (acc : Nat) :
    ds.foldl (fun acc d => acc * b + d) acc
      = acc * b ^ ds.length + ds.foldl (fun acc d => acc * b + d) 0 := by
  induction ds generalizing acc with
  | nil => simp
  | cons d ds ih =>
    simp only [List.foldl_cons, List.length_cons]
    rw [ih (acc * b + d), ih (0 * b + d)]
    simp only [Nat.zero_mul, Nat.zero_add, Nat.add_mul, Nat.pow_succ, Nat.mul_assoc,
      Nat.mul_comm (b ^ ds.length) b, Nat.add_assoc]

theorem hornerBE_nil (b : Nat) : hornerBE b [] = 0 := rfl

theorem hornerBE_cons (b d : Nat) (ds : List Nat) :
    hornerBE b (d :: ds) = d * b ^ ds.length + hornerBE b ds := by
  unfold hornerBE
  rw [List.foldl_cons, foldl_horner_acc]
  simp

theorem hornerBE_append_singleton (b : Nat) (ds : List Nat) (d : Nat) :
    hornerBE b (ds ++ [d]) = hornerBE b ds * b + d := by
  simp [hornerBE, List.foldl_append]

theorem hornerBE_reverse (b : Nat) (ds : List Nat) : hornerBE b ds.reverse = evalLE b ds := by
  induction ds with
  | nil => rfl
  | cons d ds ih =>
    rw [List.reverse_cons, hornerBE_append_singleton, ih, evalLE, Nat.mul_comm, Nat.add_comm]

/-- a `k`-digit numeral is below `b ^ k` -/
theorem hornerBE_lt (b : Nat) (ds : List Nat) (h : ∀ d ∈ ds, d < b) :
    hornerBE b ds < b ^ ds.length := by
  induction ds with
  | nil => simp [hornerBE]
  | cons d ds ih =>
    rw [hornerBE_cons, List.length_cons, Nat.pow_succ]
    have h1 : d < b := h d (List.mem_cons_self)
    have h2 := ih (fun x hx => h x (List.mem_cons_of_mem _ hx))
    have h3 : (d + 1) * b ^ ds.length ≤ b * b ^ ds.length := Nat.mul_le_mul_right _ h1
    rw [Nat.add_mul, Nat.one_mul] at h3
    rw [Nat.mul_comm (b ^ ds.length) b]
    omega

/-- little-endian numerals of equal length with digits below `b` are determined by their value -/
theorem evalLE_inj (b : Nat) (hb : 0 < b) :
    ∀ (xs ys : List Nat), xs.length = ys.length → (∀ d ∈ xs, d < b) → (∀ d ∈ ys, d < b) →
      evalLE b xs = evalLE b ys → xs = ys
  | [], [], _, _, _, _ => rfl
  | [], _ :: _, hl, _, _, _ => by simp at hl
  | _ :: _, [], hl, _, _, _ => by simp at hl
  | x :: xs, y :: ys, hl, hx, hy, he => by
    have hx0 : x < b := hx x List.mem_cons_self
    have hy0 : y < b := hy y List.mem_cons_self
    simp only [evalLE] at he
    have hm : (x + b * evalLE b xs) % b = (y + b * evalLE b ys) % b := by rw [he]
    rw [Nat.add_mul_mod_self_left, Nat.add_mul_mod_self_left,
      Nat.mod_eq_of_lt hx0, Nat.mod_eq_of_lt hy0] at hm
    subst hm
    have he' : b * evalLE b xs = b * evalLE b ys := by omega
    have he'' : evalLE b xs = evalLE b ys := Nat.eq_of_mul_eq_mul_left hb he'
    have := evalLE_inj b hb xs ys (by simpa using hl)
      (fun d hd => hx d (List.mem_cons_of_mem _ hd))
      (fun d hd => hy d (List.mem_cons_of_mem _ hd)) he''
    rw [this]

theorem hornerBE_inj (b : Nat) (hb : 0 < b) (xs ys : List Nat) (hl : xs.length = ys.length)
    (hx : ∀ d ∈ xs, d < b) (hy : ∀ d ∈ ys, d < b) (he : hornerBE b xs = hornerBE b ys) :
    xs = ys := by
  have h1 := hornerBE_reverse b xs.reverse
  have h2 := hornerBE_reverse b ys.reverse
  rw [List.reverse_reverse] at h1 h2
  have := evalLE_inj b hb xs.reverse ys.reverse (by simpa using hl)
    (fun d hd => hx d (List.mem_reverse.1 hd)) (fun d hd => hy d (List.mem_reverse.1 hd))
    (by rw [← h1, ← h2, he])
  simpa using congrArg List.reverse this

/-! ### the `while index:` loop -/

theorem digitsLE_zero (b fuel : Nat) : selfiesDigitsLE b fuel 0 = [] := by
  cases fuel <;> simp [selfiesDigitsLE]

theorem digitsLE_succ_pos (b fuel n : Nat) (hn : 0 < n) :
    selfiesDigitsLE b (fuel + 1) n = (n % b) :: selfiesDigitsLE b fuel (n / b) := by
  have : n ≠ 0 := by omega
  simp [selfiesDigitsLE, this]

theorem digitsLE_lt (b : Nat) (hb : 0 < b) (fuel n : Nat) :
    ∀ d ∈ selfiesDigitsLE b fuel n, d < b := by
  induction fuel generalizing n with
  | zero => simp [selfiesDigitsLE]
  | succ f ih =>
    rcases Nat.eq_zero_or_pos n with rfl | hn
    · simp [digitsLE_zero]
    · rw [digitsLE_succ_pos b f n hn]
      intro d hd
      rcases List.mem_cons.1 hd with rfl | h
      · exact Nat.mod_lt _ hb
      · exact ih _ _ h

theorem div_le_fuel {b n f : Nat} (hb : 2 ≤ b) (hn : 0 < n) (hf : n ≤ f + 1) : n / b ≤ f := by
  have : n / b < n := Nat.div_lt_self hn hb
  omega

/-- with fuel `≥ n` (the model uses `n + 1`) the loop runs to completion: the digits evaluate to `n` -/
theorem evalLE_digitsLE (b : Nat) (hb : 2 ≤ b) (fuel n : Nat) (hf : n ≤ fuel) :
    evalLE b (selfiesDigitsLE b fuel n) = n := by
  induction fuel generalizing n with
  | zero =>
    have : n = 0 := by omega
    subst this; simp [selfiesDigitsLE, evalLE]
  | succ f ih =>
    rcases Nat.eq_zero_or_pos n with rfl | hn
    · simp [digitsLE_zero, evalLE]
    · rw [digitsLE_succ_pos b f n hn, evalLE, ih _ (div_le_fuel hb hn hf)]
      exact Nat.mod_add_div n b

theorem digitsLE_eq_nil_iff (b : Nat) (fuel n : Nat) (hf : n ≤ fuel) :
    selfiesDigitsLE b fuel n = [] ↔ n = 0 := by
  constructor
  · intro h
    cases fuel with
    | zero => omega
    | succ f =>
      rcases Nat.eq_zero_or_pos n with rfl | hn
      · rfl
      · rw [digitsLE_succ_pos b f n hn] at h; simp at h
  · rintro rfl; exact digitsLE_zero b fuel

/-- `n < b ^ len` -/
theorem digitsLE_upper (b : Nat) (hb : 2 ≤ b) (fuel n : Nat) (hf : n ≤ fuel) :
    n < b ^ (selfiesDigitsLE b fuel n).length := by
  induction fuel generalizing n with
  | zero =>
    have : n = 0 := by omega
    subst this; simp [selfiesDigitsLE]
  | succ f ih =>
    rcases Nat.eq_zero_or_pos n with rfl | hn
    · simp [digitsLE_zero]
    · rw [digitsLE_succ_pos b f n hn, List.length_cons, Nat.pow_succ]
      exact (Nat.div_lt_iff_lt_mul (by omega)).1 (ih _ (div_le_fuel hb hn hf))

/-- `b ^ (len - 1) ≤ n` for `n > 0` -/
theorem digitsLE_lower (b : Nat) (hb : 2 ≤ b) (fuel n : Nat) (hf : n ≤ fuel) (hn : 0 < n) :
    b ^ ((selfiesDigitsLE b fuel n).length - 1) ≤ n := by
  induction fuel generalizing n with
  | zero => omega
  | succ f ih =>
    rw [digitsLE_succ_pos b f n hn, List.length_cons, Nat.add_sub_cancel]
    rcases Nat.eq_zero_or_pos (n / b) with h0 | hpos
    · rw [h0, digitsLE_zero, List.length_nil, Nat.pow_zero]; exact hn
    · have hle := div_le_fuel hb hn hf
      have h1 := ih _ hle hpos
      have hne : selfiesDigitsLE b f (n / b) ≠ [] := by
        intro h; have := (digitsLE_eq_nil_iff b f (n / b) hle).1 h; omega
      have hlen : 0 < (selfiesDigitsLE b f (n / b)).length := List.length_pos_iff.2 hne
      have h2 := (Nat.le_div_iff_mul_le (by omega : 0 < b)).1 h1
      rw [← Nat.pow_succ] at h2
      have : ((selfiesDigitsLE b f (n / b)).length - 1).succ
          = (selfiesDigitsLE b f (n / b)).length := by omega
      rw [this] at h2
      exact h2

/-! ### association-list lookup in an enumerated list -/

theorem lookup_zipIdx_of_getElem? {α} [BEq α] [LawfulBEq α] :
    ∀ (A : List α) (_ : A.Nodup) (k i : Nat) (s : α), A[i]? = some s →
      lookup s (A.zipIdx k) = some (k + i)
  | [], _, _, _, _, h => by simp at h
  | a :: as, hnd, k, 0, s, h => by
    simp only [List.getElem?_cons_zero, Option.some.injEq] at h
    subst h
    simp [List.zipIdx_cons, lookup]
  | a :: as, hnd, k, i + 1, s, h => by
    simp only [List.getElem?_cons_succ] at h
    have hmem : s ∈ as := List.mem_of_getElem? h
    have hnd' := List.nodup_cons.1 hnd
    have hne : a ≠ s := fun e => hnd'.1 (e ▸ hmem)
    have hbeq : (a == s) = false := by simpa using hne
    rw [List.zipIdx_cons, lookup]
    simp only [hbeq, Bool.false_eq_true, if_false]
    rw [lookup_zipIdx_of_getElem? as hnd'.2 (k + 1) i s h]
    congr 1; omega

theorem lookup_zipIdx_of_not_mem {α} [BEq α] [LawfulBEq α] (s : α) :
    ∀ (A : List α) (k : Nat), s ∉ A → lookup s (A.zipIdx k) = none
  | [], _, _ => by simp [lookup]
  | a :: as, k, h => by
    have h' : s ≠ a ∧ s ∉ as := by simpa only [List.mem_cons, not_or] using h
    have hbeq : (a == s) = false := by
      have : a ≠ s := fun e => h'.1 e.symm
      simpa using this
    rw [List.zipIdx_cons, lookup]
    simp only [hbeq, Bool.false_eq_true, if_false]
    exact lookup_zipIdx_of_not_mem s as (k + 1) h'.2

theorem lookup_zipIdx_lt {α} [BEq α] [LawfulBEq α] (s : α) :
    ∀ (A : List α) (k v : Nat), lookup s (A.zipIdx k) = some v → v < k + A.length
  | [], _, _, h => by simp [lookup] at h
  | a :: as, k, v, h => by
    rw [List.zipIdx_cons, lookup] at h
    split at h
    · simp only [Option.some.injEq] at h; subst h; simp
    · have := lookup_zipIdx_lt s as (k + 1) v h
      simp only [List.length_cons]; omega

/-! ### digits of symbols -/

/-- the symbol the encoder writes for digit `d` (`INDEX_ALPHABET[d]`) -/
def indexSym (d : Nat) : Str := (Gen.indexAlphabet[d]?).getD []

theorem indexDigit_none : indexDigit none = 0 := rfl

theorem indexDigit_of_not_mem (h : IndexTablesOK) (s : Str) (hs : s ∉ Gen.indexAlphabet) :
    indexDigit (some s) = 0 := by
  simp only [indexDigit, h.code, lookup_zipIdx_of_not_mem s _ 0 hs, Option.getD_none]

theorem indexDigit_of_getElem? (h : IndexTablesOK) (d : Nat) (s : Str)
    (hs : Gen.indexAlphabet[d]? = some s) : indexDigit (some s) = d := by
  simp only [indexDigit, h.code, lookup_zipIdx_of_getElem? _ h.nodup 0 d s hs, Option.getD_some,
    Nat.zero_add]

theorem indexSym_getElem? (h : IndexTablesOK) (d : Nat) (hd : d < 16) :
    Gen.indexAlphabet[d]? = some (indexSym d) := by
  have : d < Gen.indexAlphabet.length := by rw [h.len]; exact hd
  simp [indexSym, List.getElem?_eq_getElem this]

theorem indexDigit_indexSym (h : IndexTablesOK) (d : Nat) (hd : d < 16) :
    indexDigit (some (indexSym d)) = d :=
  indexDigit_of_getElem? h d _ (indexSym_getElem? h d hd)

theorem indexSym_mem (h : IndexTablesOK) (d : Nat) (hd : d < 16) :
    indexSym d ∈ Gen.indexAlphabet :=
  List.mem_of_getElem? (indexSym_getElem? h d hd)

/-- every digit value is below 16, whatever the symbol -/
theorem indexDigit_lt (h : IndexTablesOK) (c : Option Str) : indexDigit c < 16 := by
  cases c with
  | none => simp [indexDigit]
  | some s =>
    simp only [indexDigit, h.code]
    cases hl : lookup s (Gen.indexAlphabet.zipIdx) with
    | none => simp
    | some v =>
      have := lookup_zipIdx_lt s _ 0 v hl
      rw [h.len] at this
      simpa using this

/-- a symbol of the alphabet is the encoder's symbol of its own digit -/
theorem indexSym_indexDigit (h : IndexTablesOK) (s : Str) (hs : s ∈ Gen.indexAlphabet) :
    indexSym (indexDigit (some s)) = s := by
  obtain ⟨d, hd⟩ := List.getElem?_of_mem hs
  rw [indexDigit_of_getElem? h d s hd]
  simp [indexSym, hd]

/-! ### decoder side: Horner form -/

theorem getIndexFromSelfies_go_eq (b : Nat) (l : List (Option Str)) (i : Nat) :
    getIndexFromSelfies.go b l i = b ^ i * l.foldr (fun c acc => indexDigit c + b * acc) 0 := by
  induction l generalizing i with
  | nil => simp [getIndexFromSelfies.go]
  | cons c rest ih =>
    simp only [getIndexFromSelfies.go, List.foldr_cons, ih (i + 1)]
    rw [Nat.mul_add, Nat.pow_succ, Nat.mul_assoc, Nat.mul_comm (indexDigit c)]

/-- `get_index_from_selfies` is Horner evaluation in base `len(INDEX_CODE)` -/
theorem getIndexFromSelfies_eq_foldl (syms : List (Option Str)) :
    getIndexFromSelfies syms
      = syms.foldl (fun acc c => acc * Gen.indexCode.length + indexDigit c) 0 := by
  simp only [getIndexFromSelfies, getIndexFromSelfies_go_eq, Nat.pow_zero, Nat.one_mul,
    List.foldr_reverse]
  congr 1
  funext acc c
  rw [Nat.mul_comm, Nat.add_comm]

theorem getIndexFromSelfies_eq_hornerBE (h : IndexTablesOK) (syms : List (Option Str)) :
    getIndexFromSelfies syms = hornerBE 16 (syms.map indexDigit) := by
  rw [getIndexFromSelfies_eq_foldl, h.codeLen, hornerBE, List.foldl_map]

/-! ### encoder side -/

theorem mapM_getIdx {α} (A : List α) (dflt : α) (ds : List Nat) (h : ∀ d ∈ ds, d < A.length) :
    ds.mapM (getIdx A) = .ok (ds.map fun d => (A[d]?).getD dflt) := by
  induction ds with
  | nil => rfl
  | cons d ds ih =>
    have hd : d < A.length := h d List.mem_cons_self
    rw [List.mapM_cons, ih (fun x hx => h x (List.mem_cons_of_mem _ hx))]
    simp [getIdx, List.getElem?_eq_getElem hd, bind, Except.bind, pure, Except.pure]

/-- big-endian digits of `n` as the model computes them (fuel `n + 1`, base 16) -/
def indexDigitsBE (n : Nat) : List Nat := (selfiesDigitsLE 16 (n + 1) n).reverse

theorem indexDigitsBE_lt (n : Nat) : ∀ d ∈ indexDigitsBE n, d < 16 := by
  intro d hd
  exact digitsLE_lt 16 (by omega) _ _ d (List.mem_reverse.1 hd)

theorem hornerBE_indexDigitsBE (n : Nat) : hornerBE 16 (indexDigitsBE n) = n := by
  rw [indexDigitsBE, hornerBE_reverse]
  exact evalLE_digitsLE 16 (by omega) _ _ (by omega)

theorem indexDigitsBE_length_upper (n : Nat) : n < 16 ^ (indexDigitsBE n).length := by
  rw [indexDigitsBE, List.length_reverse]
  exact digitsLE_upper 16 (by omega) _ _ (by omega)

theorem indexDigitsBE_length_lower (n : Nat) (hn : 0 < n) :
    16 ^ ((indexDigitsBE n).length - 1) ≤ n := by
  rw [indexDigitsBE, List.length_reverse]
  exact digitsLE_lower 16 (by omega) _ _ (by omega) hn

theorem indexDigitsBE_ne_nil (n : Nat) (hn : 0 < n) : indexDigitsBE n ≠ [] := by
  intro h
  have : selfiesDigitsLE 16 (n + 1) n = [] := by simpa [indexDigitsBE] using h
  have := (digitsLE_eq_nil_iff 16 (n + 1) n (by omega)).1 this
  omega

/-- closed form of `get_selfies_from_index` on non-negative arguments -/
theorem getSelfiesFromIndex_pos (h : IndexTablesOK) (n : Nat) (hn : 0 < n) :
    getSelfiesFromIndex (n : Int) = .ok ((indexDigitsBE n).map indexSym) := by
  have h1 : ¬ ((n : Int) < 0) := by omega
  have h2 : ¬ ((n : Int) = 0) := by omega
  have h3 : ¬ (Gen.indexAlphabet.length < 2) := by rw [h.len]; omega
  simp only [getSelfiesFromIndex, h1, h2, h3, if_false, Int.toNat_natCast]
  rw [h.len]
  have := mapM_getIdx Gen.indexAlphabet ([] : Str) (indexDigitsBE n)
    (fun d hd => by rw [h.len]; exact indexDigitsBE_lt n d hd)
  have e : indexSym = fun d => (Gen.indexAlphabet[d]?).getD [] := rfl
  rw [e]
  simpa only [indexDigitsBE] using this

theorem getSelfiesFromIndex_zero (h : IndexTablesOK) :
    getSelfiesFromIndex 0 = .ok [indexSym 0] := by
  have := indexSym_getElem? h 0 (by omega)
  have h1 : ¬ ((0 : Int) < 0) := by omega
  simp only [getSelfiesFromIndex, h1, if_false, if_true, getIdx, this, bind, Except.bind, pure,
    Except.pure]

theorem getSelfiesFromIndex_neg (n : Nat) :
    getSelfiesFromIndex (-((n : Int) + 1)) = .error .IndexError := by
  have : -((n : Int) + 1) < 0 := by omega
  simp only [getSelfiesFromIndex, this, if_true]

/-- digits of the symbols written for a list of digits below 16 -/
theorem map_indexDigit_map_indexSym (h : IndexTablesOK) (ds : List Nat) (hd : ∀ d ∈ ds, d < 16) :
    ((ds.map indexSym).map some).map indexDigit = ds := by
  induction ds with
  | nil => rfl
  | cons d ds ih =>
    simp only [List.map_cons]
    rw [indexDigit_indexSym h d (hd d List.mem_cons_self),
      ih (fun x hx => hd x (List.mem_cons_of_mem _ hx))]

/-! ### the encoder output in closed form, for every natural number -/

/-- the digit sequence `get_selfies_from_index` writes: `[0]` for 0, otherwise the loop's digits -/
def encDigits (n : Nat) : List Nat := if n = 0 then [0] else indexDigitsBE n

theorem encDigits_zero : encDigits 0 = [0] := rfl

theorem encDigits_pos (n : Nat) (hn : 0 < n) : encDigits n = indexDigitsBE n := by
  have : n ≠ 0 := by omega
  simp [encDigits, this]

theorem getSelfiesFromIndex_nat (h : IndexTablesOK) (n : Nat) :
    getSelfiesFromIndex (n : Int) = .ok ((encDigits n).map indexSym) := by
  rcases Nat.eq_zero_or_pos n with rfl | hn
  · exact getSelfiesFromIndex_zero h
  · rw [encDigits_pos n hn]; exact getSelfiesFromIndex_pos h n hn

theorem getSelfiesFromIndex_ok_iff (h : IndexTablesOK) (n : Nat) (syms : List Str) :
    getSelfiesFromIndex (n : Int) = .ok syms ↔ syms = (encDigits n).map indexSym := by
  rw [getSelfiesFromIndex_nat h n]
  constructor
  · intro e; injection e with e; exact e.symm
  · rintro rfl; rfl

theorem encDigits_lt (n : Nat) : ∀ d ∈ encDigits n, d < 16 := by
  rcases Nat.eq_zero_or_pos n with rfl | hn
  · simp [encDigits_zero]
  · rw [encDigits_pos n hn]; exact indexDigitsBE_lt n

theorem hornerBE_encDigits (n : Nat) : hornerBE 16 (encDigits n) = n := by
  rcases Nat.eq_zero_or_pos n with rfl | hn
  · simp [encDigits_zero, hornerBE]
  · rw [encDigits_pos n hn]; exact hornerBE_indexDigitsBE n

theorem encDigits_ne_nil (n : Nat) : encDigits n ≠ [] := by
  rcases Nat.eq_zero_or_pos n with rfl | hn
  · simp [encDigits_zero]
  · rw [encDigits_pos n hn]; exact indexDigitsBE_ne_nil n hn

theorem encDigits_length_upper (n : Nat) : n < 16 ^ (encDigits n).length := by
  rcases Nat.eq_zero_or_pos n with rfl | hn
  · simp [encDigits_zero]
  · rw [encDigits_pos n hn]; exact indexDigitsBE_length_upper n

theorem encDigits_length_lower (n : Nat) (hn : 0 < n) : 16 ^ ((encDigits n).length - 1) ≤ n := by
  rw [encDigits_pos n hn]; exact indexDigitsBE_length_lower n hn

/-- no leading zero for `n > 0` -/
theorem encDigits_head_ne_zero (n : Nat) (hn : 0 < n) (d : Nat) (rest : List Nat)
    (h : encDigits n = d :: rest) : d ≠ 0 := by
  rintro rfl
  have hv := hornerBE_encDigits n
  have hlo := encDigits_length_lower n hn
  have hlt := encDigits_lt n
  rw [h] at hv hlo hlt
  rw [hornerBE_cons, Nat.zero_mul, Nat.zero_add] at hv
  have := hornerBE_lt 16 rest (fun x hx => hlt x (List.mem_cons_of_mem _ hx))
  simp only [List.length_cons, Nat.add_sub_cancel] at hlo
  omega

/-- the number of digits is at most `k` exactly when `n < 16 ^ k` (for `k ≥ 1`) -/
theorem encDigits_length_le_iff (n k : Nat) (hk : 1 ≤ k) :
    (encDigits n).length ≤ k ↔ n < 16 ^ k := by
  constructor
  · intro hle
    exact Nat.lt_of_lt_of_le (encDigits_length_upper n) (Nat.pow_le_pow_right (by omega) hle)
  · intro hlt
    rcases Nat.eq_zero_or_pos n with rfl | hn
    · simpa [encDigits_zero] using hk
    · have hlo := encDigits_length_lower n hn
      apply Nat.le_of_not_lt
      intro hgt
      have : 16 ^ k ≤ 16 ^ ((encDigits n).length - 1) :=
        Nat.pow_le_pow_right (by omega) (by omega)
      omega

/-- decoding what was written for a list of digits below 16 gives its Horner value -/
theorem getIndexFromSelfies_map_indexSym (h : IndexTablesOK) (ds : List Nat)
    (hd : ∀ d ∈ ds, d < 16) :
    getIndexFromSelfies ((ds.map indexSym).map some) = hornerBE 16 ds := by
  rw [getIndexFromSelfies_eq_hornerBE h, map_indexDigit_map_indexSym h ds hd]

/-- any symbol list decodes to a number below `16 ^ length` -/
theorem getIndexFromSelfies_lt (h : IndexTablesOK) (syms : List (Option Str)) :
    getIndexFromSelfies syms < 16 ^ syms.length := by
  rw [getIndexFromSelfies_eq_hornerBE h]
  have := hornerBE_lt 16 (syms.map indexDigit) (by
    intro d hd
    obtain ⟨c, _, rfl⟩ := List.mem_map.1 hd
    exact indexDigit_lt h c)
  simpa using this

/-- positional form: the first symbol carries weight `16 ^ (number of remaining symbols)` -/
theorem getIndexFromSelfies_cons (h : IndexTablesOK) (c : Option Str) (syms : List (Option Str)) :
    getIndexFromSelfies (c :: syms)
      = indexDigit c * 16 ^ syms.length + getIndexFromSelfies syms := by
  rw [getIndexFromSelfies_eq_hornerBE h, getIndexFromSelfies_eq_hornerBE h, List.map_cons,
    hornerBE_cons, List.length_map]

/-- appending `k` missing (or unknown) symbols multiplies by `16 ^ k` -/
theorem getIndexFromSelfies_append_zero (h : IndexTablesOK) (syms pad : List (Option Str))
    (hpad : ∀ c ∈ pad, indexDigit c = 0) :
    getIndexFromSelfies (syms ++ pad) = getIndexFromSelfies syms * 16 ^ pad.length := by
  rw [getIndexFromSelfies_eq_foldl, getIndexFromSelfies_eq_foldl, h.codeLen, List.foldl_append]
  generalize syms.foldl (fun acc c => acc * 16 + indexDigit c) 0 = a
  induction pad generalizing a with
  | nil => simp
  | cons c pad ih =>
    rw [List.foldl_cons, ih (fun x hx => hpad x (List.mem_cons_of_mem _ hx)),
      hpad c List.mem_cons_self, List.length_cons, Nat.pow_succ, Nat.add_zero, Nat.mul_assoc,
      Nat.mul_comm 16]

/-- the produced symbol list is the only one of its length over the alphabet that decodes to `n` -/
theorem encoding_unique (h : IndexTablesOK) (n : Nat) (syms' : List Str)
    (hmem : ∀ s ∈ syms', s ∈ Gen.indexAlphabet)
    (hlen : syms'.length = (encDigits n).length)
    (hval : getIndexFromSelfies (syms'.map some) = n) :
    syms' = (encDigits n).map indexSym := by
  have hd' : ∀ d ∈ (syms'.map some).map indexDigit, d < 16 := by
    intro d hd
    obtain ⟨c, _, rfl⟩ := List.mem_map.1 hd
    exact indexDigit_lt h c
  have heq : (syms'.map some).map indexDigit = encDigits n := by
    apply hornerBE_inj 16 (by omega) _ _ (by simpa using hlen) hd' (encDigits_lt n)
    rw [← getIndexFromSelfies_eq_hornerBE h, hval, hornerBE_encDigits]
  rw [← heq]
  simp only [List.map_map]
  have : ∀ s ∈ syms', (indexSym ∘ indexDigit ∘ some) s = s :=
    fun s hs => indexSym_indexDigit h s (hmem s hs)
  calc syms' = syms'.map id := by simp
    _ = syms'.map (indexSym ∘ indexDigit ∘ some) :=
        List.map_congr_left (fun s hs => (this s hs).symm)

end SV
