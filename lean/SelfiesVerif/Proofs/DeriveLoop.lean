/-
  Induction over `deriveLoop` (fuel) and `deriveFragments`: the derive phase keeps `DInv`.
  State accounting: a call entered with state `s` at atom `prev` adds at most `s` to
  `counts[prev]` and leaves every other pre-existing atom untouched (`Frame`).
-/
import SelfiesVerif.Proofs.DeriveInv
namespace SV

def RingsOK (rings : List RingReq) : Prop :=
  ∀ r ∈ rings, r.1 ≤ r.2.1 ∧ 1 ≤ r.2.2.1 ∧ r.2.2.1 ≤ 3

def Pre (T : Table) (m : Mol) (s : Nat) (prev : Option Nat) : Prop :=
  0 < s → ∃ (p : Nat) (a : Atom) (c : Nat), prev = some p ∧ m.atoms[p]? = some a ∧
    m.counts[p]? = some c ∧ (c : Int) + s ≤ a.bondingCapacity T

structure Frame (m m' : Mol) (s : Nat) (prev : Option Nat) : Prop where
  atoms : ∀ (i : Nat) (a : Atom), m.atoms[i]? = some a → m'.atoms[i]? = some a
  others : ∀ i, i < m.atoms.length → prev ≠ some i → m'.counts[i]? = m.counts[i]?
  atPrev : ∀ (p c : Nat), prev = some p → m.counts[p]? = some c →
    ∃ c', m'.counts[p]? = some c' ∧ c' ≤ c + s

theorem Frame.refl (m : Mol) (prev) : Frame m m 0 prev :=
  ⟨fun _ _ h => h, fun _ _ _ => rfl, fun _ c _ h => ⟨c, h, Nat.le_refl _⟩⟩

theorem Frame.mono {m m' s s' prev} (h : Frame m m' s prev) (hs : s ≤ s') : Frame m m' s' prev :=
  ⟨h.atoms, h.others, fun p c h1 h2 => by
    obtain ⟨c', h3, h4⟩ := h.atPrev p c h1 h2
    exact ⟨c', h3, by omega⟩⟩

theorem Frame.size_le {m m' s prev} (h : Frame m m' s prev) : m.atoms.length ≤ m'.atoms.length := by
  by_cases h0 : m.atoms.length = 0
  · omega
  · have hlt : m.atoms.length - 1 < m.atoms.length := by omega
    have := h.atoms (m.atoms.length - 1) _ (List.getElem?_eq_getElem hlt)
    have := (List.getElem?_eq_some_iff.mp this).1
    omega

theorem Frame.trans {m m1 m2 s1 s2 prev} (h1 : Frame m m1 s1 prev) (h2 : Frame m1 m2 s2 prev) :
    Frame m m2 (s1 + s2) prev := by
  refine ⟨fun i a h => h2.atoms i a (h1.atoms i a h), ?_, ?_⟩
  · intro i hi hp
    rw [h2.others i (by have := h1.size_le; omega) hp, h1.others i hi hp]
  · intro p c hp hc
    obtain ⟨c1, e1, l1⟩ := h1.atPrev p c hp hc
    obtain ⟨c2, e2, l2⟩ := h2.atPrev p c1 hp e1
    exact ⟨c2, e2, by omega⟩

/-- continue from a new atom `idx` that did not exist in `m` -/
theorem Frame.trans_new {m m1 m2 s1 s2 prev idx} (hC : m.counts.length = m.atoms.length)
    (h1 : Frame m m1 s1 prev) (h2 : Frame m1 m2 s2 (some idx))
    (hidx : m.atoms.length ≤ idx) : Frame m m2 s1 prev := by
  refine ⟨fun i a h => h2.atoms i a (h1.atoms i a h), ?_, ?_⟩
  · intro i hi hp
    rw [h2.others i (by have := h1.size_le; omega) (by simp; omega), h1.others i hi hp]
  · intro p c hp hc
    obtain ⟨c1, e1, l1⟩ := h1.atPrev p c hp hc
    have hplt : p < m.atoms.length := by
      have := (List.getElem?_eq_some_iff.mp hc).1; omega
    refine ⟨c1, ?_, l1⟩
    rw [h2.others p (by have := h1.size_le; omega) (by simp; omega), e1]

theorem Pre.mono {T m s s' prev} (h : Pre T m s prev) (hs : s' ≤ s) : Pre T m s' prev := by
  intro h0
  obtain ⟨p, a, c, h1, h2, h3, h4⟩ := h (by omega)
  exact ⟨p, a, c, h1, h2, h3, by omega⟩

/-- after spending at most `s1` at `prev`, the remaining `s2` is still available -/
theorem Pre.after {T m m1 s1 s2 prev} (h : Pre T m (s1 + s2) prev) (hf : Frame m m1 s1 prev) :
    Pre T m1 s2 prev := by
  intro h0
  obtain ⟨p, a, c, h1, h2, h3, h4⟩ := h (by omega)
  obtain ⟨c', e, l⟩ := hf.atPrev p c h1 h3
  exact ⟨p, a, c', h1, hf.atoms p a h2, e, by omega⟩

theorem nextBranchState_ok {bt s bi ns} (h : nextBranchState bt s = .ok (bi, ns)) :
    1 ≤ bi ∧ 1 ≤ ns ∧ bi + ns = s := by
  unfold nextBranchState at h
  split at h
  · split at h
    · simp only [Except.ok.injEq, Prod.mk.injEq] at h
      omega
    · cases h
  · cases h

theorem nextRingState_ok {rt s o ns} (h : nextRingState rt s = .ok (o, ns)) :
    o = min rt s ∧ 0 < s ∧ ∀ s', ns = some s' → 0 < s' ∧ s' ≤ s := by
  unfold nextRingState at h
  split at h
  · simp only [Except.ok.injEq, Prod.mk.injEq] at h
    obtain ⟨rfl, rfl⟩ := h
    refine ⟨rfl, by omega, ?_⟩
    intro s' hs'
    split at hs'
    · cases hs'
    · cases hs'; omega
  · cases h

theorem nextAtomState_ok {bO cap s bo : Nat} {ns : Option Nat}
    (h : nextAtomState bO cap s = (bo, ns)) :
    bo ≤ s ∧ bo ≤ cap ∧ bo ≤ bO ∧ (ns = none → cap = bo) ∧
    (∀ s', ns = some s' → s' = cap - bo ∧ 0 < s') ∧ (bo = 0 → 1 ≤ bO → s ≠ 0 → cap = 0) := by
  unfold nextAtomState at h
  simp only [Prod.mk.injEq] at h
  obtain ⟨h1, h2⟩ := h
  rw [h1] at h2
  have hb : bo ≤ s ∧ bo ≤ cap ∧ bo ≤ bO ∧ (bo = 0 → 1 ≤ bO → s ≠ 0 → cap = 0) := by
    subst h1; split <;> omega
  refine ⟨hb.1, hb.2.1, hb.2.2.1, ?_, ?_, hb.2.2.2⟩
  · intro h; subst h; split at h2
    · omega
    · cases h2
  · intro s' h; subst h; split at h2
    · cases h2
    · cases h2; omega

theorem processRingSymbol_ok {sym rt n st} (h : processRingSymbol sym = some (rt, n, st)) :
    1 ≤ rt ∧ rt ≤ 3 := by
  have key : ∀ e ∈ Gen.ringTable, 1 ≤ e.2.1 ∧ e.2.1 ≤ 3 := by decide +kernel
  obtain ⟨k, hk⟩ := lookup_mem _ _ _ h
  exact key _ hk

theorem processAtomSymbol_ok {T sym bo st a} (h : processAtomSymbol T sym = some ((bo, st), a)) :
    1 ≤ bo ∧ bo ≤ 3 ∧ 0 ≤ a.bondingCapacity T := by
  unfold processAtomSymbol at h
  split at h
  · cases h
  · rename_i bi a' heq
    split at h
    · cases h
    · cases h
      obtain ⟨c, hc⟩ := processAtomSelfiesNoCache_order heq
      simp only at hc
      have := bondOrder2_range c
      omega

theorem fin_ok {compat} {k : Nat} {s0 : Stream} {mol : Mol} {rings : List RingReq} {md nd}
    {r : DState × Nat}
    (h : (do
      let __x ← consumeRest compat k s0 md nd
      match __x with
        | (s', n) => pure ({ stream := s', mol := mol, rings := rings }, n) : Py (DState × Nat))
      = .ok r) : r.1.mol = mol ∧ r.1.rings = rings := by
  obtain ⟨⟨s', n⟩, _, h2⟩ := bind_okD h
  cases h2
  exact ⟨rfl, rfl⟩

-- `bind_okD` on hypothesis `h`, replacing it
open Lean.Parser.Tactic in
syntax "bind_at " ident " with " rcasesPatMed : tactic
macro_rules
  | `(tactic| bind_at $h with $pat) =>
    `(tactic| (have h2 := bind_okD $h; clear $h; obtain $pat := h2))

def Good (T : Table) (st : DState) (s : Nat) (prev : Option Nat) (st' : DState) : Prop :=
  DInv T st'.mol ∧ RingsOK st'.rings ∧ Frame st.mol st'.mol s prev

theorem Good.of_fin {T} {mol : Mol} {rings : List RingReq} {st0 : DState} {s prev} {r : DState × Nat}
    (hI : DInv T mol) (hR : RingsOK rings) (hF : Frame st0.mol mol s prev)
    (h : r.1.mol = mol ∧ r.1.rings = rings) : Good T st0 s prev r.1 := by
  unfold Good; rw [h.1, h.2]; exact ⟨hI, hR, hF⟩

theorem deriveLoop_inv (T : Table) (compat : Bool) : ∀ (fuel depth : Nat) (st : DState) (maxDerive : Option Nat)
    (nDerived state : Nat) (prev : Option Nat) (attrStack : Option (List Attribution)) (attrIndex : Nat)
    (r : DState × Nat),
    deriveLoop T compat fuel depth st maxDerive nDerived state prev attrStack attrIndex = .ok r →
    DInv T st.mol → RingsOK st.rings → Pre T st.mol state prev → Good T st state prev r.1 := by
  intro fuel
  induction fuel with
  | zero => intro _ _ _ _ _ _ _ _ _ h; simp [deriveLoop] at h
  | succ fuel ih =>
    intro depth st maxDerive nDerived state prev attrStack attrIndex r h hI hR hP
    unfold deriveLoop at h
    dsimp only at h
    split at h
    · exact Good.of_fin hI hR ((Frame.refl _ _).mono (Nat.zero_le _)) (fin_ok h)
    · bind_at h with ⟨nx, hnx, h⟩
      split at h
      · exact Good.of_fin hI hR ((Frame.refl _ _).mono (Nat.zero_le _)) (fin_ok h)
      · rename_i index symbol stream'
        split at h
        · -- branch
          split at h
          · cases h
          · rename_i btype n hbr
            split at h
            · have g := ih _ _ _ _ _ _ _ _ _ h hI hR hP
              exact g
            · rename_i hst
              bind_at h with ⟨⟨binit, nextState⟩, hnb, h⟩
              dsimp only at h
              bind_at h with ⟨⟨q, nRead, stream2⟩, hri, h⟩
              dsimp only at h
              split at h
              · cases h
              · bind_at h with ⟨⟨st1, nb⟩, hrec, h⟩
                dsimp only at h
                obtain ⟨hb1, hb2, hb3⟩ := nextBranchState_ok hnb
                have hP' : Pre T st.mol (binit + nextState) prev := by rw [hb3]; exact hP
                have g1 := ih _ _ _ _ _ _ _ _ _ hrec hI hR (hP'.mono (by omega))
                obtain ⟨i1, r1, f1⟩ := g1
                have g2 := ih _ _ _ _ _ _ _ _ _ h i1 r1 (hP'.after f1)
                obtain ⟨i2, r2, f2⟩ := g2
                refine ⟨i2, r2, ?_⟩
                rw [← hb3]; exact f1.trans f2
        · split at h
          · -- ring
            split at h
            · cases h
            · rename_i rtype n stereo hrs
              split at h
              · have g := ih _ _ _ _ _ _ _ _ _ h hI hR hP
                exact g
              · bind_at h with ⟨⟨order, nextState⟩, hnr, h⟩
                dsimp only at h
                bind_at h with ⟨⟨q, nRead, stream2⟩, hri, h⟩
                dsimp only at h
                split at h
                · cases h
                · rename_i p
                  bind_at h with ⟨_, _, h⟩
                  obtain ⟨ho, hs0, hns⟩ := nextRingState_ok hnr
                  have hrt := processRingSymbol_ok hrs
                  have hR' : RingsOK (st.rings ++ [(p - (q + 1), p, order, stereo)]) := by
                    intro r hr
                    rcases List.mem_append.mp hr with hr | hr
                    · exact hR r hr
                    · simp at hr; subst hr
                      simp only
                      omega
                  split at h
                  · exact Good.of_fin hI hR' ((Frame.refl _ _).mono (Nat.zero_le _)) (fin_ok h)
                  · rename_i s'
                    obtain ⟨hs1, hs2⟩ := hns s' rfl
                    have g := ih _ _ _ _ _ _ _ _ _ h hI hR' (hP.mono hs2)
                    exact ⟨g.1, g.2.1, g.2.2.mono hs2⟩
          · split at h
            · -- epsilon
              split at h
              · rename_i hs0
                have hs0' : state = 0 := by simpa using hs0
                subst hs0'
                have g := ih _ _ _ _ _ _ _ _ _ h hI hR hP
                exact g
              · exact Good.of_fin hI hR ((Frame.refl _ _).mono (Nat.zero_le _)) (fin_ok h)
            · -- atom
              split at h
              · cases h
              · rename_i bondOrder stereo atom hpa
                obtain ⟨hbO1, hbO3, hcap0⟩ := processAtomSymbol_ok hpa
                generalize hna : nextAtomState bondOrder (Atom.bondingCapacity T atom).toNat state = nas at h
                obtain ⟨bo, ns⟩ := nas
                obtain ⟨n1, n2, n3, n4, n5, n6⟩ := nextAtomState_ok hna
                dsimp only at h
                split at h
                · rename_i hbo0
                  have hbo0' : bo = 0 := by simpa using hbo0
                  subst hbo0'
                  split at h
                  · -- new root
                    rename_i hs0
                    have hs0' : state = 0 := by simpa using hs0
                    subst hs0'
                    have hI1 := hI.addAtom_root atom (attrPush attrStack (index + attrIndex) symbol) hcap0
                    have hF1 : Frame st.mol (st.mol.addAtom atom true (attrPush attrStack (index + attrIndex) symbol)).1 0 prev := by
                      refine ⟨?_, ?_, ?_⟩
                      · intro i a hi
                        simp only [Mol.addAtom]
                        rw [List.getElem?_append_left (List.getElem?_eq_some_iff.mp hi).1]; exact hi
                      · intro i hi _
                        simp only [Mol.addAtom]
                        rw [List.getElem?_append_left (by rw [hI.lenC]; exact hi)]
                      · intro p c _ hc
                        refine ⟨c, ?_, Nat.le_refl _⟩
                        simp only [Mol.addAtom]
                        rw [List.getElem?_append_left (List.getElem?_eq_some_iff.mp hc).1]; exact hc
                    split at h
                    · exact Good.of_fin hI1 hR hF1 (fin_ok h)
                    · rename_i s'
                      obtain ⟨e1, e2⟩ := n5 s' rfl
                      have hP1 : Pre T (st.mol.addAtom atom true (attrPush attrStack (index + attrIndex) symbol)).1 s'
                          (some (st.mol.addAtom atom true (attrPush attrStack (index + attrIndex) symbol)).2) := by
                        intro _
                        refine ⟨_, atom, 0, rfl, ?_, ?_, ?_⟩
                        · simp [Mol.addAtom]
                        · simp [Mol.addAtom, ← hI.lenC]
                        · omega
                      have g := ih _ _ _ _ _ _ _ _ _ h hI1 hR hP1
                      exact ⟨g.1, g.2.1, Frame.trans_new hI.lenC hF1 g.2.2 (by simp [Mol.addAtom])⟩
                  · rename_i hs0
                    have hs0' : state ≠ 0 := by simpa using hs0
                    have hc0 := n6 rfl hbO1 hs0'
                    split at h
                    · exact Good.of_fin hI hR ((Frame.refl _ _).mono (Nat.zero_le _)) (fin_ok h)
                    · rename_i s'
                      have := n5 s' rfl
                      omega
                · rename_i hbo0
                  have hbo1 : 1 ≤ bo := by
                    have : bo ≠ 0 := by simpa using hbo0
                    omega
                  obtain ⟨p, ap, c, hprev, hap, hc, hcap⟩ := hP (by omega)
                  subst hprev
                  dsimp only at h
                  bind_at h with ⟨mol1, hab, h⟩
                  have hplt : p < st.mol.atoms.length := (List.getElem?_eq_some_iff.mp hap).1
                  obtain ⟨row, hrow⟩ : ∃ row, st.mol.adj[p]? = some row :=
                    ⟨_, List.getElem?_eq_getElem (by rw [hI.lenA]; exact hplt)⟩
                  obtain ⟨_, e1, e2, e3, e4⟩ := addAtomBond_eq hI.lenA hI.lenC hrow hc hab
                  have hI1 : DInv T mol1 :=
                    hI.addAtomBond (a := atom) (by omega) hrow hc hap (by omega) hbo1 (by omega)
                      ⟨rfl, rfl, rfl, rfl⟩ e1 e2 e3 e4
                  have hC := hI.lenC
                  have hF1 : Frame st.mol mol1 bo (some p) := by
                    refine ⟨?_, ?_, ?_⟩
                    · intro i a hi
                      rw [e1, List.getElem?_append_left (List.getElem?_eq_some_iff.mp hi).1]; exact hi
                    · intro i hi hne
                      have hne' : p ≠ i := fun e => hne (by rw [e])
                      rw [e4, List.getElem?_append_left (by simp; omega), List.getElem?_set_ne hne']
                    · intro p' c' hp' hc'
                      cases hp'
                      rw [hc] at hc'; cases hc'
                      refine ⟨c + bo, ?_, Nat.le_refl _⟩
                      rw [e4, List.getElem?_append_left (by simp; omega),
                        List.getElem?_set_self (by omega)]
                  split at h
                  · exact Good.of_fin hI1 hR (hF1.mono n1) (fin_ok h)
                  · rename_i s'
                    obtain ⟨e5, e6⟩ := n5 s' rfl
                    have hP1 : Pre T mol1 s' (some st.mol.atoms.length) := by
                      intro _
                      refine ⟨_, atom, bo, rfl, ?_, ?_, ?_⟩
                      · rw [e1]; simp
                      · rw [e4, ← hC, ← List.length_set (as := st.mol.counts) (i := p) (a := c + bo)]
                        simp
                      · omega
                    have g := ih _ _ _ _ _ _ _ _ _ h hI1 hR hP1
                    exact ⟨g.1, g.2.1, (Frame.trans_new hC hF1 g.2.2 (Nat.le_refl _)).mono n1⟩

theorem deriveFragments_inv (T : Table) (compat attrib : Bool) :
    ∀ (frags : List Str) (m : Mol) (rings : List RingReq) (ai : Nat) (r : Mol × List RingReq),
    deriveFragments T compat attrib frags m rings ai = .ok r →
    DInv T m → RingsOK rings → DInv T r.1 ∧ RingsOK r.2 := by
  intro frags
  induction frags with
  | nil =>
    intro m rings ai r h hI hR
    simp only [deriveFragments] at h
    cases h; exact ⟨hI, hR⟩
  | cons s rest ih =>
    intro m rings ai r h hI hR
    simp only [deriveFragments] at h
    bind_at h with ⟨⟨st, n⟩, h1, h⟩
    have g := deriveLoop_inv T compat _ _ _ _ _ _ _ _ _ _ h1 hI hR (fun h0 => absurd h0 (by omega))
    exact ih _ _ _ _ h g.1 g.2.1

end SV
