/-
  The SMILES writer's attribution maps:
  * every map with a non-empty token points at the last character of an occurrence of its token
    in the output (`EndsAt`), also across fragments (`joinWith ['.']`);
  * every map was made from an atom (token = its SMILES, attribution = its `atomAttr` entry) or
    from a stored bond (token = the bond's SMILES, attribution = its `attr` field).
-/
import SelfiesVerif.Proofs.AttrErase
namespace SV

/-- the text written so far -/
def WState.flat (w : WState) : Str := w.outRev.reverse.flatten

/-- `tok` occurs in `out` and its last character has index `idx` -/
def EndsAt (out tok : Str) (idx : Int) : Prop :=
  ∃ pre post, out = pre ++ tok ++ post ∧ idx = ((pre.length + tok.length : Nat) : Int) - 1

/-- where a map comes from: an atom of the graph or a stored bond -/
def MapSrc (m : Mol) (tok : Str) (attr : Option (List Attribution)) : Prop :=
  (∃ (i : Nat) (a : Atom), m.atoms[i]? = some a ∧ atomToSmiles a = .ok tok ∧ attr = (m.atomAttr[i]?).getD none) ∨
  (∃ (k : Nat) (row : List DirBond) (b : DirBond), m.adj[k]? = some row ∧ b ∈ row ∧
      bondToSmiles b.order b.stereo = .ok tok ∧ attr = b.attr)

structure WInv (m : Mol) (ai : Nat) (w : WState) : Prop where
  len : w.outLen = w.flat.length
  maps : ∀ mp ∈ w.mapsRev, mp.token ≠ [] →
    ∃ pre post, w.flat = pre ++ mp.token ++ post ∧
      mp.index = ((ai + pre.length + mp.token.length : Nat) : Int) - 1
  src : ∀ mp ∈ w.mapsRev, MapSrc m mp.token mp.attribution

theorem flat_push (w : WState) (x : Str) : (w.push x).flat = w.flat ++ x := by
  simp [WState.flat, WState.push]

theorem WInv.push {m ai w} (h : WInv m ai w) (x : Str) : WInv m ai (w.push x) := by
  refine ⟨?_, ?_, h.src⟩
  · rw [flat_push]
    simp only [WState.push, List.length_append, h.len]
  · intro mp hmp hne
    obtain ⟨pre, post, e1, e2⟩ := h.maps mp hmp hne
    refine ⟨pre, post ++ x, ?_, e2⟩
    rw [flat_push, e1]; simp

theorem WInv.ite_push {m ai w} (h : WInv m ai w) (c : Prop) [Decidable c] (x : Str) :
    WInv m ai (if c then w.push x else w) := by
  split
  · exact h.push x
  · exact h

theorem WInv.pushTok {m ai w} (h : WInv m ai w) (tok : Str) (a : Option (List Attribution))
    (hs : MapSrc m tok a) :
    WInv m ai ((w.push tok).pushMap tok a ai) := by
  have hp := h.push tok
  refine ⟨hp.len, ?_, ?_⟩
  · intro mp hmp hne
    simp only [WState.pushMap, List.mem_cons] at hmp
    rcases hmp with rfl | hmp
    · refine ⟨w.flat, [], ?_, ?_⟩
      · show (w.push tok).flat = _
        rw [flat_push]; simp
      · simp only [WState.push, h.len]
        push_cast
        omega
    · exact hp.maps mp hmp hne
  · intro mp hmp
    simp only [WState.pushMap, List.mem_cons] at hmp
    rcases hmp with rfl | hmp
    · exact hs
    · exact hp.src mp hmp

theorem WInv.ringPush {m ai w} (h : WInv m ai w) (ends : Nat × Nat) : WInv m ai (ringPush w ends) := by
  unfold SV.ringPush
  apply WInv.push
  apply WInv.ite_push
  exact ⟨h.len, h.maps, h.src⟩

theorem getIdx_ok' {α} {l : List α} {i : Nat} {x : α} (h : getIdx l i = .ok x) : l[i]? = some x := by
  unfold getIdx at h
  split at h
  · cases h; assumption
  · cases h

theorem wstepAtom_inv {m ai top w w1} (h : WInv m ai w) (hs : wstepAtom m ai top w = .ok w1) :
    WInv m ai w1 := by
  unfold wstepAtom at hs
  bind_at hs with ⟨currAtom, h1, hs⟩
  split at hs
  · bind_at hs with ⟨tok, h2, hs⟩
    cases hs
    exact h.pushTok tok _ (show MapSrc _ _ _ from Or.inl ⟨top.curr, currAtom, getIdx_ok' h1, h2, rfl⟩)
  · cases hs; exact h

theorem wstepTail_inv {m ai top stack w r} (h : WInv m ai w) (hs : wstepTail m ai top stack w = .ok r) :
    WInv m ai r.2 := by
  unfold wstepTail at hs
  bind_at hs with ⟨out, h1, hs⟩
  split at hs
  · bind_at hs with ⟨bond, h2, hs⟩
    have hrow := getIdx_ok' h1
    have hmem : bond ∈ out := List.mem_of_getElem? (getIdx_ok' h2)
    split at hs
    · bind_at hs with ⟨tok, h3, hs⟩
      cases hs
      exact (h.pushTok tok _ (show MapSrc _ _ _ from Or.inr ⟨top.curr, out, bond, hrow, hmem, h3, rfl⟩)).ringPush _
    · bind_at hs with ⟨tok, h3, hs⟩
      bind_at hs with ⟨dstOut, h4, hs⟩
      cases hs
      exact (h.ite_push _ _).pushTok tok _ (show MapSrc _ _ _ from Or.inr ⟨top.curr, out, bond, hrow, hmem, h3, rfl⟩)
  · cases hs
    exact h.ite_push _ _

theorem wstep_inv {m ai top stack w r} (h : WInv m ai w) (hs : wstep m ai top stack w = .ok r) :
    WInv m ai r.2 := by
  unfold wstep at hs
  bind_at hs with ⟨w1, h1, hs⟩
  exact wstepTail_inv (wstepAtom_inv h h1) hs

theorem writeLoop_inv (m : Mol) (ai : Nat) : ∀ (fuel : Nat) (stack : List WFrame) (w r : WState),
    WInv m ai w → writeLoop m ai fuel stack w = .ok r → WInv m ai r := by
  intro fuel
  induction fuel with
  | zero =>
    intro stack w r h hs
    cases stack with
    | nil => simp only [writeLoop] at hs; cases hs; exact h
    | cons _ _ => simp [writeLoop] at hs
  | succ fuel ih =>
    intro stack w r h hs
    cases stack with
    | nil => simp only [writeLoop] at hs; cases hs; exact h
    | cons top stack =>
      rw [writeLoop_succ] at hs
      bind_at hs with ⟨r1, h1, hs⟩
      exact ih _ _ _ (wstep_inv h h1) hs

/-! ### fragments -/

/-- offset of the next fragment in the joined output: total length of the earlier fragments plus
    one per dot -/
def nextOffset (acc : List Str) : Nat := if acc = [] then 0 else (joinWith ['.'] acc).length + 1

theorem joinWith_snoc (sep : Str) : ∀ (acc : List Str) (x : Str), acc ≠ [] →
    joinWith sep (acc ++ [x]) = joinWith sep acc ++ sep ++ x
  | [], _, h => absurd rfl h
  | [a], x, _ => by simp [joinWith]
  | a :: b :: rest, x, _ => by
    have := joinWith_snoc sep (b :: rest) x (by simp)
    simp only [List.cons_append] at this
    simp only [List.cons_append, joinWith, this, List.append_assoc]

/-- the joined output after one more fragment: the old output is a prefix, and the new fragment
    starts at `nextOffset` -/
theorem joinWith_snoc_split (acc : List Str) (x : Str) :
    (∃ P, joinWith ['.'] (acc ++ [x]) = P ++ x ∧ P.length = nextOffset acc) ∧
    (∃ S, joinWith ['.'] (acc ++ [x]) = joinWith ['.'] acc ++ S) := by
  unfold nextOffset
  by_cases h : acc = []
  · subst h
    simp only [List.nil_append, joinWith, if_true]
    exact ⟨⟨[], rfl, rfl⟩, ⟨x, rfl⟩⟩
  · rw [joinWith_snoc _ _ _ h]
    simp only [h, if_false]
    exact ⟨⟨joinWith ['.'] acc ++ ['.'], rfl, by simp⟩, ⟨['.'] ++ x, by simp⟩⟩

theorem EndsAt.mono {out tok idx} (h : EndsAt out tok idx) (S : Str) : EndsAt (out ++ S) tok idx := by
  obtain ⟨pre, post, e1, e2⟩ := h
  exact ⟨pre, post ++ S, by rw [e1]; simp, e2⟩

/-- what is known about a finished map -/
def MapOK (m : Mol) (out : Str) (mp : AttributionMap) : Prop :=
  (mp.token ≠ [] → EndsAt out mp.token mp.index) ∧ MapSrc m mp.token mp.attribution

theorem frags_inv (m : Mol) : ∀ (roots : List Nat) (ai : Nat) (log : List ((Nat × Nat) × Nat))
    (acc : List Str) (maps : List AttributionMap) (r : List Str × List AttributionMap),
    molToSmiles.frags m roots ai log acc maps = .ok r →
    ai = nextOffset acc → (∀ mp ∈ maps, MapOK m (joinWith ['.'] acc) mp) →
    ∀ mp ∈ r.2, MapOK m (joinWith ['.'] r.1) mp := by
  intro roots
  induction roots with
  | nil =>
    intro ai log acc maps r h _ hm
    simp only [molToSmiles.frags, pure, Except.pure] at h
    cases h; exact hm
  | cons root rest ih =>
    intro ai log acc maps r h hai hm
    rw [molToSmiles.frags] at h
    bind_at h with ⟨out, h1, h⟩
    bind_at h with ⟨w, h2, h⟩
    have hw : WInv m ai w := writeLoop_inv m ai _ _ _ _
      ⟨rfl, fun _ hmp _ => (by cases hmp), fun _ hmp => (by cases hmp)⟩ h2
    obtain ⟨⟨P, hP, hPl⟩, ⟨S, hS⟩⟩ := joinWith_snoc_split acc w.flat
    refine ih _ _ _ _ _ h ?_ ?_
    · rw [hw.len]
      unfold nextOffset
      simp only [List.append_eq_nil_iff, List.cons_ne_self, and_false, if_false]
      show _ = (joinWith ['.'] (acc ++ [w.flat])).length + 1
      rw [hP, List.length_append, hPl, hai]
    · intro mp hmp
      show MapOK m (joinWith ['.'] (acc ++ [w.flat])) mp
      rcases List.mem_append.mp hmp with hmp | hmp
      · obtain ⟨a, b⟩ := hm mp hmp
        exact ⟨fun hne => by rw [hS]; exact (a hne).mono S, b⟩
      · have hmp' : mp ∈ w.mapsRev := List.mem_reverse.mp hmp
        refine ⟨fun hne => ?_, hw.src mp hmp'⟩
        obtain ⟨pre, post, e1, e2⟩ := hw.maps mp hmp' hne
        refine ⟨P ++ pre, post, ?_, ?_⟩
        · rw [hP, e1]; simp
        · rw [e2, List.length_append, hPl, hai]

/-- every attribution map returned by the writer has a non-empty token, which occurs in the
    output ending at the reported index, and comes from an atom or a stored bond -/
theorem molToSmiles_maps {m : Mol} {out : Str} {maps : List AttributionMap}
    (h : molToSmiles m = .ok (out, maps)) :
    ∀ mp ∈ maps, mp.token ≠ [] ∧ EndsAt out mp.token mp.index ∧ MapSrc m mp.token mp.attribution := by
  unfold molToSmiles at h
  bind_at h with ⟨⟨fragments, maps0⟩, h1, h⟩
  simp only [pure, Except.pure, Except.ok.injEq, Prod.mk.injEq] at h
  obtain ⟨rfl, rfl⟩ := h
  have key := frags_inv m _ _ _ _ _ _ h1 rfl (fun _ hmp => by cases hmp)
  intro mp hmp
  obtain ⟨hmem, hne⟩ := List.mem_filter.mp hmp
  have hne' : mp.token ≠ [] := by
    intro e; rw [e] at hne; simp at hne
  obtain ⟨a, b⟩ := key mp hmem
  exact ⟨hne', a hne', b⟩

/-- `EndsAt` in the index arithmetic of the property statement -/
theorem EndsAt.slice {out tok : Str} {idx : Int} (h : EndsAt out tok idx) (hne : tok ≠ []) :
    0 ≤ idx ∧ idx.toNat + 1 ≥ tok.length ∧
    (out.drop (idx.toNat + 1 - tok.length)).take tok.length = tok := by
  obtain ⟨pre, post, e1, e2⟩ := h
  have hl : 0 < tok.length := List.length_pos_iff.mpr hne
  have h1 : idx.toNat + 1 = pre.length + tok.length := by omega
  refine ⟨by omega, by omega, ?_⟩
  rw [h1, Nat.add_sub_cancel, e1, List.append_assoc, List.drop_left, List.take_left]

theorem EndsAt.of_slice {out tok : Str} {idx : Int} (hne : tok ≠ []) (h0 : 0 ≤ idx)
    (h1 : idx.toNat + 1 ≥ tok.length)
    (h2 : (out.drop (idx.toNat + 1 - tok.length)).take tok.length = tok) : EndsAt out tok idx := by
  have hl : 0 < tok.length := List.length_pos_iff.mpr hne
  refine ⟨out.take (idx.toNat + 1 - tok.length), (out.drop (idx.toNat + 1 - tok.length)).drop tok.length, ?_, ?_⟩
  · conv => rhs; rw [List.append_assoc]; arg 2; arg 1; rw [← h2]
    rw [List.take_append_drop, List.take_append_drop]
  · have hlen : (out.drop (idx.toNat + 1 - tok.length)).length ≥ tok.length := by
      have := congrArg List.length h2
      rw [List.length_take] at this
      omega
    rw [List.length_drop] at hlen
    rw [List.length_take, Nat.min_eq_left (show idx.toNat + 1 - tok.length ≤ out.length by omega)]
    omega

end SV
