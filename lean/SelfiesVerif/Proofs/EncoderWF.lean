/-
  Helper lemmas for the last clause of property C14: every string returned by `selfies.encoder`
  is a well-formed SELFIES string (bracketed symbols, single dots between the fragments), and none
  of its symbols is `[nop]`.

  * atom symbols (`atomToSelfies`), ring / branch symbols (`ringSymbol`) and index symbols
    (`getSelfiesFromIndex`) are bracketed symbols different from `[nop]`;
  * `fragmentGo` only ever appends such symbols to `derived`;
  * the graph invariant needed for this (`SymGraph`: atoms have the shape `smiles_to_atom`
    produces, bond stereo marks come from `SMILES_STEREO_BONDS`) holds for every graph that
    `encodePrepare` returns (parser, kekulization, chirality flip);
  * the string assembled by `encoderFull` is `render (joinDots frags)`.
-/
import SelfiesVerif.Proofs.RoundTripSyms
import SelfiesVerif.Proofs.Strict

namespace SV

/-- what the encoder emits: a bracketed symbol that is not `[nop]` -/
def EncSym (x : Str) : Prop := IsSymbol x ∧ x ≠ nopSym

/-! ### (a) atom symbols -/

/-- `_atom_to_selfies(bond, atom)` assembles its result from well-formed pieces -/
theorem atomToSelfies_parts (bond : Option PBond) (a : Atom) (hs : AtomShape a) (x : Str)
    (h : atomToSelfies bond a = .ok x) :
    ∃ (o : Option Char) (e1 : Char) (e2 : Option Char),
      (atomParts o a e1 e2).OK ∧ x = (atomParts o a e1 e2).sym := by
  obtain ⟨e1, e2, he, h1, h2⟩ := isElementShape_split (elementTablesOK.shape _ hs.element)
  unfold atomToSelfies at h
  cases harom : a.isAromatic with
  | true => simp [harom, pyAssert, bind, Except.bind] at h
  | false =>
    simp only [harom, pyAssert, Bool.not_false, if_true, bind, Except.bind] at h
    cases bond with
    | none =>
      refine ⟨none, e1, e2, atomParts_ok a hs none (fun c hc => by cases hc) e1 e2 h1 h2, ?_⟩
      simp only [pure, Except.pure, atomToSmiles_parts a hs harom none e1 e2 he,
        Except.ok.injEq] at h
      rw [← h]
      simp [SelfiesParts.sym, atomParts]
    | some b =>
      simp only at h
      cases hbc : bondToSelfies b true with
      | error e => rw [hbc] at h; cases h
      | ok bc =>
        obtain ⟨o, rfl, ho, _⟩ := bondToSelfies_true b bc hbc
        refine ⟨o, e1, e2, atomParts_ok a hs o ho e1 e2 h1 h2, ?_⟩
        rw [hbc] at h
        simp only [pure, Except.pure, atomToSmiles_parts a hs harom o e1 e2 he,
          Except.ok.injEq] at h
        rw [← h]
        simp [SelfiesParts.sym, atomParts]

/-- the body of an atom symbol contains an ASCII upper-case letter (the element) -/
theorem SelfiesParts.hasUpper (P : SelfiesParts) (hP : P.OK) :
    ∃ c ∈ P.sym, isAsciiUpper c = true :=
  ⟨P.e1, by simp [SelfiesParts.sym, SelfiesParts.inner], hP.e1⟩

private theorem nopSym_no_upper : ∀ c ∈ nopSym, isAsciiUpper c = false := by decide

/-- an atom symbol is a bracketed symbol, is not `[nop]`, and has no two adjacent lower-case
    letters (so it is not taken for a ring, branch or epsilon symbol) -/
theorem atomToSelfies_encSym (bond : Option PBond) (a : Atom) (hs : AtomShape a) (x : Str)
    (h : atomToSelfies bond a = .ok x) : EncSym x ∧ hasLL x = false := by
  obtain ⟨o, e1, e2, hok, rfl⟩ := atomToSelfies_parts bond a hs x h
  refine ⟨⟨SelfiesParts.isSymbol _ hok, ?_⟩, SelfiesParts.hasLL_false _ hok⟩
  intro e
  obtain ⟨c, hc, hu⟩ := SelfiesParts.hasUpper _ hok
  rw [e] at hc
  rw [nopSym_no_upper c hc] at hu
  cases hu

/-- the chirality flip of the encoder keeps the shape of an atom -/
theorem AtomShape.invertChirality {a : Atom} (hs : AtomShape a) : AtomShape a.invertChirality := by
  unfold Atom.invertChirality
  split
  · rename_i hc
    exact ⟨hs.element, Or.inr (Or.inr rfl),
      (fun hn => by have := (hs.hNone hn).2.1; rw [this] at hc; cases hc),
      hs.hCount, hs.isotope⟩
  · split
    · rename_i hc
      exact ⟨hs.element, Or.inr (Or.inl rfl),
        (fun hn => by have := (hs.hNone hn).2.1; rw [this] at hc; cases hc),
        hs.hCount, hs.isotope⟩
    · exact hs

/-- clearing the aromatic flag (kekulization) keeps the shape of an atom -/
theorem AtomShape.clearAromatic {a : Atom} (hs : AtomShape a) :
    AtomShape { a with isAromatic := false } :=
  ⟨hs.element, hs.chirality, hs.hNone, hs.hCount, hs.isotope⟩

/-! ### (b) ring and branch symbols -/

private theorem bracketFree_of_digit {c : Char} (h : isAsciiDigit c = true) : bracketFree c := by
  rw [isAsciiDigit_iff] at h; unfold bracketFree; omega

/-- `[<pre><kind><n>]` is a bracketed symbol as soon as `pre` and `kind` contain no bracket / dot -/
theorem ringSymbol_isSymbol (pre kind : Str) (n : Nat) (hp : ∀ c ∈ pre, bracketFree c)
    (hk : ∀ c ∈ kind, bracketFree c) : IsSymbol (ringSymbol pre kind n) := by
  refine ⟨pre ++ kind ++ natToStr n, bodyOK_of_goodChars _ ?_, ?_⟩
  · intro c hc
    rcases List.mem_append.1 hc with hc | hc
    · rcases List.mem_append.1 hc with hc | hc
      · exact hp c hc
      · exact hk c hc
    · exact bracketFree_of_digit (natToStr_all_digits n c hc)
  · simp [ringSymbol, symbolOf]

/-- … and is not `[nop]` as soon as `kind` contains a character that `[nop]` lacks -/
theorem ringSymbol_ne_nop (pre kind : Str) (n : Nat) (c : Char) (hc : c ∈ kind)
    (hn : c ∉ nopSym) : ringSymbol pre kind n ≠ nopSym := by
  intro e
  apply hn
  rw [← e]
  simp [ringSymbol, hc]

/-- stereo marks as `smiles_to_bond` stores them: members of `SMILES_STEREO_BONDS` -/
def StereoTab (st : Option Char) : Prop := ∀ c, st = some c → c ∈ Gen.smilesStereoBonds

/-- side condition on the generated table -/
theorem stereoBonds_bracketFree : ∀ c ∈ Gen.smilesStereoBonds, bracketFree c := by decide

theorem smilesToBond_stereoTab (c : Option Char) : StereoTab (smilesToBond c).2 := by
  intro d hd
  unfold smilesToBond at hd
  cases c with
  | none => cases hd
  | some c =>
    simp only at hd
    split at hd
    · rename_i hc
      injection hd with hd; subst hd
      simpa using hc
    · cases hd

theorem branchPrefixes_bracketFree : ∀ p ∈ branchPrefixes, ∀ c ∈ p.1, bracketFree c := by decide

theorem bondToSelfies_false_bracketFree (b : PBond) (pre : Str)
    (h : bondToSelfies b false = .ok pre) : ∀ c ∈ pre, bracketFree c :=
  branchPrefixes_bracketFree _ (bondToSelfies_false b pre h)

theorem stereo_getD_bracketFree {st : Option Char} (h : StereoTab st) :
    bracketFree (st.getD '-') := by
  cases st with
  | none => decide
  | some c => exact stereoBonds_bracketFree c (h c rfl)

theorem ringBondsToSelfies_bracketFree (l r : PBond) (pre : Str)
    (h : ringBondsToSelfies l r = .ok pre) (hl : StereoTab l.stereo) (hr : StereoTab r.stereo) :
    ∀ c ∈ pre, bracketFree c := by
  unfold ringBondsToSelfies at h
  obtain ⟨_, _, h⟩ := bind_ok h
  split at h
  · exact bondToSelfies_false_bracketFree l pre h
  · simp only [pure, Except.pure, Except.ok.injEq] at h
    subst h
    intro c hc
    simp only [List.mem_cons, List.not_mem_nil, or_false] at hc
    rcases hc with rfl | rfl
    · exact stereo_getD_bracketFree hl
    · exact stereo_getD_bracketFree hr

theorem kind_ring_bracketFree : ∀ c ∈ "Ring".toList, bracketFree c := by decide
theorem kind_branch_bracketFree : ∀ c ∈ "Branch".toList, bracketFree c := by decide

theorem ringSym_encSym (l r : PBond) (pre : Str) (n : Nat)
    (h : ringBondsToSelfies l r = .ok pre) (hl : StereoTab l.stereo) (hr : StereoTab r.stereo) :
    EncSym (ringSymbol pre "Ring".toList n) :=
  ⟨ringSymbol_isSymbol _ _ _ (ringBondsToSelfies_bracketFree l r pre h hl hr) kind_ring_bracketFree,
   ringSymbol_ne_nop _ _ _ 'R' (by decide) (by decide)⟩

theorem branchSym_encSym (b : PBond) (pre : Str) (n : Nat) (h : bondToSelfies b false = .ok pre) :
    EncSym (ringSymbol pre "Branch".toList n) :=
  ⟨ringSymbol_isSymbol _ _ _ (bondToSelfies_false_bracketFree b pre h) kind_branch_bracketFree,
   ringSymbol_ne_nop _ _ _ 'B' (by decide) (by decide)⟩

/-! ### (c) index symbols -/

private theorem mapM_mem {α β} (f : α → Py β) : ∀ (l : List α) (r : List β), l.mapM f = .ok r →
    ∀ y ∈ r, ∃ x ∈ l, f x = .ok y := by
  intro l
  induction l with
  | nil =>
    intro r h y hy
    simp only [List.mapM_nil, pure, Except.pure, Except.ok.injEq] at h
    subst h; cases hy
  | cons a l ih =>
    intro r h y hy
    rw [List.mapM_cons] at h
    obtain ⟨b, hb, h⟩ := bind_ok h
    obtain ⟨bs, hbs, h⟩ := bind_ok h
    simp only [pure, Except.pure, Except.ok.injEq] at h
    subst h
    rcases List.mem_cons.1 hy with rfl | hy
    · exact ⟨a, List.mem_cons_self, hb⟩
    · obtain ⟨x, hx, hfx⟩ := ih bs hbs y hy
      exact ⟨x, List.mem_cons_of_mem _ hx, hfx⟩

private theorem getIdx_mem {α} {l : List α} {i : Nat} {x : α} (h : getIdx l i = .ok x) : x ∈ l := by
  unfold getIdx at h
  split at h
  · rename_i y hy
    injection h with h; subst h
    exact List.mem_of_getElem? hy
  · cases h

/-- every symbol `get_selfies_from_index` returns is an entry of `INDEX_ALPHABET`
    (for any argument, by construction: each is `INDEX_ALPHABET[...]`) -/
theorem getSelfiesFromIndex_mem (z : Int) (q : List Str) (h : getSelfiesFromIndex z = .ok q) :
    ∀ s ∈ q, s ∈ Gen.indexAlphabet := by
  unfold getSelfiesFromIndex at h
  split at h
  · cases h
  · split at h
    · obtain ⟨s, hs, h⟩ := bind_ok h
      simp only [pure, Except.pure, Except.ok.injEq] at h
      subst h
      intro s' hs'
      simp only [List.mem_singleton] at hs'
      subst hs'
      exact getIdx_mem hs
    · simp only at h
      split at h
      · cases h
      · intro s hs
        obtain ⟨d, _, hd⟩ := mapM_mem _ _ _ h s hs
        exact getIdx_mem hd

theorem getSelfiesFromIndex_encSym (z : Int) (q : List Str) (h : getSelfiesFromIndex z = .ok q) :
    ∀ s ∈ q, EncSym s :=
  fun s hs => index_alphabet_symbols s (getSelfiesFromIndex_mem z q h s hs)

/-! ### the graph invariant -/

/-- all bonds of an adjacency list carry stereo marks from `SMILES_STEREO_BONDS` -/
def AdjStereo (adj : List (List (Option PBond))) : Prop :=
  ∀ row ∈ adj, ∀ b, some b ∈ row → StereoTab b.stereo

/-- The invariant of the graphs the encoder writes out, as far as the *spelling* of symbols is
    concerned: every atom has the shape `smiles_to_atom` produces (element from the periodic
    table, chirality `None`/`@`/`@@`, one-digit H count, …; `isAromatic` is not mentioned), and
    every bond's stereo mark is a member of `SMILES_STEREO_BONDS`. -/
structure SymGraph (m : PMol) : Prop where
  atoms : ∀ a ∈ m.atoms, AtomShape a
  stereo : AdjStereo m.adj

private theorem getOut_mem {m : PMol} {i : Nat} {out : List PBond} (h : getOut m i = .ok out) :
    ∀ b ∈ out, ∃ row ∈ m.adj, some b ∈ row := by
  unfold getOut at h
  obtain ⟨row, hrow, h⟩ := bind_ok h
  intro b hb
  obtain ⟨ob, hob, hf⟩ := mapM_mem _ _ _ h b hb
  refine ⟨row, getIdx_mem hrow, ?_⟩
  cases ob with
  | none => cases hf
  | some b' =>
    simp only [pure, Except.pure, Except.ok.injEq] at hf
    subst hf; exact hob

private theorem getDirBond_mem {m : PMol} {a b : Nat} {bd : PBond} (h : m.getDirBond a b = .ok bd) :
    ∃ row ∈ m.adj, some bd ∈ row := by
  unfold PMol.getDirBond at h
  split at h
  · rename_i out hout
    split at h
    · rename_i b' hfind
      injection h with h; subst h
      exact ⟨out, List.mem_of_getElem? hout, List.mem_of_find?_eq_some hfind⟩
    · cases h
  · cases h

/-! ### `fragmentGo` appends only emitted-symbol strings -/

/-- what must be known of the task handed to `fragmentGo`: the bonds still to be looped over
    carry table stereo marks (they are out-bonds of the graph) -/
def TaskOK : EncTask → Prop
  | .atomVisit _ _ => True
  | .bondLoop rest _ _ _ => ∀ b ∈ rest, StereoTab b.stereo

theorem fragmentGo_syms (m : PMol) (hm : SymGraph m) :
    ∀ (fuel depth : Nat) (task : EncTask) (derived : List Str) (maps : List AttributionMap)
      (ai : Nat) (r : List Str × List AttributionMap),
      fragmentGo m fuel depth task derived maps ai = .ok r → TaskOK task →
      ∃ new, r.1 = derived ++ new ∧ (∀ x ∈ new, EncSym x) ∧
        (∀ bi c, task = .atomVisit bi c → new ≠ []) := by
  intro fuel
  induction fuel with
  | zero => intro _ _ _ _ _ _ h; simp [fragmentGo] at h
  | succ fuel ih =>
    intro depth task derived maps ai r h ht
    cases task with
    | atomVisit bondInto curr =>
      rw [fragmentGo] at h
      obtain ⟨atom, h1, h⟩ := bind_ok h
      obtain ⟨token, h2, h⟩ := bind_ok h
      obtain ⟨out, h3, h⟩ := bind_ok h
      have hout : ∀ b ∈ out, StereoTab b.stereo := by
        intro b hb
        obtain ⟨row, hrow, hmem⟩ := getOut_mem h3 b hb
        exact hm.stereo row hrow b hmem
      obtain ⟨new, hnew, hsym, _⟩ := ih _ _ _ _ _ _ h (by
        intro b hb
        rcases List.mem_append.1 hb with hb | hb
        · exact hout b (List.mem_filter.1 hb).1
        · exact hout b (List.mem_filter.1 hb).1)
      refine ⟨token :: new, by rw [hnew]; simp, ?_, fun _ _ _ => by simp⟩
      intro x hx
      rcases List.mem_cons.1 hx with rfl | hx
      · exact (atomToSelfies_encSym bondInto atom (hm.atoms atom (getIdx_mem h1)) _ h2).1
      · exact hsym x hx
    | bondLoop rest i outLen next =>
      cases rest with
      | nil =>
        cases next with
        | none =>
          simp only [fragmentGo, pure, Except.pure, Except.ok.injEq] at h
          subst h
          exact ⟨[], by simp, by simp, fun _ _ e => by cases e⟩
        | some b =>
          simp only [fragmentGo] at h
          obtain ⟨new, hnew, hsym, _⟩ := ih _ _ _ _ _ _ h trivial
          exact ⟨new, hnew, hsym, fun _ _ e => by cases e⟩
      | cons bond rest =>
        have hbond : StereoTab bond.stereo := ht bond List.mem_cons_self
        have hrest : TaskOK (.bondLoop rest (i + 1) outLen next) :=
          fun b hb => ht b (List.mem_cons_of_mem _ hb)
        have hrest' : TaskOK (.bondLoop rest (i + 1) outLen (some bond)) := hrest
        rw [fragmentGo] at h
        split at h
        · split at h
          · obtain ⟨new, hnew, hsym, _⟩ := ih _ _ _ _ _ _ h hrest
            exact ⟨new, hnew, hsym, fun _ _ e => by cases e⟩
          · obtain ⟨rev, hrev, h⟩ := bind_ok h
            obtain ⟨q, hq, h⟩ := bind_ok h
            obtain ⟨pre, hpre, h⟩ := bind_ok h
            dsimp only at h
            obtain ⟨new, hnew, hsym, _⟩ := ih _ _ _ _ _ _ h hrest
            rw [pushIndexSyms_fst] at hnew
            obtain ⟨row, hrow, hmem⟩ := getDirBond_mem hrev
            have hrevst := hm.stereo row hrow rev hmem
            refine ⟨ringSymbol pre "Ring".toList q.length :: (q ++ new), by rw [hnew]; simp, ?_,
              fun _ _ e => by cases e⟩
            intro x hx
            rcases List.mem_cons.1 hx with rfl | hx
            · exact ringSym_encSym rev bond pre _ hpre hrevst hbond
            · rcases List.mem_append.1 hx with hx | hx
              · exact getSelfiesFromIndex_encSym _ q hq x hx
              · exact hsym x hx
        · split at h
          · obtain ⟨new, hnew, hsym, _⟩ := ih _ _ _ _ _ _ h hrest'
            exact ⟨new, hnew, hsym, fun _ _ e => by cases e⟩
          · split at h
            · cases h
            · obtain ⟨⟨branch, maps1⟩, hb, h⟩ := bind_ok h
              dsimp only at h
              obtain ⟨q, hq, h⟩ := bind_ok h
              obtain ⟨pre, hpre, h⟩ := bind_ok h
              obtain ⟨bnew, hbnew, hbsym, _⟩ := ih _ _ _ _ _ _ hb trivial
              simp only [List.nil_append] at hbnew
              subst hbnew
              obtain ⟨new, hnew, hsym, _⟩ := ih _ _ _ _ _ _ h hrest
              rw [pushIndexSyms_fst] at hnew
              refine ⟨ringSymbol pre "Branch".toList q.length :: (q ++ (branch ++ new)),
                by rw [hnew]; simp, ?_, fun _ _ e => by cases e⟩
              intro x hx
              rcases List.mem_cons.1 hx with rfl | hx
              · exact branchSym_encSym bond pre _ hpre
              · rcases List.mem_append.1 hx with hx | hx
                · exact getSelfiesFromIndex_encSym _ q hq x hx
                · rcases List.mem_append.1 hx with hx | hx
                  · exact hbsym x hx
                  · exact hsym x hx

theorem fragmentToSelfies_syms (m : PMol) (hm : SymGraph m) (root : Nat)
    (maps : List AttributionMap) (ai : Nat) (derived : List Str) (maps' : List AttributionMap)
    (h : fragmentToSelfies m root maps ai = .ok (derived, maps')) :
    derived ≠ [] ∧ ∀ x ∈ derived, EncSym x := by
  obtain ⟨new, hnew, hsym, hne⟩ := fragmentGo_syms m hm _ _ _ _ _ _ _ h trivial
  simp only [List.nil_append] at hnew
  subst hnew
  exact ⟨hne _ _ rfl, hsym⟩

/-! ### the SMILES parser establishes the invariant -/

theorem symGraph_empty : SymGraph {} :=
  ⟨fun a ha => (by cases ha), fun row hrow => (by cases hrow)⟩

theorem adjStereo_set {adj : List (List (Option PBond))} (h : AdjStereo adj) (i : Nat)
    (row : List (Option PBond)) (hrow : ∀ b, some b ∈ row → StereoTab b.stereo) :
    AdjStereo (adj.set i row) := by
  intro row' hrow' b hb
  rcases List.mem_or_eq_of_mem_set hrow' with h' | rfl
  · exact h row' h' b hb
  · exact hrow b hb

private theorem mem_insertAt {α} (v : α) : ∀ (l : List α) (i : Nat) (x : α),
    x ∈ insertAt l i v → x = v ∨ x ∈ l := by
  intro l
  induction l with
  | nil =>
    intro i x hx
    cases i <;> simp [insertAt] at hx <;> exact Or.inl hx
  | cons y l ih =>
    intro i x hx
    cases i with
    | zero =>
      simp only [insertAt, List.mem_cons] at hx
      rcases hx with hx | hx | hx
      · exact Or.inl hx
      · exact Or.inr (by simp [hx])
      · exact Or.inr (by simp [hx])
    | succ i =>
      simp only [insertAt, List.mem_cons] at hx
      rcases hx with hx | hx
      · exact Or.inr (by simp [hx])
      · rcases ih i x hx with h | h
        · exact Or.inl h
        · exact Or.inr (by simp [h])

theorem symGraph_addAtom {m : PMol} (h : SymGraph m) (a : Atom) (ha : AtomShape a) (r : Bool)
    (attr : Option (List Attribution)) : SymGraph (m.addAtom a r attr).1 := by
  refine ⟨?_, ?_⟩
  · intro a' ha'
    simp only [PMol.addAtom, List.mem_append, List.mem_singleton] at ha'
    rcases ha' with ha' | rfl
    · exact h.atoms a' ha'
    · exact ha
  · intro row hrow b hb
    simp only [PMol.addAtom, List.mem_append, List.mem_singleton] at hrow
    rcases hrow with hrow | rfl
    · exact h.stereo row hrow b hb
    · cases hb

theorem addBond_sym {m m' : PMol} {src dst o2 : Nat} {st : Option Char}
    {attr : Option (List Attribution)} (h : m.addBond src dst o2 st attr = .ok m')
    (hm : SymGraph m) (hst : StereoTab st) : SymGraph m' := by
  unfold PMol.addBond at h
  obtain ⟨_, _, h⟩ := bind_ok h
  obtain ⟨out, hout, h⟩ := bind_ok h
  obtain ⟨c1, _, h⟩ := bind_ok h
  obtain ⟨c2, _, h⟩ := bind_ok h
  simp only [pure, Except.pure, Except.ok.injEq] at h
  subst h
  refine ⟨hm.atoms, adjStereo_set hm.stereo _ _ ?_⟩
  intro b hb
  simp only [List.mem_append, List.mem_singleton, Option.some.injEq] at hb
  rcases hb with hb | rfl
  · exact hm.stereo out (getIdx_mem hout) b hb
  · exact hst

theorem addPlaceholder_sym {m m' : PMol} {src pos : Nat}
    (h : m.addPlaceholder src = .ok (m', pos)) (hm : SymGraph m) : SymGraph m' := by
  unfold PMol.addPlaceholder at h
  obtain ⟨out, hout, h⟩ := bind_ok h
  simp only [pure, Except.pure, Except.ok.injEq, Prod.mk.injEq] at h
  rw [← h.1]
  refine ⟨hm.atoms, adjStereo_set hm.stereo _ _ ?_⟩
  intro b hb
  simp only [List.mem_append, List.mem_singleton] at hb
  rcases hb with hb | hb
  · exact hm.stereo out (getIdx_mem hout) b hb
  · cases hb

theorem addBondAtLoc_stereo {adj adj' : List (List (Option PBond))} {b : PBond} {pos : Option Nat}
    (h : PMol.addBondAtLoc adj b pos = .ok adj') (hadj : AdjStereo adj) (hb : StereoTab b.stereo) :
    AdjStereo adj' := by
  unfold PMol.addBondAtLoc at h
  obtain ⟨out, hout, h⟩ := bind_ok h
  have hout' : ∀ b', some b' ∈ out → StereoTab b'.stereo := hadj out (getIdx_mem hout)
  have happ : ∀ b', some b' ∈ out ++ [some b] → StereoTab b'.stereo := by
    intro b' hb'
    simp only [List.mem_append, List.mem_singleton, Option.some.injEq] at hb'
    rcases hb' with hb' | rfl
    · exact hout' b' hb'
    · exact hb
  cases pos with
  | none =>
    simp only [pure, Except.pure, Except.ok.injEq] at h
    subst h
    exact adjStereo_set hadj _ _ happ
  | some p =>
    simp only at h
    split at h
    · simp only [pure, Except.pure, Except.ok.injEq] at h
      subst h
      exact adjStereo_set hadj _ _ happ
    · split at h
      · cases h
      · simp only [pure, Except.pure, Except.ok.injEq] at h
        subst h
        refine adjStereo_set hadj _ _ ?_
        intro b' hb'
        rcases List.mem_or_eq_of_mem_set hb' with hb' | hb'
        · exact hout' b' hb'
        · injection hb' with hb'; subst hb'; exact hb
      · simp only [pure, Except.pure, Except.ok.injEq] at h
        subst h
        refine adjStereo_set hadj _ _ ?_
        intro b' hb'
        rcases mem_insertAt _ _ _ _ hb' with hb' | hb'
        · injection hb' with hb'; subst hb'; exact hb
        · exact hout' b' hb'

theorem addRingBond_sym {m m' : PMol} {a b o2 : Nat} {sa sb : Option Char} {pa pb : Option Nat}
    (h : m.addRingBond a b o2 sa sb pa pb = .ok m') (hm : SymGraph m)
    (hsa : StereoTab sa) (hsb : StereoTab sb) : SymGraph m' := by
  unfold PMol.addRingBond at h
  obtain ⟨adj1, h1, h⟩ := bind_ok h
  obtain ⟨adj2, h2, h⟩ := bind_ok h
  obtain ⟨c1, _, h⟩ := bind_ok h
  obtain ⟨c2, _, h⟩ := bind_ok h
  obtain ⟨_, _, h⟩ := bind_ok h
  obtain ⟨_, _, h⟩ := bind_ok h
  simp only [pure, Except.pure, Except.ok.injEq] at h
  subst h
  exact ⟨hm.atoms, addBondAtLoc_stereo h2 (addBondAtLoc_stereo h1 hm.stereo hsa) hsb⟩

theorem makeRingBonds_sym {m m' : PMol} {lb rb : Option Char} {la lp ra : Nat}
    (h : makeRingBonds m lb la lp rb ra = .ok m') (hm : SymGraph m) : SymGraph m' := by
  unfold makeRingBonds at h
  split at h
  · cases h
  · split at h
    · cases h
    · revert h
      generalize (if lb.isNone = true then (rb, lb) else (lb, rb)) = bonds
      intro h
      simp only at h
      split at h
      · cases h
      · obtain ⟨_, _, h⟩ := bind_ok h
        obtain ⟨_, _, h⟩ := bind_ok h
        exact addRingBond_sym h hm (smilesToBond_stereoTab lb) (smilesToBond_stereoTab rb)

theorem parseFragmentLoop_sym (attrib : Bool) :
    ∀ (toks : List SmilesTok) (st st' : ParseSt) (rest' : List SmilesTok),
      parseFragmentLoop attrib toks st = .ok (st', rest') → SymGraph st.mol → SymGraph st'.mol := by
  intro toks
  induction toks with
  | nil =>
    intro st st' rest' h hinv
    simp only [parseFragmentLoop, Except.ok.injEq, Prod.mk.injEq] at h
    rw [← h.1]; exact hinv
  | cons tok rest ih =>
    intro st st' rest' h hinv
    rw [parseFragmentLoop] at h
    split at h
    rotate_left
    · obtain ⟨_, hp, _⟩ := bind_ok h; cases hp
    obtain ⟨prev, hprev, h⟩ := bind_ok h
    dsimp only at h
    split at h
    · -- dot
      simp only [pure, Except.pure, Except.ok.injEq, Prod.mk.injEq] at h
      rw [← h.1]; exact hinv
    · -- atom
      split at h
      · cases h
      · rename_i curr hcurr
        have hshape : AtomShape curr := (smilesToAtom_shape _ _ hcurr elementTablesOK).1
        simp only [PMol.addAtom] at h
        obtain ⟨mol', hmol, h⟩ := bind_ok h
        refine ih _ _ _ h ?_
        have hadd := fun r attr => symGraph_addAtom hinv curr hshape r attr
        cases prev with
        | none =>
          simp only [pure, Except.pure, Except.ok.injEq] at hmol
          rw [← hmol]; exact hadd _ _
        | some p =>
          simp only [smilesToBond] at hmol
          obtain ⟨pa, _, hmol⟩ := bind_ok hmol
          exact addBond_sym hmol (hadd _ _) (smilesToBond_stereoTab tok.bondChar)
    · -- branch
      split at h
      · cases h
      · split at h
        · exact ih _ _ _ h hinv
        · split at h
          · cases h
          · exact ih _ _ _ h hinv
    · -- ring
      split at h
      · cases h
      · split at h
        · cases h
        · split at h
          · obtain ⟨⟨mol1, lpos⟩, h1, h⟩ := bind_ok h
            exact ih _ _ _ h (addPlaceholder_sym h1 hinv)
          · obtain ⟨mol1, h1, h⟩ := bind_ok h
            exact ih _ _ _ h (makeRingBonds_sym h1 hinv)

theorem parseFragment_sym {attrib : Bool} {toks rest : List SmilesTok} {m m' : PMol} {i i' : Nat}
    (h : parseFragment attrib toks m i = .ok (m', i', rest)) (hinv : SymGraph m) : SymGraph m' := by
  unfold parseFragment at h
  obtain ⟨⟨st, r⟩, h1, h⟩ := bind_ok h
  have := parseFragmentLoop_sym attrib _ _ _ _ h1 hinv
  simp only at h
  split at h
  · cases h
  · split at h
    · cases h
    · split at h
      · cases h
      · simp only [pure, Except.pure, Except.ok.injEq, Prod.mk.injEq] at h
        rw [← h.1]; exact this

theorem smilesToMol_go_sym (attrib : Bool) :
    ∀ (fuel : Nat) (toks : List SmilesTok) (m m' : PMol) (i : Nat),
      smilesToMol.go attrib fuel toks m i = .ok m' → SymGraph m → SymGraph m' := by
  intro fuel
  induction fuel with
  | zero =>
    intro toks m m' i h hinv
    cases toks with
    | nil => simp only [smilesToMol.go, Except.ok.injEq] at h; rw [← h]; exact hinv
    | cons t ts => simp [smilesToMol.go] at h
  | succ fuel ih =>
    intro toks m m' i h hinv
    cases toks with
    | nil => simp only [smilesToMol.go, Except.ok.injEq] at h; rw [← h]; exact hinv
    | cons t ts =>
      rw [smilesToMol.go] at h
      obtain ⟨⟨m1, i1, rest⟩, h1, h⟩ := bind_ok h
      exact ih _ _ _ _ h (parseFragment_sym h1 hinv)

/-- every graph the SMILES parser returns satisfies the invariant -/
theorem smilesToMol_sym {s : Str} {attrib : Bool} {g : PMol}
    (h : smilesToMol s attrib = .ok g) : SymGraph g := by
  unfold smilesToMol at h
  split at h
  · cases h
  · split at h
    · cases h
    · exact smilesToMol_go_sym attrib _ _ _ _ _ h symGraph_empty

/-! ### kekulization keeps the invariant -/

theorem setOrder2At_stereo {adj : List (List (Option PBond))} (h : AdjStereo adj)
    (src dst o2 : Nat) : AdjStereo (PMol.setOrder2At adj src dst o2) := by
  unfold PMol.setOrder2At
  split
  · rename_i out hout
    refine adjStereo_set h _ _ ?_
    intro b hb
    obtain ⟨ob, hob, hf⟩ := List.mem_map.1 hb
    cases ob with
    | none => cases hf
    | some b0 =>
      have h0 := h out (List.mem_of_getElem? hout) b0 hob
      simp only at hf
      split at hf
      · injection hf with hf; subst hf; exact h0
      · injection hf with hf; subst hf; exact h0
  · exact h

theorem updateBondOrder_sym {m m' : PMol} {a b o : Nat} (h : m.updateBondOrder a b o = .ok m')
    (hm : SymGraph m) : SymGraph m' := by
  unfold PMol.updateBondOrder at h
  obtain ⟨_, _, h⟩ := bind_ok h
  obtain ⟨ab, _, h⟩ := bind_ok h
  split at h
  · simp only [pure, Except.pure, Except.ok.injEq] at h; rw [← h]; exact hm
  · obtain ⟨adj, hadj, h⟩ := bind_ok h
    obtain ⟨cl, _, h⟩ := bind_ok h
    obtain ⟨ch, _, h⟩ := bind_ok h
    simp only [pure, Except.pure, Except.ok.injEq] at h
    rw [← h]
    refine ⟨hm.atoms, ?_⟩
    show AdjStereo adj
    split at hadj
    · obtain ⟨_, _, hadj⟩ := bind_ok hadj
      simp only [pure, Except.pure, Except.ok.injEq] at hadj
      rw [← hadj]
      exact setOrder2At_stereo (setOrder2At_stereo hm.stereo _ _ _) _ _ _
    · simp only [pure, Except.pure, Except.ok.injEq] at hadj
      rw [← hadj]
      exact setOrder2At_stereo hm.stereo _ _ _

/-- `kekulize()` only changes bond orders, bond counts and `is_aromatic` flags -/
theorem kekulize_sym {m g' : PMol} {tape : List Nat} (hm : SymGraph m)
    (h : m.kekulize tape = .ok (some g')) : SymGraph g' := by
  unfold PMol.kekulize at h
  split at h
  · simp only [pure, Except.pure, Except.ok.injEq, Option.some.injEq] at h
    subst h; exact hm
  · obtain ⟨bad, _, h⟩ := bind_ok h
    split at h
    · simp [pure, Except.pure] at h
    · obtain ⟨kept, _, h⟩ := bind_ok h
      obtain ⟨pruned, _, h⟩ := bind_ok h
      obtain ⟨ml, _, h⟩ := bind_ok h
      split at h
      · simp [pure, Except.pure] at h
      · rename_i matching
        obtain ⟨m1, h1, h⟩ := bind_ok h
        obtain ⟨m2, h2, h⟩ := bind_ok h
        simp only [pure, Except.pure, Except.ok.injEq, Option.some.injEq] at h
        have hm1 : SymGraph m1 := by
          refine foldlM_preserve SymGraph _ ?_ _ _ _ h1 hm
          intro s p s' hs hP
          obtain ⟨s1, hs1, hs⟩ := bind_ok hs
          obtain ⟨atom, hatom, hs⟩ := bind_ok hs
          obtain ⟨c, _, hs⟩ := bind_ok hs
          simp only [pure, Except.pure, Except.ok.injEq] at hs
          have hs1' : SymGraph s1 :=
            foldlM_preserve SymGraph _ (fun y b y' hy hPy => updateBondOrder_sym hy hPy) _ _ _ hs1 hP
          rw [← hs]
          refine ⟨?_, hs1'.stereo⟩
          intro a ha
          rcases List.mem_or_eq_of_mem_set ha with ha | rfl
          · exact hs1'.atoms a ha
          · exact (hs1'.atoms atom (getIdx_mem hatom)).clearAromatic
        have hm2 : SymGraph m2 := by
          refine foldlM_preserve SymGraph _ ?_ _ _ _ h2 hm1
          intro s x s' hs hP
          obtain ⟨mi, _, hs⟩ := bind_ok hs
          split at hs
          · cases hs
          · obtain ⟨_, _, hs⟩ := bind_ok hs
            obtain ⟨_, _, hs⟩ := bind_ok hs
            exact updateBondOrder_sym hs hP
        rw [← h]
        exact ⟨hm2.atoms, hm2.stereo⟩

/-! ### the chirality pass keeps the invariant -/

theorem encodeTail_sym {T : Table} {strict : Bool} {m r : PMol} (hm : SymGraph m)
    (h : encodeTail T strict m = .ok r) : SymGraph r := by
  unfold encodeTail at h
  split at h
  · obtain ⟨_, _, h⟩ := bind_ok h
    cases h
  · obtain ⟨atoms, hat, h⟩ := bind_ok h
    simp only [pure, Except.pure, Except.ok.injEq] at h
    rw [← h]
    refine ⟨?_, hm.stereo⟩
    intro a ha
    obtain ⟨⟨i, a0⟩, hmem, hf⟩ := mapM_mem _ _ _ hat a ha
    have ha0 : AtomShape a0 := hm.atoms a0 (List.of_mem_zip hmem).2
    simp only at hf
    split at hf
    · obtain ⟨inv, _, hf⟩ := bind_ok hf
      simp only [pure, Except.pure, Except.ok.injEq] at hf
      rw [← hf]
      split
      · exact ha0.invertChirality
      · exact ha0
    · simp only [pure, Except.pure, Except.ok.injEq] at hf
      rw [← hf]; exact ha0

/-- **Every graph `encoder` writes out satisfies the invariant.** -/
theorem encodePrepare_sym {T : Table} {s : Str} {strict attrib : Bool} {tape : List Nat} {m : PMol}
    (h : encodePrepare T s strict attrib tape = .ok m) : SymGraph m := by
  rw [encodePrepare_eq] at h
  cases hp : smilesToMol s attrib with
  | error e => rw [hp] at h; cases e <;> cases h
  | ok g =>
    rw [hp] at h
    simp only at h
    cases hk : g.kekulize tape with
    | error e => rw [hk] at h; cases h
    | ok r =>
      rw [hk] at h
      cases r with
      | none => cases h
      | some g' => exact encodeTail_sym (kekulize_sym (smilesToMol_sym hp) hk) h

/-! ### the fragment loop of `encoder` and the final string -/

theorem encFrags_syms (m : PMol) (hm : SymGraph m) :
    ∀ (roots : List Nat) (ai : Nat) (acc : List Str) (maps : List AttributionMap)
      (r : List Str × List AttributionMap),
      encoderFull.frags m roots ai acc maps = .ok r →
      ∃ fs : List (List Str), r.1 = acc ++ fs.map List.flatten ∧ fs.length = roots.length ∧
        ∀ f ∈ fs, f ≠ [] ∧ ∀ x ∈ f, EncSym x := by
  intro roots
  induction roots with
  | nil =>
    intro ai acc maps r h
    simp only [encoderFull.frags, pure, Except.pure, Except.ok.injEq] at h
    subst h
    exact ⟨[], by simp, rfl, by simp⟩
  | cons root rest ih =>
    intro ai acc maps r h
    rw [encoderFull.frags] at h
    obtain ⟨⟨derived, maps1⟩, h1, h⟩ := bind_ok h
    obtain ⟨fs, hfs, hlen, hall⟩ := ih _ _ _ _ h
    have hd := fragmentToSelfies_syms m hm root maps ai derived maps1 h1
    refine ⟨derived :: fs, by rw [hfs]; simp, by simp [hlen], ?_⟩
    intro f hf
    rcases List.mem_cons.1 hf with rfl | hf
    · exact hd
    · exact hall f hf

theorem joinWith_dot_flatten : ∀ fs : List (List Str),
    joinWith ['.'] (fs.map List.flatten) = render (joinDots fs)
  | [] => rfl
  | [f] => rfl
  | f :: g :: rest => by
    have ih := joinWith_dot_flatten (g :: rest)
    simp only [List.map_cons] at ih
    simp only [List.map_cons, joinWith, joinDots, render, List.flatten_append, List.flatten_cons, ih]
    simp

/-- `encoderFull` returns `render (joinDots frags)` for non-empty lists `frags` of emitted symbols,
    one list per root of the graph -/
theorem encoderFull_frags {T : Table} {s : Str} {strict attrib : Bool} {tape : List Nat}
    {sel : Str} {maps : List AttributionMap}
    (h : encoderFull T s strict attrib tape = .ok (sel, maps)) :
    ∃ (m : PMol) (frags : List (List Str)),
      encodePrepare T s strict attrib tape = .ok m ∧ frags.length = m.roots.length ∧
      (∀ f ∈ frags, f ≠ [] ∧ ∀ x ∈ f, EncSym x) ∧ sel = render (joinDots frags) := by
  unfold encoderFull at h
  obtain ⟨m, hprep, h⟩ := bind_ok h
  obtain ⟨⟨fragments, maps1⟩, hfr, h⟩ := bind_ok h
  simp only [pure, Except.pure, Except.ok.injEq, Prod.mk.injEq] at h
  obtain ⟨fs, hfs, hlen, hall⟩ := encFrags_syms m (encodePrepare_sym hprep) _ _ _ _ _ hfr
  simp only [List.nil_append] at hfs
  subst hfs
  exact ⟨m, fs, hprep, hlen, hall, by rw [← h.1, joinWith_dot_flatten]⟩

/-! ### consequences for the decoder's view -/

theorem fragmentsOf_append_nodot : ∀ (f rest : List Str), (∀ x ∈ f, x ≠ dotItem) →
    fragmentsOf (f ++ rest) = (f ++ (fragmentsOf rest).headD []) :: (fragmentsOf rest).tail
  | [], rest, _ => by
    cases h : fragmentsOf rest with
    | nil => exact absurd h (fragmentsOf_ne_nil rest)
    | cons hd tl => simp [h]
  | x :: f, rest, hf => by
    have ih := fragmentsOf_append_nodot f rest (fun y hy => hf y (List.mem_cons_of_mem _ hy))
    have hx : x ≠ dotItem := hf x List.mem_cons_self
    rw [List.cons_append, fragmentsOf, if_neg hx, ih]
    simp

/-- cutting `joinDots frags` at the dots gives back `frags` -/
theorem fragmentsOf_joinDots : ∀ (frags : List (List Str)), frags ≠ [] →
    (∀ f ∈ frags, ∀ x ∈ f, x ≠ dotItem) → fragmentsOf (joinDots frags) = frags
  | [], h, _ => absurd rfl h
  | [f], _, hf => by
    have := fragmentsOf_append_nodot f [] (hf f List.mem_cons_self)
    simpa [joinDots, fragmentsOf] using this
  | f :: g :: rest, _, hf => by
    have ih := fragmentsOf_joinDots (g :: rest) (by simp)
      (fun f' hf' => hf f' (List.mem_cons_of_mem _ hf'))
    have := fragmentsOf_append_nodot f (dotItem :: joinDots (g :: rest)) (hf f List.mem_cons_self)
    rw [joinDots, this]
    simp [fragmentsOf, ih]

/-- a list without `[nop]` is its own token stream -/
theorem specStream_no_nop (f : List Str) (h : ∀ x ∈ f, x ≠ nopSym) :
    specStream f = { toks := (List.range f.length).zip f, hanging := false } := by
  have : f.filter (· != nopSym) = f := by
    rw [List.filter_eq_self]
    intro x hx
    simpa using h x hx
  simp only [specStream, this]

/-! ### the graph written out has at least one root (so `encoder` never returns `""`) -/

theorem addBond_roots {m m' : PMol} {src dst o2 : Nat} {st : Option Char}
    {attr : Option (List Attribution)} (h : m.addBond src dst o2 st attr = .ok m') :
    m'.roots = m.roots := by
  unfold PMol.addBond at h
  obtain ⟨_, _, h⟩ := bind_ok h
  obtain ⟨out, _, h⟩ := bind_ok h
  obtain ⟨c1, _, h⟩ := bind_ok h
  obtain ⟨c2, _, h⟩ := bind_ok h
  simp only [pure, Except.pure, Except.ok.injEq] at h
  rw [← h]

theorem addPlaceholder_roots {m m' : PMol} {src pos : Nat}
    (h : m.addPlaceholder src = .ok (m', pos)) : m'.roots = m.roots := by
  unfold PMol.addPlaceholder at h
  obtain ⟨out, _, h⟩ := bind_ok h
  simp only [pure, Except.pure, Except.ok.injEq, Prod.mk.injEq] at h
  rw [← h.1]

theorem addRingBond_roots {m m' : PMol} {a b o2 : Nat} {sa sb : Option Char} {pa pb : Option Nat}
    (h : m.addRingBond a b o2 sa sb pa pb = .ok m') : m'.roots = m.roots := by
  unfold PMol.addRingBond at h
  obtain ⟨adj1, _, h⟩ := bind_ok h
  obtain ⟨adj2, _, h⟩ := bind_ok h
  obtain ⟨c1, _, h⟩ := bind_ok h
  obtain ⟨c2, _, h⟩ := bind_ok h
  obtain ⟨_, _, h⟩ := bind_ok h
  obtain ⟨_, _, h⟩ := bind_ok h
  simp only [pure, Except.pure, Except.ok.injEq] at h
  rw [← h]

theorem makeRingBonds_roots {m m' : PMol} {lb rb : Option Char} {la lp ra : Nat}
    (h : makeRingBonds m lb la lp rb ra = .ok m') : m'.roots = m.roots := by
  unfold makeRingBonds at h
  split at h
  · cases h
  · split at h
    · cases h
    · revert h
      generalize (if lb.isNone = true then (rb, lb) else (lb, rb)) = bonds
      intro h
      simp only at h
      split at h
      · cases h
      · obtain ⟨_, _, h⟩ := bind_ok h
        obtain ⟨_, _, h⟩ := bind_ok h
        exact addRingBond_roots h

/-- parser-state invariant: either a root has been recorded, or no atom has been added yet and
    every "previous atom" on the stack is `None` (so the next atom will be a root) -/
def RootInv (st : ParseSt) : Prop :=
  st.mol.roots ≠ [] ∨ (st.mol.atoms = [] ∧ ∀ p ∈ st.prevStack, p = none)

theorem parseFragmentLoop_rootInv (attrib : Bool) :
    ∀ (toks : List SmilesTok) (st st' : ParseSt) (rest' : List SmilesTok),
      parseFragmentLoop attrib toks st = .ok (st', rest') → RootInv st → RootInv st' := by
  intro toks
  induction toks with
  | nil =>
    intro st st' rest' h hinv
    simp only [parseFragmentLoop, Except.ok.injEq, Prod.mk.injEq] at h
    rw [← h.1]; exact hinv
  | cons tok rest ih =>
    intro st st' rest' h hinv
    rw [parseFragmentLoop] at h
    split at h
    rotate_left
    · obtain ⟨_, hp, _⟩ := bind_ok h; cases hp
    rename_i p0 ps hstack
    obtain ⟨prev, hprev, h⟩ := bind_ok h
    simp only [pure, Except.pure, Except.ok.injEq] at hprev
    subst hprev
    dsimp only at h
    split at h
    · -- dot
      simp only [pure, Except.pure, Except.ok.injEq, Prod.mk.injEq] at h
      rw [← h.1]; exact hinv
    · -- atom
      split at h
      · cases h
      · rename_i curr hcurr
        simp only [PMol.addAtom] at h
        obtain ⟨mol', hmol, h⟩ := bind_ok h
        refine ih _ _ _ h (Or.inl ?_)
        show mol'.roots ≠ []
        cases p0 with
        | none =>
          simp only [pure, Except.pure, Except.ok.injEq] at hmol
          rw [← hmol]
          simp
        | some p =>
          have hr : st.mol.roots ≠ [] := by
            rcases hinv with hr | ⟨_, hall⟩
            · exact hr
            · have := hall (some p) (by rw [hstack]; exact List.mem_cons_self)
              cases this
          simp only [smilesToBond] at hmol
          obtain ⟨pa, _, hmol⟩ := bind_ok hmol
          rw [addBond_roots hmol]
          simpa using hr
    · -- branch
      split at h
      · cases h
      · split at h
        · refine ih _ _ _ h ?_
          rcases hinv with hr | ⟨ha, hall⟩
          · exact Or.inl hr
          · refine Or.inr ⟨ha, ?_⟩
            intro p hp
            rcases List.mem_cons.1 hp with rfl | hp
            · exact hall _ (by rw [hstack]; exact List.mem_cons_self)
            · exact hall p hp
        · split at h
          · cases h
          · refine ih _ _ _ h ?_
            rcases hinv with hr | ⟨ha, hall⟩
            · exact Or.inl hr
            · exact Or.inr ⟨ha, fun p hp => hall p (List.mem_of_mem_tail hp)⟩
    · -- ring
      split at h
      · cases h
      · split at h
        · cases h
        · rename_i p _
          have hr : st.mol.roots ≠ [] := by
            rcases hinv with hr | ⟨_, hall⟩
            · exact hr
            · have := hall (some p) (by rw [hstack]; exact List.mem_cons_self)
              cases this
          split at h
          · obtain ⟨⟨mol1, lpos⟩, h1, h⟩ := bind_ok h
            exact ih _ _ _ h (Or.inl (by show mol1.roots ≠ []; rw [addPlaceholder_roots h1]; exact hr))
          · obtain ⟨mol1, h1, h⟩ := bind_ok h
            exact ih _ _ _ h (Or.inl (by show mol1.roots ≠ []; rw [makeRingBonds_roots h1]; exact hr))

theorem parseFragment_roots {attrib : Bool} {toks rest : List SmilesTok} {m m' : PMol} {i i' : Nat}
    (h : parseFragment attrib toks m i = .ok (m', i', rest)) (hinv : m.atoms ≠ [] → m.roots ≠ []) :
    m'.roots ≠ [] := by
  unfold parseFragment at h
  obtain ⟨⟨st, r⟩, h1, h⟩ := bind_ok h
  have := parseFragmentLoop_rootInv attrib _ _ _ _ h1 (by
    by_cases ha : m.atoms = []
    · exact Or.inr ⟨ha, by simp⟩
    · exact Or.inl (hinv ha))
  simp only at h
  split at h
  · cases h
  · rename_i hsize
    split at h
    · cases h
    · split at h
      · cases h
      · simp only [pure, Except.pure, Except.ok.injEq, Prod.mk.injEq] at h
        rw [← h.1]
        rcases this with hr | ⟨ha, _⟩
        · exact hr
        · exfalso; apply hsize; simp [PMol.size, ha]

theorem smilesToMol_go_roots (attrib : Bool) :
    ∀ (fuel : Nat) (toks : List SmilesTok) (m m' : PMol) (i : Nat),
      smilesToMol.go attrib fuel toks m i = .ok m' → m.roots ≠ [] → m'.roots ≠ [] := by
  intro fuel
  induction fuel with
  | zero =>
    intro toks m m' i h hinv
    cases toks with
    | nil => simp only [smilesToMol.go, Except.ok.injEq] at h; rw [← h]; exact hinv
    | cons t ts => simp [smilesToMol.go] at h
  | succ fuel ih =>
    intro toks m m' i h hinv
    cases toks with
    | nil => simp only [smilesToMol.go, Except.ok.injEq] at h; rw [← h]; exact hinv
    | cons t ts =>
      rw [smilesToMol.go] at h
      obtain ⟨⟨m1, i1, rest⟩, h1, h⟩ := bind_ok h
      exact ih _ _ _ _ h (parseFragment_roots h1 (fun _ => hinv))

theorem tokenizeSmiles_ne_nil : ∀ (fuel : Nat) (s : Str) (toks : List SmilesTok),
    s ≠ [] → tokenizeSmiles fuel s = some toks → toks ≠ [] := by
  intro fuel s toks hs h
  cases s with
  | nil => exact absurd rfl hs
  | cons c rest =>
    cases fuel with
    | zero => simp [tokenizeSmiles] at h
    | succ fuel =>
      rw [tokenizeSmiles] at h
      split at h
      · obtain ⟨l, _, rfl⟩ := Option.map_eq_some_iff.1 h
        simp
      · simp only at h
        split at h
        · cases h
        · split at h
          · obtain ⟨l, _, rfl⟩ := Option.map_eq_some_iff.1 h
            simp
          · cases h

/-- every graph the SMILES parser returns has a root -/
theorem smilesToMol_roots {s : Str} {attrib : Bool} {g : PMol}
    (h : smilesToMol s attrib = .ok g) : g.roots ≠ [] := by
  unfold smilesToMol at h
  split at h
  · cases h
  · rename_i hne
    split at h
    · cases h
    · rename_i toks htoks
      have hs : s ≠ [] := by intro e; apply hne; simp [e]
      have ht := tokenizeSmiles_ne_nil _ _ _ hs htoks
      cases toks with
      | nil => exact absurd rfl ht
      | cons t ts =>
        simp only [List.length_cons] at h
        rw [smilesToMol.go] at h
        obtain ⟨⟨m1, i1, rest⟩, h1, h⟩ := bind_ok h
        exact smilesToMol_go_roots attrib _ _ _ _ _ h
          (parseFragment_roots h1 (fun ha => absurd rfl ha))

theorem updateBondOrder_roots {m m' : PMol} {a b o : Nat} (h : m.updateBondOrder a b o = .ok m') :
    m'.roots = m.roots := by
  unfold PMol.updateBondOrder at h
  obtain ⟨_, _, h⟩ := bind_ok h
  obtain ⟨ab, _, h⟩ := bind_ok h
  split at h
  · simp only [pure, Except.pure, Except.ok.injEq] at h; rw [h]
  · obtain ⟨adj, _, h⟩ := bind_ok h
    obtain ⟨cl, _, h⟩ := bind_ok h
    obtain ⟨ch, _, h⟩ := bind_ok h
    simp only [pure, Except.pure, Except.ok.injEq] at h; rw [← h]

theorem kekulize_roots {m g' : PMol} {tape : List Nat}
    (h : m.kekulize tape = .ok (some g')) : g'.roots = m.roots := by
  unfold PMol.kekulize at h
  split at h
  · simp only [pure, Except.pure, Except.ok.injEq, Option.some.injEq] at h
    subst h; rfl
  · obtain ⟨bad, _, h⟩ := bind_ok h
    split at h
    · simp [pure, Except.pure] at h
    · obtain ⟨kept, _, h⟩ := bind_ok h
      obtain ⟨pruned, _, h⟩ := bind_ok h
      obtain ⟨ml, _, h⟩ := bind_ok h
      split at h
      · simp [pure, Except.pure] at h
      · rename_i matching
        obtain ⟨m1, h1, h⟩ := bind_ok h
        obtain ⟨m2, h2, h⟩ := bind_ok h
        simp only [pure, Except.pure, Except.ok.injEq, Option.some.injEq] at h
        have hm1 : m1.roots = m.roots := by
          refine foldlM_preserve (fun x : PMol => x.roots = m.roots) _ ?_ _ _ _ h1 rfl
          intro s p s' hs hP
          obtain ⟨s1, hs1, hs⟩ := bind_ok hs
          obtain ⟨atom, _, hs⟩ := bind_ok hs
          obtain ⟨c, _, hs⟩ := bind_ok hs
          simp only [pure, Except.pure, Except.ok.injEq] at hs
          have hs1' : s1.roots = m.roots :=
            foldlM_preserve (fun x : PMol => x.roots = m.roots) _
              (fun y b y' hy hPy => by rw [updateBondOrder_roots hy]; exact hPy) _ _ _ hs1 hP
          rw [← hs]; exact hs1'
        have hm2 : m2.roots = m.roots := by
          refine foldlM_preserve (fun x : PMol => x.roots = m.roots) _ ?_ _ _ _ h2 hm1
          intro s x s' hs hP
          obtain ⟨mi, _, hs⟩ := bind_ok hs
          split at hs
          · cases hs
          · obtain ⟨_, _, hs⟩ := bind_ok hs
            obtain ⟨_, _, hs⟩ := bind_ok hs
            rw [updateBondOrder_roots hs]; exact hP
        rw [← h]; exact hm2

theorem encodeTail_roots {T : Table} {strict : Bool} {m r : PMol}
    (h : encodeTail T strict m = .ok r) : r.roots = m.roots := by
  unfold encodeTail at h
  split at h
  · obtain ⟨_, _, h⟩ := bind_ok h
    cases h
  · obtain ⟨atoms, _, h⟩ := bind_ok h
    simp only [pure, Except.pure, Except.ok.injEq] at h
    rw [← h]

/-- **Every graph `encoder` writes out has at least one root.** -/
theorem encodePrepare_roots {T : Table} {s : Str} {strict attrib : Bool} {tape : List Nat} {m : PMol}
    (h : encodePrepare T s strict attrib tape = .ok m) : m.roots ≠ [] := by
  rw [encodePrepare_eq] at h
  cases hp : smilesToMol s attrib with
  | error e => rw [hp] at h; cases e <;> cases h
  | ok g =>
    rw [hp] at h
    simp only at h
    cases hk : g.kekulize tape with
    | error e => rw [hk] at h; cases h
    | ok r =>
      rw [hk] at h
      cases r with
      | none => cases h
      | some g' =>
        rw [encodeTail_roots h, kekulize_roots hk]
        exact smilesToMol_roots hp

/-! ### no dot at either end, no doubled dot -/

/-- two adjacent dots occur in the string -/
def hasDD : Str → Bool
  | c :: d :: s => (c == '.' && d == '.') || hasDD (d :: s)
  | _ => false

theorem hasDD_infix (pre post : Str) : hasDD (pre ++ '.' :: '.' :: post) = true := by
  induction pre with
  | nil => simp [hasDD]
  | cons a pre ih =>
    cases hp : pre ++ '.' :: '.' :: post with
    | nil => simp at hp
    | cons b t =>
      rw [List.cons_append, hp]
      rw [hp] at ih
      simp [hasDD, ih]

theorem hasDD_cons_nodot (c : Char) (s : Str) (hc : c ≠ '.') : hasDD (c :: s) = hasDD s := by
  cases s with
  | nil => rfl
  | cons d s => simp [hasDD, hc]

theorem hasDD_append_nodot (A s : Str) (hA : '.' ∉ A) : hasDD (A ++ s) = hasDD s := by
  induction A with
  | nil => rfl
  | cons c A ih =>
    rw [List.cons_append, hasDD_cons_nodot c _ (fun e => hA (by simp [e]))]
    exact ih (fun h => hA (List.mem_cons_of_mem _ h))

theorem symbol_head {x : Str} (h : IsSymbol x) (rest : Str) : (x ++ rest).head? = some '[' := by
  obtain ⟨body, _, rfl⟩ := h
  simp [symbolOf]

theorem wfGo_render_noDD : ∀ (b : Bool) (items : List Str), wfGo b items →
    hasDD (render items) = false ∧ (b = false → (render items).head? ≠ some '.')
  | _, [], _ => ⟨rfl, fun _ => by simp [render]⟩
  | b, x :: xs, h => by
    rcases h with ⟨hx, h⟩ | ⟨hb, rfl, h⟩
    · have ih := wfGo_render_noDD true xs h
      have hr : render (x :: xs) = x ++ render xs := rfl
      rw [hr]
      refine ⟨?_, fun _ => ?_⟩
      · rw [hasDD_append_nodot x _ (symbol_no_dot hx)]; exact ih.1
      · rw [symbol_head hx]; decide
    · have ih := wfGo_render_noDD false xs h
      have hr : render (dotItem :: xs) = '.' :: render xs := rfl
      rw [hr]
      refine ⟨?_, fun e => by rw [e] at hb; cases hb⟩
      cases hrx : render xs with
      | nil => rfl
      | cons d t =>
        have hd : d ≠ '.' := by
          intro e
          have := ih.2 rfl
          rw [hrx, e] at this
          exact this rfl
        have := ih.1
        rw [hrx] at this
        simp [hasDD, hd, this]

/-- the rendering of a well-formed item list contains no `".."` -/
theorem wf_render_no_dotdot {items : List Str} (h : WF items) :
    ∀ pre post, render items ≠ pre ++ '.' :: '.' :: post := by
  intro pre post e
  have := (wfGo_render_noDD false items ((WF_iff_wfGo items).1 h)).1
  rw [e, hasDD_infix] at this
  cases this

theorem flatten_symbols_last : ∀ (f : List Str), f ≠ [] → (∀ x ∈ f, IsSymbol x) →
    f.flatten.getLast? = some ']'
  | [], h, _ => absurd rfl h
  | [x], _, hf => by
    obtain ⟨body, _, rfl⟩ := hf x List.mem_cons_self
    simp only [List.flatten_cons, List.flatten_nil, List.append_nil, symbolOf]
    exact getLast?_cons_concat _ _ _
  | x :: y :: f, _, hf => by
    have ih := flatten_symbols_last (y :: f) (by simp) (fun z hz => hf z (List.mem_cons_of_mem _ hz))
    rw [List.flatten_cons, List.getLast?_append, ih]
    rfl

/-- the string `encoder` assembles starts with `'['`, ends with `']'` and has no `".."` -/
theorem render_joinDots_edges (frags : List (List Str)) (hne : frags ≠ [])
    (hall : ∀ f ∈ frags, f ≠ [] ∧ ∀ x ∈ f, IsSymbol x) :
    (render (joinDots frags)).head? = some '[' ∧ (render (joinDots frags)).getLast? = some ']' ∧
      ∀ pre post, render (joinDots frags) ≠ pre ++ '.' :: '.' :: post := by
  refine ⟨?_, ?_, wf_render_no_dotdot (wf_joinDots hall)⟩
  · cases frags with
    | nil => exact absurd rfl hne
    | cons f rest =>
      obtain ⟨hf, hsym⟩ := hall f List.mem_cons_self
      cases f with
      | nil => exact absurd rfl hf
      | cons x f =>
        have hx := hsym x List.mem_cons_self
        cases rest with
        | nil =>
          show ((x :: f).flatten).head? = _
          rw [List.flatten_cons]; exact symbol_head hx _
        | cons g rest =>
          show (((x :: f) ++ dotItem :: joinDots (g :: rest)).flatten).head? = _
          rw [List.cons_append, List.flatten_cons]; exact symbol_head hx _
  · have key : ∀ (frags : List (List Str)), frags ≠ [] →
        (∀ f ∈ frags, f ≠ [] ∧ ∀ x ∈ f, IsSymbol x) →
        (render (joinDots frags)).getLast? = some ']' := by
      intro frags
      induction frags with
      | nil => intro h _; exact absurd rfl h
      | cons f rest ih =>
        intro _ hall
        cases rest with
        | nil =>
          obtain ⟨hf, hsym⟩ := hall f List.mem_cons_self
          exact flatten_symbols_last f hf hsym
        | cons g rest =>
          have := ih (by simp) (fun f' hf' => hall f' (List.mem_cons_of_mem _ hf'))
          show ((f ++ dotItem :: joinDots (g :: rest)).flatten).getLast? = _
          rw [List.flatten_append, List.flatten_cons, List.getLast?_append, List.getLast?_append]
          unfold render at this
          rw [this]; rfl
    exact key frags hne hall

end SV
