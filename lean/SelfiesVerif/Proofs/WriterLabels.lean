/-
  Ring labels of the whole molecule: every label `1..R` is written exactly twice, on the two
  directed halves of one ring bond.
-/
import SelfiesVerif.Proofs.WriterRings

namespace SV

theorem pkey_eq {a b c d : Nat} (h : pkey (c, d) = pkey (a, b)) : (c, d) = (a, b) ∨ (c, d) = (b, a) := by
  simp only [pkey, Prod.mk.injEq] at h ⊢
  omega

theorem pkey_swap (a b : Nat) : pkey (b, a) = pkey (a, b) := by
  simp only [pkey, Prod.mk.injEq]; omega

/-- the labelled ring-bond occurrences of the whole molecule -/
def allOcc (g : Mol) : List ((Nat × Nat) × Nat) := ringOcc [] (specPreAll g)

theorem allOcc_fst (g : Mol) : (allOcc g).map (·.1) = allRings g := ringOcc_fst _ _

theorem allOcc_nodup {g : Mol} (hg : WGraph g) : (allOcc g).Nodup := by
  have := allRings_nodup hg
  rw [← allOcc_fst] at this
  exact List.Pairwise.of_map _ (fun a b h hab => h (by rw [hab])) this

theorem specLog_ok (g : Mol) :
    LogOK (specLog g) ∧
    (∀ o ∈ allOcc g, (pkey o.1, o.2) ∈ specLog g) ∧
    (∀ e ∈ specLog g, ∃ o ∈ allOcc g, pkey o.1 = e.1) := by
  obtain ⟨h1, _, h3, h4⟩ := ringOcc_spec (specPreAll g) [] LogOK.nil
  refine ⟨h1, h3, ?_⟩
  intro e he
  rcases h4 e he with h | h
  · cases h
  · exact h

/-- labels are exactly `1..R`, `R` = final length of the ring log -/
theorem allOcc_labels {g : Mol} (n : Nat) :
    n ∈ (allOcc g).map (·.2) ↔ 1 ≤ n ∧ n ≤ (specLog g).length := by
  obtain ⟨h1, h3, h4⟩ := specLog_ok g
  constructor
  · intro hn
    obtain ⟨o, ho, rfl⟩ := List.mem_map.mp hn
    exact h1.val_range (h3 o ho)
  · rintro ⟨a1, a2⟩
    obtain ⟨k, hk⟩ := h1.val_surj a1 a2
    obtain ⟨o, ho, hok⟩ := h4 _ hk
    have := h3 o ho
    rw [hok] at this
    have := h1.key_inj this hk
    exact List.mem_map.mpr ⟨o, ho, this⟩

/-- every label is written exactly twice: on the two directed halves `a → b`, `b → a` of one ring bond -/
theorem allOcc_pair {g : Mol} (hg : WGraph g) {n : Nat} (a1 : 1 ≤ n) (a2 : n ≤ (specLog g).length) :
    ∃ a b, a ≠ b ∧ ((allOcc g).filter (fun o => o.2 == n)).Perm [((a, b), n), ((b, a), n)] ∧
      (a, b) ∈ allRings g ∧ (b, a) ∈ allRings g := by
  obtain ⟨h1, h3, h4⟩ := specLog_ok g
  obtain ⟨k, hk⟩ := h1.val_surj a1 a2
  obtain ⟨o, ho, hok⟩ := h4 _ hk
  obtain ⟨⟨a, b⟩, r⟩ := o
  simp only at hok
  have hab : (a, b) ∈ allRings g := by
    rw [← allOcc_fst]; exact List.mem_map.mpr ⟨_, ho, rfl⟩
  obtain ⟨hba, hne, _, _⟩ := allRings_mirror hg hab
  have hr : r = n := by
    have := h3 _ ho
    simp only at this
    rw [hok] at this
    exact h1.key_inj this hk
  subst hr
  obtain ⟨o', ho', ho'1⟩ : ∃ o' ∈ allOcc g, o'.1 = (b, a) := by
    rw [← allOcc_fst] at hba
    obtain ⟨o', h, e⟩ := List.mem_map.mp hba
    exact ⟨o', h, e⟩
  have ho'2 : o'.2 = r := by
    have := h3 _ ho'
    rw [ho'1, pkey_swap, hok] at this
    exact h1.key_inj this hk
  refine ⟨a, b, hne, ?_, hab, hba⟩
  rw [List.perm_ext_iff_of_nodup ((allOcc_nodup hg).filter _)
    (by simp only [List.nodup_cons, List.mem_singleton, Prod.mk.injEq, List.not_mem_nil,
          not_false_eq_true, List.nodup_nil, and_true]; omega)]
  intro e
  simp only [List.mem_filter, beq_iff_eq, List.mem_cons, List.not_mem_nil, or_false]
  constructor
  · rintro ⟨he, hen⟩
    have := h3 e he
    rw [hen] at this
    have hke := h1.val_inj this hk
    rw [← hok] at hke
    obtain ⟨⟨c, d⟩, m⟩ := e
    simp only at hen hke
    subst hen
    rcases pkey_eq hke with h | h
    · left; rw [h]
    · right; rw [h]
  · rintro (rfl | rfl)
    · exact ⟨ho, rfl⟩
    · have : o' = ((b, a), r) := Prod.ext ho'1 ho'2
      rw [← this]; exact ⟨ho', ho'2⟩

/-- two written ring bonds with the same label are the same bond or its mirror -/
theorem allOcc_label_inj {g : Mol} {o o' : (Nat × Nat) × Nat} (ho : o ∈ allOcc g) (ho' : o' ∈ allOcc g)
    (h : o.2 = o'.2) : o'.1 = o.1 ∨ o'.1 = (o.1.2, o.1.1) := by
  obtain ⟨h1, h3, _⟩ := specLog_ok g
  have e1 := h3 o ho
  have e2 := h3 o' ho'
  rw [h] at e1
  have := h1.val_inj e2 e1
  obtain ⟨⟨a, b⟩, r⟩ := o
  obtain ⟨⟨c, d⟩, r'⟩ := o'
  exact pkey_eq this

/-- ... and mirror halves do get the same label -/
theorem allOcc_label_mirror {g : Mol} {a b r r' : Nat} (ho : ((a, b), r) ∈ allOcc g)
    (ho' : ((b, a), r') ∈ allOcc g) : r = r' := by
  obtain ⟨h1, h3, _⟩ := specLog_ok g
  have e1 := h3 _ ho
  have e2 := h3 _ ho'
  simp only at e1 e2
  rw [pkey_swap] at e2
  exact h1.key_inj e1 e2

end SV

namespace SV

/-! ### `R` is the number of ring bonds -/

theorem sum_map_const (c : Nat) (l : List Nat) : (l.map (fun _ => c)).sum = c * l.length := by
  induction l with
  | nil => rfl
  | cons a l ih => simp [ih, Nat.mul_add]; omega

theorem length_eq_sum_count (S : List Nat) (hS : S.Nodup) :
    ∀ (L : List Nat), (∀ x ∈ L, x ∈ S) → L.length = (S.map (fun s => L.count s)).sum := by
  intro L
  induction L with
  | nil =>
    intro _
    simp only [List.count_nil, List.length_nil]
    rw [sum_map_const]; simp
  | cons a L ih =>
    intro hL
    have ha : a ∈ S := hL a (by simp)
    have h1 : S.count a = 1 := by
      have := List.nodup_iff_count.mp hS a
      have := List.count_pos_iff.mpr ha
      omega
    have h2 : (fun s => (a :: L).count s) = fun s => L.count s + (if s = a then 1 else 0) := by
      funext s
      rw [List.count_cons]
      by_cases h : s = a
      · subst h; simp
      · have : ¬ a = s := fun e => h e.symm
        simp [h, this]
    rw [h2, sum_map_add, ← count_eq_sum_ind, h1, List.length_cons,
      ih (fun x hx => hL x (List.mem_cons_of_mem _ hx))]

/-- twice the number of labels = number of written directed ring bonds -/
theorem allOcc_length {g : Mol} (hg : WGraph g) : (allOcc g).length = 2 * (specLog g).length := by
  have hmem : ∀ x ∈ (allOcc g).map (·.2), x ∈ List.range' 1 (specLog g).length := by
    intro x hx
    have := (allOcc_labels x).mp hx
    rw [List.mem_range'_1]; omega
  have h := length_eq_sum_count (List.range' 1 (specLog g).length) (List.nodup_range' (step := 1))
    _ hmem
  rw [List.length_map] at h
  rw [h]
  have hc : ∀ s ∈ List.range' 1 (specLog g).length,
      (fun s => ((allOcc g).map (·.2)).count s) s = (fun _ => 2) s := by
    intro s hs
    rw [List.mem_range'_1] at hs
    obtain ⟨a, b, _, hp, _, _⟩ := allOcc_pair hg (n := s) (by omega) (by omega)
    have := hp.length_eq
    simp only [List.length_cons, List.length_nil] at this
    show ((allOcc g).map (·.2)).count s = 2
    rw [List.count_eq_countP, List.countP_map, List.countP_eq_length_filter]
    have e : ((allOcc g).filter ((fun x => x == s) ∘ fun x => x.2)) =
        (allOcc g).filter (fun o => o.2 == s) := rfl
    rw [e]; omega
  rw [List.map_congr_left hc, sum_map_const, List.length_range']

theorem length_filter_flatten (p : DirBond → Bool) (adj : List (List DirBond)) :
    (adj.flatten.filter p).length = (adj.map (fun r => (r.filter p).length)).sum := by
  induction adj with
  | nil => rfl
  | cons r adj ih =>
    simp only [List.flatten_cons, List.filter_append, List.length_append, ih, List.map_cons,
      List.sum_cons]

theorem sum_range_ringPairs {g : Mol} (hg : WGraph g) (q : Nat × Nat) :
    ((List.range g.atoms.length).map (fun y => (ringPairs (g.row y)).count q)).sum =
      (ringPairs (g.row q.1)).count q := by
  by_cases ha : q.1 < g.atoms.length
  · rw [sum_map_eq_of_count (fun y => (ringPairs (g.row y)).count q) (fun y => y == q.1)
      (List.range g.atoms.length) [q.1]]
    · simp
    · intro y hy
      exact hg.count_ringPairs_ne (by simpa using hy)
    · intro y hy
      have : y = q.1 := by simpa using hy
      subst this
      rw [List.count_range, if_pos ha]; simp
  · rw [sum_map_eq_of_count (fun y => (ringPairs (g.row y)).count q) (fun y => y == q.1)
      (List.range g.atoms.length) []]
    · rw [hg.row_nil (by omega)]; rfl
    · intro y hy
      exact hg.count_ringPairs_ne (by simpa using hy)
    · intro y hy
      have : y = q.1 := by simpa using hy
      subst this
      rw [List.count_range, if_neg ha]; simp

/-- the written directed ring bonds are the stored ones -/
theorem allRings_length {g : Mol} (hg : WGraph g) :
    (allRings g).length = (g.adj.flatten.filter (·.ring)).length := by
  have hperm : (allRings g).Perm ((List.range g.atoms.length).flatMap (fun y => ringPairs (g.row y))) := by
    rw [List.perm_iff_count]
    intro q
    rw [count_allRings hg, List.count_flatMap]
    exact (sum_range_ringPairs hg q).symm
  rw [hperm.length_eq, List.length_flatMap, length_filter_flatten,
    sum_map_range_getD [] (fun r => (r.filter (·.ring)).length) g.adj, hg.lenA]
  congr 1
  apply List.map_congr_left
  intro y _
  simp [ringPairs, Mol.row]

/-- `R` (the number of distinct labels) is the number of ring bonds: each is stored twice -/
theorem specLog_length {g : Mol} (hg : WGraph g) :
    2 * (specLog g).length = (g.adj.flatten.filter (·.ring)).length := by
  rw [← allRings_length hg, ← allOcc_fst, List.length_map, allOcc_length hg]

end SV
