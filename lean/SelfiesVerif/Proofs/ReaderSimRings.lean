/-
  C01r, stage (d): the ring part of the simulation invariant.

  `RSim g cnt log rl`: the writer's ring log `log` holds exactly the unordered pairs of the ring
  bonds read so far; the parser's ring log `rl` holds exactly the read ring bonds whose partner half
  has not been read, each at the position of its placeholder, under the label the writer gave its
  pair.  Since the writer never reuses a label, equal label strings mean the same ring bond.
-/
import SelfiesVerif.Proofs.ReaderSimGraph

namespace SV

/-! ### labels -/

theorem natToStr_inj {a b : Nat} (h : natToStr a = natToStr b) : a = b := by
  have h1 := digitsVal_natToStr asciiDigitsOK a
  have h2 := digitsVal_natToStr asciiDigitsOK b
  rw [h] at h1; omega

theorem labelText_inj {a b : Nat} (h : labelText a = labelText b) : a = b := by
  unfold labelText at h
  have hd : ∀ n, natToStr n ≠ '%' :: natToStr b ∧ natToStr n ≠ '%' :: natToStr a := by
    intro n
    constructor <;>
    · intro hn
      have := natToStr_all_digits n '%' (by rw [hn]; simp)
      revert this; decide
  split at h <;> split at h
  · simp only [List.cons.injEq, true_and] at h; exact natToStr_inj h
  · exact absurd h.symm (hd b).2
  · exact absurd h (hd a).1
  · exact natToStr_inj h

/-! ### lookups in an extended log -/

theorem lookup_append_some {k : Nat × Nat} {v : Nat} : ∀ {l : RingLog} (l' : RingLog),
    lookup k l = some v → lookup k (l ++ l') = some v
  | [], _, h => by simp [lookup] at h
  | (k', v') :: rest, l', h => by
    simp only [List.cons_append, lookup] at h ⊢
    split
    · rename_i hk; rw [if_pos hk] at h; exact h
    · rename_i hk; rw [if_neg hk] at h; exact lookup_append_some l' h

theorem lookup_append_new {k : Nat × Nat} {v : Nat} : ∀ {l : RingLog},
    lookup k l = none → lookup k (l ++ [(k, v)]) = some v
  | [], _ => by simp [lookup]
  | (k', v') :: rest, h => by
    simp only [List.cons_append, lookup] at h ⊢
    split
    · rename_i hk; rw [if_pos hk] at h; cases h
    · rename_i hk; rw [if_neg hk] at h; exact lookup_append_new h

/-- the key of the writer's ring log for a stored bond -/
def bkey (b : DirBond) : Nat × Nat := pkey (b.src, b.dst)

theorem ringStep_bkey_some {log : RingLog} {b : DirBond} {n : Nat} (h : lookup (bkey b) log = some n) :
    ringStep log b.src b.dst = (n, log) := ringStep_some h

theorem ringStep_bkey_none {log : RingLog} {b : DirBond} (h : lookup (bkey b) log = none) :
    ringStep log b.src b.dst = (log.length + 1, log ++ [(bkey b, log.length + 1)]) := ringStep_none h

/-! ### the invariant -/

structure RSim (g : Mol) (cnt : Nat → Nat) (log : RingLog) (rl : List RingOpen) : Prop where
  logOK : LogOK log
  logHas : ∀ j x, x ∈ procd g cnt j → x.ring = true → (lookup (bkey x) log).isSome = true
  logOnly : ∀ e ∈ log, ∃ j x, x ∈ procd g cnt j ∧ x.ring = true ∧ bkey x = e.1
  nodup : (rl.map (·.label)).Nodup
  sound : ∀ e ∈ rl, ∃ x n, (g.row e.atom)[e.pos]? = some x ∧ e.pos < cnt e.atom ∧ x.ring = true ∧
    closedB g cnt x = false ∧ lookup (bkey x) log = some n ∧ e.label = labelText n ∧
    e.bondChar = (bondText x).head?
  complete : ∀ j pos x, pos < cnt j → (g.row j)[pos]? = some x → x.ring = true →
    closedB g cnt x = false → ∃ e ∈ rl, e.atom = j ∧ e.pos = pos

section
variable {g : Mol} {cnt : Nat → Nat} {log : RingLog} {rl : List RingOpen}

theorem procd_bump_sub {p j : Nat} {b x : DirBond} (hb : (g.row p)[cnt p]? = some b)
    (hx : x ∈ procd g cnt j) : x ∈ procd g (cntBump cnt p) j := by
  by_cases hj : j = p
  · subst hj; rw [procd_bump_self hb]; exact List.mem_append_left _ hx
  · rw [procd_bump_ne hj]; exact hx

theorem mem_procd_bump {p j : Nat} {b x : DirBond} (hb : (g.row p)[cnt p]? = some b)
    (hx : x ∈ procd g (cntBump cnt p) j) : x ∈ procd g cnt j ∨ (j = p ∧ x = b) := by
  by_cases hj : j = p
  · subst hj
    rw [procd_bump_self hb] at hx
    simp only [List.mem_append, List.mem_singleton] at hx
    rcases hx with hx | hx
    · exact Or.inl hx
    · exact Or.inr ⟨rfl, hx⟩
  · rw [procd_bump_ne hj] at hx; exact Or.inl hx

theorem mem_procd_of_pos {j pos : Nat} {x : DirBond} (hpos : pos < cnt j)
    (hx : (g.row j)[pos]? = some x) : x ∈ procd g cnt j := mem_procd.mpr ⟨pos, hpos, hx⟩

/-- positions below the bumped counter -/
theorem pos_bump_cases {p j pos : Nat} (h : pos < cntBump cnt p j) : pos < cnt j ∨ (j = p ∧ pos = cnt p) := by
  by_cases hj : j = p
  · subst hj; rw [cntBump_self] at h; omega
  · rw [cntBump_ne cnt hj] at h; exact Or.inl h

theorem lt_bump {p j pos : Nat} (h : pos < cnt j) : pos < cntBump cnt p j := by
  by_cases hj : j = p
  · subst hj; rw [cntBump_self]; omega
  · rw [cntBump_ne cnt hj]; exact h

/-- no read bond shares its unordered pair with a new bond that has no read partner -/
theorem RSim.lookup_none_of_open (hg : WGraph g) (hr : RSim g cnt log rl) {p : Nat} {b : DirBond}
    (hb : (g.row p)[cnt p]? = some b) (hopen : closedB g cnt b = false) :
    lookup (bkey b) log = none := by
  cases hl : lookup (bkey b) log with
  | none => rfl
  | some n =>
    exfalso
    obtain ⟨j, x, hx, _, hk⟩ := hr.logOnly _ (lookup_some hl)
    have hbs : b.src = p := hg.row_src (getElem?_mem_row hb)
    have hxs : x.src = j := hg.row_src (procd_sub hx)
    unfold bkey at hk
    rcases pkey_eq hk with h | h
    · simp only [Prod.mk.injEq] at h
      have hjp : j = p := by omega
      subst hjp
      obtain ⟨q, hq, hxq⟩ := mem_procd.mp hx
      have := pw_pos_unique (hg.row_pw j) hxq hb h.2
      omega
    · simp only [Prod.mk.injEq] at h
      rw [closedB_false_iff] at hopen
      have : x ∈ procd g cnt b.dst := by rw [← h.1, hxs]; exact hx
      exact hopen x this h.2

/-- a chain bond is read -/
theorem RSim.bump_chain (hg : WGraph g) (hr : RSim g cnt log rl) {p : Nat} {b : DirBond}
    (hb : (g.row p)[cnt p]? = some b) (hchain : b.ring = false) (hopen : closedB g cnt b = false) :
    RSim g (cntBump cnt p) log rl where
  logOK := hr.logOK
  logHas := by
    intro j x hx hxr
    rcases mem_procd_bump hb hx with hx' | ⟨_, rfl⟩
    · exact hr.logHas j x hx' hxr
    · rw [hchain] at hxr; cases hxr
  logOnly := by
    intro e he
    obtain ⟨j, x, hx, h1, h2⟩ := hr.logOnly e he
    exact ⟨j, x, procd_bump_sub hb hx, h1, h2⟩
  nodup := hr.nodup
  sound := by
    intro e he
    obtain ⟨x, n, h1, h2, h3, h4, h5, h6, h7⟩ := hr.sound e he
    refine ⟨x, n, h1, lt_bump h2, h3, ?_, h5, h6, h7⟩
    rw [closedB_bump_open hg hb hopen (mem_procd_of_pos h2 h1)]; exact h4
  complete := by
    intro j pos x hpos hx hxr hcl
    rcases pos_bump_cases hpos with h | ⟨rfl, rfl⟩
    · rw [closedB_bump_open hg hb hopen (mem_procd_of_pos h hx)] at hcl
      exact hr.complete j pos x h hx hxr hcl
    · rw [hb] at hx; cases hx
      rw [hchain] at hxr; cases hxr

/-- a ring bond whose partner has not been read is read: the ring is opened -/
theorem RSim.bump_ringOpen (hg : WGraph g) (hr : RSim g cnt log rl) {p : Nat} {b : DirBond}
    (hb : (g.row p)[cnt p]? = some b) (hring : b.ring = true) (hopen : closedB g cnt b = false) :
    RSim g (cntBump cnt p) (log ++ [(bkey b, log.length + 1)])
      (rl ++ [{ label := labelText (log.length + 1), bondChar := (bondText b).head?, atom := p,
                pos := cnt p }]) := by
  have hnone := hr.lookup_none_of_open hg hb hopen
  refine ⟨hr.logOK.snoc (lookup_none hnone), ?_, ?_, ?_, ?_, ?_⟩
  · intro j x hx hxr
    rcases mem_procd_bump hb hx with hx' | ⟨_, rfl⟩
    · have := hr.logHas j x hx' hxr
      cases hl : lookup (bkey x) log with
      | none => rw [hl] at this; cases this
      | some n => rw [lookup_append_some _ hl]; rfl
    · rw [lookup_append_new hnone]; rfl
  · intro e he
    simp only [List.mem_append, List.mem_singleton] at he
    rcases he with he | rfl
    · obtain ⟨j, x, hx, h1, h2⟩ := hr.logOnly e he
      exact ⟨j, x, procd_bump_sub hb hx, h1, h2⟩
    · exact ⟨p, b, by rw [procd_bump_self hb]; simp, hring, rfl⟩
  · rw [List.map_append, List.nodup_append]
    refine ⟨hr.nodup, by simp, ?_⟩
    intro l1 h1 l2 h2
    simp only [List.map_cons, List.map_nil, List.mem_singleton] at h2
    subst h2
    obtain ⟨e, he, rfl⟩ := List.mem_map.mp h1
    obtain ⟨x, n, _, _, _, _, h5, h6, _⟩ := hr.sound e he
    rw [h6]
    intro heq
    have := labelText_inj heq
    have := (hr.logOK.val_range (lookup_some h5)).2
    omega
  · intro e he
    simp only [List.mem_append, List.mem_singleton] at he
    rcases he with he | rfl
    · obtain ⟨x, n, h1, h2, h3, h4, h5, h6, h7⟩ := hr.sound e he
      refine ⟨x, n, h1, lt_bump h2, h3, ?_, lookup_append_some _ h5, h6, h7⟩
      rw [closedB_bump_open hg hb hopen (mem_procd_of_pos h2 h1)]; exact h4
    · refine ⟨b, log.length + 1, hb, by simp, hring, ?_, lookup_append_new hnone, rfl, rfl⟩
      rw [closedB_bump_new hg hb]; exact hopen
  · intro j pos x hpos hx hxr hcl
    rcases pos_bump_cases hpos with h | ⟨rfl, rfl⟩
    · rw [closedB_bump_open hg hb hopen (mem_procd_of_pos h hx)] at hcl
      obtain ⟨e, he, h1, h2⟩ := hr.complete j pos x h hx hxr hcl
      exact ⟨e, List.mem_append_left _ he, h1, h2⟩
    · exact ⟨_, List.mem_append_right _ (List.mem_singleton.mpr rfl), rfl, rfl⟩

end

end SV
