/-
  What the decoder's derive phase records as attribution.

  For a call of `deriveLoop` with attribution stack `some S` and offset `ai` that returns `.ok`:
  * it consumes a prefix `pre` of its token stream and returns `n = nDerived + pre.length`
    (every token pulled is counted exactly once); a call without budget consumes everything;
  * every atom it adds gets `atomAttr = some (S ++ (ext ++ [own]).map mkAttr)` where
    `ext ++ [own]` is a sublist (in order) of the consumed tokens, `own` is the atom symbol that
    created the atom, and `ext` are branch symbols (`Tag`);
  * every chain bond carries the attribution of its destination atom (`AInv`).
-/
import SelfiesVerif.Proofs.AttrWriter
namespace SV

/-- the symbol the decoder sees for the stored token `sym` -/
def symOf (compat : Bool) (sym : Str) : Str := if compat then modernSym sym else sym

@[simp] theorem symOf_false (sym : Str) : symOf false sym = sym := rfl

/-- the `Attribution` the decoder makes from an enumerated token -/
def mkAttr (compat : Bool) (ai : Nat) (p : Nat × Str) : Attribution :=
  { index := p.1 + ai, token := symOf compat p.2 }

/-! ### streams -/

theorem next_some {compat : Bool} {s s' : Stream} {i : Nat} {sym : Str}
    (h : s.next compat = .ok (some ((i, sym), s'))) :
    ∃ sym0, s.toks = (i, sym0) :: s'.toks ∧ sym = symOf compat sym0 := by
  cases compat with
  | true =>
    rw [C18.next_true_eq] at h
    split at h
    · split at h <;> cases h
    · rename_i j sym0 rest heq
      cases h
      exact ⟨sym0, heq, rfl⟩
  | false =>
    unfold Stream.next at h
    split at h
    · split at h <;> cases h
    · simp only [Bool.false_eq_true, if_false] at h
      cases h
      exact ⟨_, by assumption, rfl⟩

theorem next_none {compat : Bool} {s : Stream} (h : s.next compat = .ok none) : s.toks = [] := by
  cases compat with
  | true =>
    rw [C18.next_true_eq] at h
    split at h
    · assumption
    · cases h
  | false =>
    unfold Stream.next at h
    split at h
    · assumption
    · simp only [Bool.false_eq_true, if_false] at h
      cases h

theorem readIndex_toks (compat : Bool) : ∀ (n : Nat) (s : Stream) (acc : List (Option Str)) (k : Nat)
    (q nRead : Nat) (s' : Stream), readIndex compat n s acc k = .ok (q, nRead, s') →
    ∃ pre, s.toks = pre ++ s'.toks ∧ nRead = k + pre.length := by
  intro n
  induction n with
  | zero =>
    intro s acc k q nRead s' h
    simp only [readIndex] at h
    cases h
    exact ⟨[], rfl, rfl⟩
  | succ n ih =>
    intro s acc k q nRead s' h
    simp only [readIndex] at h
    bind_at h with ⟨nx, hnx, h⟩
    cases nx with
    | none =>
      exact ih _ _ _ _ _ _ h
    | some p =>
      obtain ⟨⟨i, sym⟩, s1⟩ := p
      obtain ⟨sym0, e1, _⟩ := next_some hnx
      obtain ⟨pre, e2, e3⟩ := ih _ _ _ _ _ _ h
      exact ⟨(i, sym0) :: pre, by rw [e1, e2]; rfl, by simp; omega⟩

theorem consumeRest_toks (compat : Bool) : ∀ (fuel : Nat) (s : Stream) (md : Option Nat) (nd : Nat)
    (s' : Stream) (n : Nat), consumeRest compat fuel s md nd = .ok (s', n) →
    ∃ pre, s.toks = pre ++ s'.toks ∧ n = nd + pre.length ∧ (md = none → s'.toks = []) := by
  intro fuel
  induction fuel with
  | zero => intro s md nd s' n h; simp [consumeRest] at h
  | succ fuel ih =>
    intro s md nd s' n h
    simp only [consumeRest] at h
    split at h
    · bind_at h with ⟨nx, hnx, h⟩
      cases nx with
      | none =>
        simp only [pure, Except.pure, Except.ok.injEq, Prod.mk.injEq] at h
        obtain ⟨rfl, rfl⟩ := h
        exact ⟨[], rfl, rfl, fun _ => next_none hnx⟩
      | some p =>
        obtain ⟨⟨i, sym⟩, s1⟩ := p
        obtain ⟨sym0, e1, _⟩ := next_some hnx
        obtain ⟨pre, e2, e3, e4⟩ := ih _ _ _ _ _ h
        exact ⟨(i, sym0) :: pre, by rw [e1, e2]; rfl, by simp; omega, e4⟩
    · rename_i hub
      simp only [pure, Except.pure, Except.ok.injEq, Prod.mk.injEq] at h
      obtain ⟨rfl, rfl⟩ := h
      refine ⟨[], rfl, rfl, fun hmd => ?_⟩
      subst hmd
      simp [underBudget] at hub

/-! ### tags -/

/-- `x = (atom, its attribution)`: made under stack `S` from the tokens `pre` -/
def Tag (T : Table) (compat : Bool) (ai : Nat) (S : List Attribution) (pre : List (Nat × Str))
    (x : Atom × Option (List Attribution)) : Prop :=
  ∃ (ext : List (Nat × Str)) (own : Nat × Str), (ext ++ [own]).Sublist pre ∧
    x.2 = some (S ++ (ext ++ [own]).map (mkAttr compat ai)) ∧
    (∃ bo, processAtomSymbol T (symOf compat own.2) = some (bo, x.1)) ∧
    ∀ b ∈ ext, (processBranchSymbol (symOf compat b.2)).isSome

theorem Tag.mono {T compat ai S pre pre' x} (h : Tag T compat ai S pre x) (hs : pre.Sublist pre') :
    Tag T compat ai S pre' x := by
  obtain ⟨ext, own, h1, h2, h3, h4⟩ := h
  exact ⟨ext, own, h1.trans hs, h2, h3, h4⟩

theorem Tag.nest {T compat ai S pre x} {b : Nat × Str}
    (h : Tag T compat ai (S ++ [mkAttr compat ai b]) pre x)
    (hb : (processBranchSymbol (symOf compat b.2)).isSome) :
    Tag T compat ai S (b :: pre) x := by
  obtain ⟨ext, own, h1, h2, h3, h4⟩ := h
  refine ⟨b :: ext, own, by simpa using h1.cons_cons b, ?_, h3, ?_⟩
  · rw [h2]; simp
  · intro b' hb'
    rcases List.mem_cons.mp hb' with rfl | hb'
    · exact hb
    · exact h4 _ hb'

/-- From `(t, m)` the derivation consumed `pre`, leaving `t'`, and appended atoms with their
    attributions, all tagged by `S` and `pre`. -/
def Seg (T : Table) (compat : Bool) (ai : Nat) (S : List Attribution)
    (t : List (Nat × Str)) (m : Mol) (t' : List (Nat × Str)) (m' : Mol) (pre : List (Nat × Str)) : Prop :=
  t = pre ++ t' ∧ ∃ new : List (Atom × Option (List Attribution)),
    m'.atoms = m.atoms ++ new.map (·.1) ∧ m'.atomAttr = m.atomAttr ++ new.map (·.2) ∧
    ∀ x ∈ new, Tag T compat ai S pre x

theorem Seg.toks {T compat ai S} {t t' : List (Nat × Str)} (m : Mol) {pre} (h : t = pre ++ t') :
    Seg T compat ai S t m t' m pre :=
  ⟨h, [], by simp, by simp, fun _ hx => by cases hx⟩

theorem Seg.trans {T compat ai S t m t1 m1 t2 m2 p0 p1}
    (h0 : Seg T compat ai S t m t1 m1 p0) (h1 : Seg T compat ai S t1 m1 t2 m2 p1) :
    Seg T compat ai S t m t2 m2 (p0 ++ p1) := by
  obtain ⟨e0, new0, a0, b0, c0⟩ := h0
  obtain ⟨e1, new1, a1, b1, c1⟩ := h1
  refine ⟨by rw [e0, e1, List.append_assoc], new0 ++ new1, by rw [a1, a0]; simp, by rw [b1, b0]; simp, ?_⟩
  intro x hx
  rcases List.mem_append.mp hx with hx | hx
  · exact (c0 x hx).mono (List.sublist_append_left _ _)
  · exact (c1 x hx).mono (List.sublist_append_right _ _)

/-- a nested derivation (stack extended by the branch symbol `b`) seen from the caller -/
theorem Seg.nest {T compat ai S t m t1 t2 m2 p2} {b : Nat × Str} {pidx : List (Nat × Str)}
    (ht : t = b :: pidx ++ t1)
    (h : Seg T compat ai (S ++ [mkAttr compat ai b]) t1 m t2 m2 p2)
    (hb : (processBranchSymbol (symOf compat b.2)).isSome) :
    Seg T compat ai S t m t2 m2 (b :: pidx ++ p2) := by
  obtain ⟨e, new, a1, b1, c1⟩ := h
  refine ⟨by rw [ht, e]; simp, new, a1, b1, ?_⟩
  intro x hx
  refine ((c1 x hx).nest hb).mono ?_
  simp only [List.cons_append]
  exact (List.sublist_append_right _ _).cons_cons b

/-- one atom symbol -/
theorem Seg.atom {T compat ai S} {t t' : List (Nat × Str)} {m m' : Mol} {p : Nat × Str} {a : Atom}
    {bo : Nat × Option Char}
    (ht : t = p :: t') (ha : processAtomSymbol T (symOf compat p.2) = some (bo, a))
    (e1 : m'.atoms = m.atoms ++ [a])
    (e2 : m'.atomAttr = m.atomAttr ++ [some (S ++ [mkAttr compat ai p])]) :
    Seg T compat ai S t m t' m' [p] := by
  refine ⟨ht, [(a, some (S ++ [mkAttr compat ai p]))], by simpa using e1, by simpa using e2, ?_⟩
  intro x hx
  simp only [List.mem_singleton] at hx
  subst hx
  exact ⟨[], p, by simp, by simp, ⟨bo, ha⟩, fun _ hb => by cases hb⟩

/-! ### bonds carry the attribution of their destination atom -/

structure AInv (m : Mol) : Prop where
  len : m.atomAttr.length = m.atoms.length
  bonds : ∀ row ∈ m.adj, ∀ b ∈ row,
    (b.ring = false → m.atomAttr[b.dst]? = some b.attr) ∧ (b.ring = true → b.attr = none)

theorem AInv_empty : AInv {} := ⟨rfl, fun _ h => by cases h⟩

theorem AInv.addAtom {m : Mol} (h : AInv m) (a : Atom) (r : Bool) (attr) :
    AInv (m.addAtom a r attr).1 := by
  refine ⟨by simp [Mol.addAtom, h.len], ?_⟩
  intro row hrow b hb
  simp only [Mol.addAtom, List.mem_append, List.mem_singleton] at hrow
  rcases hrow with hrow | rfl
  · obtain ⟨h1, h2⟩ := h.bonds row hrow b hb
    refine ⟨fun hr => ?_, h2⟩
    have := h1 hr
    simp only [Mol.addAtom]
    rw [List.getElem?_append_left (List.getElem?_eq_some_iff.mp this).1]
    exact this
  · cases hb

theorem addBond_shape {m m' : Mol} {src dst order : Nat} {stereo : Option Char} {attr}
    (h : m.addBond src dst order stereo attr = .ok m') :
    m'.atoms = m.atoms ∧ m'.atomAttr = m.atomAttr ∧
    ∀ row ∈ m'.adj, ∀ b ∈ row, (∃ row0 ∈ m.adj, b ∈ row0) ∨
      b = { src, dst, order, stereo, ring := false, attr } := by
  unfold Mol.addBond at h
  bind_at h with ⟨_, _, h⟩
  bind_at h with ⟨adj, h1, h⟩
  bind_at h with ⟨c1, _, h⟩
  bind_at h with ⟨c2, _, h⟩
  cases h
  refine ⟨rfl, rfl, ?_⟩
  intro row hrow b hb
  unfold Mol.appendOut at h1
  split at h1
  · rename_i out hout
    cases h1
    rcases List.mem_or_eq_of_mem_set hrow with hrow | rfl
    · exact .inl ⟨row, hrow, hb⟩
    · rcases List.mem_append.mp hb with hb | hb
      · exact .inl ⟨out, List.mem_of_getElem? hout, hb⟩
      · simp only [List.mem_singleton] at hb
        exact .inr hb
  · cases h1

theorem AInv.addAtomBond {m m' : Mol} (h : AInv m) {a : Atom} {attr} {p bo : Nat} {st}
    (hb : (m.addAtom a false attr).1.addBond p (m.addAtom a false attr).2 bo st attr = .ok m') :
    AInv m' := by
  have h1 := h.addAtom a false attr
  obtain ⟨e1, e2, e3⟩ := addBond_shape hb
  refine ⟨by rw [e1, e2]; exact h1.len, ?_⟩
  intro row hrow b hbm
  rw [e2]
  rcases e3 row hrow b hbm with ⟨row0, hr0, hb0⟩ | rfl
  · exact h1.bonds row0 hr0 b hb0
  · refine ⟨fun _ => ?_, fun hr => by cases hr⟩
    simp only [Mol.addAtom]
    rw [← h.len]
    simp

/-! ### the derive loop -/

/-- the result `r` of a derivation from tokens `t` and graph `m` -/
def DRes (T : Table) (compat : Bool) (ai : Nat) (S : List Attribution) (t : List (Nat × Str)) (m : Mol)
    (md : Option Nat) (nd : Nat) (r : DState × Nat) : Prop :=
  ∃ pre, Seg T compat ai S t m r.1.stream.toks r.1.mol pre ∧ r.2 = nd + pre.length ∧
    (md = none → r.1.stream.toks = []) ∧ AInv r.1.mol

theorem DRes.prepend {T compat ai S t m t1 m1 p0 md nd nd1 r}
    (h0 : Seg T compat ai S t m t1 m1 p0) (hn : nd1 = nd + p0.length)
    (h1 : DRes T compat ai S t1 m1 md nd1 r) : DRes T compat ai S t m md nd r := by
  obtain ⟨pre, s1, e1, e2, e3⟩ := h1
  exact ⟨p0 ++ pre, h0.trans s1, by rw [e1, hn]; simp; omega, e2, e3⟩

theorem DRes.of_fin {T compat ai S} {k : Nat} {s0 : Stream} {mol : Mol} {rings : List RingReq} {md nd}
    {r : DState × Nat} (hA : AInv mol)
    (h : (do
      let __x ← consumeRest compat k s0 md nd
      match __x with
        | (s', n) => pure ({ stream := s', mol := mol, rings := rings }, n) : Py (DState × Nat))
      = .ok r) : DRes T compat ai S s0.toks mol md nd r := by
  obtain ⟨⟨s', n⟩, h1, h2⟩ := bind_okD h
  cases h2
  obtain ⟨pre, e1, e2, e3⟩ := consumeRest_toks compat _ _ _ _ _ _ h1
  exact ⟨pre, Seg.toks mol e1, e2, e3, hA⟩

theorem attrPush_some (S : List Attribution) (i : Nat) (sym : Str) :
    attrPush (some S) i sym = some (S ++ [{ index := i, token := sym }]) := rfl

theorem deriveLoop_attr (T : Table) (compat : Bool) : ∀ (fuel depth : Nat) (st : DState)
    (maxDerive : Option Nat) (nDerived state : Nat) (prev : Option Nat) (S : List Attribution)
    (attrIndex : Nat) (r : DState × Nat),
    deriveLoop T compat fuel depth st maxDerive nDerived state prev (some S) attrIndex = .ok r →
    AInv st.mol → DRes T compat attrIndex S st.stream.toks st.mol maxDerive nDerived r := by
  intro fuel
  induction fuel with
  | zero => intro _ _ _ _ _ _ _ _ _ h; simp [deriveLoop] at h
  | succ fuel ih =>
    intro depth st maxDerive nDerived state prev S attrIndex r h hA
    unfold deriveLoop at h
    dsimp only at h
    split at h
    · exact DRes.of_fin hA h
    · bind_at h with ⟨nx, hnx, h⟩
      split at h
      · exact DRes.of_fin hA h
      · rename_i index symbol stream'
        obtain ⟨sym0, htoks, hsym⟩ := next_some hnx
        -- the token just pulled, as a segment
        have hseg0 : Seg T compat attrIndex S st.stream.toks st.mol stream'.toks st.mol [(index, sym0)] :=
          Seg.toks _ htoks
        split at h
        · -- branch
          split at h
          · cases h
          · rename_i btype n hbr
            split at h
            · exact DRes.prepend hseg0 rfl (ih _ _ _ _ _ _ _ _ _ h hA)
            · bind_at h with ⟨⟨binit, nextState⟩, hnb, h⟩
              dsimp only at h
              bind_at h with ⟨⟨q, nRead, stream2⟩, hri, h⟩
              dsimp only at h
              split at h
              · cases h
              · bind_at h with ⟨⟨st1, nb⟩, hrec, h⟩
                dsimp only at h
                obtain ⟨pidx, e1, e2⟩ := readIndex_toks compat _ _ _ _ _ _ _ hri
                rw [attrPush_some] at hrec
                obtain ⟨p2, s2, n2, _, hA1⟩ := ih _ _ _ _ _ _ _ _ _ hrec hA
                have hb : (processBranchSymbol (symOf compat (index, sym0).2)).isSome := by
                  simp only; rw [← hsym, hbr]; rfl
                have hs : Seg T compat attrIndex S st.stream.toks st.mol st1.stream.toks st1.mol
                    ((index, sym0) :: pidx ++ p2) := by
                  refine Seg.nest (b := (index, sym0)) (t1 := stream2.toks) ?_ ?_ hb
                  · rw [htoks, e1]; simp
                  · simpa [mkAttr, hsym] using s2
                refine DRes.prepend hs ?_ (ih _ _ _ _ _ _ _ _ _ h hA1)
                simp only at n2
                simp only [List.cons_append, List.length_cons, List.length_append]
                omega
        · split at h
          · -- ring
            split at h
            · cases h
            · rename_i rtype n stereo hrs
              split at h
              · exact DRes.prepend hseg0 rfl (ih _ _ _ _ _ _ _ _ _ h hA)
              · bind_at h with ⟨⟨order, nextState⟩, hnr, h⟩
                dsimp only at h
                bind_at h with ⟨⟨q, nRead, stream2⟩, hri, h⟩
                dsimp only at h
                obtain ⟨pidx, e1, e2⟩ := readIndex_toks compat _ _ _ _ _ _ _ hri
                have hs : Seg T compat attrIndex S st.stream.toks st.mol stream2.toks st.mol
                    ((index, sym0) :: pidx) := Seg.toks _ (by rw [htoks, e1]; simp)
                have hn : nDerived + 1 + nRead = nDerived + ((index, sym0) :: pidx).length := by
                  simp only [List.length_cons]; omega
                split at h
                · cases h
                · rename_i p
                  bind_at h with ⟨_, _, h⟩
                  split at h
                  · exact DRes.prepend hs hn (DRes.of_fin hA h)
                  · exact DRes.prepend hs hn (ih _ _ _ _ _ _ _ _ _ h hA)
          · split at h
            · -- epsilon
              split at h
              · exact DRes.prepend hseg0 rfl (ih _ _ _ _ _ _ _ _ _ h hA)
              · exact DRes.prepend hseg0 rfl (DRes.of_fin hA h)
            · -- atom
              split at h
              · cases h
              · rename_i bondOrder stereo atom hpa
                generalize nextAtomState bondOrder (Atom.bondingCapacity T atom).toNat state = nas at h
                obtain ⟨bo, ns⟩ := nas
                dsimp only at h
                rw [attrPush_some] at h
                have hpa' : processAtomSymbol T (symOf compat (index, sym0).2) = some ((bondOrder, stereo), atom) := by
                  simp only; rw [← hsym]; exact hpa
                split at h
                · split at h
                  · -- new root
                    have hA1 := hA.addAtom atom true (some (S ++ [{ index := index + attrIndex, token := symbol }]))
                    have hs : Seg T compat attrIndex S st.stream.toks st.mol stream'.toks
                        (st.mol.addAtom atom true (some (S ++ [{ index := index + attrIndex, token := symbol }]))).1
                        [(index, sym0)] :=
                      Seg.atom htoks hpa' rfl (by simp [Mol.addAtom, mkAttr, hsym])
                    split at h
                    · exact DRes.prepend hs rfl (DRes.of_fin hA1 h)
                    · exact DRes.prepend hs rfl (ih _ _ _ _ _ _ _ _ _ h hA1)
                  · split at h
                    · exact DRes.prepend hseg0 rfl (DRes.of_fin hA h)
                    · exact DRes.prepend hseg0 rfl (ih _ _ _ _ _ _ _ _ _ h hA)
                · split at h
                  · cases h
                  · rename_i p
                    bind_at h with ⟨mol1, hab, h⟩
                    have hA1 : AInv mol1 := hA.addAtomBond hab
                    obtain ⟨a1, a2, _⟩ := addBond_shape hab
                    have hs : Seg T compat attrIndex S st.stream.toks st.mol stream'.toks mol1
                        [(index, sym0)] :=
                      Seg.atom htoks hpa' (by rw [a1]; rfl) (by rw [a2]; simp [Mol.addAtom, mkAttr, hsym])
                    split at h
                    · exact DRes.prepend hs rfl (DRes.of_fin hA1 h)
                    · exact DRes.prepend hs rfl (ih _ _ _ _ _ _ _ _ _ h hA1)

/-! ### the ring phase keeps atoms, attributions and `AInv` -/

def BLike (b' b0 : DirBond) : Prop := b'.dst = b0.dst ∧ b'.attr = b0.attr ∧ b'.ring = b0.ring

/-- every bond of `adj'` is like a bond of `adj`, or is a ring bond without attribution -/
def AdjLike (adj' adj : List (List DirBond)) : Prop :=
  ∀ row' ∈ adj', ∀ b' ∈ row', (∃ row ∈ adj, ∃ b0 ∈ row, BLike b' b0) ∨ (b'.ring = true ∧ b'.attr = none)

theorem AdjLike.refl (adj : List (List DirBond)) : AdjLike adj adj :=
  fun row hrow b hb => .inl ⟨row, hrow, b, hb, rfl, rfl, rfl⟩

theorem AdjLike.trans {a b c : List (List DirBond)} (h1 : AdjLike a b) (h2 : AdjLike b c) : AdjLike a c := by
  intro row' hrow' b' hb'
  rcases h1 row' hrow' b' hb' with ⟨row, hrow, b0, hb0, e1, e2, e3⟩ | h
  · rcases h2 row hrow b0 hb0 with ⟨row2, hrow2, b2, hb2, f1, f2, f3⟩ | ⟨f1, f2⟩
    · exact .inl ⟨row2, hrow2, b2, hb2, e1.trans f1, e2.trans f2, e3.trans f3⟩
    · exact .inr ⟨e3.trans f1, e2.trans f2⟩
  · exact .inr h

theorem AInv.of_like {m m' : Mol} (h : AInv m) (e1 : m'.atoms = m.atoms) (e2 : m'.atomAttr = m.atomAttr)
    (hl : AdjLike m'.adj m.adj) : AInv m' := by
  refine ⟨by rw [e1, e2]; exact h.len, ?_⟩
  intro row' hrow' b' hb'
  rw [e2]
  rcases hl row' hrow' b' hb' with ⟨row, hrow, b0, hb0, f1, f2, f3⟩ | ⟨f1, f2⟩
  · obtain ⟨g1, g2⟩ := h.bonds row hrow b0 hb0
    rw [f1, f2, f3]
    exact ⟨g1, g2⟩
  · exact ⟨fun hr => (by rw [f1] at hr; cases hr), fun _ => f2⟩

theorem setOrderAt_like (adj : List (List DirBond)) (src dst o : Nat) :
    AdjLike (Mol.setOrderAt adj src dst o) adj := by
  unfold Mol.setOrderAt
  split
  · rename_i out hout
    intro row' hrow' b' hb'
    rcases List.mem_or_eq_of_mem_set hrow' with hrow' | rfl
    · exact .inl ⟨row', hrow', b', hb', rfl, rfl, rfl⟩
    · obtain ⟨b0, hb0, rfl⟩ := List.mem_map.mp hb'
      refine .inl ⟨out, List.mem_of_getElem? hout, b0, hb0, ?_⟩
      split <;> exact ⟨rfl, rfl, rfl⟩
  · exact AdjLike.refl _

theorem updateBondOrder_shape {m m' : Mol} {a b n : Nat} (h : m.updateBondOrder a b n = .ok m') :
    m'.atoms = m.atoms ∧ m'.atomAttr = m.atomAttr ∧ AdjLike m'.adj m.adj := by
  unfold Mol.updateBondOrder at h
  bind_at h with ⟨_, _, h⟩
  bind_at h with ⟨ab, _, h⟩
  split at h
  · cases h; exact ⟨rfl, rfl, AdjLike.refl _⟩
  · bind_at h with ⟨adj, h1, h⟩
    bind_at h with ⟨cl, _, h⟩
    bind_at h with ⟨ch, _, h⟩
    cases h
    refine ⟨rfl, rfl, ?_⟩
    split at h1
    · bind_at h1 with ⟨_, _, h1⟩
      cases h1
      exact (setOrderAt_like _ _ _ _).trans (setOrderAt_like _ _ _ _)
    · cases h1
      exact setOrderAt_like _ _ _ _

theorem mem_insertAt {α} {x v : α} : ∀ {l : List α} {i : Nat}, x ∈ insertAt l i v → x ∈ l ∨ x = v
  | l, 0, h => by
    simp only [insertAt, List.mem_cons] at h
    rcases h with h | h
    · exact .inr h
    · exact .inl h
  | [], _ + 1, h => by
    simp only [insertAt, List.mem_singleton] at h
    exact .inr h
  | y :: l, i + 1, h => by
    simp only [insertAt, List.mem_cons] at h
    rcases h with h | h
    · exact .inl (by simp [h])
    · rcases mem_insertAt h with h | h
      · exact .inl (by simp [h])
      · exact .inr h

theorem addBondAtLoc_like {adj adj' : List (List DirBond)} {b : DirBond} {pos : Nat}
    (hb : b.ring = true ∧ b.attr = none) (h : Mol.addBondAtLoc adj b pos = .ok adj') :
    AdjLike adj' adj := by
  unfold Mol.addBondAtLoc at h
  split at h
  · rename_i out hout
    have hmem := List.mem_of_getElem? hout
    split at h
    · cases h
      intro row' hrow' b' hb'
      rcases List.mem_or_eq_of_mem_set hrow' with hrow' | rfl
      · exact .inl ⟨row', hrow', b', hb', rfl, rfl, rfl⟩
      · rcases List.mem_append.mp hb' with hb' | hb'
        · exact .inl ⟨out, hmem, b', hb', rfl, rfl, rfl⟩
        · simp only [List.mem_singleton] at hb'
          subst hb'; exact .inr hb
    · split at h
      · cases h
        intro row' hrow' b' hb'
        rcases List.mem_or_eq_of_mem_set hrow' with hrow' | rfl
        · exact .inl ⟨row', hrow', b', hb', rfl, rfl, rfl⟩
        · rcases mem_insertAt hb' with hb' | rfl
          · exact .inl ⟨out, hmem, b', hb', rfl, rfl, rfl⟩
          · exact .inr hb
      · cases h
  · cases h

theorem addRingBond_shape {m m' : Mol} {a b order : Nat} {ast bst : Option Char} {ap bp : Nat}
    (h : m.addRingBond a b order ast bst ap bp = .ok m') :
    m'.atoms = m.atoms ∧ m'.atomAttr = m.atomAttr ∧ AdjLike m'.adj m.adj := by
  unfold Mol.addRingBond at h
  bind_at h with ⟨adj1, h1, h⟩
  bind_at h with ⟨adj2, h2, h⟩
  bind_at h with ⟨c1, _, h⟩
  bind_at h with ⟨c2, _, h⟩
  cases h
  exact ⟨rfl, rfl, (addBondAtLoc_like ⟨rfl, rfl⟩ h2).trans (addBondAtLoc_like ⟨rfl, rfl⟩ h1)⟩

theorem formRings_attr (T : Table) : ∀ (rings : List RingReq) (m : Mol) (rm : List Nat) (r : Mol),
    formRings T rings m rm = .ok r → AInv m → AInv r ∧ r.atoms = m.atoms ∧ r.atomAttr = m.atomAttr := by
  intro rings
  induction rings with
  | nil =>
    intro m rm r h hA
    simp only [formRings] at h
    cases h; exact ⟨hA, rfl, rfl⟩
  | cons req rest ih =>
    intro m rm r h hA
    obtain ⟨lidx, ridx, order, lst, rst⟩ := req
    unfold formRings at h
    split at h
    · exact ih _ _ _ h hA
    · bind_at h with ⟨latom, _, h⟩
      bind_at h with ⟨ratom, _, h⟩
      bind_at h with ⟨lcount, _, h⟩
      bind_at h with ⟨rcount, _, h⟩
      dsimp only at h
      split at h
      · exact ih _ _ _ h hA
      · split at h
        · bind_at h with ⟨bond, _, h⟩
          bind_at h with ⟨m1, h6, h⟩
          obtain ⟨e1, e2, e3⟩ := updateBondOrder_shape h6
          obtain ⟨g1, g2, g3⟩ := ih _ _ _ h (hA.of_like e1 e2 e3)
          exact ⟨g1, g2.trans e1, g3.trans e2⟩
        · bind_at h with ⟨lp, _, h⟩
          bind_at h with ⟨rp, _, h⟩
          bind_at h with ⟨m1, h7, h⟩
          bind_at h with ⟨rp', _, h⟩
          obtain ⟨e1, e2, e3⟩ := addRingBond_shape h7
          obtain ⟨g1, g2, g3⟩ := ih _ _ _ h (hA.of_like e1 e2 e3)
          exact ⟨g1, g2.trans e1, g3.trans e2⟩

end SV
