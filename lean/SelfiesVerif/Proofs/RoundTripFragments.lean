/-
  C03: from trees to whole SELFIES strings.  Tokenisation of the encoder's output, the derive
  phase on every fragment (`deriveFragments`), the closed form `chainMol` of its result, and the
  node-level hypotheses from the forest-level ones.
-/
import SelfiesVerif.Proofs.RoundTripDecode
import SelfiesVerif.Proofs.RoundTripForest

namespace SV

/-! ### every emitted symbol is a bracketed symbol other than `[nop]` -/

theorem Items.encRings_symbols (i : Nat) : ∀ (its : Items),
    (∀ r ∈ its.rings, okOrder2 r.2.1 ∧ okStereo r.2.2.1 ∧ okStereo r.2.2.2) →
    its.spanOK i = true → ∀ x ∈ its.encRings i, IsSymbol x ∧ x ≠ nopSym
  | .nil, _, _ => by simp [Items.encRings]
  | .child _ _ _ rest, hr, hsp => by
    simp only [Items.spanOK, Bool.and_eq_true] at hsp
    simp only [Items.encRings]
    exact Items.encRings_symbols i rest (fun r h => hr r (by simpa [Items.rings] using h)) hsp.1.2
  | .ring p o s s' rest, hr, hsp => by
    simp only [Items.spanOK, Bool.and_eq_true, Bool.or_eq_true, decide_eq_true_eq] at hsp
    have ih := Items.encRings_symbols i rest (fun r h => hr r (by simp [Items.rings, h])) hsp.2
    simp only [Items.encRings]
    split
    · exact ih
    · rename_i hip
      obtain ⟨ho, hs, hs'⟩ := hr (p, o, s, s') (by simp [Items.rings])
      obtain ⟨hidx, sym, hsym, _, _, h1, h2⟩ :=
        ringSyms_facts i p o s s' ho hs hs' (hsp.1.resolve_left hip)
      intro x hx
      rw [hsym] at hx
      rcases List.mem_append.1 hx with hx | hx
      · rcases List.mem_cons.1 hx with rfl | hx
        · exact ⟨h1, h2⟩
        · exact hidx.syms x hx
      · exact ih x hx

mutual
theorem Tree.encode_symbols (T : Table) : ∀ (t : Tree) (into : Option PBond),
    (∀ n ∈ t.nodes into, NodeDecOK T n) → t.spanOK = true →
    (∀ b, into = some b → okOrder2 b.order2) →
    ∀ x ∈ t.encode into, IsSymbol x ∧ x ≠ nopSym
  | .node i a its, into, hn, hsp, hb => by
    simp only [Tree.nodes] at hn
    simp only [Tree.spanOK] at hsp
    have hn0 := hn ⟨into, i, a, its⟩ List.mem_cons_self
    have facts := atomSym_facts T into a hn0.wf hn0.arom hb hn0.cap
    have hrow : ∀ b ∈ its.row i, okOrder2 b.order2 ∧ okStereo b.stereo := hn0.orders
    intro x hx
    simp only [Tree.encode, List.mem_cons, List.mem_append] at hx
    rcases hx with rfl | hx | hx
    · exact ⟨facts.isSym, facts.notNop⟩
    · refine Items.encRings_symbols i its ?_ hsp x hx
      intro r hr
      obtain ⟨p, o, s, s'⟩ := r
      have := hrow _ (Items.mem_rings_row i its p o s s' hr)
      exact ⟨this.1, this.2, hn0.sThere _ hr⟩
    · exact Items.encKids_symbols T its i (fun n hn' => hn n (List.mem_cons_of_mem _ hn')) hsp
        (fun b hb' => (hrow b (Items.kidRow_sub_row i its b hb')).1) x hx
theorem Items.encKids_symbols (T : Table) : ∀ (its : Items) (i : Nat),
    (∀ n ∈ its.nodes i, NodeDecOK T n) → its.spanOK i = true →
    (∀ b ∈ its.kidRow i, okOrder2 b.order2) →
    ∀ x ∈ its.encKids i, IsSymbol x ∧ x ≠ nopSym
  | .nil, _, _, _, _ => by simp [Items.encKids]
  | .ring _ _ _ _ rest, i, hn, hsp, hb => by
    simp only [Items.spanOK, Bool.and_eq_true] at hsp
    simp only [Items.encKids]
    exact Items.encKids_symbols T rest i hn hsp.2 hb
  | .child o s t rest, i, hn, hsp, hb => by
    simp only [Items.spanOK, Bool.and_eq_true, Bool.or_eq_true, Bool.not_eq_true',
      decide_eq_true_eq] at hsp
    obtain ⟨⟨htsp, hrsp⟩, hblen⟩ := hsp
    simp only [Items.nodes] at hn
    have hbo : okOrder2 o := hb (chainBond i t.idx o s) (by simp [Items.kidRow])
    have iht := Tree.encode_symbols T t (some (chainBond i t.idx o s))
      (fun n hn' => hn n (List.mem_append_left _ hn')) htsp (by intro b hb'; cases hb'; exact hbo)
    have ihr := Items.encKids_symbols T rest i (fun n hn' => hn n (List.mem_append_right _ hn')) hrsp
      (fun b hb' => hb b (by simp [Items.kidRow, hb']))
    simp only [Items.encKids]
    split
    · rename_i hk
      obtain ⟨hidx, sym, hsym, _, _, h1, h2⟩ :=
        branchSyms_facts (chainBond i t.idx o s) (t.encode (some (chainBond i t.idx o s))).length hbo
          (by rcases hblen with h | h
              · rw [hk] at h; cases h
              · exact h)
      intro x hx
      rw [hsym] at hx
      simp only [List.cons_append, List.mem_cons, List.mem_append] at hx
      rcases hx with rfl | (hx | hx) | hx
      · exact ⟨h1, h2⟩
      · exact hidx.syms x hx
      · exact iht x hx
      · exact ihr x hx
    · exact iht
end

/-! ### tokenisation -/

theorem filter_nop_id (syms : List Str) (h : ∀ x ∈ syms, x ≠ nopSym) :
    syms.filter (· != nopSym) = syms := by
  apply List.filter_eq_self.2
  intro x hx
  simpa using h x hx

theorem tokenizeFragment_encode (syms : List Str) (h : ∀ x ∈ syms, IsSymbol x ∧ x ≠ nopSym) :
    tokenizeFragment syms.flatten = mkS (tk 0 syms) := by
  rw [tokenizeFragment_symbols (fun s hs => (h s hs).1), specStream]
  simp only [filter_nop_id syms (fun x hx => (h x hx).2), mkS, tk_eq_zip]

theorem splitOnChar_single (sep : Char) (a : Str) (h : sep ∉ a) : splitOnChar sep a = [a] := by
  have := splitOnChar_nosep sep a [] h
  simpa [splitOnChar] using this

theorem splitOnChar_joinWith_dots : ∀ (frs : List Str), frs ≠ [] → (∀ fr ∈ frs, '.' ∉ fr) →
    splitOnChar '.' (joinWith ['.'] frs) = frs
  | [], h, _ => absurd rfl h
  | [x], _, h => by simpa [joinWith] using splitOnChar_single '.' x (h x List.mem_cons_self)
  | x :: y :: rest, _, h => by
    have ih := splitOnChar_joinWith_dots (y :: rest) (by simp) (fun fr hfr => h fr (List.mem_cons_of_mem _ hfr))
    simp only [joinWith, List.append_assoc, List.singleton_append]
    rw [splitOnChar_nosep '.' x _ (h x List.mem_cons_self), splitOnChar_sep, ih]
    simp

theorem flatten_no_dot (syms : List Str) (h : ∀ x ∈ syms, IsSymbol x) : '.' ∉ syms.flatten := by
  intro hm
  obtain ⟨x, hx, hd⟩ := List.mem_flatten.1 hm
  exact symbol_no_dot (h x hx) hd

/-! ### the molecule after the derive phase -/

/-- the molecule the derive phase builds: all atoms, chain bonds only -/
def chainMol (f : PForest) : Mol :=
  { atoms := f.nodes.map (·.atom), roots := f.map Tree.idx, adj := f.nodes.map NodeInfo.chainRow,
    counts := f.nodes.map NodeInfo.chainCount, atomAttr := f.nodes.map fun _ => none }

/-- the ring requests queued during the derive phase, in order -/
def ringQueue (f : PForest) : List RingReq := f.nodes.flatMap NodeInfo.ringReqs

def growForest (m : Mol) : List Tree → Mol
  | [] => m
  | t :: ts => growForest ((m.enter none).grow (t.nodes none)) ts

theorem growForest_closed : ∀ (ts : List Tree) (m : Mol),
    (ts.flatMap (Tree.nodes none)).map (·.idx)
      = List.range' m.atoms.length (ts.flatMap (Tree.nodes none)).length →
    growForest m ts =
      { atoms := m.atoms ++ (ts.flatMap (Tree.nodes none)).map (·.atom),
        roots := m.roots ++ ts.map Tree.idx,
        adj := m.adj ++ (ts.flatMap (Tree.nodes none)).map NodeInfo.chainRow,
        counts := m.counts ++ (ts.flatMap (Tree.nodes none)).map NodeInfo.chainCount,
        atomAttr := m.atomAttr ++ (ts.flatMap (Tree.nodes none)).map fun _ => none }
  | [], m, _ => by simp [growForest]
  | t :: ts, m, h => by
    simp only [List.flatMap_cons] at h
    obtain ⟨h1, h2⟩ := numbered_append h
    have hroot : t.idx = m.atoms.length := by
      cases t with
      | node i a its =>
        simp only [Tree.nodes] at h1
        exact (numbered_cons h1).1
    simp only [growForest]
    rw [growForest_closed ts _ (by rw [Mol.grow_atoms_length, Mol.enter_atoms]; exact h2)]
    simp [Mol.grow, Mol.enter, hroot]

theorem growForest_empty (f : PForest) (h : f.nodes.map (·.idx) = List.range f.nodes.length) :
    growForest {} f = chainMol f := by
  rw [growForest_closed f {} (by rw [List.range_eq_range'] at h; exact h)]
  simp [chainMol, PForest.nodes]

/-! ### the derive phase on all fragments -/

structure TreeDecOK (T : Table) (t : Tree) : Prop where
  nodes : ∀ n ∈ t.nodes none, NodeDecOK T n
  span : t.spanOK = true
  depth : t.bdepth + 1 < recursionBudget

theorem deriveFragments_forest (T : Table) : ∀ (ts : List Tree) (m : Mol) (rings : List RingReq)
    (ai : Nat), (∀ t ∈ ts, TreeDecOK T t) → MolLen m →
    (ts.flatMap (Tree.nodes none)).map (·.idx)
      = List.range' m.atoms.length (ts.flatMap (Tree.nodes none)).length →
    deriveFragments T false false (ts.map fun t => (t.encode none).flatten) m rings ai
      = .ok (growForest m ts, rings ++ (ts.flatMap (Tree.nodes none)).flatMap NodeInfo.ringReqs)
  | [], m, rings, ai, _, _, _ => by simp [deriveFragments, growForest]
  | t :: ts, m, rings, ai, hok, hl, hnum => by
    have ht := hok t List.mem_cons_self
    simp only [List.flatMap_cons] at hnum
    obtain ⟨h1, h2⟩ := numbered_append hnum
    have hsyms := Tree.encode_symbols T t none ht.nodes ht.span (by intro b hb; cases hb)
    simp only [List.map_cons, deriveFragments, tokenizeFragment_encode _ hsyms]
    have hlen : (mkS (tk 0 (t.encode none))).toks.length = (t.encode none).length := by
      simp [mkS, tk_eq_zip]
    rw [hlen]
    have := dec_tree T ai t none ((t.encode none).length + 1) 0 0 [] m rings none 0 0 none
      (Nat.le_refl _) (by have := ht.depth; omega) ht.nodes ht.span h1 hl rfl (Or.inr ⟨rfl, rfl⟩)
    simp only [List.append_nil, Nat.zero_add] at this
    simp only [Bool.false_eq_true, if_false, this, bind, Except.bind]
    rw [deriveFragments_forest T ts _ _ _ (fun t' ht' => hok t' (List.mem_cons_of_mem _ ht'))
      ((hl.enter none).grow _) (by rw [Mol.grow_atoms_length, Mol.enter_atoms]; exact h2)]
    simp [growForest, List.flatMap_append]

/-! ### node-level hypotheses from the forest-level ones -/

theorem Items.need_le (i : Nat) : ∀ its : Items,
    2 * (its.ringNeed i + its.kidNeed) ≤ ((its.row i).map (·.order2)).sum
  | .nil => by simp [Items.ringNeed, Items.kidNeed, Items.row]
  | .ring p o s s' rest => by
    have := Items.need_le i rest
    simp only [Items.ringNeed, Items.kidNeed, Items.row, ringBond, List.map_cons, List.sum_cons]
    split <;> omega
  | .child o s t rest => by
    have := Items.need_le i rest
    simp only [Items.ringNeed, Items.kidNeed, Items.row, chainBond, List.map_cons, List.sum_cons]
    omega

theorem nodeDecOK_of_ready {T : Table} {f : PForest} (hwf : f.wf = true) (hk : f.kekulized = true)
    (ha : f.atomsOK = true) (ho : f.obeys T = true) {n : NodeInfo} (hn : n ∈ f.nodes) :
    NodeDecOK T n := by
  obtain ⟨_, hsimple, _⟩ := PForest.wf_parts hwf
  obtain ⟨harom, hrow, hst⟩ := PForest.kekulized_node hk hn
  have hwfb : n.atom.wfb = true := by
    unfold PForest.atomsOK at ha
    exact List.all_eq_true.1 ha n hn
  have hob : (n.count2 : Int) ≤ 2 * n.atom.bondingCapacity T := by
    unfold PForest.obeys at ho
    simpa using List.all_eq_true.1 ho n hn
  have hneed := Items.need_le n.idx n.items
  have hinto : 2 * n.intoOrder ≤ n.intoOrder2 := by
    unfold NodeInfo.intoOrder NodeInfo.intoOrder2
    cases n.into <;> simp <;> omega
  have hc2 : n.count2 = n.intoOrder2 + ((n.items.row n.idx).map (·.order2)).sum := rfl
  refine ⟨hwfb, harom, hrow, hst, ?_, by omega, by omega⟩
  intro r hr
  obtain ⟨p, o, s, s'⟩ := r
  exact (PForest.simple_node hsimple hn).2 _ (Items.mem_rings_row n.idx n.items p o s s' hr)

theorem PForest.ready_parts {T : Table} {f : PForest} (h : f.ready T = true) :
    f.wf = true ∧ f.kekulized = true ∧ f.atomsOK = true ∧ f.obeys T = true
      ∧ (∀ t ∈ f, t.spanOK = true) ∧ (∀ t ∈ f, t.bdepth + 1 < recursionBudget) := by
  unfold PForest.ready at h
  simp only [Bool.and_eq_true, List.all_eq_true, decide_eq_true_eq] at h
  obtain ⟨⟨⟨⟨⟨h1, h2⟩, h3⟩, h4⟩, h5⟩, h6⟩ := h
  exact ⟨h1, h2, h3, h4, h5, h6⟩

theorem treeDecOK_of_ready {T : Table} {f : PForest} (h : f.ready T = true) {t : Tree} (ht : t ∈ f) :
    TreeDecOK T t := by
  obtain ⟨h1, h2, h3, h4, h5, h6⟩ := PForest.ready_parts h
  exact ⟨fun n hn => nodeDecOK_of_ready h1 h2 h3 h4 (mem_nodes_of_mem_forest ht hn), h5 t ht, h6 t ht⟩

/-! ### `decodeGraph` up to the ring phase -/

theorem decodeGraph_derive {T : Table} {f : PForest} (h : f.ready T = true) (hne : f ≠ []) :
    decodeGraph T f.encode
      = formRings T (ringQueue f) (chainMol f) (List.replicate f.nodes.length 0) := by
  obtain ⟨hwf, _, _, _, _, _⟩ := PForest.ready_parts h
  obtain ⟨hnum, _, _⟩ := PForest.wf_parts hwf
  have hsyms : ∀ t ∈ f, ∀ x ∈ t.encode none, IsSymbol x ∧ x ≠ nopSym := fun t ht =>
    Tree.encode_symbols T t none (treeDecOK_of_ready h ht).nodes (treeDecOK_of_ready h ht).span
      (by intro b hb; cases hb)
  have hsplit : splitOnChar '.' f.encode = f.map fun t => (t.encode none).flatten := by
    unfold PForest.encode
    apply splitOnChar_joinWith_dots
    · simpa using hne
    · intro fr hfr
      obtain ⟨t, ht, rfl⟩ := List.mem_map.1 hfr
      exact flatten_no_dot _ (fun x hx => (hsyms t ht x hx).1)
  unfold decodeGraph
  rw [hsplit, deriveFragments_forest T f {} [] 0 (fun t ht => treeDecOK_of_ready h ht) ⟨rfl, rfl⟩
    (by rw [List.range_eq_range'] at hnum; exact hnum)]
  simp only [bind, Except.bind, List.nil_append]
  rw [growForest_empty f hnum]
  simp [ringQueue, chainMol, Mol.size, PForest.nodes]

end SV
