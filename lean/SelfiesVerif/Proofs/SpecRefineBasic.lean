/-
  C02, part 1 of the refinement proof: the token stream read with `compat = false`
  (`Stream.next`, `readIndex`, `consumeRest`) in closed form over the plain list of symbols,
  the count-up / count-down budget correspondence, and the symbol dispatch.
-/
import SelfiesVerif.Spec.Derivation
import SelfiesVerif.Proofs.DeriveLoop
import SelfiesVerif.Props.C16

namespace SV
open SV.Spec

/-! ### budgets -/

/-- the count-down budget that corresponds to `n_derived` out of `max_derive` -/
def bud (md : Option Nat) (nd : Nat) : Option Nat := md.map (· - nd)

theorem underBudget_iff (md : Option Nat) (nd : Nat) :
    underBudget md nd = true ↔ bud md nd ≠ some 0 := by
  cases md with
  | none => simp [underBudget, bud]
  | some M => simp [underBudget, bud]; omega

theorem bud_add (md : Option Nat) (nd k : Nat) : bud md (nd + k) = spend (bud md nd) k := by
  cases md with
  | none => rfl
  | some M => simp [bud, spend]; omega

theorem spend_spend (b : Option Nat) (j k : Nat) : spend (spend b j) k = spend b (j + k) := by
  cases b with
  | none => rfl
  | some M => simp [spend]; omega

/-- would reading to the end of the budget run past `len` remaining symbols? -/
def needsMore : Option Nat → Nat → Bool
  | none, _ => true
  | some k, len => len < k

theorem skip_map {α β : Type} (f : α → β) (b : Option Nat) (l : List α) :
    skip b (l.map f) = (skip b l).map f := by
  cases b with
  | none => rfl
  | some k => simp [skip, List.map_drop]

theorem skip_length_le {α : Type} (b : Option Nat) (l : List α) : (skip b l).length ≤ l.length := by
  cases b with
  | none => simp [skip]
  | some k => simp [skip]

/-! ### the stream -/

theorem next_nil {s : Stream} (h : s.toks = []) :
    s.next false = if s.hanging then .error .DecoderError else .ok none := by
  unfold Stream.next; rw [h]

theorem next_cons {s : Stream} {t : Nat × Str} {rest} (h : s.toks = t :: rest) :
    s.next false = .ok (some (t, { s with toks := rest })) := by
  unfold Stream.next; rw [h]; rfl

theorem indexSymbols_nil (n : Nat) : indexSymbols n [] = List.replicate n none := by
  simp [indexSymbols]

theorem indexSymbols_cons (n : Nat) (x : Str) (l : List Str) :
    indexSymbols (n + 1) (x :: l) = some x :: indexSymbols n l := by
  simp [indexSymbols]

theorem readIndex_eq : ∀ (n : Nat) (s : Stream) (acc : List (Option Str)) (k : Nat),
    readIndex false n s acc k =
      if s.hanging = true ∧ s.toks.length < n then .error .DecoderError
      else .ok (getIndexFromSelfies (acc ++ indexSymbols n (s.toks.map (·.2))),
                k + min n s.toks.length, { s with toks := s.toks.drop n }) := by
  intro n
  induction n with
  | zero =>
    intro s acc k
    simp [readIndex, indexSymbols]
  | succ n ih =>
    intro s acc k
    unfold readIndex
    cases htoks : s.toks with
    | nil =>
      rw [next_nil htoks]
      cases hh : s.hanging with
      | true => simp [bind, Except.bind]
      | false =>
        simp only [bind, Except.bind, Bool.false_eq_true, if_false]
        rw [ih, hh, htoks]
        simp [indexSymbols_nil, List.replicate_succ]
    | cons t rest =>
      rw [next_cons htoks]
      simp only [bind, Except.bind]
      rw [ih]
      simp only [List.map_cons, indexSymbols_cons, List.length_cons, List.drop_succ_cons,
        Nat.add_lt_add_iff_right, List.append_assoc, List.singleton_append]
      split
      · rfl
      · have : k + 1 + min n rest.length = k + min (n + 1) (rest.length + 1) := by omega
        rw [this]

theorem indexValue_eq (n : Nat) (syms : List Str) :
    getIndexFromSelfies (indexSymbols n syms) = indexValue n syms := by
  rw [C16_horner]; rfl

theorem consumeRest_eq : ∀ (fuel : Nat) (s : Stream) (md : Option Nat) (nd : Nat),
    s.toks.length < fuel →
    consumeRest false fuel s md nd =
      if s.hanging = true ∧ needsMore (bud md nd) s.toks.length = true then .error .DecoderError
      else .ok ({ s with toks := skip (bud md nd) s.toks },
                nd + (s.toks.length - (skip (bud md nd) s.toks).length)) := by
  intro fuel
  induction fuel with
  | zero => intro s md nd h; omega
  | succ fuel ih =>
    intro s md nd hlen
    unfold consumeRest
    by_cases hub : underBudget md nd = true
    · rw [if_pos hub]
      have hb := (underBudget_iff md nd).mp hub
      cases htoks : s.toks with
      | nil =>
        rw [next_nil htoks]
        have hnm : needsMore (bud md nd) 0 = true := by
          cases hbb : bud md nd with
          | none => rfl
          | some k =>
            rw [hbb] at hb
            simp only [needsMore, decide_eq_true_eq]
            cases k with
            | zero => exact absurd rfl hb
            | succ k => omega
        cases hh : s.hanging with
        | true => simp [bind, Except.bind, hnm]
        | false =>
          simp only [bind, Except.bind, pure, Except.pure, Bool.false_eq_true, if_false, false_and]
          have : skip (bud md nd) ([] : List (Nat × Str)) = [] := by
            cases bud md nd <;> simp [skip]
          rw [this]
          cases s
          simp_all
      | cons t rest =>
        rw [next_cons htoks]
        simp only [bind, Except.bind]
        rw [htoks] at hlen
        rw [ih _ md (nd + 1) (by simpa using hlen), bud_add]
        have h1 : needsMore (spend (bud md nd) 1) rest.length = needsMore (bud md nd) (rest.length + 1) := by
          cases hbb : bud md nd with
          | none => rfl
          | some k =>
            rw [hbb] at hb
            simp only [spend, Option.map, needsMore]
            cases k with
            | zero => exact absurd rfl hb
            | succ k => simp
        have h2 : skip (spend (bud md nd) 1) rest = skip (bud md nd) (t :: rest) := by
          cases hbb : bud md nd with
          | none => rfl
          | some k =>
            rw [hbb] at hb
            simp only [spend, Option.map, skip]
            cases k with
            | zero => exact absurd rfl hb
            | succ k => simp
        simp only [h1, h2, List.length_cons]
        split
        · rfl
        · have := skip_length_le (spend (bud md nd) 1) rest
          rw [h2] at this
          have e : nd + 1 + (rest.length - (skip (bud md nd) (t :: rest)).length)
              = nd + (rest.length + 1 - (skip (bud md nd) (t :: rest)).length) := by omega
          rw [e]
    · rw [if_neg hub]
      have hb : bud md nd = some 0 := by
        cases md with
        | none => simp [underBudget] at hub
        | some M => simp [underBudget] at hub; simp [bud]; omega
      rw [hb]
      simp [needsMore, skip, pure, Except.pure]

end SV
