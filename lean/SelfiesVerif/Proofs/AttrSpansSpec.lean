/-
  `walk` is `Spec.derive` with the molecule erased: on the same arguments (and a current atom
  whenever the state is `> 0`, which `Spec.derive` itself maintains) a successful `Spec.derive`
  leaves exactly the symbols `walk` leaves, and adds exactly one atom per entry of `walk`'s `made`.
-/
import SelfiesVerif.Proofs.AttrSpans
import SelfiesVerif.Proofs.SpecRefineDerive

namespace SV
open SV.Spec

theorem walk_derive (T : Table) : ∀ (fuel : Nat) (b : Option Nat) (i : Nat) (prev : Option Nat)
    (syms : List Str) (ds : DS) (pos : Nat) (res : List Str × DS),
    (0 < i → ∃ p, prev = some p) → derive T fuel b i prev syms ds = .ok res →
    (walk T fuel b i pos syms).left = res.1 ∧
    res.2.mol.atoms.length = ds.mol.atoms.length + (walk T fuel b i pos syms).made.length := by
  intro fuel
  induction fuel with
  | zero =>
    intro b i prev syms ds pos res _ h
    simp only [derive] at h
    cases h
    exact ⟨rfl, rfl⟩
  | succ f ih =>
    intro b i prev syms ds pos res hprev h
    by_cases hb : b = some 0
    · subst hb
      rw [derive_stop] at h; cases h
      rw [walk_stop]; exact ⟨rfl, rfl⟩
    cases syms with
    | nil =>
      rw [derive_nil hb] at h; cases h
      rw [walk_nil hb]; exact ⟨rfl, rfl⟩
    | cons s rest =>
      cases hc : classify T s with
      | invalid => rw [derive_invalid hb hc] at h; cases h
      | epsilon =>
        by_cases hi : i = 0
        · subst hi
          rw [derive_eps0 hb hc] at h
          rw [walk_eps0 hb hc]
          exact ih _ _ _ _ _ _ _ (fun h0 => absurd h0 (Nat.lt_irrefl 0)) h
        · rw [derive_eps hb hc hi] at h; cases h
          rw [walk_eps hb hc hi]; exact ⟨rfl, rfl⟩
      | branch m l =>
        by_cases hi : i ≤ 1
        · rw [derive_branch_skip hb hc hi] at h
          rw [walk_branch_skip hb hc hi]
          exact ih _ _ _ _ _ _ _ hprev h
        · cases hn : derive T f (some (indexValue l rest + 1)) (min (i - 1) m) prev (rest.drop l) ds with
          | error e => rw [derive_branch_err hb hc hi hn] at h; cases h
          | ok r1 =>
            obtain ⟨after, ds1⟩ := r1
            rw [derive_branch_ok hb hc hi hn] at h
            rw [walk_branch hb hc hi]
            dsimp only
            obtain ⟨a1, a2⟩ := ih _ _ _ _ _ (pos + 1 + min l rest.length) _ (fun _ => hprev (by omega)) hn
            simp only at a1 a2
            rw [a1]
            obtain ⟨c1, c2⟩ := ih _ _ _ _ _
              (pos + 1 + min l rest.length + ((rest.drop l).length - after.length)) _
              (fun _ => hprev (by omega)) h
            refine ⟨c1, ?_⟩
            rw [c2, a2, List.length_append]
            omega
      | ring β l ls rs =>
        by_cases hi : i = 0
        · subst hi
          rw [derive_ring_skip hb hc] at h
          rw [walk_ring_skip hb hc]
          exact ih _ _ _ _ _ _ _ (fun h0 => absurd h0 (Nat.lt_irrefl 0)) h
        · obtain ⟨p, rfl⟩ := hprev (by omega)
          rw [derive_ring hb hc hi] at h
          rw [walk_ring hb hc hi]
          dsimp only at h
          split
          · rename_i hz
            rw [if_pos hz] at h; cases h
            exact ⟨rfl, rfl⟩
          · rename_i hz
            rw [if_neg hz] at h
            have c := ih _ _ _ _ _ (pos + 1 + min l rest.length) _ (fun _ => ⟨p, rfl⟩) h
            exact c
      | atom β mark x =>
        by_cases hi : i = 0
        · subst hi
          rw [derive_root hb hc] at h
          rw [walk_root hb hc]
          split
          · rename_i hz
            rw [if_pos hz] at h; cases h
            exact ⟨rfl, by simp [Walk.cons, Build.addRoot]⟩
          · rename_i hz
            rw [if_neg hz] at h
            obtain ⟨c1, c2⟩ := ih _ _ _ _ _ (pos + 1) _ (fun _ => ⟨_, rfl⟩) h
            refine ⟨c1, ?_⟩
            rw [c2]
            simp only [Walk.cons, Build.addRoot, List.length_append, List.length_cons, List.length_nil]
            omega
        · by_cases hμ : min β (min i (cap T x)) = 0
          · rw [derive_atom_none hb hc hi hμ] at h; cases h
            rw [walk_atom_none hb hc hi hμ]; exact ⟨rfl, rfl⟩
          · obtain ⟨p, rfl⟩ := hprev (by omega)
            rw [derive_atom hb hc hi hμ] at h
            rw [walk_atom hb hc hi hμ]
            dsimp only at h
            split
            · rename_i hz
              rw [if_pos hz] at h; cases h
              exact ⟨rfl, by simp [Walk.cons, Build.addChained]⟩
            · rename_i hz
              rw [if_neg hz] at h
              obtain ⟨c1, c2⟩ := ih _ _ _ _ _ (pos + 1) _ (fun _ => ⟨_, rfl⟩) h
              refine ⟨c1, ?_⟩
              rw [c2]
              simp only [Walk.cons, Build.addChained, List.length_append, List.length_cons, List.length_nil]
              omega

/-- fragment after fragment: the documented derivation makes as many atoms as `walkAll` lists -/
theorem walkAll_deriveAll (T : Table) : ∀ (frags : List (List Str)) (ds ds' : DS) (pos : Nat),
    deriveAll T frags ds = .ok ds' →
    ds'.mol.atoms.length = ds.mol.atoms.length + (walkAll T frags pos).made.length
  | [], ds, ds', pos, h => by
    simp only [deriveAll] at h
    cases h; rfl
  | syms :: more, ds, ds', pos, h => by
    simp only [deriveAll] at h
    split at h
    · cases h
    · rename_i left ds1 h1
      obtain ⟨_, c2⟩ := walk_derive T _ _ _ _ _ _ pos _ (fun h0 => absurd h0 (Nat.lt_irrefl 0)) h1
      have := walkAll_deriveAll T more ds1 ds' (pos + syms.length) h
      simp only [walkAll, List.length_append]
      simp only at c2
      omega

end SV
