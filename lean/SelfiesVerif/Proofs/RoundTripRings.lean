/-
  C03: the ring phase.  `formRings` on a queue of ring requests that fit (no clipping, no
  existing bond) inserts, for every request, one record at each end, behind the ring records
  made before and in front of the chain bonds.
-/
import SelfiesVerif.Proofs.RoundTripMol

namespace SV

/-- the record request `q` leaves at atom `i` -/
def recAt (i : Nat) (q : RingReq) : List DirBond :=
  if q.1 = i then [{ src := i, dst := q.2.1, order := q.2.2.1, stereo := q.2.2.2.1, ring := true }]
  else if q.2.1 = i then [{ src := i, dst := q.1, order := q.2.2.1, stereo := q.2.2.2.2, ring := true }]
  else []

/-- the ring records of atom `i` after the requests `P`, in formation order -/
def ringRecs (P : List RingReq) (i : Nat) : List DirBond := P.flatMap (recAt i)

theorem ringRecs_append (P Q : List RingReq) (i : Nat) :
    ringRecs (P ++ Q) i = ringRecs P i ++ ringRecs Q i := by simp [ringRecs]

/-- the molecule after the requests `P` -/
def ringState (base : Mol) (P : List RingReq) : Mol :=
  { base with
    adj := (List.range base.atoms.length).map fun k => ringRecs P k ++ base.adj.getD k []
    counts := (List.range base.atoms.length).map fun k => base.counts.getD k 0 + ordSum (ringRecs P k) }

def ringsMadeAfter (n : Nat) (P : List RingReq) : List Nat :=
  (List.range n).map fun k => (ringRecs P k).length

structure RingsGood (T : Table) (base : Mol) (R : List RingReq) : Prop where
  lt : ∀ q ∈ R, q.1 < q.2.1 ∧ q.2.1 < base.atoms.length ∧ 1 ≤ q.2.2.1
  pairs : (R.map fun q => (q.1, q.2.1)).Nodup
  nochain : ∀ q ∈ R, ∀ b ∈ base.adj.getD q.1 [], b.dst ≠ q.2.1
  cap : ∀ (k : Nat) (a : Atom), base.atoms[k]? = some a →
    ((base.counts.getD k 0 + ordSum (ringRecs R k) : Nat) : Int) ≤ a.bondingCapacity T

/-! ### list helpers -/

theorem map_range_set {α} (n l : Nat) (g g' : Nat → α) (hl : l < n) (h : ∀ k, k ≠ l → g' k = g k) :
    ((List.range n).map g).set l (g' l) = (List.range n).map g' := by
  apply List.ext_getElem?
  intro j
  rw [List.getElem?_set]
  by_cases hj : j < n
  · simp only [List.length_map, List.length_range, List.getElem?_map, List.getElem?_range hj,
      Option.map_some]
    by_cases hlj : l = j
    · subst hlj; simp [hl]
    · simp only [hlj, if_false]; rw [h j (Ne.symm hlj)]
  · have h1 : ((List.range n).map g')[j]? = none := by simp; omega
    have h2 : ((List.range n).map g)[j]? = none := by simp; omega
    rw [h1, h2]
    have : l ≠ j := by omega
    simp [this]

theorem getElem?_map_range {α} (n k : Nat) (g : Nat → α) (hk : k < n) :
    ((List.range n).map g)[k]? = some (g k) := by
  simp [hk]

theorem insertAt_append {α} (b : α) : ∀ (a c : List α), insertAt (a ++ c) a.length b = a ++ b :: c
  | [], c => by cases c <;> rfl
  | x :: a, c => by
    simp only [List.cons_append, List.length_cons, insertAt]
    rw [insertAt_append b a c]

theorem addBondAtLoc_front (adj : List (List DirBond)) (b : DirBond) (pre post : List DirBond)
    (h : adj[b.src]? = some (pre ++ post)) :
    Mol.addBondAtLoc adj b pre.length = .ok (adj.set b.src (pre ++ b :: post)) := by
  unfold Mol.addBondAtLoc
  rw [h]
  simp only
  cases post with
  | nil => simp
  | cons x post =>
    have h1 : (pre.length == (pre ++ x :: post).length) = false := by simp
    have h2 : pre.length < (pre ++ x :: post).length := by simp
    simp only [h1, Bool.false_eq_true, if_false, h2, if_true, insertAt_append]

/-! ### one request -/

theorem ringRecs_dst_ne {R : List RingReq} {T : Table} {base : Mol} (hg : RingsGood T base R)
    {P S : List RingReq} {q : RingReq} (hR : R = P ++ q :: S) :
    ∀ b ∈ ringRecs P q.1, b.dst ≠ q.2.1 := by
  intro b hb hd
  unfold ringRecs at hb
  obtain ⟨q', hq', hb⟩ := List.mem_flatMap.1 hb
  have hq'R : q' ∈ R := by rw [hR]; exact List.mem_append_left _ hq'
  have hqR : q ∈ R := by rw [hR]; simp
  unfold recAt at hb
  split at hb
  · rename_i h1
    simp only [List.mem_singleton] at hb
    subst hb
    simp only at hd
    -- same pair twice
    have hp := hg.pairs
    rw [hR, List.map_append, List.map_cons] at hp
    have := (List.nodup_append.1 hp).2.2 (q'.1, q'.2.1) (List.mem_map.2 ⟨q', hq', rfl⟩)
      (q.1, q.2.1) (by simp)
    exact this (by rw [h1, hd])
  · split at hb
    · rename_i h1 h2
      simp only [List.mem_singleton] at hb
      subst hb
      simp only at hd
      have := (hg.lt q' hq'R).1
      have := (hg.lt q hqR).1
      omega
    · cases hb

theorem ordSum_recs_le {R P S : List RingReq} {q : RingReq} (hR : R = P ++ q :: S) (k : Nat) :
    ordSum (ringRecs P k) + ordSum (recAt k q) ≤ ordSum (ringRecs R k) := by
  rw [hR, ringRecs_append]
  simp only [ringRecs, List.flatMap_cons, ordSum_append]
  omega

theorem formRings_sim (T : Table) (base : Mol) (hl : MolLen base) (R : List RingReq)
    (hg : RingsGood T base R) : ∀ (S P : List RingReq), R = P ++ S →
    formRings T S (ringState base P) (ringsMadeAfter base.atoms.length P)
      = .ok (ringState base R)
  | [], P, hR => by simp [formRings, hR]
  | (l, r, (o, (sl, sr))) :: S, P, hR => by
    have hq : ((l, r, (o, (sl, sr))) : RingReq) ∈ R := by rw [hR]; simp
    obtain ⟨hlr, hrn, ho⟩ := hg.lt _ hq
    simp only at hlr hrn ho
    have hln : l < base.atoms.length := by omega
    have hne : (l == r) = false := by simp; omega
    obtain ⟨la, hla⟩ : ∃ a, base.atoms[l]? = some a := ⟨_, List.getElem?_eq_getElem hln⟩
    obtain ⟨ra, hra⟩ : ∃ a, base.atoms[r]? = some a := ⟨_, List.getElem?_eq_getElem hrn⟩
    have hcl := hg.cap l la hla
    have hcr := hg.cap r ra hra
    have hsl := ordSum_recs_le hR l
    have hsr := ordSum_recs_le hR r
    have hrecl : recAt l (l, r, (o, (sl, sr)))
        = [{ src := l, dst := r, order := o, stereo := sl, ring := true }] := by simp [recAt]
    have hrecr : recAt r (l, r, (o, (sl, sr)))
        = [{ src := r, dst := l, order := o, stereo := sr, ring := true }] := by
      have : l ≠ r := by omega
      simp [recAt, this]
    rw [hrecl] at hsl
    rw [hrecr] at hsr
    simp only [ordSum, List.map_cons, List.map_nil, List.sum_cons, List.sum_nil, Nat.add_zero] at hsl hsr
    rw [formRings.eq_2]
    have h1 : getIdx (ringState base P).atoms l = .ok la := by simp [ringState, getIdx, hla]
    have h2 : getIdx (ringState base P).atoms r = .ok ra := by simp [ringState, getIdx, hra]
    have h3 : getIdx (ringState base P).counts l
        = .ok (base.counts.getD l 0 + ordSum (ringRecs P l)) := by
      simp [ringState, getIdx, getElem?_map_range _ _ _ hln]
    have h4 : getIdx (ringState base P).counts r
        = .ok (base.counts.getD r 0 + ordSum (ringRecs P r)) := by
      simp [ringState, getIdx, getElem?_map_range _ _ _ hrn]
    have hfree : (decide (la.bondingCapacity T - ((base.counts.getD l 0 + ordSum (ringRecs P l) : Nat) : Int) ≤ 0)
        || decide (ra.bondingCapacity T - ((base.counts.getD r 0 + ordSum (ringRecs P r) : Nat) : Int) ≤ 0))
        = false := by
      simp only [Bool.or_eq_false_iff, ordSum] at hcl hcr ⊢
      constructor <;> (apply decide_eq_false; omega)
    have horder : (min (min (o : Int)
          (la.bondingCapacity T - ((base.counts.getD l 0 + ordSum (ringRecs P l) : Nat) : Int)))
          (ra.bondingCapacity T - ((base.counts.getD r 0 + ordSum (ringRecs P r) : Nat) : Int))).toNat = o := by
      simp only [ordSum] at hcl hcr ⊢
      omega
    have hadjl : (ringState base P).adj[l]? = some (ringRecs P l ++ base.adj.getD l []) := by
      simp [ringState, getElem?_map_range _ _ _ hln]
    have hadjr : (ringState base P).adj[r]? = some (ringRecs P r ++ base.adj.getD r []) := by
      simp [ringState, getElem?_map_range _ _ _ hrn]
    have hnb : (ringState base P).hasBond l r = false := by
      unfold Mol.hasBond
      dsimp only
      have e1 : min l r = l := by omega
      have e2 : max l r = r := by omega
      rw [e1, e2, hadjl]
      simp only [List.any_append, Bool.or_eq_false_iff, List.any_eq_false, beq_iff_eq]
      exact ⟨fun b hb => ringRecs_dst_ne hg hR b hb, fun b hb => hg.nochain _ hq b hb⟩
    have hml : getIdx (ringsMadeAfter base.atoms.length P) l = .ok (ringRecs P l).length := by
      simp [ringsMadeAfter, getIdx, getElem?_map_range _ _ _ hln]
    have hmr : getIdx (ringsMadeAfter base.atoms.length P) r = .ok (ringRecs P r).length := by
      simp [ringsMadeAfter, getIdx, getElem?_map_range _ _ _ hrn]
    have hmr' : getIdx ((ringsMadeAfter base.atoms.length P).set l ((ringRecs P l).length + 1)) r
        = .ok (ringRecs P r).length := by
      have : l ≠ r := by omega
      simp [ringsMadeAfter, getIdx, List.getElem?_set_ne this, getElem?_map_range _ _ _ hrn]
    -- the new molecule
    have hP' : ∀ k, ringRecs (P ++ [(l, r, (o, (sl, sr)))]) k
        = ringRecs P k ++ recAt k (l, r, (o, (sl, sr))) := by
      intro k; simp [ringRecs]
    have hother : ∀ k, k ≠ l → k ≠ r → recAt k (l, r, (o, (sl, sr))) = [] := by
      intro k h1 h2
      simp [recAt, Ne.symm h1, Ne.symm h2]
    have hadd : (ringState base P).addRingBond l r o sl sr (ringRecs P l).length (ringRecs P r).length
        = .ok (ringState base (P ++ [(l, r, (o, (sl, sr)))])) := by
      unfold Mol.addRingBond
      have a1 := addBondAtLoc_front (ringState base P).adj
        { src := l, dst := r, order := o, stereo := sl, ring := true } _ _ hadjl
      have hadjr' : ((ringState base P).adj.set l
          (ringRecs P l ++ { src := l, dst := r, order := o, stereo := sl, ring := true } :: base.adj.getD l []))[r]?
          = some (ringRecs P r ++ base.adj.getD r []) := by
        rw [List.getElem?_set_ne (by omega)]; exact hadjr
      have a2 := addBondAtLoc_front _
        { src := r, dst := l, order := o, stereo := sr, ring := true } _ _ hadjr'
      have c1 : Mol.addCount (ringState base P).counts l o
          = .ok ((ringState base P).counts.set l (base.counts.getD l 0 + ordSum (ringRecs P l) + o)) := by
        unfold Mol.addCount
        simp [ringState, getElem?_map_range _ _ _ hln]
      have c2 : Mol.addCount ((ringState base P).counts.set l (base.counts.getD l 0 + ordSum (ringRecs P l) + o)) r o
          = .ok (((ringState base P).counts.set l (base.counts.getD l 0 + ordSum (ringRecs P l) + o)).set r
              (base.counts.getD r 0 + ordSum (ringRecs P r) + o)) := by
        unfold Mol.addCount
        rw [List.getElem?_set_ne (by omega)]
        simp [ringState, getElem?_map_range _ _ _ hrn]
      simp only [a1, a2, c1, c2, bind, Except.bind, pure, Except.pure, Except.ok.injEq]
      simp only [ringState, Mol.mk.injEq, true_and, and_true]
      constructor
      · -- adjacency
        have s1 := map_range_set base.atoms.length l
          (fun k => ringRecs P k ++ base.adj.getD k [])
          (fun k => if k = l then ringRecs P l ++
              { src := l, dst := r, order := o, stereo := sl, ring := true } :: base.adj.getD l []
            else ringRecs P k ++ base.adj.getD k []) hln (by intro k hk; simp [hk])
        simp only [if_true] at s1
        rw [s1]
        have s2 := map_range_set base.atoms.length r
          (fun k => if k = l then ringRecs P l ++
              { src := l, dst := r, order := o, stereo := sl, ring := true } :: base.adj.getD l []
            else ringRecs P k ++ base.adj.getD k [])
          (fun k => ringRecs (P ++ [(l, r, (o, (sl, sr)))]) k ++ base.adj.getD k []) hrn (by
            intro k hk
            by_cases hkl : k = l
            · subst hkl; simp [hP', hrecl]
            · simp [hkl, hP', hother k hkl hk])
        have hr' : ringRecs (P ++ [(l, r, (o, (sl, sr)))]) r ++ base.adj.getD r []
            = ringRecs P r ++ { src := r, dst := l, order := o, stereo := sr, ring := true }
                :: base.adj.getD r [] := by
          rw [hP', hrecr]; simp
        rw [← hr']
        exact s2
      · -- counts
        have s1 := map_range_set base.atoms.length l
          (fun k => base.counts.getD k 0 + ordSum (ringRecs P k))
          (fun k => if k = l then base.counts.getD l 0 + ordSum (ringRecs P l) + o
            else base.counts.getD k 0 + ordSum (ringRecs P k)) hln (by intro k hk; simp [hk])
        simp only [if_true] at s1
        rw [s1]
        have s2 := map_range_set base.atoms.length r
          (fun k => if k = l then base.counts.getD l 0 + ordSum (ringRecs P l) + o
            else base.counts.getD k 0 + ordSum (ringRecs P k))
          (fun k => base.counts.getD k 0 + ordSum (ringRecs (P ++ [(l, r, (o, (sl, sr)))]) k)) hrn (by
            intro k hk
            by_cases hkl : k = l
            · subst hkl; simp [hP', hrecl, ordSum]; omega
            · simp [hkl, hP', hother k hkl hk])
        have hr' : base.counts.getD r 0 + ordSum (ringRecs (P ++ [(l, r, (o, (sl, sr)))]) r)
            = base.counts.getD r 0 + ordSum (ringRecs P r) + o := by
          rw [hP', hrecr]; simp [ordSum]; omega
        rw [← hr']
        exact s2
    have hmade : ((ringsMadeAfter base.atoms.length P).set l ((ringRecs P l).length + 1)).set r
        ((ringRecs P r).length + 1) = ringsMadeAfter base.atoms.length (P ++ [(l, r, (o, (sl, sr)))]) := by
      unfold ringsMadeAfter
      have s1 := map_range_set base.atoms.length l (fun k => (ringRecs P k).length)
        (fun k => if k = l then (ringRecs P l).length + 1 else (ringRecs P k).length) hln
        (by intro k hk; simp [hk])
      simp only [if_true] at s1
      rw [s1]
      have s2 := map_range_set base.atoms.length r
        (fun k => if k = l then (ringRecs P l).length + 1 else (ringRecs P k).length)
        (fun k => (ringRecs (P ++ [(l, r, (o, (sl, sr)))]) k).length) hrn (by
          intro k hk
          by_cases hkl : k = l
          · subst hkl; simp [hP', hrecl]
          · simp [hkl, hP', hother k hkl hk])
      have hr' : (ringRecs (P ++ [(l, r, (o, (sl, sr)))]) r).length = (ringRecs P r).length + 1 := by
        rw [hP', hrecr]; simp
      rw [← hr']
      exact s2
    simp only [hne, Bool.false_eq_true, if_false, h1, h2, h3, h4, bind, Except.bind, hfree, horder, hnb,
      hml, hmr, hadd, hmr', hmade]
    exact formRings_sim T base hl R hg S (P ++ [(l, r, (o, (sl, sr)))]) (by rw [hR]; simp)

theorem ringState_nil (base : Mol) (hl : MolLen base) : ringState base [] = base := by
  have h1 : (List.range base.atoms.length).map (fun k => ringRecs [] k ++ base.adj.getD k []) = base.adj := by
    apply List.ext_getElem?
    intro j
    by_cases hj : j < base.atoms.length
    · rw [getElem?_map_range _ _ _ hj]
      have : j < base.adj.length := by rw [hl.adj]; exact hj
      simp [ringRecs, this]
    · have : base.adj.length ≤ j := by rw [hl.adj]; omega
      simp [List.getElem?_eq_none this]; omega
  have h2 : (List.range base.atoms.length).map (fun k => base.counts.getD k 0 + ordSum (ringRecs [] k))
      = base.counts := by
    apply List.ext_getElem?
    intro j
    by_cases hj : j < base.atoms.length
    · rw [getElem?_map_range _ _ _ hj]
      have : j < base.counts.length := by rw [hl.counts]; exact hj
      simp [ringRecs, ordSum, this]
    · have : base.counts.length ≤ j := by rw [hl.counts]; omega
      simp [List.getElem?_eq_none this]; omega
  simp only [ringState, h1, h2]

/-- **the ring phase in closed form** -/
theorem formRings_closed (T : Table) (base : Mol) (hl : MolLen base) (R : List RingReq)
    (hg : RingsGood T base R) :
    formRings T R base (List.replicate base.atoms.length 0) = .ok (ringState base R) := by
  have := formRings_sim T base hl R hg R [] rfl
  rw [ringState_nil base hl] at this
  have hm : ringsMadeAfter base.atoms.length [] = List.replicate base.atoms.length 0 := by
    unfold ringsMadeAfter
    apply List.ext_getElem?
    intro j
    by_cases hj : j < base.atoms.length
    · rw [getElem?_map_range _ _ _ hj]; simp [ringRecs, hj]
    · have h1 : ((List.range base.atoms.length).map fun k => (ringRecs [] k).length)[j]? = none := by
        simp; omega
      have h2 : (List.replicate base.atoms.length 0)[j]? = none := by simp; omega
      rw [h1, h2]
  rw [hm] at this
  exact this

end SV
