/-
  C01r: the graph part of the simulation invariant (`GSim`: atoms, roots, adjacency rows, lengths)
  and the counters (`CSim`), preserved by the four kinds of parser steps that touch the graph.
-/
import SelfiesVerif.Proofs.ReaderSimOps

namespace SV

/-- the counters: never beyond the row, nothing read of atoms not yet added -/
structure CSim (g : Mol) (k : Nat) (cnt : Nat → Nat) : Prop where
  le : ∀ j, cnt j ≤ (g.row j).length
  zero : ∀ j, k ≤ j → cnt j = 0
  kle : k ≤ g.atoms.length

/-- the parser's graph after `k` atoms and the bonds counted by `cnt` -/
structure GSim (g : Mol) (k : Nat) (cnt : Nat → Nat) (rts : List Nat) (m : PMol) : Prop where
  atoms : m.atoms = g.atoms.take k
  roots : m.roots = rts
  adjLen : m.adj.length = k
  adj : ∀ j, j < k → m.adj[j]? = some (simRow g cnt j)
  c2Len : m.counts2.length = k
  rfLen : m.ringFlags.length = k
  ds : m.ds = []

section
variable {g : Mol} {k : Nat} {cnt : Nat → Nat} {rts : List Nat} {m : PMol}

theorem CSim.procd_nil (hc : CSim g k cnt) {j : Nat} (hj : k ≤ j) : procd g cnt j = [] := by
  unfold procd; rw [hc.zero j hj]; rfl

theorem CSim.bump (hc : CSim g k cnt) {p : Nat} {b : DirBond} (hp : p < k)
    (hb : (g.row p)[cnt p]? = some b) : CSim g k (cntBump cnt p) where
  le := by
    intro j
    by_cases hj : j = p
    · subst hj
      rw [cntBump_self]
      have := (List.getElem?_eq_some_iff.mp hb).1
      omega
    · rw [cntBump_ne cnt hj]; exact hc.le j
  zero := by
    intro j hj
    rw [cntBump_ne cnt (by omega)]; exact hc.zero j hj
  kle := hc.kle

theorem CSim.succ (hc : CSim g k cnt) (hk : k < g.atoms.length) : CSim g (k + 1) cnt where
  le := hc.le
  zero := fun j hj => hc.zero j (by omega)
  kle := hk

theorem GSim.simRow_length (hc : CSim g k cnt) (j : Nat) : (simRow g cnt j).length = cnt j := by
  rw [SV.simRow_length]; have := hc.le j; omega

/-- a new atom (root or not): one more atom, an empty row -/
theorem GSim.addAtom (hs : GSim g k cnt rts m) (hc : CSim g k cnt) {a : Atom}
    (ha : g.atoms[k]? = some a) (hna : a.isAromatic = false) (root : Bool) :
    GSim g (k + 1) cnt (if root then rts ++ [k] else rts) (m.addAtom a root none).1 where
  atoms := by
    simp only [PMol.addAtom, hs.atoms]
    rw [List.take_add_one, ha]; rfl
  roots := by
    have hl : m.atoms.length = k := by
      rw [hs.atoms, List.length_take]
      have := (List.getElem?_eq_some_iff.mp ha).1
      omega
    simp only [PMol.addAtom, hs.roots, hl]
  adjLen := by simp [PMol.addAtom, hs.adjLen]
  adj := by
    intro j hj
    simp only [PMol.addAtom]
    by_cases hjk : j < k
    · rw [List.getElem?_append_left (by rw [hs.adjLen]; exact hjk)]
      exact hs.adj j hjk
    · have : j = k := by omega
      subst this
      rw [List.getElem?_append_right (by rw [hs.adjLen]; exact Nat.le_refl _), hs.adjLen]
      simp [simRow, hc.procd_nil (Nat.le_refl _)]
  c2Len := by simp [PMol.addAtom, hs.c2Len]
  rfLen := by simp [PMol.addAtom, hs.rfLen]
  ds := by simp [PMol.addAtom, hna, hs.ds]

/-- a row is replaced by the row with one more (unclosed or chain) entry -/
theorem GSim.bump_open (hg : WGraph g) (hs : GSim g k cnt rts m) {p : Nat} {b : DirBond} (hp : p < k)
    (hb : (g.row p)[cnt p]? = some b) (hopen : closedB g cnt b = false)
    {c2 : List Nat} (hc2 : c2.length = m.counts2.length) :
    GSim g k (cntBump cnt p) rts
      { m with adj := m.adj.set p (simRow g cnt p ++ [simEntry g cnt b]), counts2 := c2 } where
  atoms := hs.atoms
  roots := hs.roots
  adjLen := by simp [hs.adjLen]
  adj := by
    intro j hj
    by_cases hjp : j = p
    · subst hjp
      simp only
      rw [List.getElem?_set_self (by rw [hs.adjLen]; exact hj), simRow_bump_self hg hb]
    · simp only
      rw [List.getElem?_set_ne (Ne.symm hjp), simRow_bump_open_ne hg hb hopen hjp]
      exact hs.adj j hj
  c2Len := by simp [hc2, hs.c2Len]
  rfLen := hs.rfLen
  ds := hs.ds

end

/-! ### closing a ring -/

section
variable {g : Mol} {k : Nat} {cnt : Nat → Nat} {rts : List Nat} {m : PMol}

/-- rows of atoms that are neither end of the new bond -/
theorem simRow_bump_far (hg : WGraph g) {p : Nat} {b : DirBond} (hb : (g.row p)[cnt p]? = some b)
    {j : Nat} (hj : j ≠ p) (hjd : j ≠ b.dst) : simRow g (cntBump cnt p) j = simRow g cnt j := by
  unfold simRow
  rw [procd_bump_ne hj]
  apply List.map_congr_left
  intro x hx
  unfold simEntry
  rw [closedB_bump hb]
  have hxs : x.src = j := hg.row_src (procd_sub hx)
  have : (b.dst == x.src) = false := by
    rw [beq_eq_false_iff_ne, hxs]; exact fun h => hjd h.symm
  simp [this]

/-- the row of the partner: its placeholder is filled -/
theorem simRow_bump_partner (hg : WGraph g) {p q : Nat} {b b' : DirBond}
    (hb : (g.row p)[cnt p]? = some b) (hq : q < cnt b.dst) (hb' : (g.row b.dst)[q]? = some b')
    (hd : b'.dst = p) (hne : b.dst ≠ p) :
    simRow g (cntBump cnt p) b.dst = (simRow g cnt b.dst).set q (some (readBond b')) := by
  have hbs : b.src = p := hg.row_src (getElem?_mem_row hb)
  have hb's : b'.src = b.dst := hg.row_src (getElem?_mem_row hb')
  apply List.ext_getElem?
  intro r
  unfold simRow
  rw [procd_bump_ne hne, List.getElem?_set, List.getElem?_map, List.getElem?_map]
  by_cases hrq : q = r
  · subst hrq
    have hlen : q < ((procd g cnt b.dst).map (simEntry g cnt)).length := by
      simp only [List.length_map, procd, List.length_take]
      have := (List.getElem?_eq_some_iff.mp hb').1
      omega
    rw [if_pos rfl, if_pos hlen]
    have : (procd g cnt b.dst)[q]? = some b' := by
      unfold procd; rw [List.getElem?_take, if_pos hq]; exact hb'
    rw [this]
    simp only [Option.map_some, Option.some.injEq]
    unfold simEntry
    rw [closedB_bump hb]
    simp [hd, hb's]
  · rw [if_neg hrq]
    cases hx : (procd g cnt b.dst)[r]? with
    | none => rfl
    | some x =>
      simp only [Option.map_some, Option.some.injEq]
      unfold simEntry
      rw [closedB_bump hb]
      have hxr : (g.row b.dst)[r]? = some x := by
        unfold procd at hx
        rw [List.getElem?_take] at hx
        split at hx
        · exact hx
        · cases hx
      have : (x.dst == p) = false := by
        rw [beq_eq_false_iff_ne]
        intro hxd
        exact hrq (pw_pos_unique (hg.row_pw b.dst) hb' hxr (by rw [hd, hxd]))
      simp [this]

/-- the graph after a ring closure -/
theorem GSim.bump_close (hg : WGraph g) (hs : GSim g k cnt rts m) {p q : Nat} {b b' : DirBond} (hp : p < k)
    (_hdk : b.dst < k)
    (hb : (g.row p)[cnt p]? = some b) (hq : q < cnt b.dst) (hb' : (g.row b.dst)[q]? = some b')
    (hd : b'.dst = p) (hne : b.dst ≠ p) (hclosed : closedB g cnt b = true) (_hring : b.ring = true)
    {c2 : List Nat} {f : List Bool} (hc2 : c2.length = m.counts2.length) (hf : f.length = m.ringFlags.length) :
    GSim g k (cntBump cnt p) rts
      { m with adj := (m.adj.set b.dst ((simRow g cnt b.dst).set q (some (readBond b')))).set p
                        (simRow g cnt p ++ [some (readBond b)]),
               counts2 := c2, ringFlags := f } where
  atoms := hs.atoms
  roots := hs.roots
  adjLen := by simp [hs.adjLen]
  adj := by
    intro j hj
    simp only
    by_cases hjp : j = p
    · subst hjp
      rw [List.getElem?_set_self (by simp [hs.adjLen]; exact hj), simRow_bump_self hg hb]
      simp [simEntry, hclosed]
    · rw [List.getElem?_set_ne (Ne.symm hjp)]
      by_cases hjd : j = b.dst
      · subst hjd
        rw [List.getElem?_set_self (by rw [hs.adjLen]; exact hj),
          simRow_bump_partner hg hb hq hb' hd hne]
      · rw [List.getElem?_set_ne (Ne.symm hjd), simRow_bump_far hg hb hjp hjd]
        exact hs.adj j hj
  c2Len := by simp [hc2, hs.c2Len]
  rfLen := by simp [hf, hs.rfLen]
  ds := hs.ds

end

end SV
