/-
  Helper lemmas, the operation datatype and the history semantics for properties C12 / C11:
  the configuration API of selfies/bond_constraints.py as modelled in Model/Config.lean.
-/
import SelfiesVerif.Model.Config

namespace SV

/-! ### association lists -/

section Lookup
variable {α β : Type} [BEq α]

theorem lookup_nil (k : α) : lookup k ([] : List (α × β)) = none := rfl

theorem lookup_cons (k k' : α) (v : β) (l : List (α × β)) :
    lookup k ((k', v) :: l) = if k' == k then some v else lookup k l := rfl

theorem lookup_append (k : α) (l m : List (α × β)) :
    lookup k (l ++ m) = (lookup k l).or (lookup k m) := by
  induction l with
  | nil => simp [lookup_nil]
  | cons p l ih =>
    obtain ⟨k', v⟩ := p
    simp only [List.cons_append, lookup_cons]
    split <;> simp [ih]

theorem lookup_some_mem [LawfulBEq α] {k : α} {v : β} {l : List (α × β)} :
    lookup k l = some v → (k, v) ∈ l := by
  induction l with
  | nil => simp [lookup_nil]
  | cons p l ih =>
    obtain ⟨k', v'⟩ := p
    simp only [lookup_cons]
    split
    · rename_i h; intro h'; simp_all
    · intro h'; exact List.mem_cons_of_mem _ (ih h')

theorem lookup_isSome_of_mem [LawfulBEq α] {k : α} {v : β} {l : List (α × β)} :
    (k, v) ∈ l → (lookup k l).isSome = true := by
  induction l with
  | nil => simp
  | cons p l ih =>
    obtain ⟨k', v'⟩ := p
    simp only [lookup_cons, List.mem_cons]
    rintro (h | h)
    · simp_all
    · split <;> simp_all

theorem lookup_eq_none_iff [LawfulBEq α] {k : α} {l : List (α × β)} :
    lookup k l = none ↔ ∀ p ∈ l, p.1 ≠ k := by
  induction l with
  | nil => simp [lookup_nil]
  | cons p l ih =>
    obtain ⟨k', v'⟩ := p
    simp only [lookup_cons, List.mem_cons, forall_eq_or_imp]
    split
    · simp_all
    · simp_all

/-- pointwise update of the values stored under one key -/
theorem lookup_map_upd [LawfulBEq α] (g : α × β → α × β) (f : β → β) (ref k : α)
    (hg : ∀ p, g p = if p.1 == ref then (p.1, f p.2) else p) (l : List (α × β)) :
    lookup k (l.map g) = if k == ref then (lookup k l).map f else lookup k l := by
  induction l with
  | nil => simp [lookup_nil]
  | cons p l ih =>
    obtain ⟨k', v'⟩ := p
    simp only [List.map_cons, hg (k', v')]
    by_cases h1 : k' == ref <;> by_cases h2 : k' == k <;> simp_all [lookup_cons]
    all_goals (intro h; simp_all)

theorem map_upd_eq_self [LawfulBEq α] (g : α × β → α × β) (f : β → β) (ref : α)
    (hg : ∀ p, g p = if p.1 == ref then (p.1, f p.2) else p) (l : List (α × β))
    (h : lookup ref l = none) : l.map g = l := by
  rw [lookup_eq_none_iff] at h
  conv => rhs; rw [← List.map_id l]
  apply List.map_congr_left
  intro p hp
  rw [hg]
  have := h p hp
  simp_all

end Lookup

/-! ### heap primitives -/

theorem lookup_snoc {β : Type} (r k : Nat) (v : β) (l : List (Nat × β)) :
    lookup r (l ++ [(k, v)]) = (lookup r l).or (if k = r then some v else none) := by
  rw [lookup_append, lookup_cons, lookup_nil]; simp

theorem lookup_mutateDict (st : CfgState) (ref : Nat) (k : PyKey) (v : PyVal) (r : Nat) :
    lookup r (mutateDict st ref k v).dicts
      = if r = ref then (lookup r st.dicts).map (setKey k v) else lookup r st.dicts := by
  unfold mutateDict
  simp only []
  rw [lookup_map_upd _ (setKey k v) ref r (by intro p; rfl)]
  simp

theorem lookup_mutateSet (st : CfgState) (ref : Nat) (x : Str) (r : Nat) :
    lookup r (mutateSet st ref x).sets
      = if r = ref then (lookup r st.sets).map (fun s => if s.contains x then s else s ++ [x])
        else lookup r st.sets := by
  unfold mutateSet
  simp only []
  rw [lookup_map_upd _ (fun s => if s.contains x then s else s ++ [x]) ref r (by intro p; rfl)]
  simp

theorem mutateSet_eq_self (st : CfgState) (ref : Nat) (x : Str) (h : lookup ref st.sets = none) :
    mutateSet st ref x = st := by
  unfold mutateSet
  rw [map_upd_eq_self _ (fun s => if s.contains x then s else s ++ [x]) ref (by intro p; rfl) _ h]

theorem mutateDict_eq_self (st : CfgState) (ref : Nat) (k : PyKey) (v : PyVal)
    (h : lookup ref st.dicts = none) : mutateDict st ref k v = st := by
  unfold mutateDict
  rw [map_upd_eq_self _ (setKey k v) ref (by intro p; rfl) _ h]

/-! ### operations, observations, histories -/

/-- One step of a history.  `h` indexes the list of object references the CALLER holds: every
    reference returned by a getter or created by `newDict` is appended to that list, and a
    mutation can only target a held reference. -/
inductive Op
  | getPreset (name : Str)                 -- `get_preset_constraints(name)`
  | getConstraints                         -- `get_semantic_constraints()`
  | setName (name : Str)                   -- `set_semantic_constraints(name)`
  | setDict (h : Nat)                      -- `set_semantic_constraints(obj_h)`
  | setOther                               -- `set_semantic_constraints(42)`
  | getAlphabet                            -- `get_semantic_robust_alphabet()`
  | newDict (d : PyDict)                   -- the caller builds a dict of its own
  | mutDict (h : Nat) (k : PyKey) (v : PyVal)   -- `obj_h[k] = v`
  | mutSet (h : Nat) (x : Str)             -- `obj_h.add(x)`
  | capacity (element : Str) (charge : Int)     -- `get_bonding_capacity(element, charge)`
  deriving Repr, DecidableEq

/-- What the caller sees.  A returned dict / set is observed BY VALUE at return time. -/
inductive Obs
  | unit                       -- `None` / a statement that completed
  | exc (e : PyExc)            -- the call raised
  | dict (d : PyDict)
  | set (s : List Str)
  | nat (n : Nat)
  | badHandle                  -- the history used a handle the caller does not have (no-op)
  deriving Repr, DecidableEq

def Obs.ofUnit : Py Unit → Obs
  | .ok _ => .unit
  | .error e => .exc e

def Obs.ofNat : Py Nat → Obs
  | .ok v => .nat v
  | .error e => .exc e

/-- value of a set object -/
def CfgState.setOf (st : CfgState) (ref : Nat) : List Str := (lookup ref st.sets).getD []

/-- configuration: library state + heap, and the references the caller holds -/
abbrev Cfg := CfgState × List Nat

def step (s : Cfg) : Op → Cfg × Obs
  | .getPreset n =>
    match getPreset s.1 n with
    | (st, .ok r) => ((st, s.2 ++ [r]), .dict (st.dictOf r))
    | (st, .error e) => ((st, s.2), .exc e)
  | .getConstraints =>
    let p := getConstraints s.1
    ((p.1, s.2 ++ [p.2]), .dict (p.1.dictOf p.2))
  | .setName n =>
    let p := setConstraints s.1 (.name n)
    ((p.1, s.2), Obs.ofUnit p.2)
  | .setDict h =>
    match s.2[h]? with
    | none => (s, .badHandle)
    | some ref =>
      let p := setConstraints s.1 (.dict ref)
      ((p.1, s.2), Obs.ofUnit p.2)
  | .setOther =>
    let p := setConstraints s.1 .other
    ((p.1, s.2), Obs.ofUnit p.2)
  | .getAlphabet =>
    let p := getAlphabet s.1
    ((p.1, s.2 ++ [p.2]), .set (p.1.setOf p.2))
  | .newDict d =>
    let p := s.1.allocDict d
    ((p.1, s.2 ++ [p.2]), .unit)
  | .mutDict h k v =>
    match s.2[h]? with
    | none => (s, .badHandle)
    | some ref => ((mutateDict s.1 ref k v, s.2), .unit)
  | .mutSet h x =>
    match s.2[h]? with
    | none => (s, .badHandle)
    | some ref => ((mutateSet s.1 ref x, s.2), .unit)
  | .capacity e c =>
    let p := cachedCapacity s.1 e c
    ((p.1, s.2), Obs.ofNat p.2)

def runFrom (s : Cfg) : List Op → Cfg × List Obs
  | [] => (s, [])
  | op :: ops =>
    let p := step s op
    let q := runFrom p.1 ops
    (q.1, p.2 :: q.2)

/-- the history `ops` played from the state right after `import selfies` -/
def run (ops : List Op) : Cfg × List Obs := runFrom (CfgState.init, []) ops

theorem runFrom_append (s : Cfg) (ops ops' : List Op) :
    runFrom s (ops ++ ops') =
      ((runFrom (runFrom s ops).1 ops').1, (runFrom s ops).2 ++ (runFrom (runFrom s ops).1 ops').2) := by
  induction ops generalizing s with
  | nil => rfl
  | cons op ops ih => simp only [List.cons_append, runFrom, ih]

/-- dict references reachable from library state -/
def dictLibRefs (st : CfgState) : List Nat := st.presets.map (·.2) ++ [st.current]

/-- all references reachable from library state -/
def libRefs (st : CfgState) : List Nat := dictLibRefs st ++ st.alphaCache.toList

/-! ### the privacy invariant -/

structure Inv (s : Cfg) : Prop where
  heldLt : ∀ r ∈ s.2, r < s.1.nextId
  dictsLt : ∀ r, (lookup r s.1.dicts).isSome → r < s.1.nextId
  setsLt : ∀ r, (lookup r s.1.sets).isSome → r < s.1.nextId
  curLive : (lookup s.1.current s.1.dicts).isSome
  preLive : ∀ p ∈ s.1.presets, (lookup p.2 s.1.dicts).isSome
  curPriv : s.1.current ∉ s.2
  prePriv : ∀ p ∈ s.1.presets, p.2 ∉ s.2
  presetsEq : s.1.presets = CfgState.init.presets
  presetsVal : ∀ p ∈ s.1.presets, s.1.dictOf p.2 = CfgState.init.dictOf p.2
  alphaLive : ∀ r, s.1.alphaCache = some r → (lookup r s.1.sets).isSome
  disjoint : ∀ r, (lookup r s.1.dicts).isSome → (lookup r s.1.sets).isSome = false
  heldLive : ∀ r ∈ s.2, (lookup r s.1.dicts).isSome ∨ (lookup r s.1.sets).isSome

theorem Inv.init : Inv (CfgState.init, []) where
  heldLt := by simp
  dictsLt := by
    intro r hr
    obtain ⟨v, hv⟩ := Option.isSome_iff_exists.mp hr
    have h : ∀ p ∈ CfgState.init.dicts, p.1 < CfgState.init.nextId := by decide
    exact h _ (lookup_some_mem hv)
  setsLt := by simp [CfgState.init, lookup_nil]
  curLive := by decide
  preLive := by decide
  curPriv := by simp
  prePriv := by simp
  presetsEq := rfl
  presetsVal := by simp
  alphaLive := by simp [CfgState.init]
  disjoint := by simp [CfgState.init, lookup_nil]
  heldLive := by simp

theorem Inv.mono {st : CfgState} {held held' : List Nat} (h : Inv (st, held'))
    (hs : ∀ r ∈ held, r ∈ held') : Inv (st, held) where
  heldLt := fun r hr => h.heldLt r (hs r hr)
  dictsLt := h.dictsLt
  setsLt := h.setsLt
  curLive := h.curLive
  preLive := h.preLive
  curPriv := fun hc => h.curPriv (hs _ hc)
  prePriv := fun p hp hc => h.prePriv p hp (hs _ hc)
  presetsEq := h.presetsEq
  presetsVal := h.presetsVal
  alphaLive := h.alphaLive
  disjoint := h.disjoint
  heldLive := fun r hr => h.heldLive r (hs r hr)

theorem Inv.allocDict_hold {st : CfgState} {held : List Nat} (h : Inv (st, held)) (d : PyDict) :
    Inv ((st.allocDict d).1, held ++ [st.nextId]) := by
  obtain ⟨h1, h2, h3, h4, h5, h6, h7, h8, h9, h10, h11, h12⟩ := h
  simp only [CfgState.dictOf] at *
  constructor <;> simp only [CfgState.allocDict, CfgState.dictOf, lookup_snoc] <;> grind

theorem Inv.allocDict {st : CfgState} {held : List Nat} (h : Inv (st, held)) (d : PyDict) :
    Inv ((st.allocDict d).1, held) :=
  (h.allocDict_hold d).mono (by simp +contextual)

/-- the three assignments at the end of a successful `set_semantic_constraints` -/
theorem Inv.commit {st : CfgState} {held : List Nat} (h : Inv (st, held)) (d : PyDict) :
    Inv ({ (st.allocDict d).1 with current := st.nextId, alphaCache := none, capCache := [] },
         held) := by
  obtain ⟨h1, h2, h3, h4, h5, h6, h7, h8, h9, h10, h11, h12⟩ := h
  simp only [CfgState.dictOf] at *
  constructor <;> simp only [CfgState.allocDict, CfgState.dictOf, lookup_snoc] <;> grind

theorem Inv.allocSet {st : CfgState} {held : List Nat} (h : Inv (st, held)) (x : List Str) :
    Inv ({ (st.allocSet x).1 with alphaCache := some st.nextId }, held ++ [st.nextId]) := by
  obtain ⟨h1, h2, h3, h4, h5, h6, h7, h8, h9, h10, h11, h12⟩ := h
  simp only [CfgState.dictOf] at *
  constructor <;> simp only [CfgState.allocSet, CfgState.dictOf, lookup_snoc] <;> grind

theorem Inv.mutateDict {st : CfgState} {held : List Nat} (h : Inv (st, held)) {ref : Nat}
    (href : ref ∈ held) (k : PyKey) (v : PyVal) : Inv (mutateDict st ref k v, held) := by
  obtain ⟨h1, h2, h3, h4, h5, h6, h7, h8, h9, h10, h11, h12⟩ := h
  simp only [CfgState.dictOf] at *
  constructor <;> simp only [CfgState.dictOf, lookup_mutateDict] <;>
    simp only [SV.mutateDict] <;> grind

theorem Inv.mutateSet {st : CfgState} {held : List Nat} (h : Inv (st, held)) (ref : Nat)
    (x : Str) : Inv (mutateSet st ref x, held) := by
  obtain ⟨h1, h2, h3, h4, h5, h6, h7, h8, h9, h10, h11, h12⟩ := h
  simp only [CfgState.dictOf] at *
  constructor <;> simp only [CfgState.dictOf, lookup_mutateSet] <;>
    simp only [SV.mutateSet] <;> grind

theorem Inv.setCapCache {st : CfgState} {held : List Nat} (h : Inv (st, held))
    (c : List ((Str × Int) × Nat)) : Inv ({ st with capCache := c }, held) := by
  obtain ⟨h1, h2, h3, h4, h5, h6, h7, h8, h9, h10, h11, h12⟩ := h
  constructor <;> assumption

/-! ### the API operations in terms of the primitives -/

theorem setConstraints_name (st : CfgState) (n : Str) :
    setConstraints st (.name n) =
      match lookup n st.presets with
      | none => (st, .error .ValueError)
      | some ref => ({ (st.allocDict (st.dictOf ref)).1 with
                        current := st.nextId, alphaCache := none, capCache := [] }, .ok ()) := rfl

theorem setConstraints_dict (st : CfgState) (ref : Nat) :
    setConstraints st (.dict ref) =
      match validateDict (st.dictOf ref) with
      | some e => (st, .error e)
      | none => ({ (st.allocDict (st.dictOf ref)).1 with
                    current := st.nextId, alphaCache := none, capCache := [] }, .ok ()) := rfl

theorem setConstraints_other (st : CfgState) :
    setConstraints st .other = (st, .error .ValueError) := rfl

theorem getPreset_eq (st : CfgState) (n : Str) :
    getPreset st n =
      match lookup n st.presets with
      | none => (st, .error .ValueError)
      | some ref => ((st.allocDict (st.dictOf ref)).1, .ok st.nextId) := rfl

theorem getAlphabet_eq (st : CfgState) :
    getAlphabet st =
      match st.alphaCache with
      | some r => (st, r)
      | none => ({ (st.allocSet (robustAlphabet st.currentTable)).1 with
                    alphaCache := some st.nextId }, st.nextId) := rfl

theorem Inv.setConstraints {st : CfgState} {held : List Nat} (h : Inv (st, held)) (arg : SetArg) :
    Inv ((setConstraints st arg).1, held) := by
  cases arg with
  | name n =>
    rw [setConstraints_name]
    split
    · exact h
    · exact h.commit _
  | dict ref =>
    rw [setConstraints_dict]
    split
    · exact h
    · exact h.commit _
  | other => exact h

theorem Inv.cachedCapacity {st : CfgState} {held : List Nat} (h : Inv (st, held)) (e : Str)
    (c : Int) : Inv ((cachedCapacity st e c).1, held) := by
  unfold SV.cachedCapacity
  split
  · exact h.setCapCache _
  · split
    · exact h.setCapCache _
    · exact h

theorem Inv.step {s : Cfg} (h : Inv s) (op : Op) : Inv (step s op).1 := by
  obtain ⟨st, held⟩ := s
  cases op with
  | getPreset n =>
    simp only [SV.step, getPreset_eq]
    split
    · rename_i heq
      split at heq
      · simp at heq
      · simp only [Prod.mk.injEq] at heq
        obtain ⟨rfl, h2⟩ := heq
        cases h2
        exact h.allocDict_hold _
    · rename_i heq
      split at heq
      · simp only [Prod.mk.injEq] at heq
        obtain ⟨rfl, _⟩ := heq
        exact h
      · simp at heq
  | getConstraints => exact h.allocDict_hold _
  | setName n => exact h.setConstraints _
  | setDict i =>
    simp only [SV.step]
    split
    · exact h
    · exact h.setConstraints _
  | setOther => exact h
  | getAlphabet =>
    simp only [SV.step, getAlphabet_eq]
    split
    · rename_i r hr
      have := h.alphaLive r hr
      have := h.setsLt r this
      obtain ⟨h1, h2, h3, h4, h5, h6, h7, h8, h9, h10, h11, h12⟩ := h
      constructor <;> try assumption
      all_goals (simp only [List.mem_append, List.mem_singleton]; grind)
    · exact h.allocSet _
  | newDict d => exact h.allocDict_hold _
  | mutDict i k v =>
    simp only [SV.step]
    split
    · exact h
    · rename_i ref href
      exact h.mutateDict (List.mem_of_getElem? href) k v
  | mutSet i x =>
    simp only [SV.step]
    split
    · exact h
    · exact h.mutateSet _ _
  | capacity e c => exact h.cachedCapacity e c

theorem Inv.runFrom {s : Cfg} (h : Inv s) (ops : List Op) : Inv (runFrom s ops).1 := by
  induction ops generalizing s with
  | nil => exact h
  | cons op ops ih => exact ih (h.step op)

theorem Inv.run (ops : List Op) : Inv (run ops).1 := Inv.init.runFrom ops

/-! ### `step` in terms of the primitives -/

/-- the state after a successful `set_semantic_constraints` that stores (a copy of) `d` -/
def CfgState.commit (st : CfgState) (d : PyDict) : CfgState :=
  { (st.allocDict d).1 with current := st.nextId, alphaCache := none, capCache := [] }

theorem step_getPreset (s : Cfg) (n : Str) :
    step s (.getPreset n) =
      match lookup n s.1.presets with
      | none => (s, .exc .ValueError)
      | some ref => (((s.1.allocDict (s.1.dictOf ref)).1, s.2 ++ [s.1.nextId]),
                     .dict ((s.1.allocDict (s.1.dictOf ref)).1.dictOf s.1.nextId)) := by
  cases h : lookup n s.1.presets <;> simp [step, getPreset_eq, h]

theorem step_getConstraints (s : Cfg) :
    step s .getConstraints =
      (((s.1.allocDict (s.1.dictOf s.1.current)).1, s.2 ++ [s.1.nextId]),
       .dict ((s.1.allocDict (s.1.dictOf s.1.current)).1.dictOf s.1.nextId)) := rfl

theorem step_setName (s : Cfg) (n : Str) :
    step s (.setName n) =
      match lookup n s.1.presets with
      | none => (s, .exc .ValueError)
      | some ref => ((s.1.commit (s.1.dictOf ref), s.2), .unit) := by
  cases h : lookup n s.1.presets <;> simp [step, setConstraints_name, h, CfgState.commit, Obs.ofUnit]

theorem step_setDict (s : Cfg) (i : Nat) :
    step s (.setDict i) =
      match s.2[i]? with
      | none => (s, .badHandle)
      | some ref =>
        match validateDict (s.1.dictOf ref) with
        | some e => (s, .exc e)
        | none => ((s.1.commit (s.1.dictOf ref), s.2), .unit) := by
  cases h : s.2[i]? with
  | none => simp [step, h]
  | some ref =>
    cases h' : validateDict (s.1.dictOf ref) <;>
      simp [step, setConstraints_dict, h, h', CfgState.commit, Obs.ofUnit]

theorem step_setOther (s : Cfg) : step s .setOther = (s, .exc .ValueError) := rfl

theorem step_getAlphabet (s : Cfg) :
    step s .getAlphabet =
      match s.1.alphaCache with
      | some r => ((s.1, s.2 ++ [r]), .set (s.1.setOf r))
      | none =>
        (({ (s.1.allocSet (robustAlphabet s.1.currentTable)).1 with alphaCache := some s.1.nextId },
          s.2 ++ [s.1.nextId]),
         .set ((s.1.allocSet (robustAlphabet s.1.currentTable)).1.setOf s.1.nextId)) := by
  cases h : s.1.alphaCache <;> simp [step, getAlphabet_eq, h, CfgState.setOf]

theorem step_newDict (s : Cfg) (d : PyDict) :
    step s (.newDict d) = (((s.1.allocDict d).1, s.2 ++ [s.1.nextId]), .unit) := rfl

theorem step_mutDict (s : Cfg) (i : Nat) (k : PyKey) (v : PyVal) :
    step s (.mutDict i k v) =
      match s.2[i]? with
      | none => (s, .badHandle)
      | some ref => ((mutateDict s.1 ref k v, s.2), .unit) := rfl

theorem step_mutSet (s : Cfg) (i : Nat) (x : Str) :
    step s (.mutSet i x) =
      match s.2[i]? with
      | none => (s, .badHandle)
      | some ref => ((mutateSet s.1 ref x, s.2), .unit) := rfl

theorem step_capacity (s : Cfg) (e : Str) (c : Int) :
    step s (.capacity e c) = (((cachedCapacity s.1 e c).1, s.2), Obs.ofNat (cachedCapacity s.1 e c).2) :=
  rfl

/-! ### what each primitive does to the current table -/

theorem dictOf_allocDict_old {st : CfgState} {r : Nat} (d : PyDict)
    (h : (lookup r st.dicts).isSome) : (st.allocDict d).1.dictOf r = st.dictOf r := by
  simp only [CfgState.allocDict, CfgState.dictOf, lookup_snoc]
  obtain ⟨v, hv⟩ := Option.isSome_iff_exists.mp h
  simp [hv]

theorem dictOf_allocDict_new {s : Cfg} (h : Inv s) (d : PyDict) :
    (s.1.allocDict d).1.dictOf s.1.nextId = d := by
  have := h.dictsLt s.1.nextId
  simp only [CfgState.allocDict, CfgState.dictOf, lookup_snoc]
  cases hl : lookup s.1.nextId s.1.dicts with
  | none => simp
  | some v => simp [hl] at this

theorem currentTable_allocDict {s : Cfg} (h : Inv s) (d : PyDict) :
    (s.1.allocDict d).1.currentTable = s.1.currentTable := by
  have := dictOf_allocDict_old d h.curLive
  exact congrArg PyDict.toConstraints this

theorem dictOf_commit {s : Cfg} (h : Inv s) (d : PyDict) :
    (s.1.commit d).dictOf (s.1.commit d).current = d := dictOf_allocDict_new h d

theorem currentTable_commit {s : Cfg} (h : Inv s) (d : PyDict) :
    (s.1.commit d).currentTable = d.toConstraints :=
  congrArg PyDict.toConstraints (dictOf_commit h d)

theorem dictOf_mutateDict_ne (st : CfgState) {ref r : Nat} (k : PyKey) (v : PyVal) (h : r ≠ ref) :
    (mutateDict st ref k v).dictOf r = st.dictOf r := by
  simp [CfgState.dictOf, lookup_mutateDict, h]

theorem currentTable_mutateDict {s : Cfg} (h : Inv s) {ref : Nat} (href : ref ∈ s.2) (k : PyKey)
    (v : PyVal) : (mutateDict s.1 ref k v).currentTable = s.1.currentTable := by
  have hne : s.1.current ≠ ref := fun he => h.curPriv (he ▸ href)
  exact congrArg PyDict.toConstraints (dictOf_mutateDict_ne s.1 k v hne)

theorem currentTable_mutateSet (st : CfgState) (ref : Nat) (x : Str) :
    (mutateSet st ref x).currentTable = st.currentTable := rfl

/-! ### the shape of a step -/

inductive StepKind (s : Cfg) (op : Op) (s' : Cfg) : Prop
  | same (h : s' = s)
  | alloc (d : PyDict) (h : s' = ((s.1.allocDict d).1, s.2 ++ [s.1.nextId]))
  | commit (d : PyDict) (h : s' = (s.1.commit d, s.2))
  | alphaHit (r : Nat) (hr : s.1.alphaCache = some r) (h : s' = (s.1, s.2 ++ [r]))
  | alphaMiss (hr : s.1.alphaCache = none)
      (h : s' = ({ (s.1.allocSet (robustAlphabet s.1.currentTable)).1 with
                    alphaCache := some s.1.nextId }, s.2 ++ [s.1.nextId]))
  | mutD (ref : Nat) (k : PyKey) (v : PyVal) (href : ref ∈ s.2)
      (h : s' = (mutateDict s.1 ref k v, s.2))
  | mutS (i ref : Nat) (x : Str) (hop : op = .mutSet i x) (href : s.2[i]? = some ref)
      (h : s' = (mutateSet s.1 ref x, s.2))
  | cap (e : Str) (c : Int) (h : s' = ((cachedCapacity s.1 e c).1, s.2))

theorem step_kind (s : Cfg) (op : Op) : StepKind s op (step s op).1 := by
  cases op with
  | getPreset n =>
    rw [step_getPreset]; split
    · exact .same rfl
    · exact .alloc _ rfl
  | getConstraints => exact .alloc _ rfl
  | setName n =>
    rw [step_setName]; split
    · exact .same rfl
    · exact .commit _ rfl
  | setDict i =>
    rw [step_setDict]; split
    · exact .same rfl
    · split
      · exact .same rfl
      · exact .commit _ rfl
  | setOther => exact .same rfl
  | getAlphabet =>
    rw [step_getAlphabet]; split
    · rename_i r hr; exact .alphaHit r hr rfl
    · rename_i hr; exact .alphaMiss hr rfl
  | newDict d => exact .alloc _ rfl
  | mutDict i k v =>
    rw [step_mutDict]; split
    · exact .same rfl
    · rename_i ref href; exact .mutD ref k v (List.mem_of_getElem? href) rfl
  | mutSet i x =>
    rw [step_mutSet]; split
    · exact .same rfl
    · rename_i ref href; exact .mutS i ref x rfl href rfl
  | capacity e c => exact .cap e c rfl

/-! ### the capacity cache (property C11) -/

/-- every cached entry is what an uncached call would compute now; at most 128 entries -/
def CacheSound (st : CfgState) : Prop :=
  (∀ p ∈ st.capCache, getBondingCapacity st.currentTable p.1.1 p.1.2 = .ok p.2) ∧
  st.capCache.length ≤ 128

theorem CacheSound.of_eq {st st' : CfgState} (h : CacheSound st)
    (h1 : st'.currentTable = st.currentTable) (h2 : st'.capCache = st.capCache) :
    CacheSound st' := by
  unfold CacheSound; rw [h1, h2]; exact h

theorem CacheSound.nil {st : CfgState} (h : st.capCache = []) : CacheSound st := by
  unfold CacheSound; rw [h]; simp

theorem CacheSound.cachedCapacity {st : CfgState} (h : CacheSound st) (e : Str) (c : Int) :
    CacheSound (cachedCapacity st e c).1 := by
  unfold SV.cachedCapacity
  split
  · rename_i v hv
    have hm := lookup_some_mem hv
    constructor
    · intro p hp
      simp only [List.mem_append, List.mem_filter, List.mem_singleton] at hp
      rcases hp with hp | rfl
      · exact h.1 p hp.1
      · exact h.1 _ hm
    · simp only [List.length_append, List.length_singleton]
      have h1 : (st.capCache.filter fun e_1 => !(e_1.1 == (e, c))).length < st.capCache.length :=
        List.length_filter_lt_length_iff_exists.mpr ⟨_, hm, by simp⟩
      have h2 := h.2
      omega
  · split
    · rename_i v hv
      constructor
      · intro p hp
        have hp' : p ∈ st.capCache ++ [((e, c), v)] := by
          simp only [] at hp
          split at hp
          · exact List.mem_of_mem_drop hp
          · exact hp
        simp only [List.mem_append, List.mem_singleton] at hp'
        rcases hp' with hp' | rfl
        · exact h.1 p hp'
        · exact hv
      · have h2 := h.2
        simp only []
        split <;> simp only [List.length_drop, List.length_append, List.length_singleton] at * <;>
          omega
    · exact h

theorem CacheSound.step {s : Cfg} (h : Inv s) (hc : CacheSound s.1) (op : Op) :
    CacheSound (step s op).1.1 := by
  cases step_kind s op with
  | same e => rw [e]; exact hc
  | alloc d e => rw [e]; exact hc.of_eq (currentTable_allocDict h d) rfl
  | commit d e => rw [e]; exact .nil rfl
  | alphaHit r hr e => rw [e]; exact hc
  | alphaMiss hr e => rw [e]; exact hc.of_eq rfl rfl
  | mutD ref k v href e => rw [e]; exact hc.of_eq (currentTable_mutateDict h href k v) rfl
  | mutS i ref x hop href e => rw [e]; exact hc.of_eq rfl rfl
  | cap e c e' => rw [e']; exact hc.cachedCapacity e c

/-! ### the alphabet cache -/

/-- the cached alphabet object (if any) still has the value computed from the current table -/
def AlphaOK (st : CfgState) : Prop :=
  ∀ r, st.alphaCache = some r → lookup r st.sets = some (robustAlphabet st.currentTable)

theorem AlphaOK.of_eq {st st' : CfgState} (h : AlphaOK st)
    (h1 : st'.currentTable = st.currentTable) (h2 : st'.alphaCache = st.alphaCache)
    (h3 : st'.sets = st.sets) : AlphaOK st' := by
  unfold AlphaOK; rw [h1, h2, h3]; exact h

/-- the step does not call `.add` on a set object (all set objects come from `getAlphabet`) -/
def safeOp (s : Cfg) : Op → Bool
  | .mutSet i _ =>
    match s.2[i]? with
    | some r => (lookup r s.1.sets).isNone
    | none => true
  | _ => true

def safeFrom (s : Cfg) : List Op → Bool
  | [] => true
  | op :: ops => safeOp s op && safeFrom (step s op).1 ops

/-- a history without `mutSet` on a reference obtained from `getAlphabet` -/
def AlphaSafe (ops : List Op) : Prop := safeFrom (CfgState.init, []) ops = true

instance (ops : List Op) : Decidable (AlphaSafe ops) := by unfold AlphaSafe; infer_instance

theorem AlphaOK.step {s : Cfg} (h : Inv s) (ha : AlphaOK s.1) (op : Op) (hs : safeOp s op = true) :
    AlphaOK (step s op).1.1 := by
  cases step_kind s op with
  | same e => rw [e]; exact ha
  | alloc d e => rw [e]; exact ha.of_eq (currentTable_allocDict h d) rfl rfl
  | commit d e => rw [e]; intro r hr; simp [CfgState.commit] at hr
  | alphaHit r hr e => rw [e]; exact ha
  | alphaMiss hr e =>
    rw [e]; intro r hr'
    simp only [Option.some.injEq] at hr'
    subst hr'
    have := h.setsLt s.1.nextId
    simp only [CfgState.allocSet, lookup_snoc]
    cases hl : lookup s.1.nextId s.1.sets with
    | none => simp; rfl
    | some v => simp [hl] at this
  | mutD ref k v href e => rw [e]; exact ha.of_eq (currentTable_mutateDict h href k v) rfl rfl
  | mutS i ref x hop href e =>
    rw [e]
    subst hop
    simp only [safeOp, href, Option.isNone_iff_eq_none] at hs
    rw [mutateSet_eq_self _ _ _ hs]; exact ha
  | cap e c e' =>
    rw [e']
    refine ha.of_eq ?_ ?_ ?_ <;> (unfold SV.cachedCapacity; repeat' split) <;> rfl

/-! ### the abstract specification: values, no identity -/

/-- a value the caller owns -/
inductive Val
  | dict (d : PyDict)
  | set (x : List Str)
  deriving Repr, DecidableEq

/-- the simplest specification of the configuration API: the library is a current table VALUE
    and the constant preset values -/
structure Spec where
  current : PyDict
  presets : List (Str × PyDict)
  deriving Repr

def Spec.init : Spec :=
  { current := constraintsToPyDict Gen.initialConstraints
    presets := Gen.presets.map fun p => (p.1, constraintsToPyDict p.2) }

/-- abstract configuration: the library value and the caller's own values -/
abbrev ACfg := Spec × List Val

/-- value semantics: getters return copies, `set` replaces the value, and whatever the caller
    does to its own values changes nothing in the library -/
def Spec.step (a : ACfg) : Op → ACfg × Obs
  | .getPreset n =>
    match lookup n a.1.presets with
    | none => (a, .exc .ValueError)
    | some d => ((a.1, a.2 ++ [.dict d]), .dict d)
  | .getConstraints => ((a.1, a.2 ++ [.dict a.1.current]), .dict a.1.current)
  | .setName n =>
    match lookup n a.1.presets with
    | none => (a, .exc .ValueError)
    | some d => (({ a.1 with current := d }, a.2), .unit)
  | .setDict i =>
    match a.2[i]? with
    | none => (a, .badHandle)
    | some (.set _) => (a, .exc .ValueError)
    | some (.dict d) =>
      match validateDict d with
      | some e => (a, .exc e)
      | none => (({ a.1 with current := d }, a.2), .unit)
  | .setOther => (a, .exc .ValueError)
  | .getAlphabet =>
    let x := robustAlphabet a.1.current.toConstraints
    ((a.1, a.2 ++ [.set x]), .set x)
  | .newDict d => ((a.1, a.2 ++ [.dict d]), .unit)
  | .mutDict i k v =>
    match a.2[i]? with
    | none => (a, .badHandle)
    | some (.set _) => (a, .unit)
    | some (.dict d) => ((a.1, a.2.set i (.dict (setKey k v d))), .unit)
  | .mutSet i x =>
    match a.2[i]? with
    | none => (a, .badHandle)
    | some (.dict _) => (a, .unit)
    | some (.set y) => ((a.1, a.2.set i (.set (if y.contains x then y else y ++ [x]))), .unit)
  | .capacity e c => (a, Obs.ofNat (getBondingCapacity a.1.current.toConstraints e c))

def Spec.runFrom (a : ACfg) : List Op → ACfg × List Obs
  | [] => (a, [])
  | op :: ops =>
    let p := Spec.step a op
    let q := Spec.runFrom p.1 ops
    (q.1, p.2 :: q.2)

def Spec.run (ops : List Op) : ACfg × List Obs := Spec.runFrom (Spec.init, []) ops

/-! ### simulation -/

/-- the value of the object behind a reference -/
def valOf (st : CfgState) (r : Nat) : Val :=
  match lookup r st.dicts with
  | some d => .dict d
  | none => .set (st.setOf r)

theorem lookup_map_val {β γ : Type} (f : β → γ) (n : Str) (l : List (Str × β)) :
    lookup n (l.map fun p => (p.1, f p.2)) = (lookup n l).map f := by
  induction l with
  | nil => rfl
  | cons p l ih =>
    obtain ⟨k, v⟩ := p
    simp only [List.map_cons, lookup_cons, ih]
    split <;> simp

theorem init_presets_spec :
    Spec.init.presets = CfgState.init.presets.map fun p => (p.1, CfgState.init.dictOf p.2) := by
  decide

theorem init_current_spec : CfgState.init.dictOf CfgState.init.current = Spec.init.current := by
  decide

theorem Inv.lookup_preset {s : Cfg} (h : Inv s) (n : Str) :
    lookup n Spec.init.presets = (lookup n s.1.presets).map s.1.dictOf := by
  rw [init_presets_spec, lookup_map_val, h.presetsEq]
  cases hl : lookup n CfgState.init.presets with
  | none => rfl
  | some r =>
    have hm : (n, r) ∈ s.1.presets := by rw [h.presetsEq]; exact lookup_some_mem hl
    simp [h.presetsVal _ hm]

/-- handles to dict objects are pairwise distinct objects -/
def Distinct (st : CfgState) (held : List Nat) : Prop :=
  ∀ (i j r : Nat), held[i]? = some r → held[j]? = some r → (lookup r st.dicts).isSome → i = j

theorem getElem?_snoc_some {l : List Nat} {x r i : Nat} (h : (l ++ [x])[i]? = some r) :
    l[i]? = some r ∨ (i = l.length ∧ r = x) := by
  rw [List.getElem?_append] at h
  split at h
  · exact .inl h
  · right
    have : i - l.length = 0 := by
      cases hk : i - l.length with
      | zero => rfl
      | succ k => rw [hk] at h; simp at h
    rw [this] at h
    simp at h
    omega

theorem Distinct.congr {st st' : CfgState} {held : List Nat} (h : Distinct st held)
    (hd : ∀ r ∈ held, (lookup r st'.dicts).isSome → (lookup r st.dicts).isSome) :
    Distinct st' held :=
  fun i j r hi hj hr => h i j r hi hj (hd r (List.mem_of_getElem? hi) hr)

theorem Distinct.snoc_fresh {st : CfgState} {held : List Nat} {x : Nat} (h : Distinct st held)
    (hx : x ∉ held) : Distinct st (held ++ [x]) := by
  intro i j r hi hj hr
  rcases getElem?_snoc_some hi with hi1 | ⟨hi1, hi'⟩ <;>
    rcases getElem?_snoc_some hj with hj1 | ⟨hj1, hj'⟩
  · exact h i j r hi1 hj1 hr
  · subst hj'; exact absurd (List.mem_of_getElem? hi1) hx
  · subst hi'; exact absurd (List.mem_of_getElem? hj1) hx
  · omega

theorem Distinct.snoc_nondict {st : CfgState} {held : List Nat} {x : Nat} (h : Distinct st held)
    (hx : (lookup x st.dicts).isSome = false) : Distinct st (held ++ [x]) := by
  intro i j r hi hj hr
  rcases getElem?_snoc_some hi with hi1 | ⟨hi1, hi'⟩ <;>
    rcases getElem?_snoc_some hj with hj1 | ⟨hj1, hj'⟩
  · exact h i j r hi1 hj1 hr
  · subst hj'; simp [hx] at hr
  · subst hi'; simp [hx] at hr
  · omega

/-! #### frame lemmas for `valOf` -/

theorem valOf_allocDict_old {st : CfgState} {r : Nat} (d : PyDict) (h : r ≠ st.nextId) :
    valOf (st.allocDict d).1 r = valOf st r := by
  simp only [valOf, CfgState.allocDict, CfgState.setOf, lookup_snoc, if_neg (Ne.symm h),
    Option.or_none]

theorem valOf_allocDict_new {s : Cfg} (h : Inv s) (d : PyDict) :
    valOf (s.1.allocDict d).1 s.1.nextId = .dict d := by
  have := h.dictsLt s.1.nextId
  simp only [valOf, CfgState.allocDict, lookup_snoc]
  cases hl : lookup s.1.nextId s.1.dicts with
  | none => simp
  | some v => simp [hl] at this

theorem valOf_allocSet_old {st : CfgState} {r : Nat} (x : List Str) (o : Option Nat)
    (h : r ≠ st.nextId) :
    valOf { (st.allocSet x).1 with alphaCache := o } r = valOf st r := by
  simp only [valOf, CfgState.allocSet, CfgState.setOf, lookup_snoc, if_neg (Ne.symm h),
    Option.or_none]

theorem valOf_allocSet_new {s : Cfg} (h : Inv s) (x : List Str) (o : Option Nat) :
    valOf { (s.1.allocSet x).1 with alphaCache := o } s.1.nextId = .set x := by
  have h1 := h.dictsLt s.1.nextId
  have h2 := h.setsLt s.1.nextId
  simp only [valOf, CfgState.allocSet, CfgState.setOf, lookup_snoc]
  cases hl : lookup s.1.nextId s.1.dicts with
  | some v => simp [hl] at h1
  | none =>
    cases hl' : lookup s.1.nextId s.1.sets with
    | some v => simp [hl'] at h2
    | none => simp

theorem valOf_mutateDict_ne (st : CfgState) {ref r : Nat} (k : PyKey) (v : PyVal) (h : r ≠ ref) :
    valOf (mutateDict st ref k v) r = valOf st r := by
  simp only [valOf, lookup_mutateDict, if_neg h]
  rfl

theorem valOf_mutateDict_self (st : CfgState) {ref : Nat} {d : PyDict} (k : PyKey) (v : PyVal)
    (h : lookup ref st.dicts = some d) :
    valOf (mutateDict st ref k v) ref = .dict (setKey k v d) := by
  simp [valOf, lookup_mutateDict, h]

theorem cachedCapacity_dicts (st : CfgState) (e : Str) (c : Int) :
    (cachedCapacity st e c).1.dicts = st.dicts := by
  unfold SV.cachedCapacity
  split
  · rfl
  · split <;> rfl

theorem cachedCapacity_sets (st : CfgState) (e : Str) (c : Int) :
    (cachedCapacity st e c).1.sets = st.sets := by
  unfold SV.cachedCapacity
  split
  · rfl
  · split <;> rfl

theorem cachedCapacity_current (st : CfgState) (e : Str) (c : Int) :
    (cachedCapacity st e c).1.current = st.current := by
  unfold SV.cachedCapacity
  split
  · rfl
  · split <;> rfl

theorem map_valOf_congr {st st' : CfgState} {held : List Nat}
    (h : ∀ r ∈ held, valOf st' r = valOf st r) : held.map (valOf st') = held.map (valOf st) :=
  List.map_congr_left h

/-! #### the simulation relation -/

structure SimCore (s : Cfg) (a : ACfg) : Prop where
  cur : s.1.dictOf s.1.current = a.1.current
  pre : a.1.presets = Spec.init.presets
  vals : a.2 = s.2.map (valOf s.1)
  distinct : Distinct s.1 s.2

theorem SimCore.alloc {s : Cfg} {a : ACfg} (hi : Inv s) (h : SimCore s a) (d : PyDict) :
    SimCore ((s.1.allocDict d).1, s.2 ++ [s.1.nextId]) (a.1, a.2 ++ [.dict d]) where
  cur := (dictOf_allocDict_old d hi.curLive).trans h.cur
  pre := h.pre
  vals := by
    have hne : ∀ r ∈ s.2, r ≠ s.1.nextId := fun r hr => Nat.ne_of_lt (hi.heldLt r hr)
    simp only [List.map_append, List.map_cons, List.map_nil, valOf_allocDict_new hi d, h.vals]
    rw [map_valOf_congr fun r hr => valOf_allocDict_old d (hne r hr)]
  distinct := by
    have hx : s.1.nextId ∉ s.2 := fun hm => Nat.lt_irrefl _ (hi.heldLt _ hm)
    refine (h.distinct.congr ?_).snoc_fresh hx
    intro r hr
    simp only [CfgState.allocDict, lookup_snoc, if_neg (Ne.symm (Nat.ne_of_lt (hi.heldLt r hr))),
      Option.or_none]
    exact id

theorem SimCore.commit {s : Cfg} {a : ACfg} (hi : Inv s) (h : SimCore s a) (d : PyDict) :
    SimCore (s.1.commit d, s.2) ({ a.1 with current := d }, a.2) where
  cur := dictOf_commit hi d
  pre := h.pre
  vals := by
    have hne : ∀ r ∈ s.2, r ≠ s.1.nextId := fun r hr => Nat.ne_of_lt (hi.heldLt r hr)
    rw [h.vals]
    exact (map_valOf_congr fun r hr => valOf_allocDict_old d (hne r hr)).symm
  distinct := by
    refine h.distinct.congr ?_
    intro r hr
    simp only [CfgState.commit, CfgState.allocDict, lookup_snoc,
      if_neg (Ne.symm (Nat.ne_of_lt (hi.heldLt r hr))), Option.or_none]
    exact id

theorem SimCore.alphaHit {s : Cfg} {a : ACfg} (hi : Inv s) (ha : AlphaOK s.1) (h : SimCore s a)
    {r : Nat} (hr : s.1.alphaCache = some r) :
    SimCore (s.1, s.2 ++ [r]) (a.1, a.2 ++ [.set (robustAlphabet a.1.current.toConstraints)]) := by
  have hset := ha r hr
  have hnd : (lookup r s.1.dicts).isSome = false := by
    cases hd : (lookup r s.1.dicts).isSome with
    | false => rfl
    | true => have := hi.disjoint r hd; simp [hset] at this
  refine ⟨h.cur, h.pre, ?_, h.distinct.snoc_nondict hnd⟩
  have hv : valOf s.1 r = .set (robustAlphabet a.1.current.toConstraints) := by
    simp only [Option.isSome_eq_false_iff, Option.isNone_iff_eq_none] at hnd
    simp only [valOf, hnd, CfgState.setOf, hset, Option.getD_some, ← h.cur]
    rfl
  simp only [List.map_append, List.map_cons, List.map_nil, hv, h.vals]

theorem SimCore.alphaMiss {s : Cfg} {a : ACfg} (hi : Inv s) (h : SimCore s a) :
    SimCore ({ (s.1.allocSet (robustAlphabet s.1.currentTable)).1 with
                alphaCache := some s.1.nextId }, s.2 ++ [s.1.nextId])
      (a.1, a.2 ++ [.set (robustAlphabet a.1.current.toConstraints)]) where
  cur := h.cur
  pre := h.pre
  vals := by
    have hne : ∀ r ∈ s.2, r ≠ s.1.nextId := fun r hr => Nat.ne_of_lt (hi.heldLt r hr)
    simp only [List.map_append, List.map_cons, List.map_nil, valOf_allocSet_new hi, h.vals]
    rw [map_valOf_congr fun r hr => valOf_allocSet_old _ _ (hne r hr), ← h.cur]
    rfl
  distinct := by
    have hx : s.1.nextId ∉ s.2 := fun hm => Nat.lt_irrefl _ (hi.heldLt _ hm)
    exact (h.distinct.congr (fun r _ => id)).snoc_fresh hx

theorem SimCore.cap {s : Cfg} {a : ACfg} (h : SimCore s a) (e : Str) (c : Int) :
    SimCore ((cachedCapacity s.1 e c).1, s.2) a where
  cur := by
    simp only [CfgState.dictOf, cachedCapacity_dicts, cachedCapacity_current]; exact h.cur
  pre := h.pre
  vals := by
    rw [h.vals]
    refine (map_valOf_congr fun r _ => ?_).symm
    simp only [valOf, CfgState.setOf, cachedCapacity_dicts, cachedCapacity_sets]
  distinct := h.distinct.congr (fun r _ => by rw [cachedCapacity_dicts]; exact id)

theorem SimCore.mutD {s : Cfg} {a : ACfg} (hi : Inv s) (h : SimCore s a) {i ref : Nat}
    (href : s.2[i]? = some ref) (k : PyKey) (v : PyVal) :
    SimCore (mutateDict s.1 ref k v, s.2) (Spec.step a (.mutDict i k v)).1 := by
  have hai : a.2[i]? = some (valOf s.1 ref) := by rw [h.vals, List.getElem?_map, href]; rfl
  cases hl : lookup ref s.1.dicts with
  | none =>
    have hv : valOf s.1 ref = .set (s.1.setOf ref) := by simp [valOf, hl]
    rw [mutateDict_eq_self _ _ _ _ hl]
    simp only [Spec.step, hai, hv]
    exact h
  | some d =>
    have hv : valOf s.1 ref = .dict d := by simp [valOf, hl]
    simp only [Spec.step, hai, hv]
    refine ⟨?_, h.pre, ?_, ?_⟩
    · have hne : s.1.current ≠ ref := fun he => hi.curPriv (he ▸ List.mem_of_getElem? href)
      exact (dictOf_mutateDict_ne s.1 k v hne).trans h.cur
    · apply List.ext_getElem?
      intro j
      have hlt : i < (List.map (valOf s.1) s.2).length := by
        have := (List.getElem?_eq_some_iff.mp href).1
        simpa using this
      rw [h.vals, List.getElem?_set, List.getElem?_map, List.getElem?_map]
      by_cases hij : i = j
      · subst hij
        simp only [if_true, hlt, href, Option.map_some, valOf_mutateDict_self _ k v hl]
      · simp only [if_neg hij]
        cases hj : s.2[j]? with
        | none => rfl
        | some r' =>
          have hne : r' ≠ ref :=
            fun he => hij (h.distinct i j ref href (he ▸ hj) (by simp [hl]))
          simp only [Option.map_some, valOf_mutateDict_ne _ k v hne]
    · refine h.distinct.congr ?_
      intro r _
      rw [lookup_mutateDict]
      split <;> simp

theorem cachedCapacity_snd {st : CfgState} (hc : CacheSound st) (e : Str) (c : Int) :
    (cachedCapacity st e c).2 = getBondingCapacity st.currentTable e c := by
  unfold SV.cachedCapacity
  split
  · rename_i v hv
    exact (hc.1 _ (lookup_some_mem hv)).symm
  · split <;> simp_all

theorem validateDict_nil : validateDict [] = some .ValueError := rfl

structure Sim (s : Cfg) (a : ACfg) : Prop where
  inv : Inv s
  coh : CacheSound s.1
  alpha : AlphaOK s.1
  core : SimCore s a

theorem Sim.init : Sim (CfgState.init, []) (Spec.init, []) where
  inv := .init
  coh := .nil rfl
  alpha := by intro r hr; simp [CfgState.init] at hr
  core := ⟨init_current_spec, rfl, rfl, by simp [Distinct]⟩

theorem Sim.step {s : Cfg} {a : ACfg} (h : Sim s a) (op : Op) (hs : safeOp s op = true) :
    Sim (SV.step s op).1 (Spec.step a op).1 ∧ (SV.step s op).2 = (Spec.step a op).2 := by
  have hinv := h.inv.step op
  have hcoh := h.coh.step h.inv op
  have halpha := h.alpha.step h.inv op hs
  suffices hsuff : SimCore (SV.step s op).1 (Spec.step a op).1 ∧
      (SV.step s op).2 = (Spec.step a op).2
    from ⟨⟨hinv, hcoh, halpha, hsuff.1⟩, hsuff.2⟩
  have hcur : s.1.currentTable = a.1.current.toConstraints :=
    congrArg PyDict.toConstraints h.core.cur
  cases op with
  | getPreset n =>
    have hp : lookup n a.1.presets = (lookup n s.1.presets).map s.1.dictOf := by
      rw [h.core.pre]; exact h.inv.lookup_preset n
    rw [step_getPreset]
    simp only [Spec.step, hp]
    cases hl : lookup n s.1.presets with
    | none => exact ⟨h.core, by first | rfl | trivial⟩
    | some ref =>
      simp only [Option.map_some]
      exact ⟨h.core.alloc h.inv _, by rw [dictOf_allocDict_new h.inv]⟩
  | getConstraints =>
    rw [step_getConstraints]
    simp only [Spec.step, ← h.core.cur]
    exact ⟨h.core.alloc h.inv _, by rw [dictOf_allocDict_new h.inv]⟩
  | setName n =>
    have hp : lookup n a.1.presets = (lookup n s.1.presets).map s.1.dictOf := by
      rw [h.core.pre]; exact h.inv.lookup_preset n
    rw [step_setName]
    simp only [Spec.step, hp]
    cases hl : lookup n s.1.presets with
    | none => exact ⟨h.core, by first | rfl | trivial⟩
    | some ref =>
      simp only [Option.map_some]
      exact ⟨h.core.commit h.inv _, by first | rfl | trivial⟩
  | setDict i =>
    rw [step_setDict]
    have hai : a.2[i]? = (s.2[i]?).map (valOf s.1) := by rw [h.core.vals, List.getElem?_map]
    simp only [Spec.step, hai]
    cases hi : s.2[i]? with
    | none => exact ⟨h.core, by first | rfl | trivial⟩
    | some ref =>
      simp only [Option.map_some]
      cases hl : lookup ref s.1.dicts with
      | none =>
        have hv : valOf s.1 ref = .set (s.1.setOf ref) := by simp [valOf, hl]
        have hd : s.1.dictOf ref = [] := by simp [CfgState.dictOf, hl]
        simp only [hv, hd, validateDict_nil]
        exact ⟨h.core, by first | rfl | trivial⟩
      | some d =>
        have hv : valOf s.1 ref = .dict d := by simp [valOf, hl]
        have hd : s.1.dictOf ref = d := by simp [CfgState.dictOf, hl]
        simp only [hv, hd]
        cases hvd : validateDict d with
        | some e => exact ⟨h.core, by first | rfl | trivial⟩
        | none => exact ⟨h.core.commit h.inv _, by first | rfl | trivial⟩
  | setOther => exact ⟨h.core, by first | rfl | trivial⟩
  | getAlphabet =>
    rw [step_getAlphabet]
    simp only [Spec.step]
    cases hr : s.1.alphaCache with
    | some r =>
      refine ⟨h.core.alphaHit h.inv h.alpha hr, ?_⟩
      simp only [CfgState.setOf, h.alpha r hr, Option.getD_some, hcur]
    | none =>
      refine ⟨h.core.alphaMiss h.inv, ?_⟩
      have h2 := h.inv.setsLt s.1.nextId
      simp only [CfgState.setOf, CfgState.allocSet, lookup_snoc, hcur]
      cases hl : lookup s.1.nextId s.1.sets with
      | none => simp
      | some v => simp [hl] at h2
  | newDict d => exact ⟨h.core.alloc h.inv d, by first | rfl | trivial⟩
  | mutDict i k v =>
    rw [step_mutDict]
    cases hi : s.2[i]? with
    | none =>
      have : a.2[i]? = none := by rw [h.core.vals, List.getElem?_map, hi]; rfl
      simp only [Spec.step, this]
      exact ⟨h.core, by first | rfl | trivial⟩
    | some ref =>
      refine ⟨h.core.mutD h.inv hi k v, ?_⟩
      have : a.2[i]? = some (valOf s.1 ref) := by rw [h.core.vals, List.getElem?_map, hi]; rfl
      simp only [Spec.step, this]
      cases valOf s.1 ref <;> rfl
  | mutSet i x =>
    rw [step_mutSet]
    cases hi : s.2[i]? with
    | none =>
      have : a.2[i]? = none := by rw [h.core.vals, List.getElem?_map, hi]; rfl
      simp only [Spec.step, this]
      exact ⟨h.core, by first | rfl | trivial⟩
    | some ref =>
      have hai : a.2[i]? = some (valOf s.1 ref) := by
        rw [h.core.vals, List.getElem?_map, hi]; rfl
      simp only [safeOp, hi, Option.isNone_iff_eq_none] at hs
      have hlive := h.inv.heldLive ref (List.mem_of_getElem? hi)
      simp only [hs, Option.isSome_none, Bool.false_eq_true, or_false] at hlive
      obtain ⟨d, hd⟩ := Option.isSome_iff_exists.mp hlive
      have hv : valOf s.1 ref = .dict d := by simp [valOf, hd]
      simp only [mutateSet_eq_self _ _ _ hs, Spec.step, hai, hv]
      exact ⟨h.core, by first | rfl | trivial⟩
  | capacity e c =>
    rw [step_capacity]
    simp only [Spec.step, cachedCapacity_snd h.coh, hcur]
    exact ⟨h.core.cap e c, by first | rfl | trivial⟩

theorem Sim.runFrom {s : Cfg} {a : ACfg} (h : Sim s a) (ops : List Op)
    (hs : safeFrom s ops = true) :
    Sim (SV.runFrom s ops).1 (Spec.runFrom a ops).1 ∧
      (SV.runFrom s ops).2 = (Spec.runFrom a ops).2 := by
  induction ops generalizing s a with
  | nil => exact ⟨h, by first | rfl | trivial⟩
  | cons op ops ih =>
    simp only [safeFrom, Bool.and_eq_true] at hs
    obtain ⟨h1, h2⟩ := h.step op hs.1
    obtain ⟨h3, h4⟩ := ih h1 hs.2
    exact ⟨h3, by simp only [SV.runFrom, Spec.runFrom, h2, h4]⟩

/-! ### validation: the key grammar -/

theorem findChar_eq_none {c : Char} {s : Str} : findChar c s = none ↔ c ∉ s := by
  unfold findChar
  rw [List.findIdx?_eq_none_iff]
  constructor
  · intro h hm; simpa using h c hm
  · intro h x hx; simp only [beq_eq_false_iff_ne, ne_eq]; rintro rfl; exact h hx

theorem findChar_eq_some {c : Char} {s : Str} {i : Nat} (h : findChar c s = some i) :
    ∃ pre post, s = pre ++ c :: post ∧ pre.length = i ∧ c ∉ pre := by
  unfold findChar at h
  induction s generalizing i with
  | nil => simp at h
  | cons x xs ih =>
    rw [List.findIdx?_cons] at h
    split at h
    · rename_i hx
      simp only [beq_iff_eq] at hx
      simp only [Option.some.injEq] at h
      exact ⟨[], xs, by simp [hx], by simp [h], by simp⟩
    · rename_i hx
      simp only [beq_iff_eq] at hx
      cases hr : List.findIdx? (fun x => x == c) xs with
      | none => simp [hr] at h
      | some k =>
        simp only [hr, Option.map_some, Option.some.injEq] at h
        obtain ⟨pre, post, h1, h2, h3⟩ := ih hr
        refine ⟨x :: pre, post, by simp [h1], by simp [h2, h], ?_⟩
        simp only [List.mem_cons, not_or]
        exact ⟨fun e => hx e.symm, h3⟩

theorem findChar_split {c : Char} {pre post : Str} (h : c ∉ pre) :
    findChar c (pre ++ c :: post) = some pre.length := by
  unfold findChar
  rw [List.findIdx?_append, List.findIdx?_cons]
  have : List.findIdx? (fun x => x == c) pre = none := findChar_eq_none.mpr h
  simp [this]

/-- `s.find(c)` of `pre ++ rest` when `c` does not occur in `rest`: the index (if any) lies in `pre` -/
theorem findChar_append_notin {c : Char} {pre rest : Str} (h : c ∉ rest) :
    findChar c (pre ++ rest) = findChar c pre := by
  unfold findChar
  rw [List.findIdx?_append]
  have : List.findIdx? (fun x => x == c) rest = none := findChar_eq_none.mpr h
  simp [this]

theorem findChar_lt {c : Char} {s : Str} {i : Nat} (h : findChar c s = some i) : i < s.length := by
  obtain ⟨pre, post, h1, h2, _⟩ := findChar_eq_some h
  subst h1; simp; omega

/-- the `C` of a key `E+C` / `E-C`: matches `[1-9][0-9]*` and is convertible by `int()`, i.e. has
    at most `Gen.intMaxStrDigits` (= `sys.get_int_max_str_digits()`) digits (repair of F10) -/
def IsCharge (t : Str) : Prop :=
  ∃ d ds, t = d :: ds ∧ isDigit19 d = true ∧ (∀ c ∈ ds, isAsciiDigit c = true) ∧
    t.length ≤ Gen.intMaxStrDigits

theorem isCharge_nil : ¬ IsCharge [] := by simp [IsCharge]

theorem isCharge_cons (d : Char) (ds : Str) :
    IsCharge (d :: ds) ↔ isDigit19 d = true ∧ (∀ c ∈ ds, isAsciiDigit c = true) ∧
      (d :: ds).length ≤ Gen.intMaxStrDigits := by
  constructor
  · rintro ⟨d', ds', h, h1, h2, h3⟩
    cases h; exact ⟨h1, h2, h3⟩
  · rintro ⟨h1, h2, h3⟩; exact ⟨d, ds, rfl, h1, h2, h3⟩

theorem IsCharge.length_le {t : Str} (h : IsCharge t) : t.length ≤ Gen.intMaxStrDigits := by
  obtain ⟨_, _, _, _, _, h3⟩ := h; exact h3

theorem isAsciiDigit_ne_sign {c : Char} (h : isAsciiDigit c = true) : c ≠ '+' ∧ c ≠ '-' := by
  constructor <;> rintro rfl <;> revert h <;> decide

theorem isDigit19_ne_sign {c : Char} (h : isDigit19 c = true) : c ≠ '+' ∧ c ≠ '-' := by
  constructor <;> rintro rfl <;> revert h <;> decide

theorem IsCharge.no_sign {t : Str} (h : IsCharge t) : '+' ∉ t ∧ '-' ∉ t := by
  obtain ⟨d, ds, rfl, h1, h2, _⟩ := h
  have := isDigit19_ne_sign h1
  constructor <;> simp only [List.mem_cons, not_or] <;> refine ⟨?_, ?_⟩
  · exact fun e => this.1 e.symm
  · exact fun hm => (isAsciiDigit_ne_sign (h2 _ hm)).1 rfl
  · exact fun e => this.2 e.symm
  · exact fun hm => (isAsciiDigit_ne_sign (h2 _ hm)).2 rfl

/-- The key grammar accepted by `set_semantic_constraints`, spelled out.
    The code splits a key at `j = max(key.find("+"), key.find("-"))`, i.e. at the LAST of the
    first `+` and the first `-`; the part after `j` must match `[1-9][0-9]*` (and have at most
    `Gen.intMaxStrDigits` digits, so that `int()` converts it: `IsCharge`) and so contains no
    sign, hence in an accepted key the split point is the last sign character of the key and it
    is at the same time the first occurrence of that sign (`sign ∉ E`). -/
def ValidKeySpec (key : Str) : Prop :=
  key = ['?'] ∨
  ('+' ∉ key ∧ '-' ∉ key ∧ key ∈ Gen.elements) ∨
  ∃ E sign C, key = E ++ sign :: C ∧ (sign = '+' ∨ sign = '-') ∧ sign ∉ E ∧
    E ∈ Gen.elements ∧ IsCharge C

theorem memStr_iff_mem (s : Str) (l : List Str) : memStr s l = true ↔ s ∈ l := by
  simp [memStr]

theorem validKey_of_split {E C : Str} {sign : Char} (hs : sign = '+' ∨ sign = '-')
    (hE : sign ∉ E) (hel : E ∈ Gen.elements) (hC : IsCharge C) :
    validKey (E ++ sign :: C) = true := by
  have hno := hC.no_sign
  have htake : (E ++ sign :: C).take E.length = E := List.take_left' rfl
  have hdrop : (E ++ sign :: C).drop (E.length + 1) = C := by
    have : E ++ sign :: C = (E ++ [sign]) ++ C := by simp
    rw [this]; exact List.drop_left' (by simp)
  have hfin : (memStr ((E ++ sign :: C).take E.length) Gen.elements &&
      (match (E ++ sign :: C).drop (E.length + 1) with
        | d :: ds => isDigit19 d && ds.all isAsciiDigit &&
                     decide ((d :: ds).length ≤ Gen.intMaxStrDigits)
        | [] => false)) = true := by
    rw [htake, hdrop, Bool.and_eq_true, memStr_iff_mem]
    refine ⟨hel, ?_⟩
    obtain ⟨d, ds, rfl, h1, h2, h3⟩ := hC
    simp only [h1, Bool.true_and, Bool.and_eq_true, List.all_eq_true, decide_eq_true_eq]
    exact ⟨h2, h3⟩
  -- the other sign, if present at all, occurs before the split point
  have hother : ∀ o : Char, o ≠ sign → o ∉ C →
      findChar o (E ++ sign :: C) = none ∨ ∃ b, findChar o (E ++ sign :: C) = some b ∧ b < E.length := by
    intro o ho hoC
    have : o ∉ sign :: C := by simp [ho, hoC]
    rw [findChar_append_notin this]
    cases hf : findChar o E with
    | none => exact .inl rfl
    | some b => exact .inr ⟨b, rfl, findChar_lt hf⟩
  have hself : findChar sign (E ++ sign :: C) = some E.length := findChar_split hE
  unfold validKey
  simp only []
  split
  · rfl
  · rcases hs with rfl | rfl
    · rw [hself]
      rcases hother '-' (by decide) hno.2 with h | ⟨b, h, hb⟩
      · rw [h]; exact hfin
      · rw [h]; simp only []; rw [Nat.max_eq_left (Nat.le_of_lt hb)]; exact hfin
    · rw [hself]
      rcases hother '+' (by decide) hno.1 with h | ⟨b, h, hb⟩
      · rw [h]; exact hfin
      · rw [h]; simp only []; rw [Nat.max_eq_right (Nat.le_of_lt hb)]; exact hfin

theorem split_of_check {key : Str} {sign : Char} {j : Nat} (hf : findChar sign key = some j)
    (h : (memStr (key.take j) Gen.elements &&
      (match key.drop (j + 1) with
        | d :: ds => isDigit19 d && ds.all isAsciiDigit &&
                     decide ((d :: ds).length ≤ Gen.intMaxStrDigits)
        | [] => false)) = true) :
    ∃ E C, key = E ++ sign :: C ∧ sign ∉ E ∧ E ∈ Gen.elements ∧ IsCharge C := by
  obtain ⟨pre, post, h1, h2, h3⟩ := findChar_eq_some hf
  subst h1
  have htake : (pre ++ sign :: post).take j = pre := List.take_left' h2
  have hdrop : (pre ++ sign :: post).drop (j + 1) = post := by
    have : pre ++ sign :: post = (pre ++ [sign]) ++ post := by simp
    rw [this]; exact List.drop_left' (by simp [h2])
  rw [htake, hdrop, Bool.and_eq_true, memStr_iff_mem] at h
  refine ⟨pre, post, rfl, h3, h.1, ?_⟩
  cases post with
  | nil => simp at h
  | cons d ds =>
    have h' := h.2
    simp only [Bool.and_eq_true, List.all_eq_true, decide_eq_true_eq] at h'
    exact (isCharge_cons d ds).mpr ⟨h'.1.1, h'.1.2, h'.2⟩

theorem validKey_iff (key : Str) : validKey key = true ↔ ValidKeySpec key := by
  constructor
  · intro h
    unfold validKey at h
    simp only [] at h
    split at h
    · rename_i hq
      exact .inl (by simpa [qKey] using hq)
    · right
      cases hp : findChar '+' key with
      | none =>
        cases hm : findChar '-' key with
        | none =>
          rw [hp, hm] at h
          exact .inl ⟨findChar_eq_none.mp hp, findChar_eq_none.mp hm, (memStr_iff_mem _ _).mp h⟩
        | some b =>
          rw [hp, hm] at h
          obtain ⟨E, C, h1, h2, h3, h4⟩ := split_of_check hm h
          exact .inr ⟨E, '-', C, h1, .inr rfl, h2, h3, h4⟩
      | some a =>
        cases hm : findChar '-' key with
        | none =>
          rw [hp, hm] at h
          obtain ⟨E, C, h1, h2, h3, h4⟩ := split_of_check hp h
          exact .inr ⟨E, '+', C, h1, .inl rfl, h2, h3, h4⟩
        | some b =>
          rw [hp, hm] at h
          simp only [] at h
          rcases Nat.le_total a b with hab | hab
          · rw [Nat.max_eq_right hab] at h
            obtain ⟨E, C, h1, h2, h3, h4⟩ := split_of_check hm h
            exact .inr ⟨E, '-', C, h1, .inr rfl, h2, h3, h4⟩
          · rw [Nat.max_eq_left hab] at h
            obtain ⟨E, C, h1, h2, h3, h4⟩ := split_of_check hp h
            exact .inr ⟨E, '+', C, h1, .inl rfl, h2, h3, h4⟩
  · rintro (rfl | ⟨h1, h2, h3⟩ | ⟨E, sign, C, rfl, hs, hE, hel, hC⟩)
    · rfl
    · unfold validKey
      simp only [findChar_eq_none.mpr h1, findChar_eq_none.mpr h2]
      split
      · rfl
      · exact (memStr_iff_mem _ _).mpr h3
    · exact validKey_of_split hs hE hel hC

/-- side condition on the generated `ELEMENTS`: no element symbol contains a sign -/
theorem elements_no_sign : ∀ E ∈ Gen.elements, '+' ∉ E ∧ '-' ∉ E := by decide

/-- the key grammar for the actual `ELEMENTS` table: `?`, `E`, `E+C`, `E-C` -/
theorem validKey_iff_simple (key : Str) :
    validKey key = true ↔
      key = ['?'] ∨ key ∈ Gen.elements ∨
      ∃ E sign C, key = E ++ sign :: C ∧ (sign = '+' ∨ sign = '-') ∧ E ∈ Gen.elements ∧
        IsCharge C := by
  rw [validKey_iff]
  constructor
  · rintro (h | ⟨_, _, h⟩ | ⟨E, sign, C, h1, h2, _, h3, h4⟩)
    · exact .inl h
    · exact .inr (.inl h)
    · exact .inr (.inr ⟨E, sign, C, h1, h2, h3, h4⟩)
  · rintro (h | h | ⟨E, sign, C, h1, h2, h3, h4⟩)
    · exact .inl h
    · exact .inr (.inl ⟨(elements_no_sign _ h).1, (elements_no_sign _ h).2, h⟩)
    · refine .inr (.inr ⟨E, sign, C, h1, h2, ?_, h3, h4⟩)
      rcases h2 with rfl | rfl
      · exact (elements_no_sign _ h3).1
      · exact (elements_no_sign _ h3).2

/-! ### validation: the dict -/

/-- an entry that passes both checks of the validation loop -/
def EntryOK (kv : PyKey × PyVal) : Prop :=
  ∃ s, kv.1 = .str s ∧ validKey s = true ∧ kv.2.validCapacity = true

/-- `"?" in bond_constraints` -/
def HasQ (d : PyDict) : Prop := PyKey.str qKey ∈ d.map (·.1)

theorem hasQ_iff (d : PyDict) : (d.any fun kv => kv.1 == PyKey.str qKey) = true ↔ HasQ d := by
  simp [HasQ]

theorem validateDict_of_noQ {d : PyDict} (h : ¬ HasQ d) : validateDict d = some .ValueError := by
  rw [← hasQ_iff] at h
  simp only [Bool.not_eq_true] at h
  simp [validateDict, h]

theorem validateDict_of_hasQ {d : PyDict} (h : HasQ d) : validateDict d = validateDict.go d := by
  rw [← hasQ_iff] at h
  simp [validateDict, h]

theorem go_cons_ok {kv : PyKey × PyVal} (h : EntryOK kv) (rest : PyDict) :
    validateDict.go (kv :: rest) = validateDict.go rest := by
  obtain ⟨k, v⟩ := kv
  obtain ⟨s, rfl, h1, h2⟩ := h
  simp only [] at h1 h2
  simp [validateDict.go, h1, h2]

theorem go_none_iff (d : PyDict) : validateDict.go d = none ↔ ∀ kv ∈ d, EntryOK kv := by
  induction d with
  | nil => simp [validateDict.go]
  | cons kv rest ih =>
    obtain ⟨k, v⟩ := kv
    cases k with
    | other => simp [validateDict.go, EntryOK]
    | str s =>
      simp only [validateDict.go, List.mem_cons, forall_eq_or_imp]
      by_cases h1 : validKey s = true
      · by_cases h2 : v.validCapacity = true
        · simp [h1, h2, ih, EntryOK]
        · simp [h1, h2, EntryOK]
      · simp [h1, EntryOK]

/-- the loop raises `AttributeError` exactly when the first entry that is not OK has a
    non-`str` key -/
theorem go_attr_iff (d : PyDict) :
    validateDict.go d = some .AttributeError ↔
      ∃ pre v post, d = pre ++ (PyKey.other, v) :: post ∧ ∀ kv ∈ pre, EntryOK kv := by
  induction d with
  | nil => simp [validateDict.go]
  | cons kv rest ih =>
    obtain ⟨k, v⟩ := kv
    by_cases hok : EntryOK (k, v)
    · rw [go_cons_ok hok, ih]
      constructor
      · rintro ⟨pre, v', post, rfl, h⟩
        exact ⟨(k, v) :: pre, v', post, rfl, by simpa [hok] using h⟩
      · rintro ⟨pre, v', post, h1, h2⟩
        cases pre with
        | nil =>
          simp only [List.nil_append, List.cons.injEq, Prod.mk.injEq] at h1
          obtain ⟨⟨rfl, rfl⟩, rfl⟩ := h1
          obtain ⟨s, hs, _⟩ := hok
          cases hs
        | cons p pre =>
          simp only [List.cons_append, List.cons.injEq] at h1
          obtain ⟨rfl, rfl⟩ := h1
          exact ⟨pre, v', post, rfl, fun kv hkv => h2 kv (List.mem_cons_of_mem _ hkv)⟩
    · cases k with
      | other =>
        simp only [validateDict.go, true_iff]
        exact ⟨[], v, rest, rfl, by simp⟩
      | str s =>
        have hgo : validateDict.go ((PyKey.str s, v) :: rest) = some .ValueError := by
          simp only [EntryOK, PyKey.str.injEq, exists_eq_left'] at hok
          simp only [validateDict.go]
          by_cases h1 : validKey s = true
          · have h2 : v.validCapacity = false := by simpa [h1] using hok
            simp [h1, h2]
          · simp [h1]
        rw [hgo]
        constructor
        · intro h; simp at h
        · rintro ⟨pre, v', post, h1, h2⟩
          cases pre with
          | nil => simp at h1
          | cons p pre =>
            simp only [List.cons_append, List.cons.injEq] at h1
            exact absurd (h1.1 ▸ h2 p (List.mem_cons_self)) hok

theorem go_error_class {d : PyDict} {e : PyExc} (h : validateDict.go d = some e) :
    e = .ValueError ∨ e = .AttributeError := by
  induction d with
  | nil => simp [validateDict.go] at h
  | cons kv rest ih =>
    obtain ⟨k, v⟩ := kv
    cases k with
    | other => simp [validateDict.go] at h; exact .inr h.symm
    | str s =>
      simp only [validateDict.go] at h
      split at h
      · simp at h; exact .inl h.symm
      · split at h
        · simp at h; exact .inl h.symm
        · exact ih h


/-! ### odds and ends for the property theorems -/

theorem toConstraints_constraintsToPyDict (c : Constraints) :
    (constraintsToPyDict c).toConstraints = c := by
  induction c with
  | nil => rfl
  | cons p c ih =>
    obtain ⟨k, v⟩ := p
    simp only [constraintsToPyDict, PyDict.toConstraints, List.map_cons, List.filterMap_cons,
      PyVal.toNat, Int.toNat_natCast] at ih ⊢
    rw [ih]

theorem lookup_spec_presets (n : Str) :
    lookup n Spec.init.presets = (lookup n Gen.presets).map constraintsToPyDict :=
  lookup_map_val constraintsToPyDict n Gen.presets

/-- the lookup form of cache coherence asked for by property C11 -/
def Coherent (st : CfgState) : Prop :=
  (∀ e c v, lookup (e, c) st.capCache = some v → getBondingCapacity st.currentTable e c = .ok v) ∧
  st.capCache.length ≤ 128

theorem CacheSound.coherent {st : CfgState} (h : CacheSound st) : Coherent st :=
  ⟨fun _ _ _ hv => h.1 _ (lookup_some_mem hv), h.2⟩

theorem effectiveCapacity_eq {st : CfgState} (h : Coherent st) (e : Str) (c : Int) :
    st.effectiveCapacity e c = getBondingCapacity st.currentTable e c := by
  unfold CfgState.effectiveCapacity
  split
  · rename_i v hv; exact (h.1 e c v hv).symm
  · rfl

theorem CacheSound.runFrom {s : Cfg} (hi : Inv s) (h : CacheSound s.1) (ops : List Op) :
    CacheSound (SV.runFrom s ops).1.1 := by
  induction ops generalizing s with
  | nil => exact h
  | cons op ops ih => exact ih (hi.step op) (h.step hi op)

theorem AlphaOK.runFrom {s : Cfg} (hi : Inv s) (h : AlphaOK s.1) (ops : List Op)
    (hs : safeFrom s ops = true) : AlphaOK (SV.runFrom s ops).1.1 := by
  induction ops generalizing s with
  | nil => exact h
  | cons op ops ih =>
    simp only [safeFrom, Bool.and_eq_true] at hs
    exact ih (hi.step op) (h.step hi op hs.1) hs.2

theorem safeFrom_append (s : Cfg) (ops ops' : List Op) :
    safeFrom s (ops ++ ops') = (safeFrom s ops && safeFrom (SV.runFrom s ops).1 ops') := by
  induction ops generalizing s with
  | nil => simp [safeFrom, SV.runFrom]
  | cons op ops ih => simp only [List.cons_append, safeFrom, SV.runFrom, ih, Bool.and_assoc]


/-! ### `AlphaSafe` read off the specification alone -/

/-- in the abstract run: the step does not `.add` to a value that is a set -/
def Spec.safeOp (a : ACfg) : Op → Bool
  | .mutSet i _ =>
    match a.2[i]? with
    | some (.set _) => false
    | _ => true
  | _ => true

def Spec.safeFrom (a : ACfg) : List Op → Bool
  | [] => true
  | op :: ops => Spec.safeOp a op && Spec.safeFrom (Spec.step a op).1 ops

theorem Sim.safeOp_eq {s : Cfg} {a : ACfg} (h : Sim s a) (op : Op) :
    safeOp s op = Spec.safeOp a op := by
  cases op with
  | mutSet i x =>
    have hai : a.2[i]? = (s.2[i]?).map (valOf s.1) := by rw [h.core.vals, List.getElem?_map]
    simp only [safeOp, Spec.safeOp, hai]
    cases hi : s.2[i]? with
    | none => rfl
    | some ref =>
      simp only [Option.map_some]
      cases hl : lookup ref s.1.dicts with
      | some d =>
        have hv : valOf s.1 ref = .dict d := by simp [valOf, hl]
        have := h.inv.disjoint ref (by simp [hl])
        simp only [hv]
        simpa using this
      | none =>
        have hv : valOf s.1 ref = .set (s.1.setOf ref) := by simp [valOf, hl]
        have := h.inv.heldLive ref (List.mem_of_getElem? hi)
        simp only [hl, Option.isSome_none, Bool.false_eq_true, false_or] at this
        simp only [hv]
        cases hs : lookup ref s.1.sets with
        | none => simp [hs] at this
        | some x => rfl
  | _ => rfl

theorem Sim.safeFrom_eq {s : Cfg} {a : ACfg} (h : Sim s a) (ops : List Op) :
    safeFrom s ops = Spec.safeFrom a ops := by
  induction ops generalizing s a with
  | nil => rfl
  | cons op ops ih =>
    simp only [safeFrom, Spec.safeFrom, h.safeOp_eq op]
    cases hs : Spec.safeOp a op with
    | false => rfl
    | true =>
      have := (h.step op (by rw [h.safeOp_eq op]; exact hs)).1
      simp only [Bool.true_and]
      exact ih this

end SV
