/-
  C03p, stage C (2): every atom of a parsed graph is one whose SELFIES symbol is read back as the
  same atom (`Atom.wfb`, the executable form of C10's `AtomWF` used by the round-trip theorem),
  provided the SMILES string is not longer than `int()`'s digit limit (C10: a run of `k` sign
  characters is a charge of magnitude `k`).

  Needs the tokenizer's guarantee about atom tokens: an unbracketed atom token is one letter, `Br`
  or `Cl` (so an unbracketed aromatic atom is one of `b c n o p s`, whose capitalised element is in
  the organic subset).
-/
import SelfiesVerif.Proofs.ParserSteps
import SelfiesVerif.Props.C10
import SelfiesVerif.Spec.SameMolecule

namespace SV

/-! ### tokens -/

def AtomTextOK (text : Str) : Prop :=
  text.length ≤ 1 ∨ memStr text Gen.organicSubset = true ∨ text.head? = some '['

/-- what the tokenizer guarantees of a token of a string of length `L` -/
def TokOK (L : Nat) (t : SmilesTok) : Prop :=
  t.text.length ≤ L ∧ (t.kind = .atom → AtomTextOK t.text)

/-- side conditions on the generated tables -/
def OrganicTwoLetterOK : Prop :=
  memStr ['B', 'r'] Gen.organicSubset = true ∧ memStr ['C', 'l'] Gen.organicSubset = true

theorem organicTwoLetterOK : OrganicTwoLetterOK := by unfold OrganicTwoLetterOK; decide

def AromaticCapOK : Prop :=
  ∀ s ∈ Gen.aromaticSubset, (s.length ≤ 1 ∨ s.head? = some '[') → capitalizeAscii s ∈ Gen.organicSubset

theorem aromaticCapOK : AromaticCapOK := by unfold AromaticCapOK; decide

theorem spanCloseBracket_length : ∀ (s body rest : Str), spanCloseBracket s = some (body, rest) →
    body.length + rest.length = s.length
  | [], _, _, h => by cases h
  | c :: s, body, rest, h => by
    unfold spanCloseBracket at h
    split at h
    · injection h with h; injection h with h1 h2; subst h1 h2; simp; omega
    · split at h
      · rename_i a r hrec
        injection h with h; injection h with h1 h2
        have := spanCloseBracket_length s a r hrec
        subst h1 h2
        simp; omega
      · cases h

theorem lexSymbol_ok {bond : Option Char} {s : Str} {tok : SmilesTok} {rest : Str}
    (h : lexSymbol bond s = some (tok, rest)) : TokOK s.length tok := by
  have key : ∀ (t : SmilesTok) (r : Str), some (t, r) = some (tok, rest) →
      TokOK s.length t → TokOK s.length tok := by
    intro t r e ht
    simp only [Option.some.injEq, Prod.mk.injEq] at e
    rw [← e.1]; exact ht
  cases s with
  | nil => simp [lexSymbol] at h
  | cons c s =>
    rw [lexSymbol.eq_def] at h
    dsimp only at h
    by_cases h1 : pyIsAlpha c = true
    · rw [if_pos h1] at h
      cases s with
      | nil => exact key _ _ h ⟨by simp, fun _ => Or.inl (by simp)⟩
      | cons d s' =>
        dsimp only at h
        by_cases hbr : (c == 'B' && d == 'r' || c == 'C' && d == 'l') = true
        · rw [if_pos hbr] at h
          refine key _ _ h ⟨by simp, fun _ => Or.inr (Or.inl ?_)⟩
          simp only [Bool.or_eq_true, Bool.and_eq_true, beq_iff_eq] at hbr
          rcases hbr with ⟨rfl, rfl⟩ | ⟨rfl, rfl⟩
          · exact organicTwoLetterOK.1
          · exact organicTwoLetterOK.2
        · rw [if_neg hbr] at h
          exact key _ _ h ⟨by simp, fun _ => Or.inl (by simp)⟩
    · rw [if_neg h1] at h
      by_cases h2 : (c == '[') = true
      · rw [if_pos h2] at h
        have hc' : c = '[' := by simpa using h2
        cases hsp : spanCloseBracket s with
        | none => rw [hsp] at h; cases h
        | some br =>
          obtain ⟨body, rest'⟩ := br
          rw [hsp] at h
          have := spanCloseBracket_length _ _ _ hsp
          exact key _ _ h ⟨by simp; omega, fun _ => Or.inr (Or.inr (by simp [hc']))⟩
      · rw [if_neg h2] at h
        by_cases h3 : (c == '(' || c == ')') = true
        · rw [if_pos h3] at h
          split at h
          · cases h
          · exact key _ _ h ⟨by simp, fun hk => by cases hk⟩
        · rw [if_neg h3] at h
          by_cases h4 : pyIsDigit c = true
          · rw [if_pos h4] at h
            exact key _ _ h ⟨by simp, fun hk => by cases hk⟩
          · rw [if_neg h4] at h
            by_cases h5 : (c == '%') = true
            · rw [if_pos h5] at h
              match s, h with
              | d1 :: d2 :: rest', h =>
                dsimp only at h
                split at h
                · exact key _ _ h ⟨by simp, fun hk => by cases hk⟩
                · cases h
              | [], h => cases h
              | [_], h => cases h
            · rw [if_neg h5] at h; cases h

theorem TokOK.mono {L L' : Nat} {t : SmilesTok} (h : TokOK L t) (hl : L ≤ L') : TokOK L' t :=
  ⟨Nat.le_trans h.1 hl, h.2⟩

theorem tokenizeSmiles_ok : ∀ (fuel : Nat) (s : Str) (toks : List SmilesTok),
    tokenizeSmiles fuel s = some toks → ∀ t ∈ toks, TokOK s.length t
  | 0, [], toks, h => by
    simp only [tokenizeSmiles, Option.some.injEq] at h; subst h; intro t ht; cases ht
  | 0, _ :: _, toks, h => by simp [tokenizeSmiles] at h
  | _ + 1, [], toks, h => by
    simp only [tokenizeSmiles, Option.some.injEq] at h; subst h; intro t ht; cases ht
  | fuel + 1, c :: rest, toks, h => by
    rw [tokenizeSmiles] at h
    split at h
    · -- dot
      simp only [Option.map_eq_some_iff] at h
      obtain ⟨l, hl, rfl⟩ := h
      intro t ht
      rcases List.mem_cons.1 ht with rfl | ht
      · exact ⟨by simp, fun hk => by cases hk⟩
      · exact (tokenizeSmiles_ok fuel rest l hl t ht).mono (by simp)
    · dsimp only at h
      split at h
      · cases h
      · rename_i tok rest2 hlex
        split at h
        · rename_i hlt
          simp only [Option.map_eq_some_iff] at h
          obtain ⟨l, hl, rfl⟩ := h
          intro t ht
          rcases List.mem_cons.1 ht with rfl | ht
          · refine (lexSymbol_ok hlex).mono ?_
            split <;> simp
          · exact (tokenizeSmiles_ok fuel rest2 l hl t ht).mono (Nat.le_of_lt hlt)
        · cases h

/-! ### atoms -/

theorem wfb_of {a : Atom} (hwf : AtomWF a) (horg : a.hCount = none → a.element ∈ Gen.organicSubset) :
    a.wfb = true := by
  obtain ⟨⟨hel, hchir, hnone, hcount, hiso⟩, hchg⟩ := hwf
  unfold Atom.wfb
  simp only [Bool.and_eq_true, Bool.or_eq_true, beq_iff_eq, decide_eq_true_eq, memStr_iff]
  refine ⟨⟨⟨⟨hel, ?_⟩, ?_⟩, ?_⟩, hchg⟩
  · rcases hchir with h | h | h
    · exact Or.inl (Or.inl h)
    · exact Or.inl (Or.inr h)
    · exact Or.inr h
  · cases hh : a.hCount with
    | none =>
      obtain ⟨h1, h2, h3⟩ := hnone hh
      simp only [Bool.and_eq_true, beq_iff_eq, memStr_iff]
      exact ⟨⟨⟨h1, h2⟩, h3⟩, horg hh⟩
    | some k => simpa using hcount k hh
  · cases hi : a.isotope with
    | none => rfl
    | some n => simpa using hiso n hi

/-- the atom of an atom token -/
theorem smilesToAtom_wfb {text : Str} {a : Atom} (h : smilesToAtom text = some a)
    (hlen : text.length ≤ 10 ^ Gen.intMaxStrDigits) (htok : AtomTextOK text) : a.wfb = true := by
  obtain ⟨_, _, _, hwf⟩ := C10_smilesToAtom_wf text a h
  refine wfb_of (hwf hlen) ?_
  intro hn
  unfold smilesToAtom at h
  split at h
  · obtain ⟨n, hn'⟩ := (smilesBracketToAtom_shape text a h).2.1
    rw [hn] at hn'; cases hn'
  · split at h
    · rename_i horg
      injection h with h; subst h
      exact (memStr_iff _ _).1 horg
    · rename_i hnorg
      split at h
      · rename_i haro
        injection h with h; subst h
        rw [memStr_iff] at haro
        rcases htok with h1 | h1 | h1
        · exact aromaticCapOK text haro (Or.inl h1)
        · exact absurd h1 hnorg
        · exact aromaticCapOK text haro (Or.inr h1)
      · cases h

theorem invertChirality_wfb {a : Atom} (h : a.wfb = true) : a.invertChirality.wfb = true := by
  unfold Atom.invertChirality
  split
  · rename_i hc
    unfold Atom.wfb at h ⊢
    simp only [hc] at h ⊢
    cases hh : a.hCount with
    | none => rw [hh] at h; simp at h
    | some k => rw [hh] at h; simpa using h
  · split
    · rename_i hc
      unfold Atom.wfb at h ⊢
      simp only [hc] at h ⊢
      cases hh : a.hCount with
      | none => rw [hh] at h; simp at h
      | some k => rw [hh] at h; simpa using h
    · exact h

theorem dearom_wfb {a : Atom} (h : a.wfb = true) : ({ a with isAromatic := false } : Atom).wfb = true := h

/-- all atoms of the graph are well formed -/
def AtomsWfb (m : PMol) : Prop := ∀ a ∈ m.atoms, a.wfb = true

theorem atoms_step {attrib : Bool} {L : Nat} (hL : L ≤ 10 ^ Gen.intMaxStrDigits) {st st' : ParseSt}
    (h : AtomsWfb st.mol) (hs : PStep attrib (TokOK L) st st') : AtomsWfb st'.mol := by
  cases hs with
  | atomRoot tok curr tl _ hcurr hk hq =>
    intro a ha
    simp only [PMol.addAtom, List.mem_append, List.mem_singleton] at ha
    rcases ha with ha | rfl
    · exact h a ha
    · exact smilesToAtom_wfb hcurr (Nat.le_trans hq.1 hL) (hq.2 hk)
  | atomAttach tok curr p tl pa mol' _ hcurr _ hadd hk hq =>
    intro a ha
    rw [(addBond_ok hadd).1] at ha
    simp only [PMol.addAtom, List.mem_append, List.mem_singleton] at ha
    rcases ha with ha | rfl
    · exact h a ha
    · exact smilesToAtom_wfb hcurr (Nat.le_trans hq.1 hL) (hq.2 hk)
  | openBranch prev tl _ _ => exact h
  | closeBranch prev tl _ _ _ => exact h
  | ringOpen tok p tl mol' lpos _ _ _ hadd =>
    intro a ha
    rw [(addPlaceholder_ok hadd).1] at ha
    exact h a ha
  | ringClose tok p tl ro mol' _ _ _ hmk =>
    intro a ha
    rw [(makeRingBonds_ok hmk).1] at ha
    exact h a ha

/-- every atom `smiles_to_mol` creates is well formed (string not longer than `int()`'s limit) -/
theorem smilesToMol_atoms {s : Str} {attrib : Bool} {g : PMol}
    (hlen : s.length ≤ 10 ^ Gen.intMaxStrDigits) (h : smilesToMol s attrib = .ok g) : AtomsWfb g :=
  smilesToMol_invariant (Q := TokOK s.length) (G := AtomsWfb) (I := fun st => AtomsWfb st.mol)
    (by intro a ha; cases ha) (fun _ _ hG => hG) (fun _ _ hI hs => atoms_step hlen hI hs)
    (fun _ hI _ _ _ => hI) (fun toks ht => tokenizeSmiles_ok _ _ toks ht) h

end SV
