/-
  C03p, stage B (4): a graph with the structure of a skeleton IS the graph of a well-formed forest.

  * `forest_counts`: in the graph of a well-numbered forest the sum of the orders of the bonds
    incident to atom `v` is `count2` of node `v` (the bond into it + its out-bonds).
  * `assemble`: if `g` is stored as the parser stores graphs (`AdjOK`), its bond counts are the
    incident sums, flags/attributions are as `GFlat` says, no placeholder is left, `ds = []`, and `F`
    is a skeleton of `g` (`Skel`), then `f = F.map (Tree.realize g)` is well formed and
    `g = graphOf f`.
-/
import SelfiesVerif.Proofs.ParserRealize
import SelfiesVerif.Proofs.RoundTripForest

namespace SV

/-! ### counts in the graph of a forest -/

def kidSum (v : Nat) : Items → Nat
  | .nil => 0
  | .ring _ _ _ _ rest => kidSum v rest
  | .child o _ t rest => (if t.idx = v then o else 0) + kidSum v rest

def nOut (v : Nat) (n : NodeInfo) : Nat := (n.row.map (contrib v)).sum

def cntAt (v : Nat) (n : NodeInfo) : Nat := if n.idx = v then n.count2 else 0

theorem Items.row_contrib (i v : Nat) : ∀ its : Items,
    ((its.row i).map (contrib v)).sum = (if i = v then pordSum (its.row i) else 0) + kidSum v its
  | .nil => by simp [Items.row, pordSum, kidSum]
  | .ring p o s s' rest => by
    have ih := Items.row_contrib i v rest
    simp only [Items.row, List.map_cons, List.sum_cons, ih, kidSum, pordSum, contrib, ringBond, if_true]
    by_cases h : i = v <;> simp [h] <;> omega
  | .child o s t rest => by
    have ih := Items.row_contrib i v rest
    simp only [Items.row, List.map_cons, List.sum_cons, ih, kidSum, pordSum, contrib, chainBond,
      Bool.false_eq_true, if_false]
    by_cases h : i = v <;> simp [h] <;> omega

mutual
theorem Tree.sum_out (v : Nat) : ∀ (t : Tree) (into : Option PBond),
    ((t.nodes into).map (nOut v)).sum + (if t.idx = v then intoOrd into else 0)
      = ((t.nodes into).map (cntAt v)).sum
  | .node i a its, into => by
    have ih := Items.sum_out v i its
    have hrow := Items.row_contrib i v its
    simp only [Tree.nodes, List.map_cons, List.sum_cons, Tree.idx]
    have h1 : nOut v ⟨into, i, a, its⟩ = ((its.row i).map (contrib v)).sum := rfl
    have h2 : cntAt v ⟨into, i, a, its⟩ = if i = v then intoOrd into + pordSum (its.row i) else 0 := by
      unfold cntAt NodeInfo.count2 NodeInfo.intoOrder2 pordSum intoOrd NodeInfo.row
      cases into <;> rfl
    rw [h1, h2, hrow]
    clear h1 h2 hrow
    by_cases h : i = v
    · subst h; simp only [if_true]; omega
    · simp only [h, if_false]; omega
theorem Items.sum_out (v i : Nat) : ∀ its : Items,
    ((its.nodes i).map (nOut v)).sum + kidSum v its = ((its.nodes i).map (cntAt v)).sum
  | .nil => rfl
  | .ring _ _ _ _ rest => by
    simp only [Items.nodes, kidSum]; exact Items.sum_out v i rest
  | .child o s t rest => by
    have ih1 := Tree.sum_out v t (some (chainBond i t.idx o s))
    have ih2 := Items.sum_out v i rest
    simp only [Items.nodes, List.map_append, List.sum_append, kidSum]
    have : intoOrd (some (chainBond i t.idx o s)) = o := rfl
    rw [this] at ih1
    omega
end

theorem PForest.sum_out (v : Nat) : ∀ f : PForest,
    (f.nodes.map (nOut v)).sum = (f.nodes.map (cntAt v)).sum
  | [] => rfl
  | t :: f => by
    have h1 := Tree.sum_out v t none
    have h2 := PForest.sum_out v f
    simp only [PForest.nodes, List.flatMap_cons, List.map_append, List.sum_append] at h2 ⊢
    simp only [intoOrd, ite_self, Nat.add_zero] at h1
    omega

theorem incident2_graphOf (f : PForest) (v : Nat) :
    incident2 (graphOf f).adj v = (f.nodes.map (nOut v)).sum := by
  unfold incident2
  rw [graphOf_adj, List.map_map]
  congr 1
  apply List.map_congr_left
  intro n _
  simp only [Function.comp, rowSum, nOut, bondsOf, List.filterMap_map]
  congr 1
  have : List.filterMap (id ∘ some) n.row = n.row := by simp
  rw [this]

theorem sum_unique {L : List NodeInfo} (φ : NodeInfo → Nat) (hnd : (L.map (·.idx)).Nodup)
    {n0 : NodeInfo} (hn0 : n0 ∈ L) :
    (L.map fun n => if n.idx = n0.idx then φ n else 0).sum = φ n0 := by
  induction L with
  | nil => cases hn0
  | cons a L ih =>
    simp only [List.map_cons, List.nodup_cons, List.mem_map, not_exists, not_and] at hnd
    simp only [List.map_cons, List.sum_cons]
    rcases List.mem_cons.1 hn0 with rfl | h
    · have : (L.map fun n => if n.idx = n0.idx then φ n else 0).sum = 0 := by
        apply sum_zero_of_forall
        intro x hx
        obtain ⟨n, hn, rfl⟩ := List.mem_map.1 hx
        rw [if_neg (hnd.1 n hn)]
      simp [this]
    · have : a.idx ≠ n0.idx := fun e => hnd.1 n0 h e.symm
      rw [if_neg this, ih hnd.2 h]; simp

/-- **bond counts of the graph of a forest** -/
theorem forest_counts {f : PForest} (hnum : f.nodes.map (·.idx) = List.range f.nodes.length)
    {n : NodeInfo} (hn : n ∈ f.nodes) : incident2 (graphOf f).adj n.idx = n.count2 := by
  rw [incident2_graphOf, PForest.sum_out]
  have hnd : (f.nodes.map (·.idx)).Nodup := by rw [hnum]; exact List.nodup_range
  exact sum_unique NodeInfo.count2 hnd hn

/-! ### assembling the forest -/

/-- flags and attributions of a graph parsed with `attributable = False` -/
structure GFlat (m : PMol) : Prop where
  flagsLen : m.ringFlags.length = m.adj.length
  flags : ∀ i, i < m.adj.length → (m.ringFlags.getD i false = true ↔ ∃ b ∈ rowAt m.adj i, b.ring = true)
  attrs : m.atomAttr = List.replicate m.adj.length none
  battr : ∀ i, ∀ b ∈ rowAt m.adj i, b.attr = none

theorem MFlat.gflat {m : PMol} (h : MFlat m) : GFlat m :=
  ⟨h.flagsLen, h.flags, h.attrs, fun i b hb => (h.bonds i b hb).1⟩

theorem bondsOf_map_some (l : List PBond) : bondsOf (l.map some) = l := by
  simp [bondsOf, List.filterMap_map]

/-- what the graph needs for `assemble` -/
structure Assemblable (g : PMol) (F : PForest) : Prop where
  ok : AdjOK g.adj
  alen : g.atoms.length = g.adj.length
  clen : g.counts2.length = g.adj.length
  cnt : ∀ v, v < g.adj.length → g.counts2.getD v 0 = incident2 g.adj v
  flat : GFlat g
  noHoles : ∀ (a p : Nat), (rowOf g.adj a)[p]? ≠ some none
  skel : Skel g F
  ds : g.ds = []

/-- the realized forest -/
def forestFor (g : PMol) (F : PForest) : PForest := F.map (Tree.realize g)

section
variable {g : PMol} {F : PForest}

theorem forestFor_idx (h : Assemblable g F) : (forestFor g F).nodes.map (·.idx) = List.range g.adj.length := by
  have := congrArg (List.map (fun x : Nat × Atom × Items => x.1)) (PForest.nodes_realize g F)
  have h1 : (forestFor g F).nodes.map (·.idx) = F.nodes.map (·.idx) := by
    simpa [List.map_map, Function.comp_def, NodeInfo.core, NodeInfo.realize, forestFor] using this
  rw [h1, h.skel.num]

theorem forestFor_length (h : Assemblable g F) : (forestFor g F).nodes.length = g.adj.length := by
  have := congrArg List.length (forestFor_idx h)
  simpa using this

/-- every node of the realized forest carries the atom and the row of the graph -/
theorem forestFor_node (h : Assemblable g F) {n : NodeInfo} (hn : n ∈ (forestFor g F).nodes) :
    n.idx < g.adj.length ∧ g.atoms[n.idx]? = some n.atom ∧ n.row.map some = rowOf g.adj n.idx ∧
    n.row = rowAt g.adj n.idx ∧
    n.items.opens n.idx = rowOpens g n.idx (rowAt g.adj n.idx) ∧
    n.items.closes n.idx = rowCloses g n.idx (rowAt g.adj n.idx) ∧
    n.items.rings = rowRings g n.idx (rowAt g.adj n.idx) := by
  have hc : n.core ∈ ((forestFor g F).nodes).map NodeInfo.core := List.mem_map_of_mem hn
  unfold forestFor at hc
  rw [PForest.nodes_realize] at hc
  obtain ⟨n1, hn1, e⟩ := List.mem_map.1 hc
  obtain ⟨n0, hn0, rfl⟩ := List.mem_map.1 hn1
  simp only [NodeInfo.core, NodeInfo.realize, Prod.mk.injEq] at e
  obtain ⟨e1, e2, e3⟩ := e
  have hk : n0.idx < g.adj.length := by
    have : n0.idx ∈ F.nodes.map (·.idx) := List.mem_map_of_mem hn0
    rw [h.skel.num] at this; exact List.mem_range.1 this
  obtain ⟨g1, g2, g3, g4⟩ := Items.realize_spec g n0.idx n0.items (rowOf g.adj n0.idx) (h.skel.kids n0 hn0)
    (fun ob hob e => by
      subst e
      obtain ⟨p, hp⟩ := List.getElem?_of_mem hob
      exact h.noHoles _ _ hp)
    (fun b hb => by
      have hb' : b ∈ rowAt g.adj n0.idx := mem_bondsOf.2 hb
      exact ⟨((h.ok _ hk).2 b hb').1, h.flat.battr _ b hb'⟩)
  have hni : n.idx = n0.idx := e1.symm
  have hit : n.items = n0.items.realize g n0.idx (rowOf g.adj n0.idx) := e3.symm
  have hrow : n.row = (n0.items.realize g n0.idx (rowOf g.adj n0.idx)).row n0.idx := by
    unfold NodeInfo.row; rw [hni, hit]
  have g1' : n.row.map some = rowOf g.adj n0.idx := by rw [hrow]; exact g1
  have hrow2 : n.row = rowAt g.adj n0.idx := by
    rw [rowAt_eq_bondsOf_rowOf, ← g1', bondsOf_map_some]
  rw [hni]
  refine ⟨hk, ?_, g1', hrow2, ?_, ?_, ?_⟩
  · rw [← e2, List.getD_eq_getElem?_getD, List.getElem?_eq_getElem (h.alen ▸ hk)]; rfl
  · rw [hit, g2, ← rowAt_eq_bondsOf_rowOf]
  · rw [hit, g3, ← rowAt_eq_bondsOf_rowOf]
  · rw [hit, g4, ← rowAt_eq_bondsOf_rowOf]

theorem pflatMap_congr_mem {α β} {l : List α} {f g : α → List β} (h : ∀ x ∈ l, f x = g x) :
    l.flatMap f = l.flatMap g := by
  induction l with
  | nil => rfl
  | cons a l ih =>
    rw [List.flatMap_cons, List.flatMap_cons, h a (by simp), ih (fun x hx => h x (List.mem_cons_of_mem _ hx))]

theorem forestFor_wf (h : Assemblable g F) : (forestFor g F).wf = true := by
  have hidx := forestFor_idx h
  have hlen := forestFor_length h
  unfold PForest.wf
  rw [Bool.and_eq_true, Bool.and_eq_true]
  refine ⟨⟨?_, ?_⟩, ?_⟩
  · unfold PForest.wellNumbered
    rw [hidx, hlen]; simp
  · unfold PForest.simple
    rw [List.all_eq_true]
    intro n hn
    obtain ⟨hk, _, _, hrow, _⟩ := forestFor_node h hn
    obtain ⟨g1, g2⟩ := h.ok n.idx hk
    rw [Bool.and_eq_true, decide_eq_true_eq, List.all_eq_true, hrow]
    refine ⟨g1, ?_⟩
    intro b hb
    simpa using (g2 b hb).2.2.1
  · unfold PForest.ringsPaired
    rw [List.all_eq_true]
    intro n hn
    obtain ⟨hk, _, _, _, hop, _⟩ := forestFor_node h hn
    rw [List.isPerm_iff, hop]
    have hcl : (forestFor g F).closes
        = (List.range g.adj.length).flatMap fun j => rowCloses g j (rowAt g.adj j) := by
      unfold PForest.closes
      rw [← hidx, List.flatMap_map]
      apply pflatMap_congr_mem
      intro n' hn'
      exact (forestFor_node h hn').2.2.2.2.2.1
    rw [hcl]
    exact graph_ringsPaired h.ok hk

theorem getElem?_of_getD_nat {c : List Nat} {k x : Nat} (hk : k < c.length) (h : c.getD k 0 = x) :
    c[k]? = some x := by
  rw [List.getD_eq_getElem?_getD, List.getElem?_eq_getElem hk] at h
  rw [List.getElem?_eq_getElem hk]
  simpa using h

/-- **the graph is the graph of the realized forest** -/
theorem forestFor_graph (h : Assemblable g F) : g = graphOf (forestFor g F) := by
  have hidx := forestFor_idx h
  have hlen := forestFor_length h
  have hadj : (forestFor g F).nodes.map (fun n => n.row.map some) = g.adj := by
    apply map_eq_of_indexed _ hidx
    intro n hn
    obtain ⟨hk, _, hrow, _⟩ := forestFor_node h hn
    rw [hrow]; exact rowOf_getElem? hk
  have hatoms : (forestFor g F).nodes.map (·.atom) = g.atoms := by
    apply map_eq_of_indexed _ (by rw [h.alen]; exact hidx)
    intro n hn
    exact (forestFor_node h hn).2.1
  have hcounts : (forestFor g F).nodes.map NodeInfo.count2 = g.counts2 := by
    apply map_eq_of_indexed _ (by rw [h.clen]; exact hidx)
    intro n hn
    obtain ⟨hk, _⟩ := forestFor_node h hn
    apply getElem?_of_getD_nat (h.clen ▸ hk)
    rw [h.cnt _ hk, ← hadj, ← graphOf_adj]
    exact forest_counts (by rw [hidx, hlen]) hn
  have hflags : (forestFor g F).nodes.map (fun n => n.row.any (·.ring)) = g.ringFlags := by
    apply map_eq_of_indexed _ (by rw [h.flat.flagsLen]; exact hidx)
    intro n hn
    obtain ⟨hk, _, _, hrow, _⟩ := forestFor_node h hn
    have hf := h.flat.flags n.idx hk
    rw [List.getD_eq_getElem?_getD, List.getElem?_eq_getElem (h.flat.flagsLen ▸ hk)] at hf
    rw [List.getElem?_eq_getElem (h.flat.flagsLen ▸ hk)]
    simp only [Option.getD_some] at hf
    congr 1
    rw [Bool.eq_iff_iff, hf, List.any_eq_true, hrow]
  have hattr : (forestFor g F).nodes.map (fun _ => (none : Option (List Attribution))) = g.atomAttr := by
    rw [h.flat.attrs, ← hlen]
    generalize (forestFor g F).nodes = ns
    induction ns with
    | nil => rfl
    | cons a l ih => rw [List.map_cons, ih, List.length_cons, List.replicate_succ]
  have hroots : (forestFor g F).map Tree.idx = g.roots := by
    rw [h.skel.roots]
    unfold forestFor
    rw [List.map_map]
    apply List.map_congr_left
    intro t _
    exact Tree.realize_idx g t
  have hds := h.ds
  cases g
  unfold graphOf
  simp only [PMol.mk.injEq]
  exact ⟨hatoms.symm, hroots.symm, hadj.symm, hcounts.symm, hflags.symm, hds, hattr.symm⟩

end

/-! ### parsed graphs -/

/-- the parsed graph with the delocalisation subgraph dropped (`graphOf` has none) -/
def PMol.clearDs (g : PMol) : PMol := { g with ds := [] }

theorem parsedInv_assemblable {g : PMol} (h : ParsedInv g) : ∃ F, Assemblable g.clearDs F := by
  obtain ⟨F, hsk⟩ := skel_of_treeG h.tree
  obtain ⟨hok, hal, hcl, hcnt, _⟩ := (pwf_iff _).1 h.pwf
  have hfl : GFlat g.clearDs :=
    ⟨h.flat.flagsLen, h.flat.flags, h.flat.attrs, fun i b hb => (h.flat.bonds i b hb).1⟩
  exact ⟨F, hok, hal, hcl, hcnt, hfl, h.noHoles, ⟨hsk.num, hsk.roots, hsk.kids⟩, rfl⟩

end SV
