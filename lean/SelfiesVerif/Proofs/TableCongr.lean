/-
  The translator models take the constraint table `T : Table` as a parameter but read it only
  through the capacity function `Table.capacity T` (`Atom.bondingCapacity T` is its only caller).
  This file proves that by congruence through the model's definitions: two tables with the same
  capacity function (`CapEq`) give the same `deriveLoop`, `formRings`, `decodeGraph`, `decoderFull`,
  `decoder`, `violatesConstraints`, `encodePrepare`, `encoderFull`, `encoder`; and with
  `strict = false` the encoder does not depend on the table at all.  (Used by Props/C11t.lean.)
-/
import SelfiesVerif.Model.Decoder
import SelfiesVerif.Model.Encoder

namespace SV

/-- two tables answer every capacity query alike -/
def CapEq (T T' : Table) : Prop := ∀ e c, T.capacity e c = T'.capacity e c

theorem CapEq.refl (T : Table) : CapEq T T := fun _ _ => rfl
theorem CapEq.symm {T T' : Table} (h : CapEq T T') : CapEq T' T := fun e c => (h e c).symm
theorem CapEq.trans {T T' T'' : Table} (h : CapEq T T') (h' : CapEq T' T'') : CapEq T T'' :=
  fun e c => (h e c).trans (h' e c)

/-- the total `Table.capacity` of the table made from an accepted dict is the library's
    `get_bonding_capacity` on that dict (same statement as `C06_capacity_is_get_bonding_capacity`) -/
theorem getBondingCapacity_ofDict {C : Constraints} {Tb : Table} (h : Table.ofDict C = some Tb)
    (e : Str) (c : Int) : getBondingCapacity C e c = .ok (Tb.capacity e c) := by
  unfold Table.ofDict at h
  split at h
  · rename_i q hq
    simp only [Option.some.injEq] at h
    subst h
    unfold getBondingCapacity Table.capacity
    cases lookup (capKey e c) C with
    | some v => rfl
    | none => simp [getKey, hq]
  · cases h

/-- … so two accepted dicts with the same `get_bonding_capacity` give `CapEq` tables -/
theorem capEq_of_getBondingCapacity {C C' : Constraints} {Tb Tb' : Table}
    (h : Table.ofDict C = some Tb) (h' : Table.ofDict C' = some Tb')
    (he : ∀ e c, getBondingCapacity C e c = getBondingCapacity C' e c) : CapEq Tb Tb' := by
  intro e c
  have := he e c
  rw [getBondingCapacity_ofDict h, getBondingCapacity_ofDict h'] at this
  injection this

variable {T T' : Table}

theorem bondingCapacity_capEq (h : CapEq T T') (a : Atom) :
    a.bondingCapacity T = a.bondingCapacity T' := by
  unfold Atom.bondingCapacity; rw [h]

theorem processAtomSymbol_capEq (h : CapEq T T') (sym : Str) :
    processAtomSymbol T sym = processAtomSymbol T' sym := by
  unfold processAtomSymbol
  simp only [bondingCapacity_capEq h]

/-! ### decoder -/

theorem deriveLoop_capEq (h : CapEq T T') (compat : Bool) :
    ∀ fuel, deriveLoop T compat fuel = deriveLoop T' compat fuel
  | 0 => by funext depth st md nd state prev as ai; rfl
  | fuel + 1 => by
    have ih := deriveLoop_capEq h compat fuel
    funext depth st md nd state prev as ai
    simp only [deriveLoop, ih, processAtomSymbol_capEq h, bondingCapacity_capEq h]

theorem formRings_capEq (h : CapEq T T') :
    ∀ (rings : List RingReq) (m : Mol) (made : List Nat), formRings T rings m made = formRings T' rings m made
  | [], _, _ => rfl
  | (lidx, ridx, (order, (lst, rst))) :: rest, m, made => by
    have ih := formRings_capEq h rest
    simp only [formRings, ih, bondingCapacity_capEq h]

theorem deriveFragments_capEq (h : CapEq T T') (compat attrib : Bool) :
    ∀ (frs : List Str) (m : Mol) (rings : List RingReq) (ai : Nat),
      deriveFragments T compat attrib frs m rings ai = deriveFragments T' compat attrib frs m rings ai
  | [], _, _, _ => rfl
  | s :: rest, m, rings, ai => by
    have ih := deriveFragments_capEq h compat attrib rest
    simp only [deriveFragments, ih, deriveLoop_capEq h]

theorem decodeGraph_capEq (h : CapEq T T') (s : Str) (compat attrib : Bool) :
    decodeGraph T s compat attrib = decodeGraph T' s compat attrib := by
  simp only [decodeGraph, deriveFragments_capEq h, formRings_capEq h]

theorem decoderFull_capEq (h : CapEq T T') (s : Str) (compat attrib : Bool) :
    decoderFull T s compat attrib = decoderFull T' s compat attrib := by
  simp only [decoderFull, decodeGraph_capEq h]

theorem decoder_capEq (h : CapEq T T') (s : Str) (compat : Bool) :
    decoder T s compat = decoder T' s compat := by
  simp only [decoder, decoderFull_capEq h]

/-! ### encoder -/

theorem violatesConstraints_capEq (h : CapEq T T') (m : PMol) :
    violatesConstraints T m = violatesConstraints T' m := by
  simp only [violatesConstraints, bondingCapacity_capEq h]

theorem encodePrepare_capEq (h : CapEq T T') (s : Str) (strict attrib : Bool) (tape : List Nat) :
    encodePrepare T s strict attrib tape = encodePrepare T' s strict attrib tape := by
  simp only [encodePrepare, violatesConstraints_capEq h, bondingCapacity_capEq h]

theorem encoderFull_capEq (h : CapEq T T') (s : Str) (strict attrib : Bool) (tape : List Nat) :
    encoderFull T s strict attrib tape = encoderFull T' s strict attrib tape := by
  simp only [encoderFull, encodePrepare_capEq h]

theorem encoder_capEq (h : CapEq T T') (s : Str) (strict : Bool) (tape : List Nat) :
    encoder T s strict tape = encoder T' s strict tape := by
  simp only [encoder, encoderFull_capEq h]

/-- with `strict = False` the constraint check is skipped: no table is read -/
theorem encodePrepare_nonstrict (T T' : Table) (s : Str) (attrib : Bool) (tape : List Nat) :
    encodePrepare T s false attrib tape = encodePrepare T' s false attrib tape := by
  simp only [encodePrepare, Bool.false_and, Bool.false_eq_true, if_false]

theorem encoderFull_nonstrict (T T' : Table) (s : Str) (attrib : Bool) (tape : List Nat) :
    encoderFull T s false attrib tape = encoderFull T' s false attrib tape := by
  simp only [encoderFull, encodePrepare_nonstrict T T']

theorem encoder_nonstrict (T T' : Table) (s : Str) (tape : List Nat) :
    encoder T s false tape = encoder T' s false tape := by
  simp only [encoder, encoderFull_nonstrict T T']

end SV
