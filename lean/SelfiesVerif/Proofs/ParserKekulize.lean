/-
  C03p, stage C (1): what ANY successful `kekulize()` does to a well-formed parsed graph (no
  assumption about the matching it found): the adjacency lists change by an order map `G` that
  treats both copies of a ring bond alike, turns every order 1.5 into 1 or 2 and leaves the other
  orders alone; bond counts stay the incident sums; atoms only lose their aromatic flag; roots, ring
  flags and attributions are untouched; the delocalisation subgraph is cleared.
-/
import SelfiesVerif.Proofs.ParserAssemble

namespace SV

theorem getDirBond_mem {m : PMol} {a b : Nat} {bd : PBond} (h : m.getDirBond a b = .ok bd) :
    bd ∈ rowAt m.adj a ∧ bd.dst = b := by
  unfold PMol.getDirBond at h
  split at h
  · rename_i out hout
    split at h
    · rename_i b' hfind
      simp only [Except.ok.injEq] at h
      subst h
      have hm := List.mem_of_find?_eq_some hfind
      have hp := List.find?_some hfind
      refine ⟨?_, by simpa using hp⟩
      rw [rowAt_of_getElem? hout]; exact mem_bondsOf.2 hm
    · cases h
  · cases h

/-- `update_bond_order` succeeded: it was an order map -/
theorem updateBondOrder_ok_spec {m m' : PMol} (hok : AdjOK m.adj) (hlen : m.counts2.length = m.adj.length)
    (hcnt : ∀ v, v < m.adj.length → m.counts2.getD v 0 = incident2 m.adj v) {a b o : Nat}
    (h : m.updateBondOrder a b o = .ok m') :
    ∃ c', m' = { m with adj := mapOrders (updP a b o) m.adj, counts2 := c' } ∧ c'.length = m.adj.length ∧
      ∀ v, v < m.adj.length → c'.getD v 0 = incident2 (mapOrders (updP a b o) m.adj) v := by
  have h0 := h
  unfold PMol.updateBondOrder at h0
  obtain ⟨u, hu, h0⟩ := bind_ok h0
  obtain ⟨ab, hab, _⟩ := bind_ok h0
  have ho : 2 ≤ o ∧ o ≤ 6 := by
    have := pyAssert_inv (c := (2 ≤ o && o ≤ 6)) (by cases u; exact hu)
    simpa using this
  obtain ⟨hbd, hdst⟩ := getDirBond_mem hab
  obtain ⟨c', h1, h2, h3⟩ := updateBondOrder_spec hok hlen hcnt ho hbd hdst
  rw [h1] at h
  injection h with h
  exact ⟨c', h.symm, h2, h3⟩

/-- the orders after (part of) kekulization, relative to the parsed graph `m0` -/
def KekOrd (m0 : PMol) (G : PBond → Nat) : Prop :=
  RingSym m0.adj G ∧ ∀ i, ∀ b ∈ rowAt m0.adj i, G b = 2 ∨ G b = 4 ∨ (G b = b.order2 ∧ b.order2 ≠ 3)

structure KekSt (m0 m : PMol) : Prop where
  roots : m.roots = m0.roots
  flags : m.ringFlags = m0.ringFlags
  atomAttr : m.atomAttr = m0.atomAttr
  adj : ∃ G, KekOrd m0 G ∧ m.adj = mapOrders G m0.adj
  clen : m.counts2.length = m0.adj.length
  cnt : ∀ v, v < m0.adj.length → m.counts2.getD v 0 = incident2 m.adj v

theorem mapOrders_length (G : PBond → Nat) (adj : List (List (Option PBond))) :
    (mapOrders G adj).length = adj.length := by simp [mapOrders]

theorem KekSt.update {m0 m m' : PMol} (hok0 : AdjOK m0.adj) (h : KekSt m0 m) {a b : Nat}
    (hu : m.updateBondOrder a b 4 = .ok m') : KekSt m0 m' ∧ m'.atoms = m.atoms := by
  obtain ⟨h1, h2, h3, ⟨G, ⟨hsym, hG⟩, hadj⟩, h5, h6⟩ := h
  have hlen : m.adj.length = m0.adj.length := by rw [hadj, mapOrders_length]
  have hokm : AdjOK m.adj := by rw [hadj]; exact hok0.mapOrders hsym
  obtain ⟨c', e, g1, g2⟩ := updateBondOrder_ok_spec hokm (by rw [h5, hlen]) (by rw [hlen]; exact h6) hu
  subst e
  refine ⟨⟨h1, h2, h3, ⟨updAll 4 [(a, b)] G, ⟨hsym.updAll hok0 4 _, ?_⟩, ?_⟩, by rw [g1, hlen], ?_⟩, rfl⟩
  · intro i bd hbd
    unfold updAll
    split
    · exact Or.inr (Or.inl rfl)
    · exact hG i bd hbd
  · show mapOrders (updP a b 4) m.adj = _
    rw [hadj, mapOrders_mapOrders, upd_setOrd]
  · intro v hv
    exact g2 v (hlen ▸ hv)

theorem order3_in_pairs {m : PMol} (hwf : PWF m) {i : Nat} {b : PBond} (hb : b ∈ rowAt m.adj i)
    (h3 : b.order2 = 3) : (pairsOf m.ds).any (fun p => pairMatch p.1 p.2 b) = true := by
  obtain ⟨hok, _, _, _, _, hnd, _, hconv⟩ := hwf
  have hi := lt_of_mem_rowAt hb
  have hsrc := ((hok i hi).2 b hb).1
  obtain ⟨c1, _⟩ := hconv i hi b hb h3
  unfold dsAdj at c1
  cases hl : lookup i m.ds with
  | none => rw [hl] at c1; cases c1
  | some l =>
    rw [hl] at c1
    simp only [Option.getD_some] at c1
    rw [List.any_eq_true]
    exact ⟨(i, b.dst), mem_pairsOf.2 ⟨(i, l), mem_of_lookup hl, rfl, c1⟩, by simp [pairMatch, hsrc]⟩

/-- **the structure of a successful kekulization** -/
theorem kekulize_struct {m g1 : PMol} {tape : List Nat} (hwf : PWF m)
    (h : m.kekulize tape = .ok (some g1)) :
    KekSt m g1 ∧ g1.ds = [] ∧ ∃ keys, g1.atoms = deArom keys m.atoms := by
  have hok := hwf.1
  rw [kekulize_eq] at h
  split at h
  · rename_i hempty
    simp only [pure, Except.pure, Except.ok.injEq, Option.some.injEq] at h
    subst h
    have hds : m.ds = [] := List.isEmpty_iff.1 hempty
    refine ⟨⟨rfl, rfl, rfl, ⟨ord0, ⟨RingSym.ord0 _, ?_⟩, (mapOrders_ord0 _).symm⟩, hwf.2.2.1, hwf.2.2.2.1⟩,
      hds, [], (deArom_nil _).symm⟩
    intro i b hb
    refine Or.inr (Or.inr ⟨rfl, ?_⟩)
    intro h3
    have := order3_in_pairs hwf hb h3
    rw [hds] at this
    simp [pairsOf] at this
  · obtain ⟨bad, _, h⟩ := bind_ok h
    split at h
    · simp [pure, Except.pure] at h
    · obtain ⟨kept, _, h⟩ := bind_ok h
      obtain ⟨pg, _, h⟩ := bind_ok h
      obtain ⟨ml, _, h⟩ := bind_ok h
      split at h
      · simp [pure, Except.pure] at h
      · rename_i mt
        obtain ⟨m1, h1, h⟩ := bind_ok h
        obtain ⟨m2, h2, h⟩ := bind_ok h
        simp only [pure, Except.pure, Except.ok.injEq, Option.some.injEq] at h
        -- phase 1
        obtain ⟨c1, p1, p2, p3⟩ := phase1 hwf m.ds [] m.counts2 rfl hwf.2.2.1 (by
          intro v hv
          simp only [pairsOf, List.flatMap_nil, updAll_nil]
          rw [show mapOrders ord0 m.adj = m.adj from mapOrders_ord0 m.adj]
          exact hwf.2.2.2.1 v hv)
        have hst0 : st m (([] : List (Nat × List Nat)).map (·.1)) (updAll 2 (pairsOf []) ord0) m.counts2 = m := by
          simp only [st, List.map_nil, deArom_nil, pairsOf, List.flatMap_nil, updAll_nil]
          rw [show mapOrders ord0 m.adj = m.adj from mapOrders_ord0 m.adj]
        rw [hst0, h1] at p1
        injection p1 with p1
        have hk1 : KekSt m m1 ∧ m1.atoms = deArom (m.ds.map (·.1)) m.atoms := by
          rw [p1]
          refine ⟨⟨rfl, rfl, rfl, ⟨_, ⟨(RingSym.ord0 _).updAll hok 2 _, ?_⟩, rfl⟩, p2, p3⟩, rfl⟩
          intro i b hb
          unfold updAll
          split
          · exact Or.inl rfl
          · rename_i hany
            refine Or.inr (Or.inr ⟨rfl, ?_⟩)
            intro h3
            exact hany (order3_in_pairs hwf hb h3)
        -- phase 2
        have hk2 : KekSt m m2 ∧ m2.atoms = deArom (m.ds.map (·.1)) m.atoms := by
          refine foldlM_preserve (fun x : PMol => KekSt m x ∧ x.atoms = deArom (m.ds.map (·.1)) m.atoms)
            _ ?_ _ _ _ h2 hk1
          intro s i s' hs hP
          unfold doubleStep at hs
          obtain ⟨mi, _, hs⟩ := bind_ok hs
          split at hs
          · cases hs
          · obtain ⟨_, _, hs⟩ := bind_ok hs
            obtain ⟨_, _, hs⟩ := bind_ok hs
            obtain ⟨g1, g2⟩ := hP.1.update hok hs
            exact ⟨g1, g2.trans hP.2⟩
        rw [← h]
        obtain ⟨⟨a1, a2, a3, a4, a5, a6⟩, hat⟩ := hk2
        exact ⟨⟨a1, a2, a3, a4, a5, a6⟩, rfl, _, hat⟩

end SV
