/-
  C03p, stage A: every graph the SMILES parser model produces is well formed in the sense of
  `PWF` (Proofs/KekulizeSound.lean), the hypothesis of `C05_kekulize_sound`.

  `PWF` is itself an invariant of the parser loop: it speaks about the stored bonds only
  (`rowAt` skips the placeholders of rings that are still open), and each of the three ways
  `_add_bond_at_loc` can place a closing ring bond (fill a placeholder, insert, append) adds the
  bond to the stored bonds of the row up to a permutation.
-/
import SelfiesVerif.Proofs.KekulizeSound
import SelfiesVerif.Proofs.ParserOps

namespace SV

/-! ### rows -/

theorem rowAt_ge {adj : List (List (Option PBond))} {j : Nat} (h : adj.length ≤ j) : rowAt adj j = [] := by
  unfold rowAt
  rw [List.getD_eq_getElem?_getD, List.getElem?_eq_none h]; rfl

theorem rowAt_set {adj : List (List (Option PBond))} {i : Nat} (hi : i < adj.length)
    (r : List (Option PBond)) (j : Nat) :
    rowAt (adj.set i r) j = if j = i then bondsOf r else rowAt adj j := by
  unfold rowAt
  rw [List.getD_eq_getElem?_getD, List.getD_eq_getElem?_getD, List.getElem?_set]
  by_cases h : i = j
  · subst h; simp [hi]
  · simp [h, Ne.symm h]

theorem rowAt_append_nil (adj : List (List (Option PBond))) (j : Nat) :
    rowAt (adj ++ [[]]) j = rowAt adj j := by
  unfold rowAt
  rw [List.getD_eq_getElem?_getD, List.getD_eq_getElem?_getD]
  rcases Nat.lt_trichotomy j adj.length with h | h | h
  · rw [List.getElem?_append_left h]
  · subst h; simp [bondsOf]
  · rw [List.getElem?_eq_none (by simp; omega), List.getElem?_eq_none (by omega)]

theorem rowAt_of_lt {adj : List (List (Option PBond))} {i : Nat} (hi : i < adj.length) :
    rowAt adj i = bondsOf adj[i] := rowAt_of_getElem? (List.getElem?_eq_getElem hi)

theorem bondsOf_append (r s : List (Option PBond)) : bondsOf (r ++ s) = bondsOf r ++ bondsOf s := by
  simp [bondsOf]

theorem bondsOf_set_fill {b : PBond} : ∀ (out : List (Option PBond)) (p : Nat), out[p]? = some none →
    (bondsOf (out.set p (some b))).Perm (b :: bondsOf out)
  | [], _, h => by simp at h
  | x :: xs, 0, h => by
    simp only [List.getElem?_cons_zero, Option.some.injEq] at h
    subst h
    simp [bondsOf]
  | x :: xs, p + 1, h => by
    simp only [List.getElem?_cons_succ] at h
    have ih := bondsOf_set_fill (b := b) xs p h
    cases x with
    | none => simpa [bondsOf] using ih
    | some y =>
      have : bondsOf ((some y :: xs).set (p + 1) (some b)) = y :: bondsOf (xs.set p (some b)) := by
        simp [bondsOf]
      rw [this]
      have h2 : bondsOf (some y :: xs) = y :: bondsOf xs := by simp [bondsOf]
      rw [h2]
      exact (List.Perm.cons y ih).trans (List.Perm.swap b y _)

theorem bondsOf_insertAt {b : PBond} : ∀ (out : List (Option PBond)) (p : Nat),
    (bondsOf (insertAt out p (some b))).Perm (b :: bondsOf out)
  | out, 0 => by simp [insertAt, bondsOf]
  | [], p + 1 => by simp [insertAt, bondsOf]
  | x :: xs, p + 1 => by
    have ih := bondsOf_insertAt (b := b) xs p
    cases x with
    | none => simpa [insertAt, bondsOf] using ih
    | some y =>
      have : bondsOf (insertAt (some y :: xs) (p + 1) (some b)) = y :: bondsOf (insertAt xs p (some b)) := by
        simp [insertAt, bondsOf]
      rw [this]
      have h2 : bondsOf (some y :: xs) = y :: bondsOf xs := by simp [bondsOf]
      rw [h2]
      exact (List.Perm.cons y ih).trans (List.Perm.swap b y _)

theorem LocIns.perm {b : PBond} {out out' : List (Option PBond)} {pos : Option Nat}
    (h : LocIns b out pos out') : (bondsOf out').Perm (b :: bondsOf out) := by
  cases h with
  | append _ _ =>
    rw [bondsOf_append]
    have : bondsOf [some b] = [b] := by simp [bondsOf]
    rw [this]
    exact List.perm_append_comm
  | fill p hp => exact bondsOf_set_fill _ p hp
  | insert p x _ => exact bondsOf_insertAt _ p

/-- `_add_bond_at_loc` on the rows -/
theorem addBondAtLoc_rows {adj adj' : List (List (Option PBond))} {b : PBond} {pos : Option Nat}
    (h : PMol.addBondAtLoc adj b pos = .ok adj') :
    b.src < adj.length ∧ adj'.length = adj.length ∧
    (rowAt adj' b.src).Perm (b :: rowAt adj b.src) ∧ ∀ j, j ≠ b.src → rowAt adj' j = rowAt adj j := by
  obtain ⟨out, out', hrow, hins, rfl⟩ := addBondAtLoc_inv h
  have hlt : b.src < adj.length := (List.getElem?_eq_some_iff.1 hrow).1
  refine ⟨hlt, by simp, ?_, ?_⟩
  · rw [rowAt_set hlt, if_pos rfl, rowAt_of_getElem? hrow]; exact hins.perm
  · intro j hj; rw [rowAt_set hlt, if_neg hj]

/-! ### `AdjOK` in terms of the rows -/

def RowsOK (n : Nat) (R : Nat → List PBond) : Prop :=
  ∀ i, i < n →
    ((R i).map (·.dst)).Nodup ∧
    ∀ b ∈ R i, b.src = i ∧ b.dst < n ∧ b.dst ≠ i ∧
      (if b.ring = true then ∃ b' ∈ R b.dst, b'.dst = i ∧ b'.order2 = b.order2
       else i < b.dst ∧ ∀ b' ∈ R b.dst, b'.dst ≠ i)

theorem adjOK_iff (adj : List (List (Option PBond))) : AdjOK adj ↔ RowsOK adj.length (rowAt adj) := Iff.rfl

theorem RowsOK.congr {n : Nat} {R R' : Nat → List PBond} (h : RowsOK n R) (e : ∀ j, R' j = R j) :
    RowsOK n R' := by
  have : R' = R := funext e
  rw [this]; exact h

/-- a new atom `n`, bonded to `p < n` -/
theorem RowsOK.addChain {n : Nat} {R R' : Nat → List PBond} (h : RowsOK n R) (hRn : ∀ j, n ≤ j → R j = [])
    {p : Nat} (hp : p < n) (b : PBond) (hsrc : b.src = p) (hdst : b.dst = n) (hring : b.ring = false)
    (hR' : ∀ j, R' j = if j = p then R p ++ [b] else R j) : RowsOK (n + 1) R' := by
  have hsub : ∀ j x, x ∈ R j → x ∈ R' j := by
    intro j x hx; rw [hR']; split
    · rename_i e; subst e; exact List.mem_append_left _ hx
    · exact hx
  have hnew : ∀ j x, x ∈ R' j → x ∈ R j ∨ (j = p ∧ x = b) := by
    intro j x hx; rw [hR'] at hx; split at hx
    · rename_i e; subst e
      rcases List.mem_append.1 hx with h1 | h1
      · exact Or.inl h1
      · exact Or.inr ⟨rfl, by simpa using h1⟩
    · exact Or.inl hx
  have hold : ∀ i x, x ∈ R i → i < n → x.src = i ∧ x.dst < n + 1 ∧ x.dst ≠ i ∧
      (if x.ring = true then ∃ b' ∈ R' x.dst, b'.dst = i ∧ b'.order2 = x.order2
       else i < x.dst ∧ ∀ b' ∈ R' x.dst, b'.dst ≠ i) := by
    intro i x hx hi
    obtain ⟨g1, g2, g3, g4⟩ := (h i hi).2 x hx
    refine ⟨g1, by omega, g3, ?_⟩
    split
    · rename_i hr; rw [if_pos hr] at g4
      obtain ⟨b', hb', e1, e2⟩ := g4
      exact ⟨b', hsub _ _ hb', e1, e2⟩
    · rename_i hr; rw [if_neg hr] at g4
      refine ⟨g4.1, ?_⟩
      intro b' hb'
      rcases hnew _ _ hb' with h1 | ⟨_, h1⟩
      · exact g4.2 b' h1
      · rw [h1, hdst]; omega
  intro i hi
  by_cases hin : i = n
  · subst hin
    have : R' i = [] := by rw [hR', if_neg (by omega)]; exact hRn i (Nat.le_refl _)
    rw [this]; exact ⟨by simp, by simp⟩
  · have hi' : i < n := by omega
    constructor
    · rw [hR']; split
      · rename_i e; subst e
        rw [List.map_append, List.nodup_append]
        refine ⟨(h i hi').1, by simp, ?_⟩
        intro a ha c hc
        simp only [List.map_cons, List.map_nil, List.mem_singleton] at hc
        obtain ⟨x, hx, rfl⟩ := List.mem_map.1 ha
        have := ((h i hi').2 x hx).2.1
        rw [hc, hdst]; omega
      · exact (h i hi').1
    · intro x hx
      rcases hnew _ _ hx with h1 | ⟨e1, e2⟩
      · exact hold i x h1 hi'
      · subst e1 e2
        refine ⟨hsrc, by omega, by omega, ?_⟩
        rw [hring]
        simp only [Bool.false_eq_true, if_false]
        refine ⟨by omega, ?_⟩
        intro b' hb'
        rw [hdst, hR', if_neg (by omega), hRn n (Nat.le_refl _)] at hb'
        cases hb'

/-- a ring bond between two atoms that are not bonded yet -/
theorem RowsOK.addRing {n : Nat} {R R' : Nat → List PBond} (h : RowsOK n R) {a b : Nat}
    (ha : a < n) (hb : b < n) (hab : a ≠ b) (x y : PBond)
    (hx : x.src = a ∧ x.dst = b ∧ x.ring = true) (hy : y.src = b ∧ y.dst = a ∧ y.ring = true)
    (hord : y.order2 = x.order2)
    (hno1 : ∀ z ∈ R a, z.dst ≠ b) (hno2 : ∀ z ∈ R b, z.dst ≠ a)
    (hRa : (R' a).Perm (x :: R a)) (hRb : (R' b).Perm (y :: R b))
    (hR' : ∀ j, j ≠ a → j ≠ b → R' j = R j) : RowsOK n R' := by
  have hsub : ∀ j z, z ∈ R j → z ∈ R' j := by
    intro j z hz
    by_cases e1 : j = a
    · subst e1; exact hRa.mem_iff.2 (List.mem_cons_of_mem _ hz)
    · by_cases e2 : j = b
      · subst e2; exact hRb.mem_iff.2 (List.mem_cons_of_mem _ hz)
      · rw [hR' j e1 e2]; exact hz
  have hnew : ∀ j z, z ∈ R' j → z ∈ R j ∨ (j = a ∧ z = x) ∨ (j = b ∧ z = y) := by
    intro j z hz
    by_cases e1 : j = a
    · subst e1
      rcases List.mem_cons.1 (hRa.mem_iff.1 hz) with h1 | h1
      · exact Or.inr (Or.inl ⟨rfl, h1⟩)
      · exact Or.inl h1
    · by_cases e2 : j = b
      · subst e2
        rcases List.mem_cons.1 (hRb.mem_iff.1 hz) with h1 | h1
        · exact Or.inr (Or.inr ⟨rfl, h1⟩)
        · exact Or.inl h1
      · rw [hR' j e1 e2] at hz; exact Or.inl hz
  intro i hi
  constructor
  · by_cases e1 : i = a
    · subst e1
      refine ((hRa.map (·.dst)).nodup_iff).2 ?_
      rw [List.map_cons, List.nodup_cons]
      refine ⟨?_, (h i hi).1⟩
      intro hm
      obtain ⟨z, hz, e⟩ := List.mem_map.1 hm
      exact hno1 z hz (e.trans hx.2.1)
    · by_cases e2 : i = b
      · subst e2
        refine ((hRb.map (·.dst)).nodup_iff).2 ?_
        rw [List.map_cons, List.nodup_cons]
        refine ⟨?_, (h i hi).1⟩
        intro hm
        obtain ⟨z, hz, e⟩ := List.mem_map.1 hm
        exact hno2 z hz (e.trans hy.2.1)
      · rw [hR' i e1 e2]; exact (h i hi).1
  · intro z hz
    rcases hnew _ _ hz with h1 | ⟨e1, e2⟩ | ⟨e1, e2⟩
    · obtain ⟨g1, g2, g3, g4⟩ := (h i hi).2 z h1
      refine ⟨g1, g2, g3, ?_⟩
      split
      · rename_i hr; rw [if_pos hr] at g4
        obtain ⟨b', hb', e1, e2⟩ := g4
        exact ⟨b', hsub _ _ hb', e1, e2⟩
      · rename_i hr; rw [if_neg hr] at g4
        refine ⟨g4.1, ?_⟩
        intro b' hb'
        rcases hnew _ _ hb' with h2 | ⟨e1, e2⟩ | ⟨e1, e2⟩
        · exact g4.2 b' h2
        · -- z.dst = a, b' = x: x.dst = b; if b = i then z ∈ R b with dst a
          subst e2
          rw [hx.2.1]
          intro e; subst e
          exact hno2 z h1 e1
        · subst e2
          rw [hy.2.1]
          intro e; subst e
          exact hno1 z h1 e1
    · subst e1 e2
      refine ⟨hx.1, by rw [hx.2.1]; exact hb, by rw [hx.2.1]; exact Ne.symm hab, ?_⟩
      rw [hx.2.2, if_pos rfl, hx.2.1]
      exact ⟨y, hRb.mem_iff.2 List.mem_cons_self, hy.2.1, hord⟩
    · subst e1 e2
      refine ⟨hy.1, by rw [hy.2.1]; exact ha, by rw [hy.2.1]; exact hab, ?_⟩
      rw [hy.2.2, if_pos rfl, hy.2.1]
      exact ⟨x, hRa.mem_iff.2 List.mem_cons_self, hx.2.1, hord.symm⟩

/-- `has_bond(a, b) = False`: neither row holds a bond to the other atom -/
theorem no_bond_of_hasBond {m : PMol} (hok : AdjOK m.adj) {a b : Nat} (ha : a < m.adj.length)
    (hb : b < m.adj.length) (h : m.hasBond a b = false) :
    (∀ z ∈ rowAt m.adj a, z.dst ≠ b) ∧ (∀ z ∈ rowAt m.adj b, z.dst ≠ a) := by
  have key : ∀ lo hi, lo ≤ hi → lo < m.adj.length → hi < m.adj.length →
      (m.adj[lo]?.elim false fun out =>
        out.any fun ob => match ob with | some bd => bd.dst == hi | none => false) = false →
      (∀ z ∈ rowAt m.adj lo, z.dst ≠ hi) ∧ (∀ z ∈ rowAt m.adj hi, z.dst ≠ lo) := by
    intro lo hi hle hlo hhi hany
    rw [List.getElem?_eq_getElem hlo] at hany
    simp only [Option.elim_some] at hany
    have h1 : ∀ z ∈ rowAt m.adj lo, z.dst ≠ hi := by
      intro z hz
      rw [rowAt_of_lt hlo] at hz
      have hz' := mem_bondsOf.1 hz
      have := List.any_eq_false.1 hany (some z) hz'
      simpa using this
    refine ⟨h1, ?_⟩
    intro z hz e
    obtain ⟨g1, g2, g3, g4⟩ := (hok hi hhi).2 z hz
    by_cases hr : z.ring = true
    · rw [if_pos hr, e] at g4
      obtain ⟨b', hb', e1, _⟩ := g4
      exact h1 b' hb' e1
    · rw [if_neg hr] at g4
      omega
  unfold PMol.hasBond at h
  rcases Nat.le_total a b with hle | hle
  · rw [Nat.min_eq_left hle, Nat.max_eq_right hle] at h
    apply key a b hle ha hb
    simp only at h
    cases hrow : m.adj[a]? with
    | none => rfl
    | some out => rw [hrow] at h; exact h
  · rw [Nat.min_eq_right hle, Nat.max_eq_left hle] at h
    have := key b a hle hb ha (by
      simp only at h
      cases hrow : m.adj[b]? with
      | none => rfl
      | some out => rw [hrow] at h; exact h)
    exact ⟨this.2, this.1⟩

/-! ### incident sums -/

theorem incident2_append_nil (adj : List (List (Option PBond))) (v : Nat) :
    incident2 (adj ++ [[]]) v = incident2 adj v := by
  simp [incident2, rowSum, bondsOf]

theorem incident2_set_perm {adj : List (List (Option PBond))} {i : Nat} (hi : i < adj.length)
    {r : List (Option PBond)} {b : PBond} (hp : (bondsOf r).Perm (b :: bondsOf adj[i])) (v : Nat) :
    incident2 (adj.set i r) v = incident2 adj v + contrib v b := by
  have h1 := incident2_set hi r v
  have h2 : rowSum v r = contrib v b + rowSum v adj[i] := by
    unfold rowSum
    rw [(hp.map (contrib v)).sum_nat]
    simp
  omega

theorem sum_zero_of_forall {l : List Nat} (h : ∀ x ∈ l, x = 0) : l.sum = 0 := by
  induction l with
  | nil => rfl
  | cons a l ih =>
    rw [List.sum_cons, h a (by simp), ih (fun x hx => h x (List.mem_cons_of_mem _ hx))]

theorem incident2_zero_of_ge {adj : List (List (Option PBond))} (hok : AdjOK adj) {v : Nat}
    (hv : adj.length ≤ v) : incident2 adj v = 0 := by
  unfold incident2
  apply sum_zero_of_forall
  intro x hx
  obtain ⟨row, hrow, rfl⟩ := List.mem_map.1 hx
  obtain ⟨i, hi⟩ := List.getElem?_of_mem hrow
  have hilt : i < adj.length := (List.getElem?_eq_some_iff.1 hi).1
  unfold rowSum
  apply sum_zero_of_forall
  intro y hy
  obtain ⟨b, hb, rfl⟩ := List.mem_map.1 hy
  have hb' : b ∈ rowAt adj i := by rw [rowAt_of_getElem? hi]; exact hb
  obtain ⟨g1, g2, _, _⟩ := (hok i hilt).2 b hb'
  unfold contrib
  have e1 : ¬ b.src = v := by omega
  have e2 : ¬ b.dst = v := by omega
  simp [e1, e2]

/-! ### the delocalisation subgraph -/

theorem lookup_setKey {β} (a : Nat) (v : β) (l : List (Nat × β)) (k : Nat) :
    lookup k (setKey a v l) = if k = a then some v else lookup k l := by
  induction l with
  | nil =>
    simp only [setKey, lookup]
    by_cases h : a = k
    · subst h; simp
    · simp [h, Ne.symm h]
  | cons p l ih =>
    obtain ⟨k', v'⟩ := p
    unfold setKey
    by_cases h : k' = a
    · subst h
      simp only [beq_self_eq_true, if_true, lookup]
      by_cases h2 : k' = k
      · subst h2; simp
      · simp [h2, Ne.symm h2]
    · have : (k' == a) = false := by simpa using h
      simp only [this, Bool.false_eq_true, if_false, lookup, ih]
      by_cases h2 : k' = k
      · subst h2; simp [h]
      · simp [h2]

theorem lookup_append_single {β} (a : Nat) (v : β) (l : List (Nat × β)) (k : Nat)
    (hn : lookup a l = none) :
    lookup k (l ++ [(a, v)]) = if k = a then some v else lookup k l := by
  induction l with
  | nil =>
    simp only [List.nil_append, lookup]
    by_cases h : a = k
    · subst h; simp
    · simp [h, Ne.symm h]
  | cons p l ih =>
    obtain ⟨k', v'⟩ := p
    simp only [lookup] at hn
    split at hn
    · cases hn
    · rename_i hk
      have hk' : k' ≠ a := by simpa using hk
      simp only [List.cons_append, lookup, ih hn]
      by_cases h2 : k' = k
      · subst h2; simp [hk']
      · simp [h2]

theorem mem_keys_of_lookup {β} {l : List (Nat × β)} {k : Nat} {v : β} (h : lookup k l = some v) :
    k ∈ l.map (·.1) := by
  induction l with
  | nil => cases h
  | cons p l ih =>
    obtain ⟨k', v'⟩ := p
    unfold lookup at h
    split at h
    · rename_i e; have : k' = k := by simpa using e
      subst this; simp
    · simp only [List.map_cons, List.mem_cons]; exact Or.inr (ih h)

theorem lookup_none_of_not_mem {β} {l : List (Nat × β)} {k : Nat} (h : k ∉ l.map (·.1)) :
    lookup k l = none := by
  cases hl : lookup k l with
  | none => rfl
  | some v => exact absurd (mem_keys_of_lookup hl) h

theorem lookup_some_of_mem_keys {β} {l : List (Nat × β)} {k : Nat} (h : k ∈ l.map (·.1)) :
    ∃ v, lookup k l = some v := by
  induction l with
  | nil => cases h
  | cons p l ih =>
    obtain ⟨k', v'⟩ := p
    unfold lookup
    by_cases e : k' = k
    · subst e; exact ⟨v', by simp⟩
    · simp only [List.map_cons, List.mem_cons] at h
      rcases h with h | h
      · exact absurd h.symm e
      · simp only [beq_iff_eq, e, if_false]; exact ih h

theorem keys_setKey_nodup {β} (a : Nat) (v : β) (l : List (Nat × β)) (h : (l.map (·.1)).Nodup) :
    ((setKey a v l).map (·.1)).Nodup := by
  induction l with
  | nil => simp [setKey]
  | cons p l ih =>
    obtain ⟨k', v'⟩ := p
    simp only [List.map_cons, List.nodup_cons] at h
    unfold setKey
    split
    · simpa using h
    · simp only [List.map_cons, List.nodup_cons]
      refine ⟨?_, ih h.2⟩
      intro hm
      rcases (mem_keys_setKey a v l k').1 hm with e | e
      · rename_i hne; simp at hne; exact hne e
      · exact h.1 e

theorem lookup_dsAppend (ds : List (Nat × List Nat)) (a b k : Nat) :
    lookup k (PMol.dsAppend ds a b) =
      if k = a then some ((lookup a ds).getD [] ++ [b]) else lookup k ds := by
  unfold PMol.dsAppend
  cases h : lookup a ds with
  | some l => simp only [lookup_setKey, Option.getD_some]
  | none => simp only [lookup_append_single a [b] ds k h, Option.getD_none, List.nil_append]

theorem keys_dsAppend_nodup (ds : List (Nat × List Nat)) (a b : Nat) (h : (ds.map (·.1)).Nodup) :
    ((PMol.dsAppend ds a b).map (·.1)).Nodup := by
  unfold PMol.dsAppend
  cases hl : lookup a ds with
  | some l => exact keys_setKey_nodup a _ ds h
  | none =>
    simp only [List.map_append, List.map_cons, List.map_nil]
    rw [List.nodup_append]
    refine ⟨h, by simp, ?_⟩
    intro x hx y hy
    simp only [List.mem_singleton] at hy
    subst hy
    intro e; subst e
    obtain ⟨v, hv⟩ := lookup_some_of_mem_keys hx
    rw [hl] at hv; cases hv

/-- the `ds` part of `PWF`, on the rows, with `lookup` instead of membership -/
def DsOK (n : Nat) (R : Nat → List PBond) (ds : List (Nat × List Nat)) : Prop :=
  (ds.map (·.1)).Nodup ∧
  (∀ k l, lookup k ds = some l → k < n ∧ l.Nodup ∧
    ∀ b ∈ l, ∃ bd ∈ R (min k b), bd.dst = max k b ∧ bd.order2 = 3) ∧
  (∀ i, i < n → ∀ bd ∈ R i, bd.order2 = 3 →
    bd.dst ∈ (lookup i ds).getD [] ∧ i ∈ (lookup bd.dst ds).getD [])

theorem dsOK_iff (m : PMol) :
    DsOK m.adj.length (rowAt m.adj) m.ds ↔
      ((m.ds.map (·.1)).Nodup ∧
       (∀ p ∈ m.ds, p.1 < m.adj.length ∧ p.2.Nodup ∧
          ∀ b ∈ p.2, ∃ bd ∈ rowAt m.adj (min p.1 b), bd.dst = max p.1 b ∧ bd.order2 = 3) ∧
       (∀ i, i < m.adj.length → ∀ bd ∈ rowAt m.adj i, bd.order2 = 3 →
          bd.dst ∈ dsAdj m i ∧ i ∈ dsAdj m bd.dst)) := by
  unfold DsOK dsAdj
  constructor
  · rintro ⟨h1, h2, h3⟩
    refine ⟨h1, ?_, h3⟩
    rintro ⟨k, l⟩ hp
    exact h2 k l (lookup_of_mem h1 hp)
  · rintro ⟨h1, h2, h3⟩
    refine ⟨h1, ?_, h3⟩
    intro k l hl
    exact h2 (k, l) (mem_of_lookup hl)

theorem DsOK.congr_rows {n : Nat} {R R' : Nat → List PBond} {ds : List (Nat × List Nat)}
    (h : DsOK n R ds) (e : ∀ j, R' j = R j) : DsOK n R' ds := by
  have : R' = R := funext e
  rw [this]; exact h

/-- a fresh atom `n` (aromatic atoms become keys with no neighbours) -/
theorem DsOK.addKey {n : Nat} {R : Nat → List PBond} {ds : List (Nat × List Nat)} (h : DsOK n R ds)
    (hR : ∀ i x, x ∈ R i → i < n ∧ x.dst < n) (c : Bool) :
    DsOK (n + 1) R (if c then setKey n [] ds else ds) := by
  obtain ⟨h1, h2, h3⟩ := h
  have hn : lookup n ds = none := by
    cases hl : lookup n ds with
    | none => rfl
    | some l => have := (h2 n l hl).1; omega
  have hlk : ∀ k, k ≠ n → lookup k (if c then setKey n [] ds else ds) = lookup k ds := by
    intro k hk
    split
    · rw [lookup_setKey, if_neg hk]
    · rfl
  refine ⟨?_, ?_, ?_⟩
  · split
    · exact keys_setKey_nodup _ _ _ h1
    · exact h1
  · intro k l hl
    by_cases hk : k = n
    · subst hk
      split at hl
      · rw [lookup_setKey, if_pos rfl] at hl
        cases hl
        exact ⟨by omega, by simp, by simp⟩
      · rw [hn] at hl; cases hl
    · rw [hlk k hk] at hl
      obtain ⟨g1, g2, g3⟩ := h2 k l hl
      exact ⟨by omega, g2, g3⟩
  · intro i _ bd hbd h3'
    obtain ⟨g1, g2⟩ := hR i bd hbd
    rw [hlk i (by omega), hlk bd.dst (by omega)]
    exact h3 i g1 bd hbd h3'

/-- a new bond of order `o` between `a` and `b` -/
theorem DsOK.add {n : Nat} {R R' : Nat → List PBond} {ds : List (Nat × List Nat)} (h : DsOK n R ds)
    {a b o : Nat} (ha : a < n) (hb : b < n) (hab : a ≠ b)
    (hsub : ∀ i x, x ∈ R i → x ∈ R' i)
    (hnew : ∀ i x, x ∈ R' i → x ∈ R i ∨ (x.order2 = o ∧ ((i = a ∧ x.dst = b) ∨ (i = b ∧ x.dst = a))))
    (hex : ∃ bd ∈ R' (min a b), bd.dst = max a b ∧ bd.order2 = o)
    (hno : ∀ bd ∈ R (min a b), bd.dst ≠ max a b) :
    DsOK n R' (dsAfter ds a b o) := by
  obtain ⟨h1, h2, h3⟩ := h
  unfold dsAfter
  by_cases ho : o = 3
  · subst ho
    simp only [beq_self_eq_true, if_true]
    have hlk : ∀ k, lookup k (PMol.dsAppend (PMol.dsAppend ds a b) b a) =
        if k = b then some ((lookup b ds).getD [] ++ [a])
        else if k = a then some ((lookup a ds).getD [] ++ [b]) else lookup k ds := by
      intro k
      rw [lookup_dsAppend, lookup_dsAppend, lookup_dsAppend, if_neg (Ne.symm hab)]
    have hgrow : ∀ k x, x ∈ (lookup k ds).getD [] →
        x ∈ (lookup k (PMol.dsAppend (PMol.dsAppend ds a b) b a)).getD [] := by
      intro k x hx
      rw [hlk]
      split
      · rename_i e; subst e; simp only [Option.getD_some]; exact List.mem_append_left _ hx
      · split
        · rename_i e; subst e; simp only [Option.getD_some]; exact List.mem_append_left _ hx
        · exact hx
    have hold : ∀ k l, lookup k ds = some l → k < n ∧ l.Nodup ∧
        ∀ c ∈ l, ∃ bd ∈ R' (min k c), bd.dst = max k c ∧ bd.order2 = 3 := by
      intro k l hl
      obtain ⟨g1, g2, g3⟩ := h2 k l hl
      refine ⟨g1, g2, ?_⟩
      intro c hc
      obtain ⟨bd, hbd, e⟩ := g3 c hc
      exact ⟨bd, hsub _ _ hbd, e⟩
    -- the list of a key, old or new
    have hlist : ∀ k, ((lookup k ds).getD []).Nodup ∧
        ∀ c ∈ (lookup k ds).getD [], (∃ bd ∈ R' (min k c), bd.dst = max k c ∧ bd.order2 = 3) ∧
          ∃ bd ∈ R (min k c), bd.dst = max k c := by
      intro k
      cases hl : lookup k ds with
      | none => simp
      | some l =>
        obtain ⟨_, g2, g3⟩ := h2 k l hl
        refine ⟨g2, ?_⟩
        intro c hc
        obtain ⟨bd, hbd, e⟩ := g3 c hc
        exact ⟨⟨bd, hsub _ _ hbd, e⟩, ⟨bd, hbd, e.1⟩⟩
    refine ⟨keys_dsAppend_nodup _ _ _ (keys_dsAppend_nodup _ _ _ h1), ?_, ?_⟩
    · intro k l hl
      rw [hlk] at hl
      split at hl
      · rename_i e; subst e
        simp only [Option.some.injEq] at hl; subst hl
        obtain ⟨g2, g3⟩ := hlist k
        refine ⟨hb, ?_, ?_⟩
        · rw [List.nodup_append]
          refine ⟨g2, by simp, ?_⟩
          intro x hx y hy
          simp only [List.mem_singleton] at hy
          subst hy
          intro e; subst e
          obtain ⟨bd, hbd, e⟩ := (g3 x hx).2
          rw [Nat.min_comm] at hbd
          rw [Nat.max_comm] at e
          exact hno bd hbd e
        · intro c hc
          rcases List.mem_append.1 hc with hc | hc
          · exact (g3 c hc).1
          · simp only [List.mem_singleton] at hc
            subst hc
            rw [Nat.min_comm, Nat.max_comm]
            exact hex
      · split at hl
        · rename_i e; subst e
          simp only [Option.some.injEq] at hl; subst hl
          obtain ⟨g2, g3⟩ := hlist k
          refine ⟨ha, ?_, ?_⟩
          · rw [List.nodup_append]
            refine ⟨g2, by simp, ?_⟩
            intro x hx y hy
            simp only [List.mem_singleton] at hy
            subst hy
            intro e; subst e
            obtain ⟨bd, hbd, e⟩ := (g3 x hx).2
            exact hno bd hbd e
          · intro c hc
            rcases List.mem_append.1 hc with hc | hc
            · exact (g3 c hc).1
            · simp only [List.mem_singleton] at hc
              subst hc
              exact hex
        · exact hold k l hl
    · intro i hi bd hbd h3'
      rcases hnew i bd hbd with h0 | ⟨_, ⟨e1, e2⟩ | ⟨e1, e2⟩⟩
      · obtain ⟨g1, g2⟩ := h3 i hi bd h0 h3'
        exact ⟨hgrow _ _ g1, hgrow _ _ g2⟩
      · subst e1
        rw [e2, hlk, hlk, if_neg hab, if_pos rfl, if_pos rfl]
        simp
      · subst e1
        rw [e2, hlk, hlk, if_pos rfl, if_neg hab, if_pos rfl]
        simp
  · have : (o == 3) = false := by simpa using ho
    simp only [this, Bool.false_eq_true, if_false]
    refine ⟨h1, ?_, ?_⟩
    · intro k l hl
      obtain ⟨g1, g2, g3⟩ := h2 k l hl
      refine ⟨g1, g2, ?_⟩
      intro c hc
      obtain ⟨bd, hbd, e⟩ := g3 c hc
      exact ⟨bd, hsub _ _ hbd, e⟩
    · intro i hi bd hbd h3'
      rcases hnew i bd hbd with h0 | ⟨e, _⟩
      · exact h3 i hi bd h0 h3'
      · exact absurd (e.symm.trans h3') ho

/-! ### `PWF` as an invariant of the parser -/

theorem pwf_iff (m : PMol) :
    PWF m ↔ (AdjOK m.adj ∧ m.atoms.length = m.adj.length ∧ m.counts2.length = m.adj.length ∧
      (∀ v, v < m.adj.length → m.counts2.getD v 0 = incident2 m.adj v) ∧
      (∀ i, i < m.adj.length → ∀ b ∈ rowAt m.adj i, b.order2 % 2 = 1 → b.order2 = 3) ∧
      DsOK m.adj.length (rowAt m.adj) m.ds) := by
  unfold PWF; rw [dsOK_iff]

theorem pwf_empty : PWF {} := by decide

theorem RowsOK.grow {n : Nat} {R : Nat → List PBond} (h : RowsOK n R) (hRn : ∀ j, n ≤ j → R j = []) :
    RowsOK (n + 1) R := by
  intro i hi
  by_cases hin : i = n
  · subst hin; rw [hRn i (Nat.le_refl _)]; exact ⟨by simp, by simp⟩
  · obtain ⟨g1, g2⟩ := h i (by omega)
    refine ⟨g1, ?_⟩
    intro b hb
    obtain ⟨e1, e2, e3, e4⟩ := g2 b hb
    exact ⟨e1, by omega, e3, e4⟩

theorem getD_append_zero (c : List Nat) (v : Nat) : (c ++ [0]).getD v 0 = c.getD v 0 := by
  rw [List.getD_eq_getElem?_getD, List.getD_eq_getElem?_getD]
  rcases Nat.lt_trichotomy v c.length with h | h | h
  · rw [List.getElem?_append_left h]
  · subst h; simp
  · rw [List.getElem?_eq_none (by simp; omega), List.getElem?_eq_none (by omega)]

theorem getD_zero_of_ge {c : List Nat} {v : Nat} (h : c.length ≤ v) : c.getD v 0 = 0 := by
  rw [List.getD_eq_getElem?_getD, List.getElem?_eq_none h]; rfl

theorem rows_facts {adj : List (List (Option PBond))} (hok : AdjOK adj) :
    ∀ i x, x ∈ rowAt adj i → i < adj.length ∧ x.dst < adj.length := by
  intro i x hx
  have hi := lt_of_mem_rowAt hx
  exact ⟨hi, ((hok i hi).2 x hx).2.1⟩

/-- `add_atom` -/
theorem pwf_addAtom {m : PMol} (h : PWF m) (a : Atom) (r : Bool) (attr : Option (List Attribution)) :
    PWF (m.addAtom a r attr).1 := by
  rw [pwf_iff] at h ⊢
  obtain ⟨hok, hal, hcl, hcnt, hpar, hds⟩ := h
  have hrows : ∀ j, rowAt (m.adj ++ [[]]) j = rowAt m.adj j := rowAt_append_nil m.adj
  simp only [PMol.addAtom, List.length_append, List.length_cons, List.length_nil]
  refine ⟨?_, by omega, by omega, ?_, ?_, ?_⟩
  · rw [adjOK_iff]
    simp only [List.length_append, List.length_cons, List.length_nil]
    exact (RowsOK.grow ((adjOK_iff _).1 hok) (fun j hj => rowAt_ge hj)).congr hrows
  · intro v hv
    rw [getD_append_zero, incident2_append_nil]
    by_cases hvn : v < m.adj.length
    · exact hcnt v hvn
    · rw [getD_zero_of_ge (by omega), incident2_zero_of_ge hok (by omega)]
  · intro i _ b hb
    rw [hrows] at hb
    exact hpar i (lt_of_mem_rowAt hb) b hb
  · have := (hds.addKey (rows_facts hok) a.isAromatic).congr_rows hrows
    rw [← hal] at this ⊢
    exact this

/-- a new atom bonded to `p`: `add_atom` then `add_bond(p, new, …)` -/
theorem pwf_attach {m m' : PMol} (h : PWF m) (a : Atom) (r : Bool) (attr : Option (List Attribution))
    {p o : Nat} {st : Option Char} {row : List (Option PBond)}
    (hinv : AddBondInv (m.addAtom a r attr).1 m' p m.atoms.length o st attr row)
    (hodd : o % 2 = 1 → o = 3) : PWF m' := by
  have h1 := pwf_addAtom h a r attr
  rw [pwf_iff] at h h1 ⊢
  obtain ⟨hok, hal, hcl, hcnt, hpar, hds⟩ := h
  obtain ⟨hok1, hal1, hcl1, hcnt1, hpar1, hds1⟩ := h1
  generalize hm1 : (m.addAtom a r attr).1 = m1 at hinv hok1 hal1 hcl1 hcnt1 hpar1 hds1
  have hadj1 : m1.adj = m.adj ++ [[]] := by rw [← hm1]; rfl
  have hn1 : m1.adj.length = m.adj.length + 1 := by rw [hadj1]; simp
  have hrows1 : ∀ j, rowAt m1.adj j = rowAt m.adj j := by rw [hadj1]; exact rowAt_append_nil m.adj
  obtain ⟨hlt, hrow, hcs, hcd, hat, _, _, _, hadj, hcounts, hdsv⟩ := hinv
  rw [hal] at hlt hcd hadj hcounts hdsv
  have hp1 : p < m1.adj.length := (List.getElem?_eq_some_iff.1 hrow).1
  have hrowe : row = m1.adj[p] := by
    have := List.getElem?_eq_getElem hp1
    rw [this] at hrow; injection hrow with e; exact e.symm
  subst hrowe
  generalize hb : PBond.mk p m.adj.length o st false attr = b at hadj
  have hbs : b.src = p ∧ b.dst = m.adj.length ∧ b.ring = false ∧ b.order2 = o := by
    rw [← hb]; exact ⟨rfl, rfl, rfl, rfl⟩
  have hlen' : m'.adj.length = m.adj.length + 1 := by rw [hadj]; simp [hn1]
  have hrows' : ∀ j, rowAt m'.adj j = if j = p then rowAt m.adj p ++ [b] else rowAt m.adj j := by
    intro j
    rw [hadj, rowAt_set hp1]
    split
    · rw [bondsOf_append, ← rowAt_of_lt hp1, hrows1]; simp [bondsOf]
    · exact hrows1 j
  have hsub : ∀ i x, x ∈ rowAt m.adj i → x ∈ rowAt m'.adj i := by
    intro i x hx; rw [hrows']; split
    · rename_i e; subst e; exact List.mem_append_left _ hx
    · exact hx
  have hnew : ∀ i x, x ∈ rowAt m'.adj i → x ∈ rowAt m.adj i ∨ (i = p ∧ x = b) := by
    intro i x hx; rw [hrows'] at hx; split at hx
    · rename_i e; subst e
      rcases List.mem_append.1 hx with h1 | h1
      · exact Or.inl h1
      · exact Or.inr ⟨rfl, by simpa using h1⟩
    · exact Or.inl hx
  rw [hlen']
  refine ⟨?_, by rw [hat, ← hm1]; simp [PMol.addAtom, hal], ?_, ?_, ?_, ?_⟩
  · rw [adjOK_iff, hlen']
    exact RowsOK.addChain ((adjOK_iff _).1 hok) (fun j hj => rowAt_ge hj) hlt b hbs.1 hbs.2.1 hbs.2.2.1 hrows'
  · rw [hcounts, cbump_length, cbump_length, hcl1, hn1]
  · intro v hv
    rw [hcounts, cbump_getD _ _ _ _ (by rw [cbump_length]; exact hcd), cbump_getD _ _ _ _ hcs, hadj,
      incident2_set_perm hp1 (b := b) (by
        rw [bondsOf_append]
        have : bondsOf [some b] = [b] := by simp [bondsOf]
        rw [this]; exact List.perm_append_comm) v, hcnt1 v (by omega)]
    unfold contrib
    rw [hbs.2.2.1, hbs.1, hbs.2.1, hbs.2.2.2]
    simp only [Bool.false_eq_true, if_false]
    omega
  · intro i _ x hx hxo
    rcases hnew i x hx with h0 | ⟨_, e⟩
    · exact hpar i (lt_of_mem_rowAt h0) x h0 hxo
    · rw [e, hbs.2.2.2] at hxo ⊢; exact hodd hxo
  · rw [hdsv]
    have hds1' : DsOK (m.adj.length + 1) (rowAt m.adj) m1.ds := by
      rw [← hn1]; exact hds1.congr_rows (fun j => (hrows1 j).symm)
    refine hds1'.add (by omega) (by omega) (by omega) hsub ?_ ?_ ?_
    · intro i x hx
      rcases hnew i x hx with h0 | ⟨e1, e2⟩
      · exact Or.inl h0
      · exact Or.inr ⟨by rw [e2, hbs.2.2.2], Or.inl ⟨e1, by rw [e2, hbs.2.1]⟩⟩
    · rw [Nat.min_eq_left (by omega), Nat.max_eq_right (by omega)]
      refine ⟨b, ?_, hbs.2.1, hbs.2.2.2⟩
      rw [hrows', if_pos rfl]; simp
    · rw [Nat.min_eq_left (by omega), Nat.max_eq_right (by omega)]
      intro bd hbd e
      have := (rows_facts hok p bd hbd).2
      omega

/-- anything that leaves lengths, stored bonds, counts and `ds` alone -/
theorem pwf_congr {m m' : PMol} (h : PWF m) (hlen : m'.adj.length = m.adj.length)
    (hrows : ∀ j, rowAt m'.adj j = rowAt m.adj j) (hinc : ∀ v, incident2 m'.adj v = incident2 m.adj v)
    (hat : m'.atoms = m.atoms) (hc : m'.counts2 = m.counts2) (hds : m'.ds = m.ds) : PWF m' := by
  rw [pwf_iff] at h ⊢
  obtain ⟨hok, hal, hcl, hcnt, hpar, hdsok⟩ := h
  rw [hlen, hat, hc, hds]
  refine ⟨?_, hal, hcl, ?_, ?_, hdsok.congr_rows hrows⟩
  · rw [adjOK_iff, hlen]; exact ((adjOK_iff _).1 hok).congr hrows
  · intro v hv; rw [hinc]; exact hcnt v hv
  · intro i hi b hb; rw [hrows] at hb; exact hpar i hi b hb

/-- `add_placeholder_bond` -/
theorem pwf_placeholder {m m' : PMol} (h : PWF m) {src pos : Nat} {row : List (Option PBond)}
    (hinv : PlaceholderInv m m' src pos row) : PWF m' := by
  obtain ⟨hrow, _, hat, _, _, _, hadj, hc, hds⟩ := hinv
  have hs : src < m.adj.length := (List.getElem?_eq_some_iff.1 hrow).1
  have hrowe : row = m.adj[src] := by
    have := List.getElem?_eq_getElem hs
    rw [this] at hrow; injection hrow with e; exact e.symm
  subst hrowe
  have hb : bondsOf (m.adj[src] ++ [none]) = bondsOf m.adj[src] := by simp [bondsOf]
  refine pwf_congr h (by rw [hadj]; simp) ?_ ?_ hat hc hds
  · intro j
    rw [hadj, rowAt_set hs]
    split
    · rename_i e; subst e; rw [hb, rowAt_of_lt hs]
    · rfl
  · intro v
    rw [hadj]
    have := incident2_set hs (m.adj[src] ++ [none]) v
    have e : rowSum v (m.adj[src] ++ [none]) = rowSum v m.adj[src] := by unfold rowSum; rw [hb]
    omega

/-- `_add_bond_at_loc` on the incident sums -/
theorem addBondAtLoc_incident {adj adj' : List (List (Option PBond))} {b : PBond} {pos : Option Nat}
    (h : PMol.addBondAtLoc adj b pos = .ok adj') (v : Nat) :
    incident2 adj' v = incident2 adj v + contrib v b := by
  obtain ⟨out, out', hrow, hins, rfl⟩ := addBondAtLoc_inv h
  have hlt : b.src < adj.length := (List.getElem?_eq_some_iff.1 hrow).1
  have hrowe : out = adj[b.src] := by
    have := List.getElem?_eq_getElem hlt
    rw [this] at hrow; injection hrow with e; exact e.symm
  subst hrowe
  exact incident2_set_perm hlt hins.perm v

theorem lookup_val_mem {α β} [BEq α] {l : List (α × β)} {k : α} {v : β} (h : lookup k l = some v) :
    ∃ p ∈ l, p.2 = v := by
  induction l with
  | nil => cases h
  | cons p l ih =>
    obtain ⟨k', v'⟩ := p
    unfold lookup at h
    split at h
    · simp only [Option.some.injEq] at h; exact ⟨(k', v'), by simp, h⟩
    · obtain ⟨q, hq, e⟩ := ih h; exact ⟨q, List.mem_cons_of_mem _ hq, e⟩

/-- side condition on the generated table `SMILES_BOND_ORDERS` -/
def BondOrdersOK : Prop := ∀ p ∈ Gen.smilesBondOrders2, p.2 = 2 ∨ p.2 = 3 ∨ p.2 = 4 ∨ p.2 = 6

theorem bondOrdersOK : BondOrdersOK := by unfold BondOrdersOK; decide

theorem bondOrder2_mem (c : Option Char) :
    bondOrder2 c = 2 ∨ bondOrder2 c = 3 ∨ bondOrder2 c = 4 ∨ bondOrder2 c = 6 := by
  unfold bondOrder2
  cases c with
  | none => exact Or.inl rfl
  | some c =>
    show (lookup c Gen.smilesBondOrders2).getD 2 = 2 ∨ (lookup c Gen.smilesBondOrders2).getD 2 = 3
      ∨ (lookup c Gen.smilesBondOrders2).getD 2 = 4 ∨ (lookup c Gen.smilesBondOrders2).getD 2 = 6
    cases h : lookup c Gen.smilesBondOrders2 with
    | none => exact Or.inl rfl
    | some v =>
      obtain ⟨p, hp, e⟩ := lookup_val_mem h
      have := bondOrdersOK p hp
      rw [e] at this
      exact this

theorem attachOrder_mem (pa curr : Atom) (bc : Option Char) :
    attachOrder pa curr bc = 2 ∨ attachOrder pa curr bc = 3 ∨ attachOrder pa curr bc = 4
      ∨ attachOrder pa curr bc = 6 := by
  unfold attachOrder
  split
  · exact Or.inr (Or.inl rfl)
  · exact bondOrder2_mem bc

theorem ringOrder_mem (la ra : Atom) (lb rb : Option Char) :
    ringOrder la ra lb rb = 2 ∨ ringOrder la ra lb rb = 3 ∨ ringOrder la ra lb rb = 4
      ∨ ringOrder la ra lb rb = 6 := by
  unfold ringOrder
  split
  · exact Or.inr (Or.inl rfl)
  · have h1 := bondOrder2_mem lb
    have h2 := bondOrder2_mem rb
    have e : ∀ c, (smilesToBond c).1 = bondOrder2 c := fun _ => rfl
    rw [e, e]
    omega

/-- `_make_ring_bonds` -/
theorem pwf_ring {m m' : PMol} (h : PWF m) {lb rb : Option Char} {a lpos b : Nat} {la ra : Atom}
    (hinv : MakeRingInv m m' lb a lpos rb b la ra) : PWF m' := by
  obtain ⟨hab, hnb, hla, hra, hadd⟩ := hinv
  obtain ⟨adj1, hinv⟩ := addRingBond_inv hadd
  generalize ho : ringOrder la ra lb rb = o at hinv
  have hodd : o % 2 = 1 → o = 3 := by
    have := ringOrder_mem la ra lb rb
    rw [ho] at this; omega
  obtain ⟨h1, h2, hca, hcb, _, _, hat, _, _, _, hcounts, hdsv⟩ := hinv
  rw [pwf_iff] at h ⊢
  obtain ⟨hok, hal, hcl, hcnt, hpar, hds⟩ := h
  have ha : a < m.adj.length := by rw [← hal]; exact (List.getElem?_eq_some_iff.1 hla).1
  have hb : b < m.adj.length := by rw [← hal]; exact (List.getElem?_eq_some_iff.1 hra).1
  obtain ⟨hno1, hno2⟩ := no_bond_of_hasBond hok ha hb hnb
  obtain ⟨_, hl1, hp1, hr1⟩ := addBondAtLoc_rows h1
  obtain ⟨_, hl2, hp2, hr2⟩ := addBondAtLoc_rows h2
  generalize hx : ringBondAB a b o (smilesToBond lb).2 = x at h1 hp1 hr1
  generalize hy : ringBondAB b a o (smilesToBond rb).2 = y at h2 hp2 hr2
  have hxs : x.src = a ∧ x.dst = b ∧ x.ring = true ∧ x.order2 = o := by rw [← hx]; exact ⟨rfl, rfl, rfl, rfl⟩
  have hys : y.src = b ∧ y.dst = a ∧ y.ring = true ∧ y.order2 = o := by rw [← hy]; exact ⟨rfl, rfl, rfl, rfl⟩
  rw [hxs.1] at hp1 hr1
  rw [hys.1] at hp2 hr2
  have hlen' : m'.adj.length = m.adj.length := by rw [hl2, hl1]
  have hRa : (rowAt m'.adj a).Perm (x :: rowAt m.adj a) := by rw [hr2 a hab]; exact hp1
  have hRb : (rowAt m'.adj b).Perm (y :: rowAt m.adj b) := by rw [← hr1 b (Ne.symm hab)]; exact hp2
  have hR' : ∀ j, j ≠ a → j ≠ b → rowAt m'.adj j = rowAt m.adj j := by
    intro j e1 e2; rw [hr2 j e2, hr1 j e1]
  have hsub : ∀ j z, z ∈ rowAt m.adj j → z ∈ rowAt m'.adj j := by
    intro j z hz
    by_cases e1 : j = a
    · subst e1; exact hRa.mem_iff.2 (List.mem_cons_of_mem _ hz)
    · by_cases e2 : j = b
      · subst e2; exact hRb.mem_iff.2 (List.mem_cons_of_mem _ hz)
      · rw [hR' j e1 e2]; exact hz
  have hnew : ∀ j z, z ∈ rowAt m'.adj j → z ∈ rowAt m.adj j ∨ (j = a ∧ z = x) ∨ (j = b ∧ z = y) := by
    intro j z hz
    by_cases e1 : j = a
    · subst e1
      rcases List.mem_cons.1 (hRa.mem_iff.1 hz) with h1 | h1
      · exact Or.inr (Or.inl ⟨rfl, h1⟩)
      · exact Or.inl h1
    · by_cases e2 : j = b
      · subst e2
        rcases List.mem_cons.1 (hRb.mem_iff.1 hz) with h1 | h1
        · exact Or.inr (Or.inr ⟨rfl, h1⟩)
        · exact Or.inl h1
      · rw [hR' j e1 e2] at hz; exact Or.inl hz
  rw [hlen']
  refine ⟨?_, by rw [hat]; exact hal, ?_, ?_, ?_, ?_⟩
  · rw [adjOK_iff, hlen']
    exact RowsOK.addRing ((adjOK_iff _).1 hok) ha hb hab x y ⟨hxs.1, hxs.2.1, hxs.2.2.1⟩
      ⟨hys.1, hys.2.1, hys.2.2.1⟩ (by rw [hxs.2.2.2, hys.2.2.2]) hno1 hno2 hRa hRb hR'
  · rw [hcounts, cbump_length, cbump_length, hcl]
  · intro v hv
    rw [hcounts, cbump_getD _ _ _ _ (by rw [cbump_length]; exact hcb), cbump_getD _ _ _ _ hca,
      addBondAtLoc_incident h2, addBondAtLoc_incident h1, hcnt v hv]
    unfold contrib
    rw [hxs.2.2.1, hys.2.2.1, hxs.1, hys.1, hxs.2.2.2, hys.2.2.2]
    simp only [if_true]
  · intro i _ z hz hzo
    rcases hnew i z hz with h0 | ⟨_, e⟩ | ⟨_, e⟩
    · exact hpar i (lt_of_mem_rowAt h0) z h0 hzo
    · rw [e, hxs.2.2.2] at hzo ⊢; exact hodd hzo
    · rw [e, hys.2.2.2] at hzo ⊢; exact hodd hzo
  · rw [hdsv]
    refine hds.add ha hb hab hsub ?_ ?_ ?_
    · intro i z hz
      rcases hnew i z hz with h0 | ⟨e1, e2⟩ | ⟨e1, e2⟩
      · exact Or.inl h0
      · exact Or.inr ⟨by rw [e2, hxs.2.2.2], Or.inl ⟨e1, by rw [e2, hxs.2.1]⟩⟩
      · exact Or.inr ⟨by rw [e2, hys.2.2.2], Or.inr ⟨e1, by rw [e2, hys.2.1]⟩⟩
    · rcases Nat.lt_or_ge a b with hlt | hge
      · rw [Nat.min_eq_left (by omega), Nat.max_eq_right (by omega)]
        exact ⟨x, hRa.mem_iff.2 List.mem_cons_self, hxs.2.1, hxs.2.2.2⟩
      · rw [Nat.min_eq_right hge, Nat.max_eq_left hge]
        exact ⟨y, hRb.mem_iff.2 List.mem_cons_self, hys.2.1, hys.2.2.2⟩
    · rcases Nat.lt_or_ge a b with hlt | hge
      · rw [Nat.min_eq_left (by omega), Nat.max_eq_right (by omega)]; exact hno1
      · rw [Nat.min_eq_right hge, Nat.max_eq_left hge]; exact hno2

/-- `PWF` is preserved by every iteration of the parser loop -/
theorem pwf_step {attrib : Bool} {Q : SmilesTok → Prop} {st st' : ParseSt} (h : PWF st.mol)
    (hs : PStep attrib Q st st') :
    PWF st'.mol := by
  cases hs with
  | atomRoot tok curr tl _ _ _ _ => exact pwf_addAtom h _ _ _
  | atomAttach tok curr p tl pa mol' _ _ _ hadd _ _ =>
    obtain ⟨row, hinv⟩ := addBond_inv hadd
    refine pwf_attach h curr false _ hinv ?_
    have := attachOrder_mem pa curr tok.bondChar
    omega
  | openBranch prev tl _ _ => exact h
  | closeBranch prev tl _ _ _ => exact h
  | ringOpen tok p tl mol' lpos _ _ _ hadd =>
    obtain ⟨row, hinv⟩ := addPlaceholder_inv hadd
    exact pwf_placeholder h hinv
  | ringClose tok p tl ro mol' _ _ _ hmk =>
    obtain ⟨la, ra, hinv⟩ := makeRingBonds_inv hmk
    exact pwf_ring h hinv

/-- **Stage A.**  Every graph `smiles_to_mol` returns is well formed (`PWF`). -/
theorem smilesToMol_pwf {s : Str} {attrib : Bool} {g : PMol} (h : smilesToMol s attrib = .ok g) :
    PWF g :=
  smilesToMol_invariant (Q := fun _ => True) (G := PWF) (I := fun st => PWF st.mol) pwf_empty
    (fun _ _ hG => hG) (fun _ _ hI hs => pwf_step hI hs) (fun _ hI _ _ _ => hI)
    (fun _ _ _ _ => trivial) h

end SV
