/-
  C10r: small helpers for the string-level theorems (forest not empty, number of ring digits,
  the exact effect of the chirality adjustment of `encodePrepare`).
-/
import SelfiesVerif.Proofs.ReaderEnc6
import SelfiesVerif.Proofs.ReaderLocal
import SelfiesVerif.Proofs.EncoderWF

namespace SV

theorem PForest.nodes_ne_nil {f : PForest} (h : f ≠ []) : f.nodes ≠ [] := by
  cases f with
  | nil => exact absurd rfl h
  | cons t rest =>
    cases t with
    | node i a its => simp [PForest.nodes, Tree.nodes]

/-- the number of ring-bond halves (ring-closure digits) of the forest of the input -/
def PForest.ringDigits (f : PForest) : Nat := (f.nodes.map fun n => (n.row.filter (·.ring)).length).sum

/-- how `encodePrepare`'s last step makes the atoms: exactly the flip `_should_invert_chirality` asks for -/
theorem encodeTail_atoms_exact {T : Table} {g1 g' : PMol} (h : encodeTail T true g1 = .ok g')
    (i : Nat) (a : Atom) (ha : g1.atoms[i]? = some a) :
    (a.chirality.isSome && g1.ringFlags.getD i false) = false ∧ g'.atoms[i]? = some a ∨
    (a.chirality.isSome && g1.ringFlags.getD i false) = true ∧
      ∃ inv, shouldInvertChirality g1 i = .ok inv ∧
        g'.atoms[i]? = some (if inv then a.invertChirality else a) := by
  unfold encodeTail at h
  cases hv : violatesConstraints T g1 with
  | true =>
    simp only [hv, Bool.and_self, if_true, bind, Except.bind] at h
    split at h <;> cases h
  | false =>
    simp only [hv, Bool.and_false, Bool.false_eq_true, if_false] at h
    obtain ⟨atoms, hm, h⟩ := bind_ok h
    simp only [pure, Except.pure, Except.ok.injEq] at h
    subst h
    obtain ⟨_, hf⟩ := mapM_ok _ _ _ hm
    obtain ⟨y, hy, hr⟩ := hf i (i, a) (zip_range_getElem? _ _ _ ha)
    dsimp only at hy
    split at hy
    · rename_i hc
      right
      obtain ⟨inv, hinv, hy⟩ := bind_ok hy
      simp only [pure, Except.pure, Except.ok.injEq] at hy
      exact ⟨hc, inv, hinv, by rw [hy]; exact hr⟩
    · rename_i hc
      left
      simp only [pure, Except.pure, Except.ok.injEq] at hy
      exact ⟨by simpa using hc, by rw [hy]; exact hr⟩

end SV
