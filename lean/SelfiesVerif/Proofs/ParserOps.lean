/-
  C03p: what the graph operations used by the SMILES parser do when they succeed
  (`add_bond`, `add_placeholder_bond`, `_add_bond_at_loc`, `add_ring_bond`, `_make_ring_bonds`),
  field by field.
-/
import SelfiesVerif.Proofs.ParserSteps

namespace SV

/-- `l[i] += d` -/
def cbump (l : List Nat) (i d : Nat) : List Nat := l.set i (l.getD i 0 + d)

theorem addCount_inv {l l' : List Nat} {i d : Nat} (h : Mol.addCount l i d = .ok l') :
    i < l.length ∧ l' = cbump l i d := by
  unfold Mol.addCount at h
  split at h
  · rename_i c hc
    simp only [Except.ok.injEq] at h
    have hi : i < l.length := (List.getElem?_eq_some_iff.1 hc).1
    refine ⟨hi, ?_⟩
    rw [← h, cbump, List.getD_eq_getElem?_getD, hc]; rfl
  · cases h

theorem cbump_length (l : List Nat) (i d : Nat) : (cbump l i d).length = l.length := by simp [cbump]

theorem cbump_getD (l : List Nat) (i d v : Nat) (hi : i < l.length) :
    (cbump l i d).getD v 0 = l.getD v 0 + if i = v then d else 0 := by
  simp only [cbump, List.getD_eq_getElem?_getD, List.getElem?_set]
  by_cases h : i = v
  · subst h; simp [hi]
  · simp [h]

theorem getIdx_inv {α} {l : List α} {i : Nat} {x : α} (h : getIdx l i = .ok x) : l[i]? = some x := by
  unfold getIdx at h
  split at h
  · rename_i y hy; simp only [Except.ok.injEq] at h; subst h; exact hy
  · cases h

theorem pyAssert_inv {c : Bool} (h : pyAssert c = .ok ()) : c = true := by
  unfold pyAssert at h
  split at h
  · assumption
  · cases h

/-- the delocalisation subgraph after a bond of order `o2` between `a` and `b` -/
def dsAfter (ds : List (Nat × List Nat)) (a b o2 : Nat) : List (Nat × List Nat) :=
  if o2 == 3 then PMol.dsAppend (PMol.dsAppend ds a b) b a else ds

structure AddBondInv (m m' : PMol) (src dst o2 : Nat) (st : Option Char)
    (attr : Option (List Attribution)) (row : List (Option PBond)) : Prop where
  lt : src < dst
  hrow : m.adj[src]? = some row
  csrc : src < m.counts2.length
  cdst : dst < m.counts2.length
  atoms : m'.atoms = m.atoms
  roots : m'.roots = m.roots
  flags : m'.ringFlags = m.ringFlags
  atomAttr : m'.atomAttr = m.atomAttr
  adj : m'.adj = m.adj.set src
    (row ++ [some { src := src, dst := dst, order2 := o2, stereo := st, ring := false, attr := attr }])
  counts : m'.counts2 = cbump (cbump m.counts2 src o2) dst o2
  ds : m'.ds = dsAfter m.ds src dst o2

theorem addBond_inv {m m' : PMol} {src dst o2 : Nat} {st : Option Char}
    {attr : Option (List Attribution)} (h : m.addBond src dst o2 st attr = .ok m') :
    ∃ row, AddBondInv m m' src dst o2 st attr row := by
  unfold PMol.addBond at h
  obtain ⟨u, hu, h⟩ := bind_ok h
  obtain ⟨out, hout, h⟩ := bind_ok h
  obtain ⟨c1, hc1, h⟩ := bind_ok h
  obtain ⟨c2, hc2, h⟩ := bind_ok h
  simp only [pure, Except.pure, Except.ok.injEq] at h
  cases u
  have hlt : src < dst := by simpa using pyAssert_inv hu
  obtain ⟨hs, e1⟩ := addCount_inv hc1
  obtain ⟨hd, e2⟩ := addCount_inv hc2
  subst e1 e2
  rw [cbump_length] at hd
  subst h
  exact ⟨out, ⟨hlt, getIdx_inv hout, hs, hd, rfl, rfl, rfl, rfl, rfl, rfl, rfl⟩⟩

structure PlaceholderInv (m m' : PMol) (src pos : Nat) (row : List (Option PBond)) : Prop where
  hrow : m.adj[src]? = some row
  hpos : pos = row.length
  atoms : m'.atoms = m.atoms
  roots : m'.roots = m.roots
  flags : m'.ringFlags = m.ringFlags
  atomAttr : m'.atomAttr = m.atomAttr
  adj : m'.adj = m.adj.set src (row ++ [none])
  counts : m'.counts2 = m.counts2
  ds : m'.ds = m.ds

theorem addPlaceholder_inv {m m' : PMol} {src pos : Nat} (h : m.addPlaceholder src = .ok (m', pos)) :
    ∃ row, PlaceholderInv m m' src pos row := by
  unfold PMol.addPlaceholder at h
  obtain ⟨out, hout, h⟩ := bind_ok h
  simp only [pure, Except.pure, Except.ok.injEq, Prod.mk.injEq] at h
  obtain ⟨h1, h2⟩ := h
  subst h1
  exact ⟨out, ⟨getIdx_inv hout, h2.symm, rfl, rfl, rfl, rfl, rfl, rfl, rfl⟩⟩

/-- the three ways `_add_bond_at_loc` changes the list of out-bonds -/
inductive LocIns (b : PBond) : List (Option PBond) → Option Nat → List (Option PBond) → Prop
  | append (out : List (Option PBond)) (pos : Option Nat) :
      (pos = none ∨ pos = some out.length) → LocIns b out pos (out ++ [some b])
  | fill (out : List (Option PBond)) (p : Nat) : out[p]? = some none → LocIns b out (some p) (out.set p (some b))
  | insert (out : List (Option PBond)) (p : Nat) (x : PBond) : out[p]? = some (some x) →
      LocIns b out (some p) (insertAt out p (some b))

theorem addBondAtLoc_inv {adj adj' : List (List (Option PBond))} {b : PBond} {pos : Option Nat}
    (h : PMol.addBondAtLoc adj b pos = .ok adj') :
    ∃ out out', adj[b.src]? = some out ∧ LocIns b out pos out' ∧ adj' = adj.set b.src out' := by
  unfold PMol.addBondAtLoc at h
  obtain ⟨out, hout, h⟩ := bind_ok h
  have hrow := getIdx_inv hout
  cases pos with
  | none =>
    simp only [pure, Except.pure, Except.ok.injEq] at h
    exact ⟨out, _, hrow, .append out none (Or.inl rfl), h.symm⟩
  | some p =>
    dsimp only at h
    split at h
    · rename_i hp
      simp only [pure, Except.pure, Except.ok.injEq] at h
      have hp' : p = out.length := by simpa using hp
      exact ⟨out, _, hrow, .append out _ (Or.inr (by rw [hp'])), h.symm⟩
    · split at h
      · cases h
      · rename_i hx
        simp only [pure, Except.pure, Except.ok.injEq] at h
        exact ⟨out, _, hrow, .fill out p hx, h.symm⟩
      · rename_i x hx
        simp only [pure, Except.pure, Except.ok.injEq] at h
        exact ⟨out, _, hrow, .insert out p x hx, h.symm⟩

def ringBondAB (a b o2 : Nat) (s : Option Char) : PBond :=
  { src := a, dst := b, order2 := o2, stereo := s, ring := true }

structure AddRingInv (m m' : PMol) (a b o2 : Nat) (sa sb : Option Char) (aPos bPos : Option Nat)
    (adj1 : List (List (Option PBond))) : Prop where
  hadj1 : PMol.addBondAtLoc m.adj (ringBondAB a b o2 sa) aPos = .ok adj1
  hadj2 : PMol.addBondAtLoc adj1 (ringBondAB b a o2 sb) bPos = .ok m'.adj
  ca : a < m.counts2.length
  cb : b < m.counts2.length
  fa : a < m.ringFlags.length
  fb : b < m.ringFlags.length
  atoms : m'.atoms = m.atoms
  roots : m'.roots = m.roots
  flags : m'.ringFlags = (m.ringFlags.set a true).set b true
  atomAttr : m'.atomAttr = m.atomAttr
  counts : m'.counts2 = cbump (cbump m.counts2 a o2) b o2
  ds : m'.ds = dsAfter m.ds a b o2

theorem addRingBond_inv {m m' : PMol} {a b o2 : Nat} {sa sb : Option Char} {aPos bPos : Option Nat}
    (h : m.addRingBond a b o2 sa sb aPos bPos = .ok m') :
    ∃ adj1, AddRingInv m m' a b o2 sa sb aPos bPos adj1 := by
  unfold PMol.addRingBond at h
  obtain ⟨adj1, h1, h⟩ := bind_ok h
  obtain ⟨adj2, h2, h⟩ := bind_ok h
  obtain ⟨c1, hc1, h⟩ := bind_ok h
  obtain ⟨c2, hc2, h⟩ := bind_ok h
  obtain ⟨f1, hf1, h⟩ := bind_ok h
  obtain ⟨f2, hf2, h⟩ := bind_ok h
  simp only [pure, Except.pure, Except.ok.injEq] at h
  obtain ⟨hs, e1⟩ := addCount_inv hc1
  obtain ⟨hd, e2⟩ := addCount_inv hc2
  subst e1 e2
  rw [cbump_length] at hd
  have hfa := (List.getElem?_eq_some_iff.1 (getIdx_inv hf1)).1
  have hfb := (List.getElem?_eq_some_iff.1 (getIdx_inv hf2)).1
  subst h
  exact ⟨adj1, ⟨h1, h2, hs, hd, hfa, hfb, rfl, rfl, rfl, rfl, rfl, rfl⟩⟩

/-- the order (half units) of the ring bond closed between `la` (opened with `lb`) and `ra`
    (closed with `rb`) -/
def ringOrder (la ra : Atom) (lb rb : Option Char) : Nat :=
  if la.isAromatic && ra.isAromatic && lb.isNone && rb.isNone then 3
  else max (smilesToBond lb).1 (smilesToBond rb).1

structure MakeRingInv (m m' : PMol) (lb : Option Char) (latom lpos : Nat) (rb : Option Char)
    (ratom : Nat) (la ra : Atom) : Prop where
  ne : latom ≠ ratom
  nobond : m.hasBond latom ratom = false
  hla : m.atoms[latom]? = some la
  hra : m.atoms[ratom]? = some ra
  add : m.addRingBond latom ratom (ringOrder la ra lb rb) (smilesToBond lb).2 (smilesToBond rb).2
    (some lpos) none = .ok m'

theorem makeRingBonds_inv {m m' : PMol} {lb rb : Option Char} {latom lpos ratom : Nat}
    (h : makeRingBonds m lb latom lpos rb ratom = .ok m') :
    ∃ la ra, MakeRingInv m m' lb latom lpos rb ratom la ra := by
  unfold makeRingBonds at h
  split at h
  · cases h
  · rename_i hne
    split at h
    · cases h
    · rename_i hnb
      revert h
      generalize (if lb.isNone = true then (rb, lb) else (lb, rb)) = bonds
      intro h
      simp only at h
      split at h
      · cases h
      · obtain ⟨la, hla, h⟩ := bind_ok h
        obtain ⟨ra, hra, h⟩ := bind_ok h
        refine ⟨la, ra, ⟨by simpa using hne, by simpa using hnb, getIdx_inv hla, getIdx_inv hra, ?_⟩⟩
        unfold ringOrder
        by_cases hc : (la.isAromatic && ra.isAromatic && lb.isNone && rb.isNone) = true
        · simp only [hc, if_true] at h ⊢
          exact h
        · simp only [hc] at h ⊢
          exact h

end SV
