/-
  C09 (stage 5): putting the stages together.

    parse  →  kekulize  →  strict check / chirality pass (`encodeTail`)  →  emission

  The only hypothesis that is not proved here is `PWF` of the parsed graph (the bookkeeping of bond
  counts and of the delocalisation subgraph, proved by a parallel worker), plus `TapeOK` (the tape
  is a legal record of `set.pop()` results).
-/
import SelfiesVerif.Proofs.EncTotalParse
import SelfiesVerif.Proofs.EncTotalKek
import SelfiesVerif.Proofs.EncTotalEmit
import SelfiesVerif.Proofs.AtomSymbols

namespace SV.C09

/-! ### what the parser guarantees besides `PWF` -/

theorem chargeInv_of_parse {s : Str} {attrib : Bool} {g : PMol} (h : smilesToMol s attrib = .ok g) :
    ChargeInv g :=
  smilesToMol_atomsAll (fun a => a.hCount = none → a.charge = 0)
    (fun tok a ha hn => ((smilesToAtom_shape tok a ha elementTablesOK).1.hNone hn).2.2) h

theorem noPlaceholder_of_molOK {m : PMol} (h : MolOK m) : NoPlaceholder m.adj := by
  intro row hrow ob hob e
  subst e
  obtain ⟨i, hi⟩ := List.getElem?_of_mem hrow
  obtain ⟨p, hp⟩ := List.getElem?_of_mem hob
  exact h.noPh i p ⟨row, hi, hp⟩

/-! ### the kekulized graph can be emitted -/

theorem noPlaceholder_mapOrders {adj : List (List (Option PBond))} (h : NoPlaceholder adj)
    (G : PBond → Nat) : NoPlaceholder (mapOrders G adj) := by
  intro row hrow ob hob
  unfold mapOrders at hrow
  obtain ⟨row0, hrow0, rfl⟩ := List.mem_map.1 hrow
  obtain ⟨ob0, hob0, rfl⟩ := List.mem_map.1 hob
  cases ob0 with
  | none => exact absurd rfl (h row0 hrow0 none hob0)
  | some b => simp

theorem emitOK_of_kek {m g' : PMol} {tape : List Nat} (hwf : PWF m) (hok : MolOK m)
    (harom : AromInv m) (hk : m.kekulize tape = .ok (some g')) (hs : KekShape m g') :
    EmitOK g' ∧ ∀ r ∈ g'.roots, r < g'.atoms.length := by
  obtain ⟨G, hadj, hsym, hG⟩ := hs.adj
  refine ⟨⟨?_, ?_, ?_, kekulize_no_aromatic harom hk, ?_⟩, ?_⟩
  · rw [hadj, hs.atoms]; simp [mapOrders, hok.len.adj]
  · rw [hadj]; exact hwf.1.mapOrders hsym
  · rw [hadj]; exact noPlaceholder_mapOrders (noPlaceholder_of_molOK hok) G
  · intro i b hb
    rw [hadj, rowAt_mapOrders] at hb
    obtain ⟨b0, hb0, rfl⟩ := List.mem_map.1 hb
    show OkOrder (G b0)
    rcases hG i b0 hb0 with e | e | ⟨e, hne⟩
    · exact Or.inl e
    · exact Or.inr (Or.inl e)
    · rw [e]
      have hi := lt_of_mem_rowAt hb0
      have hmem : some b0 ∈ m.adj[i] := by
        rw [rowAt_of_getElem? (List.getElem?_eq_getElem hi)] at hb0
        exact mem_bondsOf.1 hb0
      rcases hok.bonds _ (List.getElem_mem hi) b0 hmem with o | o | o | o
      · exact Or.inl o
      · exact absurd o hne
      · exact Or.inr (Or.inl o)
      · exact Or.inr (Or.inr o)
  · intro r hr
    rw [hs.roots] at hr
    rw [hs.atoms]
    exact hok.len.roots r hr

/-! ### the strict check and the chirality pass -/

theorem invertChirality_arom (a : Atom) : a.invertChirality.isAromatic = a.isAromatic := by
  unfold Atom.invertChirality
  split
  · rfl
  · split <;> rfl

theorem shouldInvertChirality_total {m : PMol} (he : EmitOK m) {i : Nat} (hi : i < m.atoms.length) :
    ∃ b, shouldInvertChirality m i = .ok b := by
  unfold shouldInvertChirality
  simp only [bind, Except.bind, (getOut_total he hi).1, pure, Except.pure]
  exact ⟨_, rfl⟩

/-- `_check_bond_constraints` and the chirality loop: `EncoderError`, or a graph that can still be
    emitted -/
theorem encodeTail_total (T : Table) (strict : Bool) {m : PMol} (he : EmitOK m)
    (hroots : ∀ r ∈ m.roots, r < m.atoms.length) :
    encodeTail T strict m = .error .EncoderError ∨
      ∃ m', encodeTail T strict m = .ok m' ∧ EmitOK m' ∧ (∀ r ∈ m'.roots, r < m'.atoms.length) ∧
        m'.atoms.length = m.atoms.length ∧ m'.adj = m.adj := by
  by_cases hv : (strict && violatesConstraints T m) = true
  · left
    simp only [Bool.and_eq_true] at hv
    rw [hv.1]
    exact encodeTail_strict_violation T m hv.2 he.noArom
  · right
    have hv' : (strict && violatesConstraints T m) = false := by simpa using hv
    obtain ⟨atoms, hat⟩ := mapM_ok_of_forall (fun (x : Nat × Atom) => do
        if x.2.chirality.isSome && (m.ringFlags.getD x.1 false) then
          let inv ← shouldInvertChirality m x.1
          pure (if inv then x.2.invertChirality else x.2)
        else pure x.2) ((List.range m.atoms.length).zip m.atoms) (by
      rintro ⟨i, a⟩ hx
      have hi : i < m.atoms.length := lt_of_getElem?_eq_some ((mem_zip_range ..).1 hx)
      split
      · obtain ⟨b, hb⟩ := shouldInvertChirality_total he hi
        simp only [bind, Except.bind, hb]
        exact ⟨_, rfl⟩
      · exact ⟨_, rfl⟩)
    obtain ⟨hlen, hall⟩ := mapM_ok _ _ _ hat
    have hlen' : atoms.length = m.atoms.length := by
      rw [hlen, List.length_zip, List.length_range, Nat.min_self]
    refine ⟨{ m with atoms := atoms }, ?_, ⟨?_, he.adjOK, he.noPh, ?_, he.orders⟩, ?_, hlen', rfl⟩
    · have e : encodeTail T strict m =
          (((List.range m.atoms.length).zip m.atoms).mapM (fun (x : Nat × Atom) => do
            if x.2.chirality.isSome && (m.ringFlags.getD x.1 false) then
              let inv ← shouldInvertChirality m x.1
              pure (if inv then x.2.invertChirality else x.2)
            else pure x.2)) >>= fun atoms => pure { m with atoms := atoms } := by
        unfold encodeTail
        rw [hv']
        rfl
      rw [e, hat]
      rfl
    · show m.adj.length = atoms.length
      rw [hlen', he.len]
    · intro a' ha'
      obtain ⟨j, hj⟩ := List.getElem?_of_mem ha'
      have hjl : j < ((List.range m.atoms.length).zip m.atoms).length := by
        rw [← hlen]; exact lt_of_getElem?_eq_some hj
      obtain ⟨y, hy1, hy2⟩ := hall j _ (List.getElem?_eq_getElem hjl)
      rw [hj] at hy2; cases hy2
      have hmem : ((List.range m.atoms.length).zip m.atoms)[j].2 ∈ m.atoms :=
        (List.of_mem_zip (List.getElem_mem hjl)).2
      have har := he.noArom _ hmem
      revert hy1
      generalize ((List.range m.atoms.length).zip m.atoms)[j] = x at har ⊢
      intro hy1
      split at hy1
      · simp only [bind, Except.bind] at hy1
        split at hy1
        · cases hy1
        · simp only [pure, Except.pure, Except.ok.injEq] at hy1
          rw [← hy1]
          split
          · rw [invertChirality_arom]; exact har
          · exact har
      · simp only [pure, Except.pure, Except.ok.injEq] at hy1
        rw [← hy1]; exact har
    · intro r hr
      show r < atoms.length
      rw [hlen']; exact hroots r hr

/-! ### the two counts of non-last chain bonds agree, and kekulization does not change them -/

theorem ccRow_eq (row : List (Option PBond)) : ccRow row = cc (bondsOf row) := by
  unfold ccRow cc bondsOf
  induction row with
  | nil => rfl
  | cons ob row ih =>
    cases ob with
    | none => simpa [List.countP_cons, isChainOpt] using ih
    | some b =>
      simp only [List.countP_cons, isChainOpt, List.filterMap_cons, id, List.filter_cons, ih]
      by_cases hr : (!b.ring) = true <;> simp [hr]

theorem sum_map_eq_range {α : Type} (f : α → Nat) (d : α) : ∀ (l : List α),
    (l.map f).sum = ((List.range l.length).map fun i => f (l.getD i d)).sum := by
  intro l
  induction l with
  | nil => rfl
  | cons x l ih =>
    rw [List.length_cons, List.range_succ_eq_map, List.map_cons, List.map_cons, List.sum_cons,
      List.sum_cons, List.map_map, ih]
    rfl

theorem phiFrom_zero (adj : List (List (Option PBond))) : phiFrom adj 0 = phi adj := by
  unfold phiFrom phi
  rw [List.drop_zero, sum_map_eq_range (fun row => cc (bondsOf row) - 1) [] adj]
  apply congrArg
  apply List.map_congr_left
  intro i _
  rw [ccRow_eq]

theorem phi_mapOrders (G : PBond → Nat) (adj : List (List (Option PBond))) :
    phi (mapOrders G adj) = phi adj := by
  unfold phi
  have hlen : (mapOrders G adj).length = adj.length := by simp [mapOrders]
  rw [hlen]
  apply congrArg
  apply List.map_congr_left
  intro i _
  have : (mapOrders G adj).getD i [] = (adj.getD i []).map (Option.map (setOrd G)) := by
    unfold mapOrders
    rw [List.getD_eq_getElem?_getD, List.getD_eq_getElem?_getD, List.getElem?_map]
    cases adj[i]? <;> rfl
  rw [this]
  congr 1
  unfold ccRow
  rw [List.countP_map]
  apply List.countP_congr
  intro ob _
  cases ob <;> rfl

/-! ### the whole encoder -/

/-- the observable outcomes the property allows, plus `KeyError` for a tape that is not a legal
    record of `set.pop()` results -/
inductive Outcome {α : Type} (tapeOK : Prop) (small : Prop) : Py α → Prop
  | ok (r : α) : Outcome tapeOK small (.ok r)
  | encoderError : Outcome tapeOK small (.error .EncoderError)
  | recursionError : ¬ small → Outcome tapeOK small (.error .RecursionError)
  | badTape : ¬ tapeOK → Outcome tapeOK small (.error .KeyError)

theorem encoderFull_total_aux (T : Table) (s : Str) (strict attrib : Bool) (tape : List Nat)
    (hpwf : ∀ g, smilesToMol s attrib = .ok g → PWF g) (P : Prop)
    (hP : P → ∀ g, smilesToMol s attrib = .ok g → TapeOK g tape) :
    Outcome P (s.length + 1 < recursionBudget ∨ s.count '(' + 1 < recursionBudget)
      (encoderFull T s strict attrib tape) := by
  unfold encoderFull
  rw [encodePrepare_eq]
  rcases smilesToMol_total s attrib with ⟨g, hg, hok, hsz, hphi⟩ | hg
  · have hwf := hpwf g hg
    have hP' : P → TapeOK g tape := fun h => hP h g hg
    clear hP hpwf
    rw [hg]
    simp only
    rcases kekulize_total hwf (chargeInv_of_parse hg) tape with hk | ⟨g', hk, hs⟩ | ⟨hk, ht⟩
    · rw [hk]; exact Outcome.encoderError
    · rw [hk]
      simp only
      obtain ⟨he, hroots⟩ := emitOK_of_kek hwf hok (smilesToMol_aromInv hg) hk hs
      rcases encodeTail_total T strict he hroots with ht | ⟨m', ht, he', hr', hlen', hadj'⟩
      · rw [ht]; exact Outcome.encoderError
      · rw [ht]
        simp only [bind, Except.bind]
        rcases frags_total' he' m'.roots hr' 0 [] [] with ⟨r, hr⟩ | ⟨hr, hn1, hn2⟩
        · rw [hr]; exact Outcome.ok _
        · rw [hr]
          refine Outcome.recursionError (fun hsmall => ?_)
          obtain ⟨G, hG, _⟩ := hs.adj
          rw [hlen', hs.atoms] at hn1
          rw [phiFrom_zero, hadj', hG, phi_mapOrders] at hn2
          rcases hsmall with h | h <;> omega
    · rw [hk]
      exact Outcome.badTape (fun h => ht (hP' h))
  · rw [hg]; exact Outcome.encoderError

/-- **`selfies.encoder` is total**: for every string, both flags and every tape, given `PWF` of the
    parsed graph -/
theorem encoderFull_total (T : Table) (s : Str) (strict attrib : Bool) (tape : List Nat)
    (hpwf : ∀ g, smilesToMol s attrib = .ok g → PWF g) :
    Outcome (∀ g, smilesToMol s attrib = .ok g → TapeOK g tape)
      (s.length + 1 < recursionBudget ∨ s.count '(' + 1 < recursionBudget)
      (encoderFull T s strict attrib tape) :=
  encoderFull_total_aux T s strict attrib tape hpwf _ id

end SV.C09
