/-
  Totality, part 4: `formRings` never fails (given the invariant the derive phase establishes and
  ring requests that point to existing atoms), and it keeps every out-bond list in the shape
  (ring bonds, in formation order) ++ (chain bonds, in creation order).
-/
import SelfiesVerif.Proofs.DeriveTotal

namespace SV

/-! ### small total versions of the `Mol` primitives -/

theorem getIdx_err {α} {l : List α} {i : Nat} {e : PyExc} (h : getIdx l i = .error e) : l.length ≤ i := by
  unfold getIdx at h
  split at h
  · cases h
  · rename_i hn; exact List.getElem?_eq_none_iff.mp hn

theorem getDirBond_total {m : Mol} {src dst : Nat} {row : List DirBond} {b : DirBond}
    (h : m.adj[src]? = some row) (hb : b ∈ row) (hd : b.dst = dst) :
    ∃ b', m.getDirBond src dst = .ok b' := by
  simp only [Mol.getDirBond, h]
  cases hf : row.find? (·.dst == dst) with
  | some b' => exact ⟨b', rfl⟩
  | none =>
    have := List.find?_eq_none.mp hf b hb
    simp [hd] at this

theorem hasBond_ok {m : Mol} {l r : Nat} (hlr : l < r) (h : m.hasBond l r = true) :
    ∃ row b, m.adj[l]? = some row ∧ b ∈ row ∧ b.dst = r := by
  unfold Mol.hasBond at h
  rw [Nat.min_eq_left (Nat.le_of_lt hlr), Nat.max_eq_right (Nat.le_of_lt hlr)] at h
  dsimp only at h
  split at h
  · rename_i out hout
    simp only [List.any_eq_true, beq_iff_eq] at h
    obtain ⟨b, hb, hd⟩ := h
    exact ⟨out, b, hout, hb, hd⟩
  · cases h

theorem updateBondOrder_total {T m} (hI : RInv T m) {l r n : Nat} (hlr : l < r)
    (hr : r < m.atoms.length) (hn1 : 1 ≤ n) (hn3 : n ≤ 3) {row : List DirBond} {b : DirBond}
    (hrow : m.adj[l]? = some row) (hb : b ∈ row) (hd : b.dst = r) :
    ∃ m', m.updateBondOrder l r n = .ok m' := by
  cases hres : m.updateBondOrder l r n with
  | ok m' => exact ⟨m', rfl⟩
  | error e =>
    exfalso
    unfold Mol.updateBondOrder at hres
    bind_err_at hres with ⟨_, _, hres⟩
    · simp [pyAssert, hn1, hn3] at hres
    rw [Nat.min_eq_left (Nat.le_of_lt hlr), Nat.max_eq_right (Nat.le_of_lt hlr)] at hres
    bind_err_at hres with ⟨ab, h1, hres⟩
    · obtain ⟨b', hb'⟩ := getDirBond_total hrow hb hd
      rw [hb'] at hres; cases hres
    split at hres
    · cases hres
    · bind_err_at hres with ⟨adj', h2, hres⟩
      · split at hres
        · rename_i hring
          bind_err_at hres with ⟨_, _, hres⟩
          · obtain ⟨rowl, hrowl, habm, habd⟩ := getDirBond_okM h1
            obtain ⟨row', hk', y, hy, hy1, _, _⟩ := hI.mirror l rowl hrowl ab habm hring
            rw [habd] at hk'
            obtain ⟨b', hb'⟩ := getDirBond_total hk' hy hy1
            rw [hb'] at hres; cases hres
          · cases hres
        · cases hres
      bind_err_at hres with ⟨cl, h3, hres⟩
      · have := getIdx_err hres; rw [hI.lenC] at this; omega
      bind_err_at hres with ⟨ch, h4, hres⟩
      · have := getIdx_err hres; rw [List.length_set, hI.lenC] at this; omega
      cases hres

theorem insertAt_eq {α} : ∀ (l : List α) (i : Nat) (v : α), i ≤ l.length →
    insertAt l i v = l.take i ++ v :: l.drop i
  | l, 0, v, _ => by simp [insertAt]
  | [], i + 1, v, h => by simp at h
  | x :: l, i + 1, v, h => by
    simp only [insertAt, List.take_succ_cons, List.drop_succ_cons, List.cons_append]
    rw [insertAt_eq l i v (by simpa using h)]

theorem addBondAtLoc_total {adj : List (List DirBond)} {b : DirBond} {pos : Nat} {row : List DirBond}
    (h : adj[b.src]? = some row) (hp : pos ≤ row.length) :
    Mol.addBondAtLoc adj b pos = .ok (adj.set b.src (row.take pos ++ b :: row.drop pos)) := by
  unfold Mol.addBondAtLoc
  rw [h]
  dsimp only
  split
  · rename_i he
    have : pos = row.length := by simpa using he
    subst this
    simp
  · rename_i hne
    have hne' : pos ≠ row.length := by simpa using hne
    rw [if_pos (by omega), insertAt_eq _ _ _ hp]

theorem addCount_total {l : List Nat} {i d : Nat} (h : i < l.length) :
    Mol.addCount l i d = .ok (l.set i (l[i] + d)) := by
  unfold Mol.addCount
  rw [List.getElem?_eq_getElem h]

theorem addRingBond_total {m : Mol} {a b order : Nat} {ast bst : Option Char} {ap bp : Nat}
    {rowa rowb : List DirBond} {ca cb : Nat} (hab : a ≠ b)
    (ha : m.adj[a]? = some rowa) (hb : m.adj[b]? = some rowb)
    (hap : ap ≤ rowa.length) (hbp : bp ≤ rowb.length)
    (hca : m.counts[a]? = some ca) (hcb : m.counts[b]? = some cb) :
    m.addRingBond a b order ast bst ap bp = .ok { m with
      adj := (m.adj.set a (rowa.take ap ++
          { src := a, dst := b, order := order, stereo := ast, ring := true } :: rowa.drop ap)).set b
        (rowb.take bp ++ { src := b, dst := a, order := order, stereo := bst, ring := true } :: rowb.drop bp),
      counts := (m.counts.set a (ca + order)).set b (cb + order) } := by
  unfold Mol.addRingBond
  have hal := (List.getElem?_eq_some_iff.mp hca).1
  have hbl := (List.getElem?_eq_some_iff.mp hcb).1
  have e1 := addBondAtLoc_total (adj := m.adj)
    (b := { src := a, dst := b, order := order, stereo := ast, ring := true }) (pos := ap) ha hap
  have hb' : (m.adj.set a (rowa.take ap ++
      { src := a, dst := b, order := order, stereo := ast, ring := true } :: rowa.drop ap))[b]? = some rowb := by
    rw [List.getElem?_set_ne hab]; exact hb
  have e2 := addBondAtLoc_total
    (b := { src := b, dst := a, order := order, stereo := bst, ring := true }) (pos := bp) hb' hbp
  have e3 : Mol.addCount m.counts a order = .ok (m.counts.set a (ca + order)) := by
    rw [addCount_total hal]
    have := (List.getElem?_eq_some_iff.mp hca).2
    rw [this]
  have e4 : Mol.addCount (m.counts.set a (ca + order)) b order =
      .ok ((m.counts.set a (ca + order)).set b (cb + order)) := by
    rw [addCount_total (by simpa using hbl)]
    have := (List.getElem?_eq_some_iff.mp hcb).2
    simp only [List.getElem_set_ne hab, this]
  simp only at e1 e2
  simp only [e1, e2, e3, e4, bind, Except.bind, pure, Except.pure]

theorem two_get' {α} {l : List α} {a b : Nat} {xa xb xa' xb' : α}
    (ha : l[a]? = some xa) (hb : l[b]? = some xb) (k : Nat) :
    ((l.set a xa').set b xb')[k]? =
      if k = b then some xb' else if k = a then some xa' else l[k]? := by
  have hal := (List.getElem?_eq_some_iff.mp ha).1
  have hbl := (List.getElem?_eq_some_iff.mp hb).1
  rw [List.getElem?_set]
  by_cases h1 : b = k
  · subst h1; simp [hbl]
  · rw [if_neg h1, if_neg (fun e => h1 e.symm), List.getElem?_set]
    by_cases h2 : a = k
    · subst h2; simp [hal]
    · rw [if_neg h2, if_neg (fun e => h2 e.symm)]

/-! ### ring bonds first -/

/-- a bond with its order erased (bond orders change when a ring request lands on a bonded pair) -/
def DirBond.noOrder (b : DirBond) : DirBond := { b with order := 0 }

theorem noOrder_upd (d n : Nat) (b : DirBond) : (upd d n b).noOrder = b.noOrder := by
  unfold upd DirBond.noOrder; split <;> rfl

theorem noOrder_ring {b b' : DirBond} (h : b.noOrder = b'.noOrder) : b.ring = b'.ring := by
  have := congrArg DirBond.ring h; exact this

theorem noOrder_dst {b b' : DirBond} (h : b.noOrder = b'.noOrder) : b.dst = b'.dst := by
  have := congrArg DirBond.dst h; exact this

theorem noOrder_src {b b' : DirBond} (h : b.noOrder = b'.noOrder) : b.src = b'.src := by
  have := congrArg DirBond.src h; exact this

/-- `row` = `k` ring bonds followed by chain bonds only -/
def RowSplit (k : Nat) (row : List DirBond) : Prop :=
  k ≤ row.length ∧ (∀ b ∈ row.take k, b.ring = true) ∧ (∀ b ∈ row.drop k, b.ring = false)

theorem RowSplit.of_noOrder {k row row'} (h : RowSplit k row)
    (e : row'.map DirBond.noOrder = row.map DirBond.noOrder) : RowSplit k row' := by
  have hlen : row'.length = row.length := by simpa using congrArg List.length e
  have key : ∀ (j : Nat) (b' : DirBond), row'[j]? = some b' → ∃ b : DirBond, row[j]? = some b ∧ b'.ring = b.ring := by
    intro j b' hj
    have h1 : (row'.map DirBond.noOrder)[j]? = some b'.noOrder := by simp [hj]
    rw [e] at h1
    simp only [List.getElem?_map, Option.map_eq_some_iff] at h1
    obtain ⟨b, hb, hbe⟩ := h1
    exact ⟨b, hb, (noOrder_ring hbe).symm⟩
  refine ⟨by rw [hlen]; exact h.1, ?_, ?_⟩
  · intro b' hb'
    obtain ⟨j, hj⟩ := List.getElem?_of_mem hb'
    rw [List.getElem?_take] at hj
    split at hj
    · obtain ⟨b, hb, hr⟩ := key j b' hj
      rw [hr]
      apply h.2.1
      apply List.mem_of_getElem? (i := j)
      rw [List.getElem?_take, if_pos (by assumption)]; exact hb
    · cases hj
  · intro b' hb'
    obtain ⟨j, hj⟩ := List.getElem?_of_mem hb'
    rw [List.getElem?_drop] at hj
    obtain ⟨b, hb, hr⟩ := key _ b' hj
    rw [hr]
    apply h.2.2
    apply List.mem_of_getElem? (i := j)
    rw [List.getElem?_drop]; exact hb

theorem RowSplit.insert {k row} (h : RowSplit k row) {b : DirBond} (hb : b.ring = true) :
    RowSplit (k + 1) (row.take k ++ b :: row.drop k) := by
  obtain ⟨h1, h2, h3⟩ := h
  have e : row.take k ++ b :: row.drop k = (row.take k ++ [b]) ++ row.drop k := by simp
  have hl : (row.take k ++ [b]).length = k + 1 := by simp [List.length_take, Nat.min_eq_left h1]
  refine ⟨by simp; omega, ?_, ?_⟩
  · rw [e, List.take_left' hl]
    intro x hx
    rcases List.mem_append.mp hx with hx | hx
    · exact h2 x hx
    · simp at hx; subst hx; exact hb
  · rw [e, List.drop_left' hl]
    exact h3

/-- `ringsMade[i]` counts the ring bonds at the front of `adj[i]` -/
structure RMInv (m : Mol) (rm : List Nat) : Prop where
  len : rm.length = m.atoms.length
  split : ∀ (i : Nat) (row : List DirBond) (k : Nat), m.adj[i]? = some row → rm[i]? = some k → RowSplit k row

/-- the partners of atom `i` in the ring requests, in request order -/
def ringPartners (i : Nat) (rings : List RingReq) : List Nat :=
  rings.flatMap fun q => if q.1 = i then [q.2.1] else if q.2.1 = i then [q.1] else []

/-- how one ring request changes row `i` (`k` = ring bonds made so far at `i`) -/
def StepRel (i : Nat) (req : RingReq) (k : Nat) (row : List DirBond) (k1 : Nat) (row1 : List DirBond) : Prop :=
  (k1 = k ∧ row1.map DirBond.noOrder = row.map DirBond.noOrder) ∨
  ∃ ab : DirBond, ab.ring = true ∧ ab.src = i ∧ ringPartners i [req] = [ab.dst] ∧ k1 = k + 1 ∧
    row1 = row.take k ++ ab :: row.drop k

theorem StepRel.same (i req k row) : StepRel i req k row k row := Or.inl ⟨rfl, rfl⟩

/-- one iteration of `_form_rings_bilocally` succeeds and keeps all invariants -/
theorem formRings_step (T : Table) (req : RingReq) (rest : List RingReq) (m : Mol) (rm : List Nat)
    (hI : RInv T m) (hreq : req.1 ≤ req.2.1 ∧ 1 ≤ req.2.2.1 ∧ req.2.2.1 ≤ 3)
    (hlt : req.2.1 < m.atoms.length) (hM : RMInv m rm) :
    ∃ m1 rm1, formRings T (req :: rest) m rm = formRings T rest m1 rm1 ∧ RInv T m1 ∧ RMInv m1 rm1 ∧
      SameChain m m1 ∧
      ∀ (i : Nat) (row : List DirBond) (k : Nat), m.adj[i]? = some row → rm[i]? = some k →
        ∃ row1 k1, m1.adj[i]? = some row1 ∧ rm1[i]? = some k1 ∧ StepRel i req k row k1 row1 := by
  obtain ⟨lidx, ridx, order, lst, rst⟩ := req
  simp only at hreq hlt
  have hsame : ∀ (i : Nat) (row : List DirBond) (k : Nat), m.adj[i]? = some row → rm[i]? = some k →
      ∃ row1 k1, m.adj[i]? = some row1 ∧ rm[i]? = some k1 ∧
        StepRel i (lidx, ridx, order, lst, rst) k row k1 row1 :=
    fun i row k h1 h2 => ⟨row, k, h1, h2, StepRel.same _ _ _ _⟩
  rw [formRings]
  split
  · exact ⟨m, rm, rfl, hI, hM, SameChain.refl _, hsame⟩
  · rename_i hne
    have hlr : lidx < ridx := by
      have : lidx ≠ ridx := by simpa using hne
      omega
    have hA := hI.lenA
    have hC := hI.lenC
    have h1 := getIdx_total (l := m.atoms) (i := lidx) (by omega)
    have h2 := getIdx_total (l := m.atoms) (i := ridx) (by omega)
    have h3 := getIdx_total (l := m.counts) (i := lidx) (by omega)
    have h4 := getIdx_total (l := m.counts) (i := ridx) (by omega)
    have hal := getIdx_okD h1
    have har := getIdx_okD h2
    have hcl := getIdx_okD h3
    have hcr := getIdx_okD h4
    generalize m.atoms[lidx]'(by omega) = latom at h1 hal
    generalize m.atoms[ridx]'(by omega) = ratom at h2 har
    generalize m.counts[lidx]'(by omega) = lcount at h3 hcl
    generalize m.counts[ridx]'(by omega) = rcount at h4 hcr
    simp only [h1, h2, h3, h4, bind, Except.bind]
    split
    · exact ⟨m, rm, rfl, hI, hM, SameChain.refl _, hsame⟩
    · rename_i hfree
      have hfree' : 0 < Atom.bondingCapacity T latom - ↑lcount ∧ 0 < Atom.bondingCapacity T ratom - ↑rcount := by
        simp only [Bool.or_eq_true, decide_eq_true_eq, not_or, Int.not_le] at hfree
        exact hfree
      generalize ho : (min (min (↑order) (Atom.bondingCapacity T latom - ↑lcount))
        (Atom.bondingCapacity T ratom - ↑rcount)).toNat = o
      have ho' : 1 ≤ o ∧ o ≤ 3 ∧ (lcount : Int) + o ≤ Atom.bondingCapacity T latom ∧
          (rcount : Int) + o ≤ Atom.bondingCapacity T ratom := by
        subst ho; omega
      obtain ⟨o1, o3, ocl, ocr⟩ := ho'
      split
      · -- the pair is already bonded: raise the order
        rename_i hhb
        obtain ⟨row, b, hrow, hbm, hbd⟩ := hasBond_ok hlr hhb
        obtain ⟨bond, h5⟩ := getDirBond_total hrow hbm hbd
        obtain ⟨row', hrow', hbm', hbd'⟩ := getDirBond_okM h5
        rw [hrow] at hrow'; cases hrow'
        have hbo := hI.bonds _ _ hrow _ hbm'
        obtain ⟨m1, h6⟩ := updateBondOrder_total hI hlr hlt (n := min (o + bond.order) 3)
          (by omega) (by omega) hrow hbm hbd
        simp only [h5, h6]
        rcases updateBondOrder_eq hI hlr h6 with rfl | ⟨ab, rowl, rowr, cl, cr, e1, e2, e3, e4, e5, e6,
          hn1, hn3, hring, hchain, eadj, ecnt, eat, ert⟩
        · exact ⟨m1, rm, rfl, hI, hM, SameChain.refl _, hsame⟩
        · rw [hrow] at e1; cases e1
          have : ab = bond := pw_unique (hI.nodup _ _ hrow) e2 hbm' (by omega)
          subst this
          rw [hcl] at e5; cases e5
          rw [hcr] at e6; cases e6
          obtain ⟨hI1, hS1⟩ := hI.update (Nat.ne_of_lt hlr) hrow e2 e3 e4 hcl hcr hn1 hn3 (by omega)
            hring hchain hal har (by omega) (by omega) eadj ecnt eat ert
          have hget : ∀ k, m1.adj[k]? = if k = ridx then some (rowr.map (upd lidx (min (o + ab.order) 3))) else
              if k = lidx then some (row.map (upd ridx (min (o + ab.order) 3))) else m.adj[k]? := by
            intro k; rw [eadj]; exact two_get hrow e4 k
          have hstep : ∀ (i : Nat) (row0 : List DirBond) (k : Nat), m.adj[i]? = some row0 → rm[i]? = some k →
              ∃ row1 k1, m1.adj[i]? = some row1 ∧ rm[i]? = some k1 ∧
                StepRel i (lidx, ridx, order, lst, rst) k row0 k1 row1 := by
            intro i row0 k hi hk
            rw [hget i]
            split
            · subst_vars; rw [e4] at hi; cases hi
              exact ⟨_, k, rfl, hk, Or.inl ⟨rfl, by simp [List.map_map, Function.comp_def, noOrder_upd]⟩⟩
            · split
              · subst_vars; rw [hrow] at hi; cases hi
                exact ⟨_, k, rfl, hk, Or.inl ⟨rfl, by simp [List.map_map, Function.comp_def, noOrder_upd]⟩⟩
              · exact ⟨row0, k, hi, hk, StepRel.same _ _ _ _⟩
          refine ⟨m1, rm, rfl, hI1, ⟨by rw [eat]; exact hM.len, ?_⟩, hS1, hstep⟩
          intro i row1 k hi hk
          have hil : i < m.adj.length := by
            have := (List.getElem?_eq_some_iff.mp hk).1
            rw [hM.len, ← hA] at this; exact this
          obtain ⟨row1', k1, hi', hk', hrel⟩ := hstep i _ k (List.getElem?_eq_getElem hil) hk
          rw [hi] at hi'; cases hi'
          rcases hrel with ⟨_, hrel⟩ | ⟨ab', _, _, _, hk1, _⟩
          · exact (hM.split i _ k (List.getElem?_eq_getElem hil) hk).of_noOrder hrel
          · rw [hk] at hk'; cases hk'; omega
      · -- a new ring bond
        rename_i hnb
        have hlrm : lidx < rm.length := by rw [hM.len]; omega
        have hrrm : ridx < rm.length := by rw [hM.len]; omega
        have h5 := getIdx_total hlrm
        have h6 := getIdx_total hrrm
        have hlp := getIdx_okD h5
        have hrp := getIdx_okD h6
        generalize rm[lidx] = lp at h5 hlp
        generalize rm[ridx] = rp at h6 hrp
        obtain ⟨rowa, e1⟩ : ∃ rowa, m.adj[lidx]? = some rowa := ⟨_, List.getElem?_eq_getElem (by omega)⟩
        obtain ⟨rowb, e2⟩ : ∃ rowb, m.adj[ridx]? = some rowb := ⟨_, List.getElem?_eq_getElem (by omega)⟩
        have hsa := hM.split _ _ _ e1 hlp
        have hsb := hM.split _ _ _ e2 hrp
        have h7 := addRingBond_total (m := m) (order := o) (ast := lst) (bst := rst) (Nat.ne_of_lt hlr) e1 e2
          hsa.1 hsb.1 hcl hcr
        have h8 : getIdx (rm.set lidx (lp + 1)) ridx = .ok rp := by
          unfold getIdx
          rw [List.getElem?_set_ne (Nat.ne_of_lt hlr), hrp]
        simp only [h5, h6, h7, h8]
        have hnoa : ∀ x ∈ rowa, x.dst ≠ ridx := by
          intro x hx hxd
          apply hnb
          unfold Mol.hasBond
          rw [Nat.min_eq_left (Nat.le_of_lt hlr), Nat.max_eq_right (Nat.le_of_lt hlr)]
          simp only [e1, List.any_eq_true, beq_iff_eq]
          exact ⟨x, hx, hxd⟩
        have hnob : ∀ x ∈ rowb, x.dst ≠ lidx := by
          intro x hx hxl
          have hbx := hI.bonds _ _ e2 x hx
          cases hxr : x.ring with
          | false => have := hbx.2.2.2.2.2 hxr; omega
          | true =>
            obtain ⟨row', hk', y, hy, hy1, hy2, hy3⟩ := hI.mirror _ _ e2 x hx hxr
            rw [hxl, e1] at hk'; cases hk'
            exact hnoa y hy hy1
        have pa : ∀ (ab : DirBond), (rowa.take lp ++ ab :: rowa.drop lp).Perm (ab :: rowa) := by
          intro ab
          have := List.perm_middle (a := ab) (l₁ := rowa.take lp) (l₂ := rowa.drop lp)
          rwa [List.take_append_drop] at this
        have pb : ∀ (ba : DirBond), (rowb.take rp ++ ba :: rowb.drop rp).Perm (ba :: rowb) := by
          intro ba
          have := List.perm_middle (a := ba) (l₁ := rowb.take rp) (l₂ := rowb.drop rp)
          rwa [List.take_append_drop] at this
        obtain ⟨hI1, hS1⟩ := hI.addRing (m' := { m with
            adj := (m.adj.set lidx (rowa.take lp ++
                { src := lidx, dst := ridx, order := o, stereo := lst, ring := true } :: rowa.drop lp)).set ridx
              (rowb.take rp ++ { src := ridx, dst := lidx, order := o, stereo := rst, ring := true } :: rowb.drop rp),
            counts := (m.counts.set lidx (lcount + o)).set ridx (rcount + o) })
          (order := o)
          (ab := { src := lidx, dst := ridx, order := o, stereo := lst, ring := true })
          (ba := { src := ridx, dst := lidx, order := o, stereo := rst, ring := true })
          (Nat.ne_of_lt hlr) e1 e2 (pa _) (pb _) ⟨rfl, rfl, rfl, rfl⟩ ⟨rfl, rfl, rfl, rfl⟩
          hcl hcr hal har ocl ocr o1 o3 hnoa hnob rfl rfl rfl rfl
        have hstep : ∀ (i : Nat) (row0 : List DirBond) (k : Nat), m.adj[i]? = some row0 → rm[i]? = some k →
            ∃ row1 k1,
              ((m.adj.set lidx (rowa.take lp ++
                { src := lidx, dst := ridx, order := o, stereo := lst, ring := true } :: rowa.drop lp)).set ridx
              (rowb.take rp ++ { src := ridx, dst := lidx, order := o, stereo := rst, ring := true } :: rowb.drop rp))[i]?
                = some row1 ∧
              ((rm.set lidx (lp + 1)).set ridx (rp + 1))[i]? = some k1 ∧
              StepRel i (lidx, ridx, order, lst, rst) k row0 k1 row1 := by
          intro i row0 k hi hk
          rw [two_get e1 e2 i, two_get' (l := rm) (xa' := lp + 1) (xb' := rp + 1) hlp hrp i]
          by_cases hir : i = ridx
          · subst hir
            rw [e2] at hi; cases hi
            rw [hrp] at hk; cases hk
            refine ⟨_, _, by rw [if_pos rfl], by rw [if_pos rfl], Or.inr ⟨_, rfl, rfl, ?_, rfl, rfl⟩⟩
            simp [ringPartners, Nat.ne_of_lt hlr]
          · rw [if_neg hir, if_neg hir]
            by_cases hil : i = lidx
            · subst hil
              rw [e1] at hi; cases hi
              rw [hlp] at hk; cases hk
              refine ⟨_, _, by rw [if_pos rfl], by rw [if_pos rfl], Or.inr ⟨_, rfl, rfl, ?_, rfl, rfl⟩⟩
              simp [ringPartners]
            · rw [if_neg hil, if_neg hil]
              exact ⟨row0, k, hi, hk, StepRel.same _ _ _ _⟩
        refine ⟨_, _, rfl, hI1, ⟨by simpa using hM.len, ?_⟩, hS1, hstep⟩
        intro i row1 k1 hi hk
        have hil : i < m.adj.length := by
          have := (List.getElem?_eq_some_iff.mp hk).1
          simp only [List.length_set] at this
          rw [hM.len, ← hA] at this; exact this
        have hil' : i < rm.length := by rw [hM.len, ← hA]; exact hil
        obtain ⟨row1', k1', hi', hk', hrel⟩ := hstep i _ _ (List.getElem?_eq_getElem hil)
          (List.getElem?_eq_getElem hil')
        simp only at hi
        rw [hi] at hi'; cases hi'
        rw [hk] at hk'; cases hk'
        have hs0 := hM.split i _ _ (List.getElem?_eq_getElem hil) (List.getElem?_eq_getElem hil')
        rcases hrel with ⟨rfl, hrel⟩ | ⟨ab', hab', _, _, rfl, rfl⟩
        · exact hs0.of_noOrder hrel
        · exact hs0.insert hab'

/-- what `formRings` did to row `i` overall: the bonds are those of `row` (orders may have been
    raised) with the new ring bonds `rnew` inserted, in request order, right after the first `k` -/
def RingTrace (i : Nat) (rings : List RingReq) (k : Nat) (row grow : List DirBond) : Prop :=
  ∃ rnew : List DirBond, (∀ b ∈ rnew, b.ring = true ∧ b.src = i) ∧
    (rnew.map (·.dst)).Sublist (ringPartners i rings) ∧
    grow.map DirBond.noOrder =
      (row.take k).map DirBond.noOrder ++ rnew.map DirBond.noOrder ++ (row.drop k).map DirBond.noOrder

theorem ringPartners_cons (i : Nat) (req : RingReq) (rest : List RingReq) :
    ringPartners i (req :: rest) = ringPartners i [req] ++ ringPartners i rest := by
  simp [ringPartners]

theorem take_insert {α} (l : List α) (k : Nat) (b : α) (hk : k ≤ l.length) :
    (l.take k ++ b :: l.drop k).take (k + 1) = l.take k ++ [b] ∧
    (l.take k ++ b :: l.drop k).drop (k + 1) = l.drop k := by
  have e : l.take k ++ b :: l.drop k = (l.take k ++ [b]) ++ l.drop k := by simp
  have hl : (l.take k ++ [b]).length = k + 1 := by simp [List.length_take, Nat.min_eq_left hk]
  rw [e, List.take_left' hl, List.drop_left' hl]
  exact ⟨rfl, rfl⟩

/-- `_form_rings_bilocally` never fails, keeps the graph invariant, and only inserts ring bonds
    at position `ringsMade[i]` of each row -/
theorem formRings_total (T : Table) : ∀ (rings : List RingReq) (m : Mol) (rm : List Nat),
    RInv T m → RingsOK rings → RingsLt rings m → RMInv m rm →
    ∃ g, formRings T rings m rm = .ok g ∧ RInv T g ∧ SameChain m g ∧
      ∀ (i : Nat) (row : List DirBond) (k : Nat), m.adj[i]? = some row → rm[i]? = some k →
        ∃ grow, g.adj[i]? = some grow ∧ RingTrace i rings k row grow := by
  intro rings
  induction rings with
  | nil =>
    intro m rm hI _ _ _
    refine ⟨m, by simp only [formRings], hI, SameChain.refl _, ?_⟩
    intro i row k hi _
    refine ⟨row, hi, [], by simp, by simp, ?_⟩
    simp only [List.map_nil, List.append_nil, ← List.map_append, List.take_append_drop]
  | cons req rest ih =>
    intro m rm hI hR hL hM
    have hreq := hR req List.mem_cons_self
    have hlt := hL req List.mem_cons_self
    obtain ⟨m1, rm1, heq, hI1, hM1, hS1, hstep⟩ := formRings_step T req rest m rm hI hreq hlt hM
    have hR1 : RingsOK rest := fun x hx => hR x (List.mem_cons_of_mem _ hx)
    have hL1 : RingsLt rest m1 := fun x hx => by
      rw [hS1.atoms]; exact hL x (List.mem_cons_of_mem _ hx)
    obtain ⟨g, hg, hIg, hSg, htr⟩ := ih m1 rm1 hI1 hR1 hL1 hM1
    refine ⟨g, by rw [heq]; exact hg, hIg, hS1.trans hSg, ?_⟩
    intro i row k hi hk
    obtain ⟨row1, k1, hi1, hk1, hrel⟩ := hstep i row k hi hk
    obtain ⟨grow, hgi, rnew, hrn, hsub, hmap⟩ := htr i row1 k1 hi1 hk1
    refine ⟨grow, hgi, ?_⟩
    rcases hrel with ⟨rfl, hrel⟩ | ⟨ab, hab, habs, hpart, rfl, rfl⟩
    · refine ⟨rnew, hrn, ?_, ?_⟩
      · rw [ringPartners_cons]
        exact hsub.trans (List.sublist_append_right _ _)
      · rw [hmap, List.map_take, List.map_drop, hrel, ← List.map_take, ← List.map_drop]
    · have hkl := (hM.split i row k hi hk).1
      obtain ⟨t1, t2⟩ := take_insert row k ab hkl
      refine ⟨ab :: rnew, ?_, ?_, ?_⟩
      · intro b hb
        rcases List.mem_cons.mp hb with rfl | hb
        · exact ⟨hab, habs⟩
        · exact hrn b hb
      · rw [ringPartners_cons, hpart]
        simpa using hsub
      · rw [hmap, t1, t2]
        simp

end SV
