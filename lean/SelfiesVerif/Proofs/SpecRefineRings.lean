/-
  C02, part 4 of the refinement proof: the second pass.  `formRings` (tracked counts,
  `rings_made` insertion positions, `update_bond_order` / `add_ring_bond`) is simulated by
  `Spec.formRings` (free valence and insertion position recomputed from the bond list);
  in particular none of the implementation's subscripts / asserts can fail.
-/
import SelfiesVerif.Proofs.SpecRefineDerive
import SelfiesVerif.Proofs.RingUpdate

namespace SV
open SV.Spec

/-! ### `insertAt` -/

theorem insertAt_length_eq {α} : ∀ (l : List α) (v : α), insertAt l l.length v = l ++ [v]
  | [], v => rfl
  | x :: l, v => by simp [insertAt, insertAt_length_eq l v]

theorem mem_insertAt {α} {l : List α} {i : Nat} {v x : α} : x ∈ insertAt l i v ↔ x = v ∨ x ∈ l :=
  (insertAt_perm l i v).mem_iff.trans List.mem_cons

theorem length_insertAt {α} (l : List α) (i : Nat) (v : α) : (insertAt l i v).length = l.length + 1 := by
  rw [(insertAt_perm l i v).length_eq]; rfl

theorem map_insertAt {α β} (f : α → β) : ∀ (l : List α) (i : Nat) (v : α),
    (insertAt l i v).map f = insertAt (l.map f) i (f v)
  | l, 0, v => by simp [insertAt]
  | [], _ + 1, v => by simp [insertAt]
  | x :: l, i + 1, v => by simp [insertAt, map_insertAt f l i v]

/-! ### the implementation's graph updates, run forward -/

theorem pure_bind_py {α β} (a : α) (f : α → Py β) : ((pure a : Py α) >>= f) = f a := rfl

theorem addBondAtLoc_run {adj : List (List DirBond)} {b : DirBond} {pos : Nat} {out : List DirBond}
    (hout : adj[b.src]? = some out) (hpos : pos ≤ out.length) :
    Mol.addBondAtLoc adj b pos = .ok (adj.set b.src (insertAt out pos b)) := by
  unfold Mol.addBondAtLoc
  rw [hout]
  dsimp only
  by_cases h : pos = out.length
  · subst h; simp [insertAt_length_eq]
  · have : (pos == out.length) = false := by simpa using h
    rw [this]
    simp only [Bool.false_eq_true, if_false]
    rw [if_pos (by omega)]

theorem addCount_run {l : List Nat} {i d c : Nat} (h : l[i]? = some c) :
    Mol.addCount l i d = .ok (l.set i (c + d)) := by
  unfold Mol.addCount; rw [h]

theorem addRingBond_run {m : Mol} {a b o ap bp ca cb : Nat} {ast bst : Option Char}
    {rowa rowb : List DirBond} (hab : a ≠ b)
    (ha : m.adj[a]? = some rowa) (hb : m.adj[b]? = some rowb)
    (hca : m.counts[a]? = some ca) (hcb : m.counts[b]? = some cb)
    (hap : ap ≤ rowa.length) (hbp : bp ≤ rowb.length) :
    m.addRingBond a b o ast bst ap bp = .ok { m with
      adj := (m.adj.set a (insertAt rowa ap { src := a, dst := b, order := o, stereo := ast, ring := true })).set b
        (insertAt rowb bp { src := b, dst := a, order := o, stereo := bst, ring := true }),
      counts := (m.counts.set a (ca + o)).set b (cb + o) } := by
  unfold Mol.addRingBond
  dsimp only
  rw [addBondAtLoc_run (b := { src := a, dst := b, order := o, stereo := ast, ring := true }) ha hap, ok_bind]
  have hb' : (m.adj.set a (insertAt rowa ap { src := a, dst := b, order := o, stereo := ast, ring := true }))[b]?
      = some rowb := by rw [List.getElem?_set_ne hab]; exact hb
  rw [addBondAtLoc_run (b := { src := b, dst := a, order := o, stereo := bst, ring := true }) hb' hbp, ok_bind]
  rw [addCount_run hca, ok_bind]
  have hcb' : (m.counts.set a (ca + o))[b]? = some cb := by rw [List.getElem?_set_ne hab]; exact hcb
  rw [addCount_run hcb', ok_bind]
  rfl

theorem getDirBond_run {m : Mol} {src dst : Nat} {row : List DirBond} {d : DirBond}
    (hrow : m.adj[src]? = some row) (hd : row.find? (·.dst == dst) = some d) :
    m.getDirBond src dst = .ok d := by
  unfold Mol.getDirBond; rw [hrow]; dsimp only; rw [hd]

theorem updateBondOrder_run {m : Mol} {l r n cl cr : Nat} {rowl rowr : List DirBond} {ab : DirBond}
    (hlr : l < r) (hl : m.adj[l]? = some rowl) (hab : rowl.find? (·.dst == r) = some ab)
    (hr : m.adj[r]? = some rowr) (hcl : m.counts[l]? = some cl) (hcr : m.counts[r]? = some cr)
    (hn1 : 1 ≤ n) (hn3 : n ≤ 3) (hne : n ≠ ab.order)
    (hring : ab.ring = true → ∃ ba, rowr.find? (·.dst == l) = some ba)
    (hchain : ab.ring = false → ∀ x ∈ rowr, x.dst ≠ l) :
    m.updateBondOrder l r n = .ok { m with
      adj := (m.adj.set l (rowl.map (upd r n))).set r (rowr.map (upd l n)),
      counts := (m.counts.set l (cl + n - ab.order)).set r (cr + n - ab.order) } := by
  unfold Mol.updateBondOrder
  have hassert : pyAssert (decide (1 ≤ n) && decide (n ≤ 3)) = .ok () := by simp [pyAssert, hn1, hn3]
  rw [hassert, ok_bind, Nat.min_eq_left (Nat.le_of_lt hlr), Nat.max_eq_right (Nat.le_of_lt hlr)]
  dsimp only
  rw [getDirBond_run hl hab, ok_bind]
  have hneb : (n == ab.order) = false := by simpa using hne
  rw [hneb]
  simp only [Bool.false_eq_true, if_false]
  rw [setOrderAt_eq hl]
  have hr' : (m.adj.set l (rowl.map (upd r n)))[r]? = some rowr := by
    rw [List.getElem?_set_ne (by omega)]; exact hr
  have hcl' : getIdx m.counts l = .ok cl := by unfold getIdx; rw [hcl]
  have hcr' : getIdx (m.counts.set l (cl + n - ab.order)) r = .ok cr := by
    unfold getIdx; rw [List.getElem?_set_ne (by omega), hcr]
  cases hrg : ab.ring with
  | true =>
    obtain ⟨ba, hba⟩ := hring hrg
    simp only [if_true]
    rw [getDirBond_run hr hba, ok_bind, pure_bind_py, setOrderAt_eq hr', hcl', ok_bind, hcr', ok_bind]
    rfl
  | false =>
    simp only [Bool.false_eq_true, if_false]
    rw [pure_bind_py, hcl', ok_bind, hcr', ok_bind]
    rw [map_upd_of_ne l n rowr (hchain hrg), set_self_of_get _ _ _ hr']
    rfl

/-! ### the bond list -/

/-- raising the bond between `a` and `b` by `o` (at most 3) -/
def bump (a b o : Nat) (e : Bond) : Bond :=
  if e.joins a b then { e with order := min (e.order + o) 3 } else e

@[simp] theorem bump_a (a b o e) : (bump a b o e).a = e.a := by unfold bump; split <;> rfl
@[simp] theorem bump_b (a b o e) : (bump a b o e).b = e.b := by unfold bump; split <;> rfl
@[simp] theorem bump_ring (a b o e) : (bump a b o e).ring = e.ring := by unfold bump; split <;> rfl
@[simp] theorem bump_markA (a b o e) : (bump a b o e).markA = e.markA := by unfold bump; split <;> rfl
@[simp] theorem bump_markB (a b o e) : (bump a b o e).markB = e.markB := by unfold bump; split <;> rfl
@[simp] theorem bump_joins (a b o e i j) : (bump a b o e).joins i j = e.joins i j := by
  simp [Bond.joins]
@[simp] theorem bump_touches (a b o e k) : (bump a b o e).touches k = e.touches k := by
  simp [Bond.touches]
theorem bump_order (a b o e) :
    (bump a b o e).order = if e.joins a b then min (e.order + o) 3 else e.order := by
  unfold bump; split <;> rfl

theorem joins_comm (e : Bond) (i j : Nat) : e.joins i j = e.joins j i := by
  simp only [Bond.joins]; rw [Bool.or_comm]

theorem joins_iff {e : Bond} {i j : Nat} (he : e.a < e.b) (hij : i < j) :
    e.joins i j = true ↔ e.a = i ∧ e.b = j := by
  simp only [Bond.joins, Bool.or_eq_true, Bool.and_eq_true, beq_iff_eq]
  omega

theorem find?_bump (a b o : Nat) (l : List Bond) (i j : Nat) :
    (l.map (bump a b o)).find? (·.joins i j) = (l.find? (·.joins i j)).map (bump a b o) := by
  rw [List.find?_map]
  congr 1
  congr 1
  funext e
  simp

theorem ringDegree_bump (a b o : Nat) (l : List Bond) (k : Nat) :
    ringDegree (l.map (bump a b o)) k = ringDegree l k := by
  unfold ringDegree
  rw [List.countP_map]
  congr 1
  funext e
  simp

theorem usedValence_bump (a b o : Nat) (hab : a < b) : ∀ (l : List Bond) (e0 : Bond), e0 ∈ l →
    e0.a = a → e0.b = b → (∀ e ∈ l, e.a < e.b) →
    l.Pairwise (fun e e' => ¬(e.a = e'.a ∧ e.b = e'.b)) → ∀ k,
    usedValence (l.map (bump a b o)) k + (if k = a ∨ k = b then e0.order else 0)
      = usedValence l k + (if k = a ∨ k = b then min (e0.order + o) 3 else 0)
  | [], _, h, _, _, _, _, _ => by cases h
  | x :: l, e0, hmem, ha, hb, hlt, hpw, k => by
    rw [List.pairwise_cons] at hpw
    simp only [List.map_cons]
    have hc : ∀ (y : Bond) (ys : List Bond), usedValence (y :: ys) k
        = (if y.touches k then y.order else 0) + usedValence ys k := by
      intro y ys; simp [usedValence]
    rw [hc, hc]
    rcases List.mem_cons.mp hmem with rfl | hmem'
    · -- the bond is the head; nothing in the tail joins a b
      have htail : l.map (bump a b o) = l := by
        rw [List.map_congr_left (g := id)]
        · simp
        · intro y hy
          have hy1 := hlt y (by simp [hy])
          have hne := hpw.1 y hy
          have : y.joins a b = false := by
            cases hj : y.joins a b with
            | false => rfl
            | true =>
              have := (joins_iff hy1 hab).mp hj
              exact absurd ⟨by omega, by omega⟩ hne
          simp [bump, this]
      rw [htail]
      have hj : e0.joins a b = true := (joins_iff (hlt e0 (by simp)) hab).mpr ⟨ha, hb⟩
      simp only [bump_touches, bump_order, hj, if_true]
      have ht : e0.touches k = true ↔ (k = a ∨ k = b) := by
        simp only [Bond.touches, Bool.or_eq_true, beq_iff_eq]; omega
      by_cases hk : k = a ∨ k = b
      · rw [if_pos hk, if_pos hk, if_pos (ht.mpr hk), if_pos (ht.mpr hk)]; omega
      · have : e0.touches k = false := by
          cases h : e0.touches k with
          | false => rfl
          | true => exact absurd (ht.mp h) hk
        rw [if_neg hk, if_neg hk, this]; simp
    · have hx1 := hlt x (by simp)
      have hne := hpw.1 e0 hmem'
      have hxj : x.joins a b = false := by
        cases hj : x.joins a b with
        | false => rfl
        | true =>
          have := (joins_iff hx1 hab).mp hj
          exact absurd ⟨by omega, by omega⟩ hne
      have hbx : bump a b o x = x := by simp [bump, hxj]
      rw [hbx]
      have := usedValence_bump a b o hab l e0 hmem' ha hb (fun e he => hlt e (by simp [he])) hpw.2 k
      omega


/-! ### raising an existing bond keeps the relation -/

@[simp] theorem updU_stereo (l r n k x) : (updU l r n k x).stereo = x.stereo := by unfold updU; split <;> rfl

theorem usedValence_ge_of_mem : ∀ (l : List Bond) (e0 : Bond) (k : Nat), e0 ∈ l → e0.touches k = true →
    e0.order ≤ usedValence l k
  | [], _, _, h, _ => by cases h
  | x :: l, e0, k, hmem, ht => by
    have hc : usedValence (x :: l) k = (if x.touches k then x.order else 0) + usedValence l k := by
      simp [usedValence]
    rw [hc]
    rcases List.mem_cons.mp hmem with rfl | hmem'
    · rw [ht]; simp
    · have := usedValence_ge_of_mem l e0 k hmem' ht
      omega

theorem rows_update {adj : List (List DirBond)} {l r n : Nat} {rowl rowr : List DirBond} (hlr : l ≠ r)
    (hl : adj[l]? = some rowl) (hr : adj[r]? = some rowr) (k : Nat) :
    ((adj.set l (rowl.map (upd r n))).set r (rowr.map (upd l n)))[k]?
      = (adj[k]?).map (fun (row : List DirBond) => row.map (updU l r n k)) := by
  rw [two_get hl hr k]
  have e1 : ∀ x : DirBond, upd l n x = updU l r n r x := by
    intro x; unfold upd updU
    by_cases h : x.dst = l
    · simp [h]
    · simp [h]; intro hrl; exact absurd hrl.symm hlr
  have e2 : ∀ x : DirBond, upd r n x = updU l r n l x := by
    intro x; unfold upd updU
    by_cases h : x.dst = r
    · simp [h]
    · simp [h, hlr]
  by_cases h1 : k = r
  · subst h1
    rw [if_pos rfl, hr]
    simp only [Option.map_some]
    congr 1
    exact List.map_congr_left (fun x _ => e1 x)
  · rw [if_neg h1]
    by_cases h2 : k = l
    · subst h2
      rw [if_pos rfl, hl]
      simp only [Option.map_some]
      congr 1
      exact List.map_congr_left (fun x _ => e2 x)
    · rw [if_neg h2]
      cases hk : adj[k]? with
      | none => rfl
      | some row =>
        simp only [Option.map_some]
        congr 1
        rw [List.map_congr_left (g := id)]
        · simp
        · intro x _
          unfold updU
          rw [if_neg (by omega)]
          rfl

theorem MRel.bumped {T m B} (h : MRel T m B) {l r n o cl cr : Nat} {rowl rowr : List DirBond}
    {ab : DirBond} {m' : Mol} (hlr : l < r)
    (hl : m.adj[l]? = some rowl) (hab : rowl.find? (·.dst == r) = some ab)
    (hr : m.adj[r]? = some rowr) (hcl : m.counts[l]? = some cl) (hcr : m.counts[r]? = some cr)
    (hn : n = min (ab.order + o) 3) (ho : 1 ≤ o)
    (eadj : m'.adj = (m.adj.set l (rowl.map (upd r n))).set r (rowr.map (upd l n)))
    (ecnt : m'.counts = (m.counts.set l (cl + n - ab.order)).set r (cr + n - ab.order))
    (eat : m'.atoms = m.atoms) (ert : m'.roots = m.roots) :
    MRel T m' { B with bonds := B.bonds.map (bump l r o) } := by
  have habm : ab ∈ rowl := List.mem_of_find?_eq_some hab
  have habd : ab.dst = r := by simpa using List.find?_some hab
  obtain ⟨_, hab1, hab3, _, _, e0, he0, he0o, _, _⟩ := h.row l rowl hl ab habm
  rw [habd] at he0
  have he0m : e0 ∈ B.bonds := List.mem_of_find?_eq_some he0
  have he0j : e0.joins l r = true := by simpa using List.find?_some he0
  obtain ⟨he0lt, _, _, _⟩ := h.bonds e0 he0m
  obtain ⟨he0a, he0b⟩ := (joins_iff he0lt hlr).mp he0j
  have hn1 : 1 ≤ n := by omega
  have hn3 : n ≤ 3 := by omega
  have hrows : ∀ k, m'.adj[k]? = (m.adj[k]?).map (fun (row : List DirBond) => row.map (updU l r n k)) := by
    intro k; rw [eadj]; exact rows_update (Nat.ne_of_lt hlr) hl hr k
  constructor
  · rw [eat]; exact h.atoms
  · rw [ert]; exact h.roots
  · rw [eadj, eat]; simpa using h.lenA
  · rw [ecnt, eat]; simpa using h.lenC
  · rw [eat]; exact h.lenN
  · intro k
    rw [hrows k]
    show B.nbrs[k]? = _
    rw [h.nbrs k]
    cases m.adj[k]? with
    | none => rfl
    | some row =>
      simp only [Option.map_some, List.map_map]
      congr 1
      exact List.map_congr_left (fun x _ => by simp)
  · intro k row' hk d' hd'
    rw [hrows k] at hk
    cases hk0 : m.adj[k]? with
    | none => rw [hk0] at hk; cases hk
    | some row0 =>
      rw [hk0] at hk
      simp only [Option.map_some, Option.some.injEq] at hk
      subst hk
      obtain ⟨d, hd, rfl⟩ := List.mem_map.mp hd'
      obtain ⟨h1, h2, h3, h4, h5, e, he, he1, he2, he3⟩ := h.row k row0 hk0 d hd
      have hem : e ∈ B.bonds := List.mem_of_find?_eq_some he
      have hej : e.joins k d.dst = true := by simpa using List.find?_some he
      obtain ⟨helt, _, _, _⟩ := h.bonds e hem
      rw [eat]
      simp only [updU_src, updU_dst, updU_ring, updU_order]
      refine ⟨h1, ?_, ?_, h4, h5, bump l r o e, ?_, ?_, ?_, ?_⟩
      · split <;> omega
      · split <;> omega
      · show (B.bonds.map (bump l r o)).find? _ = _
        rw [find?_bump, he]; rfl
      · rw [bump_order]
        by_cases hc : (k = l ∧ d.dst = r) ∨ (k = r ∧ d.dst = l)
        · rw [if_pos hc]
          have : e = e0 := by
            rcases hc with ⟨rfl, hdr⟩ | ⟨rfl, hdl⟩
            · rw [hdr, he0] at he; cases he; rfl
            · rw [hdl] at he
              have : (fun x : Bond => x.joins k l) = (fun x : Bond => x.joins l k) := by
                funext x; exact joins_comm x k l
              rw [this, he0] at he; cases he; rfl
          subst this
          rw [he0j, if_pos rfl, hn, he0o]
        · rw [if_neg hc]
          have : e.joins l r = false := by
            cases hj : e.joins l r with
            | false => rfl
            | true =>
              exfalso
              obtain ⟨ea, eb⟩ := (joins_iff helt hlr).mp hj
              simp only [Bond.joins, Bool.or_eq_true, Bool.and_eq_true, beq_iff_eq] at hej
              apply hc
              omega
          rw [this]
          simpa using he1
      · simpa using he2
      · simpa using he3
  · intro e' he'
    obtain ⟨e, he, rfl⟩ := List.mem_map.mp he'
    obtain ⟨h1, h2, ⟨row, hrow, d, hd, hdd⟩, h4⟩ := h.bonds e he
    rw [eat]
    simp only [bump_a, bump_b, bump_ring]
    refine ⟨h1, h2, ?_, ?_⟩
    · refine ⟨row.map (updU l r n e.a), ?_, updU l r n e.a d, List.mem_map_of_mem hd, by simpa using hdd⟩
      rw [hrows, hrow]; rfl
    · intro hring
      obtain ⟨row', hrow', d', hd', hdd'⟩ := h4 hring
      refine ⟨row'.map (updU l r n e.b), ?_, updU l r n e.b d', List.mem_map_of_mem hd', by simpa using hdd'⟩
      rw [hrows, hrow']; rfl
  · show (B.bonds.map (bump l r o)).Pairwise _
    exact List.Pairwise.map _ (fun x y hxy => by simpa using hxy) h.uniq
  · intro k hk
    rw [eat] at hk
    show m'.counts[k]? = some (usedValence (B.bonds.map (bump l r o)) k)
    have hub := usedValence_bump l r o hlr B.bonds e0 he0m he0a he0b
      (fun e he => (h.bonds e he).1) h.uniq k
    have hck := h.counts k hk
    have hll : l < m.counts.length := (List.getElem?_eq_some_iff.mp hcl).1
    have hrl : r < m.counts.length := (List.getElem?_eq_some_iff.mp hcr).1
    have hcll := h.counts l (by rw [← h.lenC]; exact hll)
    have hcrr := h.counts r (by rw [← h.lenC]; exact hrl)
    rw [hcl] at hcll; cases hcll
    rw [hcr] at hcrr; cases hcrr
    -- the old order is part of the used valence at both ends
    have hge : ∀ k', (k' = l ∨ k' = r) → e0.order ≤ usedValence B.bonds k' := by
      intro k' hk'
      apply usedValence_ge_of_mem _ _ _ he0m
      simp only [Bond.touches, Bool.or_eq_true, beq_iff_eq]
      omega
    rw [ecnt, List.getElem?_set]
    by_cases h1 : r = k
    · subst h1
      rw [if_pos rfl, if_pos (by simpa using hrl)]
      rw [if_pos (Or.inr rfl), if_pos (Or.inr rfl)] at hub
      have := hge r (Or.inr rfl)
      congr 1; omega
    · rw [if_neg h1, List.getElem?_set]
      by_cases h2 : l = k
      · subst h2
        rw [if_pos rfl, if_pos hll]
        rw [if_pos (Or.inl rfl), if_pos (Or.inl rfl)] at hub
        have := hge l (Or.inl rfl)
        congr 1; omega
      · rw [if_neg h2, hck]
        rw [if_neg (by omega), if_neg (by omega)] at hub
        congr 1; omega
  · intro x hx
    rw [eat] at hx
    exact h.capOk x hx


/-! ### a new ring bond keeps the relation -/

theorem MRel.ringAdded {T m B} (h : MRel T m B) {a b o pa pb ca cb : Nat} {ls rs : Option Char}
    {rowa rowb : List DirBond} {m' : Mol} (hab : a < b) (hbs : b < m.atoms.length)
    (ha : m.adj[a]? = some rowa) (hb : m.adj[b]? = some rowb)
    (hca : m.counts[a]? = some ca) (hcb : m.counts[b]? = some cb)
    (ho1 : 1 ≤ o) (ho3 : o ≤ 3) (hno : B.bonds.any (·.joins a b) = false)
    (eadj : m'.adj = (m.adj.set a (insertAt rowa pa { src := a, dst := b, order := o, stereo := ls, ring := true })).set b
        (insertAt rowb pb { src := b, dst := a, order := o, stereo := rs, ring := true }))
    (ecnt : m'.counts = (m.counts.set a (ca + o)).set b (cb + o))
    (eat : m'.atoms = m.atoms) (ert : m'.roots = m.roots) :
    MRel T m' { B with
      bonds := B.bonds ++ [{ a := a, b := b, order := o, markA := ls, markB := rs, ring := true }],
      nbrs := (B.nbrs.modify a (insertAt · pa b)).modify b (insertAt · pb a) } := by
  have hne : a ≠ b := Nat.ne_of_lt hab
  have hnoj : ∀ x ∈ B.bonds, x.joins a b = false := by
    intro x hx
    have := List.any_eq_false.mp hno x hx
    simpa using this
  have hnoj' : ∀ x ∈ B.bonds, x.joins b a = false := by
    intro x hx; rw [joins_comm]; exact hnoj x hx
  have hget : ∀ k, m'.adj[k]? =
      if k = b then some (insertAt rowb pb { src := b, dst := a, order := o, stereo := rs, ring := true })
      else if k = a then some (insertAt rowa pa { src := a, dst := b, order := o, stereo := ls, ring := true })
      else m.adj[k]? := by
    intro k; rw [eadj]; exact two_get ha hb k
  -- every new entry is an old entry or one of the two ring entries
  have hnew : ∀ (k : Nat) (row : List DirBond), m'.adj[k]? = some row → ∀ x ∈ row,
      (∃ row0, m.adj[k]? = some row0 ∧ x ∈ row0) ∨
      (k = a ∧ x = { src := a, dst := b, order := o, stereo := ls, ring := true }) ∨
      (k = b ∧ x = { src := b, dst := a, order := o, stereo := rs, ring := true }) := by
    intro k row hk x hx
    rw [hget k] at hk
    split at hk
    · cases hk; subst_vars
      rcases mem_insertAt.mp hx with rfl | hx
      · exact Or.inr (Or.inr ⟨rfl, rfl⟩)
      · exact Or.inl ⟨rowb, hb, hx⟩
    · split at hk
      · cases hk; subst_vars
        rcases mem_insertAt.mp hx with rfl | hx
        · exact Or.inr (Or.inl ⟨rfl, rfl⟩)
        · exact Or.inl ⟨rowa, ha, hx⟩
      · exact Or.inl ⟨row, hk, hx⟩
  have hold : ∀ (k : Nat) (row0 : List DirBond), m.adj[k]? = some row0 →
      ∃ row, m'.adj[k]? = some row ∧ ∀ x ∈ row0, x ∈ row := by
    intro k row0 hk
    rw [hget k]
    split
    · subst_vars; rw [hb] at hk; cases hk
      exact ⟨_, rfl, fun x hx => mem_insertAt.mpr (Or.inr hx)⟩
    · split
      · subst_vars; rw [ha] at hk; cases hk
        exact ⟨_, rfl, fun x hx => mem_insertAt.mpr (Or.inr hx)⟩
      · exact ⟨row0, hk, fun x hx => hx⟩
  constructor
  · rw [eat]; exact h.atoms
  · rw [ert]; exact h.roots
  · rw [eadj, eat]; simpa using h.lenA
  · rw [ecnt, eat]; simpa using h.lenC
  · rw [eat]; simpa using h.lenN
  · intro k
    show ((B.nbrs.modify a (insertAt · pa b)).modify b (insertAt · pb a))[k]? = _
    rw [hget k, List.getElem?_modify, List.getElem?_modify, h.nbrs k]
    by_cases h1 : k = b
    · subst h1
      rw [if_pos rfl, hb]
      simp [hne, map_insertAt]
    · rw [if_neg h1]
      by_cases h2 : k = a
      · subst h2
        rw [if_pos rfl, ha]
        have : ¬ b = k := fun e => h1 e.symm
        simp [this, map_insertAt]
      · rw [if_neg h2]
        have e1 : ¬ b = k := fun e => h1 e.symm
        have e2 : ¬ a = k := fun e => h2 e.symm
        cases m.adj[k]? <;> simp [e1, e2]
  · intro k row hk x hx
    rw [eat]
    rcases hnew k row hk x hx with ⟨row0, hk0, hx0⟩ | ⟨rfl, rfl⟩ | ⟨rfl, rfl⟩
    · obtain ⟨h1, h2, h3, h4, h5, e, he, he'⟩ := h.row k row0 hk0 x hx0
      exact ⟨h1, h2, h3, h4, h5, e, find?_append_some he, he'⟩
    · refine ⟨rfl, ho1, ho3, hbs, (fun hr => by cases hr),
        { a := k, b := b, order := o, markA := ls, markB := rs, ring := true }, ?_, rfl, ?_, rfl⟩
      · show (B.bonds ++ _).find? _ = _
        rw [find?_append_none hnoj]
        simp [Bond.joins]
      · simp
    · refine ⟨rfl, ho1, ho3, (by show a < _; omega), (fun hr => by cases hr),
        { a := a, b := k, order := o, markA := ls, markB := rs, ring := true }, ?_, rfl, ?_, rfl⟩
      · show (B.bonds ++ _).find? _ = _
        rw [find?_append_none hnoj']
        simp [Bond.joins]
      · simp [hne]
  · intro e he
    rw [eat]
    have he' : e ∈ B.bonds ∨ e = { a := a, b := b, order := o, markA := ls, markB := rs, ring := true } := by
      simpa using he
    rcases he' with he' | rfl
    · obtain ⟨h1, h2, ⟨row0, hr0, d, hd, hdd⟩, h4⟩ := h.bonds e he'
      refine ⟨h1, h2, ?_, ?_⟩
      · obtain ⟨row1, hr1, hsub⟩ := hold _ _ hr0
        exact ⟨row1, hr1, d, hsub d hd, hdd⟩
      · intro hring
        obtain ⟨row0', hr0', d', hd', hdd'⟩ := h4 hring
        obtain ⟨row1, hr1, hsub⟩ := hold _ _ hr0'
        exact ⟨row1, hr1, d', hsub d' hd', hdd'⟩
    · refine ⟨hab, hbs, ?_, fun _ => ?_⟩
      · refine ⟨insertAt rowa pa { src := a, dst := b, order := o, stereo := ls, ring := true }, ?_,
          { src := a, dst := b, order := o, stereo := ls, ring := true },
          mem_insertAt.mpr (Or.inl rfl), rfl⟩
        rw [hget]; simp [hne]
      · refine ⟨insertAt rowb pb { src := b, dst := a, order := o, stereo := rs, ring := true }, ?_,
          { src := b, dst := a, order := o, stereo := rs, ring := true },
          mem_insertAt.mpr (Or.inl rfl), rfl⟩
        rw [hget]; simp
  · show (B.bonds ++ _).Pairwise _
    rw [List.pairwise_append]
    refine ⟨h.uniq, by simp, ?_⟩
    intro x hx y hy
    simp only [List.mem_singleton] at hy; subst hy
    intro hxy
    have hx1 := (h.bonds x hx).1
    have := (joins_iff hx1 hab).mpr hxy
    rw [hnoj x hx] at this; cases this
  · intro k hk
    rw [eat] at hk
    show m'.counts[k]? = some (usedValence (B.bonds ++ _) k)
    rw [usedValence_append, usedValence_single]
    have hal : a < m.counts.length := (List.getElem?_eq_some_iff.mp hca).1
    have hbl : b < m.counts.length := (List.getElem?_eq_some_iff.mp hcb).1
    have hcaa := h.counts a (by rw [← h.lenC]; exact hal)
    have hcbb := h.counts b (by rw [← h.lenC]; exact hbl)
    rw [hca] at hcaa; cases hcaa
    rw [hcb] at hcbb; cases hcbb
    rw [ecnt, List.getElem?_set]
    simp only [Bond.touches]
    by_cases h1 : b = k
    · subst h1
      rw [if_pos rfl, if_pos (by simpa using hbl)]
      simp
    · rw [if_neg h1, List.getElem?_set]
      by_cases h2 : a = k
      · subst h2
        rw [if_pos rfl, if_pos hal]
        simp
      · rw [if_neg h2, h.counts k hk]
        simp [h1, h2]
  · intro x hx
    rw [eat] at hx
    exact h.capOk x hx


/-! ### one queued ring, and all of them -/

theorem two_get' {α} {l : List α} {a b : Nat} {x y : α} (ha : a < l.length) (hb : b < l.length) (k : Nat) :
    ((l.set a x).set b y)[k]? = if k = b then some y else if k = a then some x else l[k]? := by
  rw [List.getElem?_set]
  by_cases h1 : b = k
  · subst h1; simp [hb]
  · rw [if_neg h1, if_neg (fun e => h1 e.symm), List.getElem?_set]
    by_cases h2 : a = k
    · subst h2; simp [ha]
    · rw [if_neg h2, if_neg (fun e => h2 e.symm)]

theorem hasBond_eq {m : Mol} {a b : Nat} {row : List DirBond} (hlt : a < b) (ha : m.adj[a]? = some row) :
    m.hasBond a b = row.any (·.dst == b) := by
  unfold Mol.hasBond
  rw [Nat.min_eq_left (Nat.le_of_lt hlt), Nat.max_eq_right (Nat.le_of_lt hlt)]
  dsimp only
  rw [ha]

theorem uniq_eq : ∀ {l : List Bond}, l.Pairwise (fun e e' => ¬(e.a = e'.a ∧ e.b = e'.b)) →
    ∀ {x y : Bond}, x ∈ l → y ∈ l → x.a = y.a → x.b = y.b → x = y
  | [], _, _, _, hx, _, _, _ => by cases hx
  | z :: l, h, x, y, hx, hy, ea, eb => by
    rw [List.pairwise_cons] at h
    rcases List.mem_cons.mp hx with rfl | hx' <;> rcases List.mem_cons.mp hy with rfl | hy'
    · rfl
    · exact absurd ⟨ea, eb⟩ (h.1 y hy')
    · exact absurd ⟨ea.symm, eb.symm⟩ (h.1 x hx')
    · exact uniq_eq h.2 hx' hy' ea eb

theorem updateBondOrder_same {m : Mol} {l r n : Nat} {rowl : List DirBond} {ab : DirBond}
    (hlr : l < r) (hl : m.adj[l]? = some rowl) (hab : rowl.find? (·.dst == r) = some ab)
    (hn1 : 1 ≤ n) (hn3 : n ≤ 3) (hne : n = ab.order) :
    m.updateBondOrder l r n = .ok m := by
  unfold Mol.updateBondOrder
  have hassert : pyAssert (decide (1 ≤ n) && decide (n ≤ 3)) = .ok () := by simp [pyAssert, hn1, hn3]
  rw [hassert, ok_bind, Nat.min_eq_left (Nat.le_of_lt hlr), Nat.max_eq_right (Nat.le_of_lt hlr)]
  dsimp only
  rw [getDirBond_run hl hab, ok_bind]
  have hneb : (n == ab.order) = true := by simpa using hne
  rw [hneb]
  rfl

theorem ringDegree_snoc (l : List Bond) (e : Bond) (k : Nat) :
    ringDegree (l ++ [e]) k = ringDegree l k + (if (e.ring && e.touches k) = true then 1 else 0) := by
  unfold ringDegree
  rw [List.countP_append]
  simp [List.countP_cons]

/-- `rings_made[k]` is the number of ring bonds at `k`, and fits into the written neighbours -/
def RMade (m : Mol) (B : Build) (rm : List Nat) : Prop :=
  ∀ k, k < m.atoms.length → rm[k]? = some (ringDegree B.bonds k) ∧
    ∃ row, m.adj[k]? = some row ∧ ringDegree B.bonds k ≤ row.length

theorem getIdx_of_get {α} {l : List α} {i : Nat} {x : α} (h : l[i]? = some x) : getIdx l i = .ok x := by
  unfold getIdx; rw [h]

theorem formRings_step {T : Table} {m : Mol} {B : Build} {rm : List Nat} (r : RingCand)
    (rest : List RingReq) (h : MRel T m B) (hrm : RMade m B rm)
    (hr : r.a ≤ r.b ∧ r.b < m.atoms.length ∧ 1 ≤ r.order ∧ r.order ≤ 3) :
    ∃ m' rm', formRings T (ringOf r :: rest) m rm = formRings T rest m' rm' ∧
      MRel T m' (formRing T B r) ∧ RMade m' (formRing T B r) rm' ∧
      m'.atoms.length = m.atoms.length := by
  obtain ⟨a, b, order, ls, rs⟩ := r
  obtain ⟨hab, hbs, ho1, ho3⟩ := hr
  simp only at hab hbs ho1 ho3
  simp only [ringOf]
  rw [formRings]
  by_cases heq : a = b
  · subst heq
    refine ⟨m, rm, by simp, ?_, ?_, rfl⟩
    · simpa [formRing] using h
    · simpa [formRing] using hrm
  · have hlt : a < b := by omega
    have hbeq : (a == b) = false := by simpa using heq
    rw [hbeq]
    simp only [Bool.false_eq_true, if_false]
    have hal : a < m.atoms.length := by omega
    have hxa : m.atoms[a]? = some m.atoms[a] := List.getElem?_eq_getElem hal
    have hxb : m.atoms[b]? = some m.atoms[b] := List.getElem?_eq_getElem hbs
    rw [getIdx_of_get hxa, ok_bind, getIdx_of_get hxb, ok_bind,
      getIdx_of_get (h.counts a hal), ok_bind, getIdx_of_get (h.counts b hbs), ok_bind]
    have hcapa := h.capOk _ (List.getElem_mem hal)
    have hcapb := h.capOk _ (List.getElem_mem hbs)
    have hfa : freeValence T B a = cap T m.atoms[a] - usedValence B.bonds a := by
      unfold freeValence; rw [h.atoms, hxa]
    have hfb : freeValence T B b = cap T m.atoms[b] - usedValence B.bonds b := by
      unfold freeValence; rw [h.atoms, hxb]
    have hcA : (cap T m.atoms[a] : Int) = Atom.bondingCapacity T m.atoms[a] := by
      unfold cap; exact Int.toNat_of_nonneg hcapa
    have hcB : (cap T m.atoms[b] : Int) = Atom.bondingCapacity T m.atoms[b] := by
      unfold cap; exact Int.toNat_of_nonneg hcapb
    have hAl : a < m.adj.length := by rw [h.lenA]; exact hal
    have hBl : b < m.adj.length := by rw [h.lenA]; exact hbs
    have ha : m.adj[a]? = some m.adj[a] := List.getElem?_eq_getElem hAl
    have hb : m.adj[b]? = some m.adj[b] := List.getElem?_eq_getElem hBl
    by_cases hfree : freeValence T B a = 0 ∨ freeValence T B b = 0
    · -- no room
      rw [if_pos (by
        simp only [Bool.or_eq_true, decide_eq_true_eq]
        rw [hfa, hfb] at hfree
        omega)]
      refine ⟨m, rm, rfl, ?_, ?_, rfl⟩
      · simpa [formRing, heq, hfree] using h
      · simpa [formRing, heq, hfree] using hrm
    · rw [if_neg (by
        simp only [Bool.or_eq_true, decide_eq_true_eq]
        rw [hfa, hfb] at hfree
        omega)]
      have ho : (min (min (order : Int) (Atom.bondingCapacity T m.atoms[a] - ↑(usedValence B.bonds a)))
            (Atom.bondingCapacity T m.atoms[b] - ↑(usedValence B.bonds b))).toNat
          = min order (min (freeValence T B a) (freeValence T B b)) := by
        rw [hfa, hfb] at hfree ⊢
        omega
      rw [ho]
      have hO1 : 1 ≤ min order (min (freeValence T B a) (freeValence T B b)) := by omega
      have hO3 : min order (min (freeValence T B a) (freeValence T B b)) ≤ 3 := by omega
      generalize hoo : min order (min (freeValence T B a) (freeValence T B b)) = o at hO1 hO3 ⊢
      by_cases hany : B.bonds.any (·.joins a b) = true
      · -- already bonded
        have hfr : formRing T B { a := a, b := b, order := order, ls := ls, rs := rs }
            = { B with bonds := B.bonds.map (bump a b o) } := by
          simp only [formRing, heq, if_false, hfree, hany, if_true, hoo]
          rfl
        rw [hfr]
        obtain ⟨e1, he1m, he1j⟩ := List.any_eq_true.mp hany
        obtain ⟨he1lt, _, ⟨row1, hrow1, d1, hd1, hd1d⟩, _⟩ := h.bonds e1 he1m
        obtain ⟨he1a, he1b⟩ := (joins_iff he1lt hlt).mp he1j
        rw [he1a, ha] at hrow1; cases hrow1
        rw [he1b] at hd1d
        obtain ⟨ab, hab'⟩ : ∃ ab, m.adj[a].find? (·.dst == b) = some ab := by
          cases hf : m.adj[a].find? (·.dst == b) with
          | some ab => exact ⟨ab, rfl⟩
          | none =>
            have := List.find?_eq_none.mp hf d1 hd1
            simp [hd1d] at this
        have habm : ab ∈ m.adj[a] := List.mem_of_find?_eq_some hab'
        have habd : ab.dst = b := by simpa using List.find?_some hab'
        obtain ⟨_, hab1, hab3, _, _, e0, he0, he0o, _, he0r⟩ := h.row a _ ha ab habm
        rw [habd] at he0
        have he0m : e0 ∈ B.bonds := List.mem_of_find?_eq_some he0
        have he0j : e0.joins a b = true := by simpa using List.find?_some he0
        obtain ⟨he0lt, _, _, he0ring⟩ := h.bonds e0 he0m
        obtain ⟨he0a, he0b⟩ := (joins_iff he0lt hlt).mp he0j
        have hhas : m.hasBond a b = true := by
          rw [hasBond_eq hlt ha]
          simp only [List.any_eq_true, beq_iff_eq]
          exact ⟨d1, hd1, hd1d⟩
        rw [if_pos hhas, getDirBond_run ha hab', ok_bind]
        by_cases hsame : min (o + ab.order) 3 = ab.order
        · rw [updateBondOrder_same hlt ha hab' (by omega) (by omega) hsame, ok_bind]
          have hid : B.bonds.map (bump a b o) = B.bonds := by
            rw [List.map_congr_left (g := id)]
            · simp
            · intro e he
              unfold bump
              split
              · rename_i hj
                obtain ⟨hea, heb⟩ := (joins_iff (h.bonds e he).1 hlt).mp hj
                have : e = e0 := uniq_eq h.uniq he he0m (by omega) (by omega)
                subst this
                have : min (e.order + o) 3 = e.order := by
                  omega
                rw [this]; rfl
              · rfl
          rw [hid]
          exact ⟨m, rm, rfl, h, hrm, rfl⟩
        · have hring : ab.ring = true → ∃ ba, m.adj[b].find? (·.dst == a) = some ba := by
            intro hr
            obtain ⟨row', hrow', d', hd', hd'd⟩ := he0ring (by rw [he0r, hr])
            rw [he0b, hb] at hrow'; cases hrow'
            cases hf : m.adj[b].find? (·.dst == a) with
            | some ba => exact ⟨ba, rfl⟩
            | none =>
              have := List.find?_eq_none.mp hf d' hd'
              rw [he0a] at hd'd
              simp [hd'd] at this
          have hchain : ab.ring = false → ∀ x ∈ m.adj[b], x.dst ≠ a := by
            intro hr x hx hxa
            obtain ⟨_, _, _, _, hdir, e, he, _, _, her⟩ := h.row b _ hb x hx
            rw [hxa] at he
            have : (fun x : Bond => x.joins b a) = (fun x : Bond => x.joins a b) := by
              funext x; exact joins_comm x b a
            rw [this, he0] at he; cases he
            cases hxr : x.ring with
            | false => have := hdir hxr; omega
            | true => rw [hxr, he0r, hr] at her; cases her
          rw [updateBondOrder_run hlt ha hab' hb (h.counts a hal) (h.counts b hbs) (by omega) (by omega)
            hsame hring hchain, ok_bind]
          refine ⟨_, rm, rfl, ?_, ?_, rfl⟩
          · exact h.bumped hlt ha hab' hb (h.counts a hal) (h.counts b hbs)
              (by rw [Nat.add_comm]) hO1 rfl rfl rfl rfl
          · intro k hk
            obtain ⟨e1, row, hrow, hle⟩ := hrm k hk
            refine ⟨by rw [ringDegree_bump]; exact e1, row.map (updU a b (min (o + ab.order) 3) k), ?_, ?_⟩
            · show ((m.adj.set a _).set b _)[k]? = _
              rw [rows_update (Nat.ne_of_lt hlt) ha hb k, hrow]; rfl
            · rw [ringDegree_bump, List.length_map]; exact hle
      · -- a new ring bond
        have hany' : B.bonds.any (·.joins a b) = false := by simpa using hany
        have hfr : formRing T B { a := a, b := b, order := order, ls := ls, rs := rs }
            = { B with bonds := B.bonds ++ [{ a := a, b := b, order := o, markA := ls, markB := rs, ring := true }], nbrs := (B.nbrs.modify a (insertAt · (ringDegree B.bonds a) b)).modify b (insertAt · (ringDegree B.bonds b) a) } := by
          simp only [formRing, heq, if_false, hfree, hany', hoo]
          rfl
        rw [hfr]
        have hhas : m.hasBond a b = false := by
          rw [hasBond_eq hlt ha]
          cases hh : m.adj[a].any (·.dst == b) with
          | false => rfl
          | true =>
            exfalso
            obtain ⟨d, hd, hdd⟩ := List.any_eq_true.mp hh
            have hdd' : d.dst = b := by simpa using hdd
            obtain ⟨_, _, _, _, _, e, he, _⟩ := h.row a _ ha d hd
            rw [hdd'] at he
            have hem := List.mem_of_find?_eq_some he
            have hej := List.find?_some he
            have := List.any_eq_false.mp hany' e hem
            simp [hej] at this
        rw [hhas]
        simp only [Bool.false_eq_true, if_false]
        obtain ⟨rma, rowa', hrowa', hlea⟩ := hrm a hal
        obtain ⟨rmb, rowb', hrowb', hleb⟩ := hrm b hbs
        rw [ha] at hrowa'; cases hrowa'
        rw [hb] at hrowb'; cases hrowb'
        rw [getIdx_of_get rma, ok_bind, getIdx_of_get rmb, ok_bind]
        rw [addRingBond_run (Nat.ne_of_lt hlt) ha hb (h.counts a hal) (h.counts b hbs) hlea hleb, ok_bind]
        have hrb' : (rm.set a (ringDegree B.bonds a + 1))[b]? = some (ringDegree B.bonds b) := by
          rw [List.getElem?_set_ne (Nat.ne_of_lt hlt)]; exact rmb
        rw [getIdx_of_get hrb', ok_bind]
        refine ⟨_, _, rfl, ?_, ?_, rfl⟩
        · exact h.ringAdded hlt hbs ha hb (h.counts a hal) (h.counts b hbs) hO1 hO3 hany' rfl rfl rfl rfl
        · intro k hk
          have hk' : k < m.atoms.length := hk
          obtain ⟨e1, row, hrow, hle⟩ := hrm k hk'
          have hral : a < rm.length := (List.getElem?_eq_some_iff.mp rma).1
          have hrbl : b < rm.length := (List.getElem?_eq_some_iff.mp rmb).1
          show ((rm.set a _).set b _)[k]? = some (ringDegree (B.bonds ++ _) k) ∧
            ∃ row', ((m.adj.set a _).set b _)[k]? = some row' ∧ ringDegree (B.bonds ++ _) k ≤ row'.length
          rw [ringDegree_snoc, two_get ha hb k, two_get' hral hrbl k]
          simp only [Bond.touches, Bool.true_and, Bool.or_eq_true, beq_iff_eq]
          by_cases h1 : k = b
          · subst h1
            rw [if_pos rfl, if_pos rfl, if_pos (Or.inr rfl)]
            exact ⟨rfl, _, rfl, by rw [length_insertAt]; omega⟩
          · rw [if_neg h1, if_neg h1]
            by_cases h2 : k = a
            · subst h2
              rw [if_pos rfl, if_pos rfl, if_pos (Or.inl rfl)]
              exact ⟨rfl, _, rfl, by rw [length_insertAt]; omega⟩
            · rw [if_neg h2, if_neg h2, if_neg (by omega)]
              exact ⟨e1, row, hrow, hle⟩

end SV
