/-
  Tie (a), encodings, second part: `selfies_to_encoding` (selfies/utils/encoding_utils.py) as
  TRANSLATED from the Python AST on every run (`Generated/EncodingFns.lean`) equals the hand model
  `SV.selfiesToEncoding` (Model/Encoding.lean) for every argument.

  Domain.  `selfies` is any string, `vocab_stoi` a dict `str ↦ int` (association list
  `List (Str × Int)`, the model's `VocabStoi`; values of any sign), `pad_to_len` any int,
  `enc_type` ANY string (`EncType.ofStr`).  The two library functions that are called but not
  translated are parameters: `len_selfies : Str → Nat`, instantiated with the model's
  `lenSelfies`, and the generator `split_selfies : Str → List Str × Option PyExc` (the items it
  yields and the exception, if any, that ends the iteration), instantiated with `splitGen` =
  the model's `splitSelfies` (a hanging bracket ends the iteration with `ValueError`, AFTER the
  symbols before it were yielded and encoded).  The Python result (a label list, a matrix, or
  the pair) is a Lean sum; `Encoded.toPy` maps the model's record to it.
-/
import SelfiesVerif.Proofs.GenEq5

set_option linter.unusedSimpArgs false

namespace SV

/-- the generator `split_selfies` of the model, in the translator's generator protocol -/
def splitGen (s : Str) : List Str × Option PyExc :=
  ((splitSelfies s).1, if (splitSelfies s).2 then some .ValueError else none)

/-- the model's result record as the Python value: label list, matrix, or the pair -/
def Encoded.toPy (e : Encoded) : List Int ⊕ (List (List Int) ⊕ (List Int × List (List Int))) :=
  match e.label, e.oneHot with
  | some l, none => .inl l
  | none, some r => .inr (.inl (r.map (List.map Int.ofNat)))
  | some l, some r => .inr (.inr (l, r.map (List.map Int.ofNat)))
  | none, none => .inl []

theorem label_lit : "label".toList = ['l', 'a', 'b', 'e', 'l'] := by decide
theorem one_hot_lit : "one_hot".toList = ['o', 'n', 'e', '_', 'h', 'o', 't'] := by decide
theorem both_lit : "both".toList = ['b', 'o', 't', 'h'] := by decide
theorem nop_lit : nopSym = ['[', 'n', 'o', 'p', ']'] := by decide

theorem ofStr_label (et : Str) :
    decide (et = ['l', 'a', 'b', 'e', 'l']) = (EncType.ofStr et == .label) := by
  unfold EncType.ofStr
  rw [label_lit, one_hot_lit, both_lit]
  by_cases h1 : et = ['l', 'a', 'b', 'e', 'l']
  · subst h1; rfl
  · by_cases h2 : et = ['o', 'n', 'e', '_', 'h', 'o', 't']
    · subst h2; rfl
    · by_cases h3 : et = ['b', 'o', 't', 'h']
      · subst h3; rfl
      · simp only [h1, h2, h3, if_false, decide_false]; rfl

theorem ofStr_oneHot (et : Str) :
    decide (et = ['o', 'n', 'e', '_', 'h', 'o', 't']) = (EncType.ofStr et == .oneHot) := by
  unfold EncType.ofStr
  rw [label_lit, one_hot_lit, both_lit]
  by_cases h1 : et = ['l', 'a', 'b', 'e', 'l']
  · subst h1; rfl
  · by_cases h2 : et = ['o', 'n', 'e', '_', 'h', 'o', 't']
    · subst h2; rfl
    · by_cases h3 : et = ['b', 'o', 't', 'h']
      · subst h3; rfl
      · simp only [h1, h2, h3, if_false, decide_false]; rfl

theorem ofStr_other (et : Str) :
    (!(List.elem et [['l', 'a', 'b', 'e', 'l'], ['o', 'n', 'e', '_', 'h', 'o', 't'], ['b', 'o', 't', 'h']]))
      = (EncType.ofStr et == .other) := by
  unfold EncType.ofStr
  rw [label_lit, one_hot_lit, both_lit]
  by_cases h1 : et = ['l', 'a', 'b', 'e', 'l']
  · subst h1; rfl
  · by_cases h2 : et = ['o', 'n', 'e', '_', 'h', 'o', 't']
    · subst h2; rfl
    · by_cases h3 : et = ['b', 'o', 't', 'h']
      · subst h3; rfl
      · simp [h1, h2, h3]

/-! ### the two loops -/

/-- the label loop: what one iteration does, as the model's `labelEncode` says it -/
theorem label_loop (vocab : VocabStoi) (step : List Int → Str → Py (List Int))
    (hstep : ∀ acc c, step acc c =
      if (c == ['.'] && (lookup ['.'] vocab).isNone) then .error .KeyError
      else (getKey vocab c >>= fun v => Except.ok (acc ++ [v]))) :
    ∀ (l : List Str) (acc : List Int),
      List.foldlM step acc l = (labelEncode vocab l >>= fun r => Except.ok (acc ++ r))
  | [], acc => by simp [labelEncode, bind, Except.bind, pure, Except.pure]
  | c :: l, acc => by
    rw [List.foldlM_cons, hstep, labelEncode]
    by_cases hc : (c == ['.'] && (lookup ['.'] vocab).isNone) = true
    · simp only [hc, if_true]; rfl
    · simp only [hc, if_false, Bool.false_eq_true]
      cases hk : getKey vocab c with
      | error e => rfl
      | ok v =>
        simp only [bind, Except.bind]
        have h := label_loop vocab step hstep l (acc ++ [v])
        simp only [bind, Except.bind] at h
        rw [h]
        cases labelEncode vocab l with
        | error e => rfl
        | ok r => simp [pure, Except.pure]

theorem listMul_zero (n : Nat) : PyRt.listMul [(0 : Int)] (n : Int) = List.replicate n 0 := by
  simp [PyRt.listMul]

/-- `letter = [0] * n; letter[index] = 1` is the model's `oneHotRow` -/
theorem setItem_oneHot (n : Nat) (index : Int) :
    PyRt.setItem (PyRt.listMul [(0 : Int)] (n : Int)) index 1
      = (oneHotRow n index).map (List.map Int.ofNat) := by
  rw [listMul_zero]
  unfold PyRt.setItem oneHotRow
  simp only [List.length_replicate]
  split
  · simp [Except.map, List.map_set, List.map_replicate]
  · split
    · simp [Except.map, List.map_set, List.map_replicate]
    · rfl

theorem mapM_map_res {α β γ} (f : α → Py β) (g : β → γ) :
    ∀ (l : List α), l.mapM (fun x => (f x).map g) = (l.mapM f).map (List.map g)
  | [] => by simp [Except.map, pure, Except.pure]
  | x :: l => by
    rw [List.mapM_cons, List.mapM_cons, mapM_map_res f g l]
    cases f x with
    | error e => rfl
    | ok y =>
      cases l.mapM f with
      | error e => rfl
      | ok r => simp [Except.map, bind, Except.bind, pure, Except.pure]

/-! ### the shape of the translated function -/

theorem s2e_shape (vocab : VocabStoi) (s0 : Str) (pad : Int) (enc : EncType)
    (bad isLabel isOneHot : Bool)
    (hbad : bad = (enc == .other)) (hL : isLabel = (enc == .label)) (hO : isOneHot = (enc == .oneHot))
    (sel : Str)
    (hsel : sel = if pad > (lenSelfies s0 : Int)
      then s0 ++ (List.replicate (pad - (lenSelfies s0 : Int)).toNat nopSym).flatten else s0)
    (step1 : List Int → Str → Py (List Int))
    (hstep1 : ∀ acc c, step1 acc c =
      if (c == ['.'] && (lookup ['.'] vocab).isNone) then .error .KeyError
      else (getKey vocab c >>= fun v => Except.ok (acc ++ [v])))
    (step2 : List (List Int) → Int → Py (List (List Int)))
    (hstep2 : ∀ acc x, step2 acc x =
      ((oneHotRow vocab.length x).map (List.map Int.ofNat) >>= fun y => Except.ok (acc ++ [y]))) :
    (if bad = true then Except.error PyExc.ValueError
     else
      (List.foldlM step1 [] (splitGen sel).1 >>= fun ie =>
        PyRt.genEnd (splitGen sel).2 >>= fun _ =>
          if isLabel = true then Except.ok (Sum.inl ie)
          else
            (List.foldlM step2 [] ie >>= fun oh =>
              if isOneHot = true then Except.ok (Sum.inr (Sum.inl oh))
              else Except.ok (Sum.inr (Sum.inr (ie, oh))))))
      = (selfiesToEncoding s0 vocab pad enc).map Encoded.toPy := by
  subst hbad hL hO hsel
  simp only [label_loop vocab step1 hstep1,
    foldlM_append_mapM (fun x => (oneHotRow vocab.length x).map (List.map Int.ofNat)) step2 hstep2,
    mapM_map_res, splitGen, selfiesToEncoding, List.nil_append]
  generalize (if pad > (lenSelfies s0 : Int)
      then s0 ++ (List.replicate (pad - (lenSelfies s0 : Int)).toNat nopSym).flatten else s0) = sel
  cases enc <;>
  (simp only [show (EncType.other == EncType.other) = true from rfl,
      show (EncType.label == EncType.other) = false from rfl,
      show (EncType.oneHot == EncType.other) = false from rfl,
      show (EncType.both == EncType.other) = false from rfl,
      show (EncType.label == EncType.label) = true from rfl,
      show (EncType.oneHot == EncType.label) = false from rfl,
      show (EncType.both == EncType.label) = false from rfl,
      show (EncType.oneHot == EncType.oneHot) = true from rfl,
      show (EncType.both == EncType.oneHot) = false from rfl,
      if_true, if_false, Bool.false_eq_true]) <;>
  (try rfl) <;>
  (cases hle : labelEncode vocab (splitSelfies sel).1 with
   | error e => simp [bind, Except.bind, Except.map, hle]
   | ok labels =>
     cases hh : (splitSelfies sel).2 with
     | true => simp [bind, Except.bind, Except.map, hle, hh, PyRt.genEnd]
     | false =>
       cases hr : labels.mapM (oneHotRow vocab.length) with
       | error e => simp [bind, Except.bind, Except.map, hle, hh, hr, PyRt.genEnd, pure, Except.pure, Encoded.toPy]
       | ok rows => simp [bind, Except.bind, Except.map, hle, hh, hr, PyRt.genEnd, pure, Except.pure, Encoded.toPy])

/-- one iteration of the label loop -/
macro "s2e_step1" : tactic =>
  `(tactic| (
    intro acc c
    simp only [PyRt.dictHasSI, PyRt.dictItemSI, Option.not_isSome, decide_eq_true_eq, Bool.and_eq_true,
      Bool.not_eq_true', beq_iff_eq, Option.isNone_iff_eq_none, Option.isSome_eq_false_iff]
    try rfl))

/-- one iteration of the one-hot loop -/
macro "s2e_step2" : tactic =>
  `(tactic| (
    intro acc x
    simp only [← setItem_oneHot]
    try rfl))

macro "selfies_to_encoding_proof " s:term:max vocab:term:max pad:term:max et:term:max : tactic =>
  `(tactic| (
    exact s2e_shape $vocab $s $pad (EncType.ofStr $et) _ _ _
      (ofStr_other $et) (ofStr_label $et) (ofStr_oneHot $et) _
      (by simp only [PyRt.strMul, nop_lit, decide_eq_true_eq]; try rfl)
      _ (by s2e_step1) _ (by s2e_step2)))

/-- the hand copy that the translator substitutes when it reports a fallback -/
theorem fallback_selfies_to_encoding_eq (s : Str) (vocab : VocabStoi) (pad : Int) (et : Str) :
    Gen.Fallback.selfies_to_encoding lenSelfies splitGen s vocab pad et
      = (selfiesToEncoding s vocab pad (EncType.ofStr et)).map Encoded.toPy := by
  unfold Gen.Fallback.selfies_to_encoding
  selfies_to_encoding_proof s vocab pad et

/-- `selfies_to_encoding(selfies, vocab_stoi, pad_to_len, enc_type)` as translated equals the model,
    for every string, every vocabulary `str ↦ int`, every `pad_to_len` and every string `enc_type` -/
theorem gen_selfies_to_encoding_eq (s : Str) (vocab : VocabStoi) (pad : Int) (et : Str) :
    Gen.selfies_to_encoding lenSelfies splitGen s vocab pad et
      = (selfiesToEncoding s vocab pad (EncType.ofStr et)).map Encoded.toPy := by
  first
  | (unfold Gen.selfies_to_encoding
     selfies_to_encoding_proof s vocab pad et)
  | exact fallback_selfies_to_encoding_eq s vocab pad et
  | (unfold Gen.selfies_to_encoding
     selfies_to_encoding_proof s vocab pad et)

end SV

#print axioms SV.s2e_shape
#print axioms SV.gen_selfies_to_encoding_eq
#print axioms SV.fallback_selfies_to_encoding_eq

namespace SV

/-! ### non-vacuity on concrete values -/

private def demoStoi : VocabStoi := [("[nop]".toList, 0), ("[C]".toList, 1), ("[F]".toList, 2)]

example : Gen.selfies_to_encoding lenSelfies splitGen "[C][F]".toList demoStoi (-1) "both".toList
    = .ok (.inr (.inr ([1, 2], [[0, 1, 0], [0, 0, 1]]))) := by decide
example : Gen.selfies_to_encoding lenSelfies splitGen "[C][F]".toList demoStoi 3 "label".toList
    = .ok (.inl [1, 2, 0]) := by decide
example : Gen.selfies_to_encoding lenSelfies splitGen "[C]".toList demoStoi 2 "one_hot".toList
    = .ok (.inr (.inl [[0, 1, 0], [1, 0, 0]])) := by decide
example : Gen.selfies_to_encoding lenSelfies splitGen "[C].[F]".toList demoStoi 0 "label".toList
    = .error .KeyError := by decide
example : Gen.selfies_to_encoding lenSelfies splitGen "[C][F".toList demoStoi 0 "label".toList
    = .error .ValueError := by decide
/-- the laziness of the generator: the unknown symbol before the hanging bracket wins -/
example : Gen.selfies_to_encoding lenSelfies splitGen "[X][F".toList demoStoi 0 "label".toList
    = .error .KeyError := by decide
example : Gen.selfies_to_encoding lenSelfies splitGen "[C]".toList demoStoi 0 "x".toList
    = .error .ValueError := by decide
/-- a negative vocabulary value indexes the row from the end -/
example : Gen.selfies_to_encoding lenSelfies splitGen "[C]".toList [("[C]".toList, -1), ("[F]".toList, 5)] 0
    "one_hot".toList = .ok (.inr (.inl [[0, 1]])) := by decide

end SV
