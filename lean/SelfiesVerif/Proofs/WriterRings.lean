/-
  The ring closures of the whole molecule: the directed ring bonds written are exactly the ring
  bonds stored in `adj` (each once), hence every unordered pair is written exactly twice.
-/
import SelfiesVerif.Proofs.WriterForest
import SelfiesVerif.Proofs.RingLabels

namespace SV

/-- the directed ring bonds of a pre-token list, in writing order -/
def preRings : List PTok → List (Nat × Nat)
  | [] => []
  | .ring a b :: rest => (a, b) :: preRings rest
  | _ :: rest => preRings rest

/-- the directed ring bonds stored in one out-bond list -/
def ringPairs (row : List DirBond) : List (Nat × Nat) :=
  (row.filter (·.ring)).map (fun b => (b.src, b.dst))

theorem ringOcc_fst (log : RingLog) (P : List PTok) : (ringOcc log P).map (·.1) = preRings P := by
  induction P generalizing log with
  | nil => rfl
  | cons t rest ih => cases t <;> simp [ringOcc, preRings, ih]

theorem labelNums_labelToks (log : RingLog) (P : List PTok) :
    labelNums (labelToks log P) = (ringOcc log P).map (·.2) := by
  induction P generalizing log with
  | nil => rfl
  | cons t rest ih => cases t <;> simp [ringOcc, labelNums, labelToks, ih]

theorem preRings_append (a b : List PTok) : preRings (a ++ b) = preRings a ++ preRings b := by
  induction a with
  | nil => rfl
  | cons t rest ih => cases t <;> simp [preRings, ih]

theorem preRings_flatten (L : List (List PTok)) : preRings L.flatten = (L.map preRings).flatten := by
  induction L with
  | nil => rfl
  | cons a L ih => simp [preRings_append, ih]

theorem count_preRings_bondsPre (q : Nat × Nat) (sub : Nat → List PTok) (row : List DirBond) :
    (preRings (bondsPre sub row)).count q =
      (ringPairs row).count q + ((chainDsts row).map (fun c => (preRings (sub c)).count q)).sum := by
  induction row with
  | nil => rfl
  | cons b rest ih =>
    unfold bondsPre
    cases hr : b.ring with
    | true =>
      simp only [if_true, preRings, List.count_cons, ih]
      simp [ringPairs, chainDsts, hr, List.count_cons]
      omega
    | false =>
      cases rest with
      | nil => simp [preRings, ringPairs, chainDsts, hr]
      | cons b' rest' =>
        simp only [Bool.false_eq_true, if_false, List.isEmpty_cons, preRings, preRings_append,
          List.count_append, ih]
        simp [ringPairs, chainDsts, List.filter_cons, hr]
        omega

theorem count_preRings_atomPre (q : Nat × Nat) (g : Mol) (f i : Nat) :
    (preRings (atomPre g f i)).count q =
      ((visits g f i).map (fun y => (ringPairs (g.row y)).count q)).sum := by
  induction f generalizing i with
  | zero => rfl
  | succ f ih =>
    simp only [atomPre, preRings, visits, count_preRings_bondsPre, List.map_cons, List.sum_cons,
      sum_map_flatMap]
    have : (fun c => (preRings (atomPre g f c)).count q) =
        fun c => ((visits g f c).map (fun y => (ringPairs (g.row y)).count q)).sum := funext ih
    rw [this]

theorem mem_ringPairs {row : List DirBond} {a b : Nat} :
    (a, b) ∈ ringPairs row ↔ ∃ bd ∈ row, bd.ring = true ∧ bd.src = a ∧ bd.dst = b := by
  unfold ringPairs
  simp only [List.mem_map, List.mem_filter, Prod.mk.injEq]
  constructor
  · rintro ⟨bd, ⟨h1, h2⟩, h3, h4⟩; exact ⟨bd, h1, h2, h3, h4⟩
  · rintro ⟨bd, h1, h2, h3, h4⟩; exact ⟨bd, ⟨h1, h2⟩, h3, h4⟩

theorem WGraph.count_ringPairs_ne {g : Mol} (hg : WGraph g) {y : Nat} {q : Nat × Nat} (h : y ≠ q.1) :
    (ringPairs (g.row y)).count q = 0 := by
  apply List.count_eq_zero_of_not_mem
  intro hm
  obtain ⟨a, b⟩ := q
  obtain ⟨bd, hbd, _, hs, _⟩ := mem_ringPairs.mp hm
  by_cases hy : y < g.atoms.length
  · have := (hg.row_bonds hy bd hbd).1
    simp only at h; omega
  · rw [hg.row_nil (by omega)] at hbd; cases hbd

/-- all directed ring bonds in writing order -/
def allRings (g : Mol) : List (Nat × Nat) := preRings (specPreAll g)

theorem count_allRings {g : Mol} (hg : WGraph g) (q : Nat × Nat) :
    (allRings g).count q = (ringPairs (g.row q.1)).count q := by
  unfold allRings specPreAll
  rw [preRings_flatten, List.count_flatten, List.map_map, List.map_map]
  have h1 : ((List.count q ∘ preRings) ∘ specPre g) =
      fun r => ((visits g g.atoms.length r).map (fun y => (ringPairs (g.row y)).count q)).sum := by
    funext r
    exact count_preRings_atomPre q g _ r
  rw [h1, ← sum_map_flatMap (fun y => (ringPairs (g.row y)).count q) (visits g g.atoms.length) g.roots]
  have h2 := ((allVisits_perm hg).map (fun y => (ringPairs (g.row y)).count q)).sum_nat
  unfold allVisits at h2
  rw [h2]
  by_cases ha : q.1 < g.atoms.length
  · rw [sum_map_eq_of_count (fun y => (ringPairs (g.row y)).count q) (fun y => y == q.1)
      (List.range g.atoms.length) [q.1]]
    · simp
    · intro y hy
      exact hg.count_ringPairs_ne (by simpa using hy)
    · intro y hy
      have : y = q.1 := by simpa using hy
      subst this
      rw [List.count_range, if_pos ha]; simp
  · rw [sum_map_eq_of_count (fun y => (ringPairs (g.row y)).count q) (fun y => y == q.1)
      (List.range g.atoms.length) []]
    · rw [hg.row_nil (by omega)]; rfl
    · intro y hy
      exact hg.count_ringPairs_ne (by simpa using hy)
    · intro y hy
      have : y = q.1 := by simpa using hy
      subst this
      rw [List.count_range, if_neg ha]; simp

theorem WGraph.ringPairs_nodup {g : Mol} (hg : WGraph g) (a : Nat) : (ringPairs (g.row a)).Nodup := by
  by_cases ha : a < g.atoms.length
  · have := hg.nodup a _ (hg.row_get ha)
    unfold ringPairs
    apply List.Pairwise.map _ _ (this.filter _)
    intro x y hxy h
    simp only [Prod.mk.injEq] at h
    exact hxy h.2
  · rw [hg.row_nil (by omega)]; exact List.Pairwise.nil

theorem allRings_nodup {g : Mol} (hg : WGraph g) : (allRings g).Nodup := by
  rw [List.nodup_iff_count]
  intro q
  rw [count_allRings hg]
  exact List.nodup_iff_count.mp (hg.ringPairs_nodup q.1) q

theorem mem_allRings {g : Mol} (hg : WGraph g) {a b : Nat} :
    (a, b) ∈ allRings g ↔ ∃ bd ∈ g.row a, bd.ring = true ∧ bd.src = a ∧ bd.dst = b := by
  rw [← mem_ringPairs, ← List.count_pos_iff, ← List.count_pos_iff, count_allRings hg]

/-- a written ring bond has its mirror written too; the two atoms differ and exist -/
theorem allRings_mirror {g : Mol} (hg : WGraph g) {a b : Nat} (h : (a, b) ∈ allRings g) :
    (b, a) ∈ allRings g ∧ a ≠ b ∧ a < g.atoms.length ∧ b < g.atoms.length := by
  obtain ⟨bd, hbd, hr, hs, hd⟩ := (mem_allRings hg).mp h
  have ha : a < g.atoms.length := by
    by_cases ha : a < g.atoms.length
    · exact ha
    · rw [hg.row_nil (by omega)] at hbd; cases hbd
  obtain ⟨_, h2, h3, _⟩ := hg.row_bonds ha bd hbd
  obtain ⟨row', hrow', b', hb', e1, e2, _, e4⟩ := hg.mirror a _ (hg.row_get ha) bd hbd hr
  have hb : b < g.atoms.length := by omega
  rw [hd, hg.row_get hb] at hrow'
  cases hrow'
  refine ⟨(mem_allRings hg).mpr ⟨b', hb', e4, by omega, by omega⟩, by omega, ha, hb⟩

/-- no chain bond joins the two ends of a written ring bond -/
theorem allRings_noChain {g : Mol} (hg : WGraph g) {a b : Nat} (h : (a, b) ∈ allRings g) :
    (∀ bd ∈ g.row a, bd.dst = b → bd.ring = true) ∧ (∀ bd ∈ g.row b, bd.dst = a → bd.ring = true) := by
  obtain ⟨_, _, ha, hb⟩ := allRings_mirror hg h
  obtain ⟨bd, hbd, hr, hs, hd⟩ := (mem_allRings hg).mp h
  constructor
  · intro x hx hxd
    cases hxr : x.ring with
    | true => rfl
    | false =>
      exfalso
      have := (hg.row_bonds ha x hx).1
      exact hg.noChainRing a a _ _ (hg.row_get ha) (hg.row_get ha) x hx bd hbd hxr hr
        (Or.inl ⟨by omega, by omega⟩)
  · intro x hx hxd
    cases hxr : x.ring with
    | true => rfl
    | false =>
      exfalso
      have := (hg.row_bonds hb x hx).1
      exact hg.noChainRing b a _ _ (hg.row_get hb) (hg.row_get ha) x hx bd hbd hxr hr
        (Or.inr ⟨by omega, by omega⟩)

end SV
