/-
  Totality of the SMILES writer, part 2: the loop `writeLoop` makes exactly `stackCost` iterations,
  none of its subscripts / assertions fails, and `Mol.writeFuel` is enough fuel for every root.
-/
import SelfiesVerif.Proofs.WriterCost

namespace SV

/-- a stack frame as the writer creates them -/
def FrameOK (m : Mol) (f : WFrame) : Prop :=
  f.curr < m.atoms.length ∧ f.totalBonds = (m.outRow f.curr).length

/-- iterations still to be spent on a frame: one per remaining bond (plus the subtree below a chain
    bond), one for the pop -/
def frameCost (m : Mol) (f : WFrame) : Nat :=
  1 + rsum (bcost (cost m)) ((m.outRow f.curr).drop f.bondIndex)

def stackCost (m : Mol) (stack : List WFrame) : Nat := (stack.map (frameCost m)).sum

theorem bondToSmiles_total {order : Nat} (stereo : Option Char) (h1 : 1 ≤ order) (h3 : order ≤ 3) :
    ∃ t, bondToSmiles order stereo = .ok t := by
  unfold bondToSmiles
  have : order = 1 ∨ order = 2 ∨ order = 3 := by omega
  rcases this with rfl | rfl | rfl
  · cases stereo <;> exact ⟨_, rfl⟩
  · exact ⟨_, rfl⟩
  · exact ⟨_, rfl⟩

theorem atomToSmiles_total {a : Atom} (h : a.isAromatic = false) : ∃ t, atomToSmiles a = .ok t := by
  unfold atomToSmiles
  rw [h]
  simp only [Bool.false_eq_true, if_false]
  split <;> exact ⟨_, rfl⟩

theorem outBonds_eq {m : Mol} (hW : WInv m) {a : Nat} (ha : a < m.atoms.length) :
    m.outBonds a = .ok (m.outRow a) := by
  unfold Mol.outBonds Mol.outRow
  have : a < m.adj.length := by rw [hW.lenA]; exact ha
  rw [getIdx_total this, List.getElem?_eq_getElem this]; rfl

theorem writeLoop_total {m : Mol} (hW : WInv m) (attrIndex : Nat) : ∀ (fuel : Nat) (stack : List WFrame)
    (w : WState), (∀ f ∈ stack, FrameOK m f) → stackCost m stack ≤ fuel →
    ∃ w', writeLoop m attrIndex fuel stack w = .ok w' := by
  intro fuel
  induction fuel with
  | zero =>
    intro stack w _ hc
    cases stack with
    | nil => exact ⟨w, by simp [writeLoop]⟩
    | cons top rest =>
      simp only [stackCost, List.map_cons, List.sum_cons, frameCost] at hc
      omega
  | succ fuel ih =>
    intro stack w hF hc
    cases stack with
    | nil => exact ⟨w, by simp [writeLoop]⟩
    | cons top rest =>
      have hFt := hF top (by simp)
      have hFr : ∀ f ∈ rest, FrameOK m f := fun f hf => hF f (by simp [hf])
      obtain ⟨hcur, htot⟩ := hFt
      simp only [stackCost, List.map_cons, List.sum_cons] at hc
      cases hres : writeLoop m attrIndex (fuel + 1) (top :: rest) w with
      | ok w' => exact ⟨w', rfl⟩
      | error e =>
        exfalso
        unfold writeLoop at hres
        bind_err_at hres with ⟨currAtom, h1, hres⟩
        · have := getIdx_err hres; omega
        have hna : currAtom.isAromatic = false :=
          hW.nonarom _ (List.mem_of_getElem? (getIdx_okD h1))
        bind_err_at hres with ⟨w1, h2, hres⟩
        · split at hres
          · bind_err_at hres with ⟨tok, h3, hres⟩
            · obtain ⟨t, ht⟩ := atomToSmiles_total hna
              rw [ht] at hres; cases hres
            · cases hres
          · cases hres
        rw [outBonds_eq hW hcur] at hres
        simp only [bind, Except.bind] at hres
        split at hres
        · rename_i hlt
          have hlt' : top.bondIndex < (m.outRow top.curr).length := by omega
          rw [getIdx_total hlt'] at hres
          simp only at hres
          have hdrop : (m.outRow top.curr).drop top.bondIndex =
              (m.outRow top.curr)[top.bondIndex] :: (m.outRow top.curr).drop (top.bondIndex + 1) :=
            List.drop_eq_getElem_cons hlt'
          generalize hbd : (m.outRow top.curr)[top.bondIndex] = bond at hres hdrop
          have hbm : bond ∈ m.outRow top.curr := by rw [← hbd]; exact List.getElem_mem _
          obtain ⟨row, hrow, hbr⟩ := outRow_mem hbm
          obtain ⟨hb1, hb2, hb3, hb4⟩ := hW.bonds _ row hrow bond hbr
          obtain ⟨t, ht⟩ := bondToSmiles_total bond.stereo hb2 hb3
          have hfc : frameCost m top = 1 + bcost (cost m) bond +
              rsum (bcost (cost m)) ((m.outRow top.curr).drop (top.bondIndex + 1)) := by
            unfold frameCost; rw [hdrop, rsum_cons]; omega
          split at hres
          · -- ring bond: advance
            rename_i hring
            rw [ht] at hres
            simp only at hres
            have hb : bcost (cost m) bond = 1 := by simp [bcost, hring]
            obtain ⟨w', hw'⟩ := ih ({ top with bondIndex := top.bondIndex + 1 } :: rest) _ (by
                intro f hf
                rcases List.mem_cons.mp hf with rfl | hf
                · exact ⟨hcur, htot⟩
                · exact hFr f hf) (by
                simp only [stackCost, List.map_cons, List.sum_cons, frameCost] at hc ⊢
                rw [frameCost] at hfc
                omega)
            rw [hw'] at hres; cases hres
          · -- chain bond: push the frame of `bond.dst`
            rename_i hring
            have hring' : bond.ring = false := by simpa using hring
            rw [ht] at hres
            simp only at hres
            rw [outBonds_eq hW hb1] at hres
            simp only at hres
            have hb : bcost (cost m) bond = 1 + cost m bond.dst := by simp [bcost, hring']
            have hnew : frameCost m (⟨bond.dst, 0, (m.outRow bond.dst).length, decide (top.bondIndex + 1 < top.totalBonds)⟩ : WFrame) = cost m bond.dst := by
              unfold frameCost; simp only [List.drop_zero]; exact (cost_eq hW _).symm
            obtain ⟨w', hw'⟩ := ih ((⟨bond.dst, 0, (m.outRow bond.dst).length, decide (top.bondIndex + 1 < top.totalBonds)⟩ : WFrame) ::
                { top with bondIndex := top.bondIndex + 1 } :: rest) _ (by
                intro f hf
                rcases List.mem_cons.mp hf with rfl | hf
                · exact ⟨hb1, rfl⟩
                · rcases List.mem_cons.mp hf with rfl | hf
                  · exact ⟨hcur, htot⟩
                  · exact hFr f hf) (by
                simp only [stackCost, List.map_cons, List.sum_cons] at hc ⊢
                rw [hnew]
                have : frameCost m { top with bondIndex := top.bondIndex + 1 } =
                    1 + rsum (bcost (cost m)) ((m.outRow top.curr).drop (top.bondIndex + 1)) := rfl
                rw [this]
                omega)
            rw [hw'] at hres; cases hres
        · -- pop
          obtain ⟨w', hw'⟩ := ih rest _ hFr (by
            have : 1 ≤ frameCost m top := by unfold frameCost; omega
            simp only [stackCost] at hc ⊢
            omega)
          rw [hw'] at hres; cases hres

/-- `mol_to_smiles` on a graph with the writer invariant: never fails, never runs out of fuel -/
theorem molToSmiles_total {m : Mol} (hW : WInv m) : ∃ r, molToSmiles m = .ok r := by
  have key : ∀ (roots : List Nat), (∀ r ∈ roots, r ∈ m.roots) → ∀ ai log acc maps,
      ∃ r, molToSmiles.frags m roots ai log acc maps = .ok r := by
    intro roots
    induction roots with
    | nil => intro _ ai log acc maps; exact ⟨_, rfl⟩
    | cons root rest ih =>
      intro hr ai log acc maps
      have hroot := hr root (by simp)
      have hrl := hW.rootsLt root hroot
      unfold molToSmiles.frags
      rw [outBonds_eq hW hrl]
      simp only [bind, Except.bind]
      obtain ⟨w, hw⟩ := writeLoop_total hW ai m.writeFuel
        [{ curr := root, bondIndex := 0, totalBonds := (m.outRow root).length, needsClosing := false }]
        { ringLog := log } (by
          intro f hf
          simp only [List.mem_singleton] at hf
          subst hf
          exact ⟨hrl, rfl⟩) (by
          have h1 := cost_root_le hW hroot
          have h2 := cost_eq hW root
          simp only [stackCost, List.map_cons, List.map_nil, List.sum_cons, List.sum_nil, frameCost,
            List.drop_zero, Mol.writeFuel]
          omega)
      rw [hw]
      exact ih (fun r h => hr r (by simp [h])) _ _ _ _
  unfold molToSmiles
  obtain ⟨⟨fragments, maps⟩, h⟩ := key m.roots (fun r h => h) 0 [] [] []
  rw [h]
  exact ⟨_, rfl⟩

end SV
