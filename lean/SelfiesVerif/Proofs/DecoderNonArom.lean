/-
  The decoder never creates an aromatic atom: `processAtomSelfiesNoCache` sets `isAromatic := false`
  and atoms are only ever appended by `addAtom`.  (Same induction skeleton as `deriveLoop_inv`.)
-/
import SelfiesVerif.Proofs.DecoderInv

namespace SV

def NonAromW (m : Mol) : Prop := ∀ a ∈ m.atoms, a.isAromatic = false

theorem processAtomSelfiesNoCache_nonaromW {sym bi a} (h : processAtomSelfiesNoCache sym = some (bi, a)) :
    a.isAromatic = false := by
  unfold processAtomSelfiesNoCache at h
  simp only [smilesToBond] at h
  repeat' split at h
  all_goals (try cases h)
  all_goals rfl

theorem processAtomSymbol_nonaromW {T sym bi a} (h : processAtomSymbol T sym = some (bi, a)) :
    a.isAromatic = false := by
  unfold processAtomSymbol at h
  split at h
  · cases h
  · rename_i bi' a' heq
    split at h
    · cases h
    · cases h
      exact processAtomSelfiesNoCache_nonaromW heq

theorem NonAromW.addAtom {m : Mol} (h : NonAromW m) {a : Atom} (ha : a.isAromatic = false) (r attr) :
    NonAromW (m.addAtom a r attr).1 := by
  intro x hx
  simp only [Mol.addAtom, List.mem_append, List.mem_singleton] at hx
  rcases hx with hx | rfl
  · exact h x hx
  · exact ha

theorem addBond_atomsW {m m' : Mol} {s d o st attr} (h : m.addBond s d o st attr = .ok m') :
    m'.atoms = m.atoms := by
  unfold Mol.addBond at h
  bind_at h with ⟨_, _, h⟩
  bind_at h with ⟨_, _, h⟩
  bind_at h with ⟨_, _, h⟩
  bind_at h with ⟨_, _, h⟩
  cases h; rfl

theorem NonAromW.of_fin {mol : Mol} {rings : List RingReq} {r : DState × Nat}
    (hI : NonAromW mol) (h : r.1.mol = mol ∧ r.1.rings = rings) : NonAromW r.1.mol := by
  rw [h.1]; exact hI

theorem deriveLoop_nonarom (T : Table) (compat : Bool) : ∀ (fuel depth : Nat) (st : DState)
    (maxDerive : Option Nat) (nDerived state : Nat) (prev : Option Nat)
    (attrStack : Option (List Attribution)) (attrIndex : Nat) (r : DState × Nat),
    deriveLoop T compat fuel depth st maxDerive nDerived state prev attrStack attrIndex = .ok r →
    NonAromW st.mol → NonAromW r.1.mol := by
  intro fuel
  induction fuel with
  | zero => intro _ _ _ _ _ _ _ _ _ h; simp [deriveLoop] at h
  | succ fuel ih =>
    intro depth st maxDerive nDerived state prev attrStack attrIndex r h hI
    unfold deriveLoop at h
    dsimp only at h
    split at h
    · exact NonAromW.of_fin hI (fin_ok h)
    · bind_at h with ⟨nx, hnx, h⟩
      split at h
      · exact NonAromW.of_fin hI (fin_ok h)
      · rename_i index symbol stream'
        split at h
        · -- branch
          split at h
          · cases h
          · split at h
            · exact ih _ _ _ _ _ _ _ _ _ h hI
            · bind_at h with ⟨⟨binit, nextState⟩, hnb, h⟩
              dsimp only at h
              bind_at h with ⟨⟨q, nRead, stream2⟩, hri, h⟩
              dsimp only at h
              split at h
              · cases h
              · bind_at h with ⟨⟨st1, nb⟩, hrec, h⟩
                dsimp only at h
                have g1 := ih _ _ _ _ _ _ _ _ _ hrec hI
                exact ih _ _ _ _ _ _ _ _ _ h g1
        · split at h
          · -- ring
            split at h
            · cases h
            · split at h
              · exact ih _ _ _ _ _ _ _ _ _ h hI
              · bind_at h with ⟨⟨order, nextState⟩, hnr, h⟩
                dsimp only at h
                bind_at h with ⟨⟨q, nRead, stream2⟩, hri, h⟩
                dsimp only at h
                split at h
                · cases h
                · bind_at h with ⟨_, _, h⟩
                  split at h
                  · exact NonAromW.of_fin hI (fin_ok h)
                  · exact ih _ _ _ _ _ _ _ _ _ h hI
          · split at h
            · -- epsilon
              split at h
              · exact ih _ _ _ _ _ _ _ _ _ h hI
              · exact NonAromW.of_fin hI (fin_ok h)
            · -- atom
              split at h
              · cases h
              · rename_i bondOrder stereo atom hpa
                have hna := processAtomSymbol_nonaromW hpa
                generalize hnas : nextAtomState bondOrder (Atom.bondingCapacity T atom).toNat state = nas at h
                obtain ⟨bo, ns⟩ := nas
                dsimp only at h
                split at h
                · split at h
                  · have hI1 := hI.addAtom hna true (attrPush attrStack (index + attrIndex) symbol)
                    split at h
                    · exact NonAromW.of_fin hI1 (fin_ok h)
                    · exact ih _ _ _ _ _ _ _ _ _ h hI1
                  · split at h
                    · exact NonAromW.of_fin hI (fin_ok h)
                    · exact ih _ _ _ _ _ _ _ _ _ h hI
                · have hI1 := hI.addAtom hna false (attrPush attrStack (index + attrIndex) symbol)
                  split at h
                  · cases h
                  · bind_at h with ⟨mol1, hab, h⟩
                    have hI2 : NonAromW mol1 := by
                      intro a ha
                      rw [addBond_atomsW hab] at ha
                      exact hI1 a ha
                    split at h
                    · exact NonAromW.of_fin hI2 (fin_ok h)
                    · exact ih _ _ _ _ _ _ _ _ _ h hI2

theorem deriveFragments_nonarom (T : Table) (compat attrib : Bool) :
    ∀ (frags : List Str) (m : Mol) (rings : List RingReq) (ai : Nat) (r : Mol × List RingReq),
    deriveFragments T compat attrib frags m rings ai = .ok r → NonAromW m → NonAromW r.1 := by
  intro frags
  induction frags with
  | nil =>
    intro m rings ai r h hI
    simp only [deriveFragments] at h
    cases h; exact hI
  | cons s rest ih =>
    intro m rings ai r h hI
    simp only [deriveFragments] at h
    bind_at h with ⟨⟨st, n⟩, h1, h⟩
    exact ih _ _ _ _ h (deriveLoop_nonarom T compat _ _ _ _ _ _ _ _ _ _ h1 hI)

/-- every atom of a decoded graph is non-aromatic -/
theorem decodeGraph_nonaromW {T : Table} {s : Str} {compat attrib : Bool} {g : Mol}
    (h : decodeGraph T s compat attrib = .ok g) : ∀ a ∈ g.atoms, a.isAromatic = false := by
  unfold decodeGraph at h
  bind_at h with ⟨⟨m, rings⟩, h1, h⟩
  have hN := deriveFragments_nonarom T compat attrib _ _ _ _ _ h1 (fun a ha => by cases ha)
  obtain ⟨hD, hR⟩ := deriveFragments_inv T compat attrib _ _ _ _ _ h1 (DInv_empty T)
    (fun r hr => by cases hr)
  obtain ⟨_, hS⟩ := formRings_inv T _ _ _ _ h hD.toRInv hR
  intro a ha
  rw [hS.atoms] at ha
  exact hN a ha

end SV
