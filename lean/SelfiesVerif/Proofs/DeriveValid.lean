/-
  C07, decoder part: on a stream without hanging bracket whose symbols are all dispatched to a
  table that contains them (or to an atom symbol accepted under `T`), `deriveLoop` does not raise
  `DecoderError`.
-/
import SelfiesVerif.Proofs.DecoderTotal

namespace SV

/-- the symbol is accepted by the decoder under `T`: the cascade of `_derive_mol_from_symbols` -/
def validSymbol (T : Table) (x : Str) : Bool :=
  if sliceFromEnd x 4 2 == ['c', 'h'] then (processBranchSymbol x).isSome
  else if sliceFromEnd x 4 2 == ['n', 'g'] then (processRingSymbol x).isSome
  else if containsSub x ['e', 'p', 's'] then true
  else (processAtomSymbol T x).isSome

def StreamOK (T : Table) (s : Stream) : Prop :=
  s.hanging = false ∧ ∀ t ∈ s.toks, validSymbol T t.2 = true

theorem StreamOK.suffix {T s s'} (h : StreamOK T s) (hs : s'.Suffix s) : StreamOK T s' :=
  ⟨by rw [hs.1]; exact h.1, fun t ht => h.2 t (hs.2.subset ht)⟩

theorem nextBranchState_err {bt s e} (h : nextBranchState bt s = .error e) : e = .AssertionError := by
  unfold nextBranchState at h
  split at h
  · split at h
    · cases h
    · cases h; rfl
  · cases h; rfl

theorem nextRingState_err {rt s e} (h : nextRingState rt s = .error e) : e = .AssertionError := by
  unfold nextRingState at h
  split at h
  · cases h
  · cases h; rfl

theorem getIdx_err_class {α} {l : List α} {i : Nat} {e : PyExc} (h : getIdx l i = .error e) :
    e = .IndexError := by
  unfold getIdx at h
  split at h
  · cases h
  · cases h; rfl

theorem addBond_err {m : Mol} {src dst order st attr e} (h : m.addBond src dst order st attr = .error e) :
    e = .AssertionError ∨ e = .IndexError := by
  unfold Mol.addBond at h
  bind_err_at h with ⟨_, _, h⟩
  · unfold pyAssert at h; split at h
    · cases h
    · cases h; exact Or.inl rfl
  bind_err_at h with ⟨_, _, h⟩
  · unfold Mol.appendOut at h; split at h
    · cases h
    · cases h; exact Or.inr rfl
  bind_err_at h with ⟨_, _, h⟩
  · unfold Mol.addCount at h; split at h
    · cases h
    · cases h; exact Or.inr rfl
  bind_err_at h with ⟨_, _, h⟩
  · unfold Mol.addCount at h; split at h
    · cases h
    · cases h; exact Or.inr rfl
  cases h

theorem deriveLoop_no_decoder_error (T : Table) : ∀ (fuel depth : Nat) (st : DState) (maxDerive : Option Nat)
    (nDerived state : Nat) (prev : Option Nat) (attrStack : Option (List Attribution)) (attrIndex : Nat)
    (e : PyExc),
    deriveLoop T false fuel depth st maxDerive nDerived state prev attrStack attrIndex = .error e →
    StreamOK T st.stream → e ≠ .DecoderError := by
  intro fuel
  induction fuel with
  | zero => intro _ _ _ _ _ _ _ _ _ h _; simp [deriveLoop] at h; subst h; decide
  | succ fuel ih =>
    intro depth st maxDerive nDerived state prev attrStack attrIndex e h hv
    have hfin : ∀ {k : Nat} {s0 : Stream} {mol : Mol} {rings : List RingReq} {md nd},
        s0.Suffix st.stream →
        (do
          let __x ← consumeRest false k s0 md nd
          match __x with
            | (s', n) => pure ({ stream := s', mol := mol, rings := rings }, n) : Py (DState × Nat))
          = .error e → e ≠ .DecoderError := by
      intro k s0 mol rings md nd hs h
      rcases bind_err h with h | ⟨⟨s', n⟩, _, h⟩
      · cases k with
        | zero => simp [consumeRest] at h; subst h; decide
        | succ k =>
          -- either out of fuel or a hanging bracket: the latter is excluded
          intro he; subst he
          have : ∀ (k : Nat) (s : Stream) md nd, s.hanging = false →
              consumeRest false k s md nd ≠ .error .DecoderError := by
            intro k
            induction k with
            | zero => intro s md nd _ h; simp [consumeRest] at h
            | succ k ihk =>
              intro s md nd hh h
              simp only [consumeRest] at h
              split at h
              · rcases bind_err h with h | ⟨nx, hnx, h⟩
                · have := (Stream.next_err h).2; rw [hh] at this; cases this
                · cases nx with
                  | none => cases h
                  | some x =>
                    obtain ⟨⟨i, sym⟩, s1⟩ := x
                    exact ihk _ _ _ (by rw [(Stream.next_suffix hnx).1.1]; exact hh) h
              · cases h
          exact this _ _ _ _ (by rw [hs.1]; exact hv.1) h
      · cases h
    unfold deriveLoop at h
    dsimp only at h
    split at h
    · exact hfin (Stream.Suffix.refl _) h
    · bind_err_at h with ⟨nx, hnx, h⟩
      · have := (Stream.next_err h).2; rw [hv.1] at this; cases this
      split at h
      · exact hfin (Stream.Suffix.refl _) h
      · rename_i index symbol stream'
        have hsx := (Stream.next_suffix hnx).1
        have hv' := hv.suffix hsx
        obtain ⟨sym0, rest0, htk, hsym, _⟩ := Stream.next_ok hnx
        have hvs : validSymbol T symbol = true := by
          have := hv.2 (index, sym0) (by rw [htk]; simp)
          simpa [hsym, pulled] using this
        unfold validSymbol at hvs
        split at h
        · -- branch
          rename_i htag
          rw [if_pos htag] at hvs
          split at h
          · rename_i hbr; rw [hbr] at hvs; cases hvs
          · rename_i btype n hbr
            split at h
            · exact ih _ _ _ _ _ _ _ _ _ h hv'
            · bind_err_at h with ⟨⟨binit, nextState⟩, hnb, h⟩
              · rw [nextBranchState_err h]; decide
              dsimp only at h
              bind_err_at h with ⟨⟨q, nRead, stream2⟩, hri, h⟩
              · have := (readIndex_err false _ _ _ _ _ h).2; rw [hv'.1] at this; cases this
              dsimp only at h
              have hv2 := hv'.suffix (readIndex_ok false _ _ _ _ _ _ _ hri)
              split at h
              · cases h; decide
              · bind_err_at h with ⟨⟨st1, nb⟩, hrec, h⟩
                · exact ih _ _ _ _ _ _ _ _ _ h hv2
                dsimp only at h
                have s1 := (deriveLoop_simple T false _ _ _ _ _ _ _ _ _ _ hrec).suffix
                exact ih _ _ _ _ _ _ _ _ _ h (hv2.suffix s1)
        · rename_i htag
          rw [if_neg htag] at hvs
          split at h
          · -- ring
            rename_i htag2
            rw [if_pos htag2] at hvs
            split at h
            · rename_i hrs; rw [hrs] at hvs; cases hvs
            · rename_i rtype n stereo hrs
              split at h
              · exact ih _ _ _ _ _ _ _ _ _ h hv'
              · bind_err_at h with ⟨⟨order, nextState⟩, hnr, h⟩
                · rw [nextRingState_err h]; decide
                dsimp only at h
                bind_err_at h with ⟨⟨q, nRead, stream2⟩, hri, h⟩
                · have := (readIndex_err false _ _ _ _ _ h).2; rw [hv'.1] at this; cases this
                dsimp only at h
                have hs2 := readIndex_ok false _ _ _ _ _ _ _ hri
                have hv2 := hv'.suffix hs2
                split at h
                · cases h; decide
                · rename_i p
                  bind_err_at h with ⟨_, _, h⟩
                  · rw [getIdx_err_class h]; decide
                  split at h
                  · exact hfin (hs2.trans hsx) h
                  · exact ih _ _ _ _ _ _ _ _ _ h hv2
          · rename_i htag2
            rw [if_neg htag2] at hvs
            split at h
            · -- epsilon
              split at h
              · exact ih _ _ _ _ _ _ _ _ _ h hv'
              · exact hfin hsx h
            · -- atom
              rename_i heps
              rw [if_neg heps] at hvs
              split at h
              · rename_i hpa; rw [hpa] at hvs; cases hvs
              · rename_i bondOrder stereo atom hpa
                generalize nextAtomState bondOrder (Atom.bondingCapacity T atom).toNat state = nas at h
                obtain ⟨bo, ns⟩ := nas
                dsimp only at h
                split at h
                · split at h
                  · split at h
                    · exact hfin hsx h
                    · exact ih _ _ _ _ _ _ _ _ _ h hv'
                  · split at h
                    · exact hfin hsx h
                    · exact ih _ _ _ _ _ _ _ _ _ h hv'
                · split at h
                  · cases h; decide
                  · rename_i p
                    bind_err_at h with ⟨mol1, hab, h⟩
                    · rcases addBond_err h with rfl | rfl <;> decide
                    split at h
                    · exact hfin hsx h
                    · exact ih _ _ _ _ _ _ _ _ _ h hv'

theorem deriveFragments_no_decoder_error (T : Table) (attrib : Bool) :
    ∀ (frags : List Str) (m : Mol) (rings : List RingReq) (ai : Nat) (e : PyExc),
    deriveFragments T false attrib frags m rings ai = .error e →
    (∀ frag ∈ frags, StreamOK T (tokenizeFragment frag)) → e ≠ .DecoderError := by
  intro frags
  induction frags with
  | nil =>
    intro m rings ai e h
    simp only [deriveFragments] at h
    cases h
  | cons s rest ih =>
    intro m rings ai e h hv
    simp only [deriveFragments] at h
    bind_err_at h with ⟨⟨st, n⟩, h1, h⟩
    · exact deriveLoop_no_decoder_error T _ _ _ _ _ _ _ _ _ _ h (hv s List.mem_cons_self)
    · exact ih _ _ _ _ h (fun f hf => hv f (List.mem_cons_of_mem _ hf))

end SV
