/-
  C05, completeness, stage 3: the `while unmatched:` loop of `find_perfect_matching` on a bipartite
  graph that has a perfect matching never returns `None`; with a legal tape it returns a perfect
  matching.

  Each round pops an unmatched `root`.  By stage 1 (Proofs/Berge.lean) an augmenting path from `root`
  exists, by stage 2 (Proofs/BfsComplete.lean) the BFS does not return `None`; the path it returns
  is alternating (Proofs/AugPath.lean) and, the graph being bipartite, simple (Proofs/Augment.lean),
  so the flip gives a valid partial matching again and `unmatched` stays the set of `None` entries.
  The existence of a perfect matching is a property of the graph and is not affected.
-/
import SelfiesVerif.Proofs.Berge
import SelfiesVerif.Proofs.BfsComplete

namespace SV
open C09

/-- after flipping a simple augmenting path, the two `unmatched -= {…}` updates leave exactly the
    `None` entries of the new matching -/
theorem unmatched_after_flip {g : Graph} (hg : GraphOK g) {m m' : Matching} {path : List Nat}
    {root : Nat} {unmatched : List Nat} (hv : ValidPartial g m)
    (hu : ∀ i : Nat, i ∈ unmatched ↔ m[i]? = some none) (hap : AugPath g m path)
    (hlast : path.getLast? = some root) (hf3 : PairedAlong m' path)
    (hf4 : ∀ x : Nat, x ∉ path → m'[x]? = m[x]?) (i : Nat) :
    i ∈ ((unmatched.filter (· != root)).filter fun x =>
        !(some x == path.head? || some x == path.getLast?)) ↔ m'[i]? = some none := by
  simp only [List.mem_filter, bne_iff_ne, ne_eq, Bool.not_eq_true',
    Bool.or_eq_false_iff, beq_eq_false_iff_ne]
  constructor
  · rintro ⟨⟨hi, _⟩, hh, hl⟩
    have hmi := (hu i).1 hi
    have : i ∉ path := by
      intro hip
      rcases hap.unmatched_ends hv i hip hmi with h' | h'
      · exact hh h'.symm
      · exact hl h'.symm
    rw [hf4 i this]; exact hmi
  · intro hmi
    have hip : i ∉ path := by
      intro hip
      obtain ⟨y, hy, _⟩ := pairs_partner hg path hap.pairsAdj hf3 i hip
      rw [hy] at hmi; cases hmi
    rw [hf4 i hip] at hmi
    refine ⟨⟨(hu i).2 hmi, ?_⟩, ?_, ?_⟩
    · intro e'; subst e'
      exact hip (List.mem_of_getLast? hlast)
    · intro e'
      exact hip (List.mem_of_head? e'.symm)
    · intro e'
      exact hip (List.mem_of_getLast? e'.symm)

/-- one call of `_find_augmenting_path` in the loop: on a bipartite graph with a perfect matching
    it returns a simple augmenting path from the popped root, and the flip succeeds -/
theorem augment_round {g : Graph} {p m : Matching} {root : Nat} (hg : GraphOK g) (hb : Bipartite g)
    (hp : PerfectMatching g p) (hv : ValidPartial g m) (hroot : m[root]? = some none) :
    ∃ path m', findAugmentingPath g root m = .ok (some path) ∧ AugPath g m path ∧ path.Nodup ∧
      path.getLast? = some root ∧ flipPath path m = .ok m' ∧ ValidPartial g m' ∧
      PairedAlong m' path ∧ ∀ x : Nat, x ∉ path → m'[x]? = m[x]? := by
  obtain ⟨bp, b1, b2, _, b4⟩ := exists_augPath_of_perfect hg hv hp hroot
  obtain ⟨path, h1, h2, h3, _⟩ := findAugmentingPath_complete hg hv hroot b1 b2 b4
  have hnd := findAugmentingPath_simple_of_bipartite hb hv h1
  obtain ⟨m', f1, f2, f3, f4⟩ := flipPath_valid hg hv h2 hnd
  exact ⟨path, m', h1, h2, hnd, h3, f1, f2, f3, f4⟩

/-- the loop never gives up (`return None`) -/
theorem augmentLoop_ne_none {g : Graph} {p : Matching} (hg : GraphOK g) (hb : Bipartite g)
    (hp : PerfectMatching g p) :
    ∀ (fuel : Nat) (unmatched tape : List Nat) (m : Matching), ValidPartial g m →
    (∀ i : Nat, i ∈ unmatched ↔ m[i]? = some none) →
    augmentLoop g fuel unmatched tape m ≠ .ok none := by
  intro fuel
  induction fuel with
  | zero =>
    intro unmatched tape m _ _ h
    simp only [augmentLoop] at h
    split at h <;> cases h
  | succ fuel ih =>
    intro unmatched tape m hv hu h
    simp only [augmentLoop] at h
    split at h
    · cases h
    · split at h
      · cases h
      · rename_i root tape'
        split at h
        · cases h
        · rename_i hc
          have hmem : root ∈ unmatched := by simpa using hc
          have hroot : m[root]? = some none := (hu root).1 hmem
          obtain ⟨path, m', h1, h2, _, h4, f1, f2, f3, f4⟩ := augment_round hg hb hp hv hroot
          simp only [bind, Except.bind, h1, f1] at h
          exact ih _ _ _ f2 (unmatched_after_flip hg hv hu h2 h4 f3 f4) h

/-- **`find_perfect_matching` never returns `None` on a bipartite graph that has a perfect
    matching**, for every tape (legal or not) -/
theorem findPerfectMatching_ne_none {g : Graph} {p : Matching} (hg : GraphOK g) (hb : Bipartite g)
    (hp : PerfectMatching g p) (tape : List Nat) : findPerfectMatching g tape ≠ .ok none := by
  intro h
  simp only [findPerfectMatching, bind, Except.bind] at h
  split at h
  · cases h
  · rename_i m0 hm0
    have hv := greedyMatching_valid hg hm0
    exact augmentLoop_ne_none hg hb hp _ _ _ _ hv (unmatched_list_spec m0 _ hv.length_eq) h

/-- the tape is a legal record of the `set.pop()` results of the run of `find_perfect_matching`
    on `g`: `TapeOKLoop` (Proofs/EncTotalMatch.lean) for the loop as `find_perfect_matching` starts
    it, i.e. after the greedy phase.  Whenever the loop pops, the tape has an entry left and that
    entry is a member of `unmatched`. -/
def LegalTape (g : Graph) (tape : List Nat) : Prop :=
  ∀ m0, greedyMatching g = .ok m0 →
    TapeOKLoop g (g.length + 1) ((List.range g.length).filter fun i => (m0.getD i none).isNone) tape m0

/-- every graph has a legal tape -/
theorem legalTape_exists (g : Graph) : ∃ tape, LegalTape g tape := by
  cases hm : greedyMatching g with
  | error e => exact ⟨[], fun m0 h => by rw [hm] at h; cases h⟩
  | ok m0 =>
    refine ⟨legalTape g (g.length + 1) ((List.range g.length).filter fun i => (m0.getD i none).isNone) m0, ?_⟩
    intro m0' h
    rw [hm] at h
    cases h
    exact legalTape_ok _ _ _ _

/-- when no vertex is left unmatched by the greedy phase, every tape is legal (none is consulted) -/
theorem legalTape_of_greedy_perfect {g : Graph} {m0 : Matching} (h : greedyMatching g = .ok m0)
    (hall : ((List.range g.length).filter fun i => (m0.getD i none).isNone) = []) (tape : List Nat) :
    LegalTape g tape := by
  intro m0' h'
  rw [h] at h'
  cases h'
  rw [hall]
  exact tapeOKLoop_of_empty _ _ _ _ rfl

/-- **Completeness on bipartite graphs.**  On a simple bipartite graph that has a perfect matching,
    `find_perfect_matching` returns a perfect matching, for every legal tape. -/
theorem findPerfectMatching_complete_of_bipartite {g : Graph} {tape : List Nat} (hg : GraphOK g)
    (hb : Bipartite g) (hex : ∃ p, PerfectMatching g p) (ht : LegalTape g tape) :
    ∃ m', findPerfectMatching g tape = .ok (some m') ∧ PerfectMatching g m' := by
  obtain ⟨p, hp⟩ := hex
  rcases findPerfectMatching_total hg tape with h | ⟨m', h, _⟩ | ⟨_, m0, hm0, hbad⟩
  · exact absurd h (findPerfectMatching_ne_none hg hb hp tape)
  · refine ⟨m', h, ?_⟩
    rw [findPerfectMatching_eq_simple_of_bipartite hg hb] at h
    exact findPerfectMatchingSimple_sound hg h
  · exact absurd (ht m0 hm0) hbad

/-- the same for an arbitrary tape: a perfect matching, or (in the model only) `KeyError` for a
    tape that is not a legal record of `set.pop()` results -/
theorem findPerfectMatching_complete_anyTape {g : Graph} (hg : GraphOK g) (hb : Bipartite g)
    (hex : ∃ p, PerfectMatching g p) (tape : List Nat) :
    (∃ m', findPerfectMatching g tape = .ok (some m') ∧ PerfectMatching g m') ∨
    (findPerfectMatching g tape = .error .KeyError ∧ ¬ LegalTape g tape) := by
  obtain ⟨p, hp⟩ := hex
  rcases findPerfectMatching_total hg tape with h | ⟨m', h, _⟩ | ⟨h, m0, hm0, hbad⟩
  · exact absurd h (findPerfectMatching_ne_none hg hb hp tape)
  · refine Or.inl ⟨m', h, ?_⟩
    rw [findPerfectMatching_eq_simple_of_bipartite hg hb] at h
    exact findPerfectMatchingSimple_sound hg h
  · exact Or.inr ⟨h, fun ht => hbad (ht m0 hm0)⟩

/-- **`find_perfect_matching` decides the existence of a perfect matching on bipartite graphs**:
    for a legal tape the result is `None` exactly when there is none -/
theorem findPerfectMatching_none_iff_of_bipartite {g : Graph} {tape : List Nat} (hg : GraphOK g)
    (hb : Bipartite g) (ht : LegalTape g tape) :
    findPerfectMatching g tape = .ok none ↔ ¬ ∃ p, PerfectMatching g p := by
  constructor
  · rintro h ⟨p, hp⟩
    exact findPerfectMatching_ne_none hg hb hp tape h
  · intro hno
    rcases findPerfectMatching_total hg tape with h | ⟨m', h, _⟩ | ⟨_, m0, hm0, hbad⟩
    · exact h
    · rw [findPerfectMatching_eq_simple_of_bipartite hg hb] at h
      exact absurd ⟨m', findPerfectMatchingSimple_sound hg h⟩ hno
    · exact absurd (ht m0 hm0) hbad

end SV
