/-
  C03p, stage B (1): the "flat" invariants of the SMILES parser with `attributable = False`.

  * the exact adjacency lists after each graph-changing step (`AttachInv`, `CloseInv`): a closing
    ring bond FILLS the placeholder of its ring number (it is never inserted or appended at the
    opening atom), because
  * `HoleInv`: a `none` placeholder sits exactly at position `pos` of `adj[atom]` for every entry of
    the open ring log, and nowhere else; the entries have distinct labels and distinct places;
  * `MFlat`: ring flags = "the atom has a ring bond", no attributions, bond orders in
    {1, 1.5, 2, 3}, stereo marks `/` `\`.
-/
import SelfiesVerif.Proofs.ParserPWF
import SelfiesVerif.Spec.SameMolecule

namespace SV

/-! ### rows with placeholders -/

/-- `adj[i]` (empty out of range) -/
def rowOf (adj : List (List (Option PBond))) (i : Nat) : List (Option PBond) := adj.getD i []

theorem rowAt_eq_bondsOf_rowOf (adj : List (List (Option PBond))) (i : Nat) :
    rowAt adj i = bondsOf (rowOf adj i) := rfl

theorem rowOf_of_getElem? {adj : List (List (Option PBond))} {i : Nat} {row : List (Option PBond)}
    (h : adj[i]? = some row) : rowOf adj i = row := by
  unfold rowOf; rw [List.getD_eq_getElem?_getD, h]; rfl

theorem rowOf_getElem? {adj : List (List (Option PBond))} {i : Nat} (hi : i < adj.length) :
    adj[i]? = some (rowOf adj i) := by
  unfold rowOf; rw [List.getD_eq_getElem?_getD, List.getElem?_eq_getElem hi]; rfl

theorem rowOf_ge {adj : List (List (Option PBond))} {i : Nat} (hi : adj.length ≤ i) : rowOf adj i = [] := by
  unfold rowOf; rw [List.getD_eq_getElem?_getD, List.getElem?_eq_none hi]; rfl

theorem rowOf_set {adj : List (List (Option PBond))} {i : Nat} (hi : i < adj.length)
    (r : List (Option PBond)) (j : Nat) :
    rowOf (adj.set i r) j = if j = i then r else rowOf adj j := by
  unfold rowOf
  rw [List.getD_eq_getElem?_getD, List.getD_eq_getElem?_getD, List.getElem?_set]
  by_cases h : i = j
  · subst h; simp [hi]
  · simp [h, Ne.symm h]

theorem rowOf_append_nil (adj : List (List (Option PBond))) (j : Nat) :
    rowOf (adj ++ [[]]) j = rowOf adj j := by
  unfold rowOf
  rw [List.getD_eq_getElem?_getD, List.getD_eq_getElem?_getD]
  rcases Nat.lt_trichotomy j adj.length with h | h | h
  · rw [List.getElem?_append_left h]
  · subst h; simp
  · rw [List.getElem?_eq_none (by simp; omega), List.getElem?_eq_none (by omega)]

/-! ### the graph after attaching an atom -/

structure AttachInv (m m' : PMol) (a : Atom) (p o : Nat) (st : Option Char)
    (attr : Option (List Attribution)) : Prop where
  hp : p < m.adj.length
  adj : m'.adj = (m.adj ++ [[]]).set p (rowOf m.adj p ++ [some (PBond.mk p m.adj.length o st false attr)])
  atoms : m'.atoms = m.atoms ++ [a]
  roots : m'.roots = m.roots
  flags : m'.ringFlags = m.ringFlags ++ [false]
  atomAttr : m'.atomAttr = m.atomAttr ++ [attr]
  counts : m'.counts2 = cbump (cbump (m.counts2 ++ [0]) p o) m.adj.length o

theorem attachInv_of {m m' : PMol} (hal : m.atoms.length = m.adj.length) {a : Atom}
    {attr : Option (List Attribution)} {p o : Nat} {st : Option Char} {row : List (Option PBond)}
    (h : AddBondInv (m.addAtom a false attr).1 m' p m.atoms.length o st attr row) :
    AttachInv m m' a p o st attr := by
  obtain ⟨hlt, hrow, _, _, hat, hro, hfl, haa, hadj, hc, _⟩ := h
  rw [hal] at hlt hadj hc
  have hrow' : (m.adj ++ [[]])[p]? = some row := hrow
  rw [List.getElem?_append_left hlt] at hrow'
  refine ⟨hlt, ?_, hat, hro, hfl, haa, hc⟩
  rw [hadj, rowOf_of_getElem? hrow']
  rfl

theorem AttachInv.rowOf {m m' : PMol} {a : Atom} {p o : Nat} {st : Option Char}
    {attr : Option (List Attribution)} (h : AttachInv m m' a p o st attr) (j : Nat) :
    rowOf m'.adj j =
      if j = p then SV.rowOf m.adj p ++ [some (PBond.mk p m.adj.length o st false attr)]
      else SV.rowOf m.adj j := by
  rw [h.adj, rowOf_set (by simp; have := h.hp; omega)]
  split
  · rfl
  · exact rowOf_append_nil _ _

theorem AttachInv.length {m m' : PMol} {a : Atom} {p o : Nat} {st : Option Char}
    {attr : Option (List Attribution)} (h : AttachInv m m' a p o st attr) :
    m'.adj.length = m.adj.length + 1 := by
  rw [h.adj]; simp

theorem AttachInv.mem {m m' : PMol} {a : Atom} {p o : Nat} {st : Option Char}
    {attr : Option (List Attribution)} (h : AttachInv m m' a p o st attr) (j : Nat) (x : PBond) :
    x ∈ rowAt m'.adj j ↔
      x ∈ rowAt m.adj j ∨ (j = p ∧ x = PBond.mk p m.adj.length o st false attr) := by
  rw [rowAt_eq_bondsOf_rowOf, h.rowOf, rowAt_eq_bondsOf_rowOf]
  split
  · rename_i e; subst e
    rw [bondsOf_append]
    simp [bondsOf]
  · rename_i e; simp [e]

/-! ### the graph after closing a ring on a placeholder -/

structure CloseInv (m m' : PMol) (a lpos b o : Nat) (sa sb : Option Char) : Prop where
  ha : a < m.adj.length
  hb : b < m.adj.length
  hab : a ≠ b
  adj : m'.adj = (m.adj.set a ((rowOf m.adj a).set lpos (some (ringBondAB a b o sa)))).set b
    (rowOf m.adj b ++ [some (ringBondAB b a o sb)])
  atoms : m'.atoms = m.atoms
  roots : m'.roots = m.roots
  flags : m'.ringFlags = (m.ringFlags.set a true).set b true
  atomAttr : m'.atomAttr = m.atomAttr
  counts : m'.counts2 = cbump (cbump m.counts2 a o) b o
  ca : a < m.counts2.length
  cb : b < m.counts2.length
  fa : a < m.ringFlags.length
  fb : b < m.ringFlags.length

theorem addBondAtLoc_fill {adj adj' : List (List (Option PBond))} {b : PBond} {p : Nat}
    (h : PMol.addBondAtLoc adj b (some p) = .ok adj') (hole : (rowOf adj b.src)[p]? = some none) :
    adj' = adj.set b.src ((rowOf adj b.src).set p (some b)) := by
  obtain ⟨out, out', hrow, hins, rfl⟩ := addBondAtLoc_inv h
  rw [rowOf_of_getElem? hrow] at hole ⊢
  cases hins with
  | append _ hp =>
    rcases hp with hp | hp
    · cases hp
    · injection hp with hp; subst hp; simp at hole
  | fill _ _ => rfl
  | insert _ x hx => rw [hx] at hole; cases hole

theorem addBondAtLoc_append {adj adj' : List (List (Option PBond))} {b : PBond}
    (h : PMol.addBondAtLoc adj b none = .ok adj') :
    adj' = adj.set b.src (rowOf adj b.src ++ [some b]) := by
  obtain ⟨out, out', hrow, hins, rfl⟩ := addBondAtLoc_inv h
  rw [rowOf_of_getElem? hrow]
  generalize hpos : (none : Option Nat) = pos at hins
  cases hins with
  | append _ _ => rfl
  | fill _ _ => cases hpos
  | insert _ _ _ => cases hpos

theorem closeInv_of {m m' : PMol} {a lpos b o : Nat} {sa sb : Option Char}
    {adj1 : List (List (Option PBond))} (hinv : AddRingInv m m' a b o sa sb (some lpos) none adj1)
    (hab : a ≠ b) (ha : a < m.adj.length) (hb : b < m.adj.length)
    (hole : (rowOf m.adj a)[lpos]? = some none) : CloseInv m m' a lpos b o sa sb := by
  obtain ⟨h1, h2, hca, hcb, hfa, hfb, hat, hro, hfl, haa, hc, _⟩ := hinv
  have e1 := addBondAtLoc_fill h1 hole
  have e2 := addBondAtLoc_append h2
  refine ⟨ha, hb, hab, ?_, hat, hro, hfl, haa, hc, hca, hcb, hfa, hfb⟩
  rw [e2, e1]
  show (m.adj.set a _).set b (rowOf (m.adj.set a _) b ++ _) = _
  rw [rowOf_set ha, if_neg (Ne.symm hab)]
  rfl

theorem CloseInv.length {m m' : PMol} {a lpos b o : Nat} {sa sb : Option Char}
    (h : CloseInv m m' a lpos b o sa sb) : m'.adj.length = m.adj.length := by
  rw [h.adj]; simp

theorem CloseInv.rowOf {m m' : PMol} {a lpos b o : Nat} {sa sb : Option Char}
    (h : CloseInv m m' a lpos b o sa sb) (j : Nat) :
    rowOf m'.adj j =
      if j = b then SV.rowOf m.adj b ++ [some (ringBondAB b a o sb)]
      else if j = a then (SV.rowOf m.adj a).set lpos (some (ringBondAB a b o sa))
      else SV.rowOf m.adj j := by
  rw [h.adj, rowOf_set (by simp; exact h.hb)]
  split
  · rfl
  · rw [rowOf_set h.ha]

theorem CloseInv.mem {m m' : PMol} {a lpos b o : Nat} {sa sb : Option Char}
    (h : CloseInv m m' a lpos b o sa sb) (hole : (SV.rowOf m.adj a)[lpos]? = some none)
    (j : Nat) (x : PBond) :
    x ∈ rowAt m'.adj j ↔
      x ∈ rowAt m.adj j ∨ (j = a ∧ x = ringBondAB a b o sa) ∨ (j = b ∧ x = ringBondAB b a o sb) := by
  rw [rowAt_eq_bondsOf_rowOf, h.rowOf, rowAt_eq_bondsOf_rowOf]
  have hab := h.hab
  split
  · rename_i e; subst e
    rw [bondsOf_append]
    simp [bondsOf, Ne.symm hab]
  · rename_i e1
    split
    · rename_i e2; subst e2
      rw [(bondsOf_set_fill _ _ hole).mem_iff]
      simp [hab]
      constructor
      · rintro (h | h)
        · exact Or.inr h
        · exact Or.inl h
      · rintro (h | h)
        · exact Or.inr h
        · exact Or.inl h
    · rename_i e2; simp [e1, e2]

/-! ### flat invariants of the graph -/

/-- side condition on the generated table `SMILES_STEREO_BONDS` -/
def StereoBondsOK : Prop := ∀ c ∈ Gen.smilesStereoBonds, c = '/' ∨ c = '\\'

theorem stereoBondsOK : StereoBondsOK := by unfold StereoBondsOK; decide

theorem smilesToBond_stereo (c : Option Char) : okStereo (smilesToBond c).2 := by
  unfold smilesToBond okStereo
  cases c with
  | none => exact Or.inl rfl
  | some c =>
    simp only
    split
    · rename_i h
      have := stereoBondsOK c (by simpa using h)
      rcases this with e | e
      · exact Or.inr (Or.inl (by rw [e]))
      · exact Or.inr (Or.inr (by rw [e]))
    · exact Or.inl rfl

def okOrder4 (o : Nat) : Prop := o = 2 ∨ o = 3 ∨ o = 4 ∨ o = 6

structure MFlat (m : PMol) : Prop where
  flagsLen : m.ringFlags.length = m.adj.length
  flags : ∀ i, i < m.adj.length → (m.ringFlags.getD i false = true ↔ ∃ b ∈ rowAt m.adj i, b.ring = true)
  attrs : m.atomAttr = List.replicate m.adj.length none
  bonds : ∀ i, ∀ b ∈ rowAt m.adj i, b.attr = none ∧ okOrder4 b.order2 ∧ okStereo b.stereo

/-- the open ring log and the placeholders -/
structure HoleInv (st : ParseSt) : Prop where
  distinct : st.ringLog.Pairwise fun r r' => r.label ≠ r'.label ∧ (r.atom ≠ r'.atom ∨ r.pos ≠ r'.pos)
  holes : ∀ a p, (rowOf st.mol.adj a)[p]? = some none ↔ ∃ ro ∈ st.ringLog, ro.atom = a ∧ ro.pos = p

theorem mflat_empty : MFlat {} := by
  refine ⟨rfl, ?_, rfl, ?_⟩
  · intro i hi; simp at hi
  · intro i b hb; simp [rowAt, bondsOf] at hb

theorem pairwise_mem {α} {R : α → α → Prop} {l : List α} (h : l.Pairwise R) {x y : α}
    (hx : x ∈ l) (hy : y ∈ l) : x = y ∨ R x y ∨ R y x := by
  induction l with
  | nil => cases hx
  | cons a l ih =>
    rw [List.pairwise_cons] at h
    rcases List.mem_cons.1 hx with hx' | hx' <;> rcases List.mem_cons.1 hy with hy' | hy'
    · exact Or.inl (hx'.trans hy'.symm)
    · exact Or.inr (Or.inl (hx' ▸ h.1 y hy'))
    · exact Or.inr (Or.inr (hy' ▸ h.1 x hx'))
    · exact ih h.2 hx' hy'

theorem getElem?_append_some {row : List (Option PBond)} {x : PBond} {q : Nat} :
    (row ++ [some x])[q]? = some none ↔ row[q]? = some none := by
  rcases Nat.lt_trichotomy q row.length with h | h | h
  · rw [List.getElem?_append_left h]
  · subst h; simp
  · rw [List.getElem?_eq_none (by simp; omega), List.getElem?_eq_none (by omega)]

theorem getElem?_append_none {row : List (Option PBond)} {q : Nat} :
    (row ++ [none])[q]? = some none ↔ row[q]? = some none ∨ q = row.length := by
  rcases Nat.lt_trichotomy q row.length with h | h | h
  · rw [List.getElem?_append_left h]
    constructor
    · exact Or.inl
    · rintro (h' | h')
      · exact h'
      · omega
  · subst h; simp
  · rw [List.getElem?_eq_none (by simp; omega), List.getElem?_eq_none (by omega)]
    simp; omega

theorem getElem?_set_some {row : List (Option PBond)} {x : PBond} {p q : Nat} :
    (row.set p (some x))[q]? = some none ↔ q ≠ p ∧ row[q]? = some none := by
  rw [List.getElem?_set]
  by_cases h : p = q
  · subst h
    simp only [if_true, ne_eq, not_true_eq_false, false_and, iff_false]
    split <;> simp
  · simp [h, Ne.symm h]

theorem getD_append_false (l : List Bool) (i : Nat) : (l ++ [false]).getD i false = l.getD i false := by
  rw [List.getD_eq_getElem?_getD, List.getD_eq_getElem?_getD]
  rcases Nat.lt_trichotomy i l.length with h | h | h
  · rw [List.getElem?_append_left h]
  · subst h; simp
  · rw [List.getElem?_eq_none (by simp; omega), List.getElem?_eq_none (by omega)]

theorem getD_set_true {l : List Bool} {a : Nat} (ha : a < l.length) (i : Nat) :
    (l.set a true).getD i false = (if i = a then true else l.getD i false) := by
  rw [List.getD_eq_getElem?_getD, List.getD_eq_getElem?_getD, List.getElem?_set]
  by_cases h : a = i
  · subst h; simp [ha]
  · simp [h, Ne.symm h]

theorem mflat_addAtom {m : PMol} (h : MFlat m) (a : Atom) (r : Bool) :
    MFlat (m.addAtom a r none).1 := by
  obtain ⟨h1, h2, h3, h4⟩ := h
  have hrows : ∀ j, rowAt (m.adj ++ [[]]) j = rowAt m.adj j := rowAt_append_nil m.adj
  refine ⟨by simp [PMol.addAtom, h1], ?_, ?_, ?_⟩
  · intro i hi
    simp only [PMol.addAtom, List.length_append, List.length_cons, List.length_nil] at hi ⊢
    rw [getD_append_false, hrows]
    by_cases hin : i < m.adj.length
    · exact h2 i hin
    · rw [List.getD_eq_getElem?_getD, List.getElem?_eq_none (by omega), rowAt_ge (by omega)]
      simp
  · simp only [PMol.addAtom, h3, List.length_append, List.length_cons, List.length_nil]
    rw [List.replicate_succ']
  · intro i b hb
    simp only [PMol.addAtom] at hb
    rw [hrows] at hb
    exact h4 i b hb

theorem mflat_attach {m m' : PMol} (h : MFlat m) {a : Atom} {p o : Nat} {st : Option Char}
    (hinv : AttachInv m m' a p o st none) (ho : okOrder4 o) (hst : okStereo st) : MFlat m' := by
  obtain ⟨h1, h2, h3, h4⟩ := h
  refine ⟨by rw [hinv.flags, hinv.length]; simp [h1], ?_, ?_, ?_⟩
  · intro i hi
    rw [hinv.length] at hi
    rw [hinv.flags, getD_append_false]
    by_cases hin : i < m.adj.length
    · rw [h2 i hin]
      constructor
      · rintro ⟨b, hb, hr⟩; exact ⟨b, (hinv.mem i b).2 (Or.inl hb), hr⟩
      · rintro ⟨b, hb, hr⟩
        rcases (hinv.mem i b).1 hb with h0 | ⟨_, e⟩
        · exact ⟨b, h0, hr⟩
        · rw [e] at hr; cases hr
    · have hi' : i = m.adj.length := by omega
      rw [List.getD_eq_getElem?_getD, List.getElem?_eq_none (by omega)]
      simp only [Option.getD_none, Bool.false_eq_true, false_iff, not_exists, not_and]
      intro b hb
      rcases (hinv.mem i b).1 hb with h0 | ⟨e, _⟩
      · rw [rowAt_ge (by omega)] at h0; cases h0
      · have := hinv.hp; omega
  · rw [hinv.atomAttr, hinv.length, h3, List.replicate_succ']
  · intro i b hb
    rcases (hinv.mem i b).1 hb with h0 | ⟨_, e⟩
    · exact h4 i b h0
    · rw [e]; exact ⟨rfl, ho, hst⟩

theorem mflat_congr {m m' : PMol} (h : MFlat m) (hlen : m'.adj.length = m.adj.length)
    (hrows : ∀ j, rowAt m'.adj j = rowAt m.adj j) (hfl : m'.ringFlags = m.ringFlags)
    (haa : m'.atomAttr = m.atomAttr) : MFlat m' := by
  obtain ⟨h1, h2, h3, h4⟩ := h
  refine ⟨by rw [hfl, hlen, h1], ?_, by rw [haa, hlen, h3], ?_⟩
  · intro i hi; rw [hfl, hrows]; exact h2 i (hlen ▸ hi)
  · intro i b hb; rw [hrows] at hb; exact h4 i b hb

theorem mflat_close {m m' : PMol} (h : MFlat m) {a lpos b o : Nat} {sa sb : Option Char}
    (hinv : CloseInv m m' a lpos b o sa sb) (hole : (rowOf m.adj a)[lpos]? = some none)
    (ho : okOrder4 o) (hsa : okStereo sa) (hsb : okStereo sb) : MFlat m' := by
  obtain ⟨h1, h2, h3, h4⟩ := h
  have hmem := hinv.mem hole
  refine ⟨by rw [hinv.flags, hinv.length]; simp [h1], ?_, by rw [hinv.atomAttr, hinv.length, h3], ?_⟩
  · intro i hi
    rw [hinv.length] at hi
    rw [hinv.flags, getD_set_true (by simp; exact hinv.fb), getD_set_true hinv.fa]
    by_cases e1 : i = b
    · subst e1
      simp only [if_true, true_iff]
      exact ⟨_, (hmem i _).2 (Or.inr (Or.inr ⟨rfl, rfl⟩)), rfl⟩
    · rw [if_neg e1]
      by_cases e2 : i = a
      · subst e2
        simp only [if_true, true_iff]
        exact ⟨_, (hmem i _).2 (Or.inr (Or.inl ⟨rfl, rfl⟩)), rfl⟩
      · rw [if_neg e2, h2 i hi]
        constructor
        · rintro ⟨x, hx, hr⟩; exact ⟨x, (hmem i x).2 (Or.inl hx), hr⟩
        · rintro ⟨x, hx, hr⟩
          rcases (hmem i x).1 hx with h0 | ⟨e, _⟩ | ⟨e, _⟩
          · exact ⟨x, h0, hr⟩
          · exact absurd e e2
          · exact absurd e e1
  · intro i x hx
    rcases (hmem i x).1 hx with h0 | ⟨_, e⟩ | ⟨_, e⟩
    · exact h4 i x h0
    · rw [e]; exact ⟨rfl, ho, hsa⟩
    · rw [e]; exact ⟨rfl, ho, hsb⟩

/-! ### the step lemma -/

theorem stepAttr_false (st : ParseSt) (tok : SmilesTok) : stepAttr false st tok = none := rfl

theorem flat_step {Q : SmilesTok → Prop} {st st' : ParseSt} (hw : PWF st.mol) (hm : MFlat st.mol)
    (hh : HoleInv st) (hs : PStep false Q st st') : MFlat st'.mol ∧ HoleInv st' := by
  have hal : st.mol.atoms.length = st.mol.adj.length := ((pwf_iff _).1 hw).2.1
  cases hs with
  | atomRoot tok curr tl _ _ _ _ =>
    refine ⟨mflat_addAtom hm curr true, hh.distinct, ?_⟩
    intro a p
    show (rowOf (st.mol.adj ++ [[]]) a)[p]? = some none ↔ _
    rw [rowOf_append_nil]; exact hh.holes a p
  | atomAttach tok curr p tl pa mol' _ _ _ hadd _ _ =>
    obtain ⟨row, hinv⟩ := addBond_inv hadd
    rw [stepAttr_false] at hinv
    have hinv' := attachInv_of hal hinv
    refine ⟨mflat_attach hm hinv' (attachOrder_mem _ _ _) (smilesToBond_stereo _), hh.distinct, ?_⟩
    intro a q
    show (rowOf mol'.adj a)[q]? = some none ↔ _
    rw [hinv'.rowOf]
    split
    · rename_i e; subst e; rw [getElem?_append_some]; exact hh.holes a q
    · exact hh.holes a q
  | openBranch prev tl _ _ => exact ⟨hm, hh.distinct, hh.holes⟩
  | closeBranch prev tl _ _ _ => exact ⟨hm, hh.distinct, hh.holes⟩
  | ringOpen tok p tl mol' lpos _ _ hfind hadd =>
    obtain ⟨row, hinv⟩ := addPlaceholder_inv hadd
    obtain ⟨hrow, hpos, hat, _, hfl, haa, hadj, hc, hds⟩ := hinv
    have hp : p < st.mol.adj.length := (List.getElem?_eq_some_iff.1 hrow).1
    have hrowe := rowOf_of_getElem? hrow
    have hb : bondsOf (row ++ [none]) = bondsOf row := by simp [bondsOf]
    have hrows : ∀ j, rowAt mol'.adj j = rowAt st.mol.adj j := by
      intro j
      rw [hadj, rowAt_set hp]
      split
      · rename_i e; subst e; rw [hb, rowAt_eq_bondsOf_rowOf, hrowe]
      · rfl
    refine ⟨mflat_congr hm (by rw [hadj]; simp) hrows hfl haa, ?_, ?_⟩
    · show (st.ringLog ++ [_]).Pairwise _
      rw [List.pairwise_append]
      refine ⟨hh.distinct, by simp, ?_⟩
      intro r hr r' hr'
      simp only [List.mem_singleton] at hr'
      subst hr'
      refine ⟨?_, ?_⟩
      · have := List.find?_eq_none.1 hfind r hr
        simpa using this
      · by_cases e : r.atom = p
        · right
          intro e2
          have := (hh.holes p lpos).2 ⟨r, hr, e, e2⟩
          rw [hrowe, hpos] at this
          simp at this
        · exact Or.inl e
    · intro a q
      show (rowOf mol'.adj a)[q]? = some none ↔ ∃ ro ∈ st.ringLog ++ [_], _
      rw [hadj, rowOf_set hp]
      simp only [List.mem_append, List.mem_singleton]
      split
      · rename_i e; subst e
        rw [getElem?_append_none, ← hrowe, hh.holes a q]
        constructor
        · rintro (⟨ro, hro, e⟩ | e)
          · exact ⟨ro, Or.inl hro, e⟩
          · exact ⟨_, Or.inr rfl, rfl, by show lpos = q; rw [e, hrowe]; exact hpos⟩
        · rintro ⟨ro, hro | hro, e1, e2⟩
          · exact Or.inl ⟨ro, hro, e1, e2⟩
          · subst hro; right; rw [← e2, hrowe]; exact hpos
      · rename_i e
        rw [hh.holes a q]
        constructor
        · rintro ⟨ro, hro, e'⟩; exact ⟨ro, Or.inl hro, e'⟩
        · rintro ⟨ro, hro | hro, e1, e2⟩
          · exact ⟨ro, hro, e1, e2⟩
          · subst hro; exact absurd e1.symm e
  | ringClose tok p tl ro mol' _ _ hfind hmk =>
    obtain ⟨la, ra, hmr⟩ := makeRingBonds_inv hmk
    obtain ⟨hab, hnb, hla, hra, hadd⟩ := hmr
    obtain ⟨adj1, hinv⟩ := addRingBond_inv hadd
    have hro : ro ∈ st.ringLog := List.mem_of_find?_eq_some hfind
    have hlab : ro.label = tok.text := by simpa using List.find?_some hfind
    have hole : (rowOf st.mol.adj ro.atom)[ro.pos]? = some none := (hh.holes _ _).2 ⟨ro, hro, rfl, rfl⟩
    have ha : ro.atom < st.mol.adj.length := by rw [← hal]; exact (List.getElem?_eq_some_iff.1 hla).1
    have hb : p < st.mol.adj.length := by rw [← hal]; exact (List.getElem?_eq_some_iff.1 hra).1
    have hci := closeInv_of hinv hab ha hb hole
    refine ⟨mflat_close hm hci hole (ringOrder_mem _ _ _ _) (smilesToBond_stereo _) (smilesToBond_stereo _),
      hh.distinct.filter _, ?_⟩
    intro a q
    show (rowOf mol'.adj a)[q]? = some none ↔ ∃ r ∈ st.ringLog.filter _, _
    have hfil : ∀ r, r ∈ st.ringLog.filter (fun x => x.label != tok.text) ↔ r ∈ st.ringLog ∧ r.label ≠ tok.text := by
      intro r; simp [List.mem_filter]
    -- an entry with the closed label is `ro`'s place
    have huniq : ∀ r ∈ st.ringLog, (r.label = tok.text ∨ (r.atom = ro.atom ∧ r.pos = ro.pos)) → r = ro := by
      intro r hr hc
      rcases pairwise_mem hh.distinct hr hro with e | ⟨e1, e2⟩ | ⟨e1, e2⟩
      · exact e
      · rcases hc with hc | hc
        · exact absurd (hc.trans hlab.symm) e1
        · rcases e2 with e2 | e2
          · exact absurd hc.1 e2
          · exact absurd hc.2 e2
      · rcases hc with hc | hc
        · exact absurd (hlab.trans hc.symm) e1
        · rcases e2 with e2 | e2
          · exact absurd hc.1.symm e2
          · exact absurd hc.2.symm e2
    rw [hci.rowOf]
    have hold := hh.holes a q
    by_cases e : a = p
    · rw [if_pos e]; subst e
      rw [getElem?_append_some, hold]
      constructor
      · rintro ⟨r, hr, e1, e2⟩
        refine ⟨r, (hfil r).2 ⟨hr, ?_⟩, e1, e2⟩
        intro hl
        have := huniq r hr (Or.inl hl)
        subst this
        exact hab e1
      · rintro ⟨r, hr, e⟩; exact ⟨r, ((hfil r).1 hr).1, e⟩
    · rw [if_neg e]
      by_cases e2 : a = ro.atom
      · rw [if_pos e2]; subst e2
        rw [getElem?_set_some, hold]
        constructor
        · rintro ⟨hq, r, hr, e1, e2⟩
          refine ⟨r, (hfil r).2 ⟨hr, ?_⟩, e1, e2⟩
          intro hl
          have := huniq r hr (Or.inl hl)
          subst this
          exact hq e2.symm
        · rintro ⟨r, hr, e1, e2⟩
          obtain ⟨hr1, hr2⟩ := (hfil r).1 hr
          refine ⟨?_, r, hr1, e1, e2⟩
          intro hq
          have := huniq r hr1 (Or.inr ⟨e1, e2.trans hq⟩)
          subst this
          exact hr2 hlab
      · rw [if_neg e2, hold]
        constructor
        · rintro ⟨r, hr, e1, e3⟩
          refine ⟨r, (hfil r).2 ⟨hr, ?_⟩, e1, e3⟩
          intro hl
          have := huniq r hr (Or.inl hl)
          subst this
          exact e2 e1.symm
        · rintro ⟨r, hr, e⟩; exact ⟨r, ((hfil r).1 hr).1, e⟩

end SV
