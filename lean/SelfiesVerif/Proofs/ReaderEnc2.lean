/-
  C10r, part 2: the reordered forest has the same encoding, and it is again well formed,
  kekulized, table-obeying and as deep as the original.
-/
import SelfiesVerif.Proofs.ReaderEnc1

namespace SV

/-! ### the encoder does not read what `reord` changes -/

theorem bondToSmiles2_normS (o : Nat) (s : Option Char) :
    bondToSmiles2 o (normS o s) = bondToSmiles2 o s := by
  unfold normS bondToSmiles2
  by_cases h : o = 2
  · simp [h]
  · have : (o == 2) = false := by simpa using h
    simp [this]

theorem bondToSelfies_normB (b : PBond) (sh : Bool) : bondToSelfies (normB b) sh = bondToSelfies b sh := by
  unfold bondToSelfies
  simp only [normB_order2, normB_stereo, bondToSmiles2_normS]

theorem atomSym_normB (into : Option PBond) (a : Atom) : atomSym (into.map normB) a = atomSym into a := by
  cases into with
  | none => rfl
  | some b =>
    simp only [Option.map_some, atomSym, atomToSelfies, bondToSelfies_normB]

theorem branchSyms_normB (b : PBond) (len : Nat) : branchSyms (normB b) len = branchSyms b len := by
  simp only [branchSyms, bondToSelfies_normB]

theorem ringBondsToSelfies_normS (a b c d o : Nat) (s s' : Option Char) :
    ringBondsToSelfies (ringBond a b o (normS o s')) (ringBond c d o (normS o s))
      = ringBondsToSelfies (ringBond a b o s') (ringBond c d o s) := by
  by_cases h : o = 2
  · simp [normS, h]
  · have h2 : (o != 2) = true := by simpa using h
    have h3 : (o == 2) = false := by simpa using h
    simp only [ringBondsToSelfies, ringBond, h2, Bool.true_or, if_true, bondToSelfies, h3,
      Bool.and_false, Bool.false_eq_true, if_false, bondToSmiles2]
    rfl

theorem ringSyms_normS (i p o : Nat) (s s' : Option Char) :
    ringSyms i p o (normS o s) (normS o s') = ringSyms i p o s s' := by
  simp only [ringSyms, ringBondsToSelfies_normS]

theorem Items.reordAt_encRings (i : Nat) (its : Items) : (its.reordAt i).encRings i = its.encRings i := by
  rw [Items.encRings_eq, Items.encRings_eq, Items.reordAt_rings, arrange_closing,
    filter_map_normR (fun p => !decide (i < p)), List.flatMap_map]
  congr 1
  funext r
  exact ringSyms_normS i r.1 r.2.1 r.2.2.1 r.2.2.2

mutual
theorem Tree.encode_reord : ∀ (t : Tree) (into : Option PBond),
    t.reord.encode (into.map normB) = t.encode into
  | .node i a its, into => by
    have h1 := Items.reordAt_encRings i its
    have h2 := Items.encKids_reordKids its i
    unfold Items.reordAt at h1
    simp only [Tree.reord, Tree.encode, atomSym_normB, h1, ringsOnto_encKids, h2]
theorem Items.encKids_reordKids : ∀ (its : Items) (i : Nat), its.reordKids.encKids i = its.encKids i
  | .nil, _ => rfl
  | .ring _ _ _ _ rest, i => by
    simp only [Items.reordKids, Items.encKids]; exact Items.encKids_reordKids rest i
  | .child o s t rest, i => by
    have ht := Tree.encode_reord t (some (chainBond i t.idx o s))
    simp only [Option.map_some] at ht
    have hb : chainBond i t.idx o (normS o s) = normB (chainBond i t.idx o s) := rfl
    simp only [Items.reordKids, Items.encKids, Tree.reord_idx, Items.reordKids_hasKid, hb, ht,
      branchSyms_normB, Items.encKids_reordKids rest i]
end

/-- **Same encoding.**  `Tree.encode` reads the atom, the bond into it, the closing ring items in
    written order and the children in written order; none of these is changed by `reord`, and the
    dropped stereo marks sit on bonds whose mark the encoder does not read. -/
theorem PForest.encode_reord (f : PForest) : f.reord.encode = f.encode := by
  unfold PForest.encode PForest.reord
  rw [List.map_map]
  congr 1
  apply List.map_congr_left
  intro t _
  have := Tree.encode_reord t none
  simp only [Option.map_none] at this
  simp only [Function.comp, this]

theorem PForest.bdepth_reord (f : PForest) (h : ∀ t ∈ f, t.bdepth + 1 < recursionBudget) :
    ∀ t ∈ f.reord, t.bdepth + 1 < recursionBudget := by
  intro t ht
  obtain ⟨t0, ht0, rfl⟩ := List.mem_map.1 ht
  rw [Tree.bdepth_reord]
  exact h t0 ht0

theorem PForest.roots_reord (f : PForest) : f.reord.map Tree.idx = f.map Tree.idx := by
  unfold PForest.reord
  rw [List.map_map]
  apply List.map_congr_left
  intro t _
  exact Tree.reord_idx t

/-! ### well-formedness -/

theorem NodeInfo.reord_idx (n : NodeInfo) : n.reord.idx = n.idx := rfl
theorem NodeInfo.reord_atom (n : NodeInfo) : n.reord.atom = n.atom := rfl

theorem PForest.closes_reord (f : PForest) : f.reord.closes = f.closes.map normC := by
  unfold PForest.closes
  rw [PForest.nodes_reord, List.flatMap_map, List.map_flatMap]
  congr 1
  funext n
  exact Items.reordAt_closes n.idx n.items

theorem PForest.wellNumbered_reord {f : PForest}
    (h : f.nodes.map (·.idx) = List.range f.nodes.length) :
    f.reord.nodes.map (·.idx) = List.range f.reord.nodes.length := by
  rw [PForest.nodes_reord, List.map_map, List.length_map]
  exact h

theorem PForest.simple_reord {f : PForest} (h : f.simple = true) : f.reord.simple = true := by
  unfold PForest.simple
  rw [PForest.nodes_reord, List.all_map]
  apply List.all_eq_true.2
  intro n hn
  obtain ⟨h1, h2⟩ := PForest.simple_node h hn
  have hperm := NodeInfo.reord_row_perm n
  simp only [Function.comp, Bool.and_eq_true, decide_eq_true_eq, List.all_eq_true, bne_iff_ne, ne_eq]
  constructor
  · have hp2 : (n.reord.row.map (·.dst)).Perm (n.row.map (·.dst)) := by
      refine (hperm.map _).trans (List.Perm.of_eq ?_)
      rw [List.map_map]; rfl
    exact hp2.nodup_iff.2 h1
  · intro b hb
    obtain ⟨b0, hb0, rfl⟩ := List.mem_map.1 (hperm.subset hb)
    exact h2 b0 hb0

theorem filter_map_normC (i : Nat) (l : List RClose) :
    (l.map normC).filter (fun c => c.1 == i) = (l.filter fun c => c.1 == i).map normC := by
  rw [List.filter_map]
  rfl

theorem PForest.ringsPaired_reord {f : PForest} (h : f.ringsPaired = true) :
    f.reord.ringsPaired = true := by
  unfold PForest.ringsPaired
  rw [PForest.nodes_reord, List.all_map]
  apply List.all_eq_true.2
  intro n hn
  have hold : (n.items.opens n.idx).Perm (f.closes.filter fun c => c.1 == n.idx) := by
    unfold PForest.ringsPaired at h
    exact List.isPerm_iff.1 (List.all_eq_true.1 h n hn)
  simp only [Function.comp]
  apply List.isPerm_iff.2
  rw [PForest.closes_reord]
  show ((n.items.reordAt n.idx).opens n.idx).Perm _
  rw [filter_map_normC]
  exact (Items.reordAt_opens n.idx n.items).trans (hold.map normC)

/-- **The reordered forest is well formed.** -/
theorem PForest.wf_reord {f : PForest} (h : f.wf = true) : f.reord.wf = true := by
  obtain ⟨h1, h2, h3⟩ := PForest.wf_parts h
  unfold PForest.wf PForest.wellNumbered
  rw [PForest.wellNumbered_reord h1, PForest.simple_reord h2, PForest.ringsPaired_reord h3]
  simp

theorem PForest.kekulized_reord {f : PForest} (h : f.kekulized = true) : f.reord.kekulized = true := by
  unfold PForest.kekulized
  rw [PForest.nodes_reord, List.all_map]
  apply List.all_eq_true.2
  intro n hn
  obtain ⟨h1, h2, h3⟩ := PForest.kekulized_node h hn
  have hperm := NodeInfo.reord_row_perm n
  simp only [Function.comp, Bool.and_eq_true, decide_eq_true_eq, List.all_eq_true,
    Bool.not_eq_true', NodeInfo.reord_atom]
  refine ⟨⟨h1, ?_⟩, ?_⟩
  · intro b hb
    obtain ⟨b0, hb0, rfl⟩ := List.mem_map.1 (hperm.subset hb)
    exact ⟨(h2 b0 hb0).1, okStereo_normS _ _ (h2 b0 hb0).2⟩
  · intro r hr
    have hr' : r ∈ (n.items.reordAt n.idx).rings := hr
    rw [Items.reordAt_rings] at hr'
    obtain ⟨r0, hr0, rfl⟩ := List.mem_map.1 ((arrange_perm _ _).subset hr')
    exact okStereo_normS _ _ (h3 r0 hr0)

theorem NodeInfo.reord_count2 (n : NodeInfo) : n.reord.count2 = n.count2 := by
  unfold NodeInfo.count2
  congr 1
  · unfold NodeInfo.intoOrder2 NodeInfo.reord
    cases n.into <;> rfl
  · have := ((NodeInfo.reord_row_perm n).map (·.order2)).sum_nat
    rw [this, List.map_map]
    rfl

theorem PForest.obeys_reord {T : Table} {f : PForest} (h : f.obeys T = true) :
    f.reord.obeys T = true := by
  unfold PForest.obeys at h ⊢
  rw [PForest.nodes_reord, List.all_map]
  apply List.all_eq_true.2
  intro n hn
  have := List.all_eq_true.1 h n hn
  simpa only [Function.comp, NodeInfo.reord_count2, NodeInfo.reord_atom] using this

end SV
