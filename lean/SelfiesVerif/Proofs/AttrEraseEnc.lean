/-
  Attribution is observation-only (encoder side).

  `PMol.eraseAttr` forgets every attribution field of a parser graph.  The SMILES parser,
  kekulization, the constraint check, the chirality flip and `_fragment_to_selfies` commute with
  erasure (the symbols written do not depend on the attribution fields).
-/
import SelfiesVerif.Model.Encoder
import SelfiesVerif.Proofs.AttrErase
namespace SV

open C18 (bind_map_sim)

def PBond.erase (b : PBond) : PBond := { b with attr := none }

def PMol.eraseAttr (m : PMol) : PMol :=
  { m with adj := m.adj.map (·.map (·.map PBond.erase)), atomAttr := m.atomAttr.map fun _ => none }

@[simp] theorem PBond.erase_src (b : PBond) : b.erase.src = b.src := rfl
@[simp] theorem PBond.erase_dst (b : PBond) : b.erase.dst = b.dst := rfl
@[simp] theorem PBond.erase_order2 (b : PBond) : b.erase.order2 = b.order2 := rfl
@[simp] theorem PBond.erase_stereo (b : PBond) : b.erase.stereo = b.stereo := rfl
@[simp] theorem PBond.erase_ring (b : PBond) : b.erase.ring = b.ring := rfl
@[simp] theorem PBond.erase_attr (b : PBond) : b.erase.attr = none := rfl

@[simp] theorem PMol.eraseAttr_atoms (m : PMol) : m.eraseAttr.atoms = m.atoms := rfl
@[simp] theorem PMol.eraseAttr_roots (m : PMol) : m.eraseAttr.roots = m.roots := rfl
@[simp] theorem PMol.eraseAttr_counts2 (m : PMol) : m.eraseAttr.counts2 = m.counts2 := rfl
@[simp] theorem PMol.eraseAttr_ringFlags (m : PMol) : m.eraseAttr.ringFlags = m.ringFlags := rfl
@[simp] theorem PMol.eraseAttr_ds (m : PMol) : m.eraseAttr.ds = m.ds := rfl
@[simp] theorem PMol.eraseAttr_adj (m : PMol) :
    m.eraseAttr.adj = m.adj.map (·.map (·.map PBond.erase)) := rfl
@[simp] theorem PMol.eraseAttr_size (m : PMol) : m.eraseAttr.size = m.size := rfl

abbrev eraseAdj (adj : List (List (Option PBond))) : List (List (Option PBond)) :=
  adj.map (·.map (·.map PBond.erase))

/-! ### graph primitives of the parser -/

theorem PMol.addAtom_erase (m : PMol) (a : Atom) (r : Bool) (attr : Option (List Attribution)) :
    m.eraseAttr.addAtom a r none = ((m.addAtom a r attr).1.eraseAttr, (m.addAtom a r attr).2) := by
  simp [PMol.addAtom, PMol.eraseAttr]

theorem PMol.addBond_erase (m : PMol) (src dst o2 : Nat) (stereo : Option Char)
    (attr : Option (List Attribution)) :
    m.eraseAttr.addBond src dst o2 stereo none
      = (m.addBond src dst o2 stereo attr).map PMol.eraseAttr := by
  unfold PMol.addBond
  cases pyAssert (decide (src < dst)) with
  | error e => rfl
  | ok _ =>
    simp only [bind, Except.bind, PMol.eraseAttr_adj, PMol.eraseAttr_counts2, PMol.eraseAttr_ds]
    rw [getIdx_map]
    cases getIdx m.adj src with
    | error e => rfl
    | ok out =>
      simp only [C18.Except.map_ok']
      cases Mol.addCount m.counts2 src o2 with
      | error e => rfl
      | ok c =>
        simp only []
        cases Mol.addCount c dst o2 with
        | error e => rfl
        | ok c2 =>
          simp only [pure, Except.pure, C18.Except.map_ok', PMol.eraseAttr, List.map_set,
            List.map_append, List.map_cons, List.map_nil, Option.map_some, PBond.erase]

theorem PMol.addPlaceholder_erase (m : PMol) (src : Nat) :
    m.eraseAttr.addPlaceholder src
      = (m.addPlaceholder src).map fun r => (r.1.eraseAttr, r.2) := by
  unfold PMol.addPlaceholder
  simp only [bind, Except.bind, PMol.eraseAttr_adj]
  rw [getIdx_map]
  cases getIdx m.adj src with
  | error e => rfl
  | ok out =>
    simp only [C18.Except.map_ok', pure, Except.pure, PMol.eraseAttr, List.map_set, List.map_append,
      List.map_cons, List.map_nil, Option.map_none, List.length_map]

theorem PMol.hasBond_erase (m : PMol) (a b : Nat) : m.eraseAttr.hasBond a b = m.hasBond a b := by
  unfold PMol.hasBond
  simp only [PMol.eraseAttr_adj, List.getElem?_map]
  cases m.adj[min a b]? with
  | none => rfl
  | some out =>
    simp only [Option.map_some, List.any_map]
    congr 1
    funext ob
    cases ob <;> rfl

theorem PMol.addBondAtLoc_erase (adj : List (List (Option PBond))) (b : PBond) (pos : Option Nat) :
    PMol.addBondAtLoc (eraseAdj adj) b.erase pos = (PMol.addBondAtLoc adj b pos).map eraseAdj := by
  unfold PMol.addBondAtLoc
  simp only [bind, Except.bind, PBond.erase_src]
  rw [getIdx_map]
  cases getIdx adj b.src with
  | error e => rfl
  | ok out =>
    simp only [C18.Except.map_ok']
    cases pos with
    | none => simp [pure, Except.pure, eraseAdj, List.map_set]
    | some p =>
      simp only [List.length_map]
      split
      · simp [pure, Except.pure, eraseAdj, List.map_set]
      · simp only [List.getElem?_map]
        cases hp : out[p]? with
        | none => rfl
        | some ob =>
          cases ob with
          | none => simp [pure, Except.pure, eraseAdj, List.map_set]
          | some b0 =>
            simp only [Option.map_some, pure, Except.pure, C18.Except.map_ok', eraseAdj, List.map_set]
            rw [← insertAt_map]
            rfl

theorem PMol.addRingBond_erase (m : PMol) (a b o2 : Nat) (ast bst : Option Char) (ap bp : Option Nat) :
    m.eraseAttr.addRingBond a b o2 ast bst ap bp
      = (m.addRingBond a b o2 ast bst ap bp).map PMol.eraseAttr := by
  unfold PMol.addRingBond
  simp only [PMol.eraseAttr_adj, PMol.eraseAttr_counts2, PMol.eraseAttr_ringFlags, PMol.eraseAttr_ds,
    bind, Except.bind]
  have h1 := PMol.addBondAtLoc_erase m.adj { src := a, dst := b, order2 := o2, stereo := ast, ring := true } ap
  simp only [PBond.erase, eraseAdj] at h1
  rw [h1]
  cases PMol.addBondAtLoc m.adj { src := a, dst := b, order2 := o2, stereo := ast, ring := true } ap with
  | error e => rfl
  | ok adj1 =>
    simp only [C18.Except.map_ok']
    have h2 := PMol.addBondAtLoc_erase adj1 { src := b, dst := a, order2 := o2, stereo := bst, ring := true } bp
    simp only [PBond.erase, eraseAdj] at h2
    rw [h2]
    cases PMol.addBondAtLoc adj1 { src := b, dst := a, order2 := o2, stereo := bst, ring := true } bp with
    | error e => rfl
    | ok adj2 =>
      simp only [C18.Except.map_ok']
      cases Mol.addCount m.counts2 a o2 with
      | error e => rfl
      | ok c =>
        simp only []
        cases Mol.addCount c b o2 with
        | error e => rfl
        | ok c2 =>
          simp only []
          cases getIdx m.ringFlags a with
          | error e => rfl
          | ok _ =>
            simp only []
            cases getIdx m.ringFlags b with
            | error e => rfl
            | ok _ => rfl

theorem makeRingBonds_erase (m : PMol) (lbond : Option Char) (latom lpos : Nat) (rbond : Option Char)
    (ratom : Nat) :
    makeRingBonds m.eraseAttr lbond latom lpos rbond ratom
      = (makeRingBonds m lbond latom lpos rbond ratom).map PMol.eraseAttr := by
  unfold makeRingBonds
  simp only [PMol.hasBond_erase, PMol.eraseAttr_atoms, bind, Except.bind]
  split
  · rfl
  · split
    · rfl
    · split <;>
      · split
        · rfl
        · cases getIdx m.atoms latom with
          | error e => rfl
          | ok la =>
            simp only []
            cases getIdx m.atoms ratom with
            | error e => rfl
            | ok ra =>
              simp only []
              exact PMol.addRingBond_erase _ _ _ _ _ _ _ _

/-! ### the SMILES parser -/

def ParseSt.erase (st : ParseSt) : ParseSt := { st with mol := st.mol.eraseAttr }

abbrev eraseP : ParseSt × List SmilesTok → ParseSt × List SmilesTok := fun r => (r.1.erase, r.2)

theorem parseFragmentLoop_erase (a : Bool) : ∀ (toks : List SmilesTok) (st : ParseSt),
    parseFragmentLoop false toks st.erase = (parseFragmentLoop a toks st).map eraseP := by
  intro toks
  induction toks with
  | nil => intro st; rfl
  | cons tok rest ih =>
    intro st
    have ih' : ∀ (mol : PMol) (ps : List (Option Nat)) (bd : Nat) (rl : List RingOpen) (cs : Bool) (i : Nat),
        parseFragmentLoop false rest
          { mol := mol.eraseAttr, prevStack := ps, branchDepth := bd, ringLog := rl, chainStart := cs, i := i }
        = (parseFragmentLoop a rest
          { mol := mol, prevStack := ps, branchDepth := bd, ringLog := rl, chainStart := cs, i := i }).map eraseP :=
      fun mol ps bd rl cs i => ih { mol := mol, prevStack := ps, branchDepth := bd, ringLog := rl, chainStart := cs, i := i }
    obtain ⟨mol, ps, bd, rl, cs, i⟩ := st
    rw [parseFragmentLoop, parseFragmentLoop]
    simp only [ParseSt.erase, bind, Except.bind]
    cases ps with
    | nil => rfl
    | cons prev ps =>
      simp only [pure, Except.pure]
      cases hk : tok.kind with
      | dot => rfl
      | atom =>
        simp only []
        cases hsa : smilesToAtom tok.text with
        | none => rfl
        | some curr =>
          simp only [Bool.false_eq_true, if_false]
          rw [PMol.addAtom_erase mol curr prev.isNone
            (if a = true then some [{ index := if tok.bondChar.isSome = true then i + 1 else i, token := tok.text }] else none)]
          simp only []
          generalize mol.addAtom curr prev.isNone
            (if a = true then some [{ index := if tok.bondChar.isSome = true then i + 1 else i, token := tok.text }] else none) = ma
          cases prev with
          | none =>
            simp only [List.tail_cons]
            exact ih' _ _ _ _ _ _
          | some p =>
            simp only [PMol.eraseAttr_atoms, List.tail_cons]
            cases getIdx ma.1.atoms p with
            | error e => rfl
            | ok pa =>
              simp only []
              rw [PMol.addBond_erase ma.1 p ma.2 _ _
                (if a = true then some [{ index := if tok.bondChar.isSome = true then i + 1 else i, token := tok.text }] else none)]
              cases ma.1.addBond p ma.2 _ _
                (if a = true then some [{ index := if tok.bondChar.isSome = true then i + 1 else i, token := tok.text }] else none) with
              | error e => rfl
              | ok mol1 =>
                simp only [C18.Except.map_ok']
                exact ih' _ _ _ _ _ _
      | branch =>
        simp only []
        cases cs with
        | true => rfl
        | false =>
          simp only [Bool.false_eq_true, if_false]
          by_cases ht : (tok.text == ['(']) = true
          · simp only [ht, if_true]
            exact ih' _ _ _ _ _ _
          · simp only [ht]
            by_cases hb : (bd == 0) = true
            · simp only [hb, if_true]; rfl
            · simp only [hb]
              exact ih' _ _ _ _ _ _
      | ring =>
        simp only []
        cases cs with
        | true => rfl
        | false =>
          simp only [Bool.false_eq_true, if_false]
          cases prev with
          | none => rfl
          | some p =>
            simp only []
            cases rl.find? (·.label == tok.text) with
            | none =>
              simp only []
              rw [PMol.addPlaceholder_erase]
              cases mol.addPlaceholder p with
              | error e => rfl
              | ok r =>
                simp only [C18.Except.map_ok']
                exact ih' _ _ _ _ _ _
            | some ro =>
              simp only []
              rw [makeRingBonds_erase]
              cases makeRingBonds mol ro.bondChar ro.atom ro.pos tok.bondChar p with
              | error e => rfl
              | ok mol1 =>
                simp only [C18.Except.map_ok']
                exact ih' _ _ _ _ _ _

theorem parseFragment_erase (a : Bool) (toks : List SmilesTok) (mol : PMol) (i : Nat) :
    parseFragment false toks mol.eraseAttr i
      = (parseFragment a toks mol i).map fun r => (r.1.eraseAttr, r.2) := by
  unfold parseFragment
  have := parseFragmentLoop_erase a toks
    { mol := mol, prevStack := [none], branchDepth := 0, ringLog := [], chainStart := true, i := i }
  simp only [ParseSt.erase] at this
  simp only [bind, Except.bind]
  rw [this]
  cases parseFragmentLoop a toks
    { mol := mol, prevStack := [none], branchDepth := 0, ringLog := [], chainStart := true, i := i } with
  | error e => rfl
  | ok r =>
    obtain ⟨st, rest⟩ := r
    simp only [C18.Except.map_ok', eraseP, ParseSt.erase, PMol.eraseAttr_size]
    split
    · rfl
    · split
      · rfl
      · split <;> rfl

theorem smilesToMol_go_erase (a : Bool) : ∀ (fuel : Nat) (toks : List SmilesTok) (m : PMol) (i : Nat),
    smilesToMol.go false fuel toks m.eraseAttr i = (smilesToMol.go a fuel toks m i).map PMol.eraseAttr := by
  intro fuel
  induction fuel with
  | zero => intro toks m i; cases toks <;> rfl
  | succ fuel ih =>
    intro toks m i
    cases toks with
    | nil => rfl
    | cons t ts =>
      rw [smilesToMol.go, smilesToMol.go]
      simp only [bind, Except.bind]
      rw [parseFragment_erase a]
      cases parseFragment a (t :: ts) m i with
      | error e => rfl
      | ok r => exact ih _ _ _

theorem smilesToMol_erase (smiles : Str) (a : Bool) :
    smilesToMol smiles false = (smilesToMol smiles a).map PMol.eraseAttr := by
  unfold smilesToMol
  split
  · rfl
  · cases tokenizeSmiles (smiles.length + 1) smiles with
    | none => rfl
    | some toks => exact smilesToMol_go_erase a _ _ {} _

/-! ### kekulization -/

theorem PMol.find_erase (p : Option PBond → Bool) (out : List (Option PBond))
    (hp : ∀ ob, p (ob.map PBond.erase) = p ob) :
    (out.map (fun x => Option.map PBond.erase x)).find? p
      = (out.find? p).map (fun x => Option.map PBond.erase x) := by
  induction out with
  | nil => rfl
  | cons ob rest ih =>
    simp only [List.map_cons, List.find?_cons, hp]
    cases p ob with
    | true => rfl
    | false => exact ih

theorem PMol.getDirBond_erase (m : PMol) (src dst : Nat) :
    m.eraseAttr.getDirBond src dst = (m.getDirBond src dst).map PBond.erase := by
  unfold PMol.getDirBond
  simp only [PMol.eraseAttr_adj, List.getElem?_map]
  cases m.adj[src]? with
  | none => rfl
  | some out =>
    simp only [Option.map_some]
    rw [PMol.find_erase]
    · cases List.find? _ out with
      | none => rfl
      | some ob => cases ob <;> rfl
    · intro ob; cases ob <;> rfl

theorem PMol.setOrder2At_erase (adj : List (List (Option PBond))) (src dst o : Nat) :
    PMol.setOrder2At (eraseAdj adj) src dst o = eraseAdj (PMol.setOrder2At adj src dst o) := by
  unfold PMol.setOrder2At
  simp only [eraseAdj, List.getElem?_map]
  cases adj[src]? with
  | none => rfl
  | some out =>
    simp only [Option.map_some, List.map_set, List.map_map]
    congr 1
    apply List.map_congr_left
    intro ob _
    cases ob with
    | none => rfl
    | some b =>
      simp only [Function.comp, Option.map_some, PBond.erase_dst]
      by_cases h : (b.dst == dst) = true
      · simp only [h, if_true]; rfl
      · simp only [h]; rfl

theorem PMol.updateBondOrder_erase (m : PMol) (a b n : Nat) :
    m.eraseAttr.updateBondOrder a b n = (m.updateBondOrder a b n).map PMol.eraseAttr := by
  unfold PMol.updateBondOrder
  cases pyAssert (decide (2 ≤ n) && decide (n ≤ 6)) with
  | error e => rfl
  | ok _ =>
    simp only [bind, Except.bind]
    rw [PMol.getDirBond_erase]
    cases hab : m.getDirBond (min a b) (max a b) with
    | error e => rfl
    | ok ab =>
      simp only [C18.Except.map_ok', PBond.erase_order2, PBond.erase_ring]
      by_cases hn : (n == ab.order2) = true
      · simp only [hn, if_true]; rfl
      · simp only [hn, Bool.false_eq_true, if_false]
        simp only [PMol.eraseAttr_adj, PMol.eraseAttr_counts2]
        have e1 := PMol.setOrder2At_erase m.adj (min a b) (max a b) n
        simp only [eraseAdj] at e1
        rw [e1]
        by_cases hr : ab.ring = true
        case neg =>
          simp only [hr, Bool.false_eq_true, if_false, pure, Except.pure]
          cases getIdx m.counts2 (min a b) with
          | error e => rfl
          | ok cl =>
            simp only []
            cases getIdx (m.counts2.set (min a b) (cl + n - ab.order2)) (max a b) with
            | error e => rfl
            | ok ch => rfl
        case pos =>
          simp only [hr, if_true]
          rw [PMol.getDirBond_erase]
          cases m.getDirBond (max a b) (min a b) with
          | error e => rfl
          | ok _ =>
            simp only [C18.Except.map_ok', pure, Except.pure]
            have e2 := PMol.setOrder2At_erase (PMol.setOrder2At m.adj (min a b) (max a b) n) (max a b) (min a b) n
            simp only [eraseAdj] at e2
            rw [e2]
            cases getIdx m.counts2 (min a b) with
            | error e => rfl
            | ok cl =>
              simp only []
              cases getIdx (m.counts2.set (min a b) (cl + n - ab.order2)) (max a b) with
              | error e => rfl
              | ok ch => rfl

theorem foldlM_erase {α} (f : PMol → α → Py PMol)
    (hf : ∀ m x, f m.eraseAttr x = (f m x).map PMol.eraseAttr) : ∀ (l : List α) (m : PMol),
    l.foldlM f m.eraseAttr = (l.foldlM f m).map PMol.eraseAttr := by
  intro l
  induction l with
  | nil => intro m; rfl
  | cons x rest ih =>
    intro m
    simp only [List.foldlM_cons, bind, Except.bind]
    rw [hf]
    cases f m x with
    | error e => rfl
    | ok m1 => exact ih m1

theorem PMol.pruneFromDs_erase (m : PMol) (node : Nat) : m.eraseAttr.pruneFromDs node = m.pruneFromDs node :=
  rfl

theorem PMol.kekulize_erase (m : PMol) (tape : List Nat) :
    m.eraseAttr.kekulize tape = (m.kekulize tape).map (Option.map PMol.eraseAttr) := by
  unfold PMol.kekulize
  simp only [PMol.eraseAttr_ds, PMol.eraseAttr_atoms, PMol.pruneFromDs_erase, bind, Except.bind, pure, Except.pure]
  by_cases hds : m.ds.isEmpty = true
  · simp only [hds, if_true]; rfl
  · simp only [hds, Bool.false_eq_true, if_false]
    split
    · rfl
    · rename_i bad _
      cases bad with
      | true => rfl
      | false =>
        simp only [Bool.false_eq_true, if_false]
        split
        · rfl
        · split
          · rfl
          · split
            · rfl
            · split
              · rfl
              · rename_i matching hfm
                rw [foldlM_erase]
                rotate_left
                · intro m0 p
                  rw [foldlM_erase _ (fun m x => PMol.updateBondOrder_erase m p.fst x 2)]
                  cases List.foldlM (fun m a => m.updateBondOrder p.fst a 2) m0 p.snd with
                  | error e => rfl
                  | ok v =>
                    simp only [C18.Except.map_ok', PMol.eraseAttr_atoms, PMol.eraseAttr_counts2]
                    cases getIdx v.atoms p.fst with
                    | error e => rfl
                    | ok v3 =>
                      simp only []
                      cases getIdx v.counts2 p.fst with
                      | error e => rfl
                      | ok v4 => rfl
                generalize (List.foldlM _ m m.ds : Py PMol) = fr
                cases fr with
                | error e => rfl
                | ok m1 =>
                  simp only [C18.Except.map_ok']
                  rw [foldlM_erase]
                  · generalize (List.foldlM _ m1 (List.range (List.length matching)) : Py PMol) = fr2
                    cases fr2 with
                    | error e => rfl
                    | ok m3 => rfl
                  · intro m2 i
                    cases getIdx matching i with
                    | error e => rfl
                    | ok mi =>
                      cases mi with
                      | none => rfl
                      | some j =>
                        simp only []
                        split
                        · rfl
                        · split
                          · rfl
                          · exact PMol.updateBondOrder_erase _ _ _ _

/-! ### constraint check and chirality flip -/

theorem getOut_erase (m : PMol) (i : Nat) :
    getOut m.eraseAttr i = (getOut m i).map (·.map PBond.erase) := by
  unfold getOut
  simp only [bind, Except.bind, PMol.eraseAttr_adj]
  rw [getIdx_map]
  cases getIdx m.adj i with
  | error e => rfl
  | ok out =>
    simp only [C18.Except.map_ok']
    induction out with
    | nil => rfl
    | cons ob rest ih =>
      simp only [List.map_cons, List.mapM_cons, bind, Except.bind]
      cases ob with
      | none => rfl
      | some b =>
        simp only [Option.map_some, pure, Except.pure] at ih ⊢
        rw [ih]
        generalize (List.mapM _ rest : Py (List PBond)) = r
        cases r with
        | error e => rfl
        | ok r => rfl

/-- the permutation whose parity `_should_invert_chirality` computes -/
def chirPerm (out : List PBond) : List Nat :=
  let ix := (List.range out.length).zip out
  let p2 := (ix.filter fun (_, b) => !b.ring).map (·.1)
  let p1 := ix.filter fun (_, b) => b.ring && b.src < b.dst
  let p0 := (ix.filter fun (_, b) => b.ring && !(b.src < b.dst)).map (·.1)
  let p1 := (p1.mergeSort fun a b => a.2.dst ≤ b.2.dst).map (·.1)
  p0 ++ p1 ++ p2

theorem shouldInvertChirality_chirPerm (m : PMol) (idx : Nat) :
    shouldInvertChirality m idx = (getOut m idx).map fun out =>
      (shouldInvertChirality.inversions (chirPerm out) % 2 != 0) := by
  unfold shouldInvertChirality
  cases getOut m idx with
  | error e => rfl
  | ok out => rfl

theorem chirPerm_erase (out : List PBond) : chirPerm (out.map PBond.erase) = chirPerm out := by
  unfold chirPerm
  have hix : (List.range (out.map PBond.erase).length).zip (out.map PBond.erase)
      = ((List.range out.length).zip out).map (fun p => (p.1, p.2.erase)) := by
    rw [List.length_map, List.zip_map_right]
    rfl
  simp only [hix, List.filter_map, List.map_map]
  congr 1
  congr 1
  rw [← List.map_mergeSort (f := fun p : Nat × PBond => (p.1, p.2.erase))
    (r := fun a b => decide (a.2.dst ≤ b.2.dst)) (s := fun a b => decide (a.2.dst ≤ b.2.dst))
    (fun a _ b _ => rfl), List.map_map]
  rfl

theorem shouldInvertChirality_erase (m : PMol) (idx : Nat) :
    shouldInvertChirality m.eraseAttr idx = shouldInvertChirality m idx := by
  rw [shouldInvertChirality_chirPerm, shouldInvertChirality_chirPerm, getOut_erase]
  cases getOut m idx with
  | error e => rfl
  | ok out => simp only [C18.Except.map_ok', chirPerm_erase]

theorem violatesConstraints_erase (T : Table) (m : PMol) :
    violatesConstraints T m.eraseAttr = violatesConstraints T m := rfl

theorem encodePrepare_erase (T : Table) (smiles : Str) (strict a : Bool) (tape : List Nat) :
    encodePrepare T smiles strict false tape
      = (encodePrepare T smiles strict a tape).map PMol.eraseAttr := by
  unfold encodePrepare
  rw [smilesToMol_erase smiles a]
  cases smilesToMol smiles a with
  | error e => cases e <;> rfl
  | ok m0 =>
    simp only [C18.Except.map_ok', bind, Except.bind, pure, Except.pure]
    rw [PMol.kekulize_erase]
    cases m0.kekulize tape with
    | error e => rfl
    | ok r =>
      cases r with
      | none => rfl
      | some m =>
        simp only [C18.Except.map_ok', Option.map_some, violatesConstraints_erase,
          PMol.eraseAttr_atoms, PMol.eraseAttr_counts2, PMol.eraseAttr_ringFlags,
          shouldInvertChirality_erase]
        cases hb : (strict && violatesConstraints T m) with
        | true =>
          simp only [if_true]
          split
          · rename_i e1 h1
            split
            · rename_i e2 h2; have := h1.symm.trans h2; cases this; rfl
            · rename_i v2 h2; have := h1.symm.trans h2; cases this
          · rename_i v1 h1
            split
            · rename_i e2 h2; have := h1.symm.trans h2; cases this
            · rfl
        | false =>
          simp only [Bool.false_eq_true, if_false]
          split <;> rfl

/-! ### `_fragment_to_selfies` -/

def EncTask.erase : EncTask → EncTask
  | .atomVisit b curr => .atomVisit (b.map PBond.erase) curr
  | .bondLoop rest i outLen next => .bondLoop (rest.map PBond.erase) i outLen (next.map PBond.erase)

theorem bondToSelfies_erase (b : PBond) (s : Bool) : bondToSelfies b.erase s = bondToSelfies b s := rfl

theorem atomToSelfies_erase (b : Option PBond) (a : Atom) :
    atomToSelfies (b.map PBond.erase) a = atomToSelfies b a := by
  cases b <;> rfl

theorem ringBondsToSelfies_erase (l r : PBond) :
    ringBondsToSelfies l.erase r.erase = ringBondsToSelfies l r := rfl

theorem pushIndexSyms_fst (q : List Str) (attr : Option (List Attribution)) (ai : Nat) :
    ∀ (derived : List Str) (maps : List AttributionMap),
    (pushIndexSyms q attr ai derived maps).1 = derived ++ q := by
  unfold pushIndexSyms
  induction q with
  | nil => intro derived maps; simp
  | cons s rest ih =>
    intro derived maps
    simp only [List.foldl_cons]
    rw [ih]
    simp

/-- two runs agree on the derived symbols (or on the exception) -/
abbrev SameDerived (x y : Py (List Str × List AttributionMap)) : Prop := x.map (·.1) = y.map (·.1)

theorem SameDerived.bind {x y : Py (List Str × List AttributionMap)}
    {f g : List Str × List AttributionMap → Py (List Str × List AttributionMap)}
    (h : SameDerived x y) (hfg : ∀ d mp mp', SameDerived (f (d, mp')) (g (d, mp))) :
    SameDerived (x >>= f) (y >>= g) := by
  cases x with
  | error e =>
    cases y with
    | error e' => cases h; rfl
    | ok r => cases h
  | ok r' =>
    cases y with
    | error e' => cases h
    | ok r =>
      obtain ⟨d', mp'⟩ := r'
      obtain ⟨d, mp⟩ := r
      simp only [SameDerived, C18.Except.map_ok', Except.ok.injEq] at h
      subst h
      exact hfg _ _ _

theorem filter_ring_erase (out : List PBond) :
    (out.map PBond.erase).filter (·.ring) ++ (out.map PBond.erase).filter (fun b => !b.ring)
      = (out.filter (·.ring) ++ out.filter (fun b => !b.ring)).map PBond.erase := by
  simp only [List.filter_map, List.map_append]
  rfl

theorem fragmentGo_erase (m : PMol) : ∀ (fuel depth : Nat) (task : EncTask) (derived : List Str)
    (maps maps' : List AttributionMap) (ai ai' : Nat),
    SameDerived (fragmentGo m.eraseAttr fuel depth task.erase derived maps' ai')
      (fragmentGo m fuel depth task derived maps ai) := by
  intro fuel
  induction fuel with
  | zero => intros; rfl
  | succ fuel ih =>
    intro depth task derived maps maps' ai ai'
    cases task with
    | atomVisit bondInto curr =>
      simp only [EncTask.erase]
      rw [fragmentGo, fragmentGo]
      simp only [PMol.eraseAttr_atoms, bind, Except.bind]
      cases getIdx m.atoms curr with
      | error e => rfl
      | ok atom =>
        simp only [atomToSelfies_erase]
        cases atomToSelfies bondInto atom with
        | error e => rfl
        | ok token =>
          simp only []
          rw [getOut_erase]
          cases getOut m curr with
          | error e => rfl
          | ok out =>
            simp only [C18.Except.map_ok', filter_ring_erase, List.length_map]
            exact ih depth (.bondLoop (out.filter (·.ring) ++ out.filter (fun b => !b.ring)) 0
              (out.filter (·.ring) ++ out.filter (fun b => !b.ring)).length none) _ _ _ _ _
    | bondLoop rest i outLen next =>
      cases rest with
      | nil =>
        simp only [EncTask.erase, List.map_nil]
        cases next with
        | none => rfl
        | some b =>
          simp only [Option.map_some, fragmentGo]
          exact ih depth (.atomVisit (some b) b.dst) _ _ _ _ _
      | cons bond rest =>
        simp only [EncTask.erase, List.map_cons]
        rw [fragmentGo, fragmentGo]
        simp only [PBond.erase_ring, PBond.erase_src, PBond.erase_dst]
        by_cases hr : bond.ring = true
        · simp only [hr, if_true]
          by_cases hlt : bond.src < bond.dst
          · simp only [hlt, if_true]
            exact ih depth (.bondLoop rest (i + 1) outLen next) _ _ _ _ _
          · simp only [hlt, if_false, bind, Except.bind]
            rw [PMol.getDirBond_erase]
            cases m.getDirBond bond.dst bond.src with
            | error e => rfl
            | ok rev =>
              simp only [C18.Except.map_ok']
              cases getSelfiesFromIndex ((bond.src : Int) - bond.dst - 1) with
              | error e => rfl
              | ok q =>
                simp only [ringBondsToSelfies_erase]
                cases ringBondsToSelfies rev bond with
                | error e => rfl
                | ok pre =>
                  simp only []
                  generalize hp1 : pushIndexSyms q bond.erase.attr ai' _ _ = pr1
                  generalize hp2 : pushIndexSyms q bond.attr ai _ _ = pr2
                  have e1 := pushIndexSyms_fst q bond.erase.attr ai'
                    (derived ++ [ringSymbol pre "Ring".toList q.length])
                    (maps' ++ [{ index := ((derived ++ [ringSymbol pre "Ring".toList q.length]).length : Int) - 1 + ai',
                                 token := ringSymbol pre "Ring".toList q.length, attribution := bond.erase.attr }])
                  have e2 := pushIndexSyms_fst q bond.attr ai
                    (derived ++ [ringSymbol pre "Ring".toList q.length])
                    (maps ++ [{ index := ((derived ++ [ringSymbol pre "Ring".toList q.length]).length : Int) - 1 + ai,
                                 token := ringSymbol pre "Ring".toList q.length, attribution := bond.attr }])
                  rw [hp1] at e1
                  rw [hp2] at e2
                  obtain ⟨d1, mp1⟩ := pr1
                  obtain ⟨d2, mp2⟩ := pr2
                  simp only at e1 e2
                  subst e1 e2
                  exact ih depth (.bondLoop rest (i + 1) outLen next) _ _ _ _ _
        · simp only [hr, Bool.false_eq_true, if_false]
          by_cases hlast : (i + 1 == outLen) = true
          · simp only [hlast, if_true]
            exact ih depth (.bondLoop rest (i + 1) outLen (some bond)) _ _ _ _ _
          · simp only [hlast, Bool.false_eq_true, if_false]
            by_cases hd : depth + 1 ≥ recursionBudget
            · simp only [hd, if_true]
            · simp only [hd, if_false]
              refine SameDerived.bind (ih (depth + 1) (.atomVisit (some bond) bond.dst) [] maps maps' _ _) ?_
              intro branch mpA mpB
              simp only [bondToSelfies_erase, bind, Except.bind]
              cases getSelfiesFromIndex ((branch.length : Int) - 1) with
              | error e => rfl
              | ok q =>
                simp only []
                cases bondToSelfies bond false with
                | error e => rfl
                | ok pre =>
                  simp only []
                  generalize hp1 : pushIndexSyms q bond.erase.attr ai' _ mpB = pr1
                  generalize hp2 : pushIndexSyms q bond.attr ai _ mpA = pr2
                  have e1 := pushIndexSyms_fst q bond.erase.attr ai'
                    (derived ++ [ringSymbol pre "Branch".toList q.length]) mpB
                  have e2 := pushIndexSyms_fst q bond.attr ai
                    (derived ++ [ringSymbol pre "Branch".toList q.length]) mpA
                  rw [hp1] at e1
                  rw [hp2] at e2
                  obtain ⟨d1, mp1⟩ := pr1
                  obtain ⟨d2, mp2⟩ := pr2
                  simp only at e1 e2
                  subst e1 e2
                  exact ih depth (.bondLoop rest (i + 1) outLen next) _ _ _ _ _

theorem PMol.totalOut_erase (m : PMol) : m.eraseAttr.totalOut = m.totalOut := by
  simp [PMol.totalOut, Function.comp_def]

theorem fragmentToSelfies_erase (m : PMol) (root : Nat) (maps maps' : List AttributionMap) (ai ai' : Nat) :
    SameDerived (fragmentToSelfies m.eraseAttr root maps' ai') (fragmentToSelfies m root maps ai) := by
  unfold fragmentToSelfies
  rw [PMol.totalOut_erase, PMol.eraseAttr_size]
  exact fragmentGo_erase m _ 0 (.atomVisit none root) [] maps maps' ai ai'

theorem encFrags_erase (m : PMol) :
    ∀ (roots : List Nat) (ai ai' : Nat) (acc : List Str) (maps maps' : List AttributionMap),
    SameDerived (encoderFull.frags m.eraseAttr roots ai' acc maps')
      (encoderFull.frags m roots ai acc maps) := by
  intro roots
  induction roots with
  | nil => intros; rfl
  | cons root rest ih =>
    intro ai ai' acc maps maps'
    rw [encoderFull.frags, encoderFull.frags]
    refine SameDerived.bind (fragmentToSelfies_erase m root maps maps' ai ai') ?_
    intro d mp mp'
    exact ih _ _ _ _ _

/-- requesting attribution never changes the encoder's string or exception -/
theorem encoderFull_attr_irrelevant (T : Table) (smiles : Str) (strict : Bool) (tape : List Nat) :
    (encoderFull T smiles strict true tape).map (·.1) = (encoderFull T smiles strict false tape).map (·.1) := by
  unfold encoderFull
  rw [encodePrepare_erase T smiles strict true tape]
  cases encodePrepare T smiles strict true tape with
  | error e => rfl
  | ok m =>
    simp only [C18.Except.map_ok', bind, Except.bind, PMol.eraseAttr_roots]
    have h := encFrags_erase m m.roots 0 0 [] [] []
    cases h1 : encoderFull.frags m m.roots 0 [] [] with
    | error e =>
      rw [h1] at h
      cases h2 : encoderFull.frags m.eraseAttr m.roots 0 [] [] with
      | error e' => rw [h2] at h; cases h; rfl
      | ok r' => rw [h2] at h; cases h
    | ok r =>
      rw [h1] at h
      cases h2 : encoderFull.frags m.eraseAttr m.roots 0 [] [] with
      | error e' => rw [h2] at h; cases h
      | ok r' =>
        rw [h2] at h
        simp only [SameDerived, C18.Except.map_ok', Except.ok.injEq] at h
        simp only [pure, Except.pure, C18.Except.map_ok', h]

end SV
