/-
  The translator stayed inside its subset for `len_selfies`, `split_selfies` and `get_alphabet_from_selfies`
  (no hand copy was substituted in Generated/UtilFns.lean).  Kept apart from Proofs/GenEq7.lean and NOT an
  obligation of any property: behaviour-preserving rewrites of selfies_utils.py with comprehensions or generator
  expressions (seeded/harmless/h2) leave the subset; the check then notes the fallback in its evidence and relies on
  tie (b) for these three functions, instead of reporting a property that is "no longer shown to hold".
-/
import SelfiesVerif.Generated.UtilFns

namespace SV

theorem translator_no_fallback_util : Gen.translatorFallbacksUtil = [] := by decide

end SV
