/-
  C03: one-iteration lemmas about the decoder's `deriveLoop` (atom symbol, ring symbol with its
  index symbols, branch symbol with its index symbols and nested call, end of the call).
-/
import SelfiesVerif.Proofs.RoundTripSyms

namespace SV

/-! ### token streams -/

def mkS (l : List (Nat × Str)) : Stream := { toks := l, hanging := false }

/-- number the symbols from `k` (what `enumerate` does) -/
def tk (k : Nat) : List Str → List (Nat × Str)
  | [] => []
  | s :: l => (k, s) :: tk (k + 1) l

theorem tk_append (k : Nat) (a b : List Str) : tk k (a ++ b) = tk k a ++ tk (k + a.length) b := by
  induction a generalizing k with
  | nil => simp [tk]
  | cons s a ih => simp only [List.cons_append, tk, ih, List.length_cons]; congr 3; omega

theorem tk_eq_zip (l : List Str) : tk 0 l = (List.range l.length).zip l := by
  have : ∀ k, tk k l = (List.range' k l.length).zip l := by
    induction l with
    | nil => intro k; rfl
    | cons s l ih => intro k; simp [tk, ih, List.range'_succ]
  rw [this 0, List.range_eq_range']

/-! ### the end of a call -/

def finishD (st : DState) (md : Option Nat) (nD : Nat) : Py (DState × Nat) := do
  let (s', n) ← consumeRest false (st.stream.toks.length + 2) st.stream md nD
  pure ({ st with stream := s' }, n)

/-- the call ends here: its budget is used up, or (top level) the fragment's tokens are -/
def EndOK (md : Option Nat) (nD : Nat) (toks : List (Nat × Str)) : Prop :=
  md = some nD ∨ (md = none ∧ toks = [])

theorem finishD_end (toks : List (Nat × Str)) (mol : Mol) (rings : List RingReq) (md : Option Nat)
    (nD : Nat) (h : EndOK md nD toks) :
    finishD ⟨mkS toks, mol, rings⟩ md nD = .ok (⟨mkS toks, mol, rings⟩, nD) := by
  unfold finishD
  rcases h with rfl | ⟨rfl, rfl⟩
  · simp [consumeRest, underBudget, bind, Except.bind, pure, Except.pure]
  · simp [consumeRest, underBudget, mkS, Stream.next, bind, Except.bind, pure, Except.pure]

theorem EndOK.underBudget {md : Option Nat} {nD n : Nat} {toks : List (Nat × Str)}
    (h : EndOK md (nD + n) toks) (hn : 0 < n) : underBudget md nD = true := by
  rcases h with rfl | ⟨rfl, _⟩
  · simp [SV.underBudget]; omega
  · rfl

/-- continue the loop with the state left by an atom or ring symbol (`None` ends the call) -/
def contLoop (T : Table) (fuel depth : Nat) (st : DState) (md : Option Nat) (nD σ : Nat)
    (prev : Option Nat) (ai : Nat) : Py (DState × Nat) :=
  if σ = 0 then finishD st md nD else deriveLoop T false fuel depth st md nD σ prev none ai

theorem deriveLoop_end (T : Table) (fuel depth : Nat) (toks : List (Nat × Str)) (mol : Mol)
    (rings : List RingReq) (md : Option Nat) (nD state : Nat) (prev : Option Nat) (ai : Nat)
    (h : EndOK md nD toks) :
    deriveLoop T false (fuel + 1) depth ⟨mkS toks, mol, rings⟩ md nD state prev none ai
      = .ok (⟨mkS toks, mol, rings⟩, nD) := by
  rw [deriveLoop.eq_2]
  have hf := finishD_end toks mol rings md nD h
  unfold finishD at hf
  rcases h with rfl | ⟨rfl, rfl⟩
  · have : underBudget (some nD) nD = false := by simp [underBudget]
    simp only [this, Bool.not_false, if_true]
    exact hf
  · have : underBudget none nD = true := rfl
    simp only [this, Bool.not_true, Bool.false_eq_true, if_false]
    simp only [mkS, Stream.next, Bool.false_eq_true, if_false, bind, Except.bind]
    exact hf

theorem contLoop_end (T : Table) (fuel depth : Nat) (toks : List (Nat × Str)) (mol : Mol)
    (rings : List RingReq) (md : Option Nat) (nD σ : Nat) (prev : Option Nat) (ai : Nat)
    (h : EndOK md nD toks) :
    contLoop T (fuel + 1) depth ⟨mkS toks, mol, rings⟩ md nD σ prev ai
      = .ok (⟨mkS toks, mol, rings⟩, nD) := by
  unfold contLoop
  split
  · exact finishD_end toks mol rings md nD h
  · exact deriveLoop_end T fuel depth toks mol rings md nD σ prev ai h

/-! ### atom symbols -/

theorem atom_step_root (T : Table) (fuel depth k : Nat) (sym : Str) (rest : List (Nat × Str))
    (mol : Mol) (rings : List RingReq) (md : Option Nat) (nD : Nat) (prev : Option Nat) (ai : Nat)
    (bi : Nat × Option Char) (a : Atom)
    (hub : underBudget md nD = true)
    (h1 : sliceFromEnd sym 4 2 ≠ ['c', 'h']) (h2 : sliceFromEnd sym 4 2 ≠ ['n', 'g'])
    (h3 : containsSub sym ['e', 'p', 's'] = false)
    (hread : processAtomSymbol T sym = some (bi, a)) :
    deriveLoop T false (fuel + 1) depth ⟨mkS ((k, sym) :: rest), mol, rings⟩ md nD 0 prev none ai
      = contLoop T fuel depth ⟨mkS rest, (mol.addAtom a true none).1, rings⟩ md (nD + 1)
          (a.bondingCapacity T).toNat (some mol.atoms.length) ai := by
  rw [deriveLoop.eq_2]
  have e1 : (sliceFromEnd sym 4 2 == ['c', 'h']) = false := by simpa using h1
  have e2 : (sliceFromEnd sym 4 2 == ['n', 'g']) = false := by simpa using h2
  simp only [hub, Bool.not_true, Bool.false_eq_true, if_false, mkS, Stream.next, bind, Except.bind,
    e1, e2, h3, hread, nextAtomState, if_true, attrPush, Option.map_none, beq_self_eq_true,
    Nat.min_zero, Nat.zero_min, Nat.sub_zero, Mol.addAtom]
  unfold contLoop finishD
  by_cases hc : (a.bondingCapacity T).toNat = 0
  · simp only [hc, if_true]; rfl
  · simp only [hc, if_false]

theorem nextAtomState_exact (o cap state : Nat) (h1 : 1 ≤ o) (h2 : o ≤ state) (h3 : o ≤ cap) :
    nextAtomState o cap state = (o, if cap - o = 0 then none else some (cap - o)) := by
  unfold nextAtomState
  have : state ≠ 0 := by omega
  simp only [this, if_false]
  have : min (min o state) cap = o := by omega
  rw [this]

theorem atom_step_bond (T : Table) (fuel depth k : Nat) (sym : Str) (rest : List (Nat × Str))
    (mol mol' : Mol) (rings : List RingReq) (md : Option Nat) (nD state p : Nat) (ai : Nat)
    (o : Nat) (stereo : Option Char) (a : Atom)
    (hub : underBudget md nD = true)
    (h1 : sliceFromEnd sym 4 2 ≠ ['c', 'h']) (h2 : sliceFromEnd sym 4 2 ≠ ['n', 'g'])
    (h3 : containsSub sym ['e', 'p', 's'] = false)
    (hread : processAtomSymbol T sym = some ((o, stereo), a))
    (ho1 : 1 ≤ o) (ho2 : o ≤ state) (ho3 : o ≤ (a.bondingCapacity T).toNat)
    (hadd : (mol.addAtom a false none).1.addBond p mol.atoms.length o stereo none = .ok mol') :
    deriveLoop T false (fuel + 1) depth ⟨mkS ((k, sym) :: rest), mol, rings⟩ md nD state (some p) none ai
      = contLoop T fuel depth ⟨mkS rest, mol', rings⟩ md (nD + 1)
          ((a.bondingCapacity T).toNat - o) (some mol.atoms.length) ai := by
  rw [deriveLoop.eq_2]
  have e1 : (sliceFromEnd sym 4 2 == ['c', 'h']) = false := by simpa using h1
  have e2 : (sliceFromEnd sym 4 2 == ['n', 'g']) = false := by simpa using h2
  have e3 : (o == 0) = false := by simp; omega
  simp only [Mol.addAtom, Bool.false_eq_true, if_false] at hadd
  simp only [hub, Bool.not_true, Bool.false_eq_true, if_false, mkS, Stream.next, bind, Except.bind,
    e1, e2, h3, hread, nextAtomState_exact o _ state ho1 ho2 ho3, e3, attrPush, Option.map_none,
    Mol.addAtom, hadd]
  unfold contLoop finishD
  by_cases hc : (a.bondingCapacity T).toNat - o = 0
  · simp only [hc, if_true]; rfl
  · simp only [hc, if_false]

/-! ### index symbols -/

theorem readIndex_exact (q rest : List Str) : ∀ (k : Nat) (acc : List (Option Str)) (nr : Nat),
    readIndex false q.length (mkS (tk k (q ++ rest))) acc nr
      = .ok (getIndexFromSelfies (acc ++ q.map some), nr + q.length, mkS (tk (k + q.length) rest)) := by
  induction q with
  | nil => intro k acc nr; simp [readIndex]
  | cons s q ih =>
    intro k acc nr
    simp only [List.length_cons, List.cons_append, tk, readIndex, mkS, Stream.next, bind, Except.bind,
      Bool.false_eq_true, if_false]
    have := ih (k + 1) (acc ++ [some s]) (nr + 1)
    simp only [mkS] at this
    rw [this]
    simp only [List.map_cons, List.append_assoc, List.cons_append, List.nil_append]
    congr 3
    · omega
    · congr 2; omega

/-! ### ring symbols -/

theorem ring_step (T : Table) (fuel depth k : Nat) (sym : Str) (q rest : List Str)
    (mol : Mol) (rings : List RingReq) (md : Option Nat) (nD state i : Nat) (ai : Nat)
    (o : Nat) (stereo : Option Char × Option Char)
    (hub : underBudget md nD = true)
    (h2 : sliceFromEnd sym 4 2 = ['n', 'g'])
    (hring : processRingSymbol sym = some (o, q.length, stereo))
    (ho1 : 1 ≤ o) (ho2 : o ≤ state)
    (hl : i - (getIndexFromSelfies (q.map some) + 1) < mol.atoms.length) :
    deriveLoop T false (fuel + 1) depth ⟨mkS (tk k (sym :: (q ++ rest))), mol, rings⟩ md nD state
        (some i) none ai
      = contLoop T fuel depth
          ⟨mkS (tk (k + 1 + q.length) rest), mol,
            rings ++ [(i - (getIndexFromSelfies (q.map some) + 1), i, (o, stereo))]⟩
          md (nD + 1 + q.length) (state - o) (some i) ai := by
  rw [deriveLoop.eq_2]
  have e1 : (sliceFromEnd sym 4 2 == ['c', 'h']) = false := by rw [h2]; decide
  have e2 : (sliceFromEnd sym 4 2 == ['n', 'g']) = true := by rw [h2]; decide
  have e3 : (state == 0) = false := by simp; omega
  have hnr : nextRingState o state = .ok (o, if state - o = 0 then none else some (state - o)) := by
    unfold nextRingState
    have : state > 0 := by omega
    simp only [this, if_true]
    have : min o state = o := by omega
    rw [this]
  have hri := readIndex_exact q rest (k + 1) [] 0
  simp only [mkS, List.nil_append, Nat.zero_add] at hri
  obtain ⟨x, hx⟩ : ∃ x, getIdx mol.atoms (i - (getIndexFromSelfies (q.map some) + 1)) = .ok x := by
    unfold getIdx
    rw [List.getElem?_eq_getElem hl]
    exact ⟨_, rfl⟩
  simp only [hub, Bool.not_true, Bool.false_eq_true, if_false, tk, mkS, Stream.next, bind,
    Except.bind, e1, e2, e3, if_true, hring, hnr, hri, hx]
  unfold contLoop finishD
  by_cases hc : state - o = 0
  · simp only [hc, if_true]; rfl
  · simp only [hc, if_false]

/-! ### branch symbols -/

theorem branch_step (T : Table) (fuel depth k : Nat) (sym : Str) (q rest : List Str)
    (mol : Mol) (rings : List RingReq) (md : Option Nat) (nD state : Nat) (prev : Option Nat)
    (ai : Nat) (o : Nat) (st' : DState) (nb : Nat)
    (hub : underBudget md nD = true)
    (h1 : sliceFromEnd sym 4 2 = ['c', 'h'])
    (hbr : processBranchSymbol sym = some (o, q.length))
    (ho1 : 1 ≤ o) (ho3 : o ≤ 3) (ho2 : o + 1 ≤ state)
    (hdepth : depth + 1 < recursionBudget)
    (hnested : deriveLoop T false fuel (depth + 1) ⟨mkS (tk (k + 1 + q.length) rest), mol, rings⟩
      (some (getIndexFromSelfies (q.map some) + 1)) 0 o prev none ai = .ok (st', nb)) :
    deriveLoop T false (fuel + 1) depth ⟨mkS (tk k (sym :: (q ++ rest))), mol, rings⟩ md nD state
        prev none ai
      = deriveLoop T false fuel depth st' md (nD + 1 + q.length + nb) (state - o) prev none ai := by
  rw [deriveLoop.eq_2]
  have e1 : (sliceFromEnd sym 4 2 == ['c', 'h']) = true := by rw [h1]; decide
  have e3 : ¬ state ≤ 1 := by omega
  have hnb : nextBranchState o state = .ok (o, state - o) := by
    unfold nextBranchState
    have h1 : 1 ≤ o ∧ o ≤ 3 := ⟨ho1, ho3⟩
    have h2 : state > 1 := by omega
    simp only [h1, h2, and_self, if_true]
    have : min (state - 1) o = o := by omega
    rw [this]
  have hri := readIndex_exact q rest (k + 1) [] 0
  simp only [mkS, List.nil_append, Nat.zero_add] at hri
  have hd : ¬ (depth + 1 ≥ recursionBudget) := by omega
  simp only [mkS] at hnested
  simp only [hub, Bool.not_true, Bool.false_eq_true, if_false, tk, mkS, Stream.next, bind,
    Except.bind, e1, if_true, hbr, e3, hnb, hri, hd, attrPush, Option.map_none, hnested]

end SV
