/-
  The attribution stacks of the decoder are EXACTLY the enclosing branch symbols.

  `deriveLoop_walk`: a successful call of `deriveLoop` (with `compat = false`; `compat = true` is
  reduced to it by `C18.deriveLoop_sim`) with attribution stack `S` on a stream whose tokens are
  numbered consecutively from position `p` consumes exactly what `walk` consumes and appends to
  `atomAttr`, for every position `k` in `walk`'s `made` list and in that order,
  `some (S ++ (encl spans k ++ [k]).map mkA)`, where `spans` are the branches `walk` opened.
-/
import SelfiesVerif.Proofs.AttrSpans
import SelfiesVerif.Proofs.AttrGlobal
import SelfiesVerif.Proofs.SpecRefineDerive
import SelfiesVerif.Proofs.Compat

namespace SV
open SV.Spec

/-! ### streams whose tokens are numbered consecutively -/

/-- the tokens are at positions `p, p+1, …` (position = enumerate index + offset `ai`) and
    `tokAt` knows their symbols -/
def Numbered (tokAt : Nat → Str) (ai : Nat) : Nat → List (Nat × Str) → Prop
  | _, [] => True
  | p, t :: rest => t.1 + ai = p ∧ tokAt p = t.2 ∧ Numbered tokAt ai (p + 1) rest

theorem Numbered.suffix {tokAt : Nat → Str} {ai : Nat} : ∀ (pre : List (Nat × Str)) {p : Nat}
    {toks : List (Nat × Str)}, Numbered tokAt ai p (pre ++ toks) → Numbered tokAt ai (p + pre.length) toks
  | [], _, _, h => h
  | _ :: pre, p, toks, h => by
    have := Numbered.suffix pre h.2.2
    have e : p + 1 + pre.length = p + (pre.length + 1) := by omega
    rw [e] at this
    exact this

theorem Numbered.drop {tokAt : Nat → Str} {ai p : Nat} {toks : List (Nat × Str)} (n : Nat)
    (h : Numbered tokAt ai p toks) : Numbered tokAt ai (p + min n toks.length) (toks.drop n) := by
  have := Numbered.suffix (toks.take n) (toks := toks.drop n) (p := p) (by rwa [List.take_append_drop])
  rwa [List.length_take] at this

theorem Numbered.of_get {tokAt : Nat → Str} {ai : Nat} : ∀ (toks : List (Nat × Str)) (p : Nat),
    (∀ (j : Nat) (t : Nat × Str), toks[j]? = some t → t.1 + ai = p + j ∧ tokAt (p + j) = t.2) →
    Numbered tokAt ai p toks
  | [], _, _ => trivial
  | t :: rest, p, h => by
    refine ⟨(h 0 t rfl).1, (h 0 t rfl).2, Numbered.of_get rest (p + 1) ?_⟩
    intro j t' hj
    have := h (j + 1) t' (by simpa using hj)
    have e : p + 1 + j = p + (j + 1) := by omega
    rw [e]; exact this

/-! ### what a call did, against its walk -/

def mkA (tokAt : Nat → Str) (j : Nat) : Attribution := { index := j, token := tokAt j }

/-- the attribution the atom made at position `k` must carry: stack, enclosing branch symbols,
    the atom symbol itself -/
def attrOf (tokAt : Nat → Str) (S : List Attribution) (spans : List Span) (k : Nat) :
    Option (List Attribution) :=
  some (S ++ (encl spans k ++ [k]).map (mkA tokAt))

def WRes (tokAt : Nat → Str) (S : List Attribution) (toks : List (Nat × Str))
    (attr0 : List (Option (List Attribution))) (nd : Nat) (r : DState × Nat) (w : Walk) : Prop :=
  ∃ pre, toks = pre ++ r.1.stream.toks ∧ r.2 = nd + pre.length ∧ w.left = r.1.stream.toks.map (·.2) ∧
    r.1.mol.atomAttr = attr0 ++ w.made.map (attrOf tokAt S w.spans)

theorem WRes.prepend {tokAt S toks t' attr0 nd nd' r w} {p0 : List (Nat × Str)}
    (h : WRes tokAt S t' attr0 nd' r w) (ht : toks = p0 ++ t') (hn : nd' = nd + p0.length) :
    WRes tokAt S toks attr0 nd r w := by
  obtain ⟨pre, e1, e2, e3, e4⟩ := h
  exact ⟨p0 ++ pre, by rw [ht, e1, List.append_assoc], by rw [e2, hn, List.length_append]; omega, e3, e4⟩

/-- an atom symbol at `pos` made an atom, then the rest -/
theorem WRes.cons {tokAt S toks t' attr0 nd nd' r w} {t : Nat × Str} {pos : Nat}
    (h : WRes tokAt S t' (attr0 ++ [some (S ++ [mkA tokAt pos])]) nd' r w)
    (hw : ∀ sp ∈ w.spans, pos < sp.first) (ht : toks = t :: t') (hn : nd' = nd + 1) :
    WRes tokAt S toks attr0 nd r (Walk.cons pos w) := by
  obtain ⟨pre, e1, e2, e3, e4⟩ := h
  refine ⟨t :: pre, by rw [ht, e1]; rfl, by rw [e2, hn, List.length_cons]; omega, e3, ?_⟩
  have : encl w.spans pos = [] := encl_out (fun sp hsp => .inl (hw sp hsp))
  rw [e4]
  simp [Walk.cons, attrOf, this]

theorem skip_split {α : Type} (b : Option Nat) (l : List α) :
    ∃ pre, l = pre ++ skip b l ∧ pre.length = l.length - (skip b l).length := by
  cases b with
  | none => exact ⟨l, by simp [skip], by simp [skip]⟩
  | some k => exact ⟨l.take k, by simp [skip], by simp [skip]; omega⟩

theorem skip_nil {α : Type} (b : Option Nat) : skip b ([] : List α) = [] := by
  cases b <;> simp [skip]

theorem WRes.of_fin {tokAt : Nat → Str} {S : List Attribution} {k : Nat} {s0 : Stream} {mol : Mol}
    {rings : List RingReq} {md : Option Nat} {nd : Nat} {r : DState × Nat} (hk : s0.toks.length < k)
    (h : (do
      let __x ← consumeRest false k s0 md nd
      match __x with
        | (s', n) => pure ({ stream := s', mol := mol, rings := rings }, n) : Py (DState × Nat))
      = .ok r) :
    WRes tokAt S s0.toks mol.atomAttr nd r ⟨skip (bud md nd) (s0.toks.map (·.2)), [], []⟩ := by
  rw [consumeRest_eq _ _ _ _ hk] at h
  split at h
  · cases h
  · simp only [bind, Except.bind, pure, Except.pure, Except.ok.injEq] at h
    subst h
    obtain ⟨pre, e1, e2⟩ := skip_split (bud md nd) s0.toks
    exact ⟨pre, e1, by simp only; omega, by simp only [skip_map], by simp⟩

/-- a nested derivation (stack extended by the branch symbol at `pos`) followed by the rest of the
    enclosing instance -/
theorem WRes.nest {tokAt S toks body attr0 nd nd2 r} {r1 : DState × Nat} {inner outer : Walk}
    {t : Nat × Str} {pidx : List (Nat × Str)} {pos first last hi : Nat}
    (h1 : WRes tokAt (S ++ [mkA tokAt pos]) body attr0 0 r1 inner)
    (h2 : WRes tokAt S r1.1.stream.toks r1.1.mol.atomAttr nd2 r outer)
    (w1 : Within first last inner) (w2 : Within last hi outer)
    (ht : toks = t :: pidx ++ body) (hn : nd2 = nd + 1 + pidx.length + r1.2) :
    WRes tokAt S toks attr0 nd r
      ⟨outer.left, ⟨pos, first, last⟩ :: (inner.spans ++ outer.spans), inner.made ++ outer.made⟩ := by
  obtain ⟨pre1, a1, a2, _, a4⟩ := h1
  obtain ⟨pre2, b1, b2, b3, b4⟩ := h2
  refine ⟨t :: pidx ++ pre1 ++ pre2, ?_, ?_, b3, ?_⟩
  · rw [ht, a1, b1]; simp
  · rw [b2, hn, a2]; simp only [List.length_append, List.length_cons]; omega
  · rw [b4, a4, List.map_append, List.append_assoc]
    congr 2
    · apply List.map_congr_left
      intro k hk
      have hk' := w1.made k hk
      have e2 : encl outer.spans k = [] :=
        encl_out (fun sp hsp => .inl (by have := w2.spans sp hsp; omega))
      simp only [attrOf]
      rw [encl_cons_in _ (by exact hk'), encl_append, e2]
      simp
    · apply List.map_congr_left
      intro k hk
      have hk' := w2.made k hk
      have e1 : encl inner.spans k = [] :=
        encl_out (fun sp hsp => .inr (by have := w1.spans sp hsp; omega))
      simp only [attrOf]
      rw [encl_cons_out _ (by simp only; omega), encl_append, e1]
      simp

/-! ### the derive loop against the walk -/

theorem bud_zero_of_not_under {md : Option Nat} {nd : Nat} (h : ¬ underBudget md nd = true) :
    bud md nd = some 0 := by
  cases md with
  | none => simp [underBudget] at h
  | some M => simp [underBudget] at h; simp [bud]; omega

theorem deriveLoop_walk (T : Table) (tokAt : Nat → Str) : ∀ (fuel depth : Nat) (st : DState)
    (md : Option Nat) (nd state : Nat) (prev : Option Nat) (S : List Attribution) (ai : Nat)
    (r : DState × Nat) (wf p : Nat),
    deriveLoop T false fuel depth st md nd state prev (some S) ai = .ok r →
    st.stream.toks.length < wf → Numbered tokAt ai p st.stream.toks →
    WRes tokAt S st.stream.toks st.mol.atomAttr nd r
      (walk T wf (bud md nd) state p (st.stream.toks.map (·.2))) := by
  intro fuel
  induction fuel with
  | zero => intro _ _ _ _ _ _ _ _ _ _ _ h; simp [deriveLoop] at h
  | succ fuel ih =>
    intro depth st md nd state prev S ai r wf p h hwf hnum
    obtain ⟨wf, rfl⟩ : ∃ wf', wf = wf' + 1 := ⟨wf - 1, by omega⟩
    unfold deriveLoop at h
    dsimp only at h
    split at h
    · rename_i hub
      have hb := bud_zero_of_not_under (by simpa using hub)
      have := WRes.of_fin (tokAt := tokAt) (S := S) (by omega) h
      rw [hb] at this ⊢
      rw [walk_stop]
      simpa [skip] using this
    · rename_i hub
      have hb : bud md nd ≠ some 0 := (underBudget_iff md nd).mp (by simpa using hub)
      bind_at h with ⟨nx, hnx, h⟩
      split at h
      · have ht := next_none hnx
        have := WRes.of_fin (tokAt := tokAt) (S := S) (by omega) h
        rw [ht] at this ⊢
        simp only [List.map_nil, skip_nil] at this ⊢
        rw [walk_nil hb]
        exact this
      · rename_i index symbol stream'
        obtain ⟨sym0, htoks, hsym⟩ := next_some hnx
        simp only [symOf_false] at hsym
        subst hsym
        rw [htoks] at hnum hwf ⊢
        obtain ⟨hpos, htok, hnum'⟩ := hnum
        simp only at hpos htok
        simp only [List.length_cons] at hwf
        simp only [List.map_cons]
        -- the same instance goes on with the next token
        have same : ∀ (state' : Nat) (prev' : Option Nat) (mol : Mol) (rings : List RingReq),
            deriveLoop T false fuel depth { stream := stream', mol := mol, rings := rings } md (nd + 1)
              state' prev' (some S) ai = .ok r →
            WRes tokAt S stream'.toks mol.atomAttr (nd + 1) r
              (walk T wf (spend (bud md nd) 1) state' (p + 1) (stream'.toks.map (·.2))) := by
          intro state' prev' mol rings h'
          have := ih _ _ _ _ _ _ _ _ _ wf (p + 1) h' (by simp only; omega) hnum'
          rw [bud_add] at this
          exact this
        -- the instance ends after this token
        have fin : ∀ (mol : Mol) (rings : List RingReq),
            (do
              let __x ← consumeRest false (stream'.toks.length + 2) stream' md (nd + 1)
              match __x with
                | (s', n) => pure ({ stream := s', mol := mol, rings := rings }, n) : Py (DState × Nat))
              = .ok r →
            WRes tokAt S stream'.toks mol.atomAttr (nd + 1) r
              ⟨skip (spend (bud md nd) 1) (stream'.toks.map (·.2)), [], []⟩ := by
          intro mol rings h'
          have := WRes.of_fin (tokAt := tokAt) (S := S) (by omega) h'
          rw [bud_add] at this
          exact this
        have hcons : ((index, symbol) :: stream'.toks) = [(index, symbol)] ++ stream'.toks := rfl
        split at h
        · -- branch symbol
          rename_i htag
          split at h
          · cases h
          · rename_i btype n hbr
            have hc : classify T symbol = .branch btype n := by simp [classify, htag, hbr]
            obtain ⟨hbt1, hbt3⟩ := processBranchSymbol_ok hbr
            split at h
            · rename_i hle
              rw [walk_branch_skip hb hc hle]
              exact (same _ _ _ _ h).prepend hcons rfl
            · rename_i hgt
              rw [nextBranchState_eq hbt1 hbt3 hgt] at h
              bind_at h with ⟨⟨binit, nextState⟩, hnb, h⟩
              cases hnb
              dsimp only at h
              bind_at h with ⟨⟨q, nRead, stream2⟩, hri, h⟩
              dsimp only at h
              rw [readIndex_eq] at hri
              split at hri
              · cases hri
              · cases hri
                split at h
                · cases h
                · bind_at h with ⟨⟨st1, nb⟩, hrec, h⟩
                  dsimp only at h
                  simp only [List.nil_append, indexValue_eq, Nat.zero_add] at hrec h
                  rw [attrPush_some, hpos, ← htok] at hrec
                  rw [walk_branch hb hc hgt]
                  dsimp only
                  have hbud : bud (some (indexValue n (stream'.toks.map (·.2)) + 1)) 0
                      = some (indexValue n (stream'.toks.map (·.2)) + 1) := by simp [bud]
                  have hdl : (stream'.toks.drop n).length ≤ stream'.toks.length := by simp
                  have hin := ih _ _ _ _ _ _ _ _ _ wf (p + 1 + min n stream'.toks.length) hrec
                    (by simp only; omega) (hnum'.drop n)
                  simp only [hbud, List.map_drop] at hin
                  obtain ⟨il, iw⟩ := walk_within T wf (some (indexValue n (stream'.toks.map (·.2)) + 1))
                    (min (state - 1) btype) (p + 1 + min n stream'.toks.length)
                    ((stream'.toks.map (·.2)).drop n)
                  simp only [List.length_map] at hin il iw ⊢
                  generalize walk T wf (some (indexValue n (stream'.toks.map (·.2)) + 1))
                    (min (state - 1) btype) (p + 1 + min n stream'.toks.length)
                    ((stream'.toks.map (·.2)).drop n) = inner at hin il iw ⊢
                  obtain ⟨pre1, a1, a2, a3, a4⟩ := hin
                  simp only at a1 a2 a3 a4
                  have hlen1 : (stream'.toks.drop n).length = pre1.length + st1.stream.toks.length := by
                    rw [a1, List.length_append]
                  have htaken : ((stream'.toks.map (·.2)).drop n).length - inner.left.length = nb := by
                    rw [a3, List.length_drop, List.length_map, List.length_map]
                    rw [List.length_drop] at hlen1
                    omega
                  rw [htaken] at iw ⊢
                  have hnum1 : Numbered tokAt ai (p + 1 + min n stream'.toks.length + nb) st1.stream.toks := by
                    have := (hnum'.drop n)
                    rw [a1] at this
                    have := Numbered.suffix pre1 this
                    rw [a2, Nat.zero_add]
                    exact this
                  have hout := ih _ _ _ _ _ _ _ _ _ wf (p + 1 + min n stream'.toks.length + nb) h
                    (by rw [List.length_drop] at hlen1; omega) hnum1
                  obtain ⟨_, ow⟩ := walk_within T wf (bud md (nd + 1 + min n stream'.toks.length + nb))
                    (state - min (state - 1) btype) (p + 1 + min n stream'.toks.length + nb)
                    (st1.stream.toks.map (·.2))
                  have hbeq : spend (spend (bud md nd) 1) (min n stream'.toks.length + nb)
                      = bud md (nd + 1 + min n stream'.toks.length + nb) := by
                    rw [spend_spend, ← bud_add]
                    congr 1
                    omega
                  rw [hbeq, a3]
                  generalize walk T wf (bud md (nd + 1 + min n stream'.toks.length + nb))
                    (state - min (state - 1) btype) (p + 1 + min n stream'.toks.length + nb)
                    (st1.stream.toks.map (·.2)) = outer at hout ow ⊢
                  refine WRes.nest (r1 := (st1, nb)) (t := (index, symbol)) (pidx := stream'.toks.take n)
                    (body := stream'.toks.drop n) ⟨pre1, a1, a2, a3, a4⟩ hout iw ow ?_ ?_
                  · simp
                  · simp only [List.length_take]
        · split at h
          · -- ring symbol
            rename_i hnch hng
            split at h
            · cases h
            · rename_i rtype n stereo hrs
              obtain ⟨ls, rs⟩ := stereo
              have hc : classify T symbol = .ring rtype n ls rs := by simp [classify, hnch, hng, hrs]
              split at h
              · rename_i hs0
                have hs0' : state = 0 := by simpa using hs0
                subst hs0'
                rw [walk_ring_skip hb hc]
                exact (same _ _ _ _ h).prepend hcons rfl
              · rename_i hs0
                have hs0' : state ≠ 0 := by simpa using hs0
                rw [nextRingState_eq hs0'] at h
                bind_at h with ⟨⟨order, nextState⟩, hnr, h⟩
                cases hnr
                dsimp only at h
                bind_at h with ⟨⟨q, nRead, stream2⟩, hri, h⟩
                dsimp only at h
                rw [readIndex_eq] at hri
                split at hri
                · cases hri
                · cases hri
                  simp only [Nat.zero_add] at h
                  rw [walk_ring hb hc hs0']
                  have hbeq : spend (spend (bud md nd) 1) (min n (stream'.toks.map (·.2)).length)
                      = bud md (nd + 1 + min n stream'.toks.length) := by
                    rw [← bud_add, ← bud_add, List.length_map]
                  have hsplit : ((index, symbol) :: stream'.toks)
                      = ((index, symbol) :: stream'.toks.take n) ++ stream'.toks.drop n := by simp
                  have hn : nd + 1 + min n stream'.toks.length
                      = nd + ((index, symbol) :: stream'.toks.take n).length := by
                    simp only [List.length_cons, List.length_take]; omega
                  rw [hbeq]
                  split at h
                  · cases h
                  · rename_i pa
                    bind_at h with ⟨_, _, h⟩
                    split at h
                    · rename_i hz
                      rw [if_pos (by simpa using hz)]
                      have := WRes.of_fin (tokAt := tokAt) (S := S)
                        (s0 := { toks := stream'.toks.drop n, hanging := stream'.hanging })
                        (by simp only [List.length_drop]; omega) h
                      simp only [List.map_drop] at this
                      exact this.prepend hsplit hn
                    · rename_i s' hz
                      have hz' : ¬ state - min rtype state = 0 ∧ state - min rtype state = s' := by
                        simpa using hz
                      rw [if_neg hz'.1, hz'.2]
                      have := ih _ _ _ _ _ _ _ _ _ wf (p + 1 + min n stream'.toks.length) h
                        (by simp only [List.length_drop]; omega) (hnum'.drop n)
                      simp only [List.map_drop, List.length_map] at this ⊢
                      exact this.prepend hsplit hn
          · split at h
            · -- epsilon
              rename_i hnch hnng heps
              have hc : classify T symbol = .epsilon := by simp [classify, hnch, hnng, heps]
              split at h
              · rename_i hs0
                have hs0' : state = 0 := by simpa using hs0
                subst hs0'
                rw [walk_eps0 hb hc]
                exact (same _ _ _ _ h).prepend hcons rfl
              · rename_i hs0
                have hs0' : state ≠ 0 := by simpa using hs0
                rw [walk_eps hb hc hs0']
                exact (fin _ _ h).prepend hcons rfl
            · -- atom symbol
              rename_i hnch hnng hneps
              split at h
              · cases h
              · rename_i bondOrder stereo atom hpa
                have hc : classify T symbol = .atom bondOrder stereo atom := by
                  simp [classify, hnch, hnng, hneps, hpa]
                obtain ⟨hbO1, hbO3, hcap0⟩ := processAtomSymbol_ok hpa
                have hcapdef : (Atom.bondingCapacity T atom).toNat = cap T atom := rfl
                rw [hcapdef, attrPush_some, hpos, ← htok] at h
                have hstop : ∀ sp ∈ (⟨skip (spend (bud md nd) 1) (stream'.toks.map (·.2)), [], []⟩ : Walk).spans,
                    p < sp.first := fun _ hsp => by cases hsp
                have hgo : ∀ (i' : Nat), ∀ sp ∈ (walk T wf (spend (bud md nd) 1) i' (p + 1)
                    (stream'.toks.map (·.2))).spans, p < sp.first := by
                  intro i' sp hsp
                  have := (walk_within T wf (spend (bud md nd) 1) i' (p + 1) (stream'.toks.map (·.2))).2.spans sp hsp
                  omega
                by_cases hs0 : state = 0
                · subst hs0
                  rw [nextAtomState_zero] at h
                  simp only [beq_self_eq_true, if_true] at h
                  rw [walk_root hb hc]
                  by_cases hz : cap T atom = 0
                  · rw [if_pos hz] at h
                    rw [if_pos hz]
                    dsimp only at h
                    refine WRes.cons ?_ hstop rfl rfl
                    exact fin _ _ h
                  · rw [if_neg hz] at h
                    rw [if_neg hz]
                    dsimp only at h
                    refine WRes.cons ?_ (hgo _) rfl rfl
                    exact same _ _ _ _ h
                · rw [nextAtomState_pos hs0] at h
                  dsimp only at h
                  by_cases hμ : min bondOrder (min state (cap T atom)) = 0
                  · have hcz : cap T atom = 0 := by omega
                    rw [hμ] at h
                    simp only [beq_self_eq_true, if_true, hcz, Nat.sub_self, if_true] at h
                    have hs0b : (state == 0) = false := by simpa using hs0
                    simp only [hs0b, Bool.false_eq_true, if_false] at h
                    rw [walk_atom_none hb hc hs0 hμ]
                    exact (fin _ _ h).prepend hcons rfl
                  · have hμb : (min bondOrder (min state (cap T atom)) == 0) = false := by simpa using hμ
                    simp only [hμb, Bool.false_eq_true, if_false] at h
                    rw [walk_atom hb hc hs0 hμ]
                    split at h
                    · cases h
                    · rename_i pa
                      bind_at h with ⟨mol1, hab, h⟩
                      obtain ⟨_, a2, _⟩ := addBond_shape hab
                      have hattr : mol1.atomAttr = st.mol.atomAttr ++ [some (S ++ [mkA tokAt p])] := by
                        rw [a2]; rfl
                      by_cases hz : cap T atom - min bondOrder (min state (cap T atom)) = 0
                      · rw [if_pos hz] at h
                        rw [if_pos hz]
                        dsimp only at h
                        refine WRes.cons ?_ hstop rfl rfl
                        rw [← hattr]
                        exact fin _ _ h
                      · rw [if_neg hz] at h
                        rw [if_neg hz]
                        dsimp only at h
                        refine WRes.cons ?_ (hgo _) rfl rfl
                        rw [← hattr]
                        exact same _ _ _ _ h

end SV
