/-
  Attribution is observation-only (decoder side).

  `Mol.eraseAttr` forgets every attribution field of a decoder graph.  The derive phase, the ring
  phase and the SMILES writer all commute with erasure: attribution never feeds back into control
  flow, the streams, the ring queue, the graph structure or the characters written.
-/
import SelfiesVerif.Proofs.DeriveLoop
import SelfiesVerif.Proofs.Compat
namespace SV

open C18 (bind_map_sim)

def DirBond.erase (b : DirBond) : DirBond := { b with attr := none }

def Mol.eraseAttr (m : Mol) : Mol :=
  { m with adj := m.adj.map (·.map DirBond.erase), atomAttr := m.atomAttr.map fun _ => none }

def DState.erase (st : DState) : DState := { st with mol := st.mol.eraseAttr }

abbrev eraseRes : DState × Nat → DState × Nat := fun r => (r.1.erase, r.2)

@[simp] theorem DirBond.erase_src (b : DirBond) : b.erase.src = b.src := rfl
@[simp] theorem DirBond.erase_dst (b : DirBond) : b.erase.dst = b.dst := rfl
@[simp] theorem DirBond.erase_order (b : DirBond) : b.erase.order = b.order := rfl
@[simp] theorem DirBond.erase_stereo (b : DirBond) : b.erase.stereo = b.stereo := rfl
@[simp] theorem DirBond.erase_ring (b : DirBond) : b.erase.ring = b.ring := rfl
@[simp] theorem DirBond.erase_attr (b : DirBond) : b.erase.attr = none := rfl

@[simp] theorem Mol.eraseAttr_atoms (m : Mol) : m.eraseAttr.atoms = m.atoms := rfl
@[simp] theorem Mol.eraseAttr_roots (m : Mol) : m.eraseAttr.roots = m.roots := rfl
@[simp] theorem Mol.eraseAttr_counts (m : Mol) : m.eraseAttr.counts = m.counts := rfl
@[simp] theorem Mol.eraseAttr_adj (m : Mol) : m.eraseAttr.adj = m.adj.map (·.map DirBond.erase) := rfl
@[simp] theorem Mol.eraseAttr_size (m : Mol) : m.eraseAttr.size = m.size := rfl

theorem Mol.eraseAttr_empty : ({} : Mol).eraseAttr = {} := rfl

/-! ### graph primitives -/

theorem addAtom_erase (m : Mol) (a : Atom) (r : Bool) (attr : Option (List Attribution)) :
    m.eraseAttr.addAtom a r none = ((m.addAtom a r attr).1.eraseAttr, (m.addAtom a r attr).2) := by
  simp [Mol.addAtom, Mol.eraseAttr]

theorem appendOut_erase (adj : List (List DirBond)) (b : DirBond) :
    Mol.appendOut (adj.map (·.map DirBond.erase)) b.erase
      = (Mol.appendOut adj b).map (·.map (·.map DirBond.erase)) := by
  unfold Mol.appendOut
  simp only [DirBond.erase_src, List.getElem?_map]
  cases adj[b.src]? with
  | none => rfl
  | some out => simp [List.map_set]

theorem addBond_erase (m : Mol) (src dst order : Nat) (stereo : Option Char)
    (attr : Option (List Attribution)) :
    m.eraseAttr.addBond src dst order stereo none
      = (m.addBond src dst order stereo attr).map Mol.eraseAttr := by
  unfold Mol.addBond
  cases pyAssert (decide (src < dst)) with
  | error e => rfl
  | ok _ =>
    simp only [bind, Except.bind]
    have h := appendOut_erase m.adj { src, dst, order, stereo, ring := false, attr }
    simp only [DirBond.erase] at h
    simp only [Mol.eraseAttr_adj, Mol.eraseAttr_counts]
    rw [h]
    cases Mol.appendOut m.adj { src, dst, order, stereo, ring := false, attr } with
    | error e => rfl
    | ok adj =>
      simp only [C18.Except.map_ok']
      cases Mol.addCount m.counts src order with
      | error e => rfl
      | ok c =>
        simp only []
        cases Mol.addCount c dst order with
        | error e => rfl
        | ok c2 => rfl

/-! ### the derive phase -/

theorem finish_erase (compat : Bool) (md : Option Nat) (s : Stream) (mol : Mol)
    (rings : List RingReq) (n : Nat) :
    (do
      let __x ← consumeRest compat (s.toks.length + 2) s md n
      match __x with
        | (s', n) => (pure (({ stream := s', mol := mol.eraseAttr, rings := rings } : DState), n) : Py (DState × Nat)))
    = Except.map eraseRes (do
      let __x ← consumeRest compat (s.toks.length + 2) s md n
      match __x with
        | (s', n) => pure ({ stream := s', mol := mol, rings := rings }, n)) := by
  cases consumeRest compat (s.toks.length + 2) s md n with
  | error e => rfl
  | ok v => rfl

/-- Running the derivation without attribution on the erased graph is the erasure of running it
    with any attribution stack and offset: same streams, ring queue, `n`, same exceptions. -/
theorem deriveLoop_erase (T : Table) (compat : Bool) (fuel : Nat) : ∀ (depth : Nat) (st : DState)
    (md : Option Nat) (nd state : Nat) (prev : Option Nat) (as : Option (List Attribution))
    (ai ai' : Nat),
    deriveLoop T compat fuel depth st.erase md nd state prev none ai'
      = (deriveLoop T compat fuel depth st md nd state prev as ai).map eraseRes := by
  induction fuel with
  | zero => intros; rfl
  | succ fuel ih =>
    intro depth st md nd state prev as ai ai'
    have ih' : ∀ (depth : Nat) (s : Stream) (mol : Mol) (rings : List RingReq) (md : Option Nat)
        (nd state : Nat) (prev : Option Nat) (as : Option (List Attribution)) (ai ai' : Nat),
        deriveLoop T compat fuel depth { stream := s, mol := mol.eraseAttr, rings := rings } md nd state prev none ai'
          = (deriveLoop T compat fuel depth { stream := s, mol := mol, rings := rings } md nd state prev as ai).map eraseRes :=
      fun depth s mol rings => ih depth { stream := s, mol := mol, rings := rings }
    obtain ⟨strm, mol, rings⟩ := st
    rw [deriveLoop, deriveLoop]
    simp only [DState.erase]
    cases hub : underBudget md nd with
    | false =>
      simp only [Bool.not_false, if_true]
      exact finish_erase compat md strm mol rings nd
    | true =>
      simp only [Bool.not_true, Bool.false_eq_true, if_false]
      cases hnx : strm.next compat with
      | error e => rfl
      | ok a =>
      simp only [bind, Except.bind]
      cases a with
      | none => exact finish_erase compat md strm mol rings nd
      | some p =>
        obtain ⟨⟨index, symbol⟩, stream'⟩ := p
        simp only []
        by_cases hch : (sliceFromEnd symbol 4 2 == ['c', 'h']) = true
        · simp only [hch, if_true]
          cases hb : processBranchSymbol symbol with
          | none => rfl
          | some bn =>
            obtain ⟨btype, n⟩ := bn
            simp only []
            by_cases hs1 : state ≤ 1
            · simp only [hs1, if_true]
              exact ih' _ _ _ _ _ _ _ _ _ _ _
            · simp only [hs1, if_false]
              cases hnb : nextBranchState btype state with
              | error e => rfl
              | ok bs =>
                simp only []
                cases hr : readIndex compat n stream' [] 0 with
                | error e => rfl
                | ok v =>
                  simp only []
                  by_cases hd : depth + 1 ≥ recursionBudget
                  · simp only [hd, if_true]; rfl
                  · simp only [hd, if_false]
                    simp only [attrPush, Option.map_none]
                    rw [ih' _ _ _ _ _ _ _ _ (attrPush as (index + ai) symbol) ai ai']
                    simp only [attrPush]
                    cases hrec : deriveLoop T compat fuel (depth + 1) { stream := v.2.snd, mol := mol, rings := rings }
                        (some (v.fst + 1)) 0 bs.fst prev (Option.map (· ++ [{ index := index + ai, token := symbol }]) as) ai with
                    | error e => rfl
                    | ok v1 =>
                      simp only [C18.Except.map_ok']
                      exact ih _ _ _ _ _ _ _ _ _
        · simp only [hch, if_false, Bool.false_eq_true]
          by_cases hng : (sliceFromEnd symbol 4 2 == ['n', 'g']) = true
          · simp only [hng, if_true]
            cases hb : processRingSymbol symbol with
            | none => rfl
            | some rn =>
              obtain ⟨rtype, n, stereo⟩ := rn
              simp only []
              by_cases hs0 : (state == 0) = true
              · simp only [hs0, if_true]
                exact ih' _ _ _ _ _ _ _ _ _ _ _
              · simp only [hs0, if_false, Bool.false_eq_true]
                cases hnr : nextRingState rtype state with
                | error e => rfl
                | ok bs =>
                  simp only []
                  cases hr : readIndex compat n stream' [] 0 with
                  | error e => rfl
                  | ok v =>
                    simp only []
                    cases prev with
                    | none => rfl
                    | some p =>
                      simp only [Mol.eraseAttr_atoms]
                      cases hg : getIdx mol.atoms (p - (v.fst + 1)) with
                      | error e => rfl
                      | ok _ =>
                        simp only []
                        cases hns : bs.snd with
                        | none => exact finish_erase compat md _ _ _ _
                        | some s2 => exact ih' _ _ _ _ _ _ _ _ _ _ _
          · simp only [hng, if_false, Bool.false_eq_true]
            by_cases heps : containsSub symbol ['e', 'p', 's'] = true
            · simp only [heps, if_true]
              by_cases hs0 : (state == 0) = true
              · simp only [hs0, if_true]
                exact ih' _ _ _ _ _ _ _ _ _ _ _
              · simp only [hs0, if_false, Bool.false_eq_true]
                exact finish_erase compat md _ _ _ _
            · simp only [heps, if_false, Bool.false_eq_true]
              cases hpa : processAtomSymbol T symbol with
              | none => rfl
              | some ba =>
                obtain ⟨⟨bondOrder, stereo⟩, atom⟩ := ba
                simp only []
                generalize nextAtomState bondOrder (Atom.bondingCapacity T atom).toNat state = nas
                obtain ⟨bo, nextState⟩ := nas
                simp only [attrPush, Option.map_none]
                by_cases hbo : (bo == 0) = true
                · simp only [hbo, if_true]
                  by_cases hs0 : (state == 0) = true
                  · simp only [hs0, if_true]
                    rw [addAtom_erase mol atom true (Option.map (· ++ [{ index := index + ai, token := symbol }]) as)]
                    cases nextState with
                    | none => exact finish_erase compat md _ _ _ _
                    | some s2 => exact ih' _ _ _ _ _ _ _ _ _ _ _
                  · simp only [hs0, if_false, Bool.false_eq_true]
                    cases nextState with
                    | none => exact finish_erase compat md _ _ _ _
                    | some s2 => exact ih' _ _ _ _ _ _ _ _ _ _ _
                · simp only [hbo, if_false, Bool.false_eq_true]
                  cases prev with
                  | none => rfl
                  | some p =>
                    simp only []
                    rw [addAtom_erase mol atom false (Option.map (· ++ [{ index := index + ai, token := symbol }]) as)]
                    simp only []
                    generalize (mol.addAtom atom false (Option.map (· ++ [{ index := index + ai, token := symbol }]) as)) = ma
                    rw [addBond_erase ma.fst p ma.snd bo stereo (Option.map (· ++ [{ index := index + ai, token := symbol }]) as)]
                    cases hab : ma.fst.addBond p ma.snd bo stereo (Option.map (· ++ [{ index := index + ai, token := symbol }]) as) with
                    | error e => rfl
                    | ok mol1 =>
                      simp only [C18.Except.map_ok']
                      cases nextState with
                      | none => exact finish_erase compat md _ _ _ _
                      | some s2 => exact ih' _ _ _ _ _ _ _ _ _ _ _

theorem deriveFragments_erase (T : Table) (compat : Bool) (frags : List Str) :
    ∀ (m : Mol) (rings : List RingReq) (ai ai' : Nat),
    deriveFragments T compat false frags m.eraseAttr rings ai'
      = (deriveFragments T compat true frags m rings ai).map fun r => (r.1.eraseAttr, r.2) := by
  induction frags with
  | nil => intros; rfl
  | cons f rest ih =>
    intro m rings ai ai'
    simp only [deriveFragments]
    have := deriveLoop_erase T compat ((tokenizeFragment f).toks.length + 1) 0
      { stream := tokenizeFragment f, mol := m, rings := rings } none 0 0 none (some []) ai ai'
    simp only [DState.erase] at this
    simp only [if_true, Bool.false_eq_true, if_false]
    rw [this]
    cases deriveLoop T compat ((tokenizeFragment f).toks.length + 1) 0
      { stream := tokenizeFragment f, mol := m, rings := rings } none 0 0 none (some []) ai with
    | error e => rfl
    | ok r => exact ih _ _ _ _

/-! ### the ring phase -/

theorem hasBond_erase (m : Mol) (a b : Nat) : m.eraseAttr.hasBond a b = m.hasBond a b := by
  unfold Mol.hasBond
  simp only [Mol.eraseAttr_adj, List.getElem?_map]
  cases m.adj[min a b]? with
  | none => rfl
  | some out => simp [List.any_map, Function.comp_def]

theorem find_erase (out : List DirBond) (dst : Nat) :
    (out.map DirBond.erase).find? (·.dst == dst) = (out.find? (·.dst == dst)).map DirBond.erase := by
  induction out with
  | nil => rfl
  | cons b rest ih =>
    simp only [List.map_cons, List.find?_cons, DirBond.erase_dst]
    cases b.dst == dst with
    | true => rfl
    | false => exact ih

theorem getDirBond_erase (m : Mol) (src dst : Nat) :
    m.eraseAttr.getDirBond src dst = (m.getDirBond src dst).map DirBond.erase := by
  unfold Mol.getDirBond
  simp only [Mol.eraseAttr_adj, List.getElem?_map]
  cases m.adj[src]? with
  | none => rfl
  | some out =>
    simp only [Option.map_some, find_erase]
    cases out.find? (·.dst == dst) with
    | none => rfl
    | some b => rfl

theorem setOrderAt_erase (adj : List (List DirBond)) (src dst o : Nat) :
    Mol.setOrderAt (adj.map (·.map DirBond.erase)) src dst o
      = (Mol.setOrderAt adj src dst o).map (·.map DirBond.erase) := by
  unfold Mol.setOrderAt
  simp only [List.getElem?_map]
  cases adj[src]? with
  | none => rfl
  | some out =>
    simp only [Option.map_some, List.map_set, List.map_map]
    congr 1
    apply List.map_congr_left
    intro b _
    simp only [Function.comp, DirBond.erase_dst]
    by_cases h : (b.dst == dst) = true
    · simp only [h, if_true]; rfl
    · simp only [h, Bool.false_eq_true, if_false]

theorem updateBondOrder_erase (m : Mol) (a b n : Nat) :
    m.eraseAttr.updateBondOrder a b n = (m.updateBondOrder a b n).map Mol.eraseAttr := by
  unfold Mol.updateBondOrder
  cases pyAssert (decide (1 ≤ n) && decide (n ≤ 3)) with
  | error e => rfl
  | ok _ =>
    simp only [bind, Except.bind]
    rw [getDirBond_erase]
    cases hab : m.getDirBond (min a b) (max a b) with
    | error e => rfl
    | ok ab =>
      simp only [C18.Except.map_ok', DirBond.erase_order, DirBond.erase_ring]
      by_cases hn : (n == ab.order) = true
      · simp only [hn, if_true]; rfl
      · simp only [hn, if_false, Bool.false_eq_true]
        simp only [Mol.eraseAttr_adj, Mol.eraseAttr_counts, setOrderAt_erase]
        cases ab.ring with
        | false =>
          simp only [Bool.false_eq_true, if_false, pure, Except.pure]
          cases getIdx m.counts (min a b) with
          | error e => rfl
          | ok cl =>
            simp only []
            cases getIdx (m.counts.set (min a b) (cl + n - ab.order)) (max a b) with
            | error e => rfl
            | ok ch => rfl
        | true =>
          simp only [if_true]
          rw [getDirBond_erase]
          cases m.getDirBond (max a b) (min a b) with
          | error e => rfl
          | ok _ =>
            simp only [C18.Except.map_ok', pure, Except.pure]
            cases getIdx m.counts (min a b) with
            | error e => rfl
            | ok cl =>
              simp only []
              cases getIdx (m.counts.set (min a b) (cl + n - ab.order)) (max a b) with
              | error e => rfl
              | ok ch => rfl

theorem insertAt_map {α β} (f : α → β) : ∀ (l : List α) (i : Nat) (v : α),
    insertAt (l.map f) i (f v) = (insertAt l i v).map f
  | l, 0, v => by simp [insertAt]
  | [], _ + 1, v => by simp [insertAt]
  | x :: l, i + 1, v => by simp [insertAt, insertAt_map f l i v]

theorem addBondAtLoc_erase (adj : List (List DirBond)) (b : DirBond) (pos : Nat) :
    Mol.addBondAtLoc (adj.map (·.map DirBond.erase)) b.erase pos
      = (Mol.addBondAtLoc adj b pos).map (·.map (·.map DirBond.erase)) := by
  unfold Mol.addBondAtLoc
  simp only [DirBond.erase_src, List.getElem?_map]
  cases adj[b.src]? with
  | none => rfl
  | some out =>
    simp only [Option.map_some, List.length_map]
    split
    · simp [List.map_set]
    · split
      · simp [List.map_set, insertAt_map]
      · rfl

theorem addRingBond_erase (m : Mol) (a b order : Nat) (ast bst : Option Char) (ap bp : Nat) :
    m.eraseAttr.addRingBond a b order ast bst ap bp
      = (m.addRingBond a b order ast bst ap bp).map Mol.eraseAttr := by
  unfold Mol.addRingBond
  simp only [Mol.eraseAttr_adj, Mol.eraseAttr_counts, bind, Except.bind]
  have h1 := addBondAtLoc_erase m.adj { src := a, dst := b, order, stereo := ast, ring := true } ap
  simp only [DirBond.erase] at h1
  rw [h1]
  cases Mol.addBondAtLoc m.adj { src := a, dst := b, order, stereo := ast, ring := true } ap with
  | error e => rfl
  | ok adj1 =>
    simp only [C18.Except.map_ok']
    have h2 := addBondAtLoc_erase adj1 { src := b, dst := a, order, stereo := bst, ring := true } bp
    simp only [DirBond.erase] at h2
    rw [h2]
    cases Mol.addBondAtLoc adj1 { src := b, dst := a, order, stereo := bst, ring := true } bp with
    | error e => rfl
    | ok adj2 =>
      simp only [C18.Except.map_ok']
      cases Mol.addCount m.counts a order with
      | error e => rfl
      | ok c =>
        simp only []
        cases Mol.addCount c b order with
        | error e => rfl
        | ok c2 => rfl

theorem formRings_erase (T : Table) : ∀ (rings : List RingReq) (m : Mol) (rm : List Nat),
    formRings T rings m.eraseAttr rm = (formRings T rings m rm).map Mol.eraseAttr := by
  intro rings
  induction rings with
  | nil => intros; rfl
  | cons req rest ih =>
    intro m rm
    obtain ⟨lidx, ridx, order, lst, rst⟩ := req
    rw [formRings, formRings]
    split
    · exact ih _ _
    · simp only [Mol.eraseAttr_atoms, Mol.eraseAttr_counts, bind, Except.bind]
      cases getIdx m.atoms lidx with
      | error e => rfl
      | ok latom =>
      simp only []
      cases getIdx m.atoms ridx with
      | error e => rfl
      | ok ratom =>
      simp only []
      cases getIdx m.counts lidx with
      | error e => rfl
      | ok lcount =>
      simp only []
      cases getIdx m.counts ridx with
      | error e => rfl
      | ok rcount =>
      simp only []
      split
      · exact ih _ _
      · rw [hasBond_erase]
        split
        · rw [getDirBond_erase]
          cases m.getDirBond lidx ridx with
          | error e => rfl
          | ok bond =>
            simp only [C18.Except.map_ok', DirBond.erase_order]
            rw [updateBondOrder_erase]
            cases m.updateBondOrder lidx ridx _ with
            | error e => rfl
            | ok m1 => exact ih _ _
        · cases getIdx rm lidx with
          | error e => rfl
          | ok lp =>
          simp only []
          cases getIdx rm ridx with
          | error e => rfl
          | ok rp =>
          simp only []
          rw [addRingBond_erase]
          cases m.addRingBond lidx ridx _ lst rst lp rp with
          | error e => rfl
          | ok m1 =>
            simp only [C18.Except.map_ok']
            cases getIdx (rm.set lidx (lp + 1)) ridx with
            | error e => rfl
            | ok rp' => exact ih _ _

/-- the graph built with attribution, erased, is the graph built without -/
theorem decodeGraph_erase (T : Table) (s : Str) (compat : Bool) :
    decodeGraph T s compat false = (decodeGraph T s compat true).map Mol.eraseAttr := by
  unfold decodeGraph
  have := deriveFragments_erase T compat (splitOnChar '.' s) {} [] 0 0
  rw [Mol.eraseAttr_empty] at this
  rw [this]
  cases deriveFragments T compat true (splitOnChar '.' s) {} [] 0 with
  | error e => rfl
  | ok r =>
    simp only [C18.Except.map_ok', bind, Except.bind]
    exact formRings_erase T r.2 r.1 (List.replicate r.1.size 0)

/-! ### the SMILES writer -/

/-- what the writer's state contributes to the string -/
def WState.core (w : WState) : List Str × Nat × List ((Nat × Nat) × Nat) :=
  (w.outRev, w.outLen, w.ringLog)

theorem outBonds_erase (m : Mol) (i : Nat) :
    m.eraseAttr.outBonds i = (m.outBonds i).map (·.map DirBond.erase) := by
  unfold Mol.outBonds getIdx
  simp only [Mol.eraseAttr_adj, List.getElem?_map]
  cases m.adj[i]? <;> rfl

theorem getIdx_map {α β} (f : α → β) (l : List α) (i : Nat) :
    getIdx (l.map f) i = (getIdx l i).map f := by
  unfold getIdx
  simp only [List.getElem?_map]
  cases l[i]? <;> rfl

/-- the ring-number part of the writer: look the ring up in the log (or open it), write `%` for
    two-digit numbers and the number -/
def ringPush (w : WState) (ends : Nat × Nat) : WState :=
  let rl : Nat × List ((Nat × Nat) × Nat) :=
    match lookup ends w.ringLog with
    | some r => (r, w.ringLog)
    | none => (w.ringLog.length + 1, w.ringLog ++ [(ends, w.ringLog.length + 1)])
  let w := { w with ringLog := rl.2 }
  let w := if rl.1 ≥ 10 then w.push ['%'] else w
  w.push (natToStr rl.1)

theorem core_push (w w' : WState) (x : Str) (h : w'.core = w.core) :
    (w'.push x).core = (w.push x).core := by
  obtain ⟨o, l, r, mp⟩ := w
  obtain ⟨o', l', r', mp'⟩ := w'
  simp only [WState.core, Prod.mk.injEq] at h
  obtain ⟨rfl, rfl, rfl⟩ := h
  rfl

theorem core_pushMap (w : WState) (tok : Str) (a : Option (List Attribution)) (i : Nat) :
    (w.pushMap tok a i).core = w.core := rfl

theorem core_ite_push (c : Prop) [Decidable c] (w w' : WState) (x : Str) (h : w'.core = w.core) :
    (if c then w'.push x else w').core = (if c then w.push x else w).core := by
  split
  · exact core_push _ _ _ h
  · exact h

theorem core_ringPush (w w' : WState) (ends : Nat × Nat) (h : w'.core = w.core) :
    (ringPush w' ends).core = (ringPush w ends).core := by
  obtain ⟨o, l, r, mp⟩ := w
  obtain ⟨o', l', r', mp'⟩ := w'
  simp only [WState.core, Prod.mk.injEq] at h
  obtain ⟨rfl, rfl, rfl⟩ := h
  simp only [ringPush]
  split <;> (apply core_push; apply core_ite_push; rfl)

/-- the atom-token part of one writer iteration -/
def wstepAtom (m : Mol) (ai : Nat) (top : WFrame) (w : WState) : Py WState := do
  let currAtom ← getIdx m.atoms top.curr
  if top.bondIndex == 0 then do
    let tok ← atomToSmiles currAtom
    let w := w.push tok
    pure (w.pushMap tok ((m.atomAttr[top.curr]?).getD none) ai)
  else pure w

/-- the bond part of one writer iteration -/
def wstepTail (m : Mol) (ai : Nat) (top : WFrame) (stack : List WFrame) (w : WState) :
    Py (List WFrame × WState) := do
  let out ← m.outBonds top.curr
  if top.bondIndex < top.totalBonds then do
    let bond ← getIdx out top.bondIndex
    let top' := { top with bondIndex := top.bondIndex + 1 }
    if bond.ring then do
      let tok ← bondToSmiles bond.order bond.stereo
      let w := w.push tok
      let w := w.pushMap tok bond.attr ai
      pure (top' :: stack, ringPush w (min bond.src bond.dst, max bond.src bond.dst))
    else do
      let notLast := top.bondIndex + 1 < top.totalBonds
      let w := if notLast then w.push ['('] else w
      let tok ← bondToSmiles bond.order bond.stereo
      let w := w.push tok
      let w := w.pushMap tok bond.attr ai
      let dstOut ← m.outBonds bond.dst
      pure ({ curr := bond.dst, bondIndex := 0, totalBonds := dstOut.length, needsClosing := notLast }
          :: top' :: stack, w)
  else
    let w := if top.needsClosing then w.push [')'] else w
    pure (stack, w)

/-- one iteration of the writer's `while stack:` loop: the new stack and state -/
def wstep (m : Mol) (ai : Nat) (top : WFrame) (stack : List WFrame) (w : WState) :
    Py (List WFrame × WState) := do
  let w ← wstepAtom m ai top w
  wstepTail m ai top stack w

set_option hygiene false in
local macro "wl_tail" : tactic => `(tactic| (
  cases m.outBonds top.curr with
  | error e => rfl
  | ok out =>
    simp only []
    split
    · cases getIdx out top.bondIndex with
      | error e => rfl
      | ok bond =>
        simp only []
        cases bond.ring with
        | true =>
          simp only [if_true]
          cases bondToSmiles bond.order bond.stereo with
          | error e => rfl
          | ok tok2 => rfl
        | false =>
          simp only [Bool.false_eq_true, if_false]
          cases bondToSmiles bond.order bond.stereo with
          | error e => rfl
          | ok tok2 =>
            simp only []
            cases m.outBonds bond.dst with
            | error e => rfl
            | ok dstOut => rfl
    · rfl))

theorem writeLoop_succ (m : Mol) (ai fuel : Nat) (top : WFrame) (stack : List WFrame) (w : WState) :
    writeLoop m ai (fuel + 1) (top :: stack) w
      = (wstep m ai top stack w >>= fun r => writeLoop m ai fuel r.1 r.2) := by
  rw [writeLoop, wstep, wstepAtom]
  simp only [bind, Except.bind]
  cases getIdx m.atoms top.curr with
  | error e => rfl
  | ok currAtom =>
  simp only []
  by_cases hb0 : (top.bondIndex == 0) = true
  · simp only [hb0, if_true]
    cases atomToSmiles currAtom with
    | error e => rfl
    | ok tok =>
      simp only [pure, Except.pure, wstepTail, bind, Except.bind]
      wl_tail
  · simp only [hb0, Bool.false_eq_true, if_false, pure, Except.pure, wstepTail, bind, Except.bind]
    wl_tail

abbrev coreRes : List WFrame × WState → List WFrame × (List Str × Nat × List ((Nat × Nat) × Nat)) :=
  fun r => (r.1, r.2.core)

theorem wstepAtom_erase (m : Mol) (ai ai' : Nat) (top : WFrame) (w w' : WState)
    (h : w'.core = w.core) :
    (wstepAtom m.eraseAttr ai' top w').map WState.core = (wstepAtom m ai top w).map WState.core := by
  rw [wstepAtom, wstepAtom]
  simp only [Mol.eraseAttr_atoms, bind, Except.bind]
  cases getIdx m.atoms top.curr with
  | error e => rfl
  | ok currAtom =>
  simp only []
  by_cases hb0 : (top.bondIndex == 0) = true
  · simp only [hb0, if_true]
    cases atomToSmiles currAtom with
    | error e => rfl
    | ok tok =>
      simp only [pure, Except.pure, C18.Except.map_ok', core_pushMap]
      rw [core_push _ _ _ h]
  · simp only [hb0, Bool.false_eq_true, if_false, pure, Except.pure, C18.Except.map_ok']
    rw [h]

theorem wstepTail_erase (m : Mol) (ai ai' : Nat) (top : WFrame) (stack : List WFrame) (w1 w1' : WState)
    (h1 : w1'.core = w1.core) :
    (wstepTail m.eraseAttr ai' top stack w1').map coreRes = (wstepTail m ai top stack w1).map coreRes := by
  rw [wstepTail, wstepTail]
  simp only [bind, Except.bind]
  rw [outBonds_erase]
  cases m.outBonds top.curr with
  | error e => rfl
  | ok out =>
    simp only [C18.Except.map_ok']
    split
    · rw [getIdx_map]
      cases getIdx out top.bondIndex with
      | error e => rfl
      | ok bond =>
        simp only [C18.Except.map_ok', DirBond.erase_ring, DirBond.erase_order,
          DirBond.erase_stereo, DirBond.erase_src, DirBond.erase_dst]
        by_cases hr : bond.ring = true
        · simp only [hr, if_true]
          cases bondToSmiles bond.order bond.stereo with
          | error e => rfl
          | ok tok2 =>
            simp only [C18.Except.map_ok', coreRes, pure, Except.pure]
            rw [core_ringPush ((w1.push tok2).pushMap tok2 bond.attr ai)
              ((w1'.push tok2).pushMap tok2 bond.erase.attr ai') _ (core_push _ _ _ h1)]
        · simp only [hr, Bool.false_eq_true, if_false]
          cases bondToSmiles bond.order bond.stereo with
          | error e => rfl
          | ok tok2 =>
            simp only []
            rw [outBonds_erase]
            cases m.outBonds bond.dst with
            | error e => rfl
            | ok dstOut =>
              simp only [C18.Except.map_ok', coreRes, List.length_map, pure, Except.pure]
              rw [core_pushMap, core_pushMap,
                core_push _ _ tok2 (core_ite_push (top.bondIndex + 1 < top.totalBonds) w1 w1' ['('] h1)]
    · simp only [C18.Except.map_ok', coreRes, pure, Except.pure]
      rw [core_ite_push (top.needsClosing = true) w1 w1' [')'] h1]

theorem wstep_erase (m : Mol) (ai ai' : Nat) (top : WFrame) (stack : List WFrame) (w w' : WState)
    (h : w'.core = w.core) :
    (wstep m.eraseAttr ai' top stack w').map coreRes = (wstep m ai top stack w).map coreRes := by
  rw [wstep, wstep]
  have ha := wstepAtom_erase m ai ai' top w w' h
  cases h1 : wstepAtom m ai top w with
  | error e =>
    rw [h1] at ha
    cases h2 : wstepAtom m.eraseAttr ai' top w' with
    | error e' => rw [h2] at ha; cases ha; rfl
    | ok r' => rw [h2] at ha; cases ha
  | ok r =>
    rw [h1] at ha
    cases h2 : wstepAtom m.eraseAttr ai' top w' with
    | error e' => rw [h2] at ha; cases ha
    | ok r' =>
      rw [h2] at ha
      simp only [C18.Except.map_ok', Except.ok.injEq] at ha
      exact wstepTail_erase m ai ai' top stack r r' ha

theorem writeLoop_erase (m : Mol) (ai ai' : Nat) : ∀ (fuel : Nat) (stack : List WFrame)
    (w w' : WState), w'.core = w.core →
    (writeLoop m.eraseAttr ai' fuel stack w').map WState.core
      = (writeLoop m ai fuel stack w).map WState.core := by
  intro fuel
  induction fuel with
  | zero =>
    intro stack w w' h
    cases stack with
    | nil => simpa [writeLoop] using h
    | cons _ _ => rfl
  | succ fuel ih =>
    intro stack w w' h
    cases stack with
    | nil => simpa [writeLoop] using h
    | cons top stack =>
      rw [writeLoop_succ, writeLoop_succ]
      have hs := wstep_erase m ai ai' top stack w w' h
      cases h1 : wstep m ai top stack w with
      | error e =>
        rw [h1] at hs
        cases h2 : wstep m.eraseAttr ai' top stack w' with
        | error e' => rw [h2] at hs; cases hs; rfl
        | ok r' => rw [h2] at hs; cases hs
      | ok r =>
        rw [h1] at hs
        cases h2 : wstep m.eraseAttr ai' top stack w' with
        | error e' => rw [h2] at hs; cases hs
        | ok r' =>
          rw [h2] at hs
          simp only [C18.Except.map_ok', coreRes, Except.ok.injEq, Prod.mk.injEq] at hs
          simp only [bind, Except.bind]
          rw [hs.1]
          exact ih _ _ _ hs.2

theorem writeFuel_erase (m : Mol) : m.eraseAttr.writeFuel = m.writeFuel := by
  simp [Mol.writeFuel, Mol.totalOut, Mol.size, Function.comp_def]

theorem frags_erase (m : Mol) : ∀ (roots : List Nat) (ai ai' : Nat) (log : List ((Nat × Nat) × Nat))
    (acc : List Str) (maps maps' : List AttributionMap),
    (molToSmiles.frags m.eraseAttr roots ai' log acc maps').map (·.1)
      = (molToSmiles.frags m roots ai log acc maps).map (·.1) := by
  intro roots
  induction roots with
  | nil => intros; rfl
  | cons root rest ih =>
    intro ai ai' log acc maps maps'
    rw [molToSmiles.frags, molToSmiles.frags]
    simp only [bind, Except.bind]
    rw [outBonds_erase, writeFuel_erase]
    cases m.outBonds root with
    | error e => rfl
    | ok out =>
      simp only [C18.Except.map_ok', List.length_map]
      have hw := writeLoop_erase m ai ai' m.writeFuel
        [{ curr := root, bondIndex := 0, totalBonds := out.length, needsClosing := false }]
        { ringLog := log } { ringLog := log } rfl
      cases h1 : writeLoop m ai m.writeFuel
        [{ curr := root, bondIndex := 0, totalBonds := out.length, needsClosing := false }]
        { ringLog := log } with
      | error e =>
        rw [h1] at hw
        cases h2 : writeLoop m.eraseAttr ai' m.writeFuel
          [{ curr := root, bondIndex := 0, totalBonds := out.length, needsClosing := false }]
          { ringLog := log } with
        | error e' => rw [h2] at hw; cases hw; rfl
        | ok r' => rw [h2] at hw; cases hw
      | ok r =>
        rw [h1] at hw
        cases h2 : writeLoop m.eraseAttr ai' m.writeFuel
          [{ curr := root, bondIndex := 0, totalBonds := out.length, needsClosing := false }]
          { ringLog := log } with
        | error e' => rw [h2] at hw; cases hw
        | ok r' =>
          rw [h2] at hw
          simp only [C18.Except.map_ok', WState.core, Except.ok.injEq, Prod.mk.injEq] at hw
          simp only []
          rw [hw.1, hw.2.1, hw.2.2]
          exact ih _ _ _ _ _ _

/-- the string written does not depend on the attribution fields of the graph -/
theorem molToSmiles_erase (m : Mol) :
    (molToSmiles m.eraseAttr).map (·.1) = (molToSmiles m).map (·.1) := by
  unfold molToSmiles
  simp only [Mol.eraseAttr_roots, bind, Except.bind]
  have h := frags_erase m m.roots 0 0 [] [] [] []
  cases h1 : molToSmiles.frags m m.roots 0 [] [] [] with
  | error e =>
    rw [h1] at h
    cases h2 : molToSmiles.frags m.eraseAttr m.roots 0 [] [] [] with
    | error e' => rw [h2] at h; cases h; rfl
    | ok r' => rw [h2] at h; cases h
  | ok r =>
    rw [h1] at h
    cases h2 : molToSmiles.frags m.eraseAttr m.roots 0 [] [] [] with
    | error e' => rw [h2] at h; cases h
    | ok r' =>
      rw [h2] at h
      simp only [C18.Except.map_ok', Except.ok.injEq] at h
      simp only [pure, Except.pure, C18.Except.map_ok', h]

/-- requesting attribution never changes the decoder's string or exception -/
theorem decoderFull_attr_irrelevant (T : Table) (s : Str) (compat : Bool) :
    (decoderFull T s compat true).map (·.1) = (decoderFull T s compat false).map (·.1) := by
  unfold decoderFull
  rw [decodeGraph_erase]
  cases decodeGraph T s compat true with
  | error e => rfl
  | ok g =>
    simp only [C18.Except.map_ok', bind, Except.bind]
    exact (molToSmiles_erase g).symm

end SV
