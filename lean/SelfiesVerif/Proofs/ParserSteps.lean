/-
  C03p: the SMILES parser (`parseFragmentLoop`, `parseFragment`, `smilesToMol`) as a transition
  system.  One successful iteration of the `while tokens:` loop is one `PStep`; a successful run of
  the loop is a chain of steps (`parseFragmentLoop_steps`), and `smilesToMol_invariant` is the
  induction principle every later invariant proof uses:

    * `G` holds of the empty graph,
    * `G m` gives the loop invariant `I` for the initial state of a fragment started on `m`,
    * `I` is preserved by every `PStep`,
    * at the end of a fragment (`branchDepth = 0`, `ringLog = []`, at least one atom) `I` gives `G`.
-/
import SelfiesVerif.Proofs.Strict

namespace SV

/-- the attribution attached to the atom (and its bond) made from token `tok` -/
def stepAttr (attrib : Bool) (st : ParseSt) (tok : SmilesTok) : Option (List Attribution) :=
  if attrib then
    some [{ index := (if tok.bondChar.isSome then st.i + 1 else st.i), token := tok.text : Attribution }]
  else none

/-- the token counter after an atom token -/
def stepI (st : ParseSt) (tok : SmilesTok) : Nat := (if tok.bondChar.isSome then st.i + 1 else st.i) + 1

/-- the order (half units) of the chain bond written `bc` between `pa` and `curr` -/
def attachOrder (pa curr : Atom) (bc : Option Char) : Nat :=
  if pa.isAromatic && curr.isAromatic && bc.isNone then 3 else (smilesToBond bc).1

/-- the initial state of `_derive_mol_from_tokens` -/
def fragInit (m : PMol) (i : Nat) : ParseSt :=
  { mol := m, prevStack := [none], branchDepth := 0, ringLog := [], chainStart := true, i := i }

/-- one successful iteration of the `while tokens:` loop; `Q` is any property of the atom tokens
    (the tokenizer's guarantee about them) -/
inductive PStep (attrib : Bool) (Q : SmilesTok → Prop) : ParseSt → ParseSt → Prop
  /-- first atom of a fragment -/
  | atomRoot (st : ParseSt) (tok : SmilesTok) (curr : Atom) (tl : List (Option Nat)) :
      st.prevStack = none :: tl → smilesToAtom tok.text = some curr → tok.kind = .atom → Q tok →
      PStep attrib Q st
        { st with mol := (st.mol.addAtom curr true (stepAttr attrib st tok)).1,
                  prevStack := some st.mol.atoms.length :: tl, chainStart := false, i := stepI st tok }
  /-- an atom bonded to the previous atom `p` -/
  | atomAttach (st : ParseSt) (tok : SmilesTok) (curr : Atom) (p : Nat) (tl : List (Option Nat))
      (pa : Atom) (mol' : PMol) :
      st.prevStack = some p :: tl → smilesToAtom tok.text = some curr →
      (st.mol.addAtom curr false (stepAttr attrib st tok)).1.atoms[p]? = some pa →
      (st.mol.addAtom curr false (stepAttr attrib st tok)).1.addBond p st.mol.atoms.length
        (attachOrder pa curr tok.bondChar) (smilesToBond tok.bondChar).2 (stepAttr attrib st tok) = .ok mol' →
      tok.kind = .atom → Q tok →
      PStep attrib Q st
        { st with mol := mol', prevStack := some st.mol.atoms.length :: tl, chainStart := false,
                  i := stepI st tok }
  | openBranch (st : ParseSt) (prev : Option Nat) (tl : List (Option Nat)) :
      st.chainStart = false → st.prevStack = prev :: tl →
      PStep attrib Q st
        { st with prevStack := prev :: prev :: tl, branchDepth := st.branchDepth + 1,
                  chainStart := true, i := st.i + 1 }
  | closeBranch (st : ParseSt) (prev : Option Nat) (tl : List (Option Nat)) :
      st.chainStart = false → st.branchDepth ≠ 0 → st.prevStack = prev :: tl →
      PStep attrib Q st
        { st with prevStack := tl, branchDepth := st.branchDepth - 1, i := st.i + 1 }
  | ringOpen (st : ParseSt) (tok : SmilesTok) (p : Nat) (tl : List (Option Nat)) (mol' : PMol)
      (lpos : Nat) :
      st.chainStart = false → st.prevStack = some p :: tl →
      st.ringLog.find? (·.label == tok.text) = none → st.mol.addPlaceholder p = .ok (mol', lpos) →
      PStep attrib Q st
        { st with mol := mol', i := st.i + 1,
                  ringLog := st.ringLog ++
                    [{ label := tok.text, bondChar := tok.bondChar, atom := p, pos := lpos }] }
  | ringClose (st : ParseSt) (tok : SmilesTok) (p : Nat) (tl : List (Option Nat)) (ro : RingOpen)
      (mol' : PMol) :
      st.chainStart = false → st.prevStack = some p :: tl →
      st.ringLog.find? (·.label == tok.text) = some ro →
      makeRingBonds st.mol ro.bondChar ro.atom ro.pos tok.bondChar p = .ok mol' →
      PStep attrib Q st
        { st with mol := mol', i := st.i + 1, ringLog := st.ringLog.filter (·.label != tok.text) }

/-- a chain of steps -/
inductive PSteps (attrib : Bool) (Q : SmilesTok → Prop) : ParseSt → ParseSt → Prop
  | refl (st : ParseSt) : PSteps attrib Q st st
  | head {st st1 st2 : ParseSt} : PStep attrib Q st st1 → PSteps attrib Q st1 st2 → PSteps attrib Q st st2

theorem PSteps.preserve {attrib : Bool} {Q : SmilesTok → Prop} {I : ParseSt → Prop}
    (hstep : ∀ st st', I st → PStep attrib Q st st' → I st') {st st' : ParseSt}
    (h : PSteps attrib Q st st') (hI : I st) : I st' := by
  induction h with
  | refl => exact hI
  | head h1 _ ih => exact ih (hstep _ _ hI h1)

/-- a successful run of the loop is a chain of steps; the remaining tokens are among the given ones -/
theorem parseFragmentLoop_steps (attrib : Bool) (Q : SmilesTok → Prop) :
    ∀ (toks : List SmilesTok) (st st' : ParseSt) (rest' : List SmilesTok), (∀ t ∈ toks, Q t) →
      parseFragmentLoop attrib toks st = .ok (st', rest') →
      PSteps attrib Q st st' ∧ ∀ t ∈ rest', t ∈ toks := by
  intro toks
  induction toks with
  | nil =>
    intro st st' rest' _ h
    simp only [parseFragmentLoop, Except.ok.injEq, Prod.mk.injEq] at h
    rw [← h.1, ← h.2]; exact ⟨.refl _, fun t ht => ht⟩
  | cons tok rest ih =>
    intro st st' rest' hQ h
    have hQr : ∀ t ∈ rest, Q t := fun t ht => hQ t (List.mem_cons_of_mem _ ht)
    have hQt : Q tok := hQ tok (by simp)
    have ih' : ∀ st1, parseFragmentLoop attrib rest st1 = .ok (st', rest') →
        PSteps attrib Q st1 st' ∧ ∀ t ∈ rest', t ∈ tok :: rest := by
      intro st1 h1
      obtain ⟨a, b⟩ := ih st1 st' rest' hQr h1
      exact ⟨a, fun t ht => List.mem_cons_of_mem _ (b t ht)⟩
    rw [parseFragmentLoop] at h
    split at h
    rotate_left
    · obtain ⟨_, hp, _⟩ := bind_ok h; cases hp
    rename_i prev tl hstack
    obtain ⟨prev', hprev, h⟩ := bind_ok h
    simp only [pure, Except.pure, Except.ok.injEq] at hprev
    subst hprev
    dsimp only at h
    split at h
    · -- dot
      simp only [pure, Except.pure, Except.ok.injEq, Prod.mk.injEq] at h
      rw [← h.1, ← h.2]; exact ⟨.refl _, fun t ht => List.mem_cons_of_mem _ ht⟩
    · -- atom
      rename_i hkind
      split at h
      · cases h
      · rename_i curr hcurr
        obtain ⟨mol', hmol, h⟩ := bind_ok h
        obtain ⟨hrec, hsub⟩ := ih' _ h
        refine ⟨?_, hsub⟩
        cases prev with
        | none =>
          simp only [pure, Except.pure, Except.ok.injEq] at hmol
          subst hmol
          refine .head ?_ hrec
          have := PStep.atomRoot (attrib := attrib) (Q := Q) st tok curr tl hstack hcurr hkind hQt
          simpa only [hstack, List.tail_cons, stepAttr, stepI, Option.isNone_none, PMol.addAtom] using this
        | some p =>
          obtain ⟨pa, hpa, hmol⟩ := bind_ok hmol
          refine .head ?_ hrec
          have hpa' : (st.mol.addAtom curr false (stepAttr attrib st tok)).1.atoms[p]? = some pa := by
            unfold getIdx at hpa
            split at hpa
            · rename_i x hx
              simp only [Except.ok.injEq] at hpa
              subst hpa
              exact hx
            · cases hpa
          have := PStep.atomAttach (attrib := attrib) (Q := Q) st tok curr p tl pa mol' hstack hcurr hpa' hmol hkind hQt
          simpa only [hstack, List.tail_cons, stepAttr, stepI, Option.isNone_some, PMol.addAtom] using this
    · -- branch
      split at h
      · cases h
      · rename_i hcs
        have hcs' : st.chainStart = false := by simpa using hcs
        split at h
        · obtain ⟨hrec, hsub⟩ := ih' _ h
          refine ⟨.head ?_ hrec, hsub⟩
          have := PStep.openBranch (attrib := attrib) (Q := Q) st prev tl hcs' hstack
          simpa only [hstack] using this
        · split at h
          · cases h
          · rename_i hbd
            have hbd' : st.branchDepth ≠ 0 := by simpa using hbd
            obtain ⟨hrec, hsub⟩ := ih' _ h
            refine ⟨.head ?_ hrec, hsub⟩
            have := PStep.closeBranch (attrib := attrib) (Q := Q) st prev tl hcs' hbd' hstack
            simpa only [hstack, List.tail_cons] using this
    · -- ring
      split at h
      · cases h
      · rename_i hcs
        have hcs' : st.chainStart = false := by simpa using hcs
        cases prev with
        | none => cases h
        | some p =>
          dsimp only at h
          split at h
          · rename_i hfind
            obtain ⟨⟨mol1, lpos⟩, h1, h⟩ := bind_ok h
            obtain ⟨hrec, hsub⟩ := ih' _ h
            exact ⟨.head (PStep.ringOpen st tok p tl mol1 lpos hcs' hstack hfind h1) hrec, hsub⟩
          · rename_i ro hfind
            obtain ⟨mol1, h1, h⟩ := bind_ok h
            obtain ⟨hrec, hsub⟩ := ih' _ h
            exact ⟨.head (PStep.ringClose st tok p tl ro mol1 hcs' hstack hfind h1) hrec, hsub⟩

/-- induction principle for `parseFragment` -/
theorem parseFragment_invariant {attrib : Bool} {Q : SmilesTok → Prop} {I : ParseSt → Prop}
    (hstep : ∀ st st', I st → PStep attrib Q st st' → I st')
    {toks rest : List SmilesTok} {m m' : PMol} {i i' : Nat} (hQ : ∀ t ∈ toks, Q t)
    (h : parseFragment attrib toks m i = .ok (m', i', rest)) (hI : I (fragInit m i)) :
    (∃ st, I st ∧ st.mol = m' ∧ st.branchDepth = 0 ∧ st.ringLog = [] ∧ st.mol.size ≠ 0) ∧
      ∀ t ∈ rest, t ∈ toks := by
  unfold parseFragment at h
  obtain ⟨⟨st, r⟩, h1, h⟩ := bind_ok h
  obtain ⟨hsteps, hsub⟩ := parseFragmentLoop_steps attrib Q _ _ _ _ hQ h1
  have hst := hsteps.preserve hstep hI
  simp only at h
  split at h
  · cases h
  · rename_i hsz
    split at h
    · cases h
    · rename_i hbd
      split at h
      · cases h
      · rename_i hrl
        simp only [pure, Except.pure, Except.ok.injEq, Prod.mk.injEq] at h
        refine ⟨⟨st, hst, h.1, by simpa using hbd, by simpa using hrl, by simpa using hsz⟩, ?_⟩
        rw [← h.2.2]; exact hsub

theorem smilesToMol_go_invariant {attrib : Bool} {Q : SmilesTok → Prop} {G : PMol → Prop}
    {I : ParseSt → Prop}
    (hinit : ∀ m i, G m → I (fragInit m i))
    (hstep : ∀ st st', I st → PStep attrib Q st st' → I st')
    (hfin : ∀ st, I st → st.branchDepth = 0 → st.ringLog = [] → st.mol.size ≠ 0 → G st.mol) :
    ∀ (fuel : Nat) (toks : List SmilesTok) (m m' : PMol) (i : Nat), (∀ t ∈ toks, Q t) →
      smilesToMol.go attrib fuel toks m i = .ok m' → G m → G m' := by
  intro fuel
  induction fuel with
  | zero =>
    intro toks m m' i _ h hG
    cases toks with
    | nil => simp only [smilesToMol.go, Except.ok.injEq] at h; rw [← h]; exact hG
    | cons t ts => simp [smilesToMol.go] at h
  | succ fuel ih =>
    intro toks m m' i hQ h hG
    cases toks with
    | nil => simp only [smilesToMol.go, Except.ok.injEq] at h; rw [← h]; exact hG
    | cons t ts =>
      rw [smilesToMol.go] at h
      obtain ⟨⟨m1, i1, rest⟩, h1, h⟩ := bind_ok h
      obtain ⟨⟨st, hst, hm, hbd, hrl, hsz⟩, hsub⟩ := parseFragment_invariant hstep hQ h1 (hinit m i hG)
      exact ih _ _ _ _ (fun t ht => hQ t (hsub t ht)) h (hm ▸ hfin st hst hbd hrl hsz)

/-- **induction principle for `smiles_to_mol`**; `Q` is any property of all tokens of the string -/
theorem smilesToMol_invariant {attrib : Bool} {Q : SmilesTok → Prop} {G : PMol → Prop}
    {I : ParseSt → Prop} (h0 : G {})
    (hinit : ∀ m i, G m → I (fragInit m i))
    (hstep : ∀ st st', I st → PStep attrib Q st st' → I st')
    (hfin : ∀ st, I st → st.branchDepth = 0 → st.ringLog = [] → st.mol.size ≠ 0 → G st.mol)
    {s : Str} {g : PMol}
    (hQ : ∀ toks, tokenizeSmiles (s.length + 1) s = some toks → ∀ t ∈ toks, Q t)
    (h : smilesToMol s attrib = .ok g) : G g := by
  unfold smilesToMol at h
  split at h
  · cases h
  · split at h
    · cases h
    · rename_i toks htoks
      exact smilesToMol_go_invariant hinit hstep hfin _ _ _ _ _ (hQ toks htoks) h h0

end SV
