/-
  The running ring-label assignment (`ringStep`, `ringOcc`, `logAfter`), independent of the graph:
  the log always is `[(k₁,1), …, (k_m,m)]` with distinct keys; every written label is the log's
  value for the unordered pair; every log entry comes from a written ring bond.
-/
import SelfiesVerif.Spec.SmilesTokens

namespace SV

/-- the unordered pair of a directed ring bond: the key of the ring log -/
def pkey (q : Nat × Nat) : Nat × Nat := (min q.1 q.2, max q.1 q.2)

structure LogOK (log : RingLog) : Prop where
  vals : ∀ (j : Nat) (e : (Nat × Nat) × Nat), log[j]? = some e → e.2 = j + 1
  keys : log.Pairwise (fun e e' => e.1 ≠ e'.1)

theorem LogOK.nil : LogOK [] := ⟨fun j e h => by simp at h, List.Pairwise.nil⟩

theorem lookup_some {k : Nat × Nat} : ∀ {log : RingLog} {r : Nat}, lookup k log = some r → (k, r) ∈ log
  | [], _, h => by simp [lookup] at h
  | (k', v) :: rest, r, h => by
    simp only [lookup] at h
    split at h
    · rename_i heq
      have : k' = k := by simpa using heq
      cases h; subst this; simp
    · exact List.mem_cons_of_mem _ (lookup_some h)

theorem lookup_none {k : Nat × Nat} : ∀ {log : RingLog}, lookup k log = none → ∀ e ∈ log, e.1 ≠ k
  | [], _, e, he => by simp at he
  | (k', v) :: rest, h, e, he => by
    simp only [lookup] at h
    split at h
    · cases h
    · rename_i hne
      rcases List.mem_cons.mp he with rfl | he'
      · simpa using hne
      · exact lookup_none h e he'

theorem LogOK.snoc {log : RingLog} (h : LogOK log) {k : Nat × Nat} (hk : ∀ e ∈ log, e.1 ≠ k) :
    LogOK (log ++ [(k, log.length + 1)]) := by
  constructor
  · intro j e hj
    by_cases hlt : j < log.length
    · rw [List.getElem?_append_left hlt] at hj
      exact h.vals j e hj
    · rw [List.getElem?_append_right (by omega)] at hj
      have : j - log.length = 0 := by
        by_cases h0 : j - log.length = 0
        · exact h0
        · rw [List.getElem?_singleton] at hj; simp [h0] at hj
      rw [this] at hj
      simp at hj
      subst hj
      simp; omega
  · rw [List.pairwise_append]
    refine ⟨h.keys, List.pairwise_singleton _ _, ?_⟩
    intro e he e' he'
    simp at he'
    subst he'
    exact hk e he

theorem LogOK.val_inj {log : RingLog} (h : LogOK log) {k k' : Nat × Nat} {r : Nat}
    (h1 : (k, r) ∈ log) (h2 : (k', r) ∈ log) : k = k' := by
  obtain ⟨j, hj⟩ := List.mem_iff_getElem?.mp h1
  obtain ⟨j', hj'⟩ := List.mem_iff_getElem?.mp h2
  have e1 := h.vals j _ hj
  have e2 := h.vals j' _ hj'
  simp only at e1 e2
  have : j = j' := by omega
  subst this
  rw [hj] at hj'
  cases hj'; rfl

theorem pairwise_unique {α} {R : α → α → Prop} {l : List α} (h : l.Pairwise R) {x y : α}
    (hx : x ∈ l) (hy : y ∈ l) (hxy : ¬ R x y) (hyx : ¬ R y x) : x = y := by
  induction h with
  | nil => cases hx
  | cons hhd _ ih =>
    rcases List.mem_cons.mp hx with rfl | hx'
    · rcases List.mem_cons.mp hy with rfl | hy'
      · rfl
      · exact absurd (hhd y hy') hxy
    · rcases List.mem_cons.mp hy with rfl | hy'
      · exact absurd (hhd x hx') hyx
      · exact ih hx' hy'

theorem LogOK.key_inj {log : RingLog} (h : LogOK log) {k : Nat × Nat} {r r' : Nat}
    (h1 : (k, r) ∈ log) (h2 : (k, r') ∈ log) : r = r' := by
  have := pairwise_unique h.keys h1 h2 (by simp) (by simp)
  cases this; rfl

theorem LogOK.val_range {log : RingLog} (h : LogOK log) {k : Nat × Nat} {r : Nat}
    (h1 : (k, r) ∈ log) : 1 ≤ r ∧ r ≤ log.length := by
  obtain ⟨j, hj⟩ := List.mem_iff_getElem?.mp h1
  have e1 := h.vals j _ hj
  have := (List.getElem?_eq_some_iff.mp hj).1
  simp only at e1
  omega

theorem LogOK.val_surj {log : RingLog} (h : LogOK log) {n : Nat} (h1 : 1 ≤ n) (h2 : n ≤ log.length) :
    ∃ k, (k, n) ∈ log := by
  have hlt : n - 1 < log.length := by omega
  have hj : log[n - 1]? = some log[n - 1] := List.getElem?_eq_getElem hlt
  have e1 := h.vals _ _ hj
  refine ⟨log[n - 1].1, ?_⟩
  have : (log[n - 1].1, n) = log[n - 1] := by
    apply Prod.ext
    · rfl
    · simp only; omega
  rw [this]
  exact List.getElem_mem hlt

/-- the invariant of the label assignment over a whole pre-token list -/
theorem ringOcc_spec : ∀ (P : List PTok) (log : RingLog), LogOK log →
    LogOK (logAfter log P) ∧ (∃ ext, logAfter log P = log ++ ext) ∧
    (∀ o ∈ ringOcc log P, (pkey o.1, o.2) ∈ logAfter log P) ∧
    (∀ e ∈ logAfter log P, e ∈ log ∨ ∃ o ∈ ringOcc log P, pkey o.1 = e.1) := by
  intro P
  induction P with
  | nil =>
    intro log h
    exact ⟨h, ⟨[], by simp [logAfter]⟩, fun o ho => by simp [ringOcc] at ho, fun e he => Or.inl he⟩
  | cons t rest ih =>
    intro log h
    cases t with
    | atom i s => exact ih log h
    | bond s => exact ih log h
    | open_ => exact ih log h
    | close => exact ih log h
    | ring a b =>
      simp only [logAfter, ringOcc]
      cases hl : lookup (min a b, max a b) log with
      | some r =>
        have hs : ringStep log a b = (r, log) := by unfold ringStep; simp only [hl]
        rw [hs]
        obtain ⟨i1, ⟨ext, i2⟩, i3, i4⟩ := ih log h
        refine ⟨i1, ⟨ext, i2⟩, ?_, ?_⟩
        · intro o ho
          rcases List.mem_cons.mp ho with rfl | ho'
          · rw [i2]
            exact List.mem_append_left _ (lookup_some hl)
          · exact i3 o ho'
        · intro e he
          rcases i4 e he with h1 | ⟨o, ho, h2⟩
          · exact Or.inl h1
          · exact Or.inr ⟨o, List.mem_cons_of_mem _ ho, h2⟩
      | none =>
        have hs : ringStep log a b = (log.length + 1, log ++ [((min a b, max a b), log.length + 1)]) := by
          unfold ringStep; simp only [hl]
        rw [hs]
        have h' := h.snoc (lookup_none hl)
        obtain ⟨i1, ⟨ext, i2⟩, i3, i4⟩ := ih _ h'
        refine ⟨i1, ⟨((min a b, max a b), log.length + 1) :: ext, by rw [i2]; simp⟩, ?_, ?_⟩
        · intro o ho
          rcases List.mem_cons.mp ho with rfl | ho'
          · simp only
            rw [i2]
            exact List.mem_append_left _ (List.mem_append_right _ (by simp [pkey]))
          · exact i3 o ho'
        · intro e he
          rcases i4 e he with h1 | ⟨o, ho, h2⟩
          · rcases List.mem_append.mp h1 with h1 | h1
            · exact Or.inl h1
            · simp at h1
              subst h1
              exact Or.inr ⟨((a, b), log.length + 1), by simp, rfl⟩
          · exact Or.inr ⟨o, List.mem_cons_of_mem _ ho, h2⟩

end SV
