/-
  C09 (stage 4): the emission phase of `selfies.encoder` (`_fragment_to_selfies` on every root)
  returns or raises `RecursionError`, on every graph that satisfies `EmitOK`:

    * one adjacency row per atom, rows as the parser stores them (`AdjOK`), no ring placeholder left,
    * no aromatic atom, every bond order 1, 2 or 3.

  No forest hypothesis is needed: the model's fuel bounds the DEPTH of the call chain, and chain
  bonds go from a smaller to a larger atom index (`AdjOK`), so the depth is bounded by
  `Σ_atoms (2 + out-degree)`.
-/
import SelfiesVerif.Proofs.KekulizeSound
import SelfiesVerif.Proofs.IndexCode
import SelfiesVerif.Model.Encoder

namespace SV.C09

def OkOrder (o : Nat) : Prop := o = 2 ∨ o = 4 ∨ o = 6

def NoPlaceholder (adj : List (List (Option PBond))) : Prop := ∀ row ∈ adj, ∀ ob ∈ row, ob ≠ none

instance (o : Nat) : Decidable (OkOrder o) := by unfold OkOrder; infer_instance

instance (adj : List (List (Option PBond))) : Decidable (NoPlaceholder adj) := by
  unfold NoPlaceholder; infer_instance

/-- what `_fragment_to_selfies` needs of the graph -/
structure EmitOK (m : PMol) : Prop where
  len : m.adj.length = m.atoms.length
  adjOK : AdjOK m.adj
  noPh : NoPlaceholder m.adj
  noArom : ∀ a ∈ m.atoms, a.isAromatic = false
  orders : ∀ i, ∀ b ∈ rowAt m.adj i, OkOrder b.order2

/-- a checkable form of `EmitOK.orders` -/
theorem orders_of_rows {adj : List (List (Option PBond))}
    (h : ∀ row ∈ adj, ∀ ob ∈ row, ob.all (fun b => decide (OkOrder b.order2)) = true) :
    ∀ i, ∀ b ∈ rowAt adj i, OkOrder b.order2 := by
  intro i b hb
  have hi := lt_of_mem_rowAt hb
  rw [rowAt_of_getElem? (List.getElem?_eq_getElem hi)] at hb
  have := h _ (List.getElem_mem hi) (some b) (mem_bondsOf.1 hb)
  simpa using this

/-! ### symbol-level facts -/

theorem bondToSmiles2_total (o2 : Nat) (st : Option Char) (h : OkOrder o2) :
    ∃ s, bondToSmiles2 o2 st = .ok s := by
  unfold bondToSmiles2
  rcases h with rfl | rfl | rfl
  · cases st <;> exact ⟨_, rfl⟩
  · exact ⟨_, rfl⟩
  · exact ⟨_, rfl⟩

theorem bondToSelfies_total (b : PBond) (show_ : Bool) (h : OkOrder b.order2) :
    ∃ s, bondToSelfies b show_ = .ok s := by
  unfold bondToSelfies
  split
  · exact ⟨_, rfl⟩
  · exact bondToSmiles2_total _ _ h

theorem atomToSmiles_total (a : Atom) (h : a.isAromatic = false) (br : Bool) :
    ∃ s, atomToSmiles a br = .ok s := by
  unfold atomToSmiles
  rw [h]
  simp only [Bool.false_eq_true, if_false]
  split <;> exact ⟨_, rfl⟩

theorem atomToSelfies_total (into : Option PBond) (a : Atom) (h : a.isAromatic = false)
    (hb : ∀ b, into = some b → OkOrder b.order2) : ∃ x, atomToSelfies into a = .ok x := by
  unfold atomToSelfies
  obtain ⟨s, hs⟩ := atomToSmiles_total a h false
  cases into with
  | none =>
    simp only [h, pyAssert, Bool.not_false, if_true, bind, Except.bind, pure, Except.pure, hs]
    exact ⟨_, rfl⟩
  | some b =>
    obtain ⟨bc, hbc⟩ := bondToSelfies_total b true (hb b rfl)
    simp only [h, pyAssert, Bool.not_false, if_true, bind, Except.bind, pure, Except.pure, hs, hbc]
    exact ⟨_, rfl⟩

theorem ringBondsToSelfies_total (l r : PBond) (h : l.order2 = r.order2) (ho : OkOrder l.order2) :
    ∃ s, ringBondsToSelfies l r = .ok s := by
  unfold ringBondsToSelfies
  have : (l.order2 == r.order2) = true := by simp [h]
  simp only [this, pyAssert, if_true, bind, Except.bind]
  split
  · exact bondToSelfies_total l false ho
  · exact ⟨_, rfl⟩

theorem getSelfiesFromIndex_total (n : Nat) : ∃ q, getSelfiesFromIndex (n : Int) = .ok q :=
  ⟨_, getSelfiesFromIndex_nat indexTablesOK n⟩

theorem pushIndexSyms_len (q : List Str) (attr : Option (List Attribution)) (ai : Nat) :
    ∀ (d : List Str) (maps : List AttributionMap), d.length ≤ (pushIndexSyms q attr ai d maps).1.length := by
  unfold pushIndexSyms
  induction q with
  | nil => intro d maps; exact Nat.le_refl _
  | cons s q ih =>
    intro d maps
    rw [List.foldl_cons]
    refine Nat.le_trans ?_ (ih _ _)
    simp

/-! ### rows -/

theorem mapM_noPh : ∀ (row : List (Option PBond)), (∀ ob ∈ row, ob ≠ none) →
    row.mapM (fun ob => match ob with
      | some b => (pure b : Py PBond)
      | none => .error .AttributeError) = .ok (bondsOf row) := by
  intro row
  induction row with
  | nil => intro _; rfl
  | cons ob row ih =>
    intro h
    cases ob with
    | none => exact absurd rfl (h none (by simp))
    | some b =>
      simp only [List.mapM_cons, bind, Except.bind, pure, Except.pure] at ih ⊢
      rw [ih (fun ob hob => h ob (List.mem_cons_of_mem _ hob))]
      simp [bondsOf]

theorem getOut_total {m : PMol} (he : EmitOK m) {i : Nat} (hi : i < m.atoms.length) :
    getOut m i = .ok (rowAt m.adj i) ∧ (rowAt m.adj i).length ≤ (m.adj.getD i []).length := by
  have hi' : i < m.adj.length := he.len ▸ hi
  have hrow : m.adj[i]? = some m.adj[i] := List.getElem?_eq_getElem hi'
  refine ⟨?_, ?_⟩
  · unfold getOut
    simp only [bind, Except.bind, getIdx_ok_of_lt hi']
    rw [rowAt_of_getElem? hrow]
    exact mapM_noPh _ (he.noPh _ (List.getElem_mem hi'))
  · unfold rowAt bondsOf
    exact List.length_filterMap_le _ _

theorem length_filter_partition {α : Type} (p : α → Bool) : ∀ (l : List α),
    (l.filter p ++ l.filter fun b => !p b).length = l.length := by
  intro l
  induction l with
  | nil => rfl
  | cons x xs ih =>
    simp only [List.length_append] at ih ⊢
    cases hx : p x <;> simp [hx] <;> omega

/-! ### the depth potential -/

/-- `Σ_{j ≥ i} (2 + len(adj[j]))` -/
def wFrom (adj : List (List (Option PBond))) (i : Nat) : Nat :=
  ((adj.drop i).map fun row => 2 + row.length).sum

theorem wFrom_step {adj : List (List (Option PBond))} {i : Nat} (hi : i < adj.length) :
    wFrom adj i = 2 + (adj.getD i []).length + wFrom adj (i + 1) := by
  unfold wFrom
  rw [List.drop_eq_getElem_cons hi]
  simp only [List.map_cons, List.sum_cons, List.getD_eq_getElem?_getD, List.getElem?_eq_getElem hi,
    Option.getD_some]

theorem wFrom_anti (adj : List (List (Option PBond))) : ∀ {i j : Nat}, i ≤ j → wFrom adj j ≤ wFrom adj i := by
  intro i j hij
  induction hij with
  | refl => exact Nat.le_refl _
  | @step k _ ih =>
    refine Nat.le_trans ?_ ih
    show wFrom adj (k + 1) ≤ wFrom adj k
    rcases Nat.lt_or_ge k adj.length with hk | hk
    · rw [wFrom_step hk]; omega
    · unfold wFrom
      rw [List.drop_eq_nil_of_le (by omega), List.drop_eq_nil_of_le hk]
      exact Nat.le_refl _

theorem wFrom_zero (m : PMol) : wFrom m.adj 0 = 2 * m.adj.length + m.totalOut := by
  unfold wFrom PMol.totalOut
  rw [List.drop_zero]
  induction m.adj with
  | nil => rfl
  | cons r rs ih => simp only [List.map_cons, List.sum_cons, List.length_cons, ih]; omega

/-! ### chain bonds of a row, and potentials that bound the recursion depth -/

/-- the number of chain (non-ring) bonds in a list of bonds -/
def cc (l : List PBond) : Nat := (l.filter fun b => !b.ring).length

theorem cc_cons (b : PBond) (l : List PBond) : cc (b :: l) = (if b.ring then 0 else 1) + cc l := by
  unfold cc
  cases h : b.ring <;> simp [h] <;> omega

theorem cc_tail_le (b : PBond) (l : List PBond) : cc l ≤ cc (b :: l) := by
  rw [cc_cons]; omega

theorem cc_all_chain {l : List PBond} (h : ∀ x ∈ l, x.ring = false) : cc l = l.length := by
  unfold cc
  rw [List.filter_eq_self.2 (fun x hx => by simp [h x hx])]

theorem cc_partition (l : List PBond) :
    cc (l.filter (·.ring) ++ l.filter fun b => !b.ring) = cc l := by
  unfold cc
  rw [List.filter_append, List.filter_filter, List.filter_filter]
  have h1 : (l.filter fun a => (!a.ring && a.ring)) = [] := by
    rw [List.filter_eq_nil_iff]; intro a _; cases a.ring <;> simp
  have h2 : (l.filter fun a => (!a.ring && !a.ring)) = l.filter fun b => !b.ring := by
    apply List.filter_congr; intro a _; cases a.ring <;> rfl
  rw [h1, h2, List.nil_append]

/-- ring bonds first, then chain bonds -/
def SortedRC : List PBond → Prop
  | [] => True
  | b :: l => (b.ring = false → ∀ x ∈ l, x.ring = false) ∧ SortedRC l

theorem sortedRC_chain : ∀ {l : List PBond}, (∀ x ∈ l, x.ring = false) → SortedRC l
  | [], _ => trivial
  | _ :: _, h => ⟨fun _ x hx => h x (List.mem_cons_of_mem _ hx),
      sortedRC_chain (fun x hx => h x (List.mem_cons_of_mem _ hx))⟩

theorem sortedRC_append : ∀ {a b : List PBond}, (∀ x ∈ a, x.ring = true) → (∀ x ∈ b, x.ring = false) →
    SortedRC (a ++ b)
  | [], _, _, hb => sortedRC_chain hb
  | x :: a, b, ha, hb => by
    refine ⟨fun hx => ?_, sortedRC_append (fun y hy => ha y (List.mem_cons_of_mem _ hy)) hb⟩
    rw [ha x (by simp)] at hx; cases hx

/-- a potential: it does not increase with the atom index and drops by at least one behind an
    atom with two or more chain bonds (the only atoms at which `_fragment_to_selfies` recurses) -/
structure Pot (m : PMol) (pot : Nat → Nat) : Prop where
  anti : ∀ k, pot (k + 1) ≤ pot k
  branch : ∀ k, k < m.atoms.length → 2 ≤ cc (rowAt m.adj k) → pot (k + 1) + 1 ≤ pot k

theorem Pot.mono {m : PMol} {pot : Nat → Nat} (h : Pot m pot) : ∀ {i j : Nat}, i ≤ j → pot j ≤ pot i := by
  intro i j hij
  induction hij with
  | refl => exact Nat.le_refl _
  | @step k _ ih => exact Nat.le_trans (h.anti k) ih

/-- potential 1: the number of atoms with index `≥ k` -/
theorem pot_atoms (m : PMol) : Pot m (fun k => m.atoms.length - k) :=
  ⟨fun k => by omega, fun k hk _ => by omega⟩

/-- potential 2: `Σ_{j ≥ k} (chain bonds of atom j − 1)`, the number of chain bonds that are not the
    last one of their atom -/
def phiFrom (adj : List (List (Option PBond))) (k : Nat) : Nat :=
  ((adj.drop k).map fun row => cc (bondsOf row) - 1).sum

theorem phiFrom_step {adj : List (List (Option PBond))} {k : Nat} (hk : k < adj.length) :
    phiFrom adj k = (cc (rowAt adj k) - 1) + phiFrom adj (k + 1) := by
  unfold phiFrom
  rw [List.drop_eq_getElem_cons hk, rowAt_of_getElem? (List.getElem?_eq_getElem hk)]
  simp only [List.map_cons, List.sum_cons]

theorem pot_phi {m : PMol} (hlen : m.adj.length = m.atoms.length) : Pot m (phiFrom m.adj) := by
  refine ⟨fun k => ?_, fun k hk h2 => ?_⟩
  · rcases Nat.lt_or_ge k m.adj.length with hk | hk
    · rw [phiFrom_step hk]; omega
    · unfold phiFrom
      rw [List.drop_eq_nil_of_le (by omega), List.drop_eq_nil_of_le hk]
      exact Nat.le_refl _
  · have hk' : k < m.adj.length := hlen ▸ hk
    have := phiFrom_step hk'
    omega

/-! ### `_fragment_to_selfies` -/

/-- the task is about atom `k` and its bonds, and the fuel covers the remaining depth -/
def TaskFits (m : PMol) (fuel k : Nat) : EncTask → Prop
  | .atomVisit bondInto curr =>
    curr = k ∧ curr < m.atoms.length ∧ (∀ b, bondInto = some b → OkOrder b.order2) ∧ wFrom m.adj curr ≤ fuel
  | .bondLoop rest i outLen next =>
    k < m.atoms.length ∧ (∀ b ∈ rest, b ∈ rowAt m.adj k) ∧
      (∀ b, next = some b → b ∈ rowAt m.adj k ∧ b.ring = false) ∧
      rest.length + 1 + wFrom m.adj (k + 1) ≤ fuel ∧
      i + rest.length = outLen ∧ SortedRC rest ∧ cc rest ≤ cc (rowAt m.adj k)

def taskMin : EncTask → Nat
  | .atomVisit _ _ => 1
  | .bondLoop _ _ _ _ => 0

/-- at Python recursion depth `depth`, working on atom `k`, the recursion budget cannot be reached -/
def NoRec (pot : Nat → Nat) (depth k : Nat) : Prop := depth + pot k + 1 < recursionBudget

/-- the call returns (at least `n` symbols) or raises `RecursionError` (which `P` excludes) -/
def ResTotal (P : Prop) (n : Nat) (x : Py (List Str × List AttributionMap)) : Prop :=
  (∃ d' maps', x = .ok (d', maps') ∧ n ≤ d'.length) ∨ (x = .error .RecursionError ∧ ¬ P)

theorem ResTotal.mono {P P' : Prop} {n k : Nat} {x : Py (List Str × List AttributionMap)}
    (h : ResTotal P n x) (hk : k ≤ n) (hP : P' → P) : ResTotal P' k x := by
  rcases h with ⟨d', mp', h1, h2⟩ | ⟨h1, h2⟩
  · exact Or.inl ⟨d', mp', h1, by omega⟩
  · exact Or.inr ⟨h1, fun h => h2 (hP h)⟩

theorem NoRec.next {m : PMol} {pot : Nat → Nat} (hp : Pot m pot) {depth k j : Nat}
    (h : NoRec pot depth k) (hkj : k < j) : NoRec pot depth j := by
  have := hp.mono (Nat.le_of_lt hkj)
  unfold NoRec at h ⊢; omega

theorem fragmentGo_total {m : PMol} (he : EmitOK m) {pot : Nat → Nat} (hp : Pot m pot) :
    ∀ (fuel depth : Nat) (task : EncTask) (derived : List Str) (maps : List AttributionMap) (ai k : Nat),
    TaskFits m fuel k task →
    ResTotal (NoRec pot depth k) (derived.length + taskMin task)
      (fragmentGo m fuel depth task derived maps ai) := by
  intro fuel
  induction fuel with
  | zero =>
    intro depth task derived maps ai k hfit
    exfalso
    cases task with
    | atomVisit bondInto curr =>
      obtain ⟨_, h1, _, h3⟩ := hfit
      rw [wFrom_step (he.len ▸ h1)] at h3
      omega
    | bondLoop rest i outLen next =>
      obtain ⟨_, _, _, h, _⟩ := hfit
      omega
  | succ fuel ih =>
    intro depth task derived maps ai k hfit
    cases task with
    | atomVisit bondInto curr =>
      obtain ⟨rfl, h1, h2, h3⟩ := hfit
      have hatom : curr < m.atoms.length := h1
      obtain ⟨tok, htok⟩ := atomToSelfies_total bondInto m.atoms[curr]
        (he.noArom _ (List.getElem_mem hatom)) h2
      obtain ⟨hout, hlen⟩ := getOut_total he h1
      rw [wFrom_step (he.len ▸ h1)] at h3
      have hpart := length_filter_partition (fun b : PBond => b.ring) (rowAt m.adj curr)
      have hfit' : TaskFits m fuel curr (.bondLoop
          ((rowAt m.adj curr).filter (·.ring) ++ (rowAt m.adj curr).filter fun b => !b.ring) 0
          ((rowAt m.adj curr).filter (·.ring) ++ (rowAt m.adj curr).filter fun b => !b.ring).length none) := by
        refine ⟨h1, ?_, (by intro b hb; cases hb), ?_, by omega, ?_, ?_⟩
        · intro b hb
          simp only [List.mem_append, List.mem_filter] at hb
          rcases hb with hb | hb <;> exact hb.1
        · rw [hpart]; omega
        · apply sortedRC_append
          · intro x hx; exact (List.mem_filter.1 hx).2
          · intro x hx; simpa using (List.mem_filter.1 hx).2
        · rw [cc_partition]; exact Nat.le_refl _
      rw [fragmentGo]
      simp only [bind, Except.bind, getIdx_ok_of_lt hatom, htok, hout]
      exact (ih depth _ _ _ ai curr hfit').mono (by simp [taskMin]) id
    | bondLoop rest i outLen next =>
      obtain ⟨hk, hrest, hnext, hfuel, hpos, hsort, hcc⟩ := hfit
      have hk' : k < m.adj.length := he.len ▸ hk
      cases rest with
      | nil =>
        cases next with
        | none =>
          left
          exact ⟨derived, maps, by rw [fragmentGo]; rfl, by simp [taskMin]⟩
        | some b =>
          obtain ⟨hb, hring⟩ := hnext b rfl
          obtain ⟨_, hdst, _, hrb⟩ := (he.adjOK k hk').2 b hb
          rw [hring] at hrb
          simp only [Bool.false_eq_true, if_false] at hrb
          have hfit' : TaskFits m fuel b.dst (.atomVisit (some b) b.dst) := by
            refine ⟨rfl, he.len ▸ hdst, by intro b' hb'; cases hb'; exact he.orders k b hb, ?_⟩
            have := wFrom_anti m.adj (i := k + 1) (j := b.dst) (by omega)
            simp only [List.length_nil] at hfuel
            omega
          rw [fragmentGo]
          exact (ih depth _ _ _ ai b.dst hfit').mono (by simp [taskMin]) (fun h => h.next hp hrb.1)
      | cons bond rest =>
        have hbond : bond ∈ rowAt m.adj k := hrest bond (by simp)
        have hrest' : ∀ b ∈ rest, b ∈ rowAt m.adj k := fun b hb => hrest b (by simp [hb])
        obtain ⟨hsrc, hdst, hne, hrb⟩ := (he.adjOK k hk').2 bond hbond
        have hord := he.orders k bond hbond
        simp only [List.length_cons] at hfuel hpos
        have hfitRest : ∀ nx : Option PBond, (∀ b, nx = some b → b ∈ rowAt m.adj k ∧ b.ring = false) →
            TaskFits m fuel k (.bondLoop rest (i + 1) outLen nx) :=
          fun nx hnx => ⟨hk, hrest', hnx, by omega, by omega, hsort.2,
            Nat.le_trans (cc_tail_le bond rest) hcc⟩
        cases hring : bond.ring with
        | true =>
          rw [hring] at hrb
          simp only [if_true] at hrb
          by_cases hlt : bond.src < bond.dst
          · rw [fragmentGo]
            simp only [hring, hlt, if_true]
            exact (ih depth _ _ _ ai k (hfitRest next hnext)).mono (by simp [taskMin]) id
          · -- a ring closure
            obtain ⟨rev, hrev, hrd, hro⟩ := hrb
            have hget : m.getDirBond bond.dst bond.src = .ok rev := by
              have := getDirBond_ok he.adjOK hrev
              rw [hrd, ← hsrc] at this
              exact this
            have hgt : bond.dst < bond.src := by omega
            have hcast : ((bond.src : Int) - bond.dst - 1) = ((bond.src - bond.dst - 1 : Nat) : Int) := by
              omega
            obtain ⟨q, hq⟩ := getSelfiesFromIndex_total (bond.src - bond.dst - 1)
            obtain ⟨pre, hpre⟩ := ringBondsToSelfies_total rev bond hro (hro ▸ hord)
            rw [fragmentGo]
            simp only [hring, hlt, if_true, if_false, bind, Except.bind, hget, hcast, hq, hpre]
            refine (ih depth _ _ _ ai k (hfitRest next hnext)).mono ?_ id
            have := pushIndexSyms_len q bond.attr ai (derived ++ [ringSymbol pre "Ring".toList q.length])
              (maps ++ [{ index := ((derived ++ [ringSymbol pre "Ring".toList q.length]).length : Int) - 1 + ai,
                          token := ringSymbol pre "Ring".toList q.length,
                          attribution := bond.attr }])
            have h2 : derived.length ≤ (derived ++ [ringSymbol pre "Ring".toList q.length]).length := by simp
            simp only [taskMin]
            omega
        | false =>
          rw [hring] at hrb
          simp only [Bool.false_eq_true, if_false] at hrb
          by_cases hlast : (i + 1 == outLen) = true
          · rw [fragmentGo]
            simp only [hring, hlast, Bool.false_eq_true, if_false, if_true]
            exact (ih depth _ _ _ ai k (hfitRest (some bond)
              (by intro b hb; cases hb; exact ⟨hbond, hring⟩))).mono (by simp [taskMin]) id
          · -- a chain bond that is not the last out-bond: atom `k` has at least two chain bonds
            have hne' : i + 1 ≠ outLen := by simpa using hlast
            have hall : ∀ x ∈ rest, x.ring = false := hsort.1 hring
            have hbr : 2 ≤ cc (rowAt m.adj k) := by
              have h1 : cc (bond :: rest) = 1 + rest.length := by
                rw [cc_cons, hring, cc_all_chain hall]; simp
              omega
            have hdrop := hp.branch k hk hbr
            by_cases hdep : depth + 1 ≥ recursionBudget
            · right
              refine ⟨?_, fun hn => ?_⟩
              · rw [fragmentGo]
                simp only [hring, hlast, Bool.false_eq_true, if_false, hdep, if_true]
              · unfold NoRec at hn; omega
            · -- a branch
              have hfitB : TaskFits m fuel bond.dst (.atomVisit (some bond) bond.dst) := by
                refine ⟨rfl, he.len ▸ hdst, by intro b' hb'; cases hb'; exact hord, ?_⟩
                have := wFrom_anti m.adj (i := k + 1) (j := bond.dst) (by omega)
                omega
              have hstep : NoRec pot depth k → NoRec pot (depth + 1) bond.dst := by
                intro hn
                have := hp.mono (show k + 1 ≤ bond.dst by omega)
                unfold NoRec at hn ⊢; omega
              rw [fragmentGo]
              simp only [hring, hlast, Bool.false_eq_true, if_false, hdep, bind, Except.bind]
              rcases ih (depth + 1) (.atomVisit (some bond) bond.dst) [] maps derived.length bond.dst hfitB with
                ⟨branch, maps1, hb1, hb2⟩ | ⟨hb1, hb2⟩
              · simp only [taskMin, List.length_nil] at hb2
                have hcast : ((branch.length : Int) - 1) = ((branch.length - 1 : Nat) : Int) := by omega
                obtain ⟨q, hq⟩ := getSelfiesFromIndex_total (branch.length - 1)
                obtain ⟨pre, hpre⟩ := bondToSelfies_total bond false hord
                simp only [hb1, hcast, hq, hpre]
                generalize hps : pushIndexSyms q bond.attr ai
                    (derived ++ [ringSymbol pre "Branch".toList q.length]) maps1 = ps
                have hpl := pushIndexSyms_len q bond.attr ai
                    (derived ++ [ringSymbol pre "Branch".toList q.length]) maps1
                rw [hps] at hpl
                obtain ⟨d1, mp1⟩ := ps
                simp only
                refine (ih depth _ _ _ ai k (hfitRest next hnext)).mono ?_ id
                simp only [taskMin, List.length_append, List.length_cons, List.length_nil] at hpl ⊢
                omega
              · right
                exact ⟨by simp only [hb1], fun hn => hb2 (hstep hn)⟩

/-- `_fragment_to_selfies(mol, None, root, …)` returns or raises `RecursionError`; the latter not
    if the potential at atom 0 is below the recursion budget -/
theorem fragmentToSelfies_total {m : PMol} (he : EmitOK m) {pot : Nat → Nat} (hp : Pot m pot)
    {root : Nat} (hr : root < m.atoms.length) (maps : List AttributionMap) (ai : Nat) :
    (∃ r, fragmentToSelfies m root maps ai = .ok r) ∨
      (fragmentToSelfies m root maps ai = .error .RecursionError ∧ ¬ pot 0 + 1 < recursionBudget) := by
  unfold fragmentToSelfies
  have hfit : TaskFits m (2 * (m.size + m.totalOut) + 2) root (.atomVisit none root) := by
    refine ⟨rfl, hr, (by intro b hb; cases hb), ?_⟩
    have h1 := wFrom_anti m.adj (i := 0) (j := root) (Nat.zero_le _)
    have h2 := wFrom_zero m
    have h3 := he.len
    unfold PMol.size
    omega
  rcases fragmentGo_total he hp _ 0 _ [] maps ai root hfit with ⟨d', mp', h, _⟩ | ⟨h, hn⟩
  · exact Or.inl ⟨_, h⟩
  · refine Or.inr ⟨h, fun hlt => hn ?_⟩
    have := hp.mono (Nat.zero_le root)
    unfold NoRec; omega

/-- the fragment loop of `encoder` returns or raises `RecursionError` -/
theorem frags_total {m : PMol} (he : EmitOK m) {pot : Nat → Nat} (hp : Pot m pot) :
    ∀ (roots : List Nat), (∀ r ∈ roots, r < m.atoms.length) →
    ∀ (ai : Nat) (acc : List Str) (maps : List AttributionMap),
    (∃ r, encoderFull.frags m roots ai acc maps = .ok r) ∨
      (encoderFull.frags m roots ai acc maps = .error .RecursionError ∧ ¬ pot 0 + 1 < recursionBudget) := by
  intro roots
  induction roots with
  | nil => intro _ ai acc maps; exact Or.inl ⟨_, rfl⟩
  | cons r roots ih =>
    intro hr ai acc maps
    rw [encoderFull.frags]
    rcases fragmentToSelfies_total he hp (hr r (by simp)) maps ai with ⟨⟨d, mp⟩, h⟩ | ⟨h, hn⟩
    · simp only [bind, Except.bind, h]
      exact ih (fun x hx => hr x (by simp [hx])) _ _ _
    · right; exact ⟨by simp only [bind, Except.bind, h], hn⟩

/-- both potentials at once: `RecursionError` needs at least `budget − 1` atoms AND at least
    `budget − 1` chain bonds that are not the last one of their atom -/
theorem frags_total' {m : PMol} (he : EmitOK m) (roots : List Nat) (hr : ∀ r ∈ roots, r < m.atoms.length)
    (ai : Nat) (acc : List Str) (maps : List AttributionMap) :
    (∃ r, encoderFull.frags m roots ai acc maps = .ok r) ∨
      (encoderFull.frags m roots ai acc maps = .error .RecursionError ∧
        ¬ m.atoms.length + 1 < recursionBudget ∧ ¬ phiFrom m.adj 0 + 1 < recursionBudget) := by
  rcases frags_total he (pot_atoms m) roots hr ai acc maps with h | ⟨h1, h2⟩
  · exact Or.inl h
  · rcases frags_total he (pot_phi he.len) roots hr ai acc maps with ⟨r, h⟩ | ⟨_, h3⟩
    · rw [h1] at h; cases h
    · exact Or.inr ⟨h1, by simpa using h2, h3⟩

end SV.C09
