/-
  C03: facts about well-formed forests and their graphs (`graphOf`), and stage 0 at the level of
  whole fragments / whole graphs.
-/
import SelfiesVerif.Proofs.RoundTripEnc

namespace SV

/-! ### well-numbered forests -/

theorem nodes_getElem_of_mem {ns : List NodeInfo} (h : ns.map (·.idx) = List.range ns.length)
    {n : NodeInfo} (hn : n ∈ ns) : ns[n.idx]? = some n := by
  obtain ⟨k, hk, rfl⟩ := List.getElem_of_mem hn
  have h1 : (ns.map (·.idx))[k]? = some ns[k].idx := by simp [hk]
  rw [h, List.getElem?_range hk] at h1
  injection h1 with h1
  rw [← h1]
  exact List.getElem?_eq_getElem hk

theorem nodes_idx_of_getElem {ns : List NodeInfo} (h : ns.map (·.idx) = List.range ns.length)
    {k : Nat} {n : NodeInfo} (hn : ns[k]? = some n) : n.idx = k := by
  have hk : k < ns.length := (List.getElem?_eq_some_iff.1 hn).1
  have h1 : (ns.map (·.idx))[k]? = some n.idx := by simp [hn]
  rw [h, List.getElem?_range hk] at h1
  injection h1 with h1
  exact h1.symm

theorem PForest.wf_parts {f : PForest} (h : f.wf = true) :
    f.nodes.map (·.idx) = List.range f.nodes.length ∧ f.simple = true ∧ f.ringsPaired = true := by
  unfold PForest.wf at h
  simp only [Bool.and_eq_true] at h
  refine ⟨?_, h.1.2, h.2⟩
  have := h.1.1
  unfold PForest.wellNumbered at this
  simpa using this

/-! ### ring items -/

theorem Items.mem_closes (i : Nat) : ∀ (its : Items) (p o : Nat) (s s' : Option Char),
    (p, o, s, s') ∈ its.rings → ¬ i < p → (p, i, o, s', s) ∈ its.closes i
  | .nil, _, _, _, _, h, _ => by simp [Items.rings] at h
  | .ring p' o' s1 s1' rest, p, o, s, s', h, hp => by
    simp only [Items.rings, List.mem_cons, Prod.mk.injEq] at h
    simp only [Items.closes]
    rcases h with ⟨rfl, rfl, rfl, rfl⟩ | h
    · simp [hp]
    · have := Items.mem_closes i rest p o s s' h hp
      split
      · exact this
      · exact List.mem_cons_of_mem _ this
  | .child _ _ _ rest, p, o, s, s', h, hp => by
    simp only [Items.rings] at h
    simp only [Items.closes]
    exact Items.mem_closes i rest p o s s' h hp

theorem Items.mem_opens (i : Nat) : ∀ (its : Items) (x : Nat × Nat × Nat × Option Char × Option Char),
    x ∈ its.opens i → x.1 = i ∧ i < x.2.1 ∧ (x.2.1, x.2.2.1, x.2.2.2.1, x.2.2.2.2) ∈ its.rings
  | .nil, _, h => by simp [Items.opens] at h
  | .ring p' o' s1 s1' rest, x, h => by
    simp only [Items.opens] at h
    simp only [Items.rings, List.mem_cons]
    split at h
    · rename_i hip
      rcases List.mem_cons.1 h with rfl | h
      · exact ⟨rfl, hip, Or.inl rfl⟩
      · obtain ⟨a, b, c⟩ := Items.mem_opens i rest x h
        exact ⟨a, b, Or.inr c⟩
    · obtain ⟨a, b, c⟩ := Items.mem_opens i rest x h
      exact ⟨a, b, Or.inr c⟩
  | .child _ _ _ rest, x, h => by
    simp only [Items.opens] at h
    simp only [Items.rings]
    exact Items.mem_opens i rest x h

theorem getDirBond_of_nodup (m : PMol) (p : Nat) (row : List PBond) (b : PBond)
    (hadj : m.adj[p]? = some (row.map some)) (hb : b ∈ row) (hnd : (row.map (·.dst)).Nodup) :
    m.getDirBond p b.dst = .ok b := by
  unfold PMol.getDirBond
  rw [hadj]
  dsimp only
  clear hadj
  induction row with
  | nil => cases hb
  | cons x row ih =>
    simp only [List.map_cons, List.nodup_cons] at hnd
    simp only [List.map_cons, List.find?_cons]
    rcases List.mem_cons.1 hb with rfl | hb
    · simp
    · have hne : x.dst ≠ b.dst := by
        intro e
        exact hnd.1 (e ▸ List.mem_map.2 ⟨b, hb, rfl⟩)
      have : (x.dst == b.dst) = false := by simpa using hne
      simp only [this]
      exact ih hb hnd.2

/-! ### the graph provides what the encoder needs -/

theorem graphOf_atoms (f : PForest) : (graphOf f).atoms = f.nodes.map (·.atom) := rfl
theorem graphOf_adj (f : PForest) : (graphOf f).adj = f.nodes.map fun n => n.row.map some := rfl
theorem graphOf_roots (f : PForest) : (graphOf f).roots = f.map Tree.idx := rfl
theorem graphOf_counts2 (f : PForest) : (graphOf f).counts2 = f.nodes.map NodeInfo.count2 := rfl

theorem PForest.simple_node {f : PForest} (h : f.simple = true) {n : NodeInfo} (hn : n ∈ f.nodes) :
    (n.row.map (·.dst)).Nodup ∧ ∀ b ∈ n.row, b.dst ≠ n.idx := by
  unfold PForest.simple at h
  have := List.all_eq_true.1 h n hn
  simp only [Bool.and_eq_true, decide_eq_true_eq, List.all_eq_true, bne_iff_ne, ne_eq] at this
  exact this

theorem PForest.kekulized_node {f : PForest} (h : f.kekulized = true) {n : NodeInfo} (hn : n ∈ f.nodes) :
    n.atom.isAromatic = false ∧ (∀ b ∈ n.row, okOrder2 b.order2 ∧ okStereo b.stereo)
      ∧ ∀ r ∈ n.items.rings, okStereo r.2.2.2 := by
  unfold PForest.kekulized at h
  have := List.all_eq_true.1 h n hn
  simp only [Bool.and_eq_true, decide_eq_true_eq, List.all_eq_true, Bool.not_eq_true'] at this
  exact ⟨this.1.1, this.1.2, this.2⟩

/-- the reverse record of a closing ring item is found by `get_dirbond` -/
theorem graphOf_rev {f : PForest} (hwf : f.wf = true) {n : NodeInfo} (hn : n ∈ f.nodes)
    {p o : Nat} {s s' : Option Char} (hr : (p, o, s, s') ∈ n.items.rings) (hp : ¬ n.idx < p) :
    p < n.idx ∧ (graphOf f).getDirBond p n.idx = .ok (ringBond p n.idx o s') := by
  obtain ⟨hnum, hsimple, hpaired⟩ := PForest.wf_parts hwf
  have hrow := Items.mem_rings_row n.idx n.items p o s s' hr
  have hne : p ≠ n.idx := (PForest.simple_node hsimple hn).2 _ hrow
  have hlt : p < n.idx := by omega
  refine ⟨hlt, ?_⟩
  have hnk := nodes_getElem_of_mem hnum hn
  have hnlen : n.idx < f.nodes.length := (List.getElem?_eq_some_iff.1 hnk).1
  have hplen : p < f.nodes.length := by omega
  have hnp : f.nodes[p]? = some f.nodes[p] := List.getElem?_eq_getElem hplen
  have hpidx : (f.nodes[p]).idx = p := nodes_idx_of_getElem hnum hnp
  have hpm : f.nodes[p] ∈ f.nodes := List.getElem_mem hplen
  -- the closing item is in the global list
  have hcl : (p, n.idx, o, s', s) ∈ f.closes := by
    unfold PForest.closes
    exact List.mem_flatMap.2 ⟨n, hn, Items.mem_closes n.idx n.items p o s s' hr hp⟩
  have hperm : ((f.nodes[p]).items.opens (f.nodes[p]).idx).Perm
      (f.closes.filter fun c => c.1 == (f.nodes[p]).idx) := by
    unfold PForest.ringsPaired at hpaired
    exact List.isPerm_iff.1 (List.all_eq_true.1 hpaired _ hpm)
  rw [hpidx] at hperm
  have hop : (p, n.idx, o, s', s) ∈ (f.nodes[p]).items.opens p :=
    hperm.mem_iff.2 (List.mem_filter.2 ⟨hcl, by simp⟩)
  obtain ⟨_, _, hring⟩ := Items.mem_opens p _ _ hop
  have hrowp := Items.mem_rings_row p (f.nodes[p]).items n.idx o s' s hring
  have hnd := (PForest.simple_node hsimple hpm).1
  unfold NodeInfo.row at hnd
  rw [hpidx] at hnd
  have hadj : (graphOf f).adj[p]? = some (((f.nodes[p]).items.row p).map some) := by
    rw [graphOf_adj, List.getElem?_map, hnp]
    simp only [Option.map_some, NodeInfo.row, hpidx]
  exact getDirBond_of_nodup (graphOf f) p _ (ringBond p n.idx o s') hadj hrowp hnd

theorem graphOf_nodeEncOK {f : PForest} (hwf : f.wf = true) (hk : f.kekulized = true)
    {n : NodeInfo} (hn : n ∈ f.nodes) : NodeEncOK (graphOf f) n := by
  obtain ⟨hnum, hsimple, hpaired⟩ := PForest.wf_parts hwf
  have hnk := nodes_getElem_of_mem hnum hn
  obtain ⟨ha, hb, _⟩ := PForest.kekulized_node hk hn
  refine ⟨?_, ?_, ha, fun b hb' => (hb b hb').1, fun p o s s' hr hp => graphOf_rev hwf hn hr hp⟩
  · rw [graphOf_atoms, List.getElem?_map, hnk]; rfl
  · rw [graphOf_adj, List.getElem?_map, hnk]; rfl

/-! ### fuel -/

mutual
theorem Tree.cost_eq_sum : ∀ (t : Tree) (into : Option PBond),
    t.cost = ((t.nodes into).map fun n => 2 + n.row.length).sum
  | .node i a its, into => by
    simp only [Tree.cost, Tree.nodes, List.map_cons, List.sum_cons]
    have := Items.cost_eq_sum its i
    have h2 : (NodeInfo.mk into i a its).row = its.row i := rfl
    rw [h2]
    omega
theorem Items.cost_eq_sum : ∀ (its : Items) (i : Nat),
    its.rcount + its.kcost = (its.row i).length + ((its.nodes i).map fun n => 2 + n.row.length).sum
  | .nil, _ => rfl
  | .ring _ _ _ _ rest, i => by
    simp only [Items.rcount, Items.kcost, Items.row, Items.nodes, List.length_cons]
    have := Items.cost_eq_sum rest i
    omega
  | .child o s t rest, i => by
    simp only [Items.rcount, Items.kcost, Items.row, Items.nodes, List.length_cons, List.map_append,
      List.sum_append]
    have := Items.cost_eq_sum rest i
    have := Tree.cost_eq_sum t (some (chainBond i t.idx o s))
    omega
end

theorem sum_map_flatMapR {α β} (f : α → List β) (g : β → Nat) (l : List α) :
    ((l.flatMap f).map g).sum = (l.map fun a => ((f a).map g).sum).sum := by
  induction l with
  | nil => rfl
  | cons a l ih => simp [List.flatMap_cons, ih]

theorem le_sum_of_mem {l : List Nat} {x : Nat} (h : x ∈ l) : x ≤ l.sum := by
  induction l with
  | nil => cases h
  | cons a l ih =>
    rcases List.mem_cons.1 h with rfl | h
    · simp
    · have := ih h; simp; omega

theorem graphOf_fuel (f : PForest) (t : Tree) (ht : t ∈ f) :
    t.cost ≤ 2 * ((graphOf f).size + (graphOf f).totalOut) + 2 := by
  have h1 : t.cost ≤ ((f.nodes).map fun n => 2 + n.row.length).sum := by
    rw [Tree.cost_eq_sum t none]
    unfold PForest.nodes
    rw [sum_map_flatMapR]
    exact le_sum_of_mem (List.mem_map.2 ⟨t, ht, rfl⟩)
  have h2 : ((f.nodes).map fun n => 2 + n.row.length).sum
      = 2 * (graphOf f).size + (graphOf f).totalOut := by
    unfold PMol.size PMol.totalOut
    rw [graphOf_atoms, graphOf_adj]
    generalize f.nodes = ns
    induction ns with
    | nil => rfl
    | cons n ns ih =>
      simp only [List.map_cons, List.sum_cons, List.length_cons, List.length_map] at ih ⊢
      omega
  omega

/-! ### stage 0 on fragments and on the whole graph -/

theorem mem_nodes_of_mem_forest {f : PForest} {t : Tree} (ht : t ∈ f) {n : NodeInfo}
    (hn : n ∈ t.nodes none) : n ∈ f.nodes :=
  List.mem_flatMap.2 ⟨t, ht, hn⟩

theorem fragmentToSelfies_graphOf {f : PForest} (hwf : f.wf = true) (hk : f.kekulized = true)
    (t : Tree) (ht : t ∈ f) (hd : t.bdepth + 1 < recursionBudget)
    (maps : List AttributionMap) (ai : Nat) :
    ∃ maps', fragmentToSelfies (graphOf f) t.idx maps ai = .ok (t.encode none, maps') := by
  unfold fragmentToSelfies
  obtain ⟨maps', h⟩ := enc_tree (graphOf f) t none _ 0 [] maps ai (graphOf_fuel f t ht) (by omega)
    (fun n hn => graphOf_nodeEncOK hwf hk (mem_nodes_of_mem_forest ht hn)) (by intro b hb; cases hb)
  exact ⟨maps', by rw [h]; rfl⟩

theorem frags_graphOf {f : PForest} (hwf : f.wf = true) (hk : f.kekulized = true) :
    ∀ (ts : List Tree), (∀ t ∈ ts, t ∈ f ∧ t.bdepth + 1 < recursionBudget) →
    ∀ (ai : Nat) (acc : List Str) (maps : List AttributionMap),
    ∃ maps', encoderFull.frags (graphOf f) (ts.map Tree.idx) ai acc maps
      = .ok (acc ++ ts.map (fun t => (t.encode none).flatten), maps')
  | [], _, ai, acc, maps => ⟨maps, by simp [encoderFull.frags, pure, Except.pure]⟩
  | t :: ts, h, ai, acc, maps => by
    obtain ⟨ht, hd⟩ := h t List.mem_cons_self
    obtain ⟨maps1, e1⟩ := fragmentToSelfies_graphOf hwf hk t ht hd maps ai
    obtain ⟨maps2, e2⟩ := frags_graphOf hwf hk ts (fun t' ht' => h t' (List.mem_cons_of_mem _ ht'))
      (ai + (t.encode none).length) (acc ++ [(t.encode none).flatten]) maps1
    refine ⟨maps2, ?_⟩
    simp only [List.map_cons, encoderFull.frags, e1, bind, Except.bind, e2]
    simp

/-- **Stage 0, whole graph.** -/
theorem encodeGraph_graphOf {f : PForest} (hwf : f.wf = true) (hk : f.kekulized = true)
    (hd : ∀ t ∈ f, t.bdepth + 1 < recursionBudget) :
    encodeGraph (graphOf f) = .ok f.encode := by
  unfold encodeGraph
  obtain ⟨maps', e⟩ := frags_graphOf hwf hk f (fun t ht => ⟨ht, hd t ht⟩) 0 [] []
  rw [graphOf_roots, e]
  rfl

end SV
