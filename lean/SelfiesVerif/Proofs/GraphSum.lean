/-
  Weighted sums over the adjacency lists of a `Mol` and how the list operations of
  `Model/Mol.lean` (`set`, append, `insertAt`, order update) change them.
-/
import SelfiesVerif.Model.Decoder

namespace SV

/-- weighted sum over one out-bond list -/
def rsum (f : DirBond → Nat) (row : List DirBond) : Nat := (row.map f).sum

/-- weighted sum over all directed bonds of the adjacency lists -/
def wsum (f : DirBond → Nat) (adj : List (List DirBond)) : Nat := (adj.flatten.map f).sum

/-- weight of bond `b` in the bond-order sum of atom `i` -/
def bw (i : Nat) (b : DirBond) : Nat :=
  if b.src = i ∨ (b.dst = i ∧ b.ring = false) then b.order else 0

/-- weight of bond `b` in the number of incoming chain bonds of atom `i` -/
def cw (i : Nat) (b : DirBond) : Nat := if b.dst = i ∧ b.ring = false then 1 else 0

/-- sum of the orders of all bonds incident to atom `i` -/
def bondSum (adj : List (List DirBond)) (i : Nat) : Nat := wsum (bw i) adj

/-- number of chain (non-ring) bonds that end in atom `i` -/
def chainIn (adj : List (List DirBond)) (i : Nat) : Nat := wsum (cw i) adj

@[simp] theorem rsum_nil (f) : rsum f [] = 0 := rfl
@[simp] theorem rsum_cons (f) (b : DirBond) (row) : rsum f (b :: row) = f b + rsum f row := by
  simp [rsum]
theorem rsum_append (f) (r1 r2 : List DirBond) : rsum f (r1 ++ r2) = rsum f r1 + rsum f r2 := by
  simp [rsum, List.sum_append]
theorem rsum_snoc (f) (row : List DirBond) (b) : rsum f (row ++ [b]) = rsum f row + f b := by
  simp [rsum_append]

theorem rsum_perm (f) {r1 r2 : List DirBond} (h : r1.Perm r2) : rsum f r1 = rsum f r2 :=
  (h.map f).sum_nat

theorem rsum_eq_zero (f) (row : List DirBond) (h : ∀ b ∈ row, f b = 0) : rsum f row = 0 := by
  induction row with
  | nil => rfl
  | cons b row ih =>
    simp only [rsum_cons]
    rw [h b (by simp), ih (fun b hb => h b (by simp [hb]))]

@[simp] theorem wsum_nil (f) : wsum f [] = 0 := rfl
@[simp] theorem wsum_cons (f) (row) (adj) : wsum f (row :: adj) = rsum f row + wsum f adj := by
  simp [wsum, rsum, List.sum_append]

theorem wsum_append (f) (a1 a2 : List (List DirBond)) : wsum f (a1 ++ a2) = wsum f a1 + wsum f a2 := by
  simp [wsum, List.sum_append]

theorem wsum_append_empty (f) (adj : List (List DirBond)) : wsum f (adj ++ [[]]) = wsum f adj := by
  simp [wsum_append]

theorem wsum_set (f) : ∀ (adj : List (List DirBond)) (k : Nat) (row row' : List DirBond),
    adj[k]? = some row → wsum f (adj.set k row') + rsum f row = wsum f adj + rsum f row'
  | [], k, _, _, h => by simp at h
  | r :: adj, 0, row, row', h => by
    simp at h; subst h
    simp only [List.set_cons_zero, wsum_cons]; omega
  | r :: adj, k + 1, row, row', h => by
    simp at h
    have := wsum_set f adj k row row' h
    simp only [List.set_cons_succ, wsum_cons]; omega

theorem wsum_eq_zero (f) (adj : List (List DirBond))
    (h : ∀ row ∈ adj, ∀ b ∈ row, f b = 0) : wsum f adj = 0 := by
  induction adj with
  | nil => rfl
  | cons r adj ih =>
    simp only [wsum_cons]
    rw [rsum_eq_zero f r (h r (by simp)), ih (fun row hr => h row (by simp [hr]))]

theorem wsum_congr (f g) (adj : List (List DirBond))
    (h : ∀ row ∈ adj, ∀ b ∈ row, f b = g b) : wsum f adj = wsum g adj := by
  induction adj with
  | nil => rfl
  | cons r adj ih =>
    simp only [wsum_cons]
    rw [ih (fun row hr => h row (by simp [hr]))]
    congr 1
    have hr := h r (by simp)
    clear ih h
    induction r with
    | nil => rfl
    | cons b r ih2 =>
      simp only [rsum_cons]
      rw [hr b (by simp), ih2 (fun b hb => hr b (by simp [hb]))]

/-! ### `insertAt` -/

theorem insertAt_perm {α} : ∀ (l : List α) (i : Nat) (v : α), (insertAt l i v).Perm (v :: l)
  | l, 0, v => by simp [insertAt]
  | [], _ + 1, v => by simp [insertAt]
  | x :: l, i + 1, v => by
    simp only [insertAt]
    exact ((insertAt_perm l i v).cons x).trans (List.Perm.swap v x l)

/-! ### the order update of one out-bond list -/

/-- what `setOrderAt` does to one bond -/
def upd (d n : Nat) (b : DirBond) : DirBond := if b.dst == d then { b with order := n } else b

@[simp] theorem upd_src (d n b) : (upd d n b).src = b.src := by unfold upd; split <;> rfl
@[simp] theorem upd_dst (d n b) : (upd d n b).dst = b.dst := by unfold upd; split <;> rfl
@[simp] theorem upd_ring (d n b) : (upd d n b).ring = b.ring := by unfold upd; split <;> rfl
theorem upd_order (d n b) : (upd d n b).order = if b.dst = d then n else b.order := by
  unfold upd; split <;> simp_all

theorem upd_of_ne {d n : Nat} {b : DirBond} (h : b.dst ≠ d) : upd d n b = b := by
  unfold upd; simp [h]

theorem map_upd_of_ne (d n : Nat) (row : List DirBond) (h : ∀ b ∈ row, b.dst ≠ d) :
    row.map (upd d n) = row := by
  induction row with
  | nil => rfl
  | cons b row ih =>
    simp only [List.map_cons]
    rw [upd_of_ne (h b (by simp)), ih (fun b hb => h b (by simp [hb]))]

/-- A weight that looks only at `src`, `dst`, `ring` scaled by the order. -/
theorem rsum_map_upd (f : DirBond → Nat) (d n : Nat) :
    ∀ (row : List DirBond) (b0 : DirBond), b0 ∈ row → b0.dst = d →
      row.Pairwise (fun b b' => b.dst ≠ b'.dst) →
      rsum f (row.map (upd d n)) + f b0 = rsum f row + f { b0 with order := n }
  | [], _, h, _, _ => by simp at h
  | b :: row, b0, hmem, hd, hpw => by
    rw [List.pairwise_cons] at hpw
    simp only [List.map_cons, rsum_cons]
    rcases List.mem_cons.mp hmem with rfl | hmem'
    · have : row.map (upd d n) = row :=
        map_upd_of_ne d n row (fun b hb => by have := hpw.1 b hb; omega)
      rw [this]
      have : upd d n b0 = { b0 with order := n } := by unfold upd; simp [hd]
      rw [this]; omega
    · have hne : b.dst ≠ d := by have := hpw.1 b0 hmem'; omega
      rw [upd_of_ne hne]
      have := rsum_map_upd f d n row b0 hmem' hd hpw.2
      omega

/-- a weight that ignores the order is not affected by the update -/
theorem rsum_map_upd_inv (f : DirBond → Nat) (d n : Nat) (row : List DirBond)
    (hf : ∀ b, f (upd d n b) = f b) : rsum f (row.map (upd d n)) = rsum f row := by
  induction row with
  | nil => rfl
  | cons b row ih => simp only [List.map_cons, rsum_cons, hf, ih]

theorem cw_upd (i d n b) : cw i (upd d n b) = cw i b := by simp [cw]

end SV
