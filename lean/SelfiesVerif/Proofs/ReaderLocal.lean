/-
  C01r / C10r: ring bonds never join two fragments.

  * `smilesToMol_ringsLocal`: the ring log of the SMILES parser is per fragment (it starts empty and
    must be empty at the end of `_derive_mol_from_tokens`), so in every parsed graph both ends of a
    ring bond lie on the same side of every root;
  * `encodePrepare_ringsLocal`: kekulization only changes bond orders and the chirality adjustment
    only atoms, so the same holds of the graph the encoder writes out;
  * `finalMol_ringsLocal`, `finalMol_ringHalves`: the molecule the decoder builds for a forest has
    the ring bonds of the forest's graph (same ends, same number), hence it inherits locality.
-/
import SelfiesVerif.Proofs.ParserKekulize
import SelfiesVerif.Proofs.RoundTripOrder
import SelfiesVerif.Proofs.ReaderDefs

namespace SV

/-- no ring bond of a parsed graph joins two fragments -/
def PMol.RingsLocal (g : PMol) : Prop :=
  ∀ row ∈ g.adj, ∀ b, some b ∈ row → b.ring = true → ∀ r ∈ g.roots, (r ≤ b.src ↔ r ≤ b.dst)

/-! ### properties of all stored bonds -/

/-- every stored bond (placeholders skipped) has the property `P` -/
def AllBonds (adj : List (List (Option PBond))) (P : PBond → Prop) : Prop :=
  ∀ j, ∀ b ∈ rowAt adj j, P b

theorem allBonds_iff (adj : List (List (Option PBond))) (P : PBond → Prop) :
    AllBonds adj P ↔ ∀ row ∈ adj, ∀ b, some b ∈ row → P b := by
  constructor
  · intro h row hrow b hb
    obtain ⟨j, hj⟩ := List.mem_iff_getElem?.1 hrow
    exact h j b (by rw [rowAt_of_getElem? hj]; exact mem_bondsOf.2 hb)
  · intro h j b hb
    have hj := lt_of_mem_rowAt hb
    rw [rowAt_of_lt hj] at hb
    exact h _ (List.getElem_mem hj) b (mem_bondsOf.1 hb)

theorem AllBonds.imp {adj : List (List (Option PBond))} {P Q : PBond → Prop} (h : AllBonds adj P)
    (hpq : ∀ b, P b → Q b) : AllBonds adj Q := fun j b hb => hpq b (h j b hb)

theorem AllBonds.and {adj : List (List (Option PBond))} {P Q : PBond → Prop} (h : AllBonds adj P)
    (h' : AllBonds adj Q) : AllBonds adj (fun b => P b ∧ Q b) := fun j b hb => ⟨h j b hb, h' j b hb⟩

theorem allBonds_append_nil {adj : List (List (Option PBond))} {P : PBond → Prop}
    (h : AllBonds adj P) : AllBonds (adj ++ [[]]) P := by
  intro j b hb
  rw [rowAt_append_nil] at hb
  exact h j b hb

theorem allBonds_set_append {adj : List (List (Option PBond))} {P : PBond → Prop} {i : Nat}
    {row : List (Option PBond)} {x : Option PBond} (h : AllBonds adj P) (hrow : adj[i]? = some row)
    (hx : ∀ b, x = some b → P b) : AllBonds (adj.set i (row ++ [x])) P := by
  intro j b hb
  have hi : i < adj.length := (List.getElem?_eq_some_iff.1 hrow).1
  rw [rowAt_set hi] at hb
  split at hb
  · rw [bondsOf_append, List.mem_append] at hb
    rcases hb with hb | hb
    · exact h i b (by rw [rowAt_of_getElem? hrow]; exact hb)
    · have := mem_bondsOf.1 hb
      simp only [List.mem_singleton] at this
      exact hx b this.symm
  · exact h j b hb

theorem allBonds_addBondAtLoc {adj adj' : List (List (Option PBond))} {b : PBond} {pos : Option Nat}
    {P : PBond → Prop} (h : PMol.addBondAtLoc adj b pos = .ok adj') (ha : AllBonds adj P) (hb : P b) :
    AllBonds adj' P := by
  obtain ⟨_, _, hperm, hother⟩ := addBondAtLoc_rows h
  intro j x hx
  by_cases hj : j = b.src
  · subst hj
    rcases List.mem_cons.1 (hperm.mem_iff.1 hx) with rfl | hx'
    · exact hb
    · exact ha _ x hx'
  · rw [hother j hj] at hx
    exact ha j x hx

/-- what `_make_ring_bonds` does to the stored bonds: two new ring bonds between `la` and `ra` -/
theorem allBonds_makeRing {m m' : PMol} {lb rb : Option Char} {la lp ra : Nat} {P : PBond → Prop}
    (h : makeRingBonds m lb la lp rb ra = .ok m') (hP : AllBonds m.adj P)
    (hnew : ∀ b : PBond, (b.src = la ∧ b.dst = ra) ∨ (b.src = ra ∧ b.dst = la) → P b) :
    AllBonds m'.adj P := by
  obtain ⟨a1, a2, hinv⟩ := makeRingBonds_inv h
  obtain ⟨adj1, hr⟩ := addRingBond_inv hinv.add
  have h1 := allBonds_addBondAtLoc hr.hadj1 hP (hnew _ (Or.inl ⟨rfl, rfl⟩))
  exact allBonds_addBondAtLoc hr.hadj2 h1 (hnew _ (Or.inr ⟨rfl, rfl⟩))

theorem makeRing_frame {m m' : PMol} {lb rb : Option Char} {la lp ra : Nat}
    (h : makeRingBonds m lb la lp rb ra = .ok m') :
    m'.atoms = m.atoms ∧ m'.roots = m.roots ∧ la < m.atoms.length ∧ ra < m.atoms.length := by
  obtain ⟨a1, a2, hinv⟩ := makeRingBonds_inv h
  obtain ⟨adj1, hr⟩ := addRingBond_inv hinv.add
  exact ⟨hr.atoms, hr.roots, (List.getElem?_eq_some_iff.1 hinv.hla).1,
    (List.getElem?_eq_some_iff.1 hinv.hra).1⟩

/-! ### the invariant -/

/-- the ring bond `b` does not straddle any of the roots -/
def RingLoc (roots : List Nat) (b : PBond) : Prop :=
  b.ring = true → ∀ r ∈ roots, (r ≤ b.src ↔ r ≤ b.dst)

/-- both ends of `b` are atoms below `n` -/
def EndsBelow (n : Nat) (b : PBond) : Prop := b.src < n ∧ b.dst < n

theorem ringsLocal_iff (g : PMol) : g.RingsLocal ↔ AllBonds g.adj (RingLoc g.roots) :=
  (allBonds_iff g.adj (RingLoc g.roots)).symm

/-- between fragments -/
structure LocG (m : PMol) : Prop where
  loc : AllBonds m.adj (RingLoc m.roots)
  bnd : AllBonds m.adj (EndsBelow m.atoms.length)
  roots : ∀ r ∈ m.roots, r < m.atoms.length

/-- inside a fragment: before its first atom (`fresh`), and after it (`started`; `n0` is the first
    atom of the fragment, the only root that is not smaller than `n0`) -/
inductive LocI (st : ParseSt) : Prop
  | fresh : LocG st.mol → st.prevStack = [none] → st.chainStart = true → st.ringLog = [] → LocI st
  | started (n0 : Nat) : AllBonds st.mol.adj (RingLoc st.mol.roots) →
      AllBonds st.mol.adj (EndsBelow st.mol.atoms.length) → (∀ r ∈ st.mol.roots, r ≤ n0) →
      n0 < st.mol.atoms.length → (∀ x ∈ st.prevStack, ∃ p, x = some p ∧ n0 ≤ p) →
      (∀ ro ∈ st.ringLog, n0 ≤ ro.atom) → LocI st

theorem EndsBelow.mono {n n' : Nat} (h : n ≤ n') {b : PBond} (hb : EndsBelow n b) : EndsBelow n' b :=
  ⟨Nat.lt_of_lt_of_le hb.1 h, Nat.lt_of_lt_of_le hb.2 h⟩

theorem iinv_step {attrib : Bool} {Q : SmilesTok → Prop} {st st' : ParseSt} (hI : LocI st)
    (hs : PStep attrib Q st st') : LocI st' := by
  cases hI with
  | fresh hG hstack hcs hlog =>
    cases hs with
    | atomRoot tok curr tl hst _ _ _ =>
      rw [hstack] at hst
      injection hst with _ htl
      subst htl
      refine .started st.mol.atoms.length ?_ ?_ ?_ ?_ ?_ ?_
      · simp only [PMol.addAtom, ↓reduceIte]
        apply allBonds_append_nil
        refine (hG.loc.and hG.bnd).imp ?_
        rintro b ⟨hl, hb⟩ hring r hr
        rcases List.mem_append.1 hr with hr | hr
        · exact hl hring r hr
        · simp only [List.mem_singleton] at hr
          subst hr
          have := hb.1; have := hb.2
          constructor <;> intro <;> omega
      · simp only [PMol.addAtom, List.length_append, List.length_singleton]
        exact allBonds_append_nil (hG.bnd.imp fun b hb => hb.mono (Nat.le_succ _))
      · simp only [PMol.addAtom, ↓reduceIte]
        intro r hr
        rcases List.mem_append.1 hr with hr | hr
        · exact Nat.le_of_lt (hG.roots r hr)
        · simp only [List.mem_singleton] at hr
          exact Nat.le_of_eq hr
      · simp [PMol.addAtom]
      · intro x hx
        simp only [List.mem_cons, List.not_mem_nil, or_false] at hx
        exact ⟨_, hx, Nat.le_refl _⟩
      · show ∀ ro ∈ st.ringLog, _
        rw [hlog]; intro ro hro; cases hro
    | atomAttach tok curr p tl pa mol' hst _ _ _ _ _ => rw [hstack] at hst; cases hst
    | openBranch prev tl h _ => rw [hcs] at h; cases h
    | closeBranch prev tl h _ _ => rw [hcs] at h; cases h
    | ringOpen tok p tl mol' lpos h _ _ _ => rw [hcs] at h; cases h
    | ringClose tok p tl ro mol' h _ _ _ => rw [hcs] at h; cases h
  | started n0 hloc hbnd hroots hn0 hstack hlog =>
    cases hs with
    | atomRoot tok curr tl hst _ _ _ =>
      obtain ⟨p, hp, _⟩ := hstack none (by rw [hst]; exact List.mem_cons_self)
      cases hp
    | atomAttach tok curr p tl pa mol' hst _ _ hadd _ _ =>
      obtain ⟨row, hinv⟩ := addBond_inv hadd
      have hrow : (st.mol.adj ++ [[]])[p]? = some row := hinv.hrow
      have hlt : p < st.mol.atoms.length := hinv.lt
      have hat : mol'.atoms.length = st.mol.atoms.length + 1 := by
        rw [hinv.atoms]; simp [PMol.addAtom]
      have hro : mol'.roots = st.mol.roots := hinv.roots
      have hadj : mol'.adj = (st.mol.adj ++ [[]]).set p (row ++ [some
          ({ src := p, dst := st.mol.atoms.length, order2 := attachOrder pa curr tok.bondChar,
             stereo := (smilesToBond tok.bondChar).2, ring := false,
             attr := stepAttr attrib st tok } : PBond)]) := hinv.adj
      refine .started n0 ?_ ?_ ?_ ?_ ?_ ?_
      · show AllBonds mol'.adj (RingLoc mol'.roots)
        rw [hro, hadj]
        refine allBonds_set_append (allBonds_append_nil hloc) hrow ?_
        intro b hb
        injection hb with hb
        subst hb
        intro hring; cases hring
      · show AllBonds mol'.adj (EndsBelow mol'.atoms.length)
        rw [hat, hadj]
        refine allBonds_set_append
          (allBonds_append_nil (hbnd.imp fun b hb => hb.mono (Nat.le_succ _))) hrow ?_
        intro b hb
        injection hb with hb
        subst hb
        exact ⟨by show p < _; omega, by show st.mol.atoms.length < _; omega⟩
      · show ∀ r ∈ mol'.roots, r ≤ n0
        rw [hro]; exact hroots
      · show n0 < mol'.atoms.length
        omega
      · intro x hx
        rcases List.mem_cons.1 hx with rfl | hx
        · exact ⟨_, rfl, Nat.le_of_lt hn0⟩
        · exact hstack x (by rw [hst]; exact List.mem_cons_of_mem _ hx)
      · exact hlog
    | openBranch prev tl _ hst =>
      refine .started n0 hloc hbnd hroots hn0 ?_ hlog
      intro x hx
      rcases List.mem_cons.1 hx with rfl | hx
      · exact hstack x (by rw [hst]; exact List.mem_cons_self)
      · exact hstack x (by rw [hst]; exact hx)
    | closeBranch prev tl _ _ hst =>
      refine .started n0 hloc hbnd hroots hn0 ?_ hlog
      intro x hx
      exact hstack x (by rw [hst]; exact List.mem_cons_of_mem _ hx)
    | ringOpen tok p tl mol' lpos _ hst _ hadd =>
      obtain ⟨row, hinv⟩ := addPlaceholder_inv hadd
      have hp : n0 ≤ p := by
        obtain ⟨q, hq, hle⟩ := hstack (some p) (by rw [hst]; exact List.mem_cons_self)
        injection hq with hq
        omega
      refine .started n0 ?_ ?_ ?_ ?_ hstack ?_
      · show AllBonds mol'.adj (RingLoc mol'.roots)
        rw [hinv.roots, hinv.adj]
        exact allBonds_set_append hloc hinv.hrow (fun b hb => by cases hb)
      · show AllBonds mol'.adj (EndsBelow mol'.atoms.length)
        rw [hinv.atoms, hinv.adj]
        exact allBonds_set_append hbnd hinv.hrow (fun b hb => by cases hb)
      · show ∀ r ∈ mol'.roots, r ≤ n0
        rw [hinv.roots]; exact hroots
      · show n0 < mol'.atoms.length
        rw [hinv.atoms]; exact hn0
      · intro ro hro
        rcases List.mem_append.1 hro with hro | hro
        · exact hlog ro hro
        · simp only [List.mem_singleton] at hro
          subst hro
          exact hp
    | ringClose tok p tl ro mol' _ hst hfind hmk =>
      have hp : n0 ≤ p := by
        obtain ⟨q, hq, hle⟩ := hstack (some p) (by rw [hst]; exact List.mem_cons_self)
        injection hq with hq
        omega
      have hro : n0 ≤ ro.atom := hlog ro (List.mem_of_find?_eq_some hfind)
      obtain ⟨hat, hroo, hla, hra⟩ := makeRing_frame hmk
      refine .started n0 ?_ ?_ ?_ ?_ hstack ?_
      · show AllBonds mol'.adj (RingLoc mol'.roots)
        rw [hroo]
        refine allBonds_makeRing hmk hloc ?_
        intro b hb _ r hr
        have := hroots r hr
        rcases hb with ⟨h1, h2⟩ | ⟨h1, h2⟩ <;> constructor <;> intro <;> omega
      · show AllBonds mol'.adj (EndsBelow mol'.atoms.length)
        rw [hat]
        refine allBonds_makeRing hmk hbnd ?_
        intro b hb
        unfold EndsBelow
        rcases hb with ⟨h1, h2⟩ | ⟨h1, h2⟩ <;> constructor <;> omega
      · show ∀ r ∈ mol'.roots, r ≤ n0
        rw [hroo]; exact hroots
      · show n0 < mol'.atoms.length
        rw [hat]; exact hn0
      · intro ro' hro'
        exact hlog ro' (List.mem_filter.1 hro').1

theorem iinv_fin {st : ParseSt} (hI : LocI st) : LocG st.mol := by
  cases hI with
  | fresh hG _ _ _ => exact hG
  | started n0 hloc hbnd hroots hn0 _ _ =>
    exact ⟨hloc, hbnd, fun r hr => Nat.lt_of_le_of_lt (hroots r hr) hn0⟩

theorem ginv_empty : LocG {} :=
  ⟨fun j b hb => by simp [rowAt, bondsOf] at hb, fun j b hb => by simp [rowAt, bondsOf] at hb,
    fun r hr => by cases hr⟩

/-- **no ring bond of a parsed graph joins two fragments** -/
theorem smilesToMol_ringsLocal {s : Str} {attrib : Bool} {g : PMol}
    (h : smilesToMol s attrib = .ok g) : g.RingsLocal := by
  have : LocG g :=
    smilesToMol_invariant (Q := fun _ => True) (G := LocG) (I := LocI) ginv_empty
      (fun m i hG => .fresh hG rfl rfl rfl) (fun _ _ hI hs => iinv_step hI hs)
      (fun st hI _ _ _ => iinv_fin hI) (fun _ _ _ _ => trivial) h
  exact (ringsLocal_iff g).2 this.loc

/-! ### the prepared graph -/

theorem encodeTail_frame {T : Table} {strict : Bool} {g1 g' : PMol}
    (h : encodeTail T strict g1 = .ok g') : g'.adj = g1.adj ∧ g'.roots = g1.roots := by
  unfold encodeTail at h
  split at h
  · obtain ⟨_, _, h⟩ := bind_ok h
    cases h
  · obtain ⟨atoms, _, h⟩ := bind_ok h
    simp only [pure, Except.pure, Except.ok.injEq] at h
    subst h
    exact ⟨rfl, rfl⟩

theorem ringsLocal_mapOrders {g g1 : PMol} {G : PBond → Nat} (h : g.RingsLocal)
    (hadj : g1.adj = mapOrders G g.adj) (hroots : g1.roots = g.roots) : g1.RingsLocal := by
  rw [ringsLocal_iff] at h ⊢
  rw [hadj, hroots]
  intro j b hb
  rw [rowAt_mapOrders] at hb
  obtain ⟨b0, hb0, rfl⟩ := List.mem_map.1 hb
  exact h j b0 hb0

/-- the graph the encoder writes out has no ring bond between two fragments -/
theorem encodePrepare_ringsLocal {T : Table} {s : Str} {strict attrib : Bool} {tape : List Nat}
    {g : PMol} (h : encodePrepare T s strict attrib tape = .ok g) : g.RingsLocal := by
  rw [encodePrepare_eq] at h
  cases hs : smilesToMol s attrib with
  | error e => rw [hs] at h; cases e <;> cases h
  | ok g0 =>
    rw [hs] at h
    simp only at h
    cases hk : g0.kekulize tape with
    | error e => rw [hk] at h; cases h
    | ok r =>
      rw [hk] at h
      cases r with
      | none => cases h
      | some g1 =>
        simp only at h
        obtain ⟨hst, _, _⟩ := kekulize_struct (smilesToMol_pwf hs) hk
        obtain ⟨G, _, hadj⟩ := hst.adj
        have h1 : g1.RingsLocal := ringsLocal_mapOrders (smilesToMol_ringsLocal hs) hadj hst.roots
        obtain ⟨e1, e2⟩ := encodeTail_frame h
        intro row hrow b hb hring r hr
        rw [e1] at hrow
        rw [e2] at hr
        exact h1 row hrow b hb hring r hr

/-! ### the decoded molecule -/

theorem decDir_src (b : PBond) : (decDir b).src = b.src := by
  unfold decDir; split <;> rfl

theorem decDir_ring (b : PBond) : (decDir b).ring = b.ring := by
  unfold decDir
  split
  · rename_i h; rw [h]; rfl
  · rfl

/-- the row of a node in the decoded molecule -/
theorem finalMol_row' {f : PForest} (hwf : f.wf = true) {n : NodeInfo} (hn : n ∈ f.nodes) :
    ringRecs (ringQueue f) n.idx ++ n.chainRow =
      (n.row.filter PBond.isClosing).map decDir ++ laterRecs f n.idx
        ++ (n.row.filter PBond.isChain).map decDir := by
  obtain ⟨hnum, _, _⟩ := PForest.wf_parts hwf
  have hnk := nodes_getElem_of_mem hnum hn
  have h1 := (finalMol_row hwf hn).1
  unfold finalMol at h1
  simp only [List.getElem?_map, hnk, Option.map_some, Option.some.injEq] at h1
  exact h1

theorem finalMol_row_mem {f : PForest} (hwf : f.wf = true) {n : NodeInfo} (hn : n ∈ f.nodes)
    {b : DirBond} (hb : b ∈ ringRecs (ringQueue f) n.idx ++ n.chainRow) :
    ∃ pb ∈ n.row, b = decDir pb := by
  rw [finalMol_row' hwf hn] at hb
  have hperm := (finalMol_row hwf hn).2.1
  rcases List.mem_append.1 hb with hb | hb
  · rcases List.mem_append.1 hb with hb | hb
    · obtain ⟨pb, hpb, rfl⟩ := List.mem_map.1 hb
      exact ⟨pb, (List.mem_filter.1 hpb).1, rfl⟩
    · obtain ⟨pb, hpb, rfl⟩ := List.mem_map.1 (hperm.mem_iff.1 hb)
      exact ⟨pb, (List.mem_filter.1 hpb).1, rfl⟩
  · obtain ⟨pb, hpb, rfl⟩ := List.mem_map.1 hb
    exact ⟨pb, (List.mem_filter.1 hpb).1, rfl⟩

/-- the decoded molecule inherits ring locality from the parsed graph -/
theorem finalMol_ringsLocal (f : PForest) (hwf : f.wf = true) (h : (graphOf f).RingsLocal) :
    (finalMol f).RingsLocal := by
  intro row hrow b hb hring r hr
  have hrow' : row ∈ f.nodes.map fun n => ringRecs (ringQueue f) n.idx ++ n.chainRow := hrow
  obtain ⟨n, hn, rfl⟩ := List.mem_map.1 hrow'
  obtain ⟨pb, hpb, rfl⟩ := finalMol_row_mem hwf hn hb
  rw [decDir_ring] at hring
  rw [decDir_src, decDir_dst]
  have hr' : r ∈ (graphOf f).roots := hr
  refine h (n.row.map some) ?_ pb (List.mem_map.2 ⟨pb, hpb, rfl⟩) hring r hr'
  show n.row.map some ∈ f.nodes.map fun n => n.row.map some
  exact List.mem_map.2 ⟨n, hn, rfl⟩

theorem countP_ring_decDir (l : List PBond) :
    (l.map decDir).countP (·.ring) = l.countP (·.ring) := by
  rw [List.countP_map]
  apply List.countP_congr
  intro b _
  simp only [Function.comp, decDir_ring]

theorem finalMol_row_count {f : PForest} (hwf : f.wf = true) {n : NodeInfo} (hn : n ∈ f.nodes) :
    ((ringRecs (ringQueue f) n.idx ++ n.chainRow).filter (·.ring)).length
      = (n.row.filter (·.ring)).length := by
  rw [finalMol_row' hwf hn]
  have hperm := (finalMol_row hwf hn).2.1
  rw [← List.countP_eq_length_filter, ← List.countP_eq_length_filter, List.countP_append,
    List.countP_append, hperm.countP_eq, countP_ring_decDir, countP_ring_decDir, countP_ring_decDir,
    ← List.countP_append, ← List.countP_append]
  exact (filter3_perm PBond.isClosing PBond.isOpening PBond.isChain n.row
    (fun b _ => bond_trichotomy b)).countP_eq _

/-- the decoded molecule has as many ring-bond halves as the parsed graph -/
theorem finalMol_ringHalves (f : PForest) (hwf : f.wf = true) :
    (finalMol f).ringHalves = (f.nodes.map fun n => (n.row.filter (·.ring)).length).sum := by
  unfold Mol.ringHalves
  show ((f.nodes.map fun n => ringRecs (ringQueue f) n.idx ++ n.chainRow).flatten.filter
    (·.ring)).length = _
  rw [List.filter_flatten, List.length_flatten, List.map_map, List.map_map]
  congr 1
  apply List.map_congr_left
  intro n hn
  exact finalMol_row_count hwf hn

end SV
