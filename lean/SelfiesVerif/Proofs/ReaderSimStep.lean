/-
  C01r, stages (c)/(d): the parser's step on each kind of expected token keeps the simulation
  invariant `RdSim` (atoms, roots, adjacency rows, ring log) and has the expected effect on the
  `prevStack`.
-/
import SelfiesVerif.Proofs.ReaderSimRun

namespace SV

/-- the full invariant of the simulation on a parser state -/
structure RdSim (g : Mol) (k : Nat) (cnt : Nat → Nat) (log : RingLog) (rts : List Nat) (st : ParseSt) : Prop where
  c : CSim g k cnt
  gr : GSim g k cnt rts st.mol
  r : RSim g cnt log st.ringLog

/-- every atom text of `g` is read back as the atom -/
def AtomsRead (g : Mol) : Prop := ∀ a ∈ g.atoms, smilesToAtom (atomText a) = some a

section
variable {g : Mol} {k : Nat} {cnt : Nat → Nat} {log : RingLog} {rts : List Nat} {st : ParseSt}

theorem RdSim.size (hs : RdSim g k cnt log rts st) : st.mol.atoms.length = k := by
  rw [hs.gr.atoms, List.length_take]; have := hs.c.kle; omega

theorem atomTextAt_eq {i : Nat} {a : Atom} (h : g.atoms[i]? = some a) : g.atomTextAt i = atomText a := by
  unfold Mol.atomTextAt; rw [h]

theorem getElem?_lt {α} {l : List α} {i : Nat} (h : i < l.length) : ∃ x, l[i]? = some x ∧ x ∈ l :=
  ⟨l[i], List.getElem?_eq_getElem h, List.getElem_mem h⟩

/-- the first atom of a fragment -/
theorem step_root (hg : WGraph g) (hA : AtomsRead g) (hs : RdSim g k cnt log rts st)
    (hk : k < g.atoms.length) (stk : List (Option Nat)) (hstack : st.prevStack = none :: stk)
    (bc : Option Char) :
    ∃ st', (∀ rest, parseFragmentLoop false
        ({ bondChar := bc, kind := .atom, text := g.atomTextAt k } :: rest) st
          = parseFragmentLoop false rest st') ∧
      RdSim g (k + 1) cnt log (rts ++ [k]) st' ∧ st'.prevStack = some k :: stk ∧
      st'.branchDepth = st.branchDepth ∧ st'.chainStart = false := by
  obtain ⟨a, ha, ham⟩ := getElem?_lt hk
  have hread := hA a ham
  have hna := hg.nonarom a ham
  refine ⟨{ st with mol := (st.mol.addAtom a true none).1, prevStack := some st.mol.atoms.length :: stk,
                    chainStart := false, i := (if bc.isSome then st.i + 1 else st.i) + 1 },
    fun rest => ?_, ⟨hs.c.succ hk, ?_, hs.r⟩, ?_, rfl, rfl⟩
  · rw [atomTextAt_eq ha]
    exact run_atomRoot st stk rest bc _ a hstack hread
  · have := hs.gr.addAtom hs.c ha hna true
    simpa using this
  · simp [hs.size]

/-- an atom bonded to the previous atom `p` by the chain bond `b` -/
theorem step_attach (hg : WGraph g) (hA : AtomsRead g) (hs : RdSim g k cnt log rts st)
    (hk : k < g.atoms.length) {p : Nat} (hp : p < k) {b : DirBond}
    (hb : (g.row p)[cnt p]? = some b) (hchain : b.ring = false) (hd : b.dst = k)
    (stk : List (Option Nat)) (hstack : st.prevStack = some p :: stk) :
    ∃ st', (∀ rest, parseFragmentLoop false
        ({ bondChar := (bondText b).head?, kind := .atom, text := g.atomTextAt k } :: rest) st
          = parseFragmentLoop false rest st') ∧
      RdSim g (k + 1) (cntBump cnt p) log rts st' ∧ st'.prevStack = some k :: stk ∧
      st'.branchDepth = st.branchDepth ∧ st'.chainStart = false := by
  obtain ⟨a, ha, ham⟩ := getElem?_lt hk
  have hread := hA a ham
  have hna := hg.nonarom a ham
  have hbm := getElem?_mem_row hb
  have hplt : p < g.atoms.length := by omega
  obtain ⟨hbs, _, _, ho1, ho3, _⟩ := hg.row_bonds hplt b hbm
  -- the graph after `add_atom`
  have hc1 := hs.c.succ hk
  have hg1 : GSim g (k + 1) cnt rts (st.mol.addAtom a false none).1 := by
    have := hs.gr.addAtom hs.c ha hna false
    simpa using this
  -- the previous atom
  obtain ⟨pa, hpa, hpam⟩ := getElem?_lt (l := g.atoms) hplt
  have hpa' : (st.mol.addAtom a false none).1.atoms[p]? = some pa := by
    rw [hg1.atoms, List.getElem?_take, if_pos (by omega)]; exact hpa
  -- the new bond has no read partner
  have hopen : closedB g cnt b = false := by
    rw [closedB_false_iff, hd, hs.c.procd_nil (Nat.le_refl _)]
    intro x hx; cases hx
  -- `add_bond`
  have hstb := smilesToBond_bondText b ho1 ho3
  obtain ⟨c2, hbond, hc2⟩ := pAddBond_run (m := (st.mol.addAtom a false none).1) (src := p) (dst := k)
    (o2 := 2 * b.order) (st := readStereo b) (attr := none) hp (hg1.adj p (by omega))
    (by rw [hg1.c2Len]; omega) (by rw [hg1.c2Len]; omega) (by omega)
  have hent : simEntry g cnt b = some ⟨p, k, 2 * b.order, readStereo b, false, none⟩ := by
    simp [simEntry, hchain, readBond, hbs, hd]
  have hg2 := hg1.bump_open hg (by omega : p < k + 1) hb hopen hc2
  rw [hent] at hg2
  refine ⟨{ st with mol := _, prevStack := some st.mol.atoms.length :: stk, chainStart := false,
                    i := (if (bondText b).head?.isSome then st.i + 1 else st.i) + 1 },
    fun rest => ?_, ⟨hc1.bump (by omega) hb, hg2, hs.r.bump_chain hg hb hchain hopen⟩, ?_, rfl, rfl⟩
  · rw [atomTextAt_eq ha]
    have := run_atomAttach st p stk rest (bondText b).head? _ a pa _ hstack hread hpa'
      (hg.nonarom pa hpam) (by rw [hstb, hs.size]; exact hbond)
    rw [this]
  · simp [hs.size]

end

end SV
