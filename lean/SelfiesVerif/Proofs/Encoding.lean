/-
  Helper lemmas for property C15: vocabularies (`HasKey`, `vidx`, `VocabOK`), `[nop]` padding
  (`padItems`, `nopPad`), `Except`-`mapM`, and the lemmas tying `labelEncode`, `oneHotRow`,
  `selfiesToEncoding`, `indexOfOne`, `labelToSelfies`, `oneHotToSelfies`, `unflatten` and the two
  batch functions to them.
-/
import SelfiesVerif.Proofs.Tokenize
import SelfiesVerif.Model.Encoding

namespace SV

/-! ### association lists -/

/-- `k in d` -/
def HasKey {α β} [BEq α] (d : List (α × β)) (k : α) : Prop := (lookup k d).isSome = true

instance {α β} [BEq α] (d : List (α × β)) (k : α) : Decidable (HasKey d k) := by
  unfold HasKey; infer_instance

theorem lookup_mem {α β} [BEq α] [LawfulBEq α] {k : α} {v : β} :
    ∀ {d : List (α × β)}, lookup k d = some v → (k, v) ∈ d
  | [], h => by simp [lookup] at h
  | (k', v') :: rest, h => by
    unfold lookup at h
    split at h
    · rename_i hk
      have hk : k' = k := by simpa using hk
      simp only [Option.some.injEq] at h
      subst hk; subst h; exact List.mem_cons_self
    · exact List.mem_cons_of_mem _ (lookup_mem h)

theorem lookup_of_mem {α β} [BEq α] [LawfulBEq α] {k : α} {v : β} :
    ∀ {d : List (α × β)}, (d.map Prod.fst).Nodup → (k, v) ∈ d → lookup k d = some v
  | [], _, h => by simp at h
  | (k', v') :: rest, hnd, h => by
    simp only [List.map_cons, List.nodup_cons] at hnd
    unfold lookup
    rcases List.mem_cons.1 h with h | h
    · simp only [Prod.mk.injEq] at h
      rcases h with ⟨rfl, rfl⟩
      simp
    · have hne : ¬ (k' == k) = true := by
        intro e
        have e : k' = k := by simpa using e
        subst e
        exact hnd.1 (List.mem_map.2 ⟨_, h, rfl⟩)
      simp only [hne]
      exact lookup_of_mem hnd.2 h

theorem hasKey_iff_mem_keys {α β} [BEq α] [LawfulBEq α] {k : α} :
    ∀ {d : List (α × β)}, HasKey d k ↔ k ∈ d.map Prod.fst
  | [] => by simp [HasKey, lookup]
  | (k', v') :: rest => by
    have ih := hasKey_iff_mem_keys (k := k) (d := rest)
    unfold HasKey at ih ⊢
    unfold lookup
    by_cases hk : k' = k
    · subst hk; simp
    · have hne : (k' == k) = false := by simpa using hk
      simp only [hne, Bool.false_eq_true, if_false, ih, List.map_cons, List.mem_cons]
      constructor
      · exact Or.inr
      · rintro (h | h)
        · exact absurd h.symm hk
        · exact h

theorem hasKey_iff_exists {α β} [BEq α] {d : List (α × β)} {k : α} :
    HasKey d k ↔ ∃ v, lookup k d = some v := by
  unfold HasKey
  cases lookup k d <;> simp

theorem not_hasKey_iff {α β} [BEq α] {d : List (α × β)} {k : α} :
    ¬ HasKey d k ↔ lookup k d = none := by
  unfold HasKey
  cases lookup k d <;> simp

/-! ### vocabularies -/

/-- the vocabulary index of a symbol (`0` for a symbol that is not a key; every use is guarded by
    `HasKey`, see `lookup_vidx`) -/
def vidx (stoi : VocabStoi) (x : Str) : Int := (lookup x stoi).getD 0

theorem lookup_vidx {stoi : VocabStoi} {x : Str} (h : HasKey stoi x) :
    lookup x stoi = some (vidx stoi x) := by
  unfold HasKey at h; unfold vidx
  cases hl : lookup x stoi with
  | none => rw [hl] at h; cases h
  | some v => rfl

/--
`vocab_stoi` / `vocab_itos` are a pair of mutually inverse dictionaries
`symbols ↔ {0, …, n-1}`:
* both are dictionaries (pairwise distinct keys) with the same number `n` of entries,
* every value of `stoi` lies in `0 … n-1` and every number in `0 … n-1` is a value,
* `itos[stoi[k]] = k` for every entry of `stoi` and `stoi[itos[v]] = v` for every entry of `itos`.
(Stated over the entries so that it is decidable; `VocabOK.inv`, `VocabOK.range`, `VocabOK.surj`,
`VocabOK.inj` give the quantified forms.)
-/
def VocabOK (stoi : VocabStoi) (itos : VocabItos) : Prop :=
  (stoi.map Prod.fst).Nodup ∧ (itos.map Prod.fst).Nodup ∧
  itos.length = stoi.length ∧
  (∀ p ∈ stoi, 0 ≤ p.2 ∧ p.2 < (stoi.length : Int)) ∧
  (∀ i, i < stoi.length → (i : Int) ∈ stoi.map Prod.snd) ∧
  (∀ p ∈ stoi, lookup p.2 itos = some p.1) ∧
  (∀ q ∈ itos, lookup q.2 stoi = some q.1)

instance (stoi : VocabStoi) (itos : VocabItos) : Decidable (VocabOK stoi itos) := by
  unfold VocabOK; infer_instance

theorem VocabOK.len {stoi itos} (h : VocabOK stoi itos) : itos.length = stoi.length := h.2.2.1

/-- `stoi[k] = v ↔ itos[v] = k` -/
theorem VocabOK.inv {stoi itos} (h : VocabOK stoi itos) (k : Str) (v : Int) :
    lookup k stoi = some v ↔ lookup v itos = some k := by
  obtain ⟨_, _, _, _, _, h1, h2⟩ := h
  constructor
  · intro hk; exact h1 (k, v) (lookup_mem hk)
  · intro hv; exact h2 (v, k) (lookup_mem hv)

/-- the values are in `0 … n-1` -/
theorem VocabOK.range {stoi itos} (h : VocabOK stoi itos) {k : Str} {v : Int}
    (hk : lookup k stoi = some v) : 0 ≤ v ∧ v < (stoi.length : Int) :=
  h.2.2.2.1 (k, v) (lookup_mem hk)

/-- every number in `0 … n-1` is the value of some key -/
theorem VocabOK.surj {stoi itos} (h : VocabOK stoi itos) {v : Int} (h0 : 0 ≤ v)
    (h1 : v < (stoi.length : Int)) : ∃ k, lookup k stoi = some v := by
  obtain ⟨hnd, _, _, _, hs, _, _⟩ := h
  have := hs v.toNat (by omega)
  rw [Int.toNat_of_nonneg h0] at this
  obtain ⟨⟨k, v'⟩, hp, rfl⟩ := List.mem_map.1 this
  exact ⟨k, lookup_of_mem hnd hp⟩

/-- distinct keys have distinct values -/
theorem VocabOK.inj {stoi itos} (h : VocabOK stoi itos) {k k' : Str} {v : Int}
    (hk : lookup k stoi = some v) (hk' : lookup k' stoi = some v) : k = k' := by
  have a := (h.inv k v).1 hk
  have b := (h.inv k' v).1 hk'
  rw [a] at b; exact Option.some.inj b

theorem VocabOK.range_vidx {stoi itos} (h : VocabOK stoi itos) {x : Str} (hx : HasKey stoi x) :
    0 ≤ vidx stoi x ∧ vidx stoi x < (stoi.length : Int) :=
  h.range (lookup_vidx hx)

theorem VocabOK.itos_vidx {stoi itos} (h : VocabOK stoi itos) {x : Str} (hx : HasKey stoi x) :
    lookup (vidx stoi x) itos = some x :=
  (h.inv x _).1 (lookup_vidx hx)

/-! ### `mapM` in the `Except` monad -/

theorem mapM_ok {α β} {f : α → Py β} {g : α → β} :
    ∀ (l : List α), (∀ x ∈ l, f x = .ok (g x)) → l.mapM f = .ok (l.map g)
  | [], _ => rfl
  | x :: xs, h => by
    rw [List.mapM_cons, h x List.mem_cons_self,
      mapM_ok xs (fun y hy => h y (List.mem_cons_of_mem _ hy))]
    rfl

theorem mapM_map_ok {α β γ} {f : β → Py γ} {c : α → β} {g : α → γ} (l : List α)
    (h : ∀ x ∈ l, f (c x) = .ok (g x)) : (l.map c).mapM f = .ok (l.map g) := by
  rw [List.mapM_map]
  exact mapM_ok l h

/-- a successful `mapM` means every element succeeded -/
theorem mapM_ok_inv {α β} {f : α → Py β} :
    ∀ (l : List α) (r : List β), l.mapM f = .ok r → ∀ x ∈ l, ∃ y, f x = .ok y
  | [], _, _ => by simp
  | x :: xs, r, h => by
    rw [List.mapM_cons] at h
    cases hx : f x with
    | error e => rw [hx] at h; cases h
    | ok y =>
      cases hxs : xs.mapM f with
      | error e => rw [hx, hxs] at h; cases h
      | ok ys =>
        intro z hz
        rcases List.mem_cons.1 hz with rfl | hz
        · exact ⟨y, hx⟩
        · exact mapM_ok_inv xs ys hxs z hz

/-- if `f` can only fail with `e` and fails on some element, `mapM f` fails with `e` -/
theorem mapM_error {α β} {f : α → Py β} (e : PyExc) (hf : ∀ x e', f x = .error e' → e' = e) :
    ∀ (l : List α), (∃ x ∈ l, ∃ e', f x = .error e') → l.mapM f = .error e
  | [], h => by simp at h
  | x :: xs, h => by
    rw [List.mapM_cons]
    cases hx : f x with
    | error e' => rw [hf x e' hx]; rfl
    | ok y =>
      have : ∃ z ∈ xs, ∃ e', f z = .error e' := by
        obtain ⟨z, hz, e', he⟩ := h
        rcases List.mem_cons.1 hz with rfl | hz
        · rw [hx] at he; cases he
        · exact ⟨z, hz, e', he⟩
      rw [mapM_error e hf xs this]; rfl

/-! ### padding -/

/-- the items of the padded string: `pad_to_len - len` copies of `[nop]` appended (none if
    `pad_to_len ≤ len`, in particular for negative `pad_to_len`) -/
def padItems (items : List Str) (pad : Int) : List Str :=
  items ++ List.replicate (pad.toNat - items.length) nopSym

/-- the padding text `"[nop]" * (pad_to_len - len)` -/
def nopPad (items : List Str) (pad : Int) : Str :=
  (List.replicate (pad.toNat - items.length) nopSym).flatten

theorem render_padItems (items : List Str) (pad : Int) :
    render (padItems items pad) = render items ++ nopPad items pad := by
  simp [render, padItems, nopPad, List.flatten_append]

theorem length_padItems (items : List Str) (pad : Int) :
    ((padItems items pad).length : Int) = max (items.length : Int) pad := by
  simp only [padItems, List.length_append, List.length_replicate]
  omega

theorem wfGo_append : ∀ (b : Bool) (a c : List Str), wfGo b a → (∀ b', wfGo b' c) →
    wfGo b (a ++ c)
  | b, [], c, _, hc => hc b
  | b, x :: xs, c, h, hc => by
    rcases h with ⟨hx, h⟩ | ⟨h1, h2, h⟩
    · exact Or.inl ⟨hx, wfGo_append true xs c h hc⟩
    · exact Or.inr ⟨h1, h2, wfGo_append false xs c h hc⟩

/-- padding keeps a string well formed (also after a trailing dot: `"[C]." → "[C].[nop]"`) -/
theorem wf_padItems {items : List Str} (h : WF items) (pad : Int) : WF (padItems items pad) := by
  rw [WF_iff_wfGo] at h ⊢
  apply wfGo_append false _ _ h
  intro b
  apply wfGo_of_symbols
  intro s hs
  rw [List.eq_of_mem_replicate hs]
  exact nopSym_isSymbol

theorem hasKey_padItems {stoi : VocabStoi} {items : List Str} {pad : Int}
    (hk : ∀ x ∈ items, HasKey stoi x) (hnop : pad > (items.length : Int) → HasKey stoi nopSym) :
    ∀ x ∈ padItems items pad, HasKey stoi x := by
  intro x hx
  rcases List.mem_append.1 hx with hx | hx
  · exact hk x hx
  · have hpos : pad.toNat - items.length ≠ 0 := by
      intro e; rw [e] at hx; simp at hx
    rw [List.eq_of_mem_replicate hx]
    exact hnop (by omega)

theorem map_padItems {β} (f : Str → β) (items : List Str) (pad : Int) :
    (padItems items pad).map f =
      items.map f ++ List.replicate (pad.toNat - items.length) (f nopSym) := by
  simp [padItems]

/-! ### `labelEncode` -/

theorem labelEncode_ok (stoi : VocabStoi) : ∀ (items : List Str), (∀ x ∈ items, HasKey stoi x) →
    labelEncode stoi items = .ok (items.map (vidx stoi))
  | [], _ => rfl
  | x :: xs, h => by
    have hx := h x List.mem_cons_self
    have ih := labelEncode_ok stoi xs (fun y hy => h y (List.mem_cons_of_mem _ hy))
    have hl := lookup_vidx hx
    have hdot : (x == ['.'] && (lookup ['.'] stoi).isNone) = false := by
      by_cases hd : x = ['.']
      · subst hd; rw [hl]; simp
      · have : (x == ['.']) = false := by simpa using hd
        rw [this]; rfl
    unfold labelEncode
    simp only [hdot, getKey, hl, ih, bind, Except.bind, pure, Except.pure, List.map_cons]
    rfl

/-- `labelEncode` fails only with `KeyError` -/
theorem labelEncode_error_kind (stoi : VocabStoi) : ∀ (items : List Str) (e : PyExc),
    labelEncode stoi items = .error e → e = .KeyError
  | [], e, h => by cases h
  | x :: xs, e, h => by
    unfold labelEncode at h
    simp only [bind, Except.bind, pure, Except.pure, getKey] at h
    split at h
    · cases h; rfl
    · split at h
      · cases h
        rename_i h'
        split at h'
        · cases h'
        · cases h'; rfl
      · split at h
        · exact labelEncode_error_kind stoi xs e (by rename_i h'; rw [h'] at *; exact h ▸ rfl)
        · cases h

theorem labelEncode_ok_inv (stoi : VocabStoi) : ∀ (items : List Str) (r : List Int),
    labelEncode stoi items = .ok r → ∀ x ∈ items, HasKey stoi x
  | [], _, _ => by simp
  | x :: xs, r, h => by
    unfold labelEncode at h
    simp only [bind, Except.bind, pure, Except.pure, getKey] at h
    split at h
    · cases h
    · cases hl : lookup x stoi with
      | none => rw [hl] at h; cases h
      | some v =>
        rw [hl] at h
        cases hr : labelEncode stoi xs with
        | error e => rw [hr] at h; cases h
        | ok r' =>
          intro y hy
          rcases List.mem_cons.1 hy with rfl | hy
          · exact hasKey_iff_exists.2 ⟨v, hl⟩
          · exact labelEncode_ok_inv stoi xs r' hr y hy

/-- an item that is not a key makes `labelEncode` raise `KeyError` (wherever it stands) -/
theorem labelEncode_error (stoi : VocabStoi) (items : List Str)
    (h : ∃ x ∈ items, ¬ HasKey stoi x) : labelEncode stoi items = .error .KeyError := by
  cases hr : labelEncode stoi items with
  | error e => rw [labelEncode_error_kind stoi items e hr]
  | ok r =>
    obtain ⟨x, hx, hn⟩ := h
    exact absurd (labelEncode_ok_inv stoi items r hr x hx) hn

/-! ### one-hot rows -/

/-- `[0] * n` with a `1` at position `i` -/
def hotRow (n i : Nat) : List Nat := (List.replicate n 0).set i 1

theorem oneHotRow_ok {n : Nat} {v : Int} (h0 : 0 ≤ v) (h1 : v < (n : Int)) :
    oneHotRow n v = .ok (hotRow n v.toNat) := by
  unfold oneHotRow hotRow
  rw [if_pos ⟨h0, h1⟩]

theorem hotRow_length (n i : Nat) : (hotRow n i).length = n := by simp [hotRow]

theorem hotRow_getElem? {n i j : Nat} (hj : j < n) :
    (hotRow n i)[j]? = some (if j = i then 1 else 0) := by
  unfold hotRow
  rw [List.getElem?_set, List.getElem?_replicate, List.length_replicate]
  by_cases h : i = j
  · subst h; simp [hj]
  · have h' : ¬ j = i := fun e => h e.symm
    simp [h, h', hj]

theorem hotRow_zero (n : Nat) : hotRow (n + 1) 0 = 1 :: List.replicate n 0 := rfl

theorem hotRow_succ (n i : Nat) : hotRow (n + 1) (i + 1) = 0 :: hotRow n i := rfl

/-- exactly one entry is `1` -/
theorem hotRow_count : ∀ {n i : Nat}, i < n → (hotRow n i).count 1 = 1
  | 0, _, h => by omega
  | n + 1, 0, _ => by
    rw [hotRow_zero, List.count_cons_self, List.count_replicate]; simp
  | n + 1, i + 1, h => by
    rw [hotRow_succ, List.count_cons_of_ne (by decide)]
    exact hotRow_count (by omega)

theorem indexOfOne_hotRow : ∀ {n i : Nat}, i < n →
    indexOfOne ((hotRow n i).map Int.ofNat) = .ok (i : Int)
  | 0, _, h => by omega
  | n + 1, 0, _ => by
    rw [hotRow_zero]; rfl
  | n + 1, i + 1, h => by
    have ih := indexOfOne_hotRow (n := n) (i := i) (by omega)
    rw [hotRow_succ]
    unfold indexOfOne at ih ⊢
    rw [List.map_cons, List.findIdx?_cons]
    have : (Int.ofNat 0 == 1) = false := by decide
    simp only [this, Bool.false_eq_true, if_false]
    cases hf : List.findIdx? (· == 1) ((hotRow n i).map Int.ofNat) with
    | none => rw [hf] at ih; cases ih
    | some k =>
      rw [hf] at ih
      simp only [Except.ok.injEq] at ih
      simp only [Option.map_some, Except.ok.injEq]
      omega

theorem indexOfOne_none {row : List Int} (h : (1 : Int) ∉ row) :
    indexOfOne row = .error .ValueError := by
  unfold indexOfOne
  have : row.findIdx? (· == 1) = none := by
    rw [List.findIdx?_eq_none_iff]
    intro x hx
    simp only [beq_eq_false_iff_ne, ne_eq]
    intro e; subst e; exact h hx
  rw [this]

theorem indexOfOne_error_kind (row : List Int) (e : PyExc) :
    indexOfOne row = .error e → e = .ValueError := by
  unfold indexOfOne
  split
  · intro h; cases h
  · intro h; cases h; rfl

theorem getKey_error_kind {α β} [BEq α] (d : List (α × β)) (k : α) (e : PyExc) :
    getKey d k = .error e → e = .KeyError := by
  unfold getKey
  split
  · intro h; cases h
  · intro h; cases h; rfl

/-! ### `selfiesToEncoding` on a rendered well-formed item list -/

/-- what `selfies_to_encoding` does after the label loop -/
def encFinish (n : Nat) (enc : EncType) (labels : List Int) : Py Encoded :=
  if enc == .label then .ok { label := some labels, oneHot := none }
  else
    match labels.mapM (oneHotRow n) with
    | .error e => .error e
    | .ok rows =>
      if enc == .oneHot then .ok { label := none, oneHot := some rows }
      else .ok { label := some labels, oneHot := some rows }

theorem paddedStr_eq {items : List Str} (h : ∀ x ∈ items, IsItem x) (pad : Int) :
    (if pad > (lenSelfies (render items) : Int)
      then render items ++ (List.replicate (pad - (lenSelfies (render items) : Int)).toNat nopSym).flatten
      else render items) = render (padItems items pad) := by
  rw [lenSelfies_render items h, render_padItems, nopPad]
  split
  · have : (pad - (items.length : Int)).toNat = pad.toNat - items.length := by omega
    rw [this]
  · have : pad.toNat - items.length = 0 := by omega
    rw [this]; simp

theorem selfiesToEncoding_render {items : List Str} (hwf : WF items) (stoi : VocabStoi)
    (pad : Int) {enc : EncType} (henc : enc ≠ .other) :
    selfiesToEncoding (render items) stoi pad enc =
      match labelEncode stoi (padItems items pad) with
      | .error e => .error e
      | .ok labels => encFinish stoi.length enc labels := by
  have hs := splitSelfies_render (wf_padItems hwf pad)
  have henc' : (enc == EncType.other) = false := by simpa using henc
  unfold selfiesToEncoding encFinish
  simp only [bind, Except.bind, pure, Except.pure, paddedStr_eq hwf.1, hs, henc',
    Bool.false_eq_true, if_false]
  cases labelEncode stoi (padItems items pad) with
  | error e => rfl
  | ok v =>
    dsimp only
    split
    · rfl
    · cases List.mapM (oneHotRow stoi.length) v <;> rfl

/-- rows of the one-hot matrix for a label list with all labels in range -/
theorem mapM_oneHotRow {n : Nat} (labels : List Int)
    (h : ∀ v ∈ labels, 0 ≤ v ∧ v < (n : Int)) :
    labels.mapM (oneHotRow n) = .ok (labels.map fun v => hotRow n v.toNat) :=
  mapM_ok labels fun v hv => oneHotRow_ok (h v hv).1 (h v hv).2

/-! ### decoding -/

theorem labelToSelfies_ok {itos : VocabItos} {c : Str → Int} (items : List Str)
    (h : ∀ x ∈ items, lookup (c x) itos = some x) :
    labelToSelfies (items.map c) itos = .ok (render items) := by
  unfold labelToSelfies
  have : (items.map c).mapM (getKey itos) = .ok (items.map id) := by
    apply mapM_map_ok
    intro x hx
    unfold getKey; rw [h x hx]; rfl
  rw [this, List.map_id]; rfl

theorem labelToSelfies_error {itos : VocabItos} {labels : List Int}
    (h : ∃ v ∈ labels, ¬ HasKey itos v) : labelToSelfies labels itos = .error .KeyError := by
  unfold labelToSelfies
  have : labels.mapM (getKey itos) = .error .KeyError := by
    apply mapM_error _ (getKey_error_kind itos)
    obtain ⟨v, hv, hn⟩ := h
    refine ⟨v, hv, .KeyError, ?_⟩
    unfold getKey; rw [not_hasKey_iff.1 hn]
  rw [this]; rfl

/-- the one-hot matrix as the `int` lists `encoding_to_selfies` receives -/
def toIntRows (rows : List (List Nat)) : List (List Int) := rows.map (·.map Int.ofNat)

theorem mapM_indexOfOne_hot {n : Nat} (labels : List Int)
    (h : ∀ v ∈ labels, 0 ≤ v ∧ v < (n : Int)) :
    (toIntRows (labels.map fun v => hotRow n v.toNat)).mapM indexOfOne = .ok labels := by
  unfold toIntRows
  rw [List.map_map]
  have := mapM_map_ok (f := indexOfOne) (c := (fun x => x.map Int.ofNat) ∘ fun v => hotRow n v.toNat)
    (g := id) labels (by
      intro v hv
      have hv := h v hv
      show indexOfOne ((hotRow n v.toNat).map Int.ofNat) = .ok v
      rw [indexOfOne_hotRow (by omega), Int.toNat_of_nonneg hv.1])
  rw [this, List.map_id]

theorem oneHotToSelfies_hot {itos : VocabItos} {n : Nat} (labels : List Int)
    (h : ∀ v ∈ labels, 0 ≤ v ∧ v < (n : Int)) :
    oneHotToSelfies (toIntRows (labels.map fun v => hotRow n v.toNat)) itos =
      labelToSelfies labels itos := by
  unfold oneHotToSelfies
  rw [mapM_indexOfOne_hot labels h]; rfl

theorem oneHotToSelfies_error {itos : VocabItos} {rows : List (List Int)}
    (h : ∃ row ∈ rows, (1 : Int) ∉ row) : oneHotToSelfies rows itos = .error .ValueError := by
  unfold oneHotToSelfies
  have : rows.mapM indexOfOne = .error .ValueError := by
    apply mapM_error _ indexOfOne_error_kind
    obtain ⟨row, hr, hn⟩ := h
    exact ⟨row, hr, .ValueError, indexOfOne_none hn⟩
  rw [this]; rfl

/-! ### flattening and `unflatten` -/

theorem length_flatten_uniform {α} {m : Nat} : ∀ (rows : List (List α)),
    (∀ r ∈ rows, r.length = m) → rows.flatten.length = rows.length * m
  | [], _ => by simp
  | r :: rs, h => by
    have ih := length_flatten_uniform rs (fun x hx => h x (List.mem_cons_of_mem _ hx))
    rw [List.flatten_cons, List.length_append, ih, h r List.mem_cons_self, List.length_cons,
      Nat.succ_mul, Nat.add_comm]

theorem unflatten_flatten {m : Nat} : ∀ (rows : List (List Int)),
    (∀ r ∈ rows, r.length = m) → unflatten m rows.length rows.flatten = rows
  | [], _ => rfl
  | r :: rs, h => by
    have ih := unflatten_flatten rs (fun x hx => h x (List.mem_cons_of_mem _ hx))
    have hr := h r List.mem_cons_self
    rw [List.flatten_cons, List.length_cons, unflatten, List.take_left' hr, List.drop_left' hr, ih]

/-- `unflatten` yields the Python slices `flat[M*i : M*(i+1)]`, `i < L` -/
theorem unflatten_length (m : Nat) : ∀ (l : Nat) (flat : List Int), (unflatten m l flat).length = l
  | 0, _ => rfl
  | l + 1, flat => by rw [unflatten, List.length_cons, unflatten_length m l]

theorem unflatten_getElem? (m : Nat) : ∀ (l : Nat) (flat : List Int) (i : Nat), i < l →
    (unflatten m l flat)[i]? = some ((flat.drop (m * i)).take m)
  | 0, _, _, h => by omega
  | l + 1, flat, 0, _ => by simp [unflatten]
  | l + 1, flat, i + 1, h => by
    rw [unflatten, List.getElem?_cons_succ, unflatten_getElem? m l _ i (by omega), List.drop_drop,
      Nat.mul_succ, Nat.add_comm]

/-! ### the expected encodings, and the per-vector decoder of the batch function -/

/-- the expected label list: the vocabulary indices of the items followed by the index of
    `[nop]`, `pad_to_len - len` times -/
def labelsOf (stoi : VocabStoi) (items : List Str) (pad : Int) : List Int :=
  items.map (vidx stoi) ++ List.replicate (pad.toNat - items.length) (vidx stoi nopSym)

theorem labelsOf_eq (stoi : VocabStoi) (items : List Str) (pad : Int) :
    labelsOf stoi items pad = (padItems items pad).map (vidx stoi) :=
  (map_padItems _ _ _).symm

theorem length_labelsOf (stoi : VocabStoi) (items : List Str) (pad : Int) :
    ((labelsOf stoi items pad).length : Int) = max (items.length : Int) pad := by
  rw [labelsOf_eq, List.length_map, length_padItems]

theorem labelsOf_range {stoi itos} (hv : VocabOK stoi itos) {items : List Str} {pad : Int}
    (hk : ∀ x ∈ items, HasKey stoi x) (hnop : pad > (items.length : Int) → HasKey stoi nopSym) :
    ∀ v ∈ labelsOf stoi items pad, 0 ≤ v ∧ v < (stoi.length : Int) := by
  intro v hv'
  rw [labelsOf_eq] at hv'
  obtain ⟨x, hx, rfl⟩ := List.mem_map.1 hv'
  exact hv.range_vidx (hasKey_padItems hk hnop x hx)

/-- the expected one-hot matrix -/
def hotRowsOf (stoi : VocabStoi) (items : List Str) (pad : Int) : List (List Nat) :=
  (labelsOf stoi items pad).map fun v => hotRow stoi.length v.toNat

/-- what `batch_flat_hot_to_selfies` does with one vector: reshape, then
    `encoding_to_selfies(·, vocab_itos, "one_hot")` -/
def flatHotToSelfies (flat : List Int) (itos : VocabItos) : Py Str :=
  if itos.length = 0 then .error .ZeroDivisionError
  else if flat.length % itos.length ≠ 0 then .error .ValueError
  else oneHotToSelfies (unflatten itos.length (flat.length / itos.length) flat) itos

theorem batchFlatHotToSelfies_eq (batch : List (List Int)) (itos : VocabItos) :
    batchFlatHotToSelfies batch itos = batch.mapM (fun flat => flatHotToSelfies flat itos) := by
  unfold batchFlatHotToSelfies flatHotToSelfies
  congr 1
  funext flat
  by_cases h0 : itos.length = 0
  · simp [h0]
  · by_cases h1 : flat.length % itos.length = 0
    · simp [h0, h1]
    · simp [h0, h1]

/-- a flattened matrix with rows of the vocabulary size is reshaped to itself -/
theorem flatHotToSelfies_flatten {itos : VocabItos} (hpos : 0 < itos.length)
    (rows : List (List Nat)) (hr : ∀ r ∈ rows, r.length = itos.length) :
    flatHotToSelfies (rows.flatten.map Int.ofNat) itos = oneHotToSelfies (toIntRows rows) itos := by
  have hr' : ∀ r ∈ toIntRows rows, r.length = itos.length := by
    intro r hr'
    obtain ⟨r0, h0, rfl⟩ := List.mem_map.1 hr'
    rw [List.length_map]; exact hr r0 h0
  have hfl : rows.flatten.map Int.ofNat = (toIntRows rows).flatten := List.map_flatten
  have hlen := length_flatten_uniform (toIntRows rows) hr'
  have hne : itos.length ≠ 0 := by omega
  unfold flatHotToSelfies
  rw [hfl, hlen, if_neg hne, Nat.mul_mod_left, if_neg (by simp), Nat.mul_div_cancel _ hpos,
    unflatten_flatten _ hr']

end SV
