/-
  C03: the ring requests of a well-formed forest fit (`RingsGood`), and the molecule the decoder
  ends with is the same molecule as the parsed graph.
-/
import SelfiesVerif.Proofs.RoundTripRings
import SelfiesVerif.Proofs.RoundTripFragments

namespace SV

/-! ### general list facts -/

theorem perm_flatMap_congr {α β} {f g : α → List β} : ∀ (l : List α), (∀ a ∈ l, (f a).Perm (g a)) →
    (l.flatMap f).Perm (l.flatMap g)
  | [], _ => List.Perm.refl _
  | a :: l, h => by
    simp only [List.flatMap_cons]
    exact (h a List.mem_cons_self).append
      (perm_flatMap_congr l (fun b hb => h b (List.mem_cons_of_mem _ hb)))

theorem nodup_flatMap_of_key {α β κ} (g : α → List β) (key : β → κ) (k : α → κ) :
    ∀ (l : List α), (∀ a ∈ l, ∀ b ∈ g a, key b = k a) → (l.map k).Nodup →
    (∀ a ∈ l, (g a).Nodup) → (l.flatMap g).Nodup
  | [], _, _, _ => List.nodup_nil
  | a :: l, hk, hn, hg => by
    simp only [List.map_cons, List.nodup_cons] at hn
    simp only [List.flatMap_cons]
    refine List.nodup_append.2 ⟨hg a List.mem_cons_self,
      nodup_flatMap_of_key g key k l (fun a' ha' => hk a' (List.mem_cons_of_mem _ ha')) hn.2
        (fun a' ha' => hg a' (List.mem_cons_of_mem _ ha')), ?_⟩
    intro b hb b' hb' e
    obtain ⟨a', ha', hb'⟩ := List.mem_flatMap.1 hb'
    have h1 := hk a List.mem_cons_self b hb
    have h2 := hk a' (List.mem_cons_of_mem _ ha') b' hb'
    exact hn.1 (List.mem_map.2 ⟨a', ha', by rw [← h2, ← e, h1]⟩)

theorem filter_flatMap_of_key {α β κ} [DecidableEq κ] (g : α → List β) (key : β → κ) (k : α → κ) :
    ∀ (l : List α) (a0 : α), (∀ a ∈ l, ∀ b ∈ g a, key b = k a) → (l.map k).Nodup → a0 ∈ l →
    (l.flatMap g).filter (fun b => key b == k a0) = g a0
  | [], _, _, _, h => by cases h
  | a :: l, a0, hk, hn, hm => by
    simp only [List.map_cons, List.nodup_cons] at hn
    simp only [List.flatMap_cons, List.filter_append]
    by_cases hka : k a = k a0
    · have ha0 : a = a0 := by
        rcases List.mem_cons.1 hm with h | h
        · exact h.symm
        · exact absurd (List.mem_map.2 ⟨a0, h, hka.symm⟩) hn.1
      subst ha0
      have h1 : (g a).filter (fun b => key b == k a) = g a := by
        apply List.filter_eq_self.2
        intro b hb
        simp [hk a List.mem_cons_self b hb]
      have h2 : (l.flatMap g).filter (fun b => key b == k a) = [] := by
        apply List.filter_eq_nil_iff.2
        intro b hb
        obtain ⟨a', ha', hb⟩ := List.mem_flatMap.1 hb
        have := hk a' (List.mem_cons_of_mem _ ha') b hb
        simp only [beq_iff_eq]
        intro e
        exact hn.1 (List.mem_map.2 ⟨a', ha', by rw [← this, e]⟩)
      rw [h1, h2, List.append_nil]
    · have hm' : a0 ∈ l := by
        rcases List.mem_cons.1 hm with h | h
        · exact absurd (by rw [h]) hka
        · exact h
      have h1 : (g a).filter (fun b => key b == k a0) = [] := by
        apply List.filter_eq_nil_iff.2
        intro b hb
        simp only [beq_iff_eq]
        rw [hk a List.mem_cons_self b hb]
        exact hka
      rw [h1, List.nil_append]
      exact filter_flatMap_of_key g key k l a0 (fun a' ha' => hk a' (List.mem_cons_of_mem _ ha')) hn.2 hm'

theorem eq_of_nodup_map {α β} (f : α → β) : ∀ (l : List α), (l.map f).Nodup → ∀ a ∈ l, ∀ b ∈ l,
    f a = f b → a = b
  | [], _, _, h, _, _, _ => by cases h
  | x :: l, hn, a, ha, b, hb, e => by
    simp only [List.map_cons, List.nodup_cons] at hn
    rcases List.mem_cons.1 ha with ha1 | ha1
    · rcases List.mem_cons.1 hb with hb1 | hb1
      · rw [ha1, hb1]
      · exact absurd (List.mem_map.2 ⟨b, hb1, by rw [← e, ha1]⟩) hn.1
    · rcases List.mem_cons.1 hb with hb1 | hb1
      · exact absurd (List.mem_map.2 ⟨a, ha1, by rw [e, hb1]⟩) hn.1
      · exact eq_of_nodup_map f l hn.2 a ha1 b hb1 e

/-- splitting a two-way `flatMap` into the two filtered parts -/
theorem perm_flatMap_two {α β} (p q : α → Bool) (f g : α → β) : ∀ (l : List α),
    (∀ a ∈ l, ¬ (p a = true ∧ q a = true)) →
    (l.flatMap fun a => if p a then [f a] else if q a then [g a] else []).Perm
      ((l.filter q).map g ++ (l.filter p).map f)
  | [], _ => List.Perm.refl _
  | a :: l, h => by
    have ih := perm_flatMap_two p q f g l (fun b hb => h b (List.mem_cons_of_mem _ hb))
    have ha := h a List.mem_cons_self
    simp only [List.flatMap_cons]
    cases hp : p a <;> cases hq : q a
    · simpa [List.filter_cons, hp, hq] using ih
    · simpa [List.filter_cons, hp, hq] using ih
    · simp only [List.filter_cons, hp, hq, if_true, Bool.false_eq_true, if_false, List.map_cons,
        List.singleton_append]
      exact (List.Perm.cons _ ih).trans List.perm_middle.symm
    · exact absurd ⟨hp, hq⟩ ha

/-! ### the closures of a forest -/

/-- the decoder's record for a ring bond of the parsed graph -/
def dirRingB (b : PBond) : DirBond :=
  { src := b.src, dst := b.dst, order := b.order2 / 2,
    stereo := if b.order2 = 2 then b.stereo else none, ring := true }

def recL (c : Nat × Nat × Nat × Option Char × Option Char) : DirBond :=
  { src := c.1, dst := c.2.1, order := c.2.2.1 / 2,
    stereo := if c.2.2.1 = 2 then c.2.2.2.1 else none, ring := true }

def recR (c : Nat × Nat × Nat × Option Char × Option Char) : DirBond :=
  { src := c.2.1, dst := c.1, order := c.2.2.1 / 2,
    stereo := if c.2.2.1 = 2 then c.2.2.2.2 else none, ring := true }

theorem Items.of_mem_closes (i : Nat) : ∀ (its : Items) (c : Nat × Nat × Nat × Option Char × Option Char),
    c ∈ its.closes i → c.2.1 = i ∧ ¬ i < c.1 ∧ (c.1, c.2.2.1, c.2.2.2.2, c.2.2.2.1) ∈ its.rings
  | .nil, _, h => by simp [Items.closes] at h
  | .child _ _ _ rest, c, h => by
    simp only [Items.closes] at h
    simpa [Items.rings] using Items.of_mem_closes i rest c h
  | .ring p o s s' rest, c, h => by
    simp only [Items.closes] at h
    simp only [Items.rings, List.mem_cons]
    split at h
    · obtain ⟨a, b, c'⟩ := Items.of_mem_closes i rest c h
      exact ⟨a, b, Or.inr c'⟩
    · rename_i hip
      rcases List.mem_cons.1 h with rfl | h
      · exact ⟨rfl, hip, Or.inl rfl⟩
      · obtain ⟨a, b, c'⟩ := Items.of_mem_closes i rest c h
        exact ⟨a, b, Or.inr c'⟩

/-- closing and opening ring items together are the ring bonds of the row -/
theorem Items.closes_opens_perm (i : Nat) : ∀ its : Items,
    ((its.closes i).map recR ++ (its.opens i).map recL).Perm ((its.ringRow i).map dirRingB)
  | .nil => List.Perm.refl _
  | .child _ _ _ rest => by
    simpa [Items.closes, Items.opens, Items.ringRow] using Items.closes_opens_perm i rest
  | .ring p o s s' rest => by
    have ih := Items.closes_opens_perm i rest
    simp only [Items.closes, Items.opens, Items.ringRow, List.map_cons]
    by_cases hip : i < p
    · simp only [hip, if_true, List.map_cons]
      refine List.perm_middle.trans (List.Perm.cons _ ih) |>.trans (List.Perm.of_eq ?_)
      rfl
    · simp only [hip, if_false, List.map_cons, List.cons_append]
      refine (List.Perm.cons _ ih).trans (List.Perm.of_eq ?_)
      rfl

theorem closes_sublist_dst (i : Nat) : ∀ its : Items,
    ((its.closes i).map (·.1)).Sublist ((its.row i).map (·.dst))
  | .nil => List.Sublist.refl _
  | .child _ _ _ rest => by
    simp only [Items.closes, Items.row, List.map_cons]
    exact (closes_sublist_dst i rest).cons _
  | .ring p o s s' rest => by
    simp only [Items.closes, Items.row, List.map_cons, ringBond]
    split
    · exact (closes_sublist_dst i rest).cons _
    · simp only [List.map_cons]
      exact (closes_sublist_dst i rest).cons_cons _

theorem ringQueue_eq (f : PForest) : ringQueue f = f.closes.map ringReqOf := by
  unfold ringQueue PForest.closes NodeInfo.ringReqs
  rw [List.map_flatMap]

structure ClosesFacts (f : PForest) : Prop where
  lt : ∀ c ∈ f.closes, c.1 < c.2.1 ∧ c.2.1 < f.nodes.length
  pairs : (f.closes.map fun c => (c.1, c.2.1)).Nodup
  atRight : ∀ n ∈ f.nodes, f.closes.filter (fun c => c.2.1 == n.idx) = n.items.closes n.idx
  atLeft : ∀ n ∈ f.nodes, (n.items.opens n.idx).Perm (f.closes.filter fun c => c.1 == n.idx)

theorem closesFacts {f : PForest} (hwf : f.wf = true) : ClosesFacts f := by
  obtain ⟨hnum, hsimple, hpaired⟩ := PForest.wf_parts hwf
  have hkey : ∀ n ∈ f.nodes, ∀ c ∈ n.items.closes n.idx, c.2.1 = n.idx :=
    fun n _ c hc => (Items.of_mem_closes n.idx n.items c hc).1
  have hnd : (f.nodes.map (·.idx)).Nodup := by rw [hnum]; exact List.nodup_range
  refine ⟨?_, ?_, ?_, ?_⟩
  · intro c hc
    obtain ⟨n, hn, hc⟩ := List.mem_flatMap.1 hc
    obtain ⟨h1, h2, h3⟩ := Items.of_mem_closes n.idx n.items c hc
    have hne := (PForest.simple_node hsimple hn).2 _
      (Items.mem_rings_row n.idx n.items _ _ _ _ h3)
    simp only [ringBond] at hne
    have hlen : n.idx < f.nodes.length :=
      (List.getElem?_eq_some_iff.1 (nodes_getElem_of_mem hnum hn)).1
    omega
  · unfold PForest.closes
    rw [List.map_flatMap]
    refine nodup_flatMap_of_key _ (fun (pr : Nat × Nat) => pr.2) (·.idx) f.nodes ?_ hnd ?_
    · intro n hn pr hpr
      obtain ⟨c, hc, rfl⟩ := List.mem_map.1 hpr
      exact hkey n hn c hc
    · intro n hn
      have h1 : ((n.items.closes n.idx).map (·.1)).Nodup :=
        (closes_sublist_dst n.idx n.items).nodup (PForest.simple_node hsimple hn).1
      have h2 : (((n.items.closes n.idx).map fun c => (c.1, c.2.1)).map (·.1)).Nodup := by
        rw [List.map_map]; exact h1
      exact List.Pairwise.of_map _ (fun a b h e => h (by rw [e])) h2
  · intro n hn
    exact filter_flatMap_of_key (fun n : NodeInfo => n.items.closes n.idx) (·.2.1) (·.idx) f.nodes n
      hkey hnd hn
  · intro n hn
    unfold PForest.ringsPaired at hpaired
    exact List.isPerm_iff.1 (List.all_eq_true.1 hpaired n hn)

/-- the ring records the decoder makes at an atom are, up to order, the records of its closing and
    of its opening ring items -/
theorem ringRecs_perm_items {f : PForest} (hwf : f.wf = true) {n : NodeInfo} (hn : n ∈ f.nodes) :
    (ringRecs (ringQueue f) n.idx).Perm
      ((n.items.closes n.idx).map recR ++ (n.items.opens n.idx).map recL) := by
  have cf := closesFacts hwf
  have h1 : ringRecs (ringQueue f) n.idx
      = f.closes.flatMap fun c => if c.1 == n.idx then [recL c] else if c.2.1 == n.idx then [recR c] else [] := by
    rw [ringQueue_eq, ringRecs, List.flatMap_map]
    congr 1
    funext c
    obtain ⟨l, r, o, sl, sr⟩ := c
    simp only [recAt, ringReqOf, recL, recR, beq_iff_eq]
    split
    · rename_i h; subst h; split <;> rfl
    · split
      · rename_i h; subst h; split <;> rfl
      · rfl
  rw [h1]
  refine (perm_flatMap_two (fun c => c.1 == n.idx) (fun c => c.2.1 == n.idx) recL recR f.closes ?_).trans ?_
  · intro c hc ⟨e1, e2⟩
    have := (cf.lt c hc).1
    simp only [beq_iff_eq] at e1 e2
    omega
  · rw [cf.atRight n hn]
    exact (cf.atLeft n hn).symm.map recL |>.append_left _

/-- (★) … i.e. the ring bonds of its row -/
theorem ringRecs_perm {f : PForest} (hwf : f.wf = true) {n : NodeInfo} (hn : n ∈ f.nodes) :
    (ringRecs (ringQueue f) n.idx).Perm ((n.items.ringRow n.idx).map dirRingB) :=
  (ringRecs_perm_items hwf hn).trans (Items.closes_opens_perm n.idx n.items)

/-! ### the requests fit -/

def halfSum (row : List PBond) : Nat := (row.map fun b => b.order2 / 2).sum

theorem Items.halfSum_row (i : Nat) : ∀ its : Items,
    ordSum ((its.ringRow i).map dirRingB) + ordSum ((its.kidRow i).map dirOf) = halfSum (its.row i)
      ∧ 2 * halfSum (its.row i) ≤ ((its.row i).map (·.order2)).sum
  | .nil => ⟨rfl, by simp [halfSum, Items.row]⟩
  | .ring p o s s' rest => by
    obtain ⟨h1, h2⟩ := Items.halfSum_row i rest
    simp only [ordSum, halfSum, Items.ringRow, Items.kidRow, Items.row, List.map_cons, List.sum_cons,
      List.map_map, dirRingB, ringBond] at h1 h2 ⊢
    constructor <;> omega
  | .child o s t rest => by
    obtain ⟨h1, h2⟩ := Items.halfSum_row i rest
    simp only [ordSum, halfSum, Items.ringRow, Items.kidRow, Items.row, List.map_cons, List.sum_cons,
      List.map_map, dirOf, chainBond, encBondInfo] at h1 h2 ⊢
    constructor <;> omega

theorem Items.kidRow_not_ring (i : Nat) : ∀ (its : Items), ∀ b ∈ its.kidRow i, b.ring = false
  | .nil, _, h => by simp [Items.kidRow] at h
  | .ring _ _ _ _ rest, b, h => Items.kidRow_not_ring i rest b (by simpa [Items.kidRow] using h)
  | .child _ _ _ rest, b, h => by
    simp only [Items.kidRow, List.mem_cons] at h
    rcases h with rfl | h
    · rfl
    · exact Items.kidRow_not_ring i rest b h

theorem chainMol_len (f : PForest) : MolLen (chainMol f) := ⟨by simp [chainMol], by simp [chainMol]⟩

theorem chainMol_adj_getD {f : PForest} (hnum : f.nodes.map (·.idx) = List.range f.nodes.length)
    {n : NodeInfo} (hn : n ∈ f.nodes) : (chainMol f).adj.getD n.idx [] = n.chainRow := by
  have := nodes_getElem_of_mem hnum hn
  simp [chainMol, List.getD, List.getElem?_map, this]

theorem chainMol_counts_getD {f : PForest} (hnum : f.nodes.map (·.idx) = List.range f.nodes.length)
    {n : NodeInfo} (hn : n ∈ f.nodes) : (chainMol f).counts.getD n.idx 0 = n.chainCount := by
  have := nodes_getElem_of_mem hnum hn
  simp [chainMol, List.getD, List.getElem?_map, this]

theorem ordSum_perm {a b : List DirBond} (h : a.Perm b) : ordSum a = ordSum b :=
  (h.map _).sum_nat

theorem ringsGood {T : Table} {f : PForest} (hwf : f.wf = true) (hk : f.kekulized = true)
    (ho : f.obeys T = true) : RingsGood T (chainMol f) (ringQueue f) := by
  obtain ⟨hnum, hsimple, hpaired⟩ := PForest.wf_parts hwf
  have cf := closesFacts hwf
  have hlen : (chainMol f).atoms.length = f.nodes.length := by simp [chainMol]
  rw [ringQueue_eq]
  refine ⟨?_, ?_, ?_, ?_⟩
  · intro q hq
    obtain ⟨c, hc, rfl⟩ := List.mem_map.1 hq
    obtain ⟨h1, h2⟩ := cf.lt c hc
    refine ⟨h1, by rw [hlen]; exact h2, ?_⟩
    -- the order
    obtain ⟨n, hn, hc'⟩ := List.mem_flatMap.1 hc
    obtain ⟨_, _, h3⟩ := Items.of_mem_closes n.idx n.items c hc'
    have := ((PForest.kekulized_node hk hn).2.1 _ (Items.mem_rings_row n.idx n.items _ _ _ _ h3)).1
    exact this.half.1
  · rw [List.map_map]
    exact cf.pairs
  · intro q hq b hb hd
    obtain ⟨c, hc, rfl⟩ := List.mem_map.1 hq
    obtain ⟨h1, h2⟩ := cf.lt c hc
    simp only [ringReqOf] at hb hd
    have hl : c.1 < f.nodes.length := by omega
    have hnm : f.nodes[c.1] ∈ f.nodes := List.getElem_mem hl
    have hidx : (f.nodes[c.1]).idx = c.1 :=
      nodes_idx_of_getElem hnum (List.getElem?_eq_getElem hl)
    rw [← hidx, chainMol_adj_getD hnum hnm] at hb
    obtain ⟨b', hb', rfl⟩ := List.mem_map.1 hb
    have hop : c ∈ (f.nodes[c.1]).items.opens (f.nodes[c.1]).idx :=
      (cf.atLeft _ hnm).mem_iff.2 (List.mem_filter.2 ⟨hc, by simp [hidx]⟩)
    obtain ⟨_, _, hring⟩ := Items.mem_opens _ _ _ hop
    have hrow := Items.mem_rings_row (f.nodes[c.1]).idx (f.nodes[c.1]).items _ _ _ _ hring
    have hkr := Items.kidRow_sub_row _ _ _ hb'
    have := eq_of_nodup_map (·.dst) _ (PForest.simple_node hsimple hnm).1 _ hkr _ hrow
      (by simpa [dirOf, ringBond] using hd)
    have hr := Items.kidRow_not_ring _ _ _ hb'
    rw [this] at hr
    simp [ringBond] at hr
  · intro k a hka
    have hk' : k < f.nodes.length := by
      have := (List.getElem?_eq_some_iff.1 hka).1; rw [hlen] at this; exact this
    obtain ⟨n, hnk⟩ : ∃ n, f.nodes[k]? = some n := ⟨_, List.getElem?_eq_getElem hk'⟩
    have hnm : n ∈ f.nodes := List.mem_of_getElem? hnk
    have hidx : n.idx = k := nodes_idx_of_getElem hnum hnk
    subst hidx
    have ha : a = n.atom := by
      simp only [chainMol, List.getElem?_map, hnk, Option.map_some, Option.some.injEq] at hka
      exact hka.symm
    have hob : (n.count2 : Int) ≤ 2 * n.atom.bondingCapacity T := by
      unfold PForest.obeys at ho
      simpa using List.all_eq_true.1 ho _ hnm
    have hperm := ringRecs_perm hwf hnm
    rw [ringQueue_eq] at hperm
    rw [ordSum_perm hperm, chainMol_counts_getD hnum hnm, ha]
    obtain ⟨e1, e2⟩ := Items.halfSum_row n.idx n.items
    have hinto : 2 * n.intoOrder ≤ n.intoOrder2 := by
      unfold NodeInfo.intoOrder NodeInfo.intoOrder2
      cases n.into <;> simp <;> omega
    have hc2 : n.count2 = n.intoOrder2 + ((n.items.row n.idx).map (·.order2)).sum := rfl
    have hcc : n.chainCount = n.intoOrder + ordSum ((n.items.kidRow n.idx).map dirOf) := rfl
    omega

/-! ### the decoded molecule -/

/-- the molecule the decoder ends with: every atom's ring records in formation order, then its
    chain bonds -/
def finalMol (f : PForest) : Mol :=
  { chainMol f with
    adj := f.nodes.map fun n => ringRecs (ringQueue f) n.idx ++ n.chainRow
    counts := f.nodes.map fun n => n.chainCount + ordSum (ringRecs (ringQueue f) n.idx) }

theorem ringState_chainMol {f : PForest} (hnum : f.nodes.map (·.idx) = List.range f.nodes.length) :
    ringState (chainMol f) (ringQueue f) = finalMol f := by
  have hlen : (chainMol f).atoms.length = f.nodes.length := by simp [chainMol]
  unfold ringState finalMol
  rw [hlen, ← hnum, List.map_map, List.map_map]
  congr 1
  · apply List.map_congr_left
    intro n hn
    simp only [Function.comp, chainMol_adj_getD hnum hn]
  · apply List.map_congr_left
    intro n hn
    simp only [Function.comp, chainMol_counts_getD hnum hn]

theorem decodeGraph_closed {T : Table} {f : PForest} (h : f.ready T = true) (hne : f ≠ []) :
    decodeGraph T f.encode = .ok (finalMol f) := by
  obtain ⟨hwf, hk, _, ho, _, _⟩ := PForest.ready_parts h
  obtain ⟨hnum, _, _⟩ := PForest.wf_parts hwf
  rw [decodeGraph_derive h hne]
  have := formRings_closed T (chainMol f) (chainMol_len f) (ringQueue f) (ringsGood hwf hk ho)
  have hlen : (chainMol f).atoms.length = f.nodes.length := by simp [chainMol]
  rw [hlen, ringState_chainMol hnum] at this
  exact this

/-! ### same molecule -/

def recP (b : PBond) : Nat × Nat × Nat := (min b.src b.dst, max b.src b.dst, b.order2)
def recM (b : DirBond) : Nat × Nat × Nat := (min b.src b.dst, max b.src b.dst, 2 * b.order)

theorem graphOf_records (f : PForest) : (graphOf f).records = f.nodes.flatMap fun n => n.row.map recP := by
  unfold PMol.records
  rw [graphOf_adj, List.flatMap_map]
  congr 1
  funext n
  induction n.row with
  | nil => rfl
  | cons b row ih => simp [recP, ih]

theorem finalMol_records (f : PForest) :
    (finalMol f).records
      = f.nodes.flatMap fun n => (ringRecs (ringQueue f) n.idx ++ n.chainRow).map recM := by
  unfold Mol.records finalMol
  simp only [List.flatMap_map]
  rfl

theorem sameMolecule_final {f : PForest} (hwf : f.wf = true) (hk : f.kekulized = true) :
    SameMolecule (graphOf f) (finalMol f) ∧ (finalMol f).atoms = (graphOf f).atoms := by
  have hat : (finalMol f).atoms = (graphOf f).atoms := rfl
  refine ⟨⟨by rw [hat], ?_, ?_⟩, hat⟩
  · intro i a b ha hb
    rw [hat, ha] at hb
    injection hb with hb
    subst hb
    rw [graphOf_atoms, List.getElem?_map] at ha
    cases hn : f.nodes[i]? with
    | none => rw [hn] at ha; cases ha
    | some n =>
      rw [hn] at ha
      simp only [Option.map_some, Option.some.injEq] at ha
      subst ha
      exact ⟨rfl, rfl, rfl, rfl, (PForest.kekulized_node hk (List.mem_of_getElem? hn)).1⟩
  · rw [graphOf_records, finalMol_records]
    apply perm_flatMap_congr
    intro n hn
    have hrow := (PForest.kekulized_node hk hn).2.1
    have hsplit : n.row.Perm (n.items.ringRow n.idx ++ n.items.kidRow n.idx) := by
      have := List.filter_append_perm (fun b : PBond => b.ring) n.row
      unfold NodeInfo.row at this ⊢
      rw [Items.filter_ring_row] at this
      simp only [Items.filter_chain_row] at this
      exact this.symm
    refine (hsplit.map recP).trans ?_
    rw [List.map_append, List.map_append]
    refine List.Perm.append ?_ (List.Perm.of_eq ?_)
    · refine List.Perm.trans (List.Perm.of_eq ?_) ((ringRecs_perm hwf hn).symm.map recM)
      rw [List.map_map]
      apply List.map_congr_left
      intro b hb
      have hb' : b ∈ n.row := by
        unfold NodeInfo.row; rw [← Items.filter_ring_row] at hb; exact (List.mem_filter.1 hb).1
      have := (hrow b hb').1
      simp only [Function.comp, recP, recM, dirRingB, Prod.mk.injEq, true_and]
      rcases this with h | h | h <;> rw [h]
    · unfold NodeInfo.chainRow
      rw [List.map_map]
      apply List.map_congr_left
      intro b hb
      have := (hrow b (Items.kidRow_sub_row _ _ _ hb)).1
      simp only [Function.comp, recP, recM, dirOf, encBondInfo, Prod.mk.injEq, true_and]
      rcases this with h | h | h <;> rw [h]

end SV
