/-
  Tie (a), index reader: `_read_index_from_selfies` (selfies/decoder.py) as TRANSLATED from the
  Python AST on every run (`Generated/ReadIndexFns.lean`, `SV.Gen.read_index_from_selfies`) equals
  the hand model `SV.readIndex` (Model/Decoder.lean) for every token stream, both `compatible`
  flags and every number of index symbols.

  The translated function is polymorphic in the iterator: it takes the state `ι` and a function
  `py_next : ι → Py ((Nat × Str) × ι)` for `next(symbol_iter)`, exhaustion being
  `.error .StopIteration`; it returns the advanced iterator beside the Python result.  The model's
  `Stream.next` reports exhaustion as `.ok none`; `Stream.pyNext` is the adapter.
-/
import SelfiesVerif.Generated.ReadIndexFns
import SelfiesVerif.Proofs.GenEq2
import SelfiesVerif.Proofs.StreamTotal

set_option linter.unusedSimpArgs false
set_option linter.unusedTactic false
set_option linter.unreachableTactic false

namespace SV

/-- no hand-written fallback was substituted in `Generated/ReadIndexFns.lean` -/
theorem translator_no_fallback_read_index : Gen.translatorFallbacksReadIndex = [] := by decide

/-- `next(symbol_iter)` on the model's token stream, in the translator's iterator protocol -/
def Stream.pyNext (compat : Bool) (s : Stream) : Py ((Nat × Str) × Stream) :=
  match s.next compat with
  | .ok (some x) => .ok x
  | .ok none => .error .StopIteration
  | .error e => .error e

/-- `readIndex` without the final `get_index_from_selfies`: the symbols read (with the `None`
    padding), the count and the stream -/
def readSyms (compat : Bool) : Nat → Stream → List (Option Str) → Nat → Py (Nat × List (Option Str) × Stream)
  | 0, s, acc, nRead => .ok (nRead, acc, s)
  | n + 1, s, acc, nRead =>
    match s.next compat with
    | .ok (some ((_, sym), s')) => readSyms compat n s' (acc ++ [some sym]) (nRead + 1)
    | .ok none => readSyms compat n s (acc ++ [none]) nRead
    | .error e => .error e

theorem readIndex_eq_readSyms (compat : Bool) : ∀ (n : Nat) (s : Stream) (acc : List (Option Str)) (k : Nat),
    readIndex compat n s acc k
      = (readSyms compat n s acc k).map (fun r => (getIndexFromSelfies r.2.1, r.1, r.2.2))
  | 0, s, acc, k => rfl
  | n + 1, s, acc, k => by
    simp only [readIndex, readSyms]
    cases h : s.next compat with
    | error e => rfl
    | ok o =>
      cases o with
      | none => simpa [bind, Except.bind] using readIndex_eq_readSyms compat n s _ k
      | some x =>
        obtain ⟨⟨i, sym⟩, s'⟩ := x
        simpa [bind, Except.bind] using readIndex_eq_readSyms compat n s' _ (k + 1)

/-- the loop of the translated function, for ANY step function that does one `next` -/
theorem foldlM_read (compat : Bool) {β} (step : Int × List (Option Str) × Stream → β → Py (Int × List (Option Str) × Stream))
    (hstep : ∀ (k : Nat) acc s x, step ((k : Int), acc, s) x =
      match s.next compat with
      | .ok (some ((_, sym), s')) => .ok (((k + 1 : Nat) : Int), acc ++ [some sym], s')
      | .ok none => .ok ((k : Int), acc ++ [none], s)
      | .error e => .error e) :
    ∀ (l : List β) (s : Stream) (acc : List (Option Str)) (k : Nat),
      List.foldlM step ((k : Int), acc, s) l
        = (readSyms compat l.length s acc k).map (fun r => (((r.1 : Nat) : Int), r.2.1, r.2.2))
  | [], s, acc, k => rfl
  | x :: l, s, acc, k => by
    simp only [List.foldlM_cons, hstep, List.length_cons, readSyms]
    cases h : s.next compat with
    | error e => rfl
    | ok o =>
      cases o with
      | none => simpa [bind, Except.bind] using foldlM_read compat step hstep l s _ k
      | some y =>
        obtain ⟨⟨i, sym⟩, s'⟩ := y
        simpa [bind, Except.bind] using foldlM_read compat step hstep l s' _ (k + 1)

/-- the whole translated function, for ANY loop step `step` (one `next`) and ANY final part `fin`
    (the call of `get_index_from_selfies` and the `return`) -/
theorem read_shape (compat : Bool) {β}
    (step : Int × List (Option Str) × Stream → β → Py (Int × List (Option Str) × Stream))
    (hstep : ∀ (k : Nat) acc s x, step ((k : Int), acc, s) x =
      match s.next compat with
      | .ok (some ((_, sym), s')) => .ok (((k + 1 : Nat) : Int), acc ++ [some sym], s')
      | .ok none => .ok ((k : Int), acc ++ [none], s)
      | .error e => .error e)
    (fin : Int × List (Option Str) × Stream → Py ((Int × Int) × Stream))
    (hfin : ∀ (k : Nat) acc s, fin ((k : Int), acc, s)
      = .ok ((((getIndexFromSelfies acc : Nat) : Int), (k : Int)), s))
    (l : List β) (n : Nat) (hl : l.length = n) (s : Stream) :
    (List.foldlM step ((0 : Int), [], s) l >>= fin)
      = (readIndex compat n s [] 0).map
          (fun r => ((((r.1 : Nat) : Int), ((r.2.1 : Nat) : Int)), r.2.2)) := by
  subst hl
  have h := foldlM_read compat step hstep l s [] 0
  simp only [Int.natCast_zero] at h
  rw [h, readIndex_eq_readSyms]
  cases readSyms compat l.length s [] 0 with
  | error e => rfl
  | ok r => simp [Except.map, bind, Except.bind, hfin]

/-- one iteration of the translated loop: case analysis on the three outcomes of `Stream.next` -/
macro "read_step " compat:term : tactic =>
  `(tactic| (
    intro k acc s x
    simp only [Stream.pyNext]
    rcases Stream.next_cases $compat s with ⟨h, _⟩ | ⟨h, _⟩ | ⟨i, sym, rest, _, h⟩ <;>
      simp [h, Int.natCast_add] <;> omega))

/-- the unfolded body is a fold with one `next` per step, then the index computation -/
macro "read_index_proof " compat:term:max s:term:max n:term:max : tactic =>
  `(tactic| (
    simp only [Int.toNat_natCast]
    exact read_shape $compat _ (by read_step $compat) _
      (by intros
          simp only [gen_get_index_from_selfies_eq, fallback_get_index_from_selfies_eq, bind,
            Except.bind])
      (List.range $n) $n List.length_range $s))

/-- the hand copy that the translator substitutes when it reports a fallback -/
theorem fallback_read_index_from_selfies_eq (compat : Bool) (s : Stream) (n : Nat) :
    Gen.Fallback.read_index_from_selfies (Stream.pyNext compat) s (n : Int)
      = (readIndex compat n s [] 0).map
          (fun r => ((((r.1 : Nat) : Int), ((r.2.1 : Nat) : Int)), r.2.2)) := by
  unfold Gen.Fallback.read_index_from_selfies
  read_index_proof compat s n

theorem gen_read_index_from_selfies_eq (compat : Bool) (s : Stream) (n : Nat) :
    Gen.read_index_from_selfies (Stream.pyNext compat) s (n : Int)
      = (readIndex compat n s [] 0).map
          (fun r => ((((r.1 : Nat) : Int), ((r.2.1 : Nat) : Int)), r.2.2)) := by
  first
  | (unfold Gen.read_index_from_selfies
     read_index_proof compat s n)
  | exact fallback_read_index_from_selfies_eq compat s n
  | (unfold Gen.read_index_from_selfies
     read_index_proof compat s n)   -- (again, for its error message)

/-! ### non-vacuity on concrete values -/

private def demoStream : Stream :=
  { toks := [(0, "[Ring1]".toList), (1, "[C]".toList), (2, "[N]".toList)], hanging := false }

example : (Gen.read_index_from_selfies (Stream.pyNext false) demoStream 2).map (·.1) = .ok (16, 2) := by
  decide
example : (Gen.read_index_from_selfies (Stream.pyNext false) demoStream 5).map (·.1) = .ok (65536 + 10 * 256, 3) := by
  decide
example : (Gen.read_index_from_selfies (Stream.pyNext false) { toks := [], hanging := true } 1).map (·.1)
    = .error .DecoderError := by decide

end SV
