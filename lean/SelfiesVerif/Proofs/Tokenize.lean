/-
  Helper lemmas for properties C14 / C13: the specification notions
  (`IsSymbol`, `IsItem`, `WF`, `render`, `fragmentsOf`, `specStream`, `NopIns`)
  and the lemmas tying `splitGo`, `splitSelfies`, `lenSelfies`, `alphabetFromSelfies`,
  `splitOnChar '.'`, `tokenizeFragment` and `deriveFragments` to them.
-/
import SelfiesVerif.Model.Decoder

namespace SV

/-! ### specification notions (independent of `splitGo`) -/

/-- the dot item `"."` -/
abbrev dotItem : Str := ['.']

/-- `"[" ++ body ++ "]"` -/
def symbolOf (body : Str) : Str := '[' :: body ++ [']']

/-- the text between the brackets contains no bracket and no dot -/
def BodyOK (body : Str) : Prop := '[' ∉ body ∧ ']' ∉ body ∧ '.' ∉ body

/-- a bracketed symbol -/
def IsSymbol (s : Str) : Prop := ∃ body, BodyOK body ∧ s = symbolOf body

/-- an item of a SELFIES string: a symbol or the dot -/
def IsItem (s : Str) : Prop := IsSymbol s ∨ s = dotItem

/-- Well-formed item list: every item is a symbol or the dot, the first item is not a dot, and
    no two dots are adjacent (so every dot stands directly after a symbol).  A trailing dot
    (after a symbol) is allowed; the empty list is allowed. -/
def WF (items : List Str) : Prop :=
  (∀ x ∈ items, IsItem x) ∧
  (∀ post, items ≠ dotItem :: post) ∧
  (∀ pre post, items ≠ pre ++ dotItem :: dotItem :: post)

/-- the string an item list stands for -/
def render (items : List Str) : Str := items.flatten

/-- the item list cut at the dots (the dots themselves removed): always non-empty,
    `fragmentsOf [] = [[]]` exactly as `"".split(".") == [""]` -/
def fragmentsOf : List Str → List (List Str)
  | [] => [[]]
  | x :: xs =>
    if x = dotItem then [] :: fragmentsOf xs
    else (x :: (fragmentsOf xs).headD []) :: (fragmentsOf xs).tail

/-- the token stream the decoder is expected to see for a fragment made of the symbols `syms`:
    `[nop]` removed, numbered 0,1,2,…, and no hanging bracket -/
def specStream (syms : List Str) : Stream :=
  let t := syms.filter (· != nopSym)
  { toks := (List.range t.length).zip t, hanging := false }

/-- `NopIns a b`: `b` is `a` with any number of `[nop]` symbols inserted at any positions -/
inductive NopIns : List Str → List Str → Prop
  | nil : NopIns [] []
  | keep (x : Str) {a b : List Str} : NopIns a b → NopIns (x :: a) (x :: b)
  | ins {a b : List Str} : NopIns a b → NopIns a (nopSym :: b)

/-- `items'` is `items` with `[nop]`s inserted, and is still well formed -/
def NopInsertion (items items' : List Str) : Prop := NopIns items items' ∧ WF items'

/-! ### decidability of the specification notions (for the non-vacuity examples) -/

theorem isSymbol_iff (s : Str) :
    IsSymbol s ↔ (s = symbolOf (s.tail.dropLast) ∧ BodyOK (s.tail.dropLast)) := by
  constructor
  · rintro ⟨body, hb, rfl⟩
    have : (symbolOf body).tail.dropLast = body := by simp [symbolOf]
    rw [this]; exact ⟨rfl, hb⟩
  · rintro ⟨h1, h2⟩; exact ⟨_, h2, h1⟩

instance (body : Str) : Decidable (BodyOK body) := by unfold BodyOK; infer_instance
instance (s : Str) : Decidable (IsSymbol s) := decidable_of_iff _ (isSymbol_iff s).symm
instance (s : Str) : Decidable (IsItem s) := by unfold IsItem; infer_instance

/-- state-machine form of `WF`: `dotOK` = "a dot may come next" -/
def wfGo : Bool → List Str → Prop
  | _, [] => True
  | dotOK, x :: xs => (IsSymbol x ∧ wfGo true xs) ∨ (dotOK = true ∧ x = dotItem ∧ wfGo false xs)

instance wfGoDec : (b : Bool) → (l : List Str) → Decidable (wfGo b l)
  | _, [] => isTrue trivial
  | b, x :: xs =>
    have := wfGoDec true xs
    have := wfGoDec false xs
    by unfold wfGo; infer_instance

theorem symbol_ne_dot {x : Str} (h : IsSymbol x) : x ≠ dotItem := by
  rcases h with ⟨body, _, rfl⟩
  simp [symbolOf]

theorem dot_not_symbol : ¬ IsSymbol dotItem := fun h => symbol_ne_dot h rfl

theorem wfGo_mono {l : List Str} : wfGo false l → wfGo true l := by
  cases l with
  | nil => intro _; trivial
  | cons x xs =>
    intro h
    rcases h with h | ⟨h, _⟩
    · exact Or.inl h
    · cases h

theorem wfGo_items : ∀ {b : Bool} {l : List Str}, wfGo b l → ∀ x ∈ l, IsItem x
  | _, [], _ => by simp
  | b, y :: ys, h => by
    intro x hx
    rcases List.mem_cons.1 hx with rfl | hx
    · rcases h with ⟨h, _⟩ | ⟨_, h, _⟩
      · exact Or.inl h
      · exact Or.inr h
    · rcases h with ⟨_, h⟩ | ⟨_, _, h⟩
      · exact wfGo_items h x hx
      · exact wfGo_items h x hx

theorem wfGo_no_dd : ∀ {b : Bool} {l : List Str}, wfGo b l →
    ∀ pre post, l ≠ pre ++ dotItem :: dotItem :: post
  | _, [], _ => by intro pre post h; cases pre <;> simp at h
  | b, y :: ys, h => by
    intro pre post heq
    cases pre with
    | nil =>
      simp only [List.nil_append, List.cons.injEq] at heq
      rcases heq with ⟨rfl, rfl⟩
      rcases h with ⟨h, _⟩ | ⟨_, _, h⟩
      · exact dot_not_symbol h
      · rcases h with ⟨h, _⟩ | ⟨h, _⟩
        · exact dot_not_symbol h
        · cases h
    | cons p pre =>
      simp only [List.cons_append, List.cons.injEq] at heq
      rcases heq with ⟨rfl, rfl⟩
      rcases h with ⟨_, h⟩ | ⟨_, _, h⟩
      · exact wfGo_no_dd h pre post rfl
      · exact wfGo_no_dd h pre post rfl

theorem wfGo_of_decl : ∀ (b : Bool) (l : List Str), (∀ x ∈ l, IsItem x) →
    (b = false → ∀ post, l ≠ dotItem :: post) →
    (∀ pre post, l ≠ pre ++ dotItem :: dotItem :: post) → wfGo b l
  | _, [], _, _, _ => trivial
  | b, y :: ys, hit, hhd, hdd => by
    have hy := hit y (List.mem_cons_self)
    have hit' : ∀ x ∈ ys, IsItem x := fun x hx => hit x (List.mem_cons_of_mem _ hx)
    have hdd' : ∀ pre post, ys ≠ pre ++ dotItem :: dotItem :: post := by
      intro pre post h; exact hdd (y :: pre) post (by rw [h]; rfl)
    rcases hy with hy | hy
    · exact Or.inl ⟨hy, wfGo_of_decl true ys hit' (by intro h; cases h) hdd'⟩
    · have hy : y = dotItem := hy
      subst hy
      refine Or.inr ⟨?_, rfl, wfGo_of_decl false ys hit' ?_ hdd'⟩
      · cases b with
        | true => rfl
        | false => exact absurd rfl (hhd rfl ys)
      · intro _ post h; exact hdd [] post (by rw [h]; rfl)

theorem WF_iff_wfGo (l : List Str) : WF l ↔ wfGo false l := by
  constructor
  · rintro ⟨h1, h2, h3⟩
    exact wfGo_of_decl false l h1 (fun _ => h2) h3
  · intro h
    refine ⟨wfGo_items h, ?_, wfGo_no_dd h⟩
    intro post heq; subst heq
    rcases h with ⟨h, _⟩ | ⟨h, _⟩
    · exact dot_not_symbol h
    · cases h

instance (l : List Str) : Decidable (WF l) := decidable_of_iff _ (WF_iff_wfGo l).symm

/-! ### well-formedness of the shapes the encoder emits -/

theorem wfGo_of_symbols : ∀ (b : Bool) (syms : List Str), (∀ s ∈ syms, IsSymbol s) → wfGo b syms
  | _, [], _ => trivial
  | _, s :: ss, h =>
    Or.inl ⟨h s List.mem_cons_self,
      wfGo_of_symbols true ss (fun x hx => h x (List.mem_cons_of_mem _ hx))⟩

/-- a list of symbols (no dots at all) is well formed -/
theorem wf_of_symbols {syms : List Str} (h : ∀ s ∈ syms, IsSymbol s) : WF syms :=
  (WF_iff_wfGo syms).2 (wfGo_of_symbols false syms h)

/-- item list of non-empty symbol lists joined by single dots -/
def joinDots : List (List Str) → List Str
  | [] => []
  | [f] => f
  | f :: g :: rest => f ++ dotItem :: joinDots (g :: rest)

theorem wfGo_append_symbols : ∀ (b : Bool) (syms rest : List Str), (∀ s ∈ syms, IsSymbol s) →
    syms ≠ [] → wfGo true rest → wfGo b (syms ++ rest)
  | _, [], _, _, hne, _ => absurd rfl hne
  | _, [s], rest, h, _, hr => Or.inl ⟨h s List.mem_cons_self, hr⟩
  | _, s :: t :: ss, rest, h, _, hr =>
    Or.inl ⟨h s List.mem_cons_self,
      wfGo_append_symbols true (t :: ss) rest
        (fun x hx => h x (List.mem_cons_of_mem _ hx)) (by simp) hr⟩

theorem wfGo_joinDots : ∀ (b : Bool) (frags : List (List Str)),
    (∀ f ∈ frags, f ≠ [] ∧ ∀ s ∈ f, IsSymbol s) → wfGo b (joinDots frags)
  | _, [], _ => trivial
  | b, [f], h => wfGo_of_symbols b f (h f List.mem_cons_self).2
  | b, f :: g :: rest, h => by
    have hf := h f List.mem_cons_self
    have hrest : ∀ f' ∈ g :: rest, f' ≠ [] ∧ ∀ s ∈ f', IsSymbol s :=
      fun f' hf' => h f' (List.mem_cons_of_mem _ hf')
    have ih := wfGo_joinDots false (g :: rest) hrest
    show wfGo b (f ++ dotItem :: joinDots (g :: rest))
    exact wfGo_append_symbols b f _ hf.2 hf.1 (Or.inr ⟨rfl, rfl, ih⟩)

/-- non-empty symbol lists joined by single dots (the shape `selfies.encoder` emits for a
    multi-fragment molecule) are well formed -/
theorem wf_joinDots {frags : List (List Str)}
    (h : ∀ f ∈ frags, f ≠ [] ∧ ∀ s ∈ f, IsSymbol s) : WF (joinDots frags) :=
  (WF_iff_wfGo _).2 (wfGo_joinDots false frags h)

/-! ### `splitGo` on rendered item lists -/

theorem splitGo_body : ∀ (body : Str) (acc : Str) (b : Bool) (rest : Str), ']' ∉ body →
    splitGo (some acc) b (body ++ ']' :: rest) =
      ((acc ++ body ++ [']']) :: (splitGo none true rest).1, (splitGo none true rest).2)
  | [], acc, b, rest, _ => by simp [splitGo]
  | c :: cs, acc, b, rest, h => by
    have hc : c ≠ ']' := fun e => h (by simp [e])
    have hcs : ']' ∉ cs := fun e => h (List.mem_cons_of_mem _ e)
    have ih := splitGo_body cs (acc ++ [c]) false rest hcs
    simp only [List.cons_append, splitGo, beq_iff_eq, hc, if_false]
    rw [ih]; simp

theorem splitGo_symbol {x : Str} (hx : IsSymbol x) (b : Bool) (rest : Str) :
    splitGo none b (x ++ rest) =
      (x :: (splitGo none true rest).1, (splitGo none true rest).2) := by
  rcases hx with ⟨body, ⟨_, h2, _⟩, rfl⟩
  have : splitGo none b (symbolOf body ++ rest) = splitGo (some ['[']) false (body ++ ']' :: rest) := by
    simp [symbolOf, splitGo]
  rw [this, splitGo_body body ['['] false rest h2]
  simp [symbolOf]

theorem splitGo_render : ∀ (b : Bool) (items : List Str), wfGo b items →
    splitGo none b (render items) = (items, false)
  | _, [], _ => by simp [render, splitGo]
  | b, x :: xs, h => by
    rcases h with ⟨hx, h⟩ | ⟨rfl, rfl, h⟩
    · have ih := splitGo_render true xs h
      show splitGo none b (x ++ render xs) = _
      rw [splitGo_symbol hx, ih]
    · have ih := splitGo_render false xs h
      show splitGo none true ('.' :: render xs) = _
      simp only [splitGo, Bool.true_and, beq_self_eq_true, if_true, ih]

theorem dropWhile_render {items : List Str} (h : wfGo false items) :
    (render items).dropWhile (· != '[') = render items := by
  cases items with
  | nil => rfl
  | cons x xs =>
    rcases h with ⟨⟨body, _, rfl⟩, _⟩ | ⟨h, _⟩
    · simp [render, symbolOf]
    · cases h

theorem splitSelfies_render {items : List Str} (h : WF items) :
    splitSelfies (render items) = (items, false) := by
  have h' := (WF_iff_wfGo items).1 h
  unfold splitSelfies
  rw [dropWhile_render h', splitGo_render false items h']

/-! ### `lenSelfies` -/

theorem count_symbol {x : Str} (h : IsSymbol x) : x.count '[' = 1 ∧ x.count '.' = 0 := by
  rcases h with ⟨body, ⟨h1, _, h3⟩, rfl⟩
  simp [symbolOf, List.count_append, List.count_eq_zero_of_not_mem h1,
    List.count_eq_zero_of_not_mem h3]

theorem lenSelfies_render : ∀ (items : List Str), (∀ x ∈ items, IsItem x) →
    lenSelfies (render items) = items.length
  | [], _ => rfl
  | x :: xs, h => by
    have ih := lenSelfies_render xs (fun y hy => h y (List.mem_cons_of_mem _ hy))
    unfold lenSelfies at ih ⊢
    show List.count '[' (x ++ render xs) + List.count '.' (x ++ render xs) = xs.length + 1
    rw [List.count_append, List.count_append]
    rcases h x List.mem_cons_self with hx | hx
    · have := count_symbol hx; omega
    · have hx : x = dotItem := hx
      subst hx
      have h1 : List.count '[' dotItem = 0 := by decide
      have h2 : List.count '.' dotItem = 1 := by decide
      omega

/-! ### `alphabetFromSelfies` -/

/-- the `set.add` step -/
abbrev addSym (a : List Str) (x : Str) : List Str := if a.contains x then a else a ++ [x]

theorem foldl_addSym_nodup : ∀ (items acc : List Str), acc.Nodup →
    (items.foldl addSym acc).Nodup
  | [], _, h => h
  | x :: xs, acc, h => by
    apply foldl_addSym_nodup xs
    unfold addSym
    split
    · exact h
    · rename_i hc
      have : x ∉ acc := by simpa using hc
      exact List.nodup_append.2 ⟨h, by simp, by
        intro a ha b hb; simp at hb; subst hb; intro e; subst e; exact this ha⟩

theorem mem_foldl_addSym : ∀ (items acc : List Str) (y : Str),
    y ∈ items.foldl addSym acc ↔ y ∈ acc ∨ y ∈ items
  | [], _, _ => by simp
  | x :: xs, acc, y => by
    rw [List.foldl_cons, mem_foldl_addSym xs]
    unfold addSym
    split
    · rename_i hc
      have : x ∈ acc := by simpa using hc
      constructor
      · rintro (h | h)
        · exact Or.inl h
        · exact Or.inr (List.mem_cons_of_mem _ h)
      · rintro (h | h)
        · exact Or.inl h
        · rcases List.mem_cons.1 h with rfl | h
          · exact Or.inl this
          · exact Or.inr h
    · simp only [List.mem_append, List.mem_singleton]
      rw [List.mem_cons]
      constructor
      · rintro ((h | h) | h)
        · exact Or.inl h
        · exact Or.inr (Or.inl h)
        · exact Or.inr (Or.inr h)
      · rintro (h | h | h)
        · exact Or.inl (Or.inl h)
        · exact Or.inl (Or.inr h)
        · exact Or.inr h

theorem alphabet_go_render : ∀ (strs : List (List Str)) (acc : List Str),
    (∀ is ∈ strs, WF is) →
    alphabetFromSelfies.go (strs.map render) acc =
      some (strs.foldl (fun a is => is.foldl addSym a) acc)
  | [], _, _ => rfl
  | is :: rest, acc, h => by
    have h1 := splitSelfies_render (h is List.mem_cons_self)
    have ih := alphabet_go_render rest (is.foldl addSym acc)
      (fun x hx => h x (List.mem_cons_of_mem _ hx))
    simp only [List.map_cons, alphabetFromSelfies.go, h1, List.foldl_cons]
    exact ih

theorem foldl_foldl_addSym_nodup : ∀ (strs : List (List Str)) (acc : List Str), acc.Nodup →
    (strs.foldl (fun a is => is.foldl addSym a) acc).Nodup
  | [], _, h => h
  | is :: rest, acc, h => foldl_foldl_addSym_nodup rest _ (foldl_addSym_nodup is acc h)

theorem mem_foldl_foldl_addSym : ∀ (strs : List (List Str)) (acc : List Str) (y : Str),
    y ∈ strs.foldl (fun a is => is.foldl addSym a) acc ↔ y ∈ acc ∨ ∃ is ∈ strs, y ∈ is
  | [], _, _ => by simp
  | is :: rest, acc, y => by
    rw [List.foldl_cons, mem_foldl_foldl_addSym rest, mem_foldl_addSym]
    simp only [List.mem_cons, exists_eq_or_imp, or_assoc]

/-! ### `splitOnChar '.'` on rendered item lists -/

theorem splitOnChar_ne_nil (sep : Char) : ∀ s : Str, splitOnChar sep s ≠ []
  | [] => by simp [splitOnChar]
  | c :: s => by
    unfold splitOnChar
    split
    · simp
    · split <;> simp

theorem splitOnChar_sep (sep : Char) (s : Str) :
    splitOnChar sep (sep :: s) = [] :: splitOnChar sep s := by
  have := splitOnChar_ne_nil sep s
  rw [splitOnChar]
  cases h : splitOnChar sep s with
  | nil => exact absurd h this
  | cons hd tl => simp

theorem splitOnChar_nosep (sep : Char) : ∀ (a s : Str), sep ∉ a →
    splitOnChar sep (a ++ s) =
      (a ++ (splitOnChar sep s).headD []) :: (splitOnChar sep s).tail
  | [], s, _ => by
    cases h : splitOnChar sep s with
    | nil => exact absurd h (splitOnChar_ne_nil sep s)
    | cons hd tl => simp [h]
  | c :: a, s, hn => by
    have hc : c ≠ sep := fun e => hn (by simp [e])
    have ha : sep ∉ a := fun e => hn (List.mem_cons_of_mem _ e)
    have ih := splitOnChar_nosep sep a s ha
    rw [List.cons_append, splitOnChar, ih]
    simp [hc]

theorem symbol_no_dot {x : Str} (h : IsSymbol x) : '.' ∉ x := by
  rcases h with ⟨body, ⟨_, _, h3⟩, rfl⟩
  simp [symbolOf, h3]

theorem fragmentsOf_ne_nil : ∀ items : List Str, fragmentsOf items ≠ []
  | [] => by simp [fragmentsOf]
  | x :: xs => by unfold fragmentsOf; split <;> simp

theorem splitOnChar_render : ∀ (items : List Str), (∀ x ∈ items, IsItem x) →
    splitOnChar '.' (render items) = (fragmentsOf items).map List.flatten
  | [], _ => rfl
  | x :: xs, h => by
    have ih := splitOnChar_render xs (fun y hy => h y (List.mem_cons_of_mem _ hy))
    rcases h x List.mem_cons_self with hx | hx
    · have hne := symbol_ne_dot hx
      show splitOnChar '.' (x ++ render xs) = _
      rw [splitOnChar_nosep '.' x _ (symbol_no_dot hx), ih]
      simp only [fragmentsOf, hne, if_false, List.map_cons, List.flatten_cons, List.map_tail]
      cases hf : fragmentsOf xs with
      | nil => exact absurd hf (fragmentsOf_ne_nil xs)
      | cons hd tl => simp
    · have hx : x = dotItem := hx
      subst hx
      show splitOnChar '.' ('.' :: render xs) = _
      rw [splitOnChar_sep, ih]
      simp [fragmentsOf]

theorem fragmentsOf_symbols : ∀ (items : List Str), (∀ x ∈ items, IsItem x) →
    ∀ f ∈ fragmentsOf items, ∀ s ∈ f, IsSymbol s
  | [], _ => by simp [fragmentsOf]
  | x :: xs, h => by
    have ih := fragmentsOf_symbols xs (fun y hy => h y (List.mem_cons_of_mem _ hy))
    intro f hf s hs
    unfold fragmentsOf at hf
    split at hf
    · rcases List.mem_cons.1 hf with rfl | hf
      · simp at hs
      · exact ih f hf s hs
    · rename_i hne
      have hx : IsSymbol x := (h x List.mem_cons_self).resolve_right hne
      cases hfr : fragmentsOf xs with
      | nil => exact absurd hfr (fragmentsOf_ne_nil xs)
      | cons hd tl =>
        rw [hfr] at hf ih
        simp only [List.headD_cons, List.tail_cons] at hf
        rcases List.mem_cons.1 hf with rfl | hf
        · rcases List.mem_cons.1 hs with rfl | hs
          · exact hx
          · exact ih hd List.mem_cons_self s hs
        · exact ih f (List.mem_cons_of_mem _ hf) s hs

/-! ### `tokenizeFragment` -/

theorem tokenizeFragment_symbols {syms : List Str} (h : ∀ s ∈ syms, IsSymbol s) :
    tokenizeFragment syms.flatten = specStream syms := by
  have := splitSelfies_render (wf_of_symbols h)
  unfold render at this
  simp only [tokenizeFragment, this, specStream]

theorem decoder_tokens {items : List Str} (h : ∀ x ∈ items, IsItem x) :
    (splitOnChar '.' (render items)).map tokenizeFragment = (fragmentsOf items).map specStream := by
  rw [splitOnChar_render items h, List.map_map]
  apply List.map_congr_left
  intro f hf
  exact tokenizeFragment_symbols (fragmentsOf_symbols items h f hf)

/-! ### `[nop]` insertion -/

theorem nopSym_isSymbol : IsSymbol nopSym := ⟨"nop".toList, by decide, rfl⟩

theorem NopIns.refl : ∀ l : List Str, NopIns l l
  | [] => .nil
  | x :: xs => .keep x (NopIns.refl xs)

theorem NopIns.filter_eq {a b : List Str} (h : NopIns a b) :
    a.filter (· != nopSym) = b.filter (· != nopSym) := by
  induction h with
  | nil => rfl
  | keep x _ ih => simp only [List.filter_cons, ih]
  | ins _ ih => rw [ih]; simp

/-- deleting all `[nop]`s is an instance -/
theorem NopIns.filter (l : List Str) : NopIns (l.filter (· != nopSym)) l := by
  induction l with
  | nil => exact .nil
  | cons x xs ih =>
    by_cases hx : x = nopSym
    · subst hx; simpa [List.filter_cons] using NopIns.ins ih
    · simpa [List.filter_cons, hx] using NopIns.keep x ih

theorem NopIns.items {a b : List Str} (h : NopIns a b) (hb : ∀ x ∈ b, IsItem x) :
    ∀ x ∈ a, IsItem x := by
  induction h with
  | nil => simp
  | keep x _ ih =>
    intro y hy
    rcases List.mem_cons.1 hy with rfl | hy
    · exact hb _ List.mem_cons_self
    · exact ih (fun z hz => hb z (List.mem_cons_of_mem _ hz)) y hy
  | ins _ ih => exact ih (fun z hz => hb z (List.mem_cons_of_mem _ hz))

theorem NopIns.items' {a b : List Str} (h : NopIns a b) (ha : ∀ x ∈ a, IsItem x) :
    ∀ x ∈ b, IsItem x := by
  induction h with
  | nil => simp
  | keep x _ ih =>
    intro y hy
    rcases List.mem_cons.1 hy with rfl | hy
    · exact ha _ List.mem_cons_self
    · exact ih (fun z hz => ha z (List.mem_cons_of_mem _ hz)) y hy
  | ins _ ih =>
    intro y hy
    rcases List.mem_cons.1 hy with rfl | hy
    · exact Or.inl nopSym_isSymbol
    · exact ih ha y hy

/-- inserting `[nop]`s keeps an item list well formed -/
theorem NopIns.wfGo {a b : List Str} (h : NopIns a b) : ∀ d, wfGo d a → wfGo d b := by
  induction h with
  | nil => intro _ h; exact h
  | keep x _ ih =>
    intro d hd
    rcases hd with ⟨hx, hd⟩ | ⟨h1, h2, hd⟩
    · exact Or.inl ⟨hx, ih true hd⟩
    · exact Or.inr ⟨h1, h2, ih false hd⟩
  | ins _ ih =>
    intro d hd
    refine Or.inl ⟨nopSym_isSymbol, ih true ?_⟩
    cases d with
    | true => exact hd
    | false => exact wfGo_mono hd

theorem specStream_filter (syms : List Str) :
    specStream (syms.filter (· != nopSym)) = specStream syms := by
  simp [specStream, List.filter_filter]

theorem fragmentsOf_filter : ∀ (items : List Str),
    fragmentsOf (items.filter (· != nopSym)) =
      (fragmentsOf items).map (List.filter (· != nopSym))
  | [] => rfl
  | x :: xs => by
    have ih := fragmentsOf_filter xs
    by_cases hd : x = dotItem
    · subst hd
      have : (dotItem != nopSym) = true := by decide
      simp [this, fragmentsOf, ih]
    · by_cases hn : x = nopSym
      · subst hn
        have hne : fragmentsOf xs ≠ [] := fragmentsOf_ne_nil xs
        simp only [List.filter_cons, bne_self_eq_false, Bool.false_eq_true, if_false, ih,
          fragmentsOf, hd]
        cases hf : fragmentsOf xs with
        | nil => exact absurd hf hne
        | cons hd tl => simp
      · have hne : fragmentsOf xs ≠ [] := fragmentsOf_ne_nil xs
        have hb : (x != nopSym) = true := by simpa using hn
        simp only [List.filter_cons, hb, if_true, fragmentsOf, hd, if_false, ih]
        cases hf : fragmentsOf xs with
        | nil => exact absurd hf hne
        | cons hd tl => simp [hb]

theorem specStreams_filter (items : List Str) :
    (fragmentsOf (items.filter (· != nopSym))).map specStream =
      (fragmentsOf items).map specStream := by
  rw [fragmentsOf_filter, List.map_map]
  apply List.map_congr_left
  intro f _
  exact specStream_filter f

theorem NopIns.specStreams {a b : List Str} (h : NopIns a b) :
    (fragmentsOf a).map specStream = (fragmentsOf b).map specStream := by
  rw [← specStreams_filter a, ← specStreams_filter b, h.filter_eq]

/-- the decoder sees the same token streams, fragment by fragment -/
theorem NopIns.tokens {a b : List Str} (h : NopIns a b) (hb : ∀ x ∈ b, IsItem x) :
    (splitOnChar '.' (render a)).map tokenizeFragment =
      (splitOnChar '.' (render b)).map tokenizeFragment := by
  rw [decoder_tokens (h.items hb), decoder_tokens hb, h.specStreams]

/-! ### `deriveFragments` depends on the fragments only through `tokenizeFragment` -/

theorem deriveFragments_congr (T : Table) (compat attrib : Bool) :
    ∀ (l l' : List Str), l.map tokenizeFragment = l'.map tokenizeFragment →
      ∀ (m : Mol) (rings : List RingReq) (idx : Nat),
        deriveFragments T compat attrib l m rings idx =
          deriveFragments T compat attrib l' m rings idx
  | [], [], _ => fun _ _ _ => rfl
  | [], _ :: _, h => by simp at h
  | _ :: _, [], h => by simp at h
  | s :: rest, s' :: rest', h => by
    simp only [List.map_cons, List.cons.injEq] at h
    have ih := deriveFragments_congr T compat attrib rest rest' h.2
    intro m rings idx
    simp only [deriveFragments, h.1, ih]

theorem decodeGraph_congr (T : Table) (compat attrib : Bool) (s s' : Str)
    (h : (splitOnChar '.' s).map tokenizeFragment = (splitOnChar '.' s').map tokenizeFragment) :
    decodeGraph T s compat attrib = decodeGraph T s' compat attrib := by
  simp only [decodeGraph, deriveFragments_congr T compat attrib _ _ h]

theorem decoderFull_congr (T : Table) (compat attrib : Bool) (s s' : Str)
    (h : (splitOnChar '.' s).map tokenizeFragment = (splitOnChar '.' s').map tokenizeFragment) :
    decoderFull T s compat attrib = decoderFull T s' compat attrib := by
  simp only [decoderFull, decodeGraph_congr T compat attrib s s' h]

end SV
