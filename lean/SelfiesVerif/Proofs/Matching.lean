/-
  Helper lemmas for C05: the decidable checkers of Spec/Matching.lean decide the spec notions;
  basic facts about `ValidPartial`.
-/
import SelfiesVerif.Spec.Matching

namespace SV

theorem adj_iff_contains (g : Graph) (i j : Nat) : (g.getD i []).contains j = true ↔ Adj g i j := by
  unfold Adj
  rw [List.getD_eq_getElem?_getD]
  cases g[i]? <;> simp

theorem isValidPartial_iff (g : Graph) (m : Matching) : isValidPartial g m = true ↔ ValidPartial g m := by
  unfold isValidPartial
  constructor
  · intro h
    simp only [Bool.and_eq_true, beq_iff_eq, List.all_eq_true, List.mem_range] at h
    refine ⟨h.1, fun i j hij => ?_⟩
    have hi : i < m.length := by
      rcases Nat.lt_or_ge i m.length with h' | h'
      · exact h'
      · rw [List.getElem?_eq_none h'] at hij; cases hij
    have := h.2 i hi
    rw [hij] at this
    simp only [Bool.and_eq_true, decide_eq_true_eq, beq_iff_eq] at this
    exact ⟨this.1.1, (adj_iff_contains g i j).1 this.1.2, this.2⟩
  · intro h
    simp only [Bool.and_eq_true, beq_iff_eq, List.all_eq_true, List.mem_range]
    refine ⟨h.length_eq, fun i _ => ?_⟩
    split
    · rename_i j hij
      obtain ⟨h1, h2, h3⟩ := h.matched i j hij
      simp only [Bool.and_eq_true, decide_eq_true_eq, beq_iff_eq]
      exact ⟨⟨h1, (adj_iff_contains g i j).2 h2⟩, h3⟩
    · rfl

theorem all_isSome_iff (m : Matching) : m.all Option.isSome = true ↔ ∀ i : Nat, m[i]? ≠ some none := by
  simp only [List.all_eq_true]
  constructor
  · intro h i hi
    have := h none (List.mem_of_getElem? hi)
    cases this
  · intro h x hx
    obtain ⟨i, hi⟩ := List.getElem?_of_mem hx
    cases x with
    | none => exact absurd hi (h i)
    | some _ => rfl

theorem isPerfectMatching_iff (g : Graph) (m : Matching) :
    isPerfectMatching g m = true ↔ PerfectMatching g m := by
  unfold isPerfectMatching
  rw [Bool.and_eq_true, isValidPartial_iff, all_isSome_iff]
  exact ⟨fun h => ⟨h.1, h.2⟩, fun h => ⟨h.valid, h.total⟩⟩

theorem getD_of_getElem? {g : Graph} {i : Nat} {l : List Nat} (h : g[i]? = some l) : g.getD i [] = l := by
  rw [List.getD_eq_getElem?_getD, h]; rfl

theorem lt_of_getElem?_some {α} {l : List α} {i : Nat} {x : α} (h : l[i]? = some x) : i < l.length := by
  rcases Nat.lt_or_ge i l.length with h' | h'
  · exact h'
  · rw [List.getElem?_eq_none h'] at h; cases h

theorem isGraphOK_iff (g : Graph) : isGraphOK g = true ↔ GraphOK g := by
  unfold isGraphOK
  simp only [List.all_eq_true, List.mem_range, Bool.and_eq_true, decide_eq_true_eq, bne_iff_ne]
  constructor
  · intro h
    have key : ∀ i j, Adj g i j → j < g.length ∧ j ≠ i ∧ Adj g j i := by
      intro i j ⟨l, hl, hj⟩
      have := (h i (lt_of_getElem?_some hl)).2 j (by rw [getD_of_getElem? hl]; exact hj)
      exact ⟨this.1.1, this.1.2, (adj_iff_contains g j i).1 this.2⟩
    refine ⟨fun i j hij => (key i j hij).1, fun i hii => (key i i hii).2.1 rfl,
      fun i j hij => (key i j hij).2.2, fun i l hl => ?_⟩
    have := (h i (lt_of_getElem?_some hl)).1
    rwa [getD_of_getElem? hl] at this
  · intro h i hi
    have hl : g[i]? = some g[i] := List.getElem?_eq_getElem hi
    rw [getD_of_getElem? hl]
    refine ⟨h.nodup i _ hl, fun j hj => ?_⟩
    have hadj : Adj g i j := ⟨_, hl, hj⟩
    refine ⟨⟨h.inRange i j hadj, fun e => h.noLoop i (e ▸ hadj)⟩, (adj_iff_contains g j i).2 (h.symm i j hadj)⟩

instance (g : Graph) (i j : Nat) : Decidable (Adj g i j) :=
  decidable_of_iff _ (adj_iff_contains g i j)

instance instDecidableAltTail (g : Graph) (m : Matching) : ∀ (b : Nat) (rest : List Nat), Decidable (AltTail g m b rest)
  | b, [] => inferInstanceAs (Decidable (m[b]? = some none))
  | _, [_] => isFalse (fun h => h)
  | b, c :: d :: rest =>
    have := instDecidableAltTail g m d rest
    inferInstanceAs (Decidable (m[b]? = some (some c) ∧ Adj g d c ∧ AltTail g m d rest))

instance (g : Graph) (m : Matching) : ∀ (path : List Nat), Decidable (AugPath g m path)
  | [] => isFalse (fun h => h)
  | [_] => isFalse (fun h => h)
  | a :: b :: rest => inferInstanceAs (Decidable (m[a]? = some none ∧ Adj g b a ∧ AltTail g m b rest))

instance instDecidablePairedAlong (m' : Matching) : ∀ (path : List Nat), Decidable (PairedAlong m' path)
  | [] => isTrue trivial
  | [_] => isFalse (fun h => h)
  | a :: b :: rest =>
    have := instDecidablePairedAlong m' rest
    inferInstanceAs (Decidable (m'[a]? = some (some b) ∧ m'[b]? = some (some a) ∧ PairedAlong m' rest))

/-- a checkable certificate of bipartiteness -/
def isProperColouring (g : Graph) (c : Nat → Bool) : Bool :=
  (List.range g.length).all fun i => (g.getD i []).all fun j => c i != c j

theorem bipartite_of_colouring {g : Graph} (c : Nat → Bool) (h : isProperColouring g c = true) :
    Bipartite g := by
  refine ⟨c, fun i j ⟨l, hl, hj⟩ => ?_⟩
  simp only [isProperColouring, List.all_eq_true, List.mem_range, bne_iff_ne] at h
  have := h i (lt_of_getElem?_some hl) j (by rw [getD_of_getElem? hl]; exact hj)
  exact this

end SV
