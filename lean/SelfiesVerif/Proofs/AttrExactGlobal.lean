/-
  `deriveLoop_walk` lifted to the fragment loop of `decoder`, for both values of `compatible`:
  the `atomAttr` column of the graph `deriveFragments` builds is, entry by entry, what `walkAll`
  (run on the symbols as the derivation sees them) prescribes.
-/
import SelfiesVerif.Proofs.AttrExact

namespace SV
open SV.Spec

/-- the symbols of one fragment as the derivation sees them (modernised when `compatible`) -/
def seenFragment (compat : Bool) (f : Str) : List Str := (fragSymbols f).map (symOf compat)

/-- ... of the whole input, fragment by fragment -/
def seenSymbols (compat : Bool) (s : Str) : List (List Str) :=
  (splitOnChar '.' s).map (seenFragment compat)

theorem seenFragment_length (compat : Bool) (f : Str) : (seenFragment compat f).length = (fragSymbols f).length := by
  simp [seenFragment]

theorem tokenize_get {f : Str} {j : Nat} {t : Nat × Str} (h : (tokenizeFragment f).toks[j]? = some t) :
    t.1 = j ∧ (fragSymbols f)[j]? = some t.2 := by
  have h1 : ((tokenizeFragment f).toks.map (·.1))[j]? = some t.1 := by
    rw [List.getElem?_map, h]; rfl
  rw [tokenize_fst] at h1
  obtain ⟨_, he⟩ := List.getElem?_eq_some_iff.mp h1
  refine ⟨by simpa using he.symm, ?_⟩
  unfold fragSymbols
  rw [List.getElem?_map, h]; rfl

/-- the stream the derivation effectively reads -/
def seenStream (compat : Bool) (f : Str) : Stream :=
  { toks := (tokenizeFragment f).toks.map fun p => (p.1, symOf compat p.2),
    hanging := (tokenizeFragment f).hanging }

theorem seenStream_syms (compat : Bool) (f : Str) :
    (seenStream compat f).toks.map (·.2) = seenFragment compat f := by
  simp [seenStream, seenFragment, fragSymbols, List.map_map, Function.comp_def]

theorem seenStream_length (compat : Bool) (f : Str) :
    (seenStream compat f).toks.length = (fragSymbols f).length := by
  simp [seenStream, fragSymbols]

/-- a top-level call with `compatible` is a `compatible=False` call on the seen stream, with the
    same graph and the same count -/
theorem deriveTop_seen {T : Table} {compat : Bool} {f : Str} {m : Mol} {rings : List RingReq} {ai : Nat}
    {r : DState × Nat} {fuel : Nat}
    (h : deriveLoop T compat fuel 0 { stream := tokenizeFragment f, mol := m, rings := rings }
      none 0 0 none (some []) ai = .ok r) :
    ∃ r', deriveLoop T false fuel 0 { stream := seenStream compat f, mol := m, rings := rings }
      none 0 0 none (some []) ai = .ok r' ∧ r'.1.mol = r.1.mol ∧ r'.1.rings = r.1.rings ∧ r'.2 = r.2 := by
  cases compat with
  | false =>
    refine ⟨r, ?_, rfl, rfl, rfl⟩
    have e : seenStream false f = tokenizeFragment f := by
      simp [seenStream, symOf]
    rw [e]; exact h
  | true =>
    have := C18.deriveLoop_sim T fuel 0 { stream := tokenizeFragment f, mol := m, rings := rings }
      none 0 0 none (some []) ai
    rw [h] at this
    exact ⟨_, this, rfl, rfl, rfl⟩

theorem getD_mid (A F B : List Str) {j : Nat} {x : Str} (h : F[j]? = some x) :
    (A ++ F ++ B).getD (A.length + j) [] = x := by
  have hlt := (List.getElem?_eq_some_iff.mp h).1
  rw [List.getD_eq_getElem?_getD, List.append_assoc, List.getElem?_append_right (by omega),
    Nat.add_sub_cancel_left, List.getElem?_append_left hlt, h]
  rfl

/-- one fragment -/
theorem deriveTop_walk {T : Table} {compat : Bool} {A B : List Str} {f : Str} {m : Mol}
    {rings : List RingReq} {r : DState × Nat}
    (h : deriveLoop T compat ((tokenizeFragment f).toks.length + 1) 0
      { stream := tokenizeFragment f, mol := m, rings := rings } none 0 0 none (some []) A.length = .ok r) :
    r.2 = (fragSymbols f).length ∧
    r.1.mol.atomAttr = m.atomAttr ++
      (walk T ((seenFragment compat f).length + 1) none 0 A.length (seenFragment compat f)).made.map
        (attrOf (fun j => symOf compat ((A ++ fragSymbols f ++ B).getD j [])) []
          (walk T ((seenFragment compat f).length + 1) none 0 A.length (seenFragment compat f)).spans) := by
  obtain ⟨r', h', e1, _, e3⟩ := deriveTop_seen h
  have hnum : Numbered (fun j => symOf compat ((A ++ fragSymbols f ++ B).getD j [])) A.length A.length
      (seenStream compat f).toks := by
    apply Numbered.of_get
    intro j t hj
    simp only [seenStream, List.getElem?_map, Option.map_eq_some_iff] at hj
    obtain ⟨t0, ht0, rfl⟩ := hj
    obtain ⟨g1, g2⟩ := tokenize_get ht0
    refine ⟨by simp only; omega, ?_⟩
    simp only
    rw [getD_mid A _ B g2]
  have hw := deriveLoop_walk T _ _ _ _ _ _ _ _ _ _ _ ((seenFragment compat f).length + 1) A.length h'
    (by simp only [seenStream_length, seenFragment_length]; omega) hnum
  simp only [seenStream_syms] at hw
  have hb : bud none 0 = none := rfl
  rw [hb] at hw
  obtain ⟨pre, a1, a2, a3, a4⟩ := hw
  rw [walk_none T _ _ _ _ (Nat.lt_succ_self _)] at a3
  have hnil : r'.1.stream.toks = [] := by
    cases hh : r'.1.stream.toks with
    | nil => rfl
    | cons _ _ => rw [hh] at a3; cases a3
  rw [hnil, List.append_nil] at a1
  refine ⟨?_, ?_⟩
  · rw [← e3, a2, ← a1, seenStream_length]; omega
  · rw [← e1]; exact a4

theorem deriveFragments_walk (T : Table) (compat : Bool) (L : List Str) :
    ∀ (frags done : List Str) (m : Mol) (rings : List RingReq) (ai : Nat) (r : Mol × List RingReq),
    deriveFragments T compat true frags m rings ai = .ok r →
    L = (done ++ frags).flatMap fragSymbols → ai = (done.flatMap fragSymbols).length →
    r.1.atomAttr = m.atomAttr ++
      (walkAll T (frags.map (seenFragment compat)) ai).made.map
        (attrOf (fun j => symOf compat (L.getD j [])) []
          (walkAll T (frags.map (seenFragment compat)) ai).spans) := by
  intro frags
  induction frags with
  | nil =>
    intro done m rings ai r h _ _
    simp only [deriveFragments] at h
    cases h
    simp [walkAll]
  | cons f rest ih =>
    intro done m rings ai r h hL hai
    simp only [deriveFragments, if_true] at h
    bind_at h with ⟨⟨st, n⟩, h1, h⟩
    have hL' : L = done.flatMap fragSymbols ++ fragSymbols f ++ rest.flatMap fragSymbols := by
      rw [hL]; simp
    subst hai
    obtain ⟨e1, e2⟩ := deriveTop_walk (B := rest.flatMap fragSymbols) h1
    simp only at e1 e2
    rw [← hL', seenFragment_length, ← e1] at e2
    have hrec := ih (done ++ [f]) _ _ _ _ h (by rw [hL]; simp) (by rw [e1]; simp)
    simp only [List.map_cons, walkAll]
    rw [seenFragment_length, ← e1]
    have w1 := (walk_within T ((seenFragment compat f).length + 1) none 0 (done.flatMap fragSymbols).length
      (seenFragment compat f)).2
    rw [walk_none T _ _ _ _ (Nat.lt_succ_self _), List.length_nil, Nat.sub_zero, seenFragment_length, ← e1] at w1
    have w2 := walkAll_within T (rest.map (seenFragment compat)) ((done.flatMap fragSymbols).length + n)
    rw [hrec, e2, List.map_append, List.append_assoc]
    congr 2
    · apply List.map_congr_left
      intro k hk
      simp only [attrOf, encl_append_left w1 w2 hk]
    · apply List.map_congr_left
      intro k hk
      simp only [attrOf, encl_append_right w1 w2 hk]

end SV
