/-
  C01r, stages (c)/(d), whole string: one fragment (`parseFragment`), then the fragment loop of
  `smiles_to_mol`.  At the end of a fragment the parser's ring log must be empty: this is where
  "no ring bond joins two fragments" (`Mol.RingsLocal`) is used.
-/
import SelfiesVerif.Proofs.ReaderSimTree
import SelfiesVerif.Proofs.WriterOrder
import SelfiesVerif.Proofs.ParserSteps

namespace SV

/-- every bond of every atom below `k` has been read -/
def cntUpTo (g : Mol) (k : Nat) : Nat → Nat := fun j => if j < k then (g.row j).length else 0

/-- the invariant between two fragments (the parser's ring log is empty) -/
structure MSim (g : Mol) (k : Nat) (log : RingLog) (rts : List Nat) (m : PMol) : Prop where
  c : CSim g k (cntUpTo g k)
  gr : GSim g k (cntUpTo g k) rts m
  r : RSim g (cntUpTo g k) log []

section
variable {g : Mol}

/-- the units of one fragment, read from the initial state of `_derive_mol_from_tokens` -/
theorem sim_fragment (hg : WGraph g) (hR : AtomsRead g) {r m : Nat} {log : RingLog} {rts : List Nat}
    {mol : PMol} (i0 : Nat) (hr : r < g.atoms.length) (hvis : visits g g.atoms.length r = List.range' r m)
    (hs : MSim g r log rts mol) :
    ∃ st', (∀ rest, parseFragmentLoop false (rLex log (rFrag g r) ++ rest) (fragInit mol i0)
              = parseFragmentLoop false rest st') ∧
      RdSim g (r + m) (cntUpTo g (r + m)) (rLog log (rFrag g r)) (rts ++ [r]) st' ∧
      (∃ j', st'.prevStack = [some j']) ∧ st'.branchDepth = 0 ∧ st'.chainStart = false := by
  obtain ⟨f, hf⟩ : ∃ f, g.atoms.length = f + 1 := ⟨g.atoms.length - 1, by omega⟩
  have hs0 : RdSim g r (cntUpTo g r) log rts (fragInit mol i0) := ⟨hs.c, hs.gr, hs.r⟩
  rw [hf, visits_succ] at hvis
  obtain ⟨_, hm1, hvis'⟩ := range'_cons_inv hvis
  obtain ⟨st1, hrun1, hs1, hst1, hbd1, hcs1⟩ := step_root hg hR hs0 hr [] rfl none
  have hci : cntUpTo g r r = 0 := by simp [cntUpTo]
  obtain ⟨st2, hrun2, hs2, hst2, hbd2, hcs2⟩ :=
    simB hg (simA hg hR f) (g.row r) r 0 (r + 1) (m - 1) st1 (cntUpTo g r) log (rts ++ [r]) [] (by simp)
      (by omega) (by omega) hci hvis' hs1 hst1 hcs1
  refine ⟨st2, fun rest => ?_, ?_, hst2, by rw [hbd2, hbd1]; rfl, hcs2⟩
  · unfold rFrag
    rw [hf]
    simp only [rAtom, rLex, List.cons_append]
    have : (([] : Str).head?) = none := rfl
    rw [this, hrun1, hrun2]
  · have e1 : r + 1 + (m - 1) = r + m := by omega
    have e2 : cntB g (cntUpTo g r) r (r + 1) (m - 1) = cntUpTo g (r + m) := by
      funext j
      unfold cntB cntUpTo
      by_cases hj : j = r
      · subst hj
        have : j < j + m := by omega
        simp [this]
      · by_cases h1 : r + 1 ≤ j ∧ j < r + 1 + (m - 1)
        · have h2 : j < r + m := by omega
          simp [hj, h1, h2]
        · by_cases h3 : j < r
          · have h2 : j < r + m := by omega
            simp [hj, h1, h2, h3]
          · have h2 : ¬ j < r + m := by omega
            simp [hj, h1, h2, h3]
    rw [e1, e2] at hs2
    unfold rFrag
    rw [hf]
    simpa [rAtom, rLog_atom] using hs2

/-- when every bond of every atom below `k` has been read and no ring bond leaves the atoms below
    `k`, the parser's ring log is empty -/
theorem ringLog_nil (hg : WGraph g) {k : Nat} {log : RingLog} {rl : List RingOpen}
    (hr : RSim g (cntUpTo g k) log rl)
    (hloc : ∀ j, j < k → ∀ x ∈ g.row j, x.ring = true → x.dst < k) : rl = [] := by
  cases rl with
  | nil => rfl
  | cons e rest =>
    exfalso
    obtain ⟨x, n, h1, h2, h3, h4, _⟩ := hr.sound e (by simp)
    have hjk : e.atom < k := by
      unfold cntUpTo at h2
      by_cases h : e.atom < k
      · exact h
      · simp [h] at h2
    have hxm := getElem?_mem_row h1
    have hplt := hg.row_mem_lt hxm
    have hxs : x.src = e.atom := hg.row_src hxm
    have hdk := hloc e.atom hjk x hxm h3
    obtain ⟨row', hrow', y, hy, _, hy2, _, _⟩ := hg.mirror e.atom _ (hg.row_get hplt) x hxm h3
    have hdlt : x.dst < g.atoms.length := (hg.row_bonds hplt x hxm).2.1
    rw [hg.row_get hdlt] at hrow'
    cases hrow'
    rw [closedB_false_iff] at h4
    apply h4 y _ hy2
    unfold procd cntUpTo
    simp [hdk, hy]

/-- one call of `_derive_mol_from_tokens` on the units of a fragment followed by `tail`
    (nothing, or a DOT and more tokens) -/
theorem sim_parseFragment (hg : WGraph g) (hR : AtomsRead g) {r m : Nat} {log : RingLog} {rts : List Nat}
    {mol : PMol} (i0 : Nat) (hr : r < g.atoms.length) (hvis : visits g g.atoms.length r = List.range' r m)
    (hs : MSim g r log rts mol)
    (hloc : ∀ j, j < r + m → ∀ x ∈ g.row j, x.ring = true → x.dst < r + m)
    (tail : List SmilesTok) (htail : tail = [] ∨ ∃ more, tail = dotTok :: more) :
    ∃ mol' i', parseFragment false (rLex log (rFrag g r) ++ tail) mol i0
        = .ok (mol', i', tail.tail) ∧
      MSim g (r + m) (rLog log (rFrag g r)) (rts ++ [r]) mol' := by
  obtain ⟨st', hrun, hs', ⟨j', hst'⟩, hbd', hcs'⟩ := sim_fragment hg hR i0 hr hvis hs
  have hnil := ringLog_nil hg hs'.r hloc
  have hsz : st'.mol.size ≠ 0 := by
    unfold PMol.size
    rw [hs'.size]
    obtain ⟨f, hf⟩ : ∃ f, g.atoms.length = f + 1 := ⟨g.atoms.length - 1, by omega⟩
    have hv := hvis
    rw [hf, visits_succ] at hv
    obtain ⟨_, hm1, _⟩ := range'_cons_inv hv
    omega
  have hloop : parseFragmentLoop false (rLex log (rFrag g r) ++ tail) (fragInit mol i0)
      = .ok (st', tail.tail) := by
    rw [hrun]
    rcases htail with rfl | ⟨more, rfl⟩
    · simp [parseFragmentLoop]
    · rw [parseFragmentLoop]
      simp [hst', dotTok, bind, Except.bind, pure, Except.pure]
  refine ⟨st'.mol, st'.i, ?_, ⟨hs'.c, hs'.gr, by rw [← hnil]; exact hs'.r⟩⟩
  unfold parseFragment
  have : ({ mol := mol, prevStack := [none], branchDepth := 0, ringLog := [], chainStart := true,
            i := i0 } : ParseSt) = fragInit mol i0 := rfl
  rw [this, hloop]
  simp [bind, Except.bind, pure, Except.pure, hsz, hbd', hnil]

end

end SV
