/-
  C01r / C10r: definitions shared by the "reader" proofs.

  `readMol g` is the graph the library's own SMILES parser is specified to build when it reads the
  decoder's output for the decoded graph `g` back in: the same atoms, roots and bonds, every
  adjacency row in the same order, orders in half units, the stereo mark kept exactly where the
  writer writes it (single bonds, `/` or `\`), no attribution, no delocalisation subgraph.
-/
import SelfiesVerif.Spec.SmilesTokens
import SelfiesVerif.Model.SmilesParser

namespace SV

/-- the stereo mark of a stored bond that survives writing (`bond_to_smiles`) and reading
    (`smiles_to_bond`): only a single bond is written with its mark, and only `/` and `\` are -/
def readStereo (b : DirBond) : Option Char :=
  if b.order = 1 then
    match b.stereo with
    | some c => if Gen.smilesStereoBonds.contains c then some c else none
    | none => none
  else none

/-- the parser's record for the decoder's bond record `b` -/
def readBond (b : DirBond) : PBond :=
  { src := b.src, dst := b.dst, order2 := 2 * b.order, stereo := readStereo b, ring := b.ring, attr := none }

/-- adjacency lists: bond for bond, in the same order, no placeholder -/
def readAdj (g : Mol) : List (List (Option PBond)) := g.adj.map fun row => row.map fun b => some (readBond b)

/-- the parsed graph of the written decoded graph -/
def readMol (g : Mol) : PMol :=
  { atoms := g.atoms
    roots := g.roots
    adj := readAdj g
    counts2 := g.counts.map (2 * ·)
    ringFlags := g.adj.map fun row => row.any (·.ring)
    ds := []
    atomAttr := g.atoms.map fun _ => none }

/-- no ring bond joins two fragments: the two ends of every ring bond lie on the same side of every
    root (the atoms of a fragment are the indices from its root up to the next root) -/
def Mol.RingsLocal (g : Mol) : Prop :=
  ∀ row ∈ g.adj, ∀ b ∈ row, b.ring = true → ∀ r ∈ g.roots, (r ≤ b.src ↔ r ≤ b.dst)

instance (g : Mol) : Decidable g.RingsLocal := by unfold Mol.RingsLocal; infer_instance

/-- number of ring bonds (each is stored at both ends) -/
def Mol.ringHalves (g : Mol) : Nat := (g.adj.flatten.filter (·.ring)).length

end SV
