/-
  Helper lemmas for property C10 (symbol level): the SMILES atom reader `smilesToAtom`, the SMILES
  atom writer `atomToSmiles`, and the SELFIES atom-symbol reader `processAtomSelfiesNoCache`.

  The generated tables are used only through explicit side conditions (`AsciiDigitsOK`,
  `ElementTablesOK`), discharged by `decide` / `decide +kernel`.
-/
import SelfiesVerif.Proofs.Digits
import SelfiesVerif.Model.Encoder

namespace SV

/-! ### characters as code points -/

theorem char_eq_iff (a b : Char) : a = b ↔ a.toNat = b.toNat := by
  constructor
  · rintro rfl; rfl
  · intro h; exact Char.ext (UInt32.toNat_inj.1 h)

theorem isBondChar_iff (c : Char) :
    isBondChar c = true ↔ c.toNat = 61 ∨ c.toNat = 35 ∨ c.toNat = 47 ∨ c.toNat = 92 := by
  simp only [isBondChar, Bool.or_eq_true, beq_iff_eq, char_eq_iff]
  simp only [Char.reduceToNat]
  omega

theorem isAsciiUpper_not_lower {c : Char} (h : isAsciiUpper c = true) : isAsciiLower c = false := by
  rw [Bool.eq_false_iff, ne_eq, isAsciiLower_iff]; rw [isAsciiUpper_iff] at h; omega

theorem isAsciiUpper_not_digit {c : Char} (h : isAsciiUpper c = true) : isAsciiDigit c = false := by
  rw [Bool.eq_false_iff, ne_eq, isAsciiDigit_iff]; rw [isAsciiUpper_iff] at h; omega

theorem isAsciiLower_not_digit {c : Char} (h : isAsciiLower c = true) : isAsciiDigit c = false := by
  rw [Bool.eq_false_iff, ne_eq, isAsciiDigit_iff]; rw [isAsciiLower_iff] at h; omega

theorem isAsciiUpper_not_bond {c : Char} (h : isAsciiUpper c = true) : isBondChar c = false := by
  rw [Bool.eq_false_iff, ne_eq, isBondChar_iff]; rw [isAsciiUpper_iff] at h; omega

theorem isAsciiDigit_not_bond {c : Char} (h : isAsciiDigit c = true) : isBondChar c = false := by
  rw [Bool.eq_false_iff, ne_eq, isBondChar_iff]; rw [isAsciiDigit_iff] at h; omega

theorem isAsciiDigit_not_lower {c : Char} (h : isAsciiDigit c = true) : isAsciiLower c = false := by
  rw [Bool.eq_false_iff, ne_eq, isAsciiLower_iff]; rw [isAsciiDigit_iff] at h; omega

theorem isAsciiUpper_not_decimal (ok : AsciiDigitsOK) {c : Char} (h : isAsciiUpper c = true) :
    isDecimal c = false :=
  isDecimal_ascii_false ok (by rw [isAsciiUpper_iff] at h; omega) (isAsciiUpper_not_digit h)

theorem isAsciiLower_not_decimal (ok : AsciiDigitsOK) {c : Char} (h : isAsciiLower c = true) :
    isDecimal c = false :=
  isDecimal_ascii_false ok (by rw [isAsciiLower_iff] at h; omega) (isAsciiLower_not_digit h)

/-! ### `List.span` -/

theorem span_loop_eq {α} (p : α → Bool) :
    ∀ l₁ l₂ : List α, List.span.loop p l₁ l₂ = (l₂.reverse ++ l₁.takeWhile p, l₁.dropWhile p)
  | [], l₂ => by simp [List.span.loop]
  | a :: l, l₂ => by
    cases hp : p a <;> simp [hp, List.span.loop, span_loop_eq p l, List.takeWhile, List.dropWhile]

theorem span_eq_tw_dw {α} (p : α → Bool) (l : List α) :
    l.span p = (l.takeWhile p, l.dropWhile p) := by
  simpa [List.span] using span_loop_eq p l []

theorem span_append_stop {α} (p : α → Bool) (a : List α) (c : α) (r : List α)
    (ha : ∀ x ∈ a, p x = true) (hc : p c = false) : (a ++ c :: r).span p = (a, c :: r) := by
  rw [span_eq_tw_dw, List.takeWhile_append_of_pos ha,
    List.dropWhile_append_of_pos ha, List.takeWhile_cons_of_neg (by simp [hc]),
    List.dropWhile_cons_of_neg (by simp [hc]), List.append_nil]

theorem span_fst_all {α} (p : α → Bool) (s : List α) : ∀ x ∈ (s.span p).1, p x = true := by
  rw [span_eq_tw_dw]
  simp only
  induction s with
  | nil => simp
  | cons a s ih =>
    intro x hx
    rw [List.takeWhile_cons] at hx
    split at hx
    · rcases List.mem_cons.1 hx with rfl | h
      · assumption
      · exact ih x h
    · cases hx

theorem span_append_eq {α} (p : α → Bool) (s : List α) : (s.span p).1 ++ (s.span p).2 = s := by
  rw [span_eq_tw_dw]
  exact List.takeWhile_append_dropWhile

theorem span_snd_length_le {α} (p : α → Bool) (s : List α) : (s.span p).2.length ≤ s.length := by
  have := congrArg List.length (span_append_eq p s)
  rw [List.length_append] at this; omega

/-! ### `StartsIn`: the next character of the remainder is one of a known finite set -/

/-- `r` is non-empty and its first character is in `S` -/
def StartsIn (S : List Char) (r : Str) : Prop := ∃ c s, r = c :: s ∧ c ∈ S

theorem StartsIn.mono {S S' : List Char} {r : Str} (h : StartsIn S r) (hS : ∀ c ∈ S, c ∈ S') :
    StartsIn S' r := by
  obtain ⟨c, s, rfl, hc⟩ := h
  exact ⟨c, s, rfl, hS c hc⟩

theorem StartsIn.cons {S : List Char} (c : Char) (s : Str) (h : c ∈ S) : StartsIn S (c :: s) :=
  ⟨c, s, rfl, h⟩

theorem StartsIn.append {S : List Char} {a r : Str} (hr : StartsIn S r)
    (ha : ∀ c s, a = c :: s → c ∈ S) : StartsIn S (a ++ r) := by
  cases a with
  | nil => exact hr
  | cons c s => exact ⟨c, s ++ r, rfl, ha c s rfl⟩

theorem StartsIn.head_false {S : List Char} {r : Str} (h : StartsIn S r) (p : Char → Bool)
    (hp : ∀ c ∈ S, p c = false) : ∃ c s, r = c :: s ∧ p c = false := by
  obtain ⟨c, s, rfl, hc⟩ := h
  exact ⟨c, s, rfl, hp c hc⟩

/-! ### scanners, forward direction -/

theorem takeOpt_some (p : Char → Bool) (c : Char) (s : Str) (h : p c = true) :
    takeOpt p (c :: s) = (some c, s) := by simp [takeOpt, h]

theorem takeOpt_none (p : Char → Bool) (c : Char) (s : Str) (h : p c = false) :
    takeOpt p (c :: s) = (none, c :: s) := by simp [takeOpt, h]

/-- optional character `o` (satisfying `p` if present) followed by a remainder that does not
    start with a `p`-character -/
theorem takeOpt_toList (p : Char → Bool) (o : Option Char) (r : Str)
    (ho : ∀ c, o = some c → p c = true) (hr : ∃ c s, r = c :: s ∧ p c = false) :
    takeOpt p (o.toList ++ r) = (o, r) := by
  cases o with
  | some c => exact takeOpt_some p c r (ho c rfl)
  | none =>
    obtain ⟨c, s, rfl, hc⟩ := hr
    exact takeOpt_none p c s hc

theorem takeChirality_two (s : Str) : takeChirality ('@' :: '@' :: s) = (['@', '@'], s) := rfl

theorem takeChirality_one (c : Char) (s : Str) (h : c ≠ '@') :
    takeChirality ('@' :: c :: s) = (['@'], c :: s) := by
  unfold takeChirality
  split
  · rename_i heq; simp at heq; exact absurd heq.1 h
  · rename_i heq; simp at heq; simp [heq]
  · rename_i h1 h2; exact absurd rfl (h2 _)

theorem takeChirality_none (c : Char) (s : Str) (h : c ≠ '@') :
    takeChirality (c :: s) = ([], c :: s) := by
  unfold takeChirality
  split
  · rename_i heq; simp at heq; exact absurd heq.1 h
  · rename_i heq; simp at heq; exact absurd heq.1 h
  · rfl

/-- the three chirality spellings -/
def ChirOK (chir : Str) : Prop := chir = [] ∨ chir = ['@'] ∨ chir = ['@', '@']

instance (chir : Str) : Decidable (ChirOK chir) := by unfold ChirOK; infer_instance

theorem takeChirality_append (chir r : Str) (hc : ChirOK chir)
    (hr : ∃ c s, r = c :: s ∧ c ≠ '@') : takeChirality (chir ++ r) = (chir, r) := by
  obtain ⟨c, s, rfl, hne⟩ := hr
  rcases hc with rfl | rfl | rfl
  · exact takeChirality_none c s hne
  · exact takeChirality_one c s hne
  · exact takeChirality_two _

theorem takeChirality_fst_ok (s : Str) : ChirOK (takeChirality s).1 := by
  unfold takeChirality
  split <;> simp [ChirOK]

theorem takeChirality_snd_length_le (s : Str) : (takeChirality s).2.length ≤ s.length := by
  unfold takeChirality
  split <;> simp <;> omega

theorem takeOpt_snd_length_le (p : Char → Bool) (s : Str) : (takeOpt p s).2.length ≤ s.length := by
  unfold takeOpt
  split
  · split <;> simp
  · simp

/-! ### SELFIES atom symbols: unfolding of the reader -/

/-- `(order, stereo)` that `smiles_to_bond(bond_char)` gives -/
def selfiesBondInfo (bc : Option Char) : Nat × Option Char :=
  ((smilesToBond bc).1 / 2, (smilesToBond bc).2)

/-- `None if (isotope == "") else int(isotope)`; the outer `none` is the `ValueError` -/
def isoOf (iso : Str) : Option (Option Nat) :=
  if iso.isEmpty then some none else (pyIntOfDigits iso).map some

def selfiesHCount (h : Option Char) : Nat :=
  match h with
  | none => 0
  | some d => (decimalVal? d).getD 0

def selfiesCharge (chg : Option (Char × Str)) : Option Int :=
  match chg with
  | none => some 0
  | some (sgn, ds) => (pyIntOfDigits ds).map fun m => if sgn == '+' then (m : Int) else -(m : Int)

/-- the post-processing part of `_process_atom_selfies_no_cache` (after the regular expression
    matched): `inner` is `symbol[1 + len(bond_char):-1]` -/
def selfiesPost (bc : Option Char) (inner : Str) (iso element chir : Str) (h : Option Char)
    (chg : Option (Char × Str)) : Option ((Nat × Option Char) × Atom) :=
  if memStr inner Gen.organicSubset then
    some (selfiesBondInfo bc, { element := element, isAromatic := false })
  else
  match isoOf iso with
  | none => none
  | some isotope =>
    if !memStr element Gen.elements then none else
    match selfiesCharge chg with
    | none => none
    | some charge =>
      some (selfiesBondInfo bc,
        { element := element, isAromatic := false, isotope := isotope,
          chirality := optStr chir, hCount := some (selfiesHCount h), charge := charge })

theorem processAtomSelfiesNoCache_cons (body : Str) :
    processAtomSelfiesNoCache ('[' :: body) =
      match ((takeOpt isBondChar body).2.span isDecimal).2 with
      | e1 :: r2 =>
        if !isAsciiUpper e1 then none else
        if (takeSelfiesCharge (takeSelfiesH (takeChirality (takeOpt isAsciiLower r2).2).2).2).2 != [']']
        then none else
        selfiesPost (takeOpt isBondChar body).1 (takeOpt isBondChar body).2.dropLast
          ((takeOpt isBondChar body).2.span isDecimal).1
          (e1 :: (takeOpt isAsciiLower r2).1.toList)
          (takeChirality (takeOpt isAsciiLower r2).2).1
          (takeSelfiesH (takeChirality (takeOpt isAsciiLower r2).2).2).1
          (takeSelfiesCharge (takeSelfiesH (takeChirality (takeOpt isAsciiLower r2).2).2).2).1
      | [] => none := rfl

/-! ### SELFIES atom symbols: scanners forward -/

theorem takeSelfiesH_some (d : Char) (s : Str) (hd : isDecimal d = true) :
    takeSelfiesH ('H' :: d :: s) = (some d, s) := by
  simp [takeSelfiesH, hd]

theorem takeSelfiesH_none (c : Char) (s : Str) (hc : c ≠ 'H') :
    takeSelfiesH (c :: s) = (none, c :: s) := by
  unfold takeSelfiesH
  split
  · rename_i heq; simp at heq; exact absurd heq.1 hc
  · rfl

theorem takeSelfiesCharge_end : takeSelfiesCharge [']'] = (none, [']']) := rfl

theorem takeSelfiesCharge_some (sgn d : Char) (ds : Str) (c : Char) (r : Str)
    (hs : sgn = '+' ∨ sgn = '-') (hd : isDigit19 d = true) (hds : ∀ x ∈ ds, isAsciiDigit x = true)
    (hc : isAsciiDigit c = false) :
    takeSelfiesCharge (sgn :: d :: (ds ++ c :: r)) = (some (sgn, d :: ds), c :: r) := by
  have hs' : (sgn == '+' || sgn == '-') = true := by rcases hs with rfl | rfl <;> rfl
  simp only [takeSelfiesCharge, hs', hd, Bool.and_self, if_true, span_append_stop _ ds c r hds hc]

def hTextS (h : Option Char) : Str := match h with | none => [] | some d => ['H', d]
def chgTextS (chg : Option (Char × Str)) : Str := match chg with | none => [] | some (s, ds) => s :: ds

/-- the pieces of a SELFIES atom symbol -/
structure SelfiesParts where
  bc : Option Char
  iso : Str
  e1 : Char
  e2 : Option Char
  chir : Str
  h : Option Char
  chg : Option (Char × Str)

/-- `symbol[1 + len(bond_char):-1]` -/
def SelfiesParts.inner (P : SelfiesParts) : Str :=
  P.iso ++ (P.e1 :: (P.e2.toList ++ (P.chir ++ (hTextS P.h ++ chgTextS P.chg))))

def SelfiesParts.sym (P : SelfiesParts) : Str := '[' :: (P.bc.toList ++ (P.inner ++ [']']))

structure SelfiesParts.OK (P : SelfiesParts) : Prop where
  bc : ∀ c, P.bc = some c → isBondChar c = true
  iso : ∀ c ∈ P.iso, isAsciiDigit c = true
  e1 : isAsciiUpper P.e1 = true
  e2 : ∀ c, P.e2 = some c → isAsciiLower c = true
  chir : ChirOK P.chir
  h : ∀ d, P.h = some d → isAsciiDigit d = true
  chg : ∀ s ds, P.chg = some (s, ds) → (s = '+' ∨ s = '-') ∧
          ∃ d ds', ds = d :: ds' ∧ isDigit19 d = true ∧ ∀ c ∈ ds', isAsciiDigit c = true

/-- a symbol assembled from well-formed pieces is scanned back into exactly these pieces -/
theorem processAtomSelfiesNoCache_build (ok : AsciiDigitsOK) (P : SelfiesParts) (hP : P.OK) :
    processAtomSelfiesNoCache P.sym
      = selfiesPost P.bc P.inner P.iso (P.e1 :: P.e2.toList) P.chir P.h P.chg := by
  obtain ⟨bc, iso, e1, e2, chir, h, chg⟩ := P
  obtain ⟨hbc, hiso, he1, he2, hchir, hh, hchg⟩ := hP
  simp only at hbc hiso he1 he2 hchir hh hchg
  -- remainders
  have h5 : takeSelfiesCharge (chgTextS chg ++ [']']) = (chg, [']']) := by
    cases chg with
    | none => rfl
    | some sd =>
      obtain ⟨s, ds⟩ := sd
      obtain ⟨hs, d, ds', rfl, hd, hds'⟩ := hchg s _ rfl
      exact takeSelfiesCharge_some s d ds' ']' [] hs hd hds' (by decide)
  have s5 : StartsIn ['+', '-', ']'] (chgTextS chg ++ [']']) := by
    cases chg with
    | none => exact ⟨']', [], rfl, by decide⟩
    | some sd =>
      obtain ⟨s, ds⟩ := sd
      obtain ⟨hs, _⟩ := hchg s _ rfl
      refine ⟨s, ds ++ [']'], rfl, ?_⟩
      rcases hs with rfl | rfl <;> decide
  have h4 : takeSelfiesH (hTextS h ++ (chgTextS chg ++ [']'])) = (h, chgTextS chg ++ [']']) := by
    cases h with
    | some d => exact takeSelfiesH_some d _ (isDecimal_of_isAsciiDigit ok (hh d rfl))
    | none =>
      obtain ⟨c, s, hcs, hc⟩ := s5
      rw [show hTextS none = [] from rfl, List.nil_append, hcs]
      refine takeSelfiesH_none c s ?_
      rintro rfl; revert hc; decide
  have s4 : StartsIn ['H', '+', '-', ']'] (hTextS h ++ (chgTextS chg ++ [']'])) := by
    refine (s5.mono (by decide)).append ?_
    intro c s hcs
    cases h with
    | none => cases hcs
    | some d => injection hcs with h1 _; subst h1; decide
  have h3 := takeChirality_append chir _ hchir (by
    obtain ⟨c, s, hcs, hc⟩ := s4
    exact ⟨c, s, hcs, by rintro rfl; revert hc; decide⟩)
  have s3 : StartsIn ['@', 'H', '+', '-', ']'] (chir ++ (hTextS h ++ (chgTextS chg ++ [']']))) := by
    refine (s4.mono (by decide)).append ?_
    intro c s hcs
    rcases hchir with rfl | rfl | rfl
    · cases hcs
    · injection hcs with h1 _; subst h1; decide
    · injection hcs with h1 _; subst h1; decide
  have h2 := takeOpt_toList isAsciiLower e2 _ he2 (s3.head_false isAsciiLower (by decide))
  have h1 := span_append_stop isDecimal iso e1
    (e2.toList ++ (chir ++ (hTextS h ++ (chgTextS chg ++ [']']))))
    (fun c hc => isDecimal_of_isAsciiDigit ok (hiso c hc)) (isAsciiUpper_not_decimal ok he1)
  have h0 := takeOpt_toList isBondChar bc
    (iso ++ e1 :: (e2.toList ++ (chir ++ (hTextS h ++ (chgTextS chg ++ [']']))))) hbc (by
      cases iso with
      | nil => exact ⟨e1, _, rfl, isAsciiUpper_not_bond he1⟩
      | cons d ds => exact ⟨d, _, rfl, isAsciiDigit_not_bond (hiso d List.mem_cons_self)⟩)
  have hsym : SelfiesParts.sym ⟨bc, iso, e1, e2, chir, h, chg⟩
      = '[' :: (bc.toList ++ (iso ++ e1 :: (e2.toList ++ (chir ++ (hTextS h ++ (chgTextS chg ++ [']'])))))) := by
    simp only [SelfiesParts.sym, SelfiesParts.inner, List.append_assoc, List.cons_append]
  have hinner : (iso ++ e1 :: (e2.toList ++ (chir ++ (hTextS h ++ (chgTextS chg ++ [']']))))).dropLast
      = SelfiesParts.inner ⟨bc, iso, e1, e2, chir, h, chg⟩ := by
    have : iso ++ e1 :: (e2.toList ++ (chir ++ (hTextS h ++ (chgTextS chg ++ [']']))))
        = SelfiesParts.inner ⟨bc, iso, e1, e2, chir, h, chg⟩ ++ [']'] := by
      simp only [SelfiesParts.inner, List.append_assoc, List.cons_append]
    rw [this, List.dropLast_concat]
  rw [hsym, processAtomSelfiesNoCache_cons, h0]
  simp only [h1, h2, h3, h4, h5, he1, hinner]
  simp

/-! ### side conditions on the element tables -/

/-- `[A-Z][a-z]?` -/
def isElementShape (e : Str) : Bool :=
  match e with
  | [a] => isAsciiUpper a
  | [a, b] => isAsciiUpper a && isAsciiLower b
  | _ => false

structure ElementTablesOK : Prop where
  shape : ∀ e ∈ Gen.elements, isElementShape e = true
  organic_sub : ∀ e ∈ Gen.organicSubset, e ∈ Gen.elements
  aromatic_cap : ∀ e ∈ Gen.aromaticSubset, capitalizeAscii e ∈ Gen.elements

theorem elementTablesOK : ElementTablesOK where
  shape := by decide +kernel
  organic_sub := by decide +kernel
  aromatic_cap := by decide +kernel

theorem memStr_iff (s : Str) (l : List Str) : memStr s l = true ↔ s ∈ l := by
  simp [memStr]

theorem isElementShape_split {e : Str} (h : isElementShape e = true) :
    ∃ e1 e2, e = e1 :: Option.toList e2 ∧ isAsciiUpper e1 = true ∧
      ∀ c, e2 = some c → isAsciiLower c = true := by
  match e, h with
  | [a], h => exact ⟨a, none, rfl, h, fun _ hc => by cases hc⟩
  | [a, b], h =>
    simp only [isElementShape, Bool.and_eq_true] at h
    exact ⟨a, some b, rfl, h.1, fun c hc => by cases hc; exact h.2⟩

theorem isElementShape_letters {e : Str} (h : isElementShape e = true) :
    ∀ c ∈ e, isAsciiUpper c = true ∨ isAsciiLower c = true := by
  obtain ⟨e1, e2, rfl, h1, h2⟩ := isElementShape_split h
  intro c hc
  rcases List.mem_cons.1 hc with rfl | hc
  · exact Or.inl h1
  · cases e2 with
    | none => cases hc
    | some d =>
      simp only [Option.toList_some, List.mem_singleton] at hc
      subst hc; exact Or.inr (h2 _ rfl)

/-- a string containing a non-letter is not in the organic subset -/
theorem not_organic_of_nonletter (tok : ElementTablesOK) (s : Str) (c : Char) (hc : c ∈ s)
    (hu : isAsciiUpper c = false) (hl : isAsciiLower c = false) : memStr s Gen.organicSubset = false := by
  rw [Bool.eq_false_iff, ne_eq, memStr_iff]
  intro hs
  rcases isElementShape_letters (tok.shape s (tok.organic_sub s hs)) c hc with h | h
  · rw [h] at hu; cases hu
  · rw [h] at hl; cases hl

/-! ### well-formed atoms -/

/-- The invariant of atoms that `smiles_to_atom` produces, without the bound on the charge
    (it does not mention `isAromatic`, so it also holds of the kekulized copy of an aromatic atom). -/
structure AtomShape (a : Atom) : Prop where
  element : a.element ∈ Gen.elements
  chirality : a.chirality = none ∨ a.chirality = some ['@'] ∨ a.chirality = some ['@', '@']
  /-- `h_count` is `None` only on unbracketed atoms, which carry no other specification -/
  hNone : a.hCount = none → a.isotope = none ∧ a.chirality = none ∧ a.charge = 0
  hCount : ∀ h, a.hCount = some h → h ≤ 9
  isotope : ∀ n, a.isotope = some n → n < 10 ^ Gen.intMaxStrDigits

/-- … with the bound on the charge: `int()` converts at most `sys.get_int_max_str_digits()`
    digits, and a run of `k` sign characters gives charge `±k`, where `k` is less than the
    length of the token. -/
structure AtomWF (a : Atom) : Prop extends AtomShape a where
  charge : a.charge.natAbs < 10 ^ Gen.intMaxStrDigits

/-- the atom that the SELFIES symbol of `a` is read back as: `a` itself, except that an atom
    with `h_count = None` whose element is not in the organic subset comes back with `h_count = 0` -/
def readback (a : Atom) : Atom :=
  match a.hCount with
  | some _ => a
  | none => if memStr a.element Gen.organicSubset then a else { a with hCount := some 0 }

/-- the pieces of `atom_to_smiles(a, brackets=False)` -/
def atomParts (bc : Option Char) (a : Atom) (e1 : Char) (e2 : Option Char) : SelfiesParts :=
  { bc := bc
    iso := match a.isotope with | some n => natToStr n | none => []
    e1 := e1
    e2 := e2
    chir := a.chirality.getD []
    h := match a.hCount with
      | none => none
      | some 0 =>
        if a.isotope.isNone && a.chirality.isNone && a.charge == 0 && memStr a.element Gen.organicSubset
        then some '0' else none
      | some (n + 1) => some (Nat.digitChar (n + 1))
    chg := if a.charge = 0 then none
           else some (if a.charge < 0 then '-' else '+', natToStr a.charge.natAbs) }

theorem atomToSmiles_parts (a : Atom) (hwf : AtomShape a) (harom : a.isAromatic = false)
    (bc : Option Char) (e1 : Char) (e2 : Option Char) (he : a.element = e1 :: e2.toList) :
    atomToSmiles a false = .ok (atomParts bc a e1 e2).inner := by
  obtain ⟨el, ar, iso, chir, hc, chg⟩ := a
  simp only at harom he
  subst harom he
  have hN := hwf.hNone
  have hH := hwf.hCount
  simp only at hN hH
  cases hc with
  | none =>
    obtain ⟨rfl, rfl, rfl⟩ := hN rfl
    simp [atomToSmiles, atomParts, SelfiesParts.inner, hTextS, chgTextS]
  | some n =>
    have hn := hH n rfl
    have hchg : (if (chg != 0) = true then fmtPlus chg else [])
        = chgTextS (if chg = 0 then none else some (if chg < 0 then '-' else '+', natToStr chg.natAbs)) := by
      by_cases h0 : chg = 0
      · simp [h0, chgTextS]
      · simp only [bne_iff_ne, ne_eq, h0, not_false_eq_true, if_true, if_false, chgTextS, fmtPlus]
        split <;> rfl
    have hh : ∀ b : Bool, (if b = true then ['H', '0'] else ([] : Str))
        = hTextS (if b = true then some '0' else none) := by intro b; cases b <;> rfl
    cases n with
    | zero =>
      simp only [atomToSmiles, atomParts, SelfiesParts.inner, hchg, hh]
      simp only [Option.isNone_some,
        Bool.and_false, Bool.false_and, Bool.false_eq_true, if_false, List.nil_append,
        List.append_nil, List.append_assoc, List.cons_append]
      rfl
    | succ m =>
      have : natToStr (m + 1) = [Nat.digitChar (m + 1)] := natToStr_lt_ten (by omega)
      simp only [atomToSmiles, atomParts, SelfiesParts.inner, hchg, Option.isNone_some,
        Bool.and_false, Bool.false_and, Bool.false_eq_true, if_false, List.nil_append,
        List.append_nil, List.append_assoc, List.cons_append, this, hTextS]
      rfl

theorem isAsciiDigit_digitChar {d : Nat} (h : d < 10) : isAsciiDigit (Nat.digitChar d) = true := by
  rw [isAsciiDigit_iff, digitChar_toNat h]; omega

theorem atomParts_ok (a : Atom) (hwf : AtomShape a) (bc : Option Char)
    (hbc : ∀ c, bc = some c → isBondChar c = true) (e1 : Char) (e2 : Option Char)
    (h1 : isAsciiUpper e1 = true) (h2 : ∀ c, e2 = some c → isAsciiLower c = true) :
    (atomParts bc a e1 e2).OK where
  bc := hbc
  iso := by
    intro c hc
    simp only [atomParts] at hc
    cases hi : a.isotope with
    | none => rw [hi] at hc; cases hc
    | some n => rw [hi] at hc; exact natToStr_all_digits n c hc
  e1 := h1
  e2 := h2
  chir := by
    simp only [atomParts]
    rcases hwf.chirality with h | h | h <;> rw [h] <;> simp [ChirOK]
  h := by
    intro d hd
    simp only [atomParts] at hd
    cases hh : a.hCount with
    | none => rw [hh] at hd; cases hd
    | some n =>
      rw [hh] at hd
      cases n with
      | zero =>
        simp only at hd
        split at hd
        · injection hd with hd; subst hd; decide
        · cases hd
      | succ m =>
        simp only [Option.some.injEq] at hd
        subst hd
        exact isAsciiDigit_digitChar (by have := hwf.hCount _ hh; omega)
  chg := by
    intro s ds hsd
    simp only [atomParts] at hsd
    split at hsd
    · cases hsd
    · rename_i hne
      simp only [Option.some.injEq, Prod.mk.injEq] at hsd
      obtain ⟨rfl, rfl⟩ := hsd
      refine ⟨by split <;> simp, ?_⟩
      obtain ⟨d, ds', hds, hd⟩ := natToStr_pos_head a.charge.natAbs (by omega)
      refine ⟨d, ds', hds, hd, fun c hc => ?_⟩
      exact natToStr_all_digits a.charge.natAbs c (by rw [hds]; exact List.mem_cons_of_mem _ hc)

theorem optStr_getD (o : Option Str) (h : o ≠ some []) : optStr (o.getD []) = o := by
  cases o with
  | none => rfl
  | some s =>
    cases s with
    | nil => exact absurd rfl h
    | cons c s => rfl

/-- the post-processing of the reader on the writer's pieces gives the atom back -/
theorem selfiesPost_atomParts (ok : AsciiDigitsOK) (tok : ElementTablesOK) (a : Atom) (hwf : AtomWF a)
    (harom : a.isAromatic = false) (bc : Option Char) (e1 : Char) (e2 : Option Char)
    (he : a.element = e1 :: e2.toList) :
    selfiesPost bc (atomParts bc a e1 e2).inner (atomParts bc a e1 e2).iso (e1 :: e2.toList)
      (atomParts bc a e1 e2).chir (atomParts bc a e1 e2).h (atomParts bc a e1 e2).chg
      = some (selfiesBondInfo bc, readback a) := by
  -- isotope
  have F_iso : isoOf (atomParts bc a e1 e2).iso = some a.isotope := by
    cases hi : a.isotope with
    | none => simp only [atomParts, isoOf, hi]; rfl
    | some n =>
      simp only [atomParts, isoOf, hi]
      have hne : (natToStr n).isEmpty = false := by
        cases h : natToStr n with
        | nil => exact absurd h (natToStr_ne_nil n)
        | cons _ _ => rfl
      simp only [hne, Bool.false_eq_true, if_false,
        pyIntOfDigits_natToStr ok n (hwf.isotope n hi), Option.map_some]
  -- element
  have F_el : memStr (e1 :: e2.toList) Gen.elements = true := by
    rw [memStr_iff, ← he]; exact hwf.element
  -- charge
  have F_chg : selfiesCharge (atomParts bc a e1 e2).chg = some a.charge := by
    simp only [atomParts]
    by_cases h0 : a.charge = 0
    · simp [h0, selfiesCharge]
    · by_cases hneg : a.charge < 0
      · simp [h0, selfiesCharge, pyIntOfDigits_natToStr ok _ hwf.charge, hneg]
        omega
      · simp [h0, selfiesCharge, pyIntOfDigits_natToStr ok _ hwf.charge, hneg]
        omega
  -- chirality
  have F_chir : optStr (atomParts bc a e1 e2).chir = a.chirality := by
    simp only [atomParts]
    exact optStr_getD _ (by rcases hwf.chirality with h | h | h <;> rw [h] <;> simp)
  -- hydrogens
  have F_h : selfiesHCount (atomParts bc a e1 e2).h = a.hCount.getD 0 := by
    simp only [atomParts]
    cases hh : a.hCount with
    | none => rfl
    | some n =>
      cases n with
      | zero =>
        simp only [Option.getD_some]
        split
        · simp only [selfiesHCount, decimalVal?_of_isAsciiDigit ok (show isAsciiDigit '0' = true by decide)]
          rfl
        · rfl
      | succ m =>
        have hm : m + 1 < 10 := by have := hwf.hCount _ hh; omega
        simp only [selfiesHCount, Option.getD_some,
          decimalVal?_of_isAsciiDigit ok (isAsciiDigit_digitChar hm), digitChar_toNat hm]
        omega
  unfold selfiesPost
  rw [F_iso, F_chg, F_chir, F_h]
  simp only [F_el, Bool.not_true, Bool.false_eq_true, if_false]
  cases hh : a.hCount with
  | none =>
    obtain ⟨hi, hc, hq⟩ := hwf.hNone hh
    have hinner : (atomParts bc a e1 e2).inner = a.element := by
      simp [atomParts, SelfiesParts.inner, hh, hi, hc, hq, hTextS, chgTextS, he]
    rw [hinner, ← he]
    obtain ⟨el, ar, iso, chir, hcount, chg⟩ := a
    simp only at harom hh hi hc hq
    subst harom hh hi hc hq
    simp only [readback, Option.getD_none]
    split <;> rfl
  | some n =>
    have hnot : memStr (atomParts bc a e1 e2).inner Gen.organicSubset = false := by
      -- a non-letter occurs in `inner`, or `inner` is a non-organic element
      by_cases hi : a.isotope = none
      · by_cases hc : a.chirality = none
        · by_cases hq : a.charge = 0
          · cases n with
            | zero =>
              by_cases horg : memStr a.element Gen.organicSubset = true
              · refine not_organic_of_nonletter tok _ '0' ?_ (by decide) (by decide)
                simp [atomParts, SelfiesParts.inner, hh, hi, hc, hq, horg, hTextS]
              · have hinner : (atomParts bc a e1 e2).inner = a.element := by
                  have horg' := horg
                  rw [he] at horg'
                  simp [atomParts, SelfiesParts.inner, hh, hi, hc, hq, horg', hTextS, chgTextS, he]
                rw [hinner]; simpa using horg
            | succ m =>
              have hm : m + 1 < 10 := by have := hwf.hCount _ hh; omega
              refine not_organic_of_nonletter tok _ (Nat.digitChar (m + 1)) ?_ ?_ ?_
              · simp [atomParts, SelfiesParts.inner, hh, hTextS]
              · have := isAsciiDigit_digitChar hm
                rw [Bool.eq_false_iff, ne_eq, isAsciiUpper_iff]; rw [isAsciiDigit_iff] at this; omega
              · exact isAsciiDigit_not_lower (isAsciiDigit_digitChar hm)
          · refine not_organic_of_nonletter tok _ (if a.charge < 0 then '-' else '+') ?_ ?_ ?_
            · simp [atomParts, SelfiesParts.inner, hq, chgTextS]
            · split <;> decide
            · split <;> decide
        · refine not_organic_of_nonletter tok _ '@' ?_ (by decide) (by decide)
          rcases hwf.chirality with h | h | h
          · exact absurd h hc
          · simp [atomParts, SelfiesParts.inner, h]
          · simp [atomParts, SelfiesParts.inner, h]
      · cases hiso : a.isotope with
        | none => exact absurd hiso hi
        | some k =>
          obtain ⟨d, hd⟩ := List.exists_mem_of_ne_nil _ (natToStr_ne_nil k)
          have hdig := natToStr_all_digits k d hd
          refine not_organic_of_nonletter tok _ d ?_ ?_ (isAsciiDigit_not_lower hdig)
          · simp [atomParts, SelfiesParts.inner, hiso, hd]
          · rw [Bool.eq_false_iff, ne_eq, isAsciiUpper_iff]; rw [isAsciiDigit_iff] at hdig; omega
    rw [hnot]
    simp only [Bool.false_eq_true, if_false, Option.getD_some, ← he]
    obtain ⟨el, ar, iso, chir, hcount, chg⟩ := a
    simp only at harom hh
    subst harom hh
    rfl

/-- **Read-back.**  The SELFIES symbol the encoder writes for a well-formed, non-aromatic atom
    `a` behind bond prefix `bc` is accepted by the decoder's atom reader, with exactly the bond
    information of `bc` and the atom `readback a`. -/
theorem atom_symbol_readback (ok : AsciiDigitsOK) (tok : ElementTablesOK) (a : Atom) (hwf : AtomWF a)
    (harom : a.isAromatic = false) (bc : Option Char) (hbc : ∀ c, bc = some c → isBondChar c = true) :
    ∃ body, atomToSmiles a false = .ok body ∧
      processAtomSelfiesNoCache ('[' :: (bc.toList ++ body ++ [']']))
        = some (selfiesBondInfo bc, readback a) := by
  obtain ⟨e1, e2, he, h1, h2⟩ := isElementShape_split (tok.shape _ hwf.element)
  refine ⟨_, atomToSmiles_parts a hwf.toAtomShape harom bc e1 e2 he, ?_⟩
  have : processAtomSelfiesNoCache ('[' :: (bc.toList ++ ((atomParts bc a e1 e2).inner ++ [']'])))
      = selfiesPost bc (atomParts bc a e1 e2).inner (atomParts bc a e1 e2).iso (e1 :: e2.toList)
          (atomParts bc a e1 e2).chir (atomParts bc a e1 e2).h (atomParts bc a e1 e2).chg :=
    processAtomSelfiesNoCache_build ok _ (atomParts_ok a hwf.toAtomShape bc hbc e1 e2 h1 h2)
  rw [List.append_assoc, this]
  exact selfiesPost_atomParts ok tok a hwf harom bc e1 e2 he

/-! ### SMILES atoms: unfolding of the reader -/

def smilesHCount (h : Option (Option Char)) : Nat :=
  match h with
  | none => 0
  | some none => 1
  | some (some d) => (decimalVal? d).getD 0

/-- magnitude of a charge text after its sign: `int(s[1:])` or `len(s)` -/
def smilesChargeMag (rest : Str) : Option Nat :=
  match rest.getLast? with
  | some l => if isDecimal l then pyIntOfDigits rest else some (rest.length + 1)
  | none => some 1

def smilesCharge (chg : Str) : Option Int :=
  match chg with
  | [] => some 0
  | sgn :: rest => (smilesChargeMag rest).map fun m => if sgn == '+' then (m : Int) else -(m : Int)

/-- the post-processing part of `smiles_to_atom` (after the regular expression matched) -/
def smilesPost (iso element chir : Str) (h : Option (Option Char)) (chg : Str) : Option Atom :=
  match isoOf iso with
  | none => none
  | some isotope =>
    if !memStr (capitalizeAscii element) Gen.elements then none else
    match smilesCharge chg with
    | none => none
    | some charge =>
      some { element := capitalizeAscii element,
             isAromatic := element.all isAsciiLower && memStr element Gen.aromaticSubset,
             isotope := isotope, chirality := optStr chir, hCount := some (smilesHCount h),
             charge := charge }

theorem smilesBracketToAtom_cons (body : Str) :
    smilesBracketToAtom ('[' :: body) =
      match (body.span isDecimal).2 with
      | e1 :: r2 =>
        if !(isAsciiUpper e1 || isAsciiLower e1) then none else
        if takeAtomClass (takeSmilesCharge (takeSmilesH (takeChirality
            (takeOpt isAsciiLower r2).2).2).2).2 != [']'] then none else
        smilesPost (body.span isDecimal).1 (e1 :: (takeOpt isAsciiLower r2).1.toList)
          (takeChirality (takeOpt isAsciiLower r2).2).1
          (takeSmilesH (takeChirality (takeOpt isAsciiLower r2).2).2).1
          (takeSmilesCharge (takeSmilesH (takeChirality (takeOpt isAsciiLower r2).2).2).2).1
      | [] => none := rfl

/-! ### SMILES atoms: the invariant of `smiles_to_atom` -/

theorem takeSmilesH_snd_length_le (s : Str) : (takeSmilesH s).2.length ≤ s.length := by
  unfold takeSmilesH
  split
  · split <;> simp <;> omega
  · simp
  · simp

theorem takeSmilesCharge_fst_length_le (s : Str) : (takeSmilesCharge s).1.length ≤ s.length := by
  unfold takeSmilesCharge
  split
  · rename_i c s
    split
    · have h1 := congrArg List.length (span_append_eq isDecimal s)
      have h2 := congrArg List.length (span_append_eq (· == c) s)
      rw [List.length_append] at h1 h2
      simp only
      split <;> simp <;> omega
    · simp
  · simp

theorem smilesHCount_le (h : Option (Option Char)) : smilesHCount h ≤ 9 := by
  unfold smilesHCount
  split
  · omega
  · omega
  · have := decimalVal?_getD_lt_ten ‹Char›; omega

theorem smilesChargeMag_bound (rest : Str) (m : Nat) (h : smilesChargeMag rest = some m) :
    m < 10 ^ Gen.intMaxStrDigits ∨ m ≤ rest.length + 1 := by
  unfold smilesChargeMag at h
  split at h
  · split at h
    · exact Or.inl (pyIntOfDigits_lt _ _ h)
    · injection h with h; omega
  · injection h with h; omega

theorem smilesCharge_bound (chg : Str) (c : Int) (h : smilesCharge chg = some c) :
    c.natAbs < 10 ^ Gen.intMaxStrDigits ∨ c.natAbs ≤ chg.length := by
  unfold smilesCharge at h
  split at h
  · injection h with h; subst h
    exact Or.inl (Nat.pow_pos (by omega))
  · rename_i sgn rest
    cases hm : smilesChargeMag rest with
    | none => rw [hm] at h; cases h
    | some m =>
      rw [hm] at h
      simp only [bind, Option.bind_some, pure, Option.map_some, Option.some.injEq] at h
      have hb := smilesChargeMag_bound rest m hm
      have hc : c.natAbs = m := by
        subst h; split <;> simp
      rw [hc, List.length_cons]
      exact hb

theorem isoOf_bound (iso : Str) (o : Option Nat) (h : isoOf iso = some o) :
    ∀ n, o = some n → n < 10 ^ Gen.intMaxStrDigits := by
  intro n hn
  subst hn
  unfold isoOf at h
  split at h
  · cases h
  · cases hp : pyIntOfDigits iso with
    | none => rw [hp] at h; cases h
    | some m =>
      rw [hp] at h
      simp only [Option.map_some, Option.some.injEq] at h
      subst h
      exact pyIntOfDigits_lt _ _ hp

theorem optStr_chirOK (chir : Str) (h : ChirOK chir) :
    optStr chir = none ∨ optStr chir = some ['@'] ∨ optStr chir = some ['@', '@'] := by
  rcases h with rfl | rfl | rfl
  · exact Or.inl rfl
  · exact Or.inr (Or.inl rfl)
  · exact Or.inr (Or.inr rfl)

theorem smilesPost_shape (iso element chir : Str) (h : Option (Option Char)) (chg : Str) (a : Atom)
    (hchir : ChirOK chir) (hp : smilesPost iso element chir h chg = some a) :
    AtomShape a ∧ (∃ n, a.hCount = some n)
      ∧ (a.charge.natAbs < 10 ^ Gen.intMaxStrDigits ∨ a.charge.natAbs ≤ chg.length) := by
  unfold smilesPost at hp
  cases hi : isoOf iso with
  | none => rw [hi] at hp; cases hp
  | some isotope =>
    rw [hi] at hp
    simp only at hp
    split at hp
    · cases hp
    · rename_i hel
      cases hc : smilesCharge chg with
      | none => rw [hc] at hp; cases hp
      | some charge =>
        rw [hc] at hp
        simp only [Option.some.injEq] at hp
        subst hp
        refine ⟨⟨?_, optStr_chirOK chir hchir, ?_, ?_, isoOf_bound iso isotope hi⟩, ⟨_, rfl⟩,
          smilesCharge_bound chg charge hc⟩
        · simpa [memStr_iff] using hel
        · intro h; cases h
        · intro n hn
          simp only [Option.some.injEq] at hn
          subst hn
          exact smilesHCount_le h

theorem smilesBracketToAtom_shape (tok : Str) (a : Atom) (h : smilesBracketToAtom tok = some a) :
    AtomShape a ∧ (∃ n, a.hCount = some n)
      ∧ (a.charge.natAbs < 10 ^ Gen.intMaxStrDigits ∨ a.charge.natAbs < tok.length) := by
  cases tok with
  | nil => cases h
  | cons c body =>
    by_cases hc : c = '['
    · subst hc
      rw [smilesBracketToAtom_cons] at h
      have hlen1 := span_snd_length_le isDecimal body
      split at h
      · rename_i e1 r2 hspan
        rw [hspan] at hlen1
        split at h
        · cases h
        · split at h
          · cases h
          · have := smilesPost_shape _ _ _ _ _ a (takeChirality_fst_ok _) h
            refine ⟨this.1, this.2.1, ?_⟩
            rcases this.2.2 with hb | hb
            · exact Or.inl hb
            · refine Or.inr ?_
              have l2 := takeOpt_snd_length_le isAsciiLower r2
              have l3 := takeChirality_snd_length_le (takeOpt isAsciiLower r2).2
              have l4 := takeSmilesH_snd_length_le (takeChirality (takeOpt isAsciiLower r2).2).2
              have l5 := takeSmilesCharge_fst_length_le
                (takeSmilesH (takeChirality (takeOpt isAsciiLower r2).2).2).2
              simp only [List.length_cons] at hlen1 ⊢
              omega
      · cases h
    · unfold smilesBracketToAtom at h
      split at h
      · rename_i heq; simp at heq; exact absurd heq.1 hc
      · cases h

/-- **The invariant of `smiles_to_atom`.**  Every atom it returns has an element of the
    periodic table `ELEMENTS`, chirality `None`/`@`/`@@`, `h_count` `None` (unbracketed, no other
    specification) or `0 … 9`, an isotope below `10 ^ 4300`, and a charge whose magnitude is below
    `10 ^ 4300` or below the length of the token (a run of sign characters). -/
theorem smilesToAtom_shape (tok : Str) (a : Atom) (h : smilesToAtom tok = some a)
    (etok : ElementTablesOK) :
    AtomShape a
      ∧ (a.charge.natAbs < 10 ^ Gen.intMaxStrDigits ∨ a.charge.natAbs < tok.length)
      ∧ (a.hCount = none → a.isAromatic = true ∨ a.element ∈ Gen.organicSubset) := by
  unfold smilesToAtom at h
  split at h
  · have := smilesBracketToAtom_shape tok a h
    refine ⟨this.1, this.2.2, ?_⟩
    intro hn
    obtain ⟨n, hn'⟩ := this.2.1
    rw [hn] at hn'; cases hn'
  · split at h
    · rename_i horg
      injection h with h; subst h
      rw [memStr_iff] at horg
      refine ⟨⟨etok.organic_sub _ horg, Or.inl rfl, fun _ => ⟨rfl, rfl, rfl⟩, ?_, ?_⟩,
        Or.inl (Nat.pow_pos (by omega)), fun _ => Or.inr horg⟩
      · intro n hn; cases hn
      · intro n hn; cases hn
    · split at h
      · rename_i haro
        injection h with h; subst h
        rw [memStr_iff] at haro
        refine ⟨⟨etok.aromatic_cap _ haro, Or.inl rfl, fun _ => ⟨rfl, rfl, rfl⟩, ?_, ?_⟩,
          Or.inl (Nat.pow_pos (by omega)), fun _ => Or.inl rfl⟩
        · intro n hn; cases hn
        · intro n hn; cases hn
      · cases h

theorem smilesToAtom_wf (etok : ElementTablesOK) (tok : Str) (a : Atom)
    (h : smilesToAtom tok = some a) (hlen : tok.length ≤ 10 ^ Gen.intMaxStrDigits) : AtomWF a := by
  obtain ⟨hs, hc, _⟩ := smilesToAtom_shape tok a h etok
  exact ⟨hs, by omega⟩

/-! ### dispatch: an atom symbol never looks like a branch, ring or epsilon symbol -/

/-- two adjacent ASCII lowercase letters occur in the string -/
def hasLL : Str → Bool
  | c :: d :: s => (isAsciiLower c && isAsciiLower d) || hasLL (d :: s)
  | _ => false

theorem hasLL_cons_nonlower (c : Char) (s : Str) (hc : isAsciiLower c = false) :
    hasLL (c :: s) = hasLL s := by
  cases s with
  | nil => rfl
  | cons d s => simp [hasLL, hc]

theorem hasLL_append_nonlower (A s : Str) (hA : ∀ c ∈ A, isAsciiLower c = false) :
    hasLL (A ++ s) = hasLL s := by
  induction A with
  | nil => rfl
  | cons c A ih =>
    rw [List.cons_append, hasLL_cons_nonlower c _ (hA c List.mem_cons_self)]
    exact ih (fun c hc => hA c (List.mem_cons_of_mem _ hc))

theorem hasLL_nonlower (B : Str) (hB : ∀ c ∈ B, isAsciiLower c = false) : hasLL B = false := by
  have := hasLL_append_nonlower B [] hB
  rwa [List.append_nil] at this

theorem hasLL_one_lower (l : Char) (B : Str) (hB : ∀ c ∈ B, isAsciiLower c = false) :
    hasLL (l :: B) = false := by
  cases B with
  | nil => rfl
  | cons b B =>
    simp only [hasLL, hB b List.mem_cons_self, Bool.and_false, Bool.false_or]
    exact hasLL_nonlower _ hB

theorem hasLL_infix (pre post : Str) (c d : Char) (hc : isAsciiLower c = true)
    (hd : isAsciiLower d = true) : hasLL (pre ++ c :: d :: post) = true := by
  induction pre with
  | nil => simp [hasLL, hc, hd]
  | cons a pre ih =>
    cases hp : pre ++ c :: d :: post with
    | nil => simp at hp
    | cons b t =>
      rw [List.cons_append, hp]
      rw [hp] at ih
      simp [hasLL, ih]

theorem startsWith_two (x : Str) (c d : Char) (rest : Str) (h : startsWith x (c :: d :: rest) = true) :
    ∃ t, x = c :: d :: t := by
  match x, h with
  | a :: b :: t, h =>
    simp only [startsWith, Bool.and_eq_true, beq_iff_eq] at h
    exact ⟨t, by rw [h.1, h.2.1]⟩
  | [a], h => simp [startsWith] at h

/-- a substring with two adjacent lowercase letters forces `hasLL` -/
theorem hasLL_of_containsSub (x : Str) (c d : Char) (rest : Str) (hc : isAsciiLower c = true)
    (hd : isAsciiLower d = true) (h : containsSub x (c :: d :: rest) = true) : hasLL x = true := by
  induction x with
  | nil => simp [containsSub] at h
  | cons a x ih =>
    simp only [containsSub, Bool.or_eq_true] at h
    rcases h with h | h
    · obtain ⟨t, ht⟩ := startsWith_two _ c d rest h
      rw [ht]; exact hasLL_infix [] t c d hc hd
    · have := ih h
      cases x with
      | nil => simp [hasLL] at this
      | cons b t => simp [hasLL, this]

/-- `symbol[-4:-2]` being two lowercase letters forces `hasLL` -/
theorem hasLL_of_sliceFromEnd (x : Str) (c d : Char) (hc : isAsciiLower c = true)
    (hd : isAsciiLower d = true) (h : sliceFromEnd x 4 2 = [c, d]) : hasLL x = true := by
  unfold sliceFromEnd at h
  simp only at h
  have h1 : x = x.take (x.length - 2) ++ x.drop (x.length - 2) := (List.take_append_drop _ _).symm
  have h2 : x.take (x.length - 2)
      = (x.take (x.length - 2)).take (x.length - 4) ++ (x.take (x.length - 2)).drop (x.length - 4) :=
    (List.take_append_drop _ _).symm
  rw [h] at h2
  rw [h1, h2, List.append_assoc]
  exact hasLL_infix _ _ c d hc hd

theorem SelfiesParts.hasLL_false (P : SelfiesParts) (hP : P.OK) : hasLL P.sym = false := by
  obtain ⟨bc, iso, e1, e2, chir, h, chg⟩ := P
  obtain ⟨hbc, hiso, he1, he2, hchir, hh, hchg⟩ := hP
  simp only at hbc hiso he1 he2 hchir hh hchg
  have hB : ∀ c ∈ chir ++ (hTextS h ++ (chgTextS chg ++ [']'])), isAsciiLower c = false := by
    intro c hc
    rcases List.mem_append.1 hc with hc | hc
    · rcases hchir with rfl | rfl | rfl
      · cases hc
      · simp only [List.mem_singleton] at hc; subst hc; decide
      · simp only [List.mem_cons, List.not_mem_nil, or_false, or_self] at hc; subst hc; decide
    rcases List.mem_append.1 hc with hc | hc
    · cases h with
      | none => cases hc
      | some d =>
        simp only [hTextS, List.mem_cons, List.not_mem_nil, or_false] at hc
        rcases hc with rfl | rfl
        · decide
        · exact isAsciiDigit_not_lower (hh _ rfl)
    rcases List.mem_append.1 hc with hc | hc
    · cases chg with
      | none => cases hc
      | some sd =>
        obtain ⟨s, ds⟩ := sd
        obtain ⟨hs, d, ds', rfl, hd, hds'⟩ := hchg s _ rfl
        simp only [chgTextS, List.mem_cons] at hc
        rcases hc with rfl | rfl | hc
        · rcases hs with rfl | rfl <;> decide
        · exact isAsciiDigit_not_lower (isAsciiDigit_of_isDigit19 hd)
        · exact isAsciiDigit_not_lower (hds' c hc)
    · simp only [List.mem_singleton] at hc; subst hc; decide
  have hA : ∀ c ∈ '[' :: (bc.toList ++ (iso ++ [e1])), isAsciiLower c = false := by
    intro c hc
    rcases List.mem_cons.1 hc with rfl | hc
    · decide
    rcases List.mem_append.1 hc with hc | hc
    · cases bc with
      | none => cases hc
      | some b =>
        simp only [Option.toList_some, List.mem_singleton] at hc
        subst hc
        have := (isBondChar_iff c).1 (hbc c rfl)
        rw [Bool.eq_false_iff, ne_eq, isAsciiLower_iff]; omega
    rcases List.mem_append.1 hc with hc | hc
    · exact isAsciiDigit_not_lower (hiso c hc)
    · simp only [List.mem_singleton] at hc; subst hc; exact isAsciiUpper_not_lower he1
  have hsym : SelfiesParts.sym ⟨bc, iso, e1, e2, chir, h, chg⟩
      = ('[' :: (bc.toList ++ (iso ++ [e1]))) ++
          (e2.toList ++ (chir ++ (hTextS h ++ (chgTextS chg ++ [']'])))) := by
    simp only [SelfiesParts.sym, SelfiesParts.inner, List.append_assoc, List.cons_append,
      List.nil_append]
  rw [hsym, hasLL_append_nonlower _ _ hA]
  cases e2 with
  | none => exact hasLL_nonlower _ hB
  | some l => exact hasLL_one_lower l _ hB

/-- **Dispatch.**  A string with no two adjacent lowercase letters is not taken for a branch
    symbol (`[-4:-2] == "ch"`), a ring symbol (`"ng"`) or `[epsilon]` (`"eps" in symbol`). -/
theorem dispatch_of_not_hasLL (x : Str) (h : hasLL x = false) :
    sliceFromEnd x 4 2 ≠ ['c', 'h'] ∧ sliceFromEnd x 4 2 ≠ ['n', 'g']
      ∧ containsSub x ['e', 'p', 's'] = false := by
  refine ⟨?_, ?_, ?_⟩
  · intro hs
    have := hasLL_of_sliceFromEnd x 'c' 'h' (by decide) (by decide) hs
    rw [h] at this; cases this
  · intro hs
    have := hasLL_of_sliceFromEnd x 'n' 'g' (by decide) (by decide) hs
    rw [h] at this; cases this
  · rw [Bool.eq_false_iff]
    intro hs
    have := hasLL_of_containsSub x 'e' 'p' ['s'] (by decide) (by decide) hs
    rw [h] at this; cases this

/-- the symbol written for a well-formed atom has no two adjacent lowercase letters -/
theorem atom_symbol_hasLL (etok : ElementTablesOK) (a : Atom) (hwf : AtomShape a)
    (harom : a.isAromatic = false) (bc : Option Char) (hbc : ∀ c, bc = some c → isBondChar c = true) :
    ∃ body, atomToSmiles a false = .ok body ∧ hasLL ('[' :: (bc.toList ++ body ++ [']'])) = false := by
  obtain ⟨e1, e2, he, h1, h2⟩ := isElementShape_split (etok.shape _ hwf.element)
  refine ⟨_, atomToSmiles_parts a hwf harom bc e1 e2 he, ?_⟩
  have : hasLL ('[' :: (bc.toList ++ ((atomParts bc a e1 e2).inner ++ [']']))) = false :=
    SelfiesParts.hasLL_false _ (atomParts_ok a hwf bc hbc e1 e2 h1 h2)
  rw [List.append_assoc, this]

/-! ### SMILES atoms: scanners forward -/

theorem nondecimal_punct (ok : AsciiDigitsOK) :
    ∀ c ∈ ['+', '-', ':', ']'], isDecimal c = false := by
  intro c hc
  simp only [List.mem_cons, List.not_mem_nil, or_false] at hc
  rcases hc with rfl | rfl | rfl | rfl <;>
    exact isDecimal_ascii_false ok (by decide) (by decide)

theorem takeSmilesH_digit (d : Char) (s : Str) (hd : isDecimal d = true) :
    takeSmilesH ('H' :: d :: s) = (some (some d), s) := by
  simp [takeSmilesH, hd]

theorem takeSmilesH_bare (c : Char) (s : Str) (hc : isDecimal c = false) :
    takeSmilesH ('H' :: c :: s) = (some none, c :: s) := by
  simp [takeSmilesH, hc]

theorem takeSmilesH_none (c : Char) (s : Str) (hc : c ≠ 'H') :
    takeSmilesH (c :: s) = (none, c :: s) := by
  unfold takeSmilesH
  split
  · rename_i heq; simp at heq; exact absurd heq.1 hc
  · rename_i heq; simp at heq; exact absurd heq.1 hc
  · rfl

theorem takeAtomClass_none (c : Char) (s : Str) (hc : c ≠ ':') : takeAtomClass (c :: s) = c :: s := by
  unfold takeAtomClass
  split
  · rename_i heq; simp at heq; exact absurd heq.1 hc
  · rfl

theorem takeAtomClass_some (ds : Str) (c : Char) (r : Str) (hne : ds ≠ [])
    (hds : ∀ x ∈ ds, isDecimal x = true) (hc : isDecimal c = false) :
    takeAtomClass (':' :: (ds ++ c :: r)) = c :: r := by
  have : ds.isEmpty = false := by cases ds with
    | nil => exact absurd rfl hne
    | cons _ _ => rfl
  simp only [takeAtomClass, span_append_stop isDecimal ds c r hds hc, this, Bool.false_eq_true,
    if_false]

/-- the three spellings of a SMILES charge: absent, sign + digits, a run of one sign character -/
inductive ChgOK : Str → Prop
  | none : ChgOK []
  | digits (s : Char) (ds : Str) (hs : s = '+' ∨ s = '-') (hne : ds ≠ [])
      (hds : ∀ x ∈ ds, isDecimal x = true) : ChgOK (s :: ds)
  | run (s : Char) (k : Nat) (hs : s = '+' ∨ s = '-') : ChgOK (List.replicate (k + 1) s)

/-- absent, or `:` + digits -/
inductive ClsOK : Str → Prop
  | none : ClsOK []
  | some (ds : Str) (hne : ds ≠ []) (hds : ∀ x ∈ ds, isDecimal x = true) : ClsOK (':' :: ds)

theorem takeSmilesCharge_none (c : Char) (s : Str) (h1 : c ≠ '+') (h2 : c ≠ '-') :
    takeSmilesCharge (c :: s) = ([], c :: s) := by
  simp [takeSmilesCharge, h1, h2]

theorem takeSmilesCharge_digits (sgn : Char) (ds : Str) (c : Char) (r : Str)
    (hs : sgn = '+' ∨ sgn = '-') (hne : ds ≠ []) (hds : ∀ x ∈ ds, isDecimal x = true)
    (hc : isDecimal c = false) :
    takeSmilesCharge (sgn :: (ds ++ c :: r)) = (sgn :: ds, c :: r) := by
  have hs' : (sgn == '+' || sgn == '-') = true := by rcases hs with rfl | rfl <;> rfl
  have : ds.isEmpty = false := by cases ds with
    | nil => exact absurd rfl hne
    | cons _ _ => rfl
  simp only [takeSmilesCharge, hs', if_true, span_append_stop isDecimal ds c r hds hc, this,
    Bool.not_false]

theorem takeSmilesCharge_run (ok : AsciiDigitsOK) (sgn : Char) (k : Nat) (c : Char) (r : Str)
    (hs : sgn = '+' ∨ sgn = '-') (hc : isDecimal c = false) (hne : c ≠ sgn) :
    takeSmilesCharge (sgn :: (List.replicate k sgn ++ c :: r))
      = (sgn :: List.replicate k sgn, c :: r) := by
  have hs' : (sgn == '+' || sgn == '-') = true := by rcases hs with rfl | rfl <;> rfl
  have hsd : isDecimal sgn = false := by
    rcases hs with rfl | rfl
    · exact nondecimal_punct ok _ (by decide)
    · exact nondecimal_punct ok _ (by decide)
  have h1 : (List.replicate k sgn ++ c :: r).span isDecimal = ([], List.replicate k sgn ++ c :: r) := by
    cases k with
    | zero => exact span_append_stop isDecimal [] c r (by simp) hc
    | succ k =>
      rw [List.replicate_succ, List.cons_append]
      exact span_append_stop isDecimal [] sgn _ (by simp) hsd
  have h2 : (List.replicate k sgn ++ c :: r).span (· == sgn) = (List.replicate k sgn, c :: r) :=
    span_append_stop (· == sgn) (List.replicate k sgn) c r
      (by intro x hx; rw [(List.mem_replicate.1 hx).2]; simp) (by simpa using hne)
  simp only [takeSmilesCharge, hs', if_true, h1, h2, List.isEmpty_nil, Bool.not_true,
    Bool.false_eq_true, if_false]

theorem takeSmilesCharge_ok (ok : AsciiDigitsOK) (chg : Str) (hchg : ChgOK chg) (r : Str)
    (hr : StartsIn [':', ']'] r) : takeSmilesCharge (chg ++ r) = (chg, r) := by
  obtain ⟨c, s, rfl, hc⟩ := hr
  have hcd : isDecimal c = false := nondecimal_punct ok c (by
    simp only [List.mem_cons, List.not_mem_nil, or_false] at hc ⊢
    rcases hc with rfl | rfl <;> simp)
  cases hchg with
  | none =>
    refine takeSmilesCharge_none c s ?_ ?_ <;>
      (rintro rfl; revert hc; decide)
  | digits sgn ds hs hne hds => exact takeSmilesCharge_digits sgn ds c s hs hne hds hcd
  | run sgn k hs =>
    rw [List.replicate_succ, List.cons_append]
    refine takeSmilesCharge_run ok sgn k c s hs hcd ?_
    rintro rfl
    rcases hs with rfl | rfl <;> (revert hc; decide)

theorem ChgOK.startsIn {chg : Str} (h : ChgOK chg) : ∀ c s, chg = c :: s → c ∈ ['+', '-', ':', ']'] := by
  intro c s hcs
  cases h with
  | none => cases hcs
  | digits sgn ds hs _ _ =>
    injection hcs with h1 _; subst h1
    rcases hs with rfl | rfl <;> decide
  | run sgn k hs =>
    rw [List.replicate_succ] at hcs
    injection hcs with h1 _; subst h1
    rcases hs with rfl | rfl <;> decide

def hTextM (h : Option (Option Char)) : Str :=
  match h with
  | none => []
  | some none => ['H']
  | some (some d) => ['H', d]

/-- a bracketed SMILES atom token assembled from its pieces -/
def smilesTok (iso : Str) (e1 : Char) (e2 : Option Char) (chir : Str) (h : Option (Option Char))
    (chg cls : Str) : Str :=
  '[' :: (iso ++ (e1 :: (e2.toList ++ (chir ++ (hTextM h ++ (chg ++ (cls ++ [']'])))))))

/-- well-formedness of the pieces other than charge and class -/
structure SmilesCtxOK (iso : Str) (e1 : Char) (e2 : Option Char) (chir : Str)
    (h : Option (Option Char)) : Prop where
  iso : ∀ c ∈ iso, isDecimal c = true
  e1 : isAsciiUpper e1 = true ∨ isAsciiLower e1 = true
  e2 : ∀ c, e2 = some c → isAsciiLower c = true
  chir : ChirOK chir
  h : ∀ d, h = some (some d) → isDecimal d = true

theorem getLast?_cons_concat (c : Char) (s : Str) (d : Char) : (c :: (s ++ [d])).getLast? = some d := by
  rw [← List.cons_append, List.getLast?_append]; simp

/-- a token assembled from well-formed pieces is scanned back into exactly these pieces -/
theorem smilesToAtom_build (ok : AsciiDigitsOK) (iso : Str) (e1 : Char) (e2 : Option Char)
    (chir : Str) (h : Option (Option Char)) (chg cls : Str)
    (hctx : SmilesCtxOK iso e1 e2 chir h) (hchg : ChgOK chg) (hcls : ClsOK cls) :
    smilesToAtom (smilesTok iso e1 e2 chir h chg cls)
      = smilesPost iso (e1 :: e2.toList) chir h chg := by
  obtain ⟨hiso, he1, he2, hchir, hh⟩ := hctx
  have h6 : takeAtomClass (cls ++ [']']) = [']'] := by
    cases hcls with
    | none => exact takeAtomClass_none ']' [] (by decide)
    | some ds hne hds => exact takeAtomClass_some ds ']' [] hne hds (nondecimal_punct ok _ (by decide))
  have s6 : StartsIn [':', ']'] (cls ++ [']']) := by
    cases hcls with
    | none => exact ⟨']', [], rfl, by decide⟩
    | some ds _ _ => exact ⟨':', _, rfl, by decide⟩
  have h5 := takeSmilesCharge_ok ok chg hchg _ s6
  have s5 : StartsIn ['+', '-', ':', ']'] (chg ++ (cls ++ [']'])) :=
    (s6.mono (by decide)).append hchg.startsIn
  have h4 : takeSmilesH (hTextM h ++ (chg ++ (cls ++ [']']))) = (h, chg ++ (cls ++ [']'])) := by
    obtain ⟨c, s, hcs, hc⟩ := s5
    cases h with
    | none =>
      rw [show hTextM none = [] from rfl, List.nil_append, hcs]
      refine takeSmilesH_none c s ?_
      rintro rfl; revert hc; decide
    | some o =>
      cases o with
      | none =>
        rw [hcs]
        exact takeSmilesH_bare c s (nondecimal_punct ok c hc)
      | some d => exact takeSmilesH_digit d _ (hh d rfl)
  have s4 : StartsIn ['H', '+', '-', ':', ']'] (hTextM h ++ (chg ++ (cls ++ [']']))) := by
    refine (s5.mono (by decide)).append ?_
    intro c s hcs
    cases h with
    | none => cases hcs
    | some o =>
      cases o with
      | none => injection hcs with h1 _; subst h1; decide
      | some d => injection hcs with h1 _; subst h1; decide
  have h3 := takeChirality_append chir _ hchir (by
    obtain ⟨c, s, hcs, hc⟩ := s4
    exact ⟨c, s, hcs, by rintro rfl; revert hc; decide⟩)
  have s3 : StartsIn ['@', 'H', '+', '-', ':', ']']
      (chir ++ (hTextM h ++ (chg ++ (cls ++ [']'])))) := by
    refine (s4.mono (by decide)).append ?_
    intro c s hcs
    rcases hchir with rfl | rfl | rfl
    · cases hcs
    · injection hcs with h1 _; subst h1; decide
    · injection hcs with h1 _; subst h1; decide
  have h2 := takeOpt_toList isAsciiLower e2 _ he2 (s3.head_false isAsciiLower (by decide))
  have he1d : isDecimal e1 = false := by
    rcases he1 with h | h
    · exact isAsciiUpper_not_decimal ok h
    · exact isAsciiLower_not_decimal ok h
  have h1 := span_append_stop isDecimal iso e1
    (e2.toList ++ (chir ++ (hTextM h ++ (chg ++ (cls ++ [']']))))) hiso he1d
  have hletter : (!(isAsciiUpper e1 || isAsciiLower e1)) = false := by
    rcases he1 with h | h <;> simp [h]
  have hbr : ((smilesTok iso e1 e2 chir h chg cls).head? == some '['
      && (smilesTok iso e1 e2 chir h chg cls).getLast? == some ']') = true := by
    have : smilesTok iso e1 e2 chir h chg cls
        = '[' :: ((iso ++ (e1 :: (e2.toList ++ (chir ++ (hTextM h ++ (chg ++ cls)))))) ++ [']']) := by
      simp only [smilesTok, List.append_assoc, List.cons_append]
    rw [this, getLast?_cons_concat]
    rfl
  unfold smilesToAtom
  rw [if_pos hbr, smilesTok, smilesBracketToAtom_cons, h1]
  simp only [h2, h3, h4, h5, h6, hletter, Bool.false_eq_true, if_false, bne_self_eq_false]

/-! ### values of the charge / H / isotope groups (for the standardisation families) -/

/-- `±m` according to the sign character -/
def signed (s : Char) (m : Nat) : Int := if s == '+' then (m : Int) else -(m : Int)

theorem smilesCharge_cons (s : Char) (rest : Str) (m : Nat) (h : smilesChargeMag rest = some m) :
    smilesCharge (s :: rest) = some (signed s m) := by
  simp [smilesCharge, h, signed]

/-- a run of `k + 1` sign characters is charge `±(k + 1)` -/
theorem smilesCharge_run (ok : AsciiDigitsOK) (s : Char) (hs : s = '+' ∨ s = '-') (k : Nat) :
    smilesCharge (List.replicate (k + 1) s) = some (signed s (k + 1)) := by
  rw [List.replicate_succ]
  apply smilesCharge_cons
  cases k with
  | zero => rfl
  | succ k =>
    have hsd : isDecimal s = false := by
      rcases hs with rfl | rfl
      · exact nondecimal_punct ok _ (by decide)
      · exact nondecimal_punct ok _ (by decide)
    have : (List.replicate (k + 1) s).getLast? = some s := by
      rw [List.replicate_succ', List.getLast?_append]; simp
    simp only [smilesChargeMag, this, hsd, Bool.false_eq_true, if_false, List.length_replicate]

/-- sign + `str(n)` is charge `±n` (as long as `int()` converts it) -/
theorem smilesCharge_natToStr (ok : AsciiDigitsOK) (s : Char) (n : Nat)
    (hn : n < 10 ^ Gen.intMaxStrDigits) : smilesCharge (s :: natToStr n) = some (signed s n) := by
  apply smilesCharge_cons
  have hne := natToStr_ne_nil n
  have hl : (natToStr n).getLast? = some ((natToStr n).getLast hne) := List.getLast?_eq_some_getLast hne
  have hd : isDecimal ((natToStr n).getLast hne) = true :=
    isDecimal_of_isAsciiDigit ok (natToStr_all_digits n _ (List.getLast_mem hne))
  simp only [smilesChargeMag, hl, hd, if_true, pyIntOfDigits_natToStr ok n hn]

theorem ChgOK.natToStr (ok : AsciiDigitsOK) (s : Char) (hs : s = '+' ∨ s = '-') (n : Nat) :
    ChgOK (s :: natToStr n) :=
  ChgOK.digits s _ hs (natToStr_ne_nil n)
    (fun x hx => isDecimal_of_isAsciiDigit ok (natToStr_all_digits n x hx))

theorem smilesHCount_H_eq_H1 (ok : AsciiDigitsOK) :
    smilesHCount (some none) = smilesHCount (some (some '1')) := by
  simp only [smilesHCount, decimalVal?_of_isAsciiDigit ok (show isAsciiDigit '1' = true by decide)]
  rfl

theorem isoOf_leading_zeros (ok : AsciiDigitsOK) (k : Nat) (iso : Str) (hne : iso ≠ [])
    (hlen : k + iso.length ≤ Gen.intMaxStrDigits) :
    isoOf (List.replicate k '0' ++ iso) = isoOf iso := by
  have h1 : iso.isEmpty = false := by cases iso with
    | nil => exact absurd rfl hne
    | cons _ _ => rfl
  have h2 : (List.replicate k '0' ++ iso).isEmpty = false := by
    cases k with
    | zero => simpa using h1
    | succ k => rfl
  simp only [isoOf, h1, h2, Bool.false_eq_true, if_false, pyIntOfDigits_leading_zeros ok k iso hlen]

/-! ### the bound on the charge is necessary -/

/-- If `|charge| ≥ 10 ^ 4300` the symbol the encoder writes is REJECTED by the decoder's atom
    reader (`int()` refuses the digit string).  Only tokens with at least `10 ^ 4300` sign
    characters produce such atoms. -/
theorem atom_symbol_rejected_big (ok : AsciiDigitsOK) (etok : ElementTablesOK) (a : Atom)
    (hwf : AtomShape a) (harom : a.isAromatic = false)
    (hbig : 10 ^ Gen.intMaxStrDigits ≤ a.charge.natAbs)
    (bc : Option Char) (hbc : ∀ c, bc = some c → isBondChar c = true) :
    ∃ body, atomToSmiles a false = .ok body ∧
      processAtomSelfiesNoCache ('[' :: (bc.toList ++ body ++ [']'])) = none := by
  obtain ⟨e1, e2, he, h1, h2⟩ := isElementShape_split (etok.shape _ hwf.element)
  refine ⟨_, atomToSmiles_parts a hwf harom bc e1 e2 he, ?_⟩
  have : processAtomSelfiesNoCache ('[' :: (bc.toList ++ ((atomParts bc a e1 e2).inner ++ [']'])))
      = selfiesPost bc (atomParts bc a e1 e2).inner (atomParts bc a e1 e2).iso (e1 :: e2.toList)
          (atomParts bc a e1 e2).chir (atomParts bc a e1 e2).h (atomParts bc a e1 e2).chg :=
    processAtomSelfiesNoCache_build ok _ (atomParts_ok a hwf bc hbc e1 e2 h1 h2)
  rw [List.append_assoc, this]
  have hpos : 0 < 10 ^ Gen.intMaxStrDigits := Nat.pow_pos (by omega)
  have hq : a.charge ≠ 0 := by intro h; rw [h] at hbig; simp only [Int.natAbs_zero] at hbig; omega
  have hnot : memStr (atomParts bc a e1 e2).inner Gen.organicSubset = false := by
    refine not_organic_of_nonletter etok _ (if a.charge < 0 then '-' else '+') ?_ ?_ ?_
    · simp [atomParts, SelfiesParts.inner, hq, chgTextS]
    · split <;> decide
    · split <;> decide
  have F_chg : selfiesCharge (atomParts bc a e1 e2).chg = none := by
    simp [atomParts, hq, selfiesCharge, pyIntOfDigits_natToStr_big _ hbig]
  unfold selfiesPost
  rw [hnot, F_chg]
  simp only [Bool.false_eq_true, if_false]
  split
  · rfl
  · split <;> rfl

/-! ### the encoder's `_atom_to_selfies` -/

/-- the bond information the decoder must read for an atom entered through `bond` -/
def encBondInfo (bond : Option PBond) : Nat × Option Char :=
  match bond with
  | none => (1, none)
  | some b => (b.order2 / 2,
      if b.order2 = 2 then b.stereo.filter (fun c => Gen.smilesStereoBonds.contains c) else none)

theorem bondToSelfies_true (b : PBond) (bc : Str) (h : bondToSelfies b true = .ok bc) :
    ∃ o : Option Char, bc = o.toList ∧ (∀ c, o = some c → isBondChar c = true)
      ∧ selfiesBondInfo o = encBondInfo (some b) := by
  obtain ⟨src, dst, order2, stereo, ring, attr⟩ := b
  simp only [bondToSelfies, Bool.not_true, Bool.false_and, Bool.false_eq_true, if_false,
    bondToSmiles2] at h
  simp only [encBondInfo]
  by_cases h2 : order2 = 2
  · subst h2
    simp only [beq_self_eq_true, if_true] at h
    cases stereo with
    | none =>
      injection h with h; subst h
      exact ⟨none, rfl, (fun c hc => by cases hc), by decide⟩
    | some c =>
      simp only [Except.ok.injEq] at h
      by_cases hc : Gen.smilesStereoBonds.contains c = true
      · rw [if_pos hc] at h; subst h
        refine ⟨some c, rfl, ?_, ?_⟩
        · intro c' hc'; injection hc' with hc'; subst hc'
          have : c = '/' ∨ c = '\\' := by simpa [Gen.smilesStereoBonds] using hc
          rcases this with rfl | rfl <;> decide
        · have : c = '/' ∨ c = '\\' := by simpa [Gen.smilesStereoBonds] using hc
          rcases this with rfl | rfl <;> decide
      · rw [if_neg hc] at h; subst h
        refine ⟨none, rfl, (fun c hc => by cases hc), ?_⟩
        simp only [Option.filter, hc, Bool.false_eq_true, if_false, if_true]
        decide
  · have h2' : (order2 == 2) = false := by simpa using h2
    rw [h2'] at h
    simp only [Bool.false_eq_true, if_false] at h
    by_cases h4 : order2 = 4
    · subst h4
      simp only [beq_self_eq_true, if_true, Except.ok.injEq] at h
      subst h
      exact ⟨some '=', rfl, (fun c hc => by cases hc; decide), by rw [if_neg (by decide)]; decide⟩
    · have h4' : (order2 == 4) = false := by simpa using h4
      rw [h4'] at h
      simp only [Bool.false_eq_true, if_false] at h
      by_cases h6 : order2 = 6
      · subst h6
        simp only [beq_self_eq_true, if_true, Except.ok.injEq] at h
        subst h
        exact ⟨some '#', rfl, (fun c hc => by cases hc; decide), by rw [if_neg (by decide)]; decide⟩
      · have h6' : (order2 == 6) = false := by simpa using h6
        rw [h6'] at h
        cases h

/-- **Encoder ⇒ decoder, atom symbols.**  Whatever `_atom_to_selfies(bond, atom)` returns for a
    well-formed atom is accepted by `_process_atom_selfies_no_cache`, which reads back the bond
    order and stereo mark of `bond` and the atom `readback a`. -/
theorem atomToSelfies_accepted (ok : AsciiDigitsOK) (etok : ElementTablesOK) (bond : Option PBond)
    (a : Atom) (hwf : AtomWF a) (x : Str) (h : atomToSelfies bond a = .ok x) :
    a.isAromatic = false ∧
      processAtomSelfiesNoCache x = some (encBondInfo bond, readback a) := by
  unfold atomToSelfies at h
  cases harom : a.isAromatic with
  | true => simp [harom, pyAssert, bind, Except.bind] at h
  | false =>
    refine ⟨rfl, ?_⟩
    simp only [harom, pyAssert, Bool.not_false, if_true, bind, Except.bind] at h
    have key : ∀ (o : Option Char) (bi : Nat × Option Char),
        (∀ c, o = some c → isBondChar c = true) → selfiesBondInfo o = bi →
        ∀ body, atomToSmiles a false = .ok body → x = ['['] ++ o.toList ++ body ++ [']'] →
        processAtomSelfiesNoCache x = some (bi, readback a) := by
      intro o bi ho hbi body hbody hx
      obtain ⟨body', hb', hp⟩ := atom_symbol_readback ok etok a hwf harom o ho
      rw [hbody] at hb'
      injection hb' with hb'; subst hb'
      rw [hx, ← hbi, ← hp]
      simp only [List.cons_append, List.nil_append, List.append_assoc]
    cases bond with
    | none =>
      simp only [pure, Except.pure] at h
      cases hb : atomToSmiles a false with
      | error e => rw [hb] at h; cases h
      | ok body =>
        rw [hb] at h
        simp only [Except.ok.injEq] at h
        exact key none _ (fun c hc => by cases hc) (by decide) body hb h.symm
    | some b =>
      simp only at h
      cases hbc : bondToSelfies b true with
      | error e => rw [hbc] at h; cases h
      | ok bc =>
        rw [hbc] at h
        simp only at h
        obtain ⟨o, rfl, ho, hbi⟩ := bondToSelfies_true b bc hbc
        cases hb : atomToSmiles a false with
        | error e => rw [hb] at h; cases h
        | ok body =>
          rw [hb] at h
          simp only [pure, Except.pure, Except.ok.injEq] at h
          exact key o _ ho hbi body hb h.symm

theorem smilesPost_charge (iso element chir : Str) (h : Option (Option Char)) (chg : Str) (a : Atom)
    (hp : smilesPost iso element chir h chg = some a) :
    smilesCharge chg = some a.charge ∧ a.hCount = some (smilesHCount h) ∧ isoOf iso = some a.isotope := by
  unfold smilesPost at hp
  cases hi : isoOf iso with
  | none => rw [hi] at hp; cases hp
  | some isotope =>
    rw [hi] at hp
    simp only at hp
    split at hp
    · cases hp
    · cases hc : smilesCharge chg with
      | none => rw [hc] at hp; cases hp
      | some charge =>
        rw [hc] at hp
        simp only [Option.some.injEq] at hp
        subst hp
        exact ⟨rfl, rfl, rfl⟩

/-! ### branch and ring symbols -/

/-- prefixes `_bond_to_selfies(bond, show_stereo=False)` can produce, with the bond order -/
def branchPrefixes : List (Str × Nat) := [([], 1), (['='], 2), (['#'], 3)]

/-- prefixes `_ring_bonds_to_selfies` can produce, with (order, (left stereo, right stereo)) -/
def ringPrefixes : List (Str × (Nat × (Option Char × Option Char))) :=
  [([], (1, (none, none))), (['='], (2, (none, none))), (['#'], (3, (none, none))),
   (['-', '/'], (1, (none, some '/'))), (['-', '\\'], (1, (none, some '\\'))),
   (['/', '-'], (1, (some '/', none))), (['/', '/'], (1, (some '/', some '/'))),
   (['/', '\\'], (1, (some '/', some '\\'))),
   (['\\', '-'], (1, (some '\\', none))), (['\\', '/'], (1, (some '\\', some '/'))),
   (['\\', '\\'], (1, (some '\\', some '\\')))]

/-- stereo marks the SMILES parser stores on a bond -/
def StereoOK (st : Option Char) : Prop := st = none ∨ st = some '/' ∨ st = some '\\'

theorem bondToSelfies_false (b : PBond) (pre : Str) (h : bondToSelfies b false = .ok pre) :
    (pre, b.order2 / 2) ∈ branchPrefixes := by
  obtain ⟨src, dst, order2, stereo, ring, attr⟩ := b
  simp only [bondToSelfies, Bool.not_false, Bool.true_and, bondToSmiles2] at h
  by_cases h2 : order2 = 2
  · subst h2
    simp only [beq_self_eq_true, if_true, Except.ok.injEq] at h
    subst h; dsimp only; decide
  · have h2' : (order2 == 2) = false := by simpa using h2
    simp only [h2', Bool.false_eq_true, if_false] at h
    by_cases h4 : order2 = 4
    · subst h4
      simp only [beq_self_eq_true, if_true, Except.ok.injEq] at h
      subst h; dsimp only; decide
    · have h4' : (order2 == 4) = false := by simpa using h4
      simp only [h4', Bool.false_eq_true, if_false] at h
      by_cases h6 : order2 = 6
      · subst h6
        simp only [beq_self_eq_true, if_true, Except.ok.injEq] at h
        subst h; dsimp only; decide
      · have h6' : (order2 == 6) = false := by simpa using h6
        simp only [h6', Bool.false_eq_true, if_false] at h
        cases h

theorem ringBondsToSelfies_prefix (l r : PBond) (pre : Str) (h : ringBondsToSelfies l r = .ok pre)
    (hl : StereoOK l.stereo) (hr : StereoOK r.stereo) :
    l.order2 = r.order2 ∧
    (pre, (l.order2 / 2, if l.order2 = 2 then (l.stereo, r.stereo) else (none, none))) ∈ ringPrefixes := by
  unfold ringBondsToSelfies at h
  by_cases heq : l.order2 = r.order2
  · refine ⟨heq, ?_⟩
    have : (l.order2 == r.order2) = true := by simpa using heq
    simp only [this, pyAssert, if_true, bind, Except.bind] at h
    by_cases h2 : l.order2 = 2
    · have h2' : (l.order2 != 2) = false := by simp [h2]
      simp only [h2', Bool.false_or] at h
      rw [if_pos h2]
      rcases hl with hl | hl | hl <;> rcases hr with hr | hr | hr <;>
        rw [hl, hr] at h ⊢ <;> rw [h2] <;>
        simp only [Option.isNone_none, Option.isNone_some, Bool.and_self, Bool.and_false,
          Bool.false_and, Bool.false_eq_true, if_true, if_false, pure, Except.pure, Option.getD_none,
          Option.getD_some, Except.ok.injEq] at h
      · have := bondToSelfies_false l pre h
        rw [h2] at this
        have hpre : pre = [] := by
          simp only [bondToSelfies, Bool.not_false, Bool.true_and, h2, beq_self_eq_true, if_true,
            Except.ok.injEq] at h
          exact h.symm
        subst hpre; decide
      all_goals (subst h; decide)
    · have h2' : (l.order2 != 2) = true := by simp [h2]
      simp only [h2', Bool.true_or, if_true] at h
      rw [if_neg h2]
      have := bondToSelfies_false l pre h
      simp only [branchPrefixes, List.mem_cons, Prod.mk.injEq, List.not_mem_nil, or_false] at this
      rcases this with ⟨rfl, ho⟩ | ⟨rfl, ho⟩ | ⟨rfl, ho⟩
      · exfalso
        simp only [bondToSelfies, Bool.not_false, Bool.true_and] at h
        have h2'' : (l.order2 == 2) = false := by simpa using h2
        simp only [h2'', Bool.false_eq_true, if_false, bondToSmiles2] at h
        split at h
        · cases h
        · split at h
          · cases h
          · cases h
      · rw [ho]; decide
      · rw [ho]; decide
  · have : (l.order2 == r.order2) = false := by simpa using heq
    simp [this, pyAssert, bind, Except.bind] at h

/-- shape of a key of the branch / ring tables seen from its end: `…<non-digit><1|2|3>]` -/
def keyTailOK (k : Str) : Bool :=
  match k.reverse with
  | _ :: d :: c :: _ => (d == '1' || d == '2' || d == '3') && !isAsciiDigit c
  | _ => false

structure BranchRingTablesOK : Prop where
  branch : ∀ k ∈ Gen.branchTable.map Prod.fst, keyTailOK k = true
  ring : ∀ k ∈ Gen.ringTable.map Prod.fst, keyTailOK k = true

theorem branchRingTablesOK : BranchRingTablesOK where
  branch := by decide +kernel
  ring := by decide +kernel

theorem lookup_some_mem {α β} [BEq α] [LawfulBEq α] (k : α) (l : List (α × β)) (v : β)
    (h : lookup k l = some v) : k ∈ l.map Prod.fst := by
  induction l with
  | nil => cases h
  | cons kv l ih =>
    obtain ⟨k', v'⟩ := kv
    simp only [lookup] at h
    split at h
    · rename_i heq
      simp only [beq_iff_eq] at heq
      subst heq; simp
    · simp only [List.map_cons, List.mem_cons]
      exact Or.inr (ih h)

/-- a `[…BranchL]` / `[…RingL]` symbol with `L ≥ 4` does not have the shape of a table key -/
theorem keyTailOK_ringSymbol (pre kind : Str) (L : Nat) (hL : 4 ≤ L) :
    keyTailOK (ringSymbol pre kind L) = false := by
  by_cases h10 : L < 10
  · have hrev : (ringSymbol pre kind L).reverse
        = ']' :: Nat.digitChar L :: (kind.reverse ++ (pre.reverse ++ ['['])) := by
      simp [ringSymbol, natToStr_lt_ten h10]
    have hd : (Nat.digitChar L == '1' || Nat.digitChar L == '2' || Nat.digitChar L == '3') = false := by
      simp only [Bool.or_eq_false_iff, beq_eq_false_iff_ne, ne_eq, Nat.digitChar_eq_one,
        Nat.digitChar_eq_two, Nat.digitChar_eq_three]
      omega
    unfold keyTailOK
    rw [hrev]
    cases kind.reverse ++ (pre.reverse ++ ['[']) with
    | nil => rfl
    | cons c t => simp only [hd, Bool.false_and]
  · have hne := natToStr_ne_nil (L / 10)
    cases hr : (natToStr (L / 10)).reverse with
    | nil => exact absurd (List.reverse_eq_nil_iff.1 hr) hne
    | cons c t =>
      have hc : isAsciiDigit c = true := by
        apply natToStr_all_digits (L / 10) c
        rw [← List.mem_reverse, hr]; exact List.mem_cons_self
      have hrev : (ringSymbol pre kind L).reverse
          = ']' :: Nat.digitChar (L % 10) :: c :: (t ++ (kind.reverse ++ (pre.reverse ++ ['[']))) := by
        simp [ringSymbol, natToStr_ge_ten (Nat.le_of_not_lt h10), hr]
      unfold keyTailOK
      rw [hrev]
      simp only [hc, Bool.not_true, Bool.and_false]

theorem ringSymbol_not_in_tables (ok : BranchRingTablesOK) (pre kind : Str) (L : Nat) (hL : 4 ≤ L) :
    processBranchSymbol (ringSymbol pre kind L) = none
      ∧ processRingSymbol (ringSymbol pre kind L) = none := by
  have hk := keyTailOK_ringSymbol pre kind L hL
  constructor
  · cases h : processBranchSymbol (ringSymbol pre kind L) with
    | none => rfl
    | some v =>
      have := ok.branch _ (lookup_some_mem _ _ v h)
      rw [hk] at this; cases this
  · cases h : processRingSymbol (ringSymbol pre kind L) with
    | none => rfl
    | some v =>
      have := ok.ring _ (lookup_some_mem _ _ v h)
      rw [hk] at this; cases this

/-! ### `"{:+}".format(z)` is exactly the SELFIES charge syntax `[+-][1-9][0-9]*` -/

theorem fmtPlus_selfies_charge (ok : AsciiDigitsOK) (z : Int) (hz : z ≠ 0) :
    ∃ d ds, fmtPlus z = (if z < 0 then '-' else '+') :: d :: ds
      ∧ isDigit19 d = true ∧ (∀ c ∈ ds, isAsciiDigit c = true)
      ∧ takeSelfiesCharge (fmtPlus z ++ [']']) = (some ((if z < 0 then '-' else '+'), d :: ds), [']'])
      ∧ (z.natAbs < 10 ^ Gen.intMaxStrDigits →
          selfiesCharge (some ((if z < 0 then '-' else '+'), d :: ds)) = some z) := by
  obtain ⟨d, ds, hds, hd⟩ := natToStr_pos_head z.natAbs (by omega)
  have hall : ∀ c ∈ ds, isAsciiDigit c = true := fun c hc =>
    natToStr_all_digits z.natAbs c (by rw [hds]; exact List.mem_cons_of_mem _ hc)
  have hf : fmtPlus z = (if z < 0 then '-' else '+') :: d :: ds := by
    unfold fmtPlus; split <;> rw [hds]
  refine ⟨d, ds, hf, hd, hall, ?_, ?_⟩
  · rw [hf]
    exact takeSelfiesCharge_some _ d ds ']' [] (by split <;> simp) hd hall (by decide)
  · intro hb
    rw [← hds]
    simp only [selfiesCharge, pyIntOfDigits_natToStr ok _ hb]
    by_cases hneg : z < 0
    · simp [hneg]; omega
    · simp [hneg]; omega

end SV
