/-
  Shape of the specification's token lists: balanced parentheses, no empty branch, a branch is
  never the last thing at its atom.  Proved compositionally on `bondsPre` / `atomPre`, for every
  ring log (the labels do not matter for the shape).
-/
import SelfiesVerif.Proofs.WriterForest

namespace SV

/-! ### generic facts about the checkers -/

theorem parenDepth_sound : ∀ (ts : List Tok) (d e : Nat), parenDepth d ts = some e →
    (∀ k, closes (ts.take k) ≤ d + opens (ts.take k)) ∧ d + opens ts = e + closes ts := by
  intro ts
  induction ts with
  | nil =>
    intro d e h
    simp only [parenDepth, Option.some.injEq] at h
    subst h
    exact ⟨fun k => by simp [closes, opens], by simp [closes, opens]⟩
  | cons t rest ih =>
    intro d e h
    have hk : ∀ (P : Nat → Prop), P 0 → (∀ k, P (k + 1)) → ∀ k, P k := by
      intro P h0 hs k; cases k with
      | zero => exact h0
      | succ k => exact hs k
    cases t with
    | open_ =>
      simp only [parenDepth] at h
      obtain ⟨h1, h2⟩ := ih _ _ h
      refine ⟨hk _ (by simp [closes, opens]) (fun k => ?_), ?_⟩
      · have := h1 k
        simp only [List.take_succ_cons, closes, opens, List.countP_cons, Tok.isOpen, Tok.isClose] at this ⊢
        simp; omega
      · simp only [closes, opens, List.countP_cons, Tok.isOpen, Tok.isClose] at h2 ⊢
        simp; omega
    | close =>
      cases d with
      | zero => simp [parenDepth] at h
      | succ d =>
        simp only [parenDepth] at h
        obtain ⟨h1, h2⟩ := ih _ _ h
        refine ⟨hk _ (by simp [closes, opens]) (fun k => ?_), ?_⟩
        · have := h1 k
          simp only [List.take_succ_cons, closes, opens, List.countP_cons, Tok.isOpen, Tok.isClose] at this ⊢
          simp; omega
        · simp only [closes, opens, List.countP_cons, Tok.isOpen, Tok.isClose] at h2 ⊢
          simp; omega
    | atom i s =>
      simp only [parenDepth] at h
      obtain ⟨h1, h2⟩ := ih _ _ h
      refine ⟨hk _ (by simp [closes, opens]) (fun k => ?_), ?_⟩
      · have := h1 k
        simp only [List.take_succ_cons, closes, opens, List.countP_cons, Tok.isOpen, Tok.isClose] at this ⊢
        simpa using this
      · simp only [closes, opens, List.countP_cons, Tok.isOpen, Tok.isClose] at h2 ⊢
        simpa using h2
    | bond s =>
      simp only [parenDepth] at h
      obtain ⟨h1, h2⟩ := ih _ _ h
      refine ⟨hk _ (by simp [closes, opens]) (fun k => ?_), ?_⟩
      · have := h1 k
        simp only [List.take_succ_cons, closes, opens, List.countP_cons, Tok.isOpen, Tok.isClose] at this ⊢
        simpa using this
      · simp only [closes, opens, List.countP_cons, Tok.isOpen, Tok.isClose] at h2 ⊢
        simpa using h2
    | label n =>
      simp only [parenDepth] at h
      obtain ⟨h1, h2⟩ := ih _ _ h
      refine ⟨hk _ (by simp [closes, opens]) (fun k => ?_), ?_⟩
      · have := h1 k
        simp only [List.take_succ_cons, closes, opens, List.countP_cons, Tok.isOpen, Tok.isClose] at this ⊢
        simpa using this
      · simp only [closes, opens, List.countP_cons, Tok.isOpen, Tok.isClose] at h2 ⊢
        simpa using h2

theorem parenBalanced_of_depth {ts : List Tok} (h : parenDepth 0 ts = some 0) : ParenBalanced ts := by
  obtain ⟨h1, h2⟩ := parenDepth_sound ts 0 0 h
  exact ⟨fun k => by have := h1 k; omega, by omega⟩

end SV

namespace SV

theorem adjOK_tail {t : Tok} {ts : List Tok} (h : adjOK (t :: ts) = true) : adjOK ts = true := by
  cases t <;> simp only [adjOK, Bool.and_eq_true] at h
  · exact h
  · exact h
  · exact h.2
  · exact h.2
  · exact h

theorem adjOK_append : ∀ (a b : List Tok), adjOK a = true → adjOK b = true → adjOK (a ++ b) = true
  | [], b, _, hb => hb
  | t :: a, b, ha, hb => by
    have ih := adjOK_append a b (adjOK_tail ha) hb
    cases t with
    | atom i s => simpa only [List.cons_append, adjOK] using ih
    | bond s => simpa only [List.cons_append, adjOK] using ih
    | label n => simpa only [List.cons_append, adjOK] using ih
    | open_ =>
      simp only [List.cons_append, adjOK, Bool.and_eq_true] at ha ⊢
      refine ⟨?_, ih⟩
      rcases a with _ | ⟨t1, _ | ⟨t2, a⟩⟩
      · simp at ha
      · cases t1 <;> simp at ha
      · cases t1 <;> cases t2 <;> simp at ha ⊢
    | close =>
      simp only [List.cons_append, adjOK, Bool.and_eq_true] at ha ⊢
      refine ⟨?_, ih⟩
      rcases a with _ | ⟨t1, a⟩
      · simp at ha
      · cases t1 <;> simp at ha ⊢

theorem adjOK_open : ∀ (ts : List Tok) (k : Nat), adjOK ts = true → ts[k]? = some .open_ →
    ∃ t i s, ts[k + 1]? = some (.bond t) ∧ ts[k + 2]? = some (.atom i s)
  | [], k, _, h => by simp at h
  | t :: ts, k + 1, h, hk => by
    have := adjOK_open ts k (adjOK_tail h) (by simpa using hk)
    simpa using this
  | t :: ts, 0, h, hk => by
    simp only [List.getElem?_cons_zero, Option.some.injEq] at hk
    subst hk
    simp only [adjOK, Bool.and_eq_true] at h
    rcases ts with _ | ⟨t1, _ | ⟨t2, a⟩⟩
    · simp at h
    · cases t1 <;> simp at h
    · cases t1 <;> cases t2 <;> simp at h
      exact ⟨_, _, _, rfl, rfl⟩

theorem adjOK_close : ∀ (ts : List Tok) (k : Nat), adjOK ts = true → ts[k]? = some .close →
    (∃ t, ts[k + 1]? = some (.bond t)) ∨ ts[k + 1]? = some .open_
  | [], k, _, h => by simp at h
  | t :: ts, k + 1, h, hk => by
    have := adjOK_close ts k (adjOK_tail h) (by simpa using hk)
    simpa using this
  | t :: ts, 0, h, hk => by
    simp only [List.getElem?_cons_zero, Option.some.injEq] at hk
    subst hk
    simp only [adjOK, Bool.and_eq_true] at h
    rcases ts with _ | ⟨t1, a⟩
    · simp at h
    · cases t1 <;> simp at h
      · exact Or.inl ⟨_, rfl⟩
      · exact Or.inr rfl

end SV

namespace SV

/-! ### the shape of `bondsPre` / `atomPre` -/

/-- the parentheses inside `p` are balanced, under every labelling and in every context -/
def Neutral (p : List PTok) : Prop :=
  ∀ (log : RingLog) (d : Nat) (rest : List Tok),
    parenDepth d (labelToks log p ++ rest) = parenDepth d rest

/-- what the token list of a subtree looks like -/
structure SubOK (p : List PTok) : Prop where
  head : ∃ i t p', p = .atom i t :: p'
  adj : ∀ log, adjOK (labelToks log p) = true
  neutral : Neutral p

structure BondsOK (q : List PTok) : Prop where
  head : q = [] ∨ (∃ t q', q = .bond t :: q') ∨ (∃ q', q = .open_ :: q')
  adj : ∀ log, adjOK (labelToks log q) = true
  neutral : Neutral q

theorem bondsPre_ok (sub : Nat → List PTok) :
    ∀ (row : List DirBond), (∀ c ∈ chainDsts row, SubOK (sub c)) → BondsOK (bondsPre sub row) ∧
      (row ≠ [] → bondsPre sub row ≠ []) := by
  intro row
  induction row with
  | nil => intro _; exact ⟨⟨Or.inl rfl, fun _ => rfl, fun _ _ _ => rfl⟩, fun h => absurd rfl h⟩
  | cons b rest ih =>
    intro hsub
    have hrest : ∀ c ∈ chainDsts rest, SubOK (sub c) := by
      intro c hc
      apply hsub
      unfold chainDsts at hc ⊢
      cases hr : b.ring <;> simp [hr] <;> simp at hc
      · exact Or.inr hc
      · exact hc
    obtain ⟨ihB, ihne⟩ := ih hrest
    unfold bondsPre
    cases hr : b.ring with
    | true =>
      simp only [if_true]
      refine ⟨⟨Or.inr (Or.inl ⟨_, _, rfl⟩), ?_, ?_⟩, by simp⟩
      · intro log
        simp only [labelToks, adjOK]
        exact ihB.adj _
      · intro log d rest'
        simp only [labelToks, List.cons_append, parenDepth]
        exact ihB.neutral _ _ _
    | false =>
      have hsb : SubOK (sub b.dst) := by
        apply hsub
        simp [chainDsts, hr]
      obtain ⟨i, t, p', hp⟩ := hsb.head
      cases rest with
      | nil =>
        simp only [Bool.false_eq_true, if_false, List.isEmpty_nil, if_true]
        refine ⟨⟨Or.inr (Or.inl ⟨_, _, rfl⟩), ?_, ?_⟩, by simp⟩
        · intro log
          simp only [labelToks, adjOK]
          exact hsb.adj _
        · intro log d rest'
          simp only [labelToks, List.cons_append, parenDepth]
          exact hsb.neutral _ _ _
      | cons b' rest' =>
        simp only [Bool.false_eq_true, if_false, List.isEmpty_cons]
        have hne := ihne (by simp)
        refine ⟨⟨Or.inr (Or.inr ⟨_, rfl⟩), ?_, ?_⟩, by simp⟩
        · intro log
          have h1 := hsb.adj log
          have h2 := ihB.adj (logAfter log (sub b.dst))
          have h3 : adjOK (Tok.close :: labelToks (logAfter log (sub b.dst)) (bondsPre sub (b' :: rest'))) = true := by
            simp only [adjOK, Bool.and_eq_true]
            refine ⟨?_, h2⟩
            rcases ihB.head with h | ⟨t', q', h⟩ | ⟨q', h⟩
            · exact absurd h hne
            · rw [h]; simp [labelToks]
            · rw [h]; simp [labelToks]
          have h4 := adjOK_append _ _ h1 h3
          simp only [labelToks, labelToks_append, adjOK, Bool.and_eq_true]
          refine ⟨?_, h4⟩
          rw [hp]; simp [labelToks]
        · intro log d rest''
          simp only [labelToks, labelToks_append, List.cons_append, List.append_assoc, parenDepth]
          rw [hsb.neutral]
          simp only [parenDepth]
          exact ihB.neutral _ _ _

theorem atomPre_ok {g : Mol} (hg : WGraph g) :
    ∀ (f i : Nat), i < g.atoms.length → g.atoms.length ≤ f + i → SubOK (atomPre g f i) := by
  intro f
  induction f with
  | zero => intro i h1 h2; omega
  | succ f ih =>
    intro i h1 h2
    obtain ⟨hB, _⟩ := bondsPre_ok (atomPre g f) (g.row i) (fun c hc => by
      obtain ⟨c1, c2, _⟩ := hg.mem_chainDsts hc
      exact ih c c2 (by omega))
    refine ⟨⟨i, _, _, rfl⟩, ?_, ?_⟩
    · intro log
      simp only [atomPre, labelToks, adjOK]
      exact hB.adj log
    · intro log d rest
      simp only [atomPre, labelToks, List.cons_append, parenDepth]
      exact hB.neutral _ _ _

theorem specPre_ok {g : Mol} (hg : WGraph g) {r : Nat} (hr : r < g.atoms.length) : SubOK (specPre g r) :=
  atomPre_ok hg _ r hr (by omega)

end SV
