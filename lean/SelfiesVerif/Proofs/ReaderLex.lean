/-
  C01r, stage (b): `tokenize_smiles` splits the written string into exactly the expected tokens.

  Per unit: an atom text (`AtomLex`), a ring label `1..99` (one digit, or `%` and two digits), `(`,
  `)`, each possibly preceded by one bond character.  The only context condition is that a
  one-letter atom is not followed by `l` / `r` (it would be read as `Cl` / `Br`): every unit starts
  with a bond character, `[`, an upper-case letter, a digit, `%`, `(` or `)`, and a fragment ends
  at `.` or at the end of the string.
-/
import SelfiesVerif.Proofs.ReaderToks
import SelfiesVerif.Proofs.ReaderAtomLex
import SelfiesVerif.Proofs.Digits
import SelfiesVerif.Proofs.RingLabels

namespace SV

/-! ### character classes -/

theorem isSmilesBondChar_iff (c : Char) :
    isSmilesBondChar c = true ↔ c ∈ ['-', '/', '\\', ':', '=', '#'] := by
  unfold isSmilesBondChar
  simp only [Gen.smilesBondOrders2, lookup]
  repeat' split
  all_goals simp_all
  all_goals grind

theorem upper_not_bond {c : Char} (h : isAsciiUpper c = true) : isSmilesBondChar c = false := by
  rw [Bool.eq_false_iff]; intro hb
  rw [isSmilesBondChar_iff] at hb
  simp only [List.mem_cons, List.not_mem_nil, or_false] at hb
  rcases hb with rfl | rfl | rfl | rfl | rfl | rfl <;> revert h <;> decide

theorem upper_alpha {c : Char} (h : isAsciiUpper c = true) : pyIsAlpha c = true := by
  have key : ∀ n, n < 91 → 65 ≤ n →
      (Gen.isalphaRanges.any fun (lo, hi) => decide (lo ≤ n) && decide (n ≤ hi)) = true := by
    decide +kernel
  have h' := (isAsciiUpper_iff c).1 h
  unfold pyIsAlpha inRanges
  exact key c.toNat (by omega) h'.1

theorem upper_ne_dot {c : Char} (h : isAsciiUpper c = true) : c ≠ '.' := by
  rintro rfl; revert h; decide

/-- a character a tokenizer unit may start with after the optional bond character -/
def symStart (c : Char) : Prop := isSmilesBondChar c = false ∧ c ≠ '.'

theorem symStart_upper {c : Char} (h : isAsciiUpper c = true) : symStart c :=
  ⟨upper_not_bond h, upper_ne_dot h⟩

/-! ### bond texts -/

/-- nothing, or one bond character -/
def BondTextOK (bt : Str) : Prop := bt = [] ∨ ∃ c, bt = [c] ∧ isSmilesBondChar c = true ∧ c ≠ '.'

theorem bondText_ok (b : DirBond) : BondTextOK (bondText b) := by
  unfold bondText bondToSmiles
  by_cases h1 : (b.order == 1) = true
  · simp only [h1, if_true]
    cases b.stereo with
    | none => exact Or.inl rfl
    | some c =>
      by_cases hc : Gen.smilesStereoBonds.contains c = true
      · simp only [hc, if_true]
        right
        refine ⟨c, rfl, ?_⟩
        have : c ∈ Gen.smilesStereoBonds := by simpa using hc
        simp only [Gen.smilesStereoBonds, List.mem_cons, List.not_mem_nil, or_false] at this
        rcases this with rfl | rfl <;> decide
      · simp only [hc]
        exact Or.inl rfl
  · simp only [h1]
    by_cases h2 : (b.order == 2) = true
    · simp only [h2, if_true]
      right; exact ⟨'=', rfl, by decide, by decide⟩
    · simp only [h2]
      by_cases h3 : (b.order == 3) = true
      · simp only [h3, if_true]
        right; exact ⟨'#', rfl, by decide, by decide⟩
      · simp only [h3]
        exact Or.inl rfl

/-! ### `lexSymbol` on one unit -/

theorem spanCloseBracket_body : ∀ (body rest : Str), (∀ c ∈ body, c ≠ ']') →
    spanCloseBracket (body ++ ']' :: rest) = some (body ++ [']'], rest)
  | [], rest, _ => by simp [spanCloseBracket]
  | c :: body, rest, h => by
    have hc : c ≠ ']' := h c (by simp)
    have ih := spanCloseBracket_body body rest (fun x hx => h x (by simp [hx]))
    simp [spanCloseBracket, hc, ih]

/-- the next character does not turn a one-letter atom into `Cl` / `Br` -/
def SafeStart (s : Str) : Prop := ∀ c, s.head? = some c → c ≠ 'l' ∧ c ≠ 'r'

theorem lex_atom {t : Str} (ht : AtomLex t) (bond : Option Char) (rest : Str) (hs : SafeStart rest) :
    lexSymbol bond (t ++ rest) = some ({ bondChar := bond, kind := .atom, text := t }, rest) := by
  cases ht with
  | one c hc =>
    have ha := upper_alpha hc
    cases rest with
    | nil => simp [lexSymbol, ha]
    | cons d rest' =>
      obtain ⟨h1, h2⟩ := hs d rfl
      simp [lexSymbol, ha, h1, h2]
  | br =>
    have ha : pyIsAlpha 'B' = true := upper_alpha (by decide)
    simp [lexSymbol, ha]
  | cl =>
    have ha : pyIsAlpha 'C' = true := upper_alpha (by decide)
    simp [lexSymbol, ha]
  | bracket body hb =>
    have ha : pyIsAlpha '[' = false := by decide +kernel
    have := spanCloseBracket_body body rest hb
    simp only [List.cons_append, List.append_assoc, lexSymbol, ha,
      Bool.false_eq_true, if_false, beq_self_eq_true, if_true, List.nil_append]
    rw [this]

theorem labelText_cases : ∀ n, n < 100 → 1 ≤ n →
    (∃ d, labelText n = [d] ∧ pyIsAlpha d = false ∧ d ≠ '[' ∧ d ≠ '(' ∧ d ≠ ')' ∧ pyIsDigit d = true
        ∧ isSmilesBondChar d = false ∧ d ≠ '.' ∧ d ≠ 'l' ∧ d ≠ 'r') ∨
    (∃ d1 d2, labelText n = ['%', d1, d2] ∧ pyIsNumeric d1 = true ∧ pyIsNumeric d2 = true) := by
  have key : ∀ n, n < 100 → 1 ≤ n →
      (match labelText n with
       | [d] => !pyIsAlpha d && d != '[' && d != '(' && d != ')' && pyIsDigit d
                  && !isSmilesBondChar d && d != '.' && d != 'l' && d != 'r'
       | [p, d1, d2] => p == '%' && pyIsNumeric d1 && pyIsNumeric d2
       | _ => false) = true := by decide +kernel
  intro n h1 h2
  have := key n h1 h2
  split at this
  · rename_i d hd
    left
    simp only [Bool.and_eq_true, Bool.not_eq_true', bne_iff_ne, ne_eq] at this
    obtain ⟨⟨⟨⟨⟨⟨⟨⟨a1, a2⟩, a3⟩, a4⟩, a5⟩, a6⟩, a7⟩, a8⟩, a9⟩ := this
    exact ⟨d, hd, a1, a2, a3, a4, a5, a6, a7, a8, a9⟩
  · rename_i p d1 d2 hd
    right
    simp only [Bool.and_eq_true, beq_iff_eq] at this
    obtain ⟨⟨rfl, a2⟩, a3⟩ := this
    exact ⟨d1, d2, hd, a2, a3⟩
  · cases this

theorem lex_label {n : Nat} (h1 : 1 ≤ n) (h2 : n ≤ 99) (bond : Option Char) (rest : Str) :
    lexSymbol bond (labelText n ++ rest)
      = some ({ bondChar := bond, kind := .ring, text := labelText n }, rest) := by
  rcases labelText_cases n (by omega) h1 with ⟨d, hd, a1, a2, a3, a4, a5, _⟩ | ⟨d1, d2, hd, a2, a3⟩
  · rw [hd]
    simp [lexSymbol, a1, a2, a3, a4, a5]
  · rw [hd]
    have b1 : pyIsAlpha '%' = false := by decide +kernel
    have b2 : pyIsDigit '%' = false := by decide +kernel
    simp [lexSymbol, b1, b2, a2, a3]

theorem labelText_start {n : Nat} (h1 : 1 ≤ n) (h2 : n ≤ 99) :
    ∃ c s, labelText n = c :: s ∧ symStart c ∧ c ≠ 'l' ∧ c ≠ 'r' := by
  rcases labelText_cases n (by omega) h1 with ⟨d, hd, _, _, _, _, _, a6, a7, a8, a9⟩ | ⟨d1, d2, hd, _, _⟩
  · exact ⟨d, [], hd, ⟨a6, a7⟩, a8, a9⟩
  · exact ⟨'%', [d1, d2], hd, ⟨by decide, by decide⟩, by decide, by decide⟩

theorem lex_open (rest : Str) :
    lexSymbol none ('(' :: rest) = some ({ bondChar := none, kind := .branch, text := ['('] }, rest) := by
  have ha : pyIsAlpha '(' = false := by decide +kernel
  simp [lexSymbol, ha]

theorem lex_close (rest : Str) :
    lexSymbol none (')' :: rest) = some ({ bondChar := none, kind := .branch, text := [')'] }, rest) := by
  have ha : pyIsAlpha ')' = false := by decide +kernel
  simp [lexSymbol, ha]

theorem atomLex_start {t : Str} (ht : AtomLex t) :
    ∃ c s, t = c :: s ∧ symStart c ∧ c ≠ 'l' ∧ c ≠ 'r' := by
  cases ht with
  | one c hc =>
    refine ⟨c, [], rfl, symStart_upper hc, ?_, ?_⟩ <;> (rintro rfl; revert hc; decide)
  | br => exact ⟨'B', ['r'], rfl, ⟨by decide, by decide⟩, by decide, by decide⟩
  | cl => exact ⟨'C', ['l'], rfl, ⟨by decide, by decide⟩, by decide, by decide⟩
  | bracket body _ => exact ⟨'[', body ++ [']'], rfl, ⟨by decide, by decide⟩, by decide, by decide⟩

/-! ### one iteration of the tokenizer -/

/-- a unit `bt ++ sym` (bond text, symbol) in front of `rest` is split off in one iteration -/
theorem tokenize_unit {bt sym rest : Str} {tok : SmilesTok} (F : Nat) (hbt : BondTextOK bt)
    (hsym : ∃ c s, sym = c :: s ∧ symStart c)
    (hlex : lexSymbol bt.head? (sym ++ rest) = some (tok, rest)) :
    tokenizeSmiles (F + 1) (bt ++ (sym ++ rest)) = (tokenizeSmiles F rest).map (tok :: ·) := by
  obtain ⟨c, s, rfl, hc1, hc2⟩ := hsym
  rcases hbt with rfl | ⟨b, rfl, hb1, hb2⟩
  · simp only [List.nil_append, List.cons_append, tokenizeSmiles]
    have : (c == '.') = false := by simpa using hc2
    simp only [this, Bool.false_eq_true, if_false, hc1]
    simp only [List.head?_nil, List.cons_append] at hlex
    rw [hlex]
    simp only [List.length_cons, List.length_append]
    rw [if_pos (by omega)]
  · simp only [List.cons_append, List.nil_append, tokenizeSmiles]
    have : (b == '.') = false := by simpa using hb2
    simp only [this, Bool.false_eq_true, if_false, hb1, if_true]
    simp only [List.head?_cons, List.cons_append] at hlex
    rw [hlex]
    simp only [List.length_cons, List.length_append]
    rw [if_pos (by omega)]

/-! ### the units -/

def RP.OK : RP → Prop
  | .atom bt _ t => BondTextOK bt ∧ AtomLex t
  | .ring bt _ _ => BondTextOK bt
  | .open_ => True
  | .close => True

theorem ringStep_some {log : RingLog} {a b r : Nat} (h : lookup (min a b, max a b) log = some r) :
    ringStep log a b = (r, log) := by
  unfold ringStep; simp only [h]

theorem ringStep_none {log : RingLog} {a b : Nat} (h : lookup (min a b, max a b) log = none) :
    ringStep log a b = (log.length + 1, log ++ [((min a b, max a b), log.length + 1)]) := by
  unfold ringStep; simp only [h]

theorem ringStep_length_le (log : RingLog) (a b : Nat) : log.length ≤ (ringStep log a b).2.length := by
  cases h : lookup (min a b, max a b) log with
  | some r => rw [ringStep_some h]; exact Nat.le_refl _
  | none => rw [ringStep_none h]; simp

theorem ringStep_ok {log : RingLog} (h : LogOK log) (a b : Nat) :
    LogOK (ringStep log a b).2 ∧ 1 ≤ (ringStep log a b).1 ∧
      (ringStep log a b).1 ≤ (ringStep log a b).2.length := by
  cases hr : lookup (min a b, max a b) log with
  | some r =>
    rw [ringStep_some hr]
    exact ⟨h, h.val_range (lookup_some hr)⟩
  | none =>
    rw [ringStep_none hr]
    exact ⟨h.snoc (lookup_none hr), by simp, by simp⟩

theorem rLog_length_le : ∀ (l : List RP) (log : RingLog), log.length ≤ (rLog log l).length
  | [], _ => Nat.le_refl _
  | t :: l, log => by
    cases t with
    | atom bt i t => rw [rLog_atom]; exact rLog_length_le l log
    | ring bt a b =>
      rw [rLog_ring]
      exact Nat.le_trans (ringStep_length_le log a b) (rLog_length_le l _)
    | open_ => rw [rLog_open]; exact rLog_length_le l log
    | close => rw [rLog_close]; exact rLog_length_le l log

theorem rLog_ok : ∀ (l : List RP) {log : RingLog}, LogOK log → LogOK (rLog log l)
  | [], _, h => h
  | t :: l, log, h => by
    cases t with
    | atom bt i t => rw [rLog_atom]; exact rLog_ok l h
    | ring bt a b => rw [rLog_ring]; exact rLog_ok l (ringStep_ok h a b).1
    | open_ => rw [rLog_open]; exact rLog_ok l h
    | close => rw [rLog_close]; exact rLog_ok l h

/-- the written string of a non-empty unit list starts with a harmless character -/
theorem rStr_safeStart : ∀ (l : List RP) (log : RingLog) (tail : Str), (∀ t ∈ l, t.OK) →
    LogOK log → (rLog log l).length ≤ 99 → SafeStart tail → SafeStart (rStr log l ++ tail)
  | [], _, _, _, _, _, ht => by simpa using ht
  | t :: l, log, tail, hok, hlog, h99, _ => by
    have htok := hok t (by simp)
    intro c hc
    cases t with
    | atom bt i t =>
      obtain ⟨hbt, hat⟩ := htok
      obtain ⟨c0, s0, rfl, _, h1, h2⟩ := atomLex_start hat
      rw [rStr_atom] at hc
      rcases hbt with rfl | ⟨b, rfl, hb1, _⟩
      · simp only [List.nil_append, List.cons_append, List.head?_cons, Option.some.injEq] at hc
        subst hc; exact ⟨h1, h2⟩
      · simp only [List.cons_append, List.head?_cons, Option.some.injEq] at hc
        subst hc
        constructor <;> (rintro rfl; revert hb1; decide)
    | ring bt a b =>
      have hbt : BondTextOK bt := htok
      obtain ⟨hl, n1, n2⟩ := ringStep_ok hlog a b
      rw [rLog_ring] at h99
      have n99 : (ringStep log a b).1 ≤ 99 := by
        have := rLog_length_le l (ringStep log a b).2
        omega
      obtain ⟨c0, s0, e0, _, h1, h2⟩ := labelText_start n1 n99
      rw [rStr_ring, e0] at hc
      rcases hbt with rfl | ⟨b, rfl, hb1, _⟩
      · simp only [List.nil_append, List.cons_append, List.head?_cons, Option.some.injEq] at hc
        subst hc; exact ⟨h1, h2⟩
      · simp only [List.cons_append, List.head?_cons, Option.some.injEq] at hc
        subst hc
        constructor <;> (rintro rfl; revert hb1; decide)
    | open_ =>
      rw [rStr_open] at hc
      simp only [List.cons_append, List.head?_cons, Option.some.injEq] at hc
      subst hc; exact ⟨by decide, by decide⟩
    | close =>
      rw [rStr_close] at hc
      simp only [List.cons_append, List.head?_cons, Option.some.injEq] at hc
      subst hc; exact ⟨by decide, by decide⟩

/-- **the tokenizer on a list of units** followed by `tail` -/
theorem tokenize_units : ∀ (l : List RP) (log : RingLog) (tail : Str) (F : Nat),
    (∀ t ∈ l, t.OK) → LogOK log → (rLog log l).length ≤ 99 → SafeStart tail →
    tokenizeSmiles (F + l.length) (rStr log l ++ tail)
      = (tokenizeSmiles F tail).map (rLex log l ++ ·)
  | [], log, tail, F, _, _, _, _ => by
    simp only [List.length_nil, Nat.add_zero, rStr_nil, List.nil_append, rLex]
    cases tokenizeSmiles F tail <;> rfl
  | t :: l, log, tail, F, hok, hlog, h99, htail => by
    have htok := hok t (by simp)
    have hokl : ∀ x ∈ l, x.OK := fun x hx => hok x (by simp [hx])
    have hF : F + (t :: l).length = (F + l.length) + 1 := by simp; omega
    rw [hF]
    cases t with
    | atom bt i t =>
      obtain ⟨hbt, hat⟩ := htok
      rw [rLog_atom] at h99
      have ih := tokenize_units l log tail F hokl hlog h99 htail
      have hs := rStr_safeStart l log tail hokl hlog h99 htail
      obtain ⟨c0, s0, e0, hc0, _⟩ := atomLex_start hat
      rw [rStr_atom, List.append_assoc, List.append_assoc,
        tokenize_unit _ hbt ⟨c0, s0, e0, hc0⟩ (lex_atom hat _ _ hs), ih]
      cases tokenizeSmiles F tail <;> simp [rLex]
    | ring bt a b =>
      have hbt : BondTextOK bt := htok
      obtain ⟨hl, n1, n2⟩ := ringStep_ok hlog a b
      rw [rLog_ring] at h99
      have n99 : (ringStep log a b).1 ≤ 99 := by
        have := rLog_length_le l (ringStep log a b).2
        omega
      have ih := tokenize_units l (ringStep log a b).2 tail F hokl hl h99 htail
      obtain ⟨c0, s0, e0, hc0, _⟩ := labelText_start n1 n99
      rw [rStr_ring, List.append_assoc, List.append_assoc,
        tokenize_unit _ hbt ⟨c0, s0, e0, hc0⟩ (lex_label n1 n99 _ _), ih]
      cases tokenizeSmiles F tail <;> simp [rLex]
    | open_ =>
      rw [rLog_open] at h99
      have ih := tokenize_units l log tail F hokl hlog h99 htail
      rw [rStr_open]
      have := tokenize_unit (bt := []) (sym := ['(']) (rest := rStr log l ++ tail) (F + l.length)
        (Or.inl rfl) ⟨'(', [], rfl, by decide, by decide⟩ (lex_open _)
      simp only [List.nil_append, List.cons_append] at this
      rw [List.cons_append, this, ih]
      cases tokenizeSmiles F tail <;> simp [rLex]
    | close =>
      rw [rLog_close] at h99
      have ih := tokenize_units l log tail F hokl hlog h99 htail
      rw [rStr_close]
      have := tokenize_unit (bt := []) (sym := [')']) (rest := rStr log l ++ tail) (F + l.length)
        (Or.inl rfl) ⟨')', [], rfl, by decide, by decide⟩ (lex_close _)
      simp only [List.nil_append, List.cons_append] at this
      rw [List.cons_append, this, ih]
      cases tokenizeSmiles F tail <;> simp [rLex]

end SV
