/-
  Helper development for property C04 (stereochemistry round trip).

  Part A  `inversions : List Nat → Nat` and the three facts that characterise
          `inversions l % 2` as the parity of the permutation `l`:
            (a) swapping two adjacent, different elements changes `inversions` by exactly one
                (`inversions_swap_adjacent`, `inversions_swap_adjacent_parity`);
            (b) `inversions (List.range n) = 0` (`inversions_range`);
            (c) `inversions l = 0 ↔ l` is sorted (`inversions_eq_zero_iff`,
                `inversions_eq_zero_iff_lt` for duplicate-free lists).
          Consequently (`AdjSwaps.parity_of_sorted`, `exists_adjSwaps_sort`): every list can be sorted
          by adjacent transpositions, `inversions l` of them suffice, and EVERY way of sorting `l`
          by `k` adjacent transpositions of different elements has `k % 2 = inversions l % 2`.
          `inversions_eq_pairs` is the "number of pairs `i < j` with `l[i] > l[j]`" reading.
  Part B  a stable insertion sort on positions, uniqueness of lists sorted by a strict
          lexicographic order, stability of core's `List.mergeSort` in `Pairwise` form.
  Part C  the specification `decoderOrder` of the neighbour order the decoder writes, its
          declarative characterisation (`decoderOrder_perm`, `decoderOrder_pairwise`,
          `decoderOrder_unique`) and the proof that the model's `filter / mergeSort / zip`
          pipeline in `shouldInvertChirality` computes it (`shouldInvertChirality_eq`).
  Part D  small facts about bond characters for the '/' '\' marks.

  Core only (no Mathlib import needed).  The optional link to Mathlib's `Equiv.Perm.sign` is in
  Proofs/ParitySign.lean.
-/
import SelfiesVerif.Model.Encoder

namespace SV

open List

/-! ## Part A: inversions -/

/-- number of pairs of positions `i < j` with `l[i] > l[j]` -/
def inversions : List Nat → Nat
  | [] => 0
  | x :: rest => rest.countP (fun y => y < x) + inversions rest

@[simp] theorem inversions_nil : inversions [] = 0 := rfl

@[simp] theorem inversions_cons (x : Nat) (rest : List Nat) :
    inversions (x :: rest) = rest.countP (fun y => y < x) + inversions rest := rfl

/-- the model's local `inversions` (a `let rec` inside `shouldInvertChirality`) is this function -/
theorem model_inversions_eq (l : List Nat) : shouldInvertChirality.inversions l = inversions l := by
  induction l with
  | nil => rfl
  | cons x rest ih =>
    simp only [shouldInvertChirality.inversions, inversions_cons, ih, countP_eq_length_filter]

/-- number of pairs `(x, y)`, `x` from `l₁`, `y` from `l₂`, with `x > y` -/
def crossInv (l₁ l₂ : List Nat) : Nat := (l₁.map fun x => l₂.countP (fun y => y < x)).sum

theorem inversions_append (l₁ l₂ : List Nat) :
    inversions (l₁ ++ l₂) = inversions l₁ + inversions l₂ + crossInv l₁ l₂ := by
  induction l₁ with
  | nil => simp [crossInv]
  | cons x l₁ ih =>
    simp only [cons_append, inversions_cons, ih, countP_append, crossInv, map_cons, sum_cons]
    omega

/-- (a) swapping the adjacent pair `a < b` into `b, a` adds exactly one inversion -/
theorem inversions_swap_adjacent (l₁ l₂ : List Nat) (a b : Nat) (h : a < b) :
    inversions (l₁ ++ b :: a :: l₂) = inversions (l₁ ++ a :: b :: l₂) + 1 := by
  induction l₁ with
  | nil =>
    have h1 : (decide (a < b)) = true := by simpa using h
    have h2 : (decide (b < a)) = false := by simp; omega
    simp only [nil_append, inversions_cons, countP_cons, h1, h2]
    simp
    omega
  | cons x l₁ ih =>
    simp only [cons_append, inversions_cons, ih, countP_append, countP_cons]
    omega

/-- (a), parity form: an adjacent transposition of two different elements flips the parity -/
theorem inversions_swap_adjacent_parity (l₁ l₂ : List Nat) (a b : Nat) (h : a ≠ b) :
    inversions (l₁ ++ b :: a :: l₂) % 2 ≠ inversions (l₁ ++ a :: b :: l₂) % 2 := by
  rcases Nat.lt_or_gt_of_ne h with h | h
  · rw [inversions_swap_adjacent l₁ l₂ a b h]; omega
  · rw [inversions_swap_adjacent l₁ l₂ b a h]; omega

/-- (c) no inversions iff sorted -/
theorem inversions_eq_zero_iff (l : List Nat) : inversions l = 0 ↔ l.Pairwise (· ≤ ·) := by
  induction l with
  | nil => simp
  | cons x rest ih =>
    simp only [inversions_cons, Nat.add_eq_zero_iff, ih, pairwise_cons, countP_eq_zero,
      decide_eq_true_eq, Nat.not_lt]

/-- (c) for duplicate-free lists: no inversions iff strictly sorted -/
theorem inversions_eq_zero_iff_lt (l : List Nat) (hn : l.Nodup) :
    inversions l = 0 ↔ l.Pairwise (· < ·) := by
  rw [inversions_eq_zero_iff]
  constructor
  · intro h
    have := h.and hn
    exact this.imp (fun ⟨h1, h2⟩ => Nat.lt_of_le_of_ne h1 h2)
  · exact fun h => h.imp Nat.le_of_lt

/-- (b) the identity permutation has no inversions -/
theorem inversions_range (n : Nat) : inversions (List.range n) = 0 :=
  (inversions_eq_zero_iff _).2 (pairwise_lt_range.imp Nat.le_of_lt)

/-- a sorted permutation of `0..n-1` is the identity -/
theorem eq_range_of_perm_of_inversions_eq_zero (l : List Nat) (n : Nat)
    (hp : l.Perm (List.range n)) (h0 : inversions l = 0) : l = List.range n := by
  refine Perm.eq_of_pairwise (le := (· ≤ ·)) (fun a b _ _ => Nat.le_antisymm)
    ((inversions_eq_zero_iff l).1 h0) (pairwise_lt_range.imp Nat.le_of_lt) hp

/-! ### `inversions` counts pairs of positions -/

theorem countP_range_getD (p : Nat → Bool) (l : List Nat) :
    (List.range l.length).countP (fun j => p (l.getD j 0)) = l.countP p := by
  induction l with
  | nil => rfl
  | cons x rest ih =>
    rw [length_cons, range_succ_eq_map, countP_cons, countP_map]
    simp only [getD_cons_zero, countP_cons]
    rw [← ih]
    have : ((fun j => p ((x :: rest).getD j 0)) ∘ Nat.succ) = fun j => p (rest.getD j 0) := by
      funext j; simp
    rw [this]

/-- `inversions l` is the number of pairs of positions `i < j` with `l[i] > l[j]` -/
theorem inversions_eq_pairs (l : List Nat) :
    inversions l =
      ((List.range l.length).map fun i =>
        (List.range l.length).countP fun j => i < j && l.getD j 0 < l.getD i 0).sum := by
  induction l with
  | nil => rfl
  | cons x rest ih =>
    rw [inversions_cons, length_cons, range_succ_eq_map, map_cons, sum_cons, map_map, ih,
      ← countP_range_getD (fun y => decide (y < x)) rest]
    congr 1
    · rw [countP_cons, countP_map]
      simp
      congr 1
    · congr 1
      apply map_congr_left
      intro i _
      simp only [Function.comp]
      rw [countP_cons, countP_map]
      simp
      congr 1
      funext j
      simp

/-! ### adjacent transpositions -/

/-- `AdjSwaps k l l'`: `l'` arises from `l` by `k` transpositions of adjacent, different elements -/
inductive AdjSwaps : Nat → List Nat → List Nat → Prop
  | refl (l : List Nat) : AdjSwaps 0 l l
  | step {k : Nat} {l₁ l₂ l' : List Nat} {a b : Nat} :
      a ≠ b → AdjSwaps k (l₁ ++ b :: a :: l₂) l' → AdjSwaps (k + 1) (l₁ ++ a :: b :: l₂) l'

/-- every adjacent transposition flips the parity of `inversions` -/
theorem AdjSwaps.parity {k : Nat} {l l' : List Nat} (h : AdjSwaps k l l') :
    (inversions l + k) % 2 = inversions l' % 2 := by
  induction h with
  | refl l => rfl
  | @step k l₁ l₂ l' a b hab _ ih =>
    have := inversions_swap_adjacent_parity l₁ l₂ a b hab
    omega

/-- however a list is sorted by adjacent transpositions, the number of transpositions has the
    parity of `inversions` -/
theorem AdjSwaps.parity_of_sorted {k : Nat} {l l' : List Nat} (h : AdjSwaps k l l')
    (hs : l'.Pairwise (· ≤ ·)) : k % 2 = inversions l % 2 := by
  have := h.parity
  rw [(inversions_eq_zero_iff l').2 hs] at this
  omega

theorem AdjSwaps.perm {k : Nat} {l l' : List Nat} (h : AdjSwaps k l l') : l.Perm l' := by
  induction h with
  | refl l => exact Perm.refl _
  | @step k l₁ l₂ l' a b _ _ ih =>
    exact (Perm.append_left l₁ (Perm.swap b a l₂)).trans ih

/-- an unsorted list has an adjacent descent -/
theorem exists_descent (l : List Nat) (h : ¬ l.Pairwise (· ≤ ·)) :
    ∃ l₁ a b l₂, l = l₁ ++ a :: b :: l₂ ∧ b < a := by
  induction l with
  | nil => simp at h
  | cons x rest ih =>
    by_cases hr : rest.Pairwise (· ≤ ·)
    · match rest, hr with
      | [], _ => simp at h
      | y :: ys, hr =>
        by_cases hxy : y < x
        · exact ⟨[], x, y, ys, rfl, hxy⟩
        · exfalso
          apply h
          rw [pairwise_cons] at hr ⊢
          refine ⟨?_, pairwise_cons.2 hr⟩
          intro z hz
          rcases mem_cons.1 hz with rfl | hz
          · omega
          · have := hr.1 z hz; omega
    · obtain ⟨l₁, a, b, l₂, rfl, hab⟩ := ih hr
      exact ⟨x :: l₁, a, b, l₂, rfl, hab⟩

/-- bubble sort: `inversions l` adjacent transpositions sort `l` -/
theorem exists_adjSwaps_sort (l : List Nat) :
    ∃ l', AdjSwaps (inversions l) l l' ∧ l'.Pairwise (· ≤ ·) := by
  generalize hn : inversions l = n
  induction n generalizing l with
  | zero => exact ⟨l, .refl l, (inversions_eq_zero_iff l).1 hn⟩
  | succ n ih =>
    have hns : ¬ l.Pairwise (· ≤ ·) := fun h => by
      rw [(inversions_eq_zero_iff l).2 h] at hn; omega
    obtain ⟨l₁, a, b, l₂, rfl, hab⟩ := exists_descent l hns
    have hsw := inversions_swap_adjacent l₁ l₂ b a hab
    obtain ⟨l', hs, hp⟩ := ih (l₁ ++ b :: a :: l₂) (by omega)
    exact ⟨l', .step (by omega) hs, hp⟩

/-! ## Part B: sorting positions -/

/-- insert position `x` in front of the first element whose key is not smaller -/
def insertByKey (key : Nat → Nat) (x : Nat) : List Nat → List Nat
  | [] => [x]
  | y :: ys => if key x ≤ key y then x :: y :: ys else y :: insertByKey key x ys

/-- stable insertion sort of a list of positions by `key` (equal keys keep their order) -/
def stableSortBy (key : Nat → Nat) : List Nat → List Nat
  | [] => []
  | x :: xs => insertByKey key x (stableSortBy key xs)

theorem insertByKey_perm (key : Nat → Nat) (x : Nat) (l : List Nat) :
    (insertByKey key x l).Perm (x :: l) := by
  induction l with
  | nil => exact Perm.refl _
  | cons y ys ih =>
    unfold insertByKey
    split
    · exact Perm.refl _
    · exact (ih.cons y).trans (Perm.swap x y ys)

theorem stableSortBy_perm (key : Nat → Nat) (l : List Nat) : (stableSortBy key l).Perm l := by
  induction l with
  | nil => exact Perm.refl _
  | cons x xs ih => exact (insertByKey_perm key x _).trans (ih.cons x)

/-- smaller key first; equal keys: smaller position first -/
def KeyLt (key : Nat → Nat) (i j : Nat) : Prop := key i < key j ∨ (key i = key j ∧ i < j)

theorem insertByKey_pairwise (key : Nat → Nat) (x : Nat) (l : List Nat)
    (hl : l.Pairwise (KeyLt key)) (hx : ∀ y ∈ l, x < y) :
    (insertByKey key x l).Pairwise (KeyLt key) := by
  induction l with
  | nil => simp [insertByKey]
  | cons y ys ih =>
    rw [pairwise_cons] at hl
    unfold insertByKey
    split
    · rename_i hle
      refine pairwise_cons.2 ⟨?_, pairwise_cons.2 hl⟩
      intro z hz
      have hxz := hx z hz
      rcases mem_cons.1 hz with rfl | hz'
      · unfold KeyLt; omega
      · have := hl.1 z hz'
        unfold KeyLt at this ⊢; omega
    · rename_i hnle
      refine pairwise_cons.2 ⟨?_, ih hl.2 (fun z hz => hx z (mem_cons_of_mem _ hz))⟩
      intro z hz
      rcases mem_cons.1 ((insertByKey_perm key x ys).subset hz) with rfl | hz'
      · unfold KeyLt; omega
      · exact hl.1 z hz'

/-- the output of `stableSortBy` on an increasing list of positions is sorted by key and,
    among equal keys, by position: it is a STABLE sort -/
theorem stableSortBy_pairwise (key : Nat → Nat) (l : List Nat) (hl : l.Pairwise (· < ·)) :
    (stableSortBy key l).Pairwise (KeyLt key) := by
  induction l with
  | nil => simp [stableSortBy]
  | cons x xs ih =>
    rw [pairwise_cons] at hl
    exact insertByKey_pairwise key x _ (ih hl.2)
      (fun y hy => hl.1 y ((stableSortBy_perm key xs).subset hy))

/-- lexicographic strict order on positions by `(f i, g i, i)` -/
def Lex3 (f g : Nat → Nat) (i j : Nat) : Prop :=
  f i < f j ∨ (f i = f j ∧ (g i < g j ∨ (g i = g j ∧ i < j)))

theorem Lex3.asymm {f g : Nat → Nat} {i j : Nat} : Lex3 f g i j → ¬ Lex3 f g j i := by
  unfold Lex3; omega

theorem Lex3.trans {f g : Nat → Nat} {i j k : Nat} : Lex3 f g i j → Lex3 f g j k → Lex3 f g i k := by
  unfold Lex3; omega

theorem Lex3.total {f g : Nat → Nat} {i j : Nat} (h : i ≠ j) : Lex3 f g i j ∨ Lex3 f g j i := by
  unfold Lex3; omega

/-- a list of positions sorted by a `Lex3` order is determined by its elements -/
theorem lex3_unique {f g : Nat → Nat} {l₁ l₂ : List Nat} (hp : l₁.Perm l₂)
    (h₁ : l₁.Pairwise (Lex3 f g)) (h₂ : l₂.Pairwise (Lex3 f g)) : l₁ = l₂ :=
  Perm.eq_of_pairwise (fun _ _ _ _ hab hba => absurd hba hab.asymm) h₁ h₂ hp

/-- three filters that partition a list -/
theorem filter3_perm {α : Type} (p q r : α → Bool) (l : List α)
    (h : ∀ x ∈ l, ((p x && !q x && !r x) || (!p x && q x && !r x) || (!p x && !q x && r x)) = true) :
    (l.filter p ++ l.filter q ++ l.filter r).Perm l := by
  induction l with
  | nil => exact Perm.refl _
  | cons x l ih =>
    have hx := h x mem_cons_self
    have ih := ih (fun y hy => h y (mem_cons_of_mem _ hy))
    rcases hp : p x <;> rcases hq : q x <;> rcases hr : r x <;> simp [hp, hq, hr] at hx
    · simp only [filter_cons, hp, hq, hr, Bool.false_eq_true, if_false, if_true]
      exact perm_middle.trans (ih.cons x)
    · simp only [filter_cons, hp, hq, hr, Bool.false_eq_true, if_false, if_true, append_assoc]
      have := ih
      rw [append_assoc] at this
      exact perm_middle.trans (this.cons x)
    · simp only [filter_cons, hp, hq, hr, Bool.false_eq_true, if_false, if_true, cons_append]
      exact ih.cons x

/-- two different members of a list occur in one of the two orders -/
theorem pair_sublist_or {α : Type} {x y : α} {l : List α} (hx : x ∈ l) (hy : y ∈ l) (hxy : x ≠ y) :
    [x, y] <+ l ∨ [y, x] <+ l := by
  induction l with
  | nil => simp at hx
  | cons z l ih =>
    rcases mem_cons.1 hx with rfl | hx'
    · rcases mem_cons.1 hy with rfl | hy'
      · exact absurd rfl hxy
      · exact Or.inl (Sublist.cons_cons _ (singleton_sublist.2 hy'))
    · rcases mem_cons.1 hy with rfl | hy'
      · exact Or.inr (Sublist.cons_cons _ (singleton_sublist.2 hx'))
      · rcases ih hx' hy' with h | h
        · exact Or.inl (h.cons _)
        · exact Or.inr (h.cons _)

/-- in a duplicate-free list two elements cannot occur in both orders -/
theorem not_both_pair_sublist {α : Type} {x y : α} {l : List α} (hn : l.Nodup)
    (h1 : [x, y] <+ l) (h2 : [y, x] <+ l) : False := by
  have hp : [x, y].Pairwise (· ≠ ·) := Pairwise.sublist h1 hn
  have hxy : x ≠ y := by simpa using hp
  induction l with
  | nil => simp at h1
  | cons z l ih =>
    rw [nodup_cons] at hn
    cases h1 with
    | cons _ h1' =>
      cases h2 with
      | cons _ h2' => exact ih hn.2 h1' h2'
      | cons_cons _ h2' =>
        -- y = z, but y ∈ l
        exact hn.1 (h1'.subset (by simp))
    | cons_cons _ h1' =>
      cases h2 with
      | cons _ h2' => exact hn.1 (h2'.subset (by simp))
      | cons_cons _ h2' => exact hxy rfl

/-- Stability of core's `List.mergeSort`, in `Pairwise` form: on a duplicate-free input whose
    elements are pairwise related by `T` (in input order), the output is sorted by `le` and any
    two elements that `le` cannot separate are still in input order. -/
theorem mergeSort_stable_pairwise {α : Type} (le : α → α → Bool) (T : α → α → Prop)
    (trans : ∀ a b c : α, le a b → le b c → le a c)
    (total : ∀ a b : α, le a b || le b a)
    (l : List α) (hn : l.Nodup) (hT : l.Pairwise T) :
    (l.mergeSort le).Pairwise (fun a b => le a b = true ∧ (le b a = true → T a b)) := by
  rw [pairwise_iff_forall_sublist]
  intro x y hxy
  have hsorted := pairwise_mergeSort trans total l
  refine ⟨pairwise_iff_forall_sublist.1 hsorted hxy, fun hyx => ?_⟩
  have hn' : (l.mergeSort le).Nodup := (mergeSort_perm l le).symm.nodup hn
  have hx : x ∈ l := mem_mergeSort.1 (hxy.subset (by simp))
  have hy : y ∈ l := mem_mergeSort.1 (hxy.subset (by simp))
  have hne : x ≠ y := by
    have hp : [x, y].Pairwise (· ≠ ·) := Pairwise.sublist hxy hn'
    simpa using hp
  rcases pair_sublist_or hx hy hne with h | h
  · exact pairwise_iff_forall_sublist.1 hT h
  · exact (not_both_pair_sublist hn' hxy (pair_sublist_mergeSort trans total hyx h)).elim

/-! ## Part C: the neighbour order written by the decoder -/

/-- a ring bond stored at the atom that CLOSES the ring (`...1...X1`): partner index is smaller.
    (`src = dst` cannot come out of the parser; the Python code files it here, and so do we.) -/
def PBond.isClosing (b : PBond) : Bool := b.ring && !(b.src < b.dst)
/-- a ring bond stored at the atom that OPENS the ring (`X1...1...`) -/
def PBond.isOpening (b : PBond) : Bool := b.ring && b.src < b.dst
/-- a chain or branch bond -/
def PBond.isChain (b : PBond) : Bool := !b.ring

/-- the positions `i` of `out` whose bond satisfies `p`, in increasing order -/
def positionsOf (p : PBond → Bool) (out : List PBond) : List Nat :=
  (List.range out.length).filter fun i =>
    match out[i]? with
    | some b => p b
    | none => false

/-- index of the atom at the other end of the bond at position `i` -/
def partnerAt (out : List PBond) (i : Nat) : Nat :=
  match out[i]? with
  | some b => b.dst
  | none => 0

/--
SPECIFICATION.  `out` is the list of out-bonds of an atom in the order the input SMILES wrote
them.  After encoding and decoding the same bonds are written in the order
`(decoderOrder out).map (out[·])`:
  1. the closing ring bonds, in their original order,
  2. the opening ring bonds, stably sorted by the index of the partner atom,
  3. the chain / branch bonds, in their original order.
-/
def decoderOrder (out : List PBond) : List Nat :=
  positionsOf PBond.isClosing out
    ++ stableSortBy (partnerAt out) (positionsOf PBond.isOpening out)
    ++ positionsOf PBond.isChain out

/-- 0 = closing ring bond, 1 = opening ring bond, 2 = chain bond (3 = no such position) -/
def bondClassAt (out : List PBond) (i : Nat) : Nat :=
  match out[i]? with
  | some b => if b.isClosing then 0 else if b.isOpening then 1 else 2
  | none => 3

/-- partner index for opening ring bonds, 0 for everything else -/
def openKeyAt (out : List PBond) (i : Nat) : Nat :=
  match out[i]? with
  | some b => if b.isOpening then b.dst else 0
  | none => 0

/--
Declarative form of the same specification: position `i` is written before position `j` iff
* the class of `i` (closing ring < opening ring < chain) is smaller, or
* the classes agree, both are opening ring bonds and `i`'s partner index is smaller, or
* classes (and, for opening ring bonds, partner indices) agree and `i < j`.
-/
def Before (out : List PBond) (i j : Nat) : Prop :=
  bondClassAt out i < bondClassAt out j ∨
    (bondClassAt out i = bondClassAt out j ∧
      (openKeyAt out i < openKeyAt out j ∨ (openKeyAt out i = openKeyAt out j ∧ i < j)))

instance (out : List PBond) (i j : Nat) : Decidable (Before out i j) := by
  unfold Before; exact inferInstance

theorem before_eq_lex3 (out : List PBond) : Before out = Lex3 (bondClassAt out) (openKeyAt out) := rfl

theorem mem_positionsOf {p : PBond → Bool} {out : List PBond} {i : Nat} :
    i ∈ positionsOf p out ↔ ∃ b, out[i]? = some b ∧ p b = true := by
  unfold positionsOf
  rw [mem_filter, mem_range]
  constructor
  · rintro ⟨hi, h⟩
    rw [getElem?_eq_getElem hi] at h
    exact ⟨out[i], getElem?_eq_getElem hi, h⟩
  · rintro ⟨b, hb, hp⟩
    refine ⟨(List.getElem?_eq_some_iff.1 hb).1, ?_⟩
    rw [hb]; exact hp

theorem positionsOf_pairwise (p : PBond → Bool) (out : List PBond) :
    (positionsOf p out).Pairwise (· < ·) :=
  Pairwise.sublist filter_sublist pairwise_lt_range

theorem bond_trichotomy (b : PBond) :
    ((b.isClosing && !b.isOpening && !b.isChain) || (!b.isClosing && b.isOpening && !b.isChain)
      || (!b.isClosing && !b.isOpening && b.isChain)) = true := by
  unfold PBond.isClosing PBond.isOpening PBond.isChain
  cases b.ring <;> cases decide (b.src < b.dst) <;> rfl

theorem decoderOrder_perm (out : List PBond) :
    (decoderOrder out).Perm (List.range out.length) := by
  unfold decoderOrder
  refine Perm.trans (Perm.append_right _ (Perm.append_left _ (stableSortBy_perm _ _))) ?_
  unfold positionsOf
  apply filter3_perm
  intro i hi
  rw [mem_range] at hi
  rw [getElem?_eq_getElem hi]
  exact bond_trichotomy _

theorem decoderOrder_nodup (out : List PBond) : (decoderOrder out).Nodup :=
  (decoderOrder_perm out).symm.nodup nodup_range

theorem decoderOrder_length (out : List PBond) : (decoderOrder out).length = out.length := by
  rw [(decoderOrder_perm out).length_eq, length_range]

private theorem before_of_some {out : List PBond} {i j : Nat} {bi bj : PBond}
    (hi : out[i]? = some bi) (hj : out[j]? = some bj) :
    Before out i j ↔
      ((if bi.isClosing then 0 else if bi.isOpening then 1 else 2) <
          (if bj.isClosing then 0 else if bj.isOpening then 1 else 2) ∨
       ((if bi.isClosing then 0 else if bi.isOpening then 1 else 2) =
          (if bj.isClosing then 0 else if bj.isOpening then 1 else 2) ∧
        ((if bi.isOpening then bi.dst else 0) < (if bj.isOpening then bj.dst else 0) ∨
         ((if bi.isOpening then bi.dst else 0) = (if bj.isOpening then bj.dst else 0) ∧ i < j)))) := by
  unfold Before bondClassAt openKeyAt
  rw [hi, hj]

/-- classification facts used to discharge the `Before` goals -/
private theorem cls_closing {b : PBond} (h : b.isClosing = true) : b.isOpening = false := by
  unfold PBond.isClosing at h; unfold PBond.isOpening
  cases hr : b.ring <;> cases hd : decide (b.src < b.dst) <;> simp_all

private theorem cls_chain {b : PBond} (h : b.isChain = true) :
    b.isOpening = false ∧ b.isClosing = false := by
  unfold PBond.isChain at h; unfold PBond.isOpening PBond.isClosing
  cases hr : b.ring <;> simp_all

private theorem cls_opening {b : PBond} (h : b.isOpening = true) : b.isClosing = false := by
  unfold PBond.isOpening at h; unfold PBond.isClosing
  cases hr : b.ring <;> cases hd : decide (b.src < b.dst) <;> simp_all

/-- generic assembly: three blocks of positions whose bonds are closing / opening / chain,
    the outer blocks increasing, the middle block sorted by (partner, position) -/
private theorem before_blocks (out : List PBond) (A B C : List Nat)
    (hA : ∀ i ∈ A, ∃ b, out[i]? = some b ∧ b.isClosing = true)
    (hB : ∀ i ∈ B, ∃ b, out[i]? = some b ∧ b.isOpening = true)
    (hC : ∀ i ∈ C, ∃ b, out[i]? = some b ∧ b.isChain = true)
    (pA : A.Pairwise (· < ·)) (pC : C.Pairwise (· < ·))
    (pB : B.Pairwise (KeyLt (partnerAt out))) :
    (A ++ B ++ C).Pairwise (Before out) := by
  rw [pairwise_append, pairwise_append]
  refine ⟨⟨?_, ?_, ?_⟩, ?_, ?_⟩
  · refine pA.imp_of_mem ?_
    intro i j hi hj hij
    obtain ⟨bi, hbi, ci⟩ := hA i hi
    obtain ⟨bj, hbj, cj⟩ := hA j hj
    rw [before_of_some hbi hbj]
    simp [ci, cj, cls_closing ci, cls_closing cj, hij]
  · refine pB.imp_of_mem ?_
    intro i j hi hj hij
    obtain ⟨bi, hbi, ci⟩ := hB i hi
    obtain ⟨bj, hbj, cj⟩ := hB j hj
    rw [before_of_some hbi hbj]
    unfold KeyLt partnerAt at hij
    rw [hbi, hbj] at hij
    simp [ci, cj, cls_opening ci, cls_opening cj]
    exact hij
  · intro i hi j hj
    obtain ⟨bi, hbi, ci⟩ := hA i hi
    obtain ⟨bj, hbj, cj⟩ := hB j hj
    rw [before_of_some hbi hbj]
    simp [ci, cj, cls_closing ci, cls_opening cj]
  · refine pC.imp_of_mem ?_
    intro i j hi hj hij
    obtain ⟨bi, hbi, ci⟩ := hC i hi
    obtain ⟨bj, hbj, cj⟩ := hC j hj
    rw [before_of_some hbi hbj]
    simp [(cls_chain ci).1, (cls_chain ci).2, (cls_chain cj).1, (cls_chain cj).2, hij]
  · intro i hi j hj
    obtain ⟨bj, hbj, cj⟩ := hC j hj
    rcases mem_append.1 hi with hi | hi
    · obtain ⟨bi, hbi, ci⟩ := hA i hi
      rw [before_of_some hbi hbj]
      simp [ci, (cls_chain cj).1, (cls_chain cj).2]
    · obtain ⟨bi, hbi, ci⟩ := hB i hi
      rw [before_of_some hbi hbj]
      simp [ci, cls_opening ci, (cls_chain cj).1, (cls_chain cj).2]

/-- `decoderOrder out` lists the positions in the order `Before out` -/
theorem decoderOrder_pairwise (out : List PBond) : (decoderOrder out).Pairwise (Before out) := by
  unfold decoderOrder
  apply before_blocks
  · exact fun i hi => mem_positionsOf.1 hi
  · exact fun i hi => mem_positionsOf.1 ((stableSortBy_perm _ _).subset hi)
  · exact fun i hi => mem_positionsOf.1 hi
  · exact positionsOf_pairwise _ _
  · exact positionsOf_pairwise _ _
  · exact stableSortBy_pairwise _ _ (positionsOf_pairwise _ _)

/-- ... and it is the ONLY arrangement of the positions `0 .. out.length-1` in that order -/
theorem decoderOrder_unique (out : List PBond) (l : List Nat)
    (hp : l.Perm (List.range out.length)) (hs : l.Pairwise (Before out)) : l = decoderOrder out :=
  lex3_unique (hp.trans (decoderOrder_perm out).symm) hs (decoderOrder_pairwise out)

theorem positionsOf_eq_nil {p : PBond → Bool} {out : List PBond} (h : ∀ b ∈ out, p b = false) :
    positionsOf p out = [] := by
  unfold positionsOf
  rw [filter_eq_nil_iff]
  intro i hi
  rw [mem_range] at hi
  rw [getElem?_eq_getElem hi]
  simp [h _ (getElem_mem hi)]

theorem positionsOf_eq_range {p : PBond → Bool} {out : List PBond} (h : ∀ b ∈ out, p b = true) :
    positionsOf p out = List.range out.length := by
  unfold positionsOf
  rw [filter_eq_self]
  intro i hi
  rw [mem_range] at hi
  rw [getElem?_eq_getElem hi]
  exact h _ (getElem_mem hi)

/-- an atom without ring bonds keeps its neighbour order -/
theorem decoderOrder_of_no_ring (out : List PBond) (h : ∀ b ∈ out, b.ring = false) :
    decoderOrder out = List.range out.length := by
  unfold decoderOrder
  rw [positionsOf_eq_nil (p := PBond.isClosing) (fun b hb => by simp [PBond.isClosing, h b hb]),
    positionsOf_eq_nil (p := PBond.isOpening) (fun b hb => by simp [PBond.isOpening, h b hb]),
    positionsOf_eq_range (p := PBond.isChain) (fun b hb => by simp [PBond.isChain, h b hb])]
  rfl

/-! ### the model's pipeline -/

/-- the list `perm` that `shouldInvertChirality` builds, verbatim -/
def modelPerm (out : List PBond) : List Nat :=
  let ix := (List.range out.length).zip out
  let p2 := (ix.filter fun (_, b) => !b.ring).map (·.1)
  let p1 := ix.filter fun (_, b) => b.ring && b.src < b.dst
  let p0 := (ix.filter fun (_, b) => b.ring && !(b.src < b.dst)).map (·.1)
  let p1 := (p1.mergeSort fun a b => a.2.dst ≤ b.2.dst).map (·.1)
  p0 ++ p1 ++ p2

theorem shouldInvertChirality_unfold (m : PMol) (idx : Nat) :
    shouldInvertChirality m idx =
      (getOut m idx).bind fun out => .ok (inversions (modelPerm out) % 2 != 0) := by
  unfold shouldInvertChirality
  simp only [bind, pure, Except.pure, model_inversions_eq]
  rfl

private theorem modelPerm_eq' (out : List PBond) :
    modelPerm out =
      (((List.range out.length).zip out).filter (fun p => p.2.isClosing)
        ++ (((List.range out.length).zip out).filter (fun p => p.2.isOpening)).mergeSort
              (fun a b => a.2.dst ≤ b.2.dst)
        ++ ((List.range out.length).zip out).filter (fun p => p.2.isChain)).map Prod.fst := by
  simp only [map_append]
  rfl

private theorem mem_ix {out : List PBond} {p : Nat × PBond}
    (h : p ∈ (List.range out.length).zip out) : out[p.1]? = some p.2 := by
  obtain ⟨k, hk⟩ := getElem?_of_mem h
  rw [getElem?_zip_eq_some] at hk
  obtain ⟨h1, h2⟩ := hk
  obtain ⟨_, h3⟩ := List.getElem?_eq_some_iff.1 h1
  rw [getElem_range] at h3
  rw [← h3]
  exact h2

private theorem ix_map_fst (out : List PBond) :
    ((List.range out.length).zip out).map Prod.fst = List.range out.length :=
  map_fst_zip (by simp)

private theorem ix_pairwise (out : List PBond) :
    ((List.range out.length).zip out).Pairwise (fun p q => p.1 < q.1) := by
  have := pairwise_lt_range (n := out.length)
  rw [← ix_map_fst out, pairwise_map] at this
  exact this

theorem modelPerm_perm (out : List PBond) : (modelPerm out).Perm (List.range out.length) := by
  rw [modelPerm_eq']
  conv => rhs; rw [← ix_map_fst out]
  apply Perm.map
  refine Perm.trans (Perm.append_right _ (Perm.append_left _ (mergeSort_perm _ _))) ?_
  apply filter3_perm
  intro p _
  exact bond_trichotomy p.2

theorem modelPerm_pairwise (out : List PBond) : (modelPerm out).Pairwise (Before out) := by
  rw [modelPerm_eq', map_append, map_append]
  have hix := ix_pairwise out
  have hnd : ((List.range out.length).zip out).Nodup := hix.imp (fun h e => by subst e; omega)
  apply before_blocks
  · intro i hi
    obtain ⟨p, hp, rfl⟩ := mem_map.1 hi
    rw [mem_filter] at hp
    exact ⟨p.2, mem_ix hp.1, hp.2⟩
  · intro i hi
    obtain ⟨p, hp, rfl⟩ := mem_map.1 hi
    rw [mem_mergeSort, mem_filter] at hp
    exact ⟨p.2, mem_ix hp.1, hp.2⟩
  · intro i hi
    obtain ⟨p, hp, rfl⟩ := mem_map.1 hi
    rw [mem_filter] at hp
    exact ⟨p.2, mem_ix hp.1, hp.2⟩
  · rw [pairwise_map]
    exact Pairwise.sublist filter_sublist hix
  · rw [pairwise_map]
    exact Pairwise.sublist filter_sublist hix
  · rw [pairwise_map]
    have hst := mergeSort_stable_pairwise
      (fun (a b : Nat × PBond) => decide (a.2.dst ≤ b.2.dst)) (fun p q => p.1 < q.1)
      (fun a b c h1 h2 => by simp only [decide_eq_true_eq] at *; omega)
      (fun a b => by simp only [Bool.or_eq_true, decide_eq_true_eq]; omega)
      (((List.range out.length).zip out).filter (fun p => p.2.isOpening))
      (Nodup.sublist filter_sublist hnd) (Pairwise.sublist filter_sublist hix)
    refine hst.imp_of_mem ?_
    intro p q hp hq h
    rw [mem_mergeSort, mem_filter] at hp hq
    unfold KeyLt partnerAt
    rw [mem_ix hp.1, mem_ix hq.1]
    dsimp only
    simp only [decide_eq_true_eq] at h
    have h1 := h.1
    have h2 := h.2
    omega

/-- the model's `filter / mergeSort / zip` pipeline computes the specification -/
theorem modelPerm_eq (out : List PBond) : modelPerm out = decoderOrder out :=
  decoderOrder_unique out _ (modelPerm_perm out) (modelPerm_pairwise out)

theorem shouldInvertChirality_eq (m : PMol) (idx : Nat) (out : List PBond)
    (h : getOut m idx = .ok out) :
    shouldInvertChirality m idx = .ok (inversions (decoderOrder out) % 2 != 0) := by
  rw [shouldInvertChirality_unfold, h, ← modelPerm_eq]
  rfl

theorem shouldInvertChirality_error (m : PMol) (idx : Nat) (e : PyExc)
    (h : getOut m idx = .error e) : shouldInvertChirality m idx = .error e := by
  rw [shouldInvertChirality_unfold, h]
  rfl

/-! ## Part D: bond characters and stereo marks -/

/-- the stereo marks a bond end can carry -/
def stereoMarks : List (Option Char) := [none, some '/', some '\\']

/-- the bond prefix of the ring symbol that the encoder writes for a ring bond of half-unit order `o2`
    whose two ends carry the marks `ls` (opening end) and `rs` (closing end) -/
def ringPrefix (o2 : Nat) (ls rs : Option Char) : Str :=
  if o2 = 2 then
    if ls = none ∧ rs = none then [] else [ls.getD '-', rs.getD '-']
  else if o2 = 4 then ['='] else ['#']

theorem ringBondsToSelfies_congr (l r : PBond) :
    ringBondsToSelfies l r =
      ringBondsToSelfies ⟨0, 0, l.order2, l.stereo, true, none⟩ ⟨0, 0, r.order2, r.stereo, true, none⟩ := rfl

set_option maxRecDepth 100000 in
theorem ring_marks_table :
    ∀ o2 ∈ [2, 4, 6], ∀ ls ∈ stereoMarks, ∀ rs ∈ stereoMarks,
      ringBondsToSelfies ⟨0, 0, o2, ls, true, none⟩ ⟨0, 0, o2, rs, true, none⟩ = .ok (ringPrefix o2 ls rs) ∧
      ∀ L ∈ [1, 2, 3],
        processRingSymbol (ringSymbol (ringPrefix o2 ls rs) "Ring".toList L) =
          some (o2 / 2, L, if o2 = 2 then (ls, rs) else (none, none)) := by
  decide

theorem ringBondsToSelfies_ok_order (l r : PBond) (pre : Str) (h : ringBondsToSelfies l r = .ok pre) :
    l.order2 = r.order2 ∧ (l.order2 = 2 ∨ l.order2 = 4 ∨ l.order2 = 6) := by
  unfold ringBondsToSelfies pyAssert bondToSelfies bondToSmiles2 at h
  by_cases h1 : l.order2 = r.order2
  · refine ⟨h1, ?_⟩
    apply Decidable.byContradiction
    intro hn
    have h2 : r.order2 ≠ 2 := by omega
    have h4 : r.order2 ≠ 4 := by omega
    have h6 : r.order2 ≠ 6 := by omega
    simp [h1, h2, h4, h6, bind, Except.bind] at h
  · simp [h1, bind, Except.bind] at h

/-- the bond information `processAtomSelfiesNoCache` returns is read off the optional leading
    bond character alone -/
theorem processAtomSelfiesNoCache_bondInfo (body : Str) (r : (Nat × Option Char) × Atom)
    (h : processAtomSelfiesNoCache ('[' :: body) = some r) :
    r.1 = ((smilesToBond (takeOpt isBondChar body).1).1 / 2,
           (smilesToBond (takeOpt isBondChar body).1).2) := by
  unfold processAtomSelfiesNoCache at h
  simp only [] at h
  repeat' split at h
  all_goals first
    | (cases h; rfl)
    | cases h


/-- does the string start with one of `= # / \`? -/
def startsWithBondChar : Str → Bool
  | c :: _ => isBondChar c
  | [] => false

theorem takeOpt_mark (c : Char) (hc : isBondChar c = true) (rest : Str) :
    takeOpt isBondChar (c :: rest) = (some c, rest) := by
  simp [takeOpt, hc]

theorem takeOpt_nomark (body : Str) (h : startsWithBondChar body = false) :
    (takeOpt isBondChar body).1 = none := by
  cases body with
  | nil => rfl
  | cons c rest =>
    have : isBondChar c = false := h
    simp [takeOpt, this]

theorem isBondChar_of_isDigit (c : Char) (h : c.isDigit = true) : isBondChar c = false := by
  cases hb : isBondChar c with
  | false => rfl
  | true =>
    exfalso
    simp only [isBondChar, Bool.or_eq_true, beq_iff_eq] at hb
    rcases hb with ((rfl | rfl) | rfl) | rfl <;> revert h <;> decide

theorem startsWithBondChar_append_of_ne_nil (s t : Str) (hs : s ≠ []) :
    startsWithBondChar (s ++ t) = startsWithBondChar s := by
  cases s with
  | nil => exact absurd rfl hs
  | cons c s => rfl

theorem atomToSmiles_no_bondChar (a : Atom) (body : Str)
    (hne : a.element ≠ []) (he : startsWithBondChar a.element = false)
    (h : atomToSmiles a false = .ok body) : startsWithBondChar body = false := by
  unfold atomToSmiles at h
  split at h
  · cases h
  split at h
  · cases h; exact he
  · cases h
    simp only [Bool.false_eq_true, if_false, nil_append, append_nil, append_assoc]
    cases hiso : a.isotope with
    | none =>
      simp only [nil_append]
      rw [startsWithBondChar_append_of_ne_nil _ _ hne]; exact he
    | some n =>
      simp only []
      have hnn : natToStr n ≠ [] := Nat.toDigits_ne_nil
      rw [startsWithBondChar_append_of_ne_nil _ _ hnn]
      cases hd : natToStr n with
      | nil => exact absurd hd hnn
      | cons c ds =>
        have : c ∈ Nat.toDigits 10 n := by
          have : c ∈ natToStr n := by rw [hd]; exact mem_cons_self
          exact this
        exact isBondChar_of_isDigit c (Nat.isDigit_of_mem_toDigits (by decide) (by decide) this)

theorem elements_no_bondChar :
    ∀ e ∈ Gen.elements, e ≠ [] ∧ startsWithBondChar e = false := by decide

/-- `lookup` only finds keys of the table -/
theorem lookup_mem_keys {β : Type} (k : Str) (v : β) (d : List (Str × β)) (h : lookup k d = some v) :
    k ∈ d.map Prod.fst := by
  induction d with
  | nil => simp [lookup] at h
  | cons kv rest ih =>
    obtain ⟨k', v'⟩ := kv
    unfold lookup at h
    split at h
    · rename_i hk
      have : k' = k := by simpa using hk
      simp [this]
    · simp [ih h]

/-- what the reader makes of the three possible bond characters of the writer -/
theorem smilesToBond_table :
    smilesToBond none = (2, none) ∧ smilesToBond (some '/') = (2, some '/') ∧
    smilesToBond (some '\\') = (2, some '\\') ∧ smilesToBond (some '=') = (4, none) ∧
    smilesToBond (some '#') = (6, none) := by decide

theorem atomToSmiles_ok_not_aromatic (a : Atom) (body : Str) (h : atomToSmiles a false = .ok body) :
    a.isAromatic = false := by
  unfold atomToSmiles at h
  split at h
  · cases h
  · rename_i hn; simpa using hn

theorem atomToSelfies_eq (b : PBond) (a : Atom) (body bc : Str)
    (hb : atomToSmiles a false = .ok body) (hbc : bondToSelfies b true = .ok bc) :
    atomToSelfies (some b) a = .ok ('[' :: (bc ++ body ++ [']'])) := by
  unfold atomToSelfies pyAssert
  rw [atomToSmiles_ok_not_aromatic a body hb, hb]
  simp [hbc, bind, Except.bind, pure, Except.pure]

theorem atomToSelfies_error (b : PBond) (a : Atom) (body : Str) (e : PyExc)
    (hb : atomToSmiles a false = .ok body) (hbc : bondToSelfies b true = .error e) :
    atomToSelfies (some b) a = .error e := by
  unfold atomToSelfies pyAssert
  rw [atomToSmiles_ok_not_aromatic a body hb]
  simp [hbc, bind, Except.bind]

/-- a symbol that starts with a bond character `c` is read back with the bond of `c` -/
theorem readback_mark (c : Char) (hc : isBondChar c = true) (rest : Str)
    (r : (Nat × Option Char) × Atom)
    (h : processAtomSelfiesNoCache ('[' :: c :: rest) = some r) :
    r.1 = ((smilesToBond (some c)).1 / 2, (smilesToBond (some c)).2) := by
  have := processAtomSelfiesNoCache_bondInfo _ r h
  rw [takeOpt_mark c hc] at this
  exact this

/-- a symbol whose body does not start with a bond character is read back as a plain single bond -/
theorem readback_nomark (body : Str) (hb : startsWithBondChar body = false)
    (r : (Nat × Option Char) × Atom)
    (h : processAtomSelfiesNoCache ('[' :: (body ++ [']'])) = some r) :
    r.1 = ((smilesToBond none).1 / 2, (smilesToBond none).2) := by
  have := processAtomSelfiesNoCache_bondInfo _ r h
  have hb' : startsWithBondChar (body ++ [']']) = false := by
    cases body with
    | nil => decide
    | cons c s => exact hb
  rw [takeOpt_nomark _ hb'] at this
  exact this

end SV
